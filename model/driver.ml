(* vmodel: runs an op script on the extracted Coq model, in lockstep with a vrun transcript
   (see /verif/harness/PROTOCOL.md). Parsing / printing only: every decision is taken by
   extracted code from Model. Zarith's Z is used for conversions; the extracted modules are
   reached through the prefix M. *)
module M = Model

(* ---------- conversions ---------- *)
let rec pos_of_z (x : Z.t) : M.positive =
  if Z.equal x Z.one then M.XH
  else if Z.is_even x then M.XO (pos_of_z (Z.shift_right x 1))
  else M.XI (pos_of_z (Z.shift_right x 1))
let z_of (x : Z.t) : M.z =
  if Z.sign x = 0 then M.Z0 else if Z.sign x > 0 then M.Zpos (pos_of_z x) else M.Zneg (pos_of_z (Z.neg x))
let n_of (x : Z.t) : M.n = if Z.sign x = 0 then M.N0 else M.Npos (pos_of_z x)
let rec z_of_pos = function
  | M.XH -> Z.one
  | M.XO p -> Z.shift_left (z_of_pos p) 1
  | M.XI p -> Z.succ (Z.shift_left (z_of_pos p) 1)
let to_z = function M.Z0 -> Z.zero | M.Zpos p -> z_of_pos p | M.Zneg p -> Z.neg (z_of_pos p)
let to_zn = function M.N0 -> Z.zero | M.Npos p -> z_of_pos p
let rec int_of_nat = function M.O -> 0 | M.S n -> 1 + int_of_nat n
let rec nat_of_int n = if n <= 0 then M.O else M.S (nat_of_int (n - 1))
let zi (i : int) = z_of (Z.of_int i)

let byte_tab = Array.init 256 (fun i -> n_of (Z.of_int i))
let bytes_of_string (s : string) : M.byte list =
  let r = ref [] in
  for i = String.length s - 1 downto 0 do r := byte_tab.(Char.code s.[i]) :: !r done; !r
let string_of_bytes (l : M.byte list) : string =
  let b = Buffer.create 64 in
  List.iter (fun x -> Buffer.add_char b (Char.chr ((Z.to_int (to_zn x)) land 255))) l; Buffer.contents b
let hex_of_string s =
  if s = "" then "-" else begin
    let b = Buffer.create (2 * String.length s) in
    String.iter (fun c -> Buffer.add_string b (Printf.sprintf "%02x" (Char.code c))) s; Buffer.contents b end
let string_of_hex h =
  if h = "-" then "" else
  String.init (String.length h / 2) (fun i -> Char.chr (int_of_string ("0x" ^ String.sub h (2 * i) 2)))

let f64_of_hex (h : string) : M.f64 = M.f64_of_bits (n_of (Z.of_string ("0x" ^ h)))
let xstr (v : M.f64) : string =
  if M.f_is_nan v then "xnan" else "x" ^ Z.format "%016x" (to_zn (M.bits_of_f64 v))

(* canonical dyadic form of an exact rational *)
let fstr_q (q : M.qc) : string =
  let num = to_z q.M.this.M.qnum and den = z_of_pos q.M.this.M.qden in
  if Z.sign num = 0 then "0" else
  let k = Z.log2 den in
  if not (Z.equal den (Z.shift_left Z.one k)) then Printf.sprintf "ND:%s/%s" (Z.to_string num) (Z.to_string den)
  else
    let t = Z.trailing_zeros num in
    Printf.sprintf "%s@%d" (Z.to_string (Z.shift_right num t)) (t - k)
let fstr_v = function
  | M.FNaN -> "nan" | M.FInf false -> "+inf" | M.FInf true -> "-inf" | M.FFin q -> fstr_q q
let fstr_f (v : M.f64) = fstr_v (M.f2v v)
let qc_of_hex h = M.f2q (f64_of_hex h)
let qcmp a b = match M.qccompare a b with M.Lt -> -1 | M.Eq -> 0 | M.Gt -> 1

let err_name = function
  | M.ENegCount -> "neg-count" | M.ETooHigh -> "too-high" | M.ETooLow -> "too-low" | M.ENaN -> "nan"
  | M.EBadQuantile -> "bad-quantile" | M.EEmpty -> "empty" | M.EMismatch -> "mapping-mismatch"
  | M.EBadFactor -> "bad-factor" | M.EEof -> "eof" | M.EUnknownFlag -> "unknown-flag"
  | M.EUnknownBins -> "unknown-bins" | M.EUnknownMapping -> "unknown-mapping"
  | M.EMissingMapping -> "missing-mapping" | M.EMissingStats -> "missing-stats"
  | M.EOverflow32 -> "overflow32" | M.EBadGamma -> "bad-gamma" | M.EBadAccuracy -> "bad-accuracy" | M.EOther -> "other"

exception Missing of string
exception Unsupported

(* ---------- registers ---------- *)
type skreg = { mutable sk : M.sketch option; mutable tbl : (string, M.qc) Hashtbl.t;
               mutable mn : M.f64; mutable mx : M.f64;
               mutable gm : (M.f64 -> M.z) option * (M.z -> M.f64) option }   (* the glue model's Index / Value for this register's mapping, when known *)
(* differences between the mapping tables observed from the implementation (# idx, # val) and the glue model's own answers *)
let xdiff : string list ref = ref []
let stores : (string, M.store option) Hashtbl.t = Hashtbl.create 16
let sketches : (string, skreg) Hashtbl.t = Hashtbl.create 16
let bytesr : (string, string) Hashtbl.t = Hashtbl.create 16
let datasets : (string, M.dataset) Hashtbl.t = Hashtbl.create 16
let statsr : (string, M.summary) Hashtbl.t = Hashtbl.create 16
let specs : (string, M.mapid * M.f64 * M.f64) Hashtbl.t = Hashtbl.create 16   (* global: mapping spec -> identity, range *)
let reset_regs () = Hashtbl.reset stores; Hashtbl.reset sketches; Hashtbl.reset bytesr; Hashtbl.reset datasets; Hashtbl.reset statsr

let get_store r = match Hashtbl.find_opt stores r with Some (Some s) -> s | _ -> raise Unsupported
let get_sk r = match Hashtbl.find_opt sketches r with Some ({ sk = Some s; _ } as g) -> (g, s) | _ -> raise Unsupported
let get_bytes r = match Hashtbl.find_opt bytesr r with Some b -> b | None -> raise Unsupported

let parse_kind (k : string) : M.kind =
  match k with
  | "dense" -> M.KDense | "sparse" -> M.KSparse | "pag" -> M.KPag
  | _ ->
    (match String.split_on_char ':' k with
     | ["low"; n] -> M.KLow (z_of (Z.of_string n))
     | ["high"; n] -> M.KHigh (z_of (Z.of_string n))
     | _ -> raise Unsupported)

(* ---------- side channel ---------- *)
let side_find (side : string list) (key : string) : string list option =
  List.find_map (fun l -> match String.split_on_char ' ' l with
                          | "#" :: k :: rest when k = key -> Some rest | _ -> None) side
let side_bytes side = match side_find side "bytes" with Some [h] -> string_of_hex h | _ -> raise (Missing "bytes")
let unx (s : string) = if String.length s > 1 && s.[0] = 'x' then String.sub s 1 (String.length s - 1) else s
let field (fs : string list) (k : string) : string =
  let p = k ^ "=" in
  match List.find_opt (fun f -> String.length f >= String.length p && String.sub f 0 (String.length p) = p) fs with
  | Some f -> String.sub f (String.length p) (String.length f - String.length p)
  | None -> raise (Missing k)
(* # map kind=… gamma=x… off=x… acc=x… min=x… max=x… *)
let side_map side : (M.mapid * M.f64 * M.f64) option =
  match side_find side "map" with
  | None -> None
  | Some fs ->
    let kind = match field fs "kind" with "log" -> 0 | "lin" -> 1 | "cub" -> 3 | _ -> raise (Missing "kind") in
    let g = field fs "gamma" and o = field fs "off" and mn = field fs "min" and mx = field fs "max" in
    if g = "xnan" || o = "xnan" || mn = "xnan" || mx = "xnan" then None else
    Some ({ M.mk_kind = n_of (Z.of_int kind); M.mk_gamma = f64_of_hex (unx g); M.mk_off = f64_of_hex (unx o) },
          f64_of_hex (unx mn), f64_of_hex (unx mx))
let absorb_vals (g : skreg) side =
  List.iter (fun l -> match String.split_on_char ' ' l with
                      | ["#"; "val"; i; x] ->
                        (match snd g.gm with
                         | Some value -> let mv = xstr (value (z_of (Z.of_string i))) in
                           if mv <> x && not (List.mem "MODEL-VAL-DIFFERS" !xdiff) then xdiff := ("MODEL-VAL-DIFFERS " ^ i ^ ":" ^ mv) :: !xdiff
                         | None -> ());
                        if x <> "xnan" then Hashtbl.replace g.tbl i (M.f2q (f64_of_hex (unx x)))
                      | _ -> ()) side
let mtable_of (g : skreg) side : M.mtable =
  { M.mt_index = (fun v -> match side_find side "idx" with
        | Some [i] ->
          (match fst g.gm with
           | Some index -> let mi = Z.to_string (to_z (index (M.q2f v))) in if mi <> i then xdiff := ("MODEL-IDX-DIFFERS " ^ mi) :: !xdiff
           | None -> ());
          z_of (Z.of_string i)
        | _ -> raise (Missing "idx"));
    M.mt_value = (fun i -> let k = Z.to_string (to_z i) in
                           match Hashtbl.find_opt g.tbl k with Some v -> v | None -> raise (Missing ("val " ^ k)));
    M.mt_min = g.mn; M.mt_max = g.mx }

(* ---------- printing of stores ---------- *)
let bins_str (l : (M.z * M.w) list) : string =
  let l = List.stable_sort (fun (a, _) (b, _) -> Z.compare (to_z a) (to_z b)) l in
  String.concat "," (List.map (fun (i, w) -> Z.to_string (to_z i) ^ ":" ^ fstr_q w) l)
let optz = function Some i -> Z.to_string (to_z i) | None -> "-"
(* obsline; returns the (possibly reorganised) store *)
let obsline (s : M.store) : M.store * string =
  match M.st_foreach s with
  | None -> (s, "panic")
  | Some (s', l) ->
    let total = M.st_total s' and empty = M.st_is_empty s' and mn = M.st_min s' and mx = M.st_max s' in
    let line = Printf.sprintf "total=%s empty=%d min=%s max=%s bins=%s" (fstr_q total) (if empty then 1 else 0) (optz mn) (optz mx) (bins_str l) in
    (* lockstep sanity: Layer A observers of the abstraction *)
    let a = M.st_abs s' in
    let (((at, ae), amn), amx) = M.a_obs a in
    let la = Printf.sprintf "total=%s empty=%d min=%s max=%s bins=%s" (fstr_q at) (if ae then 1 else 0) (optz amn) (optz amx) (bins_str a) in
    (* the paginated store's MinIndex/MaxIndex transcribed loop by loop must agree with the scan-based definitions *)
    let loops_ok = (match s' with
        | M.SP p -> optz (M.xp_min_go p) = optz mn && optz (M.xp_max_go p) = optz mx
        | _ -> true) in
    (s', if la <> line then "MODEL-INCONSISTENT B[" ^ line ^ "] A[" ^ la ^ "]"
         else if not loops_ok then "MODEL-INCONSISTENT paginated-loops min/max " ^ line else line)

(* ---------- instruction execution ---------- *)
let z_of_tok t = z_of (Z.of_string t)
let fixes_unit = ()

let rec drop n l = if n <= 0 then l else match l with [] -> [] | _ :: t -> drop (n - 1) t

let codec_res (pr : 'a -> string) (input : M.byte list) (r : 'a M.res) : string =
  match r with
  | M.Ok (v, rest) -> Printf.sprintf "ok %s %d" (pr v) (List.length input - List.length rest)
  | M.Eof -> "err eof"
  | M.Overflow32 -> "err overflow32 advanced"

let sk_result (g : skreg) (r : M.sketch M.result) : string =
  match r with
  | M.ROk s' -> g.sk <- Some s'; "ok"
  | M.RErr e -> "err " ^ err_name e
  | M.RPanic -> g.sk <- None; "panic"

let new_reg mn mx sk = { sk; tbl = Hashtbl.create 64; mn; mx; gm = (None, None) }

let kobs_line (g : skreg) (s : M.sketch) side : string =
  absorb_vals g side;
  let mt = mtable_of g side in
  let (p', pl) = obsline s.M.sk_pos in
  let (n', nl) = obsline s.M.sk_neg in
  let s = M.with_stores s p' n' in
  g.sk <- Some s;
  let mm r = match r with M.ROk v -> fstr_v v | M.RErr _ -> "-" | M.RPanic -> "panic" in
  Printf.sprintf "count=%s zero=%s empty=%d min=%s max=%s pos[%s] neg[%s]"
    (fstr_q (M.sk_count s)) (fstr_q s.M.sk_zero) (if M.sk_is_empty s then 1 else 0)
    (mm (M.sk_min mt s)) (mm (M.sk_max mt s)) pl nl


(* ---------- reference decoder cross-checks (C07): implementation bytes read by the documentation-only decoder ---------- *)
let bins_line (b : (M.z * M.w) list) = bins_str b
let ref_check_store (bytes : string) (neg : bool) (s : M.store) : string =
  match M.ref_decode_raw (bytes_of_string bytes) with
  | None -> " REF-DECODE-FAILS"
  | Some c ->
    let got = if neg then c.M.c_neg else c.M.c_pos and other = if neg then c.M.c_pos else c.M.c_neg in
    if bins_line got = bins_line (M.st_abs s) && other = [] then "" else " REF-DECODE-DIFFERS store[" ^ bins_line got ^ "]"
let ref_check_sketch (bytes : string) (omit : bool) (s : M.sketch) : string =
  match M.ref_decode_raw (bytes_of_string bytes) with
  | None -> " REF-DECODE-FAILS"
  | Some c ->
    let pb = ref [] in
    if bins_line c.M.c_pos <> bins_line (M.st_abs s.M.sk_pos) then pb := "pos" :: !pb;
    if bins_line c.M.c_neg <> bins_line (M.st_abs s.M.sk_neg) then pb := "neg" :: !pb;
    if fstr_q c.M.c_zero <> fstr_q s.M.sk_zero then pb := "zero" :: !pb;
    (match c.M.c_map, omit with
     | None, true -> ()
     | Some ((k, g), o), false ->
       if not (Z.equal (to_zn k) (to_zn s.M.sk_map.M.mk_kind) && xstr g = xstr s.M.sk_map.M.mk_gamma && xstr o = xstr s.M.sk_map.M.mk_off) then pb := "mapping" :: !pb
     | _ -> pb := "mapping-presence" :: !pb);
    (match s.M.sk_stats with
     | None -> if c.M.c_count <> [] || c.M.c_sum <> [] || c.M.c_min <> [] || c.M.c_max <> [] then pb := "stats-presence" :: !pb
     | Some t ->
       let one l v skip = (match l with [] -> skip | [x] -> xstr x = xstr v | _ -> false) in
       let zero = f64_of_hex "0000000000000000" in
       if not (one c.M.c_count (M.su_count t) (M.feq (M.su_count t) zero)) then pb := "count" :: !pb;
       if not (one c.M.c_sum (M.su_get_sum t) (M.feq (M.su_get_sum t) zero)) then pb := "sum" :: !pb;
       if not (one c.M.c_min (M.su_min t) (xstr (M.su_min t) = "x7ff0000000000000")) then pb := "min" :: !pb;
       if not (one c.M.c_max (M.su_max t) (xstr (M.su_max t) = "xfff0000000000000")) then pb := "max" :: !pb);
    if !pb = [] then "" else " REF-DECODE-DIFFERS " ^ String.concat "," !pb
let strip_prefix (bytes : string) (rest : string list) : string =
  match rest with
  | [pre] -> let n = String.length (string_of_hex pre) in String.sub bytes n (String.length bytes - n)
  | _ -> bytes

(* ---------- mapping glue model: Go's math library answers through the `vrun --libm` coprocess ---------- *)
let libm_proc : (in_channel * out_channel) option ref = ref None
let libm_call (fn : string) (args : M.f64 list) : M.f64 =
  let (ic, oc) = match !libm_proc with
    | Some p -> p
    | None ->
      let vrun = try Sys.getenv "VRUN" with Not_found -> Filename.concat (Filename.dirname Sys.executable_name) "../.work/vrun" in
      let p = Unix.open_process (vrun ^ " --libm") in libm_proc := Some p; p in
  let hex v = Z.format "%016x" (to_zn (M.bits_of_f64 v)) in
  output_string oc (fn ^ " " ^ String.concat " " (List.map hex args) ^ "\n"); flush oc;
  let ans = String.trim (input_line ic) in
  (* VMODEL_LIBMLOG=<file>: append every libm request and Go's answer (used to record finite libm tables for Coq replays) *)
  (match Sys.getenv_opt "VMODEL_LIBMLOG" with
   | Some f -> let lc = open_out_gen [Open_append; Open_creat] 0o644 f in
     output_string lc (fn ^ " " ^ String.concat " " (List.map hex args) ^ " -> " ^ ans ^ "\n"); close_out lc
   | None -> ());
  f64_of_hex ans
let the_libm : M.libm =
  { M.l_log = (fun x -> libm_call "log" [x]); M.l_exp = (fun x -> libm_call "exp" [x]); M.l_exp2 = (fun x -> libm_call "exp2" [x]);
    M.l_log2 = (fun x -> libm_call "log2" [x]); M.l_pow = (fun x y -> libm_call "pow" [x; y]); M.l_cbrt = (fun x -> libm_call "cbrt" [x]);
    M.l_sqrt = (fun x -> libm_call "sqrt" [x]); M.l_floor = (fun x -> libm_call "floor" [x]) }
let mappings : (string, M.gmap) Hashtbl.t = Hashtbl.create 16
let mkind_of = function "log" -> M.MLog | "lin" -> M.MLin | "cub" -> M.MCub | _ -> raise Unsupported
(* result of a mapping spec in the model: Ok gmap | Error class *)
let model_mapping (spec : string) : (M.gmap, string) result =
  match String.split_on_char ':' spec with
  | [k; "a"; h] -> (match M.with_accuracy the_libm (mkind_of k) (f64_of_hex h) with Some m -> Ok m | None -> Error "err bad-accuracy")
  | [k; "g"; g; o] -> (match M.with_gamma the_libm (mkind_of k) (f64_of_hex g) (f64_of_hex o) with Some m -> Ok m | None -> Error "err bad-gamma")
  | _ -> raise Unsupported
(* compare the model's mapping with the `# map` line of the implementation, field by field, bit for bit *)
let map_diff (m : M.gmap) side : string =
  match side_find side "map" with
  | None -> " MODEL-MAP-DIFFERS no-map-line"
  | Some fs ->
    let chk name v = if field fs name = xstr v then [] else [name] in
    let kind = (match m.M.gm_kind with M.MLog -> "log" | M.MLin -> "lin" | M.MCub -> "cub") in
    let d = (if field fs "kind" = kind then [] else ["kind"]) @ chk "gamma" m.M.gm_gamma @ chk "off" m.M.gm_off
            @ chk "acc" (M.gm_accuracy the_libm m) @ chk "min" m.M.gm_min @ chk "max" m.M.gm_max in
    if d = [] then "" else " MODEL-MAP-DIFFERS " ^ String.concat "," d
let mapid_of (m : M.gmap) : M.mapid =
  { M.mk_kind = n_of (Z.of_int (match m.M.gm_kind with M.MLog -> 0 | M.MLin -> 1 | M.MCub -> 3)); M.mk_gamma = m.M.gm_gamma; M.mk_off = m.M.gm_off }

(* guard: bytes whose documented meaning has indexes outside the int32 range (or a span no dense array / page table
   could hold) come from a misbehaving implementation; the model does not follow it there *)
let bytes_sane (bytes : string) : bool =
  match M.ref_decode_raw (bytes_of_string bytes) with
  | None -> true
  | Some c ->
    let ok l = (match l with
        | [] -> true
        | _ -> let ks = List.map (fun (k, _) -> to_z k) l in
          let mn = List.fold_left Z.min (List.hd ks) ks and mx = List.fold_left Z.max (List.hd ks) ks in
          Z.leq (Z.of_string "-2147483648") mn && Z.leq mx (Z.of_string "2147483647")) in
    ok c.M.c_pos && ok c.M.c_neg
let span_ok (bytes : string) (dense_target : bool) : bool =
  if not dense_target then true else
  match M.ref_decode_raw (bytes_of_string bytes) with
  | None -> true
  | Some c ->
    let ok l = (match l with
        | [] -> true
        | _ -> let ks = List.map (fun (k, _) -> to_z k) l in
          let mn = List.fold_left Z.min (List.hd ks) ks and mx = List.fold_left Z.max (List.hd ks) ks in
          Z.leq (Z.sub mx mn) (Z.of_int 4000000)) in
    ok c.M.c_pos && ok c.M.c_neg

(* ---------- protobuf forms (C09): messages as the Coq records of Wire/Proto.v ---------- *)
let pstores : (string, M.pb_store) Hashtbl.t = Hashtbl.create 16
let psketches : (string, M.pb_sketch) Hashtbl.t = Hashtbl.create 16
let pmappings : (string, M.pb_mapping) Hashtbl.t = Hashtbl.create 16
let pb_store_str (p : M.pb_store) : string =
  let ents = List.stable_sort (fun (a, _) (b, _) -> Z.compare (to_z a) (to_z b)) (M.pb_map_view p.M.bin_counts) in
  Printf.sprintf "bins=%s off=%s contig=%s"
    (String.concat "," (List.map (fun (i, w) -> Z.to_string (to_z i) ^ ":" ^ fstr_f w) ents))
    (Z.to_string (to_z p.M.contiguous_offset)) (String.concat "," (List.map fstr_f p.M.contiguous_counts))
(* ToProto / MergeWithProto / FromProto are the Coq functions of Wire/ProtoB.v (theorems: Props/Misc.v C09_b_...) *)
let pb_of_store (s : M.store) : M.pb_store = match M.st_to_proto s with Some r -> r | None -> failwith "panic"
let pb_sketch_str (p : M.pb_sketch) : string =
  let st = function Some s -> "[" ^ pb_store_str s ^ "]" | None -> "nil" in
  Printf.sprintf "map=%s zero=%s pos=%s neg=%s"
    (match p.M.ps_mapping with Some m -> Printf.sprintf "%s:%s:%s" (Z.to_string (to_zn m.M.pm_interp)) (xstr m.M.pm_gamma) (xstr m.M.pm_offset) | None -> "nil")
    (fstr_f p.M.ps_zero) (st p.M.ps_pos) (st p.M.ps_neg)
let pb_mapping_str (m : M.pb_mapping) : string =
  let i = to_zn m.M.pm_interp in let i = if Z.geq i (Z.shift_left Z.one 31) then Z.sub i (Z.shift_left Z.one 32) else i in
  Printf.sprintf "%s:%s:%s" (Z.to_string i) (xstr m.M.pm_gamma) (xstr m.M.pm_offset)
let pb_of_sketch (s : M.sketch) : M.pb_sketch = match M.sk_to_proto s with Some r -> r | None -> failwith "panic"
let merge_with_proto (s : M.store) (p : M.pb_store) : M.store option = M.st_merge_with_proto_go s p
let parse_protomk (toks : string list) : M.pb_store =
  let get k = field toks k in
  let bins = (match get "bins" with "" -> [] | b -> List.map (fun e -> match String.split_on_char ':' e with [i; w] -> (z_of_tok i, f64_of_hex w) | _ -> raise Unsupported) (String.split_on_char ',' b)) in
  let (off, cs) = (match String.split_on_char ':' (get "contig") with
      | [o; ""] -> (z_of_tok o, []) | [o; l] -> (z_of_tok o, List.map f64_of_hex (String.split_on_char ',' l)) | _ -> raise Unsupported) in
  { M.bin_counts = bins; M.contiguous_counts = cs; M.contiguous_offset = off }
let exec_proto (toks : string list) (side : string list) : string =
  match toks with
  | ["toproto"; p; r] -> Hashtbl.replace pstores p (pb_of_store (get_store r)); "ok"
  | ["pobs"; p] -> pb_store_str (Hashtbl.find pstores p)
  | ["pstream"; b; r] ->
    let ib = side_bytes side in Hashtbl.replace bytesr b ib;
    (match M.parse_store (bytes_of_string ib) with
     | Some m -> if pb_store_str m = pb_store_str (pb_of_store (get_store r)) then "ok" else "ok MODEL-STREAM-DIFFERS [" ^ pb_store_str m ^ "]"
     | None -> "ok MODEL-STREAM-UNPARSABLE")
  | ["pmarshal"; b; p] ->
    let ib = side_bytes side in Hashtbl.replace bytesr b ib;
    (match M.parse_store (bytes_of_string ib) with
     | Some m -> if pb_store_str m = pb_store_str (Hashtbl.find pstores p) then "ok" else "ok MODEL-MARSHAL-DIFFERS"
     | None -> "ok MODEL-MARSHAL-UNPARSABLE")
  | ["punmarshal"; p; b] ->
    (match M.parse_store (bytes_of_string (get_bytes b)) with Some m -> Hashtbl.replace pstores p m; "ok" | None -> "err other")
  | "protomk" :: p :: rest -> Hashtbl.replace pstores p (parse_protomk rest); "ok"
  | ["fromproto"; r; p] ->
    (match merge_with_proto (get_store r) (Hashtbl.find pstores p) with
     | Some s -> Hashtbl.replace stores r (Some s); "ok" | None -> Hashtbl.replace stores r None; "panic")
  | ["newfromproto"; r; p] ->
    (match merge_with_proto (M.st_new M.KDense) (Hashtbl.find pstores p) with
     | Some s -> Hashtbl.replace stores r (Some s); "ok" | None -> Hashtbl.replace stores r None; "panic")
  (* ----- mapping messages (C19): ToProto, the streaming writer, marshal/unmarshal through the schema parser, FromProto ----- *)
  | ["mproto"; q; m] ->
    let gm = Hashtbl.find mappings m in let id = mapid_of gm in
    Hashtbl.replace pmappings q { M.pm_gamma = id.M.mk_gamma; M.pm_offset = id.M.mk_off; M.pm_interp = id.M.mk_kind }; "ok"
  | ["mpobs"; q] -> pb_mapping_str (Hashtbl.find pmappings q)
  | ["mpmk"; q; interp; g; o] ->
    let i = Z.of_string interp in let i = if Z.sign i < 0 then Z.add i (Z.shift_left Z.one 32) else i in
    Hashtbl.replace pmappings q { M.pm_gamma = f64_of_hex g; M.pm_offset = f64_of_hex o; M.pm_interp = n_of i }; "ok"
  | ["mpedit"; q; fld; v] ->
    let pm = Hashtbl.find pmappings q in
    let pm' = (match fld with
        | "gamma" -> { pm with M.pm_gamma = f64_of_hex v }
        | "off" -> { pm with M.pm_offset = f64_of_hex v }
        | "interp" -> let i = Z.of_string v in let i = if Z.sign i < 0 then Z.add i (Z.shift_left Z.one 32) else i in { pm with M.pm_interp = n_of i }
        | _ -> raise Unsupported) in
    Hashtbl.replace pmappings q pm'; "ok"
  | ["mstream"; b; m] ->
    let gm = Hashtbl.find mappings m in let id = mapid_of gm in
    let want = { M.pm_gamma = id.M.mk_gamma; M.pm_offset = id.M.mk_off; M.pm_interp = id.M.mk_kind } in
    let ib = side_bytes side in Hashtbl.replace bytesr b ib;
    if string_of_bytes (M.stream_mapping want) <> ib then "ok MODEL-STREAM-BYTES-DIFFER"
    else (match M.parse_mapping (bytes_of_string ib) with
        | Some pm -> if pb_mapping_str pm = pb_mapping_str want then "ok" else "ok MODEL-STREAM-DIFFERS [" ^ pb_mapping_str pm ^ "]"
        | None -> "ok MODEL-STREAM-UNPARSABLE")
  | ["mpmarshal"; b; q] ->
    let ib = side_bytes side in Hashtbl.replace bytesr b ib;
    (match M.parse_mapping (bytes_of_string ib) with
     | Some pm -> if pb_mapping_str pm = pb_mapping_str (Hashtbl.find pmappings q) then "ok" else "ok MODEL-MARSHAL-DIFFERS"
     | None -> "ok MODEL-MARSHAL-UNPARSABLE")
  | ["mpunmarshal"; q; b] ->
    (match M.parse_mapping (bytes_of_string (get_bytes b)) with Some pm -> Hashtbl.replace pmappings q pm; "ok" | None -> "err other")
  | ["mfromproto"; m; q] ->
    if q = "-" then "err nil-proto" else
    let pm = Hashtbl.find pmappings q in
    let kk = Z.to_int (to_zn pm.M.pm_interp) in
    (match (match kk with 0 -> Some M.MLog | 1 -> Some M.MLin | 3 -> Some M.MCub | _ -> None) with
     | None -> "err other"
     | Some kd -> (match M.with_gamma the_libm kd pm.M.pm_gamma pm.M.pm_offset with
         | Some gm -> Hashtbl.replace mappings m gm; "ok" ^ map_diff gm side
         | None -> "err bad-gamma"))
  | ["ktoproto"; p; k] -> let (_, s) = get_sk k in Hashtbl.replace psketches p (pb_of_sketch s); "ok"
  | ["kpobs"; p] -> pb_sketch_str (Hashtbl.find psketches p)
  | ["kpscale"; p; f] -> Hashtbl.replace psketches p (M.pb_sketch_scale (f64_of_hex f) (Hashtbl.find psketches p)); "ok"      (* Wire/ProtoEdit.v: the edited message stays modelled *)
  | ["kstream"; b; k] ->
    let (_, s) = get_sk k in
    let ib = side_bytes side in Hashtbl.replace bytesr b ib;
    (match M.parse_sketch (bytes_of_string ib) with
     | Some m -> if pb_sketch_str m = pb_sketch_str (pb_of_sketch s) then "ok" else "ok MODEL-STREAM-DIFFERS [" ^ pb_sketch_str m ^ "]"
     | None -> "ok MODEL-STREAM-UNPARSABLE")
  | ["kpmarshal"; b; p] ->
    let ib = side_bytes side in Hashtbl.replace bytesr b ib;
    (match M.parse_sketch (bytes_of_string ib) with
     | Some m -> if pb_sketch_str m = pb_sketch_str (Hashtbl.find psketches p) then "ok" else "ok MODEL-MARSHAL-DIFFERS"
     | None -> "ok MODEL-MARSHAL-UNPARSABLE")
  | ["kpunmarshal"; p; b] ->
    (match M.parse_sketch (bytes_of_string (get_bytes b)) with Some m -> Hashtbl.replace psketches p m; "ok" | None -> "err other")
  | ["kfromproto"; k; p; kind] ->
    let kd = parse_kind (if kind = "default" then "pag" else kind) in
    (match M.sk_from_proto kd kd (Hashtbl.find psketches p) with
     | M.RErr M.EMissingMapping -> "err nil-proto"
     | M.RErr M.EBadGamma -> "err bad-gamma"
     | M.RErr _ -> "err other"
     | M.RPanic -> "panic"
     | M.ROk sk ->
       (match side_map side with
        | Some (_, mn, mx) -> Hashtbl.replace sketches k (new_reg mn mx (Some sk)); "ok"
        | None -> raise Unsupported))
  | ["kpmk"; p; interp; gamma; off; zero; pp; np] ->
    let st x = if x = "-" then None else Some (Hashtbl.find pstores x) in
    Hashtbl.replace psketches p
      { M.ps_mapping = Some { M.pm_gamma = f64_of_hex gamma; M.pm_offset = f64_of_hex off; M.pm_interp = n_of (Z.of_string interp) };
        M.ps_pos = st pp; M.ps_neg = st np; M.ps_zero = f64_of_hex zero }; "ok"
  | _ -> raise Unsupported

let rec exec (toks : string list) (side : string list) (impl_result : string) : string =
  match toks with
  (* ----- stores ----- *)
  | ["new"; r; k] -> Hashtbl.replace stores r (Some (M.st_new (parse_kind k))); "ok"
  | ["add"; r; i] ->
    (match M.st_add (get_store r) (z_of_tok i) with
     | Some s -> Hashtbl.replace stores r (Some s); "ok" | None -> Hashtbl.replace stores r None; "panic")
  | ["addw"; r; i; w] ->
    (match M.st_addw (get_store r) (z_of_tok i) (qc_of_hex w) with
     | Some s -> Hashtbl.replace stores r (Some s); "ok" | None -> Hashtbl.replace stores r None; "panic")
  | ["addbin"; r; i; w] ->
    let wf = f64_of_hex w in
    if M.flt wf (f64_of_hex "0000000000000000") then "err neg-count" else
    (match M.st_addw (get_store r) (z_of_tok i) (M.f2q wf) with
     | Some s -> Hashtbl.replace stores r (Some s); "ok" | None -> Hashtbl.replace stores r None; "panic")
  | ["merge"; r; r2] ->
    if r = r2 then raise Unsupported else
    (match M.st_merge (get_store r) (get_store r2) with
     | Some (a, b) -> Hashtbl.replace stores r (Some a); Hashtbl.replace stores r2 (Some b); "ok"
     | None -> Hashtbl.replace stores r None; "panic")
  | ["copy"; r2; r] -> Hashtbl.replace stores r2 (Some (M.st_copy (get_store r))); "ok"
  | ["clear"; r] -> Hashtbl.replace stores r (Some (M.st_clear (get_store r))); "ok"
  | ["reweight"; r; w] ->
    (match M.st_reweight (get_store r) (qc_of_hex w) with
     | M.RwOk s -> Hashtbl.replace stores r (Some s); "ok"
     | M.RwRefused -> "err bad-factor"
     | M.RwPanic -> Hashtbl.replace stores r None; "panic")
  | ["rank"; r; w] ->
    let s0 = get_store r in
    let (s', k) = M.st_key_at_rank s0 (qc_of_hex w) in
    Hashtbl.replace stores r (Some s');
    let loops_ok = (match s0 with M.SP p -> Z.equal (to_z (snd (M.xp_key_at_rank_go p (qc_of_hex w)))) (to_z k) | _ -> true) in
    if loops_ok then Z.to_string (to_z k) else "MODEL-INCONSISTENT paginated-loops rank " ^ Z.to_string (to_z k)
  | ["obs"; r] -> let (s', l) = obsline (get_store r) in Hashtbl.replace stores r (Some s'); l
  | ["binsch"; r] ->
    (match M.st_foreach (get_store r) with
     | Some (s', l) -> Hashtbl.replace stores r (Some s'); "bins=" ^ bins_str l
     | None -> "panic")
  | ["foreachstop"; r; n] ->
    (match M.st_foreach (get_store r) with
     | Some (s', l) -> Hashtbl.replace stores r (Some s');
       let n = int_of_string n and len = List.length l in
       Printf.sprintf "calls=%d" (if n >= 1 then min n len else len)
     | None -> "panic")
  | "enc" :: b :: r :: pn :: rest ->
    let t = if pn = "pos" then M.ft_positive else M.ft_negative in
    let (s', _mb) = M.enc_store (get_store r) t in
    Hashtbl.replace stores r (Some s');
    let ib = side_bytes side in
    Hashtbl.replace bytesr b ib; "ok" ^ ref_check_store (strip_prefix ib rest) (pn <> "pos") s'
  | ["dec"; r; b] ->
    let bs = get_bytes b in
    if not (bytes_sane bs && span_ok bs (match get_store r with M.SS _ -> false | _ -> true)) then raise Unsupported else
    (match M.dec_store_all (nat_of_int (String.length bs + 1)) (get_store r) (bytes_of_string bs) with
     | M.DOk (s', _) -> Hashtbl.replace stores r (Some s'); "ok"
     | M.DErr e -> Hashtbl.replace stores r None; "err " ^ err_name e
     | M.DPanic -> Hashtbl.replace stores r None; "panic")
  (* ----- bytes ----- *)
  | ["braw"; b; h] -> Hashtbl.replace bytesr b (string_of_hex h); "ok"
  | "bcat" :: b :: rest -> Hashtbl.replace bytesr b (String.concat "" (List.map get_bytes rest)); "ok"
  | ["bcut"; b; b1; n] -> let s = get_bytes b1 in Hashtbl.replace bytesr b (String.sub s 0 (int_of_string n)); "ok"
  | ["bdrop"; b; b1; n] -> let s = get_bytes b1 and n = int_of_string n in
    Hashtbl.replace bytesr b (String.sub s n (String.length s - n)); "ok"
  | ["bset"; b; b1; pos; byte] ->
    let s = Bytes.of_string (get_bytes b1) in
    Bytes.set s (int_of_string pos) (Char.chr (int_of_string byte)); Hashtbl.replace bytesr b (Bytes.to_string s); "ok"
  | ["blen"; b] -> string_of_int (String.length (get_bytes b))
  | ["bhex"; b] -> hex_of_string (get_bytes b)
  (* ----- codecs ----- *)
  | ["uv"; "enc"; v] -> hex_of_string (string_of_bytes (M.enc_uv (n_of (Z.of_string v))))
  | ["uv"; "dec"; h] -> let i = bytes_of_string (string_of_hex h) in codec_res (fun v -> Z.to_string (to_zn v)) i (M.dec_uv i)
  | ["uv"; "size"; v] -> string_of_int (int_of_nat (M.uv_size (n_of (Z.of_string v))))
  | ["sv"; "enc"; v] -> hex_of_string (string_of_bytes (M.enc_sv (z_of_tok v)))
  | ["sv"; "dec"; h] -> let i = bytes_of_string (string_of_hex h) in codec_res (fun v -> Z.to_string (to_z v)) i (M.dec_sv i)
  | ["sv"; "size"; v] -> string_of_int (int_of_nat (M.sv_size (z_of_tok v)))
  | ["sv32"; "dec"; h] -> let i = bytes_of_string (string_of_hex h) in codec_res (fun v -> Z.to_string (to_z v)) i (M.dec_sv32 i)
  | ["f64"; "enc"; x] -> hex_of_string (string_of_bytes (M.enc_f64le (f64_of_hex x)))
  | ["f64"; "dec"; h] -> let i = bytes_of_string (string_of_hex h) in codec_res xstr i (M.dec_f64le i)
  | ["f64"; "decbits"; h] -> let i = bytes_of_string (string_of_hex h) in codec_res (fun v -> "b" ^ hex_of_string (string_of_bytes (M.enc_f64le v))) i (M.dec_f64le i)
  | ["vf"; "enc"; x] -> hex_of_string (string_of_bytes (M.enc_vf (f64_of_hex x)))
  | ["vf"; "dec"; h] -> let i = bytes_of_string (string_of_hex h) in codec_res xstr i (M.dec_vf i)
  | ["vf"; "size"; x] -> string_of_int (int_of_nat (M.vf_size (f64_of_hex x)))
  | ["flag"; "dec"; h] ->
    let i = bytes_of_string (string_of_hex h) in
    codec_res (fun f -> Printf.sprintf "%s type=%s sub=%s" (Z.to_string (to_zn f)) (Z.to_string (to_zn (M.flag_type f))) (Z.to_string (to_zn (M.flag_sub f)))) i (M.dec_flag i)
    |> (fun s -> (* "ok <byte> type= sub= <consumed>" *) s)
  (* ----- sketches ----- *)
  | "knew" :: k :: spec :: pk :: nk :: rest ->
    let exact = (rest = ["exact"]) in
    let refused =
      match String.split_on_char ':' spec with
      | [_; "a"; h] -> let a = f64_of_hex h in
        if M.fle a (f64_of_hex "0000000000000000") || M.fle (f64_of_hex "3ff0000000000000") a then Some "err bad-accuracy" else None
      | [_; "g"; h; _] -> if M.fle (f64_of_hex h) (f64_of_hex "3ff0000000000000") then Some "err bad-gamma" else None
      | _ -> raise Unsupported in
    (match refused with
     | Some e -> e
     | None ->
       (match side_map side with
        | None -> Hashtbl.remove sketches k; raise Unsupported
        | Some (m, mn, mx) ->
          Hashtbl.replace specs spec (m, mn, mx);
          Hashtbl.replace sketches k (new_reg mn mx (Some (M.sk_new m (parse_kind pk) (parse_kind nk) exact)));
          "ok" ^ (match model_mapping spec with Ok gm -> map_diff gm side | Error _ -> " MODEL-MAP-DIFFERS refused")))
  (* the convenience constructors are the general one at the logarithmic mapping and a fixed store kind *)
  | ["knewc"; k; ("default" | "logdense" | "defaultx") as c; a] ->
    let kind = if c = "logdense" then "dense" else "pag" in
    exec (["knew"; k; "log:a:" ^ a; kind; kind] @ (if c = "defaultx" then ["exact"] else [])) side impl_result
  | ["knewc"; k; ("loglow" | "loghigh") as c; a; n] ->
    let kind = (if c = "loglow" then "low:" else "high:") ^ n in exec ["knew"; k; "log:a:" ^ a; kind; kind] side impl_result
  | ["knewc"; k; ("prov" | "provx") as c; a; kind] ->
    exec (["knew"; k; "log:a:" ^ a; kind; kind] @ (if c = "provx" then ["exact"] else [])) side impl_result
  | "kadd" :: k :: v :: rest ->
    let (g, s) = get_sk k in
    let (c, unit) = match rest with [] -> (f64_of_hex "3ff0000000000000", true) | [w] -> (f64_of_hex w, false) | _ -> raise Unsupported in
    sk_result g (M.xk_add (mtable_of g side) s (f64_of_hex v) c unit)
  | ["kmerge"; k; k2] ->
    if k = k2 then raise Unsupported else
    let (g, s) = get_sk k and (g2, s2) = get_sk k2 in
    (match M.sk_merge s s2 with
     | M.ROk (a, b) -> g.sk <- Some a; g2.sk <- Some b; "ok"
     | M.RErr e -> "err " ^ err_name e
     | M.RPanic -> g.sk <- None; "panic")
  | ["kcopy"; k2; k] -> let (g, s) = get_sk k in
    let g2 = new_reg g.mn g.mx (Some (M.sk_copy s)) in g2.gm <- g.gm; Hashtbl.replace sketches k2 g2; "ok"
  | ["kclear"; k] -> let (g, s) = get_sk k in g.sk <- Some (M.sk_clear s); "ok"
  | ["kreweight"; k; w] -> let (g, s) = get_sk k in sk_result g (M.sk_reweight s (f64_of_hex w))
  | "kenc" :: b :: k :: omit :: rest ->
    let (g, s) = get_sk k in
    let (s', _mb) = M.xk_enc s (omit = "1") in
    g.sk <- Some s'; let ib = side_bytes side in
    Hashtbl.replace bytesr b ib; "ok" ^ ref_check_sketch (strip_prefix ib rest) (omit = "1") s'
  | "kdec" :: k :: b :: kind :: mp :: rest ->
    let exact = (rest = ["exact"]) in
    let m0 = if mp = "nil" then None else
        (match Hashtbl.find_opt specs mp with Some (m, _, _) -> Some m | None -> raise Unsupported) in
    let bs = get_bytes b in
    if not (bytes_sane bs && span_ok bs (kind <> "sparse")) then raise Unsupported else
    (match M.xk_dec_into (M.ds_fresh m0 (parse_kind kind) exact) (bytes_of_string bs) with
     | M.DOk (d, _) ->
       (match M.sketch_of_ds d, side_map side with
        | Some s, Some (m, mn, mx) ->
          Hashtbl.replace sketches k (new_reg mn mx (Some s));
          if xstr m.M.mk_gamma = xstr s.M.sk_map.M.mk_gamma && xstr m.M.mk_off = xstr s.M.sk_map.M.mk_off
             && Z.equal (to_zn m.M.mk_kind) (to_zn s.M.sk_map.M.mk_kind) then "ok" else "ok MODEL-MAP-DIFFERS"
        | Some s, None -> Hashtbl.replace sketches k (new_reg s.M.sk_map.M.mk_gamma s.M.sk_map.M.mk_gamma None); "ok"
        | None, _ -> Hashtbl.remove sketches k; "err missing-mapping")
     | M.DErr e -> Hashtbl.remove sketches k; "err " ^ err_name e
     | M.DPanic -> Hashtbl.remove sketches k; "panic")
  | ["kdecinto"; k; b] ->
    let (g, s) = get_sk k in
    if not (bytes_sane (get_bytes b) && span_ok (get_bytes b) true) then raise Unsupported else
    (match M.xk_dec_into (M.ds_of_sketch s) (bytes_of_string (get_bytes b)) with
     | M.DOk (d, _) ->
       (match M.sketch_of_ds d with
        | Some s' -> g.sk <- Some s';
          (match side_map side with Some (_, mn, mx) -> g.mn <- mn; g.mx <- mx; g.tbl <- Hashtbl.create 64 | None -> ()); "ok"
        | None -> g.sk <- None; "err missing-mapping")
     | M.DErr e -> g.sk <- None; "err " ^ err_name e
     | M.DPanic -> g.sk <- None; "panic")
  | ["q"; k; qv] ->
    let (g, s) = get_sk k in
    absorb_vals g side;
    let (s', r) = M.xk_quantile (mtable_of g side) s (f64_of_hex qv) in
    g.sk <- Some s';
    (match r with M.ROk v -> fstr_v v | M.RErr e -> "err " ^ err_name e | M.RPanic -> "panic")
  | "qs" :: k :: qvs ->
    let (g, s) = get_sk k in
    absorb_vals g side;
    let (s', r) = M.xk_quantiles (mtable_of g side) s (List.map f64_of_hex qvs) in      (* Sketch/SketchBatch.v: the batch loop (Props/SketchBatch.v) *)
    g.sk <- Some s';
    (match r with M.ROk vs -> String.concat "," (List.map fstr_v vs) | M.RErr e -> "err " ^ err_name e | M.RPanic -> "panic")
  | ["kobs"; k] -> let (g, s) = get_sk k in kobs_line g s side
  (* ----- C17 lockstep: every AddWithCount call of changeStoreMapping, from the float-level model (Sketch/ChangeMappingG.v)
     over the bit-exact mappings of Mapping/Glue.v; the calls of each side as a sorted multiset ----- *)
  | ["kchtrace"; k; spec; sc] ->
    let (g, s) = get_sk k in
    let scale = f64_of_hex sc in
    (match model_mapping spec with
     | Error e -> e
     | Ok m2 ->
       let id1 = s.M.sk_map in
       let kind1 = (match Z.to_int (to_zn id1.M.mk_kind) with 0 -> M.MLog | 1 -> M.MLin | 3 -> M.MCub | _ -> raise Unsupported) in
       (match M.with_gamma the_libm kind1 id1.M.mk_gamma id1.M.mk_off with
        | None -> raise Unsupported
        | Some m1 ->
          let md = map_diff m2 side in
          if M.cmf_shortcut (M.map_equals id1 (mapid_of m2)) scale then "copy" ^ md else
          let bins st = (match M.st_foreach st with
              | None -> raise Unsupported
              | Some (st', l) ->
                List.iter (fun (_, w) -> if not (M.exactb w) then raise Unsupported) l;      (* weights must be float64 values *)
                (st', List.map (fun (i, w) -> (i, M.q2f w)) l)) in
          let (p', pl) = bins s.M.sk_pos in
          let (n', nl) = bins s.M.sk_neg in
          g.sk <- Some (M.with_stores s p' n');
          let calls (l : (M.z * M.f64) list) : string =
            if l = [] then "-" else
            let key (i, w) = (to_z i, M.f_is_nan w, to_zn (M.bits_of_f64 w)) in
            let cmp a b = let (i1, n1, b1) = key a and (i2, n2, b2) = key b in
              let c = Z.compare i1 i2 in if c <> 0 then c else
              if n1 <> n2 then (if n1 then 1 else -1) else if n1 then 0 else Z.compare b1 b2 in
            String.concat "," (List.map (fun (i, w) -> Z.to_string (to_z i) ^ ":" ^ xstr w) (List.stable_sort cmp l)) in
          (match M.cmf_sketch the_libm m1 m2 scale pl nl with
           | None -> "model-out-of-fuel" ^ md
           | Some (pa, na) -> "pos=" ^ calls pa ^ " neg=" ^ calls na ^ md)))
  (* GetSum: the exact variant answers from its statistics; the plain one folds value*count over ForEach in the store's iteration order
     (ascending for the array-backed and paginated kinds; a hash-map store iterates in no fixed order: not compared) *)
  | ["ksum"; k] ->
    let (g, s) = get_sk k in
    (match s.M.sk_stats with
     | Some t -> xstr (M.su_get_sum t)
     | None ->
       let sparse st = (match st with M.SS _ -> true | _ -> false) in
       if sparse s.M.sk_pos || sparse s.M.sk_neg then raise Unsupported else begin
         absorb_vals g side;
         match M.sk_foreach (mtable_of g side) s with
         | None -> "panic"
         | Some (s', l) -> g.sk <- Some s';
           xstr (M.sk_get_sum_f64 l)      (* Sketch/SketchSum.v; float error: Props/SketchSum.v C12_f_sum_accuracy *)
       end)
  (* NewDDSketchWithExactSummaryStatisticsFromData: refused iff emptiness of the sketch and count = 0 of the statistics disagree; the result wraps
     the very sketch and statistics objects it was given, so the model stops following those two registers (no aliasing in a functional model) *)
  | ["kfromdata"; k; k0; t] ->
    let (g0, s0) = get_sk k0 in
    let st = Hashtbl.find statsr t in
    if s0.M.sk_stats <> None then raise Unsupported else
    (match M.sk_from_data s0 st with          (* Sketch/SketchSum.v: the refusal rule (Props/SketchSum.v C10_from_data_spec) *)
     | None -> "err other"
     | Some sk ->
       let g = new_reg g0.mn g0.mx (Some sk) in
       g.gm <- g0.gm; g.tbl <- Hashtbl.copy g0.tbl; Hashtbl.replace sketches k g;
       g0.sk <- None; Hashtbl.remove statsr t; "ok")
  | ["kforeach"; k; n] ->
    let (g, s) = get_sk k in
    absorb_vals g side;
    (match M.sk_foreach (mtable_of g side) s with
     | None -> "panic"
     | Some (s', l) ->
       g.sk <- Some s';
       let n = int_of_string n in
       if n >= 1 then Printf.sprintf "calls=%d" (min n (List.length l))
       else
         let l = List.stable_sort (fun (v1, c1) (v2, c2) -> let c = qcmp v1 v2 in if c <> 0 then c else qcmp c1 c2) l in
         "items=" ^ String.concat "," (List.map (fun (v, c) -> fstr_q v ^ ":" ^ fstr_q c) l))
  | ["kstats"; k] ->
    let (g, s) = get_sk k in
    (match s.M.sk_stats with
     | None -> raise Unsupported
     | Some t ->
       let mt = mtable_of g side in
       let mm r = match r with M.ROk v -> fstr_v v | M.RErr _ -> "-" | M.RPanic -> "panic" in
       Printf.sprintf "count=%s sum=%s min=%s max=%s" (fstr_f (M.su_count t)) (xstr (M.su_get_sum t)) (mm (M.sk_min mt s)) (mm (M.sk_max mt s)))
  (* ----- mappings: bit-exact glue model ----- *)
  | ["mnew"; r; spec] ->
    (match side_map side with Some x -> Hashtbl.replace specs spec x | None -> ());
    (match model_mapping spec with
     | Ok m -> Hashtbl.replace mappings r m; "ok" ^ map_diff m side
     | Error e -> Hashtbl.remove mappings r; e)
  | ["midx"; r; v] -> Z.to_string (to_z (M.gm_index the_libm (Hashtbl.find mappings r) (f64_of_hex v)))
  | ["mval"; r; i] -> xstr (M.gm_value the_libm (Hashtbl.find mappings r) (z_of_tok i))
  | ["mlow"; r; i] -> xstr (M.gm_lower the_libm (Hashtbl.find mappings r) (z_of_tok i))
  | ["macc"; r] -> xstr (M.gm_accuracy the_libm (Hashtbl.find mappings r))
  | ["mrange"; r] -> let m = Hashtbl.find mappings r in Printf.sprintf "min=%s max=%s" (xstr m.M.gm_min) (xstr m.M.gm_max)
  | ["meq"; r; r2] -> if M.map_equals (mapid_of (Hashtbl.find mappings r)) (mapid_of (Hashtbl.find mappings r2)) then "1" else "0"
  | ["menc"; b; r] ->
    let m = Hashtbl.find mappings r in
    let mb = string_of_bytes (M.enc_mapping (mapid_of m)) and ib = side_bytes side in
    Hashtbl.replace bytesr b ib; if mb = ib then "ok" else "ok MODEL-BYTES-DIFFER " ^ hex_of_string mb
  | ["mdec"; r; b] ->
    (match bytes_of_string (get_bytes b) with
     | [] -> "err eof"
     | f :: rest ->
       (match M.dec_mapping f rest with
        | M.DOk (id, rest') ->
          let k = (match Z.to_int (to_zn id.M.mk_kind) with 0 -> M.MLog | 1 -> M.MLin | _ -> M.MCub) in
          (match M.with_gamma the_libm k id.M.mk_gamma id.M.mk_off with
           | Some m -> Hashtbl.replace mappings r m;
             Printf.sprintf "ok %d%s" (1 + List.length rest - List.length rest') (map_diff m side)
           | None -> "err bad-gamma")
        | M.DErr e -> "err " ^ err_name e
        | M.DPanic -> "panic"))
  (* ----- datasets ----- *)
  | ["dnew"; d] -> Hashtbl.replace datasets d M.d_new; "ok"
  | ["dadd"; d; v] -> Hashtbl.replace datasets d (M.d_add0 (Hashtbl.find datasets d) (qc_of_hex v)); "ok"
  | ["dmerge"; d; d2] -> Hashtbl.replace datasets d (M.d_merge (Hashtbl.find datasets d) (Hashtbl.find datasets d2)); "ok"
  | [("dlo" | "dhi" | "dq") as op; d; q] ->
    let qf = f64_of_hex q in
    let qo = match M.f2v qf with M.FFin x -> Some (Some x) | M.FNaN -> Some None
                                | M.FInf neg -> Some (Some (M.f2q (f64_of_hex (if neg then "c000000000000000" else "4000000000000000")))) in
    (match qo with
     | None -> raise Unsupported
     | Some qo ->
       let ds = Hashtbl.find datasets d in
       let nonempty = ds.M.ds_values <> [] in
       let (ds', r) = (if op = "dhi" then M.xd_upper else M.xd_lower) ds qo in
       Hashtbl.replace datasets d ds';
       (match r with Some v -> fstr_q v
                   | None -> let inrange = (match qo with Some x -> qcmp x (M.f2q (f64_of_hex "0000000000000000")) >= 0 && qcmp x (M.f2q (f64_of_hex "3ff0000000000000")) <= 0 | None -> false) in
                     if nonempty && inrange then "panic" else "nan"))
  | [("dmin" | "dmax") as op; d] ->
    let (ds', r) = (if op = "dmin" then M.xd_min else M.xd_max) (Hashtbl.find datasets d) in
    Hashtbl.replace datasets d ds'; (match r with Some v -> fstr_q v | None -> "panic")
  | ["dcount"; d] -> fstr_q (Hashtbl.find datasets d).M.ds_count
  | ["dsum"; d] ->
    xstr (M.xd_sum (Hashtbl.find datasets d))      (* Data/DatasetSum.v: the loop of Sum(), proved accurate to rounding (Props/C20sum.v) *)
  (* ----- summary statistics used directly: Stat/Summary.v on Flocq binary64, bit for bit ----- *)
  | ["tempty"; t] -> Hashtbl.replace statsr t M.su_new; "ok"
  | ["tnew"; t; c; sm; mn; mx] ->
    (match M.su_from_data (f64_of_hex c) (f64_of_hex sm) (f64_of_hex mn) (f64_of_hex mx) with
     | Some st -> Hashtbl.replace statsr t st; "ok" | None -> "err bad-stats")
  | ["tobs"; t] -> let st = Hashtbl.find statsr t in
    Printf.sprintf "count=%s sum=%s min=%s max=%s" (fstr_f (M.su_count st)) (xstr (M.su_get_sum st)) (fstr_f (M.su_min st)) (fstr_f (M.su_max st))
  | ["tobsx"; t] -> let st = Hashtbl.find statsr t in
    Printf.sprintf "count=%s sum=%s min=%s max=%s" (xstr (M.su_count st)) (xstr (M.su_get_sum st)) (xstr (M.su_min st)) (xstr (M.su_max st))
  | ["tadd"; t; v; c] -> Hashtbl.replace statsr t (M.su_add (Hashtbl.find statsr t) (f64_of_hex v) (f64_of_hex c)); "ok"
  | ["taddcount"; t; c] -> Hashtbl.replace statsr t (M.su_add_to_count (Hashtbl.find statsr t) (f64_of_hex c)); "ok"
  | ["taddsum"; t; a] -> Hashtbl.replace statsr t (M.su_add_to_sum (Hashtbl.find statsr t) (f64_of_hex a)); "ok"
  | ["tmerge"; t; t2] -> Hashtbl.replace statsr t (M.su_merge (Hashtbl.find statsr t) (Hashtbl.find statsr t2)); "ok"
  | ["treweight"; t; f] -> Hashtbl.replace statsr t (M.su_reweight (Hashtbl.find statsr t) (f64_of_hex f)); "ok"
  | ["trescale"; t; f] -> Hashtbl.replace statsr t (M.su_rescale (Hashtbl.find statsr t) (f64_of_hex f)); "ok"
  | ["tclear"; t] -> ignore (Hashtbl.find statsr t); Hashtbl.replace statsr t M.su_new; "ok"
  | ["tcopy"; t2; t] -> Hashtbl.replace statsr t2 (Hashtbl.find statsr t); "ok"
  | _ -> ignore impl_result; exec_proto toks side

(* ---------- main loop ---------- *)
let () =
  let script = open_in Sys.argv.(1) and tr = open_in Sys.argv.(2) in
  let out = Buffer.create (1 lsl 20) in
  let flush_out () = print_string (Buffer.contents out); Buffer.clear out in
  let next_tr () = try Some (input_line tr) with End_of_file -> None in
  (try
     while true do
       let line = String.trim (input_line script) in
       if line = "" || line.[0] = '#' then ()
       else begin
         let toks = List.filter (fun t -> t <> "") (String.split_on_char ' ' line) in
         (match toks with
          | "case" :: _ ->
            ignore (next_tr ()); reset_regs (); Hashtbl.reset mappings; Hashtbl.reset pstores; Hashtbl.reset psketches; Hashtbl.reset pmappings;
            Buffer.add_string out (String.concat " " toks); Buffer.add_char out '\n'
          | _ ->
            let rec chunk acc = match next_tr () with
              | Some l when String.length l > 0 && l.[0] = '#' -> chunk (l :: acc)
              | Some l -> (List.rev acc, l)
              | None -> (List.rev acc, "<eof>") in
            let (side, impl) = chunk [] in
            let readonly = List.mem (List.hd toks) ["ktoproto"; "kstream"; "toproto"; "pstream"; "layout"; "ksum"; "kacc"; "mnew";
                                                     "midx"; "mval"; "mlow"; "macc"; "mrange"; "meq"; "menc"; "mproto"; "mstream"; "pobs"; "kpobs"; "mpobs";
                                                     "pmarshal"; "kpmarshal"; "mpmarshal"; "tobs"; "tobsx"; "protomk"; "kpmk"; "mpmk"; "kchtrace"] in
            let poison () =
              if not readonly then
              List.iter (fun t ->
                  if Hashtbl.mem stores t then Hashtbl.replace stores t None;
                  (match Hashtbl.find_opt sketches t with Some g -> g.sk <- None | None -> ());
                  Hashtbl.remove bytesr t; Hashtbl.remove datasets t; Hashtbl.remove statsr t) (List.tl toks) in
            xdiff := [];
            let r = try exec toks side impl with
              | Unsupported | Not_found -> poison (); "unsupported"
              | Missing what -> "missing " ^ what
              | Stack_overflow -> "model-stack-overflow"
              | Failure m -> "model-failure " ^ m
              | Invalid_argument m -> "model-invalid " ^ m in
            (* a register whose instruction carried a `# map` line gets the glue model of that mapping: from then on every Index/Value the
               implementation reports for it is compared with the model's own (bit for bit) before it is used *)
            (match toks with
             | _ :: k :: _ when Hashtbl.mem sketches k && List.hd toks <> "kcopy" && List.hd toks <> "kchtrace" ->
               (match (try side_map side with _ -> None) with
                | Some (sid, _, _) ->
                  let g = Hashtbl.find sketches k in
                  (* the glue mapping is built from the MODEL's mapping identity for this register; the implementation's `# map` line must name the same one *)
                  let id = (match g.sk with Some s -> s.M.sk_map | None -> sid) in
                  let same = Z.equal (to_zn id.M.mk_kind) (to_zn sid.M.mk_kind) && xstr id.M.mk_gamma = xstr sid.M.mk_gamma && xstr id.M.mk_off = xstr sid.M.mk_off in
                  if not same then xdiff := "MODEL-MAP-DIFFERS identity" :: !xdiff;
                  let kind = (match Z.to_int (to_zn id.M.mk_kind) with 0 -> Some M.MLog | 1 -> Some M.MLin | 3 -> Some M.MCub | _ -> None) in
                  (match kind with
                   | Some kd -> (match (try M.with_gamma the_libm kd id.M.mk_gamma id.M.mk_off with _ -> None) with
                       | Some m -> g.gm <- (Some (fun v -> M.gm_index the_libm m v), Some (fun i -> M.gm_value the_libm m i))
                       | None -> g.gm <- (None, None))
                   | None -> g.gm <- (None, None))
                | None -> ())
             | _ -> ());
            let r = if !xdiff = [] then r else r ^ " " ^ String.concat " " (List.rev !xdiff) in
            Buffer.add_string out r; Buffer.add_char out '\n');
         if Buffer.length out > (1 lsl 19) then flush_out ()
       end
     done
   with End_of_file -> ());
  flush_out ()
