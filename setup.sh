#!/bin/sh
# Offline build of the whole framework from files on disk: Coq development (full .vo build), extraction,
# OCaml model driver, Go interpreter (against /repo's working tree), and the Print Assumptions caches.
set -e
cd "$(dirname "$0")"
mkdir -p .work evidence
export GOFLAGS=-mod=mod GOPROXY=off GOSUMDB=off GOTOOLCHAIN=local
( cd coq && coq_makefile -f _CoqProject -o Makefile >/dev/null && timeout 3000 make -j16 2>&1 | grep -v '^COQDEP\|^COQC\|^WARNING' || true )
for f in $(grep '\.v$' coq/_CoqProject); do
  [ -f "coq/${f}o" ] && [ ! "coq/$f" -nt "coq/${f}o" ] || { echo "Coq build failed: $f"; exit 1; }
done
( cd model && timeout 900 coqc -Q ../coq SK ../coq/Extract/Extract.v >/dev/null && ocamlfind ocamlopt -O3 -package zarith,unix -linkpkg -w -a model.mli model.ml driver.ml -o vmodel )
cp /repo/go.sum harness/go.sum
( cd harness && go build -tags verif -o ../.work/vrun . )
python3 - <<'PY'
import os, sys
sys.path.insert(0, os.getcwd())
from concurrent.futures import ThreadPoolExecutor
from vlib import core
files = sorted(f for f in os.listdir(os.path.join(core.COQ, "Props")) if f.endswith(".v"))
def warm(f):
    t, p = core.proof_status("warm", [(f, ".")]); return f, len(t), p
with ThreadPoolExecutor(16) as ex:
    for f, n, p in ex.map(warm, files): print("props", f, n, "theorems", ("PROBLEMS: %s" % p[:2]) if p else "ok")
PY
echo setup done
