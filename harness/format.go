package main

import (
	"math"
	"math/bits"
	"strconv"
)

const hexdigits = "0123456789abcdef"

// appendF appends the canonical dyadic form of f: nan, +inf, -inf, 0, or n@e with n odd.
func appendF(dst []byte, f float64) []byte {
	b := math.Float64bits(f)
	neg := b>>63 != 0
	exp := int((b >> 52) & 0x7ff)
	man := b & (1<<52 - 1)
	if exp == 0x7ff {
		if man != 0 {
			return append(dst, "nan"...)
		}
		if neg {
			return append(dst, "-inf"...)
		}
		return append(dst, "+inf"...)
	}
	if exp == 0 && man == 0 {
		return append(dst, '0')
	}
	var e int
	if exp == 0 {
		e = -1074 // subnormal: man * 2^-1074
	} else {
		man |= 1 << 52
		e = exp - 1075
	}
	tz := bits.TrailingZeros64(man)
	man >>= uint(tz)
	e += tz
	if neg {
		dst = append(dst, '-')
	}
	dst = strconv.AppendUint(dst, man, 10)
	dst = append(dst, '@')
	dst = strconv.AppendInt(dst, int64(e), 10)
	return dst
}

func appendHex64(dst []byte, b uint64) []byte {
	for s := 60; s >= 0; s -= 4 {
		dst = append(dst, hexdigits[(b>>uint(s))&0xf])
	}
	return dst
}

// appendX appends x<16 hex digits of the bits>, xnan for every NaN.
func appendX(dst []byte, f float64) []byte {
	if f != f {
		return append(dst, "xnan"...)
	}
	dst = append(dst, 'x')
	return appendHex64(dst, math.Float64bits(f))
}

// appendHex appends lowercase hex, "-" for the empty string.
func appendHex(dst []byte, b []byte) []byte {
	if len(b) == 0 {
		return append(dst, '-')
	}
	for _, c := range b {
		dst = append(dst, hexdigits[c>>4], hexdigits[c&0xf])
	}
	return dst
}

func appendInt(dst []byte, i int) []byte {
	return strconv.AppendInt(dst, int64(i), 10)
}

func appendBool(dst []byte, b bool) []byte {
	if b {
		return append(dst, '1')
	}
	return append(dst, '0')
}

func hexval(c byte) int {
	switch {
	case c >= '0' && c <= '9':
		return int(c - '0')
	case c >= 'a' && c <= 'f':
		return int(c-'a') + 10
	case c >= 'A' && c <= 'F':
		return int(c-'A') + 10
	}
	return -1
}

// parseFloatBits parses exactly 16 hex digits as IEEE-754 binary64 bits.
func parseFloatBits(t []byte) (float64, bool) {
	if len(t) != 16 {
		return 0, false
	}
	var b uint64
	for _, c := range t {
		h := hexval(c)
		if h < 0 {
			return 0, false
		}
		b = b<<4 | uint64(h)
	}
	return math.Float64frombits(b), true
}

func parseUint64(t []byte) (uint64, bool) {
	if len(t) == 0 {
		return 0, false
	}
	var x uint64
	for _, c := range t {
		if c < '0' || c > '9' {
			return 0, false
		}
		d := uint64(c - '0')
		if x > (math.MaxUint64-d)/10 {
			return 0, false
		}
		x = x*10 + d
	}
	return x, true
}

func parseInt64(t []byte) (int64, bool) {
	neg := false
	if len(t) > 0 && (t[0] == '-' || t[0] == '+') {
		neg = t[0] == '-'
		t = t[1:]
	}
	u, ok := parseUint64(t)
	if !ok {
		return 0, false
	}
	if neg {
		if u > 1<<63 {
			return 0, false
		}
		return -int64(u), true // u == 1<<63 wraps to MinInt64, as wanted
	}
	if u > math.MaxInt64 {
		return 0, false
	}
	return int64(u), true
}

// parseHex parses a byte string ("-" = empty). Always returns a fresh slice.
func parseHex(t []byte) ([]byte, bool) {
	if len(t) == 1 && t[0] == '-' {
		return []byte{}, true
	}
	if len(t)%2 != 0 {
		return nil, false
	}
	out := make([]byte, len(t)/2)
	for i := range out {
		h, l := hexval(t[2*i]), hexval(t[2*i+1])
		if h < 0 || l < 0 {
			return nil, false
		}
		out[i] = byte(h<<4 | l)
	}
	return out, true
}

// ---- token accessors (panic with bad on malformed input)

func (v *vm) need(n int) {
	if len(v.t) != n {
		panic(bad("arity"))
	}
}

func (v *vm) needRange(lo, hi int) {
	if len(v.t) < lo || len(v.t) > hi {
		panic(bad("arity"))
	}
}

func (v *vm) f(i int) float64 {
	x, ok := parseFloatBits(v.t[i])
	if !ok {
		panic(bad("float"))
	}
	return x
}

func (v *vm) i64(i int) int64 {
	x, ok := parseInt64(v.t[i])
	if !ok {
		panic(bad("int"))
	}
	return x
}

func (v *vm) i(i int) int { return int(v.i64(i)) }

func (v *vm) u64(i int) uint64 {
	x, ok := parseUint64(v.t[i])
	if !ok {
		panic(bad("int"))
	}
	return x
}

func (v *vm) hex(i int) []byte {
	x, ok := parseHex(v.t[i])
	if !ok {
		panic(bad("hex"))
	}
	// the bytes sit in a roomier array (a reused receive buffer): what lies beyond len() is stale data that would terminate or
	// continue a variable-length integer, and is not part of the input
	stale := [...]byte{0x01, 0x80, 0x7f, 0x00, 0x81, 0x05, 0xff, 0x02, 0x01, 0x01, 0x80, 0x01}
	y := make([]byte, len(x), len(x)+len(stale))
	copy(y, x)
	copy(y[len(x):cap(y)], stale[len(x)%3:])
	return y
}

func (v *vm) is(i int, s string) bool { return string(v.t[i]) == s }

// ---- output helpers

func (v *vm) ok() { v.res = append(v.res, "ok"...) }

func (v *vm) str(s string) { v.res = append(v.res, s...) }

func (v *vm) errClass(c string) {
	v.res = append(v.res[:0], "err "...)
	v.res = append(v.res, c...)
}

func (v *vm) okOrErr(err error) {
	if err != nil {
		v.errClass(classify(err))
	} else {
		v.ok()
	}
}

// sideBytes emits "# bytes <hex>".
func (v *vm) sideBytes(b []byte) {
	v.side = append(v.side[:0], "# bytes "...)
	v.side = appendHex(v.side, b)
	v.side = append(v.side, '\n')
	v.out.Write(v.side)
}

// ---- stable sort of bins by index (no reflection)

type binsByIdx []binrec

func (b binsByIdx) Len() int           { return len(b) }
func (b binsByIdx) Less(i, j int) bool { return b[i].idx < b[j].idx }
func (b binsByIdx) Swap(i, j int)      { b[i], b[j] = b[j], b[i] }

type item struct{ v, c float64 }

type itemsByVal []item

func flLess(a, b float64) bool { return a < b || (a != a && b == b) } // NaN first, total preorder

func (b itemsByVal) Len() int { return len(b) }
func (b itemsByVal) Less(i, j int) bool {
	if flLess(b[i].v, b[j].v) {
		return true
	}
	if flLess(b[j].v, b[i].v) {
		return false
	}
	return flLess(b[i].c, b[j].c)
}
func (b itemsByVal) Swap(i, j int) { b[i], b[j] = b[j], b[i] }

func appendUint(dst []byte, u uint64) []byte { return strconv.AppendUint(dst, u, 10) }
