package main

import (
	"math"
	"sort"

	enc "github.com/DataDog/sketches-go/ddsketch/encoding"
	"github.com/DataDog/sketches-go/ddsketch/pb/sketchpb"
	"github.com/DataDog/sketches-go/ddsketch/store"
)

// recStore is a store.Store that delegates everything to a fresh sparse store and logs every
// Add / AddBin / AddWithCount call it receives as (index, weight bits). It is handed to
// ChangeMapping as the target store by `kchtrace`, so that every call changeStoreMapping makes is
// observed (not only the sums the target store ends up with).
type recStore struct {
	inner store.Store
	calls []reccall
}

type reccall struct {
	idx  int
	bits uint64
	nan  bool
}

func newRecStore() *recStore { return &recStore{inner: store.NewSparseStore()} }

func (r *recStore) log(index int, w float64) {
	r.calls = append(r.calls, reccall{idx: index, bits: math.Float64bits(w), nan: w != w})
}

func (r *recStore) Add(index int) {
	r.log(index, 1)
	r.inner.Add(index)
}

func (r *recStore) AddBin(bin store.Bin) {
	r.log(bin.Index(), bin.Count())
	r.inner.AddBin(bin)
}

func (r *recStore) AddWithCount(index int, count float64) {
	r.log(index, count)
	r.inner.AddWithCount(index, count)
}

func (r *recStore) Bins() <-chan store.Bin { return r.inner.Bins() }
func (r *recStore) ForEach(f func(index int, count float64) (stop bool)) {
	r.inner.ForEach(f)
}
func (r *recStore) Copy() store.Store {
	c := &recStore{inner: r.inner.Copy(), calls: append([]reccall(nil), r.calls...)}
	return c
}
func (r *recStore) Clear()                     { r.inner.Clear() }
func (r *recStore) IsEmpty() bool              { return r.inner.IsEmpty() }
func (r *recStore) MaxIndex() (int, error)     { return r.inner.MaxIndex() }
func (r *recStore) MinIndex() (int, error)     { return r.inner.MinIndex() }
func (r *recStore) TotalCount() float64        { return r.inner.TotalCount() }
func (r *recStore) KeyAtRank(rank float64) int { return r.inner.KeyAtRank(rank) }
func (r *recStore) MergeWith(s store.Store) {
	if o, ok := s.(*recStore); ok {
		s = o.inner
	}
	r.inner.MergeWith(s)
}
func (r *recStore) ToProto() *sketchpb.Store                   { return r.inner.ToProto() }
func (r *recStore) EncodeProto(builder *sketchpb.StoreBuilder) { r.inner.EncodeProto(builder) }
func (r *recStore) Reweight(w float64) error                   { return r.inner.Reweight(w) }
func (r *recStore) Encode(b *[]byte, t enc.FlagType)           { r.inner.Encode(b, t) }
func (r *recStore) DecodeAndMergeWith(b *[]byte, binEncodingMode enc.SubFlag) error {
	return r.inner.DecodeAndMergeWith(b, binEncodingMode)
}

var _ store.Store = (*recStore)(nil)

// appendCalls appends the calls sorted by (index, bits): `<i>:x<16 hex>,…`, `-` when there is none.
// The source store's ForEach order is unspecified for hash-map stores: the trace is a multiset.
func appendCalls(dst []byte, calls []reccall) []byte {
	if len(calls) == 0 {
		return append(dst, '-')
	}
	c := append([]reccall(nil), calls...)
	sort.SliceStable(c, func(i, j int) bool {
		if c[i].idx != c[j].idx {
			return c[i].idx < c[j].idx
		}
		if c[i].nan != c[j].nan {
			return c[j].nan // NaN last
		}
		if c[i].nan {
			return false
		}
		return c[i].bits < c[j].bits
	})
	for j, x := range c {
		if j > 0 {
			dst = append(dst, ',')
		}
		dst = appendInt(dst, x.idx)
		dst = append(dst, ':')
		dst = appendX(dst, math.Float64frombits(x.bits))
	}
	return dst
}

// kchtrace k map scale
func (v *vm) kchtrace() {
	v.need(4)
	k := v.getK(1)
	scale := v.f(3)
	m, err := v.mkmap(2)
	if err != nil {
		v.errClass(classify(err))
		return
	}
	v.sideMap(m)
	posRec, negRec := newRecStore(), newRecStore()
	var resPos store.Store
	if k.exact != nil {
		// the exact variant takes a provider, called for the positive store first, then for the negative one
		n := 0
		prov := store.Provider(func() store.Store {
			n++
			switch n {
			case 1:
				return posRec
			case 2:
				return negRec
			}
			return newRecStore()
		})
		r := k.exact.ChangeMapping(m, prov, scale)
		resPos = r.GetPositiveValueStore()
	} else {
		r := k.plain.ChangeMapping(m, posRec, negRec, scale)
		resPos = r.GetPositiveValueStore()
	}
	if resPos != store.Store(posRec) {
		// scaleFactor == 1 && Equals: the library answered with a Copy of the receiver; the recorders were not used
		if len(posRec.calls)+len(negRec.calls) != 0 {
			v.str("copy-but-calls")
			return
		}
		v.str("copy")
		return
	}
	v.res = append(v.res, "pos="...)
	v.res = appendCalls(v.res, posRec.calls)
	v.res = append(v.res, " neg="...)
	v.res = appendCalls(v.res, negRec.calls)
}
