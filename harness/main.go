// vrun: interpreter of op scripts (see PROTOCOL.md) against the real sketches-go library.
//
//	vrun <script>|-     execute a script, transcript on stdout
//	vrun --libm         libm coprocess
//
// Build: cd /verif/harness && go build -tags verif -o /verif/.work/vrun .
package main

import (
	"bufio"
	"fmt"
	"io"
	"math"
	"os"

	"github.com/DataDog/sketches-go/dataset"
	"github.com/DataDog/sketches-go/ddsketch"
	"github.com/DataDog/sketches-go/ddsketch/mapping"
	"github.com/DataDog/sketches-go/ddsketch/pb/sketchpb"
	"github.com/DataDog/sketches-go/ddsketch/stat"
	"github.com/DataDog/sketches-go/ddsketch/store"
)

// bad is the panic payload of a malformed instruction; it becomes the result line "bad <reason>".
type bad string

// sk is a sketch register: exactly one of plain / exact is set.
type sk struct {
	plain *ddsketch.DDSketch
	exact *ddsketch.DDSketchWithExactSummaryStatistics
	seen  map[int]struct{} // bin indexes whose "# val" line has been emitted
}

type binrec struct {
	idx int
	w   float64
}

type vm struct {
	out   *bufio.Writer
	res   []byte   // result line under construction
	side  []byte   // scratch for one side-channel line
	t     [][]byte // tokens of the current instruction
	debug bool

	stores   map[string]store.Store
	bytesR   map[string][]byte
	sprotos  map[string]*sketchpb.Store
	sketches map[string]*sk
	kprotos  map[string]*sketchpb.DDSketch
	mappings map[string]mapping.IndexMapping
	mprotos  map[string]*sketchpb.IndexMapping
	datasets map[string]*dataset.Dataset
	stats    map[string]*stat.SummaryStatistics

	bins  []binrec // scratch
	idxs  []int    // scratch
	items []item   // scratch
	fl    []float64
}

func newVM(out *bufio.Writer) *vm {
	v := &vm{out: out, debug: os.Getenv("VRUN_DEBUG") != ""}
	v.reset()
	return v
}

func (v *vm) reset() {
	v.stores = make(map[string]store.Store)
	v.bytesR = make(map[string][]byte)
	v.sprotos = make(map[string]*sketchpb.Store)
	v.sketches = make(map[string]*sk)
	v.kprotos = make(map[string]*sketchpb.DDSketch)
	v.mappings = make(map[string]mapping.IndexMapping)
	v.mprotos = make(map[string]*sketchpb.IndexMapping)
	v.datasets = make(map[string]*dataset.Dataset)
	v.stats = make(map[string]*stat.SummaryStatistics)
}

// run executes the instruction in v.t and writes its result line.
func (v *vm) run() {
	v.res = v.res[:0]
	v.step()
	v.out.Write(v.res)
	v.out.WriteByte('\n')
}

func (v *vm) step() {
	defer func() {
		if r := recover(); r != nil {
			if b, ok := r.(bad); ok {
				v.res = append(v.res[:0], "bad "...)
				v.res = append(v.res, b...)
				return
			}
			if v.debug {
				fmt.Fprintf(os.Stderr, "vrun: panic in %q: %v\n", joinToks(v.t), r)
			}
			v.res = append(v.res[:0], "panic"...)
		}
	}()
	v.exec()
}

func joinToks(t [][]byte) string {
	s := ""
	for i, x := range t {
		if i > 0 {
			s += " "
		}
		s += string(x)
	}
	return s
}

func splitTokens(line []byte, toks [][]byte) [][]byte {
	toks = toks[:0]
	i := 0
	n := len(line)
	for i < n {
		for i < n && (line[i] == ' ' || line[i] == '\t' || line[i] == '\r') {
			i++
		}
		if i >= n {
			break
		}
		j := i
		for j < n && line[j] != ' ' && line[j] != '\t' && line[j] != '\r' {
			j++
		}
		toks = append(toks, line[i:j])
		i = j
	}
	return toks
}

func main() {
	args := os.Args[1:]
	if len(args) == 1 && args[0] == "--libm" {
		libm()
		return
	}
	if len(args) != 1 {
		fmt.Fprintln(os.Stderr, "usage: vrun <script>|-   or   vrun --libm")
		os.Exit(2)
	}
	var in io.Reader
	if args[0] == "-" {
		in = os.Stdin
	} else {
		f, err := os.Open(args[0])
		if err != nil {
			fmt.Fprintln(os.Stderr, "vrun:", err)
			os.Exit(2)
		}
		defer f.Close()
		in = f
	}
	out := bufio.NewWriterSize(os.Stdout, 1<<20)
	v := newVM(out)
	sc := bufio.NewScanner(in)
	sc.Buffer(make([]byte, 1<<20), 1<<30)
	for sc.Scan() {
		line := sc.Bytes()
		v.t = splitTokens(line, v.t)
		if len(v.t) == 0 || v.t[0][0] == '#' {
			continue
		}
		if string(v.t[0]) == "case" {
			v.reset()
			out.WriteString("case")
			for _, x := range v.t[1:] {
				out.WriteByte(' ')
				out.Write(x)
			}
			out.WriteByte('\n')
			continue
		}
		v.run()
	}
	if err := sc.Err(); err != nil {
		out.Flush()
		fmt.Fprintln(os.Stderr, "vrun:", err)
		os.Exit(2)
	}
	out.Flush()
}

// ---------------------------------------------------------------- libm coprocess

func libm() {
	out := bufio.NewWriter(os.Stdout)
	sc := bufio.NewScanner(os.Stdin)
	sc.Buffer(make([]byte, 4096), 1<<20)
	var toks [][]byte
	var buf []byte
	for sc.Scan() {
		toks = splitTokens(sc.Bytes(), toks)
		buf = buf[:0]
		if r, ok := libmEval(toks); ok {
			buf = appendHex64(buf, math.Float64bits(r))
		} else {
			buf = append(buf, "bad"...)
		}
		buf = append(buf, '\n')
		out.Write(buf)
		out.Flush()
	}
}

func libmEval(t [][]byte) (float64, bool) {
	if len(t) < 2 {
		return 0, false
	}
	x, ok := parseFloatBits(t[1])
	if !ok {
		return 0, false
	}
	fn := string(t[0])
	if fn == "pow" {
		if len(t) != 3 {
			return 0, false
		}
		y, ok := parseFloatBits(t[2])
		if !ok {
			return 0, false
		}
		return math.Pow(x, y), true
	}
	if len(t) != 2 {
		return 0, false
	}
	switch fn {
	case "log":
		return math.Log(x), true
	case "exp":
		return math.Exp(x), true
	case "exp2":
		return math.Exp2(x), true
	case "log2":
		return math.Log2(x), true
	case "cbrt":
		return math.Cbrt(x), true
	case "sqrt":
		return math.Sqrt(x), true
	case "floor":
		return math.Floor(x), true
	}
	return 0, false
}
