package main

import (
	"bytes"
	"math"
	"sort"

	"github.com/DataDog/sketches-go/ddsketch"
	"github.com/DataDog/sketches-go/ddsketch/mapping"
	"github.com/DataDog/sketches-go/ddsketch/pb/sketchpb"
	"github.com/DataDog/sketches-go/ddsketch/stat"
	"github.com/DataDog/sketches-go/ddsketch/store"
	"google.golang.org/protobuf/proto"
)

// qsk is the common method set of *DDSketch and *DDSketchWithExactSummaryStatistics.
type qsk interface {
	RelativeAccuracy() float64
	IsEmpty() bool
	GetCount() float64
	GetZeroCount() float64
	GetSum() float64
	GetPositiveValueStore() store.Store
	GetNegativeValueStore() store.Store
	GetMinValue() (float64, error)
	GetMaxValue() (float64, error)
	GetValueAtQuantile(quantile float64) (float64, error)
	GetValuesAtQuantiles(quantiles []float64) ([]float64, error)
	ForEach(f func(value, count float64) (stop bool))
	Add(value float64) error
	AddWithCount(value, count float64) error
	Reweight(factor float64) error
	Clear()
	Encode(b *[]byte, omitIndexMapping bool)
	DecodeAndMergeWith(b []byte) error
}

// q returns the variant's own method set.
func (k *sk) q() qsk {
	if k.exact != nil {
		return k.exact
	}
	return k.plain
}

// base returns the underlying plain sketch (the embedded one for the exact variant).
func (k *sk) base() *ddsketch.DDSketch {
	if k.exact != nil {
		return k.exact.DDSketch
	}
	return k.plain
}

func (k *sk) mapping() mapping.IndexMapping { return k.base().IndexMapping }

// sideVals emits "# val <i> <X>" for every bin index of either store not yet reported for this register.
func (v *vm) sideVals(k *sk) {
	idxs := v.idxs[:0]
	collect := func(index int, _ float64) bool {
		if _, ok := k.seen[index]; !ok {
			idxs = append(idxs, index)
		}
		return false
	}
	q := k.q()
	q.GetPositiveValueStore().ForEach(collect)
	q.GetNegativeValueStore().ForEach(collect)
	v.idxs = idxs
	if len(idxs) == 0 {
		return
	}
	sort.Ints(idxs)
	m := k.mapping()
	for j, i := range idxs {
		if j > 0 && idxs[j-1] == i {
			continue
		}
		val := m.Value(i)
		s := append(v.side[:0], "# val "...)
		s = appendInt(s, i)
		s = append(s, ' ')
		s = appendX(s, val)
		s = append(s, '\n')
		v.side = s
		v.out.Write(s)
		k.seen[i] = struct{}{}
	}
}

func (v *vm) isExactTok(i int) bool {
	if len(v.t) <= i {
		return false
	}
	if !v.is(i, "exact") {
		panic(bad("exact"))
	}
	return true
}

func (v *vm) appendFOrDash(dst []byte, f float64, err error) []byte {
	if err != nil {
		return append(dst, '-')
	}
	return appendF(dst, f)
}

func (v *vm) execSketch() bool {
	t := v.t
	switch string(t[0]) {
	case "knew":
		v.needRange(5, 6)
		pos, neg := v.provider(3), v.provider(4)
		exact := v.isExactTok(5)
		m, err := v.mkmap(2)
		if err != nil {
			v.errClass(classify(err))
			return true
		}
		s := ddsketch.NewDDSketch(m, pos(), neg())
		k := &sk{}
		if exact {
			e, err := ddsketch.NewDDSketchWithExactSummaryStatisticsFromData(s, stat.NewSummaryStatistics())
			if err != nil {
				v.errClass(classify(err))
				return true
			}
			k.exact = e
		} else {
			k.plain = s
		}
		v.setK(1, k)
		v.sideMap(m)
		v.ok()

	case "knewc":
		// the library's convenience constructors: knewc k default|logdense|defaultx a  |  knewc k loglow|loghigh a n  |  knewc k prov|provx a kind
		v.needRange(4, 5)
		a := v.f(3)
		var s *ddsketch.DDSketch
		var e *ddsketch.DDSketchWithExactSummaryStatistics
		var err error
		switch string(t[2]) {
		case "default":
			v.need(4)
			s, err = ddsketch.NewDefaultDDSketch(a)
		case "logdense":
			v.need(4)
			s, err = ddsketch.LogUnboundedDenseDDSketch(a)
		case "defaultx":
			v.need(4)
			e, err = ddsketch.NewDefaultDDSketchWithExactSummaryStatistics(a)
		case "loglow":
			v.need(5)
			s, err = ddsketch.LogCollapsingLowestDenseDDSketch(a, int(v.i64(4)))
		case "loghigh":
			v.need(5)
			s, err = ddsketch.LogCollapsingHighestDenseDDSketch(a, int(v.i64(4)))
		case "prov", "provx":
			v.need(5)
			prov := v.provider(4)
			var m mapping.IndexMapping
			m, err = mapping.NewDefaultMapping(a)
			if err == nil {
				if string(t[2]) == "prov" {
					s = ddsketch.NewDDSketchFromStoreProvider(m, prov)
				} else {
					e = ddsketch.NewDDSketchWithExactSummaryStatistics(m, prov)
				}
			}
		default:
			panic(bad("variant"))
		}
		if err != nil {
			v.errClass(classify(err))
			return true
		}
		k := &sk{plain: s, exact: e}
		v.setK(1, k)
		v.sideMap(k.mapping())
		v.ok()

	case "kadd":
		v.needRange(3, 4)
		k, val := v.getK(1), v.f(2)
		var w float64
		if len(t) == 4 {
			w = v.f(3)
		}
		m := k.mapping()
		a := math.Abs(val)
		if m.MinIndexableValue() < a && a <= m.MaxIndexableValue() {
			idx := m.Index(a)
			s := append(v.side[:0], "# idx "...)
			s = appendInt(s, idx)
			s = append(s, '\n')
			v.side = s
			v.out.Write(s)
		}
		var err error
		if len(t) == 4 {
			err = k.q().AddWithCount(val, w)
		} else {
			err = k.q().Add(val)
		}
		v.okOrErr(err)

	case "kmerge":
		v.need(3)
		k, k2 := v.getK(1), v.getK(2)
		switch {
		case k.exact != nil && k2.exact != nil:
			v.okOrErr(k.exact.MergeWith(k2.exact))
		case k.plain != nil && k2.plain != nil:
			v.okOrErr(k.plain.MergeWith(k2.plain))
		default:
			panic(bad("variant"))
		}

	case "kcopy":
		v.need(3)
		k := v.getK(2)
		c := &sk{}
		if k.exact != nil {
			c.exact = k.exact.Copy()
		} else {
			c.plain = k.plain.Copy()
		}
		v.setK(1, c)
		v.ok()

	case "kclear":
		v.need(2)
		v.getK(1).q().Clear()
		v.ok()

	case "kreweight":
		v.need(3)
		k, w := v.getK(1), v.f(2)
		v.okOrErr(k.q().Reweight(w))

	case "kchmap":
		v.need(7)
		k := v.getK(2)
		pos, neg := v.provider(4), v.provider(5)
		scale := v.f(6)
		m, err := v.mkmap(3)
		if err != nil {
			v.errClass(classify(err))
			return true
		}
		c := &sk{}
		if k.exact != nil {
			c.exact = k.exact.ChangeMapping(m, pos, scale)
		} else {
			c.plain = k.plain.ChangeMapping(m, pos(), neg(), scale)
		}
		v.setK(1, c)
		if rm := c.mapping(); rm != nil {
			v.sideMap(rm)
		}
		v.ok()

	case "kchtrace":
		v.kchtrace()

	case "kenc":
		v.needRange(4, 5)
		k := v.getK(2)
		var omit bool
		switch string(t[3]) {
		case "0":
		case "1":
			omit = true
		default:
			panic(bad("omit"))
		}
		var prefix []byte
		if len(t) == 5 {
			prefix = v.hex(4)
		}
		q := k.q()
		v.encodeWithPrefix(1, prefix, func(b *[]byte) { q.Encode(b, omit) })

	case "kdec":
		v.needRange(5, 6)
		b := v.getB(2)
		prov := v.provider(3)
		exact := v.isExactTok(5)
		var m mapping.IndexMapping
		if !v.is(4, "nil") {
			var err error
			m, err = v.mkmap(4)
			if err != nil {
				v.errClass(classify(err))
				return true
			}
		}
		k := &sk{}
		var err error
		if exact {
			k.exact, err = ddsketch.DecodeDDSketchWithExactSummaryStatistics(b, prov, m)
			if k.exact == nil {
				v.okOrErr(err)
				return true
			}
		} else {
			k.plain, err = ddsketch.DecodeDDSketch(b, prov, m)
			if k.plain == nil {
				v.okOrErr(err)
				return true
			}
		}
		v.setK(1, k)
		if rm := k.mapping(); rm != nil {
			v.sideMap(rm)
		}
		v.okOrErr(err)

	case "kdecinto":
		v.need(3)
		k, b := v.getK(1), v.getB(2)
		before := k.mapping()
		err := k.q().DecodeAndMergeWith(b)
		if after := k.mapping(); after != nil && after != before {
			// the decoder installs the decoded mapping in place of the previous (Equals-equal) one
			k.seen = make(map[int]struct{})
			v.sideMap(after)
		}
		v.okOrErr(err)

	case "ktoproto":
		v.need(3)
		k := v.getK(2)
		v.kprotos[string(t[1])] = k.base().ToProto()
		v.ok()

	case "kstream":
		v.need(3)
		k := v.getK(2)
		var buf bytes.Buffer
		k.base().EncodeProto(&buf)
		b := buf.Bytes()
		v.setB(1, b)
		v.sideBytes(b)
		v.ok()

	case "kpmarshal":
		v.need(3)
		p := v.getKP(2)
		b, err := marshalOpts.Marshal(p)
		if err != nil {
			v.errClass("other")
			return true
		}
		v.setB(1, b)
		v.sideBytes(b)
		v.ok()

	case "kpunmarshal":
		v.need(3)
		b := v.getB(2)
		p := &sketchpb.DDSketch{}
		if err := proto.Unmarshal(b, p); err != nil {
			v.errClass("other")
			return true
		}
		v.kprotos[string(t[1])] = p
		v.ok()

	case "kfromproto":
		v.need(4)
		p := v.getKP(2)
		var s *ddsketch.DDSketch
		var err error
		if v.is(3, "default") {
			s, err = ddsketch.FromProto(p)
		} else {
			s, err = ddsketch.FromProtoWithStoreProvider(p, v.provider(3))
		}
		if err != nil || s == nil {
			v.okOrErr(err)
			return true
		}
		k := &sk{plain: s}
		v.setK(1, k)
		if rm := k.mapping(); rm != nil {
			v.sideMap(rm)
		}
		v.ok()

	case "kpmk":
		v.need(8)
		p := &sketchpb.DDSketch{}
		if !v.is(2, "-") {
			interp := v.i64(2)
			if interp != int64(int32(interp)) {
				panic(bad("int"))
			}
			p.Mapping = &sketchpb.IndexMapping{
				Gamma:         v.f(3),
				IndexOffset:   v.f(4),
				Interpolation: sketchpb.IndexMapping_Interpolation(interp),
			}
		} else {
			v.f(3)
			v.f(4)
		}
		p.ZeroCount = v.f(5)
		if !v.is(6, "-") {
			p.PositiveValues = v.getP(6)
		}
		if !v.is(7, "-") {
			p.NegativeValues = v.getP(7)
		}
		v.kprotos[string(t[1])] = p
		v.ok()

	case "kpscale":
		// the caller edits the message it was handed: every count in it is multiplied in place
		v.need(3)
		p := v.getKP(1)
		f := v.f(2)
		p.ZeroCount *= f
		for _, st := range []*sketchpb.Store{p.PositiveValues, p.NegativeValues} {
			if st == nil {
				continue
			}
			for i := range st.ContiguousBinCounts {
				st.ContiguousBinCounts[i] *= f
			}
			for k := range st.BinCounts {
				st.BinCounts[k] *= f
			}
		}
		v.ok()

	case "kpobs":
		v.need(2)
		p := v.getKP(1)
		r := v.res
		if p.Mapping == nil {
			r = append(r, "map=nil"...)
		} else {
			r = append(r, "map="...)
			r = appendInt(r, int(p.Mapping.Interpolation))
			r = append(r, ':')
			r = appendX(r, p.Mapping.Gamma)
			r = append(r, ':')
			r = appendX(r, p.Mapping.IndexOffset)
		}
		r = append(r, " zero="...)
		r = appendF(r, p.ZeroCount)
		if p.PositiveValues == nil {
			r = append(r, " pos=nil"...)
		} else {
			r = append(r, " pos=["...)
			r = appendPobs(r, p.PositiveValues, &v.bins)
			r = append(r, ']')
		}
		if p.NegativeValues == nil {
			r = append(r, " neg=nil"...)
		} else {
			r = append(r, " neg=["...)
			r = appendPobs(r, p.NegativeValues, &v.bins)
			r = append(r, ']')
		}
		v.res = r

	case "q":
		v.need(3)
		k, qv := v.getK(1), v.f(2)
		v.sideVals(k)
		x, err := k.q().GetValueAtQuantile(qv)
		if err != nil {
			v.errClass(classify(err))
			return true
		}
		v.res = appendF(v.res, x)

	case "qs":
		if len(t) < 3 {
			panic(bad("arity"))
		}
		k := v.getK(1)
		v.fl = v.fl[:0]
		for i := 2; i < len(t); i++ {
			v.fl = append(v.fl, v.f(i))
		}
		v.sideVals(k)
		xs, err := k.q().GetValuesAtQuantiles(v.fl)
		if err != nil {
			v.errClass(classify(err))
			return true
		}
		for i, x := range xs {
			if i > 0 {
				v.res = append(v.res, ',')
			}
			v.res = appendF(v.res, x)
		}

	case "kobs":
		v.need(2)
		k := v.getK(1)
		v.sideVals(k)
		q := k.q()
		count := q.GetCount()
		zero := q.GetZeroCount()
		empty := q.IsEmpty()
		mn, errMin := q.GetMinValue()
		mx, errMax := q.GetMaxValue()
		r := v.res
		r = append(r, "count="...)
		r = appendF(r, count)
		r = append(r, " zero="...)
		r = appendF(r, zero)
		r = append(r, " empty="...)
		r = appendBool(r, empty)
		r = append(r, " min="...)
		r = v.appendFOrDash(r, mn, errMin)
		r = append(r, " max="...)
		r = v.appendFOrDash(r, mx, errMax)
		r = append(r, " pos["...)
		r = v.appendObs(r, q.GetPositiveValueStore())
		r = append(r, "] neg["...)
		r = v.appendObs(r, q.GetNegativeValueStore())
		r = append(r, ']')
		v.res = r

	case "ksum":
		v.need(2)
		v.res = appendX(v.res, v.getK(1).q().GetSum())

	case "kforeach":
		v.need(3)
		k, n := v.getK(1), v.i(2)
		if n < 0 {
			panic(bad("range"))
		}
		v.sideVals(k)
		if n == 0 {
			v.items = v.items[:0]
			k.q().ForEach(func(value, count float64) bool {
				v.items = append(v.items, item{value, count})
				return false
			})
			sort.Stable(itemsByVal(v.items))
			v.str("items=")
			for i, it := range v.items {
				if i > 0 {
					v.res = append(v.res, ',')
				}
				v.res = appendF(v.res, it.v)
				v.res = append(v.res, ':')
				v.res = appendF(v.res, it.c)
			}
		} else {
			calls := 0
			k.q().ForEach(func(float64, float64) bool {
				calls++
				return calls == n
			})
			v.str("calls=")
			v.res = appendInt(v.res, calls)
		}

	case "kacc":
		v.need(2)
		v.res = appendX(v.res, v.getK(1).q().RelativeAccuracy())

	case "kstats":
		v.need(2)
		k := v.getK(1)
		if k.exact == nil {
			panic(bad("variant"))
		}
		count := k.exact.GetCount()
		sum := k.exact.GetSum()
		mn, errMin := k.exact.GetMinValue()
		mx, errMax := k.exact.GetMaxValue()
		r := v.res
		r = append(r, "count="...)
		r = appendF(r, count)
		r = append(r, " sum="...)
		r = appendX(r, sum)
		r = append(r, " min="...)
		r = v.appendFOrDash(r, mn, errMin)
		r = append(r, " max="...)
		r = v.appendFOrDash(r, mx, errMax)
		v.res = r

	case "kfromdata":
		v.need(4)
		k0, st := v.getK(2), v.getT(3)
		if k0.plain == nil {
			panic(bad("variant"))
		}
		e, err := ddsketch.NewDDSketchWithExactSummaryStatisticsFromData(k0.plain, st)
		if err != nil || e == nil {
			if err != nil {
				v.errClass("other")
			} else {
				v.ok()
			}
			return true
		}
		v.setK(1, &sk{exact: e})
		v.ok()

	default:
		return false
	}
	return true
}
