package main

import (
	"bytes"

	"github.com/DataDog/sketches-go/dataset"
	enc "github.com/DataDog/sketches-go/ddsketch/encoding"
	"github.com/DataDog/sketches-go/ddsketch/mapping"
	"github.com/DataDog/sketches-go/ddsketch/pb/sketchpb"
	"github.com/DataDog/sketches-go/ddsketch/stat"
	"google.golang.org/protobuf/proto"
)

// execMisc handles mapping, dataset and statistics instructions.
func (v *vm) execMisc() bool {
	t := v.t
	switch string(t[0]) {

	// ------------------------------------------------------------ mappings
	case "mnew":
		v.need(3)
		m, err := v.mkmap(2)
		if err != nil {
			v.errClass(classify(err))
			return true
		}
		v.mappings[string(t[1])] = m
		v.sideMap(m)
		v.ok()
	case "midx":
		v.need(3)
		m, x := v.getM(1), v.f(2)
		v.res = appendInt(v.res, m.Index(x))
	case "mval":
		v.need(3)
		m, i := v.getM(1), v.i(2)
		v.res = appendX(v.res, m.Value(i))
	case "mlow":
		v.need(3)
		m, i := v.getM(1), v.i(2)
		v.res = appendX(v.res, m.LowerBound(i))
	case "macc":
		v.need(2)
		v.res = appendX(v.res, v.getM(1).RelativeAccuracy())
	case "mrange":
		v.need(2)
		m := v.getM(1)
		mn, mx := m.MinIndexableValue(), m.MaxIndexableValue()
		v.str("min=")
		v.res = appendX(v.res, mn)
		v.str(" max=")
		v.res = appendX(v.res, mx)
	case "meq":
		v.need(3)
		m, m2 := v.getM(1), v.getM(2)
		v.res = appendBool(v.res, m.Equals(m2))
	case "menc":
		v.need(3)
		m := v.getM(2)
		var b []byte
		m.Encode(&b)
		v.setB(1, b)
		v.sideBytes(b)
		v.ok()
	case "mdec":
		v.need(3)
		orig := v.getB(2)
		b := orig
		flag, err := enc.DecodeFlag(&b)
		if err != nil {
			v.errClass(classify(err))
			return true
		}
		m, err := mapping.Decode(&b, flag)
		if err != nil {
			v.errClass(classify(err))
			return true
		}
		v.mappings[string(t[1])] = m
		v.sideMap(m)
		v.str("ok ")
		v.res = appendInt(v.res, len(orig)-len(b))
	case "mproto":
		v.need(3)
		m := v.getM(2)
		v.mprotos[string(t[1])] = m.ToProto()
		v.ok()
	case "mstream":
		v.need(3)
		m := v.getM(2)
		var buf bytes.Buffer
		builder := sketchpb.NewIndexMappingBuilder(&buf)
		m.EncodeProto(builder)
		b := buf.Bytes()
		v.setB(1, b)
		v.sideBytes(b)
		v.ok()
	case "mpmarshal":
		v.need(3)
		q := v.getQ(2)
		b, err := marshalOpts.Marshal(q)
		if err != nil {
			v.errClass("other")
			return true
		}
		v.setB(1, b)
		v.sideBytes(b)
		v.ok()
	case "mpunmarshal":
		v.need(3)
		b := v.getB(2)
		q := &sketchpb.IndexMapping{}
		if err := proto.Unmarshal(b, q); err != nil {
			v.errClass("other")
			return true
		}
		v.mprotos[string(t[1])] = q
		v.ok()
	case "mpmk":
		v.need(5)
		interp := v.i64(2)
		if interp != int64(int32(interp)) {
			panic(bad("int"))
		}
		v.mprotos[string(t[1])] = &sketchpb.IndexMapping{
			Gamma:         v.f(3),
			IndexOffset:   v.f(4),
			Interpolation: sketchpb.IndexMapping_Interpolation(interp),
		}
		v.ok()
	case "mpedit":
		// mpedit Q gamma|off|interp value: changes one field of an existing message IN PLACE (the caller owns the message it was given)
		v.need(4)
		q := v.getQ(1)
		switch string(t[2]) {
		case "gamma":
			q.Gamma = v.f(3)
		case "off":
			q.IndexOffset = v.f(3)
		case "interp":
			q.Interpolation = sketchpb.IndexMapping_Interpolation(int32(v.i64(3)))
		default:
			panic(bad("variant"))
		}
		v.ok()
	case "mfromproto":
		v.need(3)
		var q *sketchpb.IndexMapping
		if !v.is(2, "-") {
			q = v.getQ(2)
		}
		m, err := mapping.FromProto(q)
		if err != nil {
			v.errClass(classify(err))
			return true
		}
		v.mappings[string(t[1])] = m
		v.sideMap(m)
		v.ok()
	case "mpobs":
		v.need(2)
		q := v.getQ(1)
		v.res = appendInt(v.res, int(q.Interpolation))
		v.res = append(v.res, ':')
		v.res = appendX(v.res, q.Gamma)
		v.res = append(v.res, ':')
		v.res = appendX(v.res, q.IndexOffset)

	// ------------------------------------------------------------ datasets
	case "dnew":
		v.need(2)
		v.datasets[string(t[1])] = dataset.NewDataset()
		v.ok()
	case "dadd":
		v.need(3)
		d, x := v.getD(1), v.f(2)
		d.Add(x)
		v.ok()
	case "dmerge":
		v.need(3)
		d, d2 := v.getD(1), v.getD(2)
		d.Merge(d2)
		v.ok()
	case "dlo":
		v.need(3)
		d, q := v.getD(1), v.f(2)
		v.res = appendF(v.res, d.LowerQuantile(q))
	case "dhi":
		v.need(3)
		d, q := v.getD(1), v.f(2)
		v.res = appendF(v.res, d.UpperQuantile(q))
	case "dq":
		v.need(3)
		d, q := v.getD(1), v.f(2)
		v.res = appendF(v.res, d.Quantile(q))
	case "dmin":
		v.need(2)
		v.res = appendF(v.res, v.getD(1).Min())
	case "dmax":
		v.need(2)
		v.res = appendF(v.res, v.getD(1).Max())
	case "dcount":
		v.need(2)
		v.res = appendF(v.res, v.getD(1).Count)
	case "dsum":
		v.need(2)
		v.res = appendX(v.res, v.getD(1).Sum())

	// ------------------------------------------------------------ statistics
	case "tnew":
		v.need(6)
		st, err := stat.NewSummaryStatisticsFromData(v.f(2), v.f(3), v.f(4), v.f(5))
		if err != nil || st == nil {
			v.errClass("bad-stats")
			return true
		}
		v.stats[string(t[1])] = st
		v.ok()
	case "tobs":
		v.need(2)
		st := v.getT(1)
		v.str("count=")
		v.res = appendF(v.res, st.Count())
		v.str(" sum=")
		v.res = appendX(v.res, st.Sum())
		v.str(" min=")
		v.res = appendF(v.res, st.Min())
		v.str(" max=")
		v.res = appendF(v.res, st.Max())

	case "tobsx":
		v.need(2)
		st := v.getT(1)
		v.str("count=")
		v.res = appendX(v.res, st.Count())
		v.str(" sum=")
		v.res = appendX(v.res, st.Sum())
		v.str(" min=")
		v.res = appendX(v.res, st.Min())
		v.str(" max=")
		v.res = appendX(v.res, st.Max())
	case "tempty":
		v.need(2)
		v.stats[string(t[1])] = stat.NewSummaryStatistics()
		v.ok()
	case "tadd":
		v.need(4)
		st, x, c := v.getT(1), v.f(2), v.f(3)
		st.Add(x, c)
		v.ok()
	case "taddcount":
		v.need(3)
		st, x := v.getT(1), v.f(2)
		st.AddToCount(x)
		v.ok()
	case "taddsum":
		v.need(3)
		st, x := v.getT(1), v.f(2)
		st.AddToSum(x)
		v.ok()
	case "tmerge":
		v.need(3)
		st, o := v.getT(1), v.getT(2)
		st.MergeWith(o)
		v.ok()
	case "treweight":
		v.need(3)
		st, x := v.getT(1), v.f(2)
		st.Reweight(x)
		v.ok()
	case "trescale":
		v.need(3)
		st, x := v.getT(1), v.f(2)
		st.Rescale(x)
		v.ok()
	case "tclear":
		v.need(2)
		v.getT(1).Clear()
		v.ok()
	case "tcopy":
		v.need(3)
		v.stats[string(t[1])] = v.getT(2).Copy()
		v.ok()

	default:
		return false
	}
	return true
}
