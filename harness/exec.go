package main

import (
	"bytes"
	"encoding/binary"
	"errors"
	"io"
	"math"
	"sort"

	"github.com/DataDog/sketches-go/dataset"
	"github.com/DataDog/sketches-go/ddsketch"
	enc "github.com/DataDog/sketches-go/ddsketch/encoding"
	"github.com/DataDog/sketches-go/ddsketch/mapping"
	"github.com/DataDog/sketches-go/ddsketch/pb/sketchpb"
	"github.com/DataDog/sketches-go/ddsketch/stat"
	"github.com/DataDog/sketches-go/ddsketch/store"
	"google.golang.org/protobuf/proto"
)

// ---------------------------------------------------------------- error classes

func classify(err error) string {
	switch {
	case errors.Is(err, io.EOF):
		return "eof"
	case errors.Is(err, ddsketch.ErrNegativeCount):
		return "neg-count"
	case errors.Is(err, ddsketch.ErrUntrackableTooHigh):
		return "too-high"
	case errors.Is(err, ddsketch.ErrUntrackableTooLow):
		return "too-low"
	case errors.Is(err, ddsketch.ErrUntrackableNaN):
		return "nan"
	}
	switch err.Error() {
	case "varint overflows a 32-bit integer":
		return "overflow32"
	case "unknown encoding flag":
		return "unknown-flag"
	case "unknown bin encoding":
		return "unknown-bins"
	case "unknown mapping":
		return "unknown-mapping"
	case "index mapping mismatch", "Cannot merge sketches with different index mappings.":
		return "mapping-mismatch"
	case "missing index mapping":
		return "missing-mapping"
	case "missing exact summary statistics":
		return "missing-stats"
	case "The quantile must be between 0 and 1.":
		return "bad-quantile"
	case "no such element exists", "MinIndex of empty store is undefined", "MaxIndex of empty store is undefined":
		return "empty"
	case "can't reweight by a negative factor":
		return "bad-factor"
	case "The relative accuracy must be between 0 and 1.":
		return "bad-accuracy"
	case "Gamma must be greater than 1.":
		return "bad-gamma"
	case "The count cannot be negative":
		return "neg-count"
	case "cannot create IndexMapping from nil protobuf index mapping":
		return "nil-proto"
	}
	return "other"
}

// ---------------------------------------------------------------- registers

func (v *vm) getS(i int) store.Store {
	s, ok := v.stores[string(v.t[i])]
	if !ok {
		panic(bad("reg"))
	}
	return s
}

func (v *vm) getB(i int) []byte {
	b, ok := v.bytesR[string(v.t[i])]
	if !ok {
		panic(bad("reg"))
	}
	return b
}

func (v *vm) getP(i int) *sketchpb.Store {
	p, ok := v.sprotos[string(v.t[i])]
	if !ok {
		panic(bad("reg"))
	}
	return p
}

func (v *vm) getK(i int) *sk {
	k, ok := v.sketches[string(v.t[i])]
	if !ok {
		panic(bad("reg"))
	}
	return k
}

func (v *vm) getKP(i int) *sketchpb.DDSketch {
	p, ok := v.kprotos[string(v.t[i])]
	if !ok {
		panic(bad("reg"))
	}
	return p
}

func (v *vm) getM(i int) mapping.IndexMapping {
	m, ok := v.mappings[string(v.t[i])]
	if !ok {
		panic(bad("reg"))
	}
	return m
}

func (v *vm) getQ(i int) *sketchpb.IndexMapping {
	m, ok := v.mprotos[string(v.t[i])]
	if !ok {
		panic(bad("reg"))
	}
	return m
}

func (v *vm) getD(i int) *dataset.Dataset {
	d, ok := v.datasets[string(v.t[i])]
	if !ok {
		panic(bad("reg"))
	}
	return d
}

func (v *vm) getT(i int) *stat.SummaryStatistics {
	t, ok := v.stats[string(v.t[i])]
	if !ok {
		panic(bad("reg"))
	}
	return t
}

func (v *vm) setB(i int, b []byte) { v.bytesR[string(v.t[i])] = b }

func (v *vm) setK(i int, k *sk) {
	k.seen = make(map[int]struct{})
	v.sketches[string(v.t[i])] = k
}

// ---------------------------------------------------------------- kinds and mapping specs

func (v *vm) provider(i int) store.Provider {
	t := v.t[i]
	switch string(t) {
	case "dense":
		return func() store.Store { return store.NewDenseStore() }
	case "sparse":
		return func() store.Store { return store.NewSparseStore() }
	case "pag":
		return func() store.Store { return store.NewBufferedPaginatedStore() }
	}
	if len(t) > 4 && string(t[:4]) == "low:" {
		n, ok := parseInt64(t[4:])
		if !ok {
			panic(bad("kind"))
		}
		return func() store.Store { return store.NewCollapsingLowestDenseStore(int(n)) }
	}
	if len(t) > 5 && string(t[:5]) == "high:" {
		n, ok := parseInt64(t[5:])
		if !ok {
			panic(bad("kind"))
		}
		return func() store.Store { return store.NewCollapsingHighestDenseStore(int(n)) }
	}
	panic(bad("kind"))
}

// mkmap interprets a mapping spec: log|lin|cub ":a:" hexalpha  or  ":g:" hexgamma ":" hexoffset.
func (v *vm) mkmap(i int) (mapping.IndexMapping, error) {
	t := v.t[i]
	if len(t) < 6 || t[3] != ':' || t[5] != ':' {
		panic(bad("map"))
	}
	kind := string(t[:3])
	if kind != "log" && kind != "lin" && kind != "cub" {
		panic(bad("map"))
	}
	rest := t[6:]
	switch t[4] {
	case 'a':
		a, ok := parseFloatBits(rest)
		if !ok {
			panic(bad("map"))
		}
		switch kind {
		case "log":
			m, err := mapping.NewLogarithmicMapping(a)
			if err != nil {
				return nil, err
			}
			return m, nil
		case "lin":
			m, err := mapping.NewLinearlyInterpolatedMapping(a)
			if err != nil {
				return nil, err
			}
			return m, nil
		default:
			m, err := mapping.NewCubicallyInterpolatedMapping(a)
			if err != nil {
				return nil, err
			}
			return m, nil
		}
	case 'g':
		if len(rest) != 33 || rest[16] != ':' {
			panic(bad("map"))
		}
		g, ok1 := parseFloatBits(rest[:16])
		o, ok2 := parseFloatBits(rest[17:])
		if !ok1 || !ok2 {
			panic(bad("map"))
		}
		switch kind {
		case "log":
			m, err := mapping.NewLogarithmicMappingWithGamma(g, o)
			if err != nil {
				return nil, err
			}
			return m, nil
		case "lin":
			m, err := mapping.NewLinearlyInterpolatedMappingWithGamma(g, o)
			if err != nil {
				return nil, err
			}
			return m, nil
		default:
			m, err := mapping.NewCubicallyInterpolatedMappingWithGamma(g, o)
			if err != nil {
				return nil, err
			}
			return m, nil
		}
	}
	panic(bad("map"))
}

// sideMap emits "# map kind=.. gamma=.. off=.. acc=.. min=.. max=..".
func (v *vm) sideMap(m mapping.IndexMapping) {
	kind := "?"
	switch m.(type) {
	case *mapping.LogarithmicMapping:
		kind = "log"
	case *mapping.LinearlyInterpolatedMapping:
		kind = "lin"
	case *mapping.CubicallyInterpolatedMapping:
		kind = "cub"
	}
	p := m.ToProto()
	s := append(v.side[:0], "# map kind="...)
	s = append(s, kind...)
	s = append(s, " gamma="...)
	s = appendX(s, p.Gamma)
	s = append(s, " off="...)
	s = appendX(s, p.IndexOffset)
	s = append(s, " acc="...)
	s = appendX(s, m.RelativeAccuracy())
	s = append(s, " min="...)
	s = appendX(s, m.MinIndexableValue())
	s = append(s, " max="...)
	s = appendX(s, m.MaxIndexableValue())
	s = append(s, '\n')
	v.side = s
	v.out.Write(s)
}

// ---------------------------------------------------------------- store observers

func (v *vm) collectBins(s store.Store) {
	v.bins = v.bins[:0]
	s.ForEach(func(index int, count float64) bool {
		v.bins = append(v.bins, binrec{index, count})
		return false
	})
	sort.Stable(binsByIdx(v.bins))
}

func (v *vm) appendBins(dst []byte) []byte {
	dst = append(dst, "bins="...)
	for i, b := range v.bins {
		if i > 0 {
			dst = append(dst, ',')
		}
		dst = appendInt(dst, b.idx)
		dst = append(dst, ':')
		dst = appendF(dst, b.w)
	}
	return dst
}

func (v *vm) appendObs(dst []byte, s store.Store) []byte {
	total := s.TotalCount()
	empty := s.IsEmpty()
	mn, errMin := s.MinIndex()
	mx, errMax := s.MaxIndex()
	v.collectBins(s)
	dst = append(dst, "total="...)
	dst = appendF(dst, total)
	dst = append(dst, " empty="...)
	dst = appendBool(dst, empty)
	dst = append(dst, " min="...)
	if errMin != nil {
		dst = append(dst, '-')
	} else {
		dst = appendInt(dst, mn)
	}
	dst = append(dst, " max="...)
	if errMax != nil {
		dst = append(dst, '-')
	} else {
		dst = appendInt(dst, mx)
	}
	dst = append(dst, ' ')
	return v.appendBins(dst)
}

func appendPobs(dst []byte, p *sketchpb.Store, scratch *[]binrec) []byte {
	bins := (*scratch)[:0]
	for i, w := range p.BinCounts {
		bins = append(bins, binrec{int(i), w})
	}
	sort.Stable(binsByIdx(bins))
	*scratch = bins
	dst = append(dst, "bins="...)
	for i, b := range bins {
		if i > 0 {
			dst = append(dst, ',')
		}
		dst = appendInt(dst, b.idx)
		dst = append(dst, ':')
		dst = appendF(dst, b.w)
	}
	dst = append(dst, " off="...)
	dst = appendInt(dst, int(p.ContiguousBinIndexOffset))
	dst = append(dst, " contig="...)
	for i, w := range p.ContiguousBinCounts {
		if i > 0 {
			dst = append(dst, ',')
		}
		dst = appendF(dst, w)
	}
	return dst
}

// encodeWithPrefix implements the enc/kenc/menc convention: b := prefix; encode(&b); "# bytes"; ok / prefix-clobbered.
func (v *vm) encodeWithPrefix(dstReg int, prefix []byte, encode func(b *[]byte)) {
	// the spare capacity behind the prefix varies with its length (none, a few bytes, just under and over the size of
	// small blocks, roomy): encoders that reserve room must keep what the buffer already holds
	spare := []int{64, 0, 3, 36, 9, 200, 37, 1}[len(prefix)%8]
	b := make([]byte, len(prefix), len(prefix)+spare)
	copy(b, prefix)
	encode(&b)
	v.setB(dstReg, b)
	v.sideBytes(b)
	if len(b) < len(prefix) || !bytes.Equal(b[:len(prefix)], prefix) {
		v.str("prefix-clobbered")
	} else {
		v.ok()
	}
}

func flagByte(f enc.Flag) byte {
	var one [1]byte
	b := one[:0]
	enc.EncodeFlag(&b, f)
	return b[0]
}

var marshalOpts = proto.MarshalOptions{Deterministic: true}

// decResult formats the outcome of a codec decoder: "ok <value> <consumed>" or "err <class>[ advanced]".
func (v *vm) decTail(orig, rest []byte, err error) bool {
	if err != nil {
		v.errClass(classify(err))
		if len(rest) != len(orig) {
			v.str(" advanced")
		}
		return false
	}
	return true
}

// ---------------------------------------------------------------- dispatch

func (v *vm) exec() {
	t := v.t
	switch string(t[0]) {

	// ------------------------------------------------------------ stores
	case "new":
		v.need(3)
		v.stores[string(t[1])] = v.provider(2)()
		v.ok()
	case "add":
		v.need(3)
		s, i := v.getS(1), v.i(2)
		s.Add(i)
		v.ok()
	case "addw":
		v.need(4)
		s, i, w := v.getS(1), v.i(2), v.f(3)
		s.AddWithCount(i, w)
		v.ok()
	case "addbin":
		v.need(4)
		s, i, w := v.getS(1), v.i(2), v.f(3)
		bin, err := store.NewBin(i, w)
		if err != nil {
			v.errClass(classify(err))
			return
		}
		s.AddBin(*bin)
		v.ok()
	case "merge":
		v.need(3)
		s, s2 := v.getS(1), v.getS(2)
		s.MergeWith(s2)
		v.ok()
	case "copy":
		v.need(3)
		s := v.getS(2)
		c := s.Copy()
		v.stores[string(t[1])] = c
		v.ok()
	case "clear":
		v.need(2)
		v.getS(1).Clear()
		v.ok()
	case "reweight":
		v.need(3)
		s, w := v.getS(1), v.f(2)
		v.okOrErr(s.Reweight(w))
	case "rank":
		v.need(3)
		s, w := v.getS(1), v.f(2)
		v.res = appendInt(v.res, s.KeyAtRank(w))
	case "obs":
		v.need(2)
		v.res = v.appendObs(v.res, v.getS(1))
	case "binsch":
		v.need(2)
		s := v.getS(1)
		v.bins = v.bins[:0]
		for b := range s.Bins() {
			v.bins = append(v.bins, binrec{b.Index(), b.Count()})
		}
		sort.Stable(binsByIdx(v.bins))
		v.res = v.appendBins(v.res)
	case "foreachstop":
		v.need(3)
		s, n := v.getS(1), v.i(2)
		calls := 0
		s.ForEach(func(int, float64) bool {
			calls++
			return calls == n
		})
		v.str("calls=")
		v.res = appendInt(v.res, calls)
	case "layout":
		v.need(2)
		a, b, c := store.VerifLayout(v.getS(1))
		v.str("binslen=")
		v.res = appendInt(v.res, a)
		v.str(" buflen=")
		v.res = appendInt(v.res, b)
		v.str(" pages=")
		v.res = appendInt(v.res, c)
	case "enc":
		v.needRange(4, 5)
		s := v.getS(2)
		var ft enc.FlagType
		switch string(t[3]) {
		case "pos":
			ft = enc.FlagTypePositiveStore
		case "neg":
			ft = enc.FlagTypeNegativeStore
		default:
			panic(bad("flagtype"))
		}
		var prefix []byte
		if len(t) == 5 {
			prefix = v.hex(4)
		}
		v.encodeWithPrefix(1, prefix, func(b *[]byte) { s.Encode(b, ft) })
	case "dec":
		v.need(3)
		s, b := v.getS(1), v.getB(2)
		for len(b) > 0 {
			flag, err := enc.DecodeFlag(&b)
			if err != nil {
				v.errClass(classify(err))
				return
			}
			if err := s.DecodeAndMergeWith(&b, flag.SubFlag()); err != nil {
				v.errClass(classify(err))
				return
			}
		}
		v.ok()
	case "toproto":
		v.need(3)
		s := v.getS(2)
		v.sprotos[string(t[1])] = s.ToProto()
		v.ok()
	case "pstream":
		v.need(3)
		s := v.getS(2)
		var buf bytes.Buffer
		builder := sketchpb.NewStoreBuilder(&buf)
		s.EncodeProto(builder)
		b := buf.Bytes()
		v.setB(1, b)
		v.sideBytes(b)
		v.ok()
	case "pmarshal":
		v.need(3)
		p := v.getP(2)
		b, err := marshalOpts.Marshal(p)
		if err != nil {
			v.errClass("other")
			return
		}
		v.setB(1, b)
		v.sideBytes(b)
		v.ok()
	case "punmarshal":
		v.need(3)
		b := v.getB(2)
		p := &sketchpb.Store{}
		if err := proto.Unmarshal(b, p); err != nil {
			v.errClass("other")
			return
		}
		v.sprotos[string(t[1])] = p
		v.ok()
	case "protomk":
		v.need(4)
		v.sprotos[string(t[1])] = v.parseProtomk(t[2], t[3])
		v.ok()
	case "fromproto":
		v.need(3)
		s, p := v.getS(1), v.getP(2)
		if pg, ok := s.(*store.BufferedPaginatedStore); ok {
			pg.MergeWithProto(p)
		} else {
			store.MergeWithProto(s, p)
		}
		v.ok()
	case "newfromproto":
		v.need(3)
		v.stores[string(t[1])] = store.FromProto(v.getP(2))
		v.ok()
	case "pobs":
		v.need(2)
		v.res = appendPobs(v.res, v.getP(1), &v.bins)

	// ------------------------------------------------------------ byte strings
	case "braw":
		v.need(3)
		v.setB(1, v.hex(2))
		v.ok()
	case "bcat":
		if len(t) < 2 {
			panic(bad("arity"))
		}
		out := []byte{}
		for i := 2; i < len(t); i++ {
			out = append(out, v.getB(i)...)
		}
		v.setB(1, out)
		v.ok()
	case "bcut":
		v.need(4)
		b, n := v.getB(2), v.i(3)
		if n < 0 || n > len(b) {
			panic(bad("range"))
		}
		v.setB(1, append([]byte{}, b[:n]...))
		v.ok()
	case "bdrop":
		v.need(4)
		b, n := v.getB(2), v.i(3)
		if n < 0 || n > len(b) {
			panic(bad("range"))
		}
		v.setB(1, append([]byte{}, b[n:]...))
		v.ok()
	case "bset":
		v.need(5)
		b, pos, x := v.getB(2), v.i(3), v.i(4)
		if pos < 0 || pos >= len(b) || x < 0 || x > 255 {
			panic(bad("range"))
		}
		c := append([]byte{}, b...)
		c[pos] = byte(x)
		v.setB(1, c)
		v.ok()
	case "blen":
		v.need(2)
		v.res = appendInt(v.res, len(v.getB(1)))
	case "bhex":
		v.need(2)
		v.res = appendHex(v.res, v.getB(1))

	// ------------------------------------------------------------ codec
	case "uv", "sv", "sv32", "f64", "vf", "flag":
		v.execCodec()

	default:
		if !v.execSketch() && !v.execMisc() {
			panic(bad("op"))
		}
	}
}

func (v *vm) parseProtomk(binsTok, contigTok []byte) *sketchpb.Store {
	p := &sketchpb.Store{}
	if len(binsTok) < 5 || string(binsTok[:5]) != "bins=" {
		panic(bad("protomk"))
	}
	rest := binsTok[5:]
	if len(rest) > 0 {
		p.BinCounts = make(map[int32]float64)
	}
	for len(rest) > 0 {
		j := bytes.IndexByte(rest, ',')
		var e []byte
		if j < 0 {
			e, rest = rest, nil
		} else {
			e, rest = rest[:j], rest[j+1:]
		}
		c := bytes.IndexByte(e, ':')
		if c < 0 {
			panic(bad("protomk"))
		}
		i, ok1 := parseInt64(e[:c])
		w, ok2 := parseFloatBits(e[c+1:])
		if !ok1 || !ok2 || i != int64(int32(i)) {
			panic(bad("protomk"))
		}
		p.BinCounts[int32(i)] = w
	}
	if len(contigTok) < 7 || string(contigTok[:7]) != "contig=" {
		panic(bad("protomk"))
	}
	rest = contigTok[7:]
	c := bytes.IndexByte(rest, ':')
	if c < 0 {
		panic(bad("protomk"))
	}
	off, ok := parseInt64(rest[:c])
	if !ok || off != int64(int32(off)) {
		panic(bad("protomk"))
	}
	p.ContiguousBinIndexOffset = int32(off)
	rest = rest[c+1:]
	for len(rest) > 0 {
		j := bytes.IndexByte(rest, ',')
		var e []byte
		if j < 0 {
			e, rest = rest, nil
		} else {
			e, rest = rest[:j], rest[j+1:]
		}
		w, ok := parseFloatBits(e)
		if !ok {
			panic(bad("protomk"))
		}
		p.ContiguousBinCounts = append(p.ContiguousBinCounts, w)
	}
	return p
}

func (v *vm) execCodec() {
	t := v.t
	v.need(3)
	op := string(t[1])
	switch string(t[0]) {
	case "uv":
		switch op {
		case "enc":
			var b []byte
			enc.EncodeUvarint64(&b, v.u64(2))
			v.res = appendHex(v.res, b)
		case "dec":
			orig := v.hex(2)
			b := orig
			x, err := enc.DecodeUvarint64(&b)
			if v.decTail(orig, b, err) {
				v.str("ok ")
				v.res = appendUint(v.res, x)
				v.str(" ")
				v.res = appendInt(v.res, len(orig)-len(b))
			}
		case "size":
			v.res = appendInt(v.res, enc.Uvarint64Size(v.u64(2)))
		default:
			panic(bad("op"))
		}
	case "sv":
		switch op {
		case "enc":
			var b []byte
			enc.EncodeVarint64(&b, v.i64(2))
			v.res = appendHex(v.res, b)
		case "dec":
			orig := v.hex(2)
			b := orig
			x, err := enc.DecodeVarint64(&b)
			if v.decTail(orig, b, err) {
				v.str("ok ")
				v.res = appendInt(v.res, int(x))
				v.str(" ")
				v.res = appendInt(v.res, len(orig)-len(b))
			}
		case "size":
			v.res = appendInt(v.res, enc.Varint64Size(v.i64(2)))
		default:
			panic(bad("op"))
		}
	case "sv32":
		if op != "dec" {
			panic(bad("op"))
		}
		orig := v.hex(2)
		b := orig
		x, err := enc.DecodeVarint32(&b)
		if v.decTail(orig, b, err) {
			v.str("ok ")
			v.res = appendInt(v.res, int(x))
			v.str(" ")
			v.res = appendInt(v.res, len(orig)-len(b))
		}
	case "f64":
		switch op {
		case "enc":
			var b []byte
			enc.EncodeFloat64LE(&b, v.f(2))
			v.res = appendHex(v.res, b)
		case "dec":
			orig := v.hex(2)
			b := orig
			x, err := enc.DecodeFloat64LE(&b)
			if v.decTail(orig, b, err) {
				v.str("ok ")
				v.res = appendX(v.res, x)
				v.str(" ")
				v.res = appendInt(v.res, len(orig)-len(b))
			}
		case "decbits":
			// the decoded value bit for bit (NaN payloads and signs included), printed as its little-endian bytes
			orig := v.hex(2)
			b := orig
			x, err := enc.DecodeFloat64LE(&b)
			if v.decTail(orig, b, err) {
				var le [8]byte
				binary.LittleEndian.PutUint64(le[:], math.Float64bits(x))
				v.str("ok b")
				v.res = appendHex(v.res, le[:])
				v.str(" ")
				v.res = appendInt(v.res, len(orig)-len(b))
			}
		default:
			panic(bad("op"))
		}
	case "vf":
		switch op {
		case "enc":
			var b []byte
			enc.EncodeVarfloat64(&b, v.f(2))
			v.res = appendHex(v.res, b)
		case "dec":
			orig := v.hex(2)
			b := orig
			x, err := enc.DecodeVarfloat64(&b)
			if v.decTail(orig, b, err) {
				v.str("ok ")
				v.res = appendX(v.res, x)
				v.str(" ")
				v.res = appendInt(v.res, len(orig)-len(b))
			}
		case "size":
			v.res = appendInt(v.res, enc.Varfloat64Size(v.f(2)))
		default:
			panic(bad("op"))
		}
	case "flag":
		if op != "dec" {
			panic(bad("op"))
		}
		orig := v.hex(2)
		b := orig
		f, err := enc.DecodeFlag(&b)
		if v.decTail(orig, b, err) {
			v.str("ok ")
			v.res = appendInt(v.res, int(flagByte(f)))
			v.str(" type=")
			v.res = appendInt(v.res, int(flagByte(enc.NewFlag(f.Type(), enc.SubFlag{}))))
			v.str(" sub=")
			v.res = appendInt(v.res, int(flagByte(enc.NewFlag(enc.FlagType{}, f.SubFlag()))))
			v.str(" ")
			v.res = appendInt(v.res, len(orig)-len(b))
		}
	}
}
