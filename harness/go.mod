module vrun

go 1.18

require (
	github.com/DataDog/sketches-go v0.0.0
	google.golang.org/protobuf v1.32.0
)

replace github.com/DataDog/sketches-go => /repo
