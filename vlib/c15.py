"""C15: a cleared sketch or store is indistinguishable from a new one."""
import random
from fractions import Fraction
from . import core, sketchcheck
from .sketchgen import Builder, mapspec, STORES, rand_values, spec_list
from .core import f2h

KINDS = STORES + ["pag", "dense", "low:4", "high:4", "low:32", "high:64", "high:100", "low:100", "high:100"]          # 100: the array of such a store is longer than its limit

def history(rng, b, regs, spec, n, lo, hi, twin=True):
    """Apply the same random operations to every register in regs."""
    for _ in range(n):
        op = rng.choice(["add"] * 6 + ["addw", "addw", "rew", "burst", "self-enc"])
        if op == "add":
            v = rand_values(rng, 1, lo, hi)[0]
            for r in regs: b.kadd(r, v)
        elif op == "addw":
            v = rand_values(rng, 1, lo, hi)[0]; w = rng.choice([2.0, 0.5, 0.25, 7.0])
            for r in regs: b.kadd(r, v, w)
        elif op == "burst":
            v = rand_values(rng, 1, lo, hi, zeros=0)[0]
            for i in range(rng.choice([20, 70])):
                for r in regs: b.kadd(r, v * (1 + (i % 7) / 10.0))
        elif op == "rew":
            f = rng.choice([Fraction(1, 2), Fraction(2), Fraction(3, 4)])
            for r in regs: b.kreweight(r, f)
        elif op == "self-enc":
            for r in regs: b.emit("kenc e%s %s 0" % (r, r), "ok")

def build(rng, facts, name):
    spec = rng.choice(sorted(facts)); b = Builder(name)
    kp, kn = rng.choice(KINDS), rng.choice(KINDS); exact = rng.random() < 0.4
    b.knew("c", spec, kp, kn, exact)
    cycles = rng.choice([1, 1, 2, 3])
    for cyc in range(cycles):
        # history before Clear: wide range so that arrays, pages and the collapsed state are populated
        history(rng, b, ["c"], spec, rng.randint(3, 25), rng.choice([-3, -1, 0]), rng.choice([1, 2, 3]))
        if exact and rng.random() < 0.3:          # the exact sum leaves the float range before Clear (value * weight overflows)
            big = facts[spec]["max"] * 0.5
            if big > 1e290: b.kadd("c", big, 1e15); b.kadd("c", -big, 1e15)
        if exact and rng.random() < 0.3:          # a decode refused for missing statistics has already merged bins: Clear must still empty the sketch
            b.knew("pl", spec, rng.choice(STORES), rng.choice(STORES), False); b.kadd("pl", 2.5); b.kadd("pl", -0.75, 2.0); b.kadd("pl", 0.0)
            b.kclear("c"); b.emit("kenc pbytes pl 0", "ok"); b.emit("kdecinto c pbytes", "err missing-stats")
        b.kclear("c")
        b.emit("kobs c", lambda a, env: None if a.startswith("count=0 zero=0 empty=1 min=- max=- pos[total=0 empty=1 min=- max=- bins=] neg[total=0 empty=1 min=- max=- bins=]") else "a cleared sketch reports %r" % a)
        fresh = "f%d" % cyc
        b.knew(fresh, spec, kp, kn, exact)
        # ... and encodes like a new one: nothing of the earlier pages, ranges or statistics reaches the wire
        om = rng.choice([0, 1]); b.emit("kenc ec c %d" % om, "ok"); b.emit("kenc ef %s %d" % (fresh, om), "ok"); jh = b.emit("bhex ef"); b.emit("bhex ec", ("same", jh))
        cc = None
        if rng.random() < 0.5 and cyc == cycles - 1:
            cc, fcc = "cc", "fcc"; b.kcopy(cc, "c"); b.knew(fcc, spec, kp, kn, exact)
            lo2, hi2 = rng.choice([-1, 0, -2]), rng.choice([0, 1, 2])
        if rng.random() < 0.3:
            # reuse as a decode target
            b.knew("src", spec, rng.choice(STORES), rng.choice(STORES), exact)
            history(rng, b, ["src"], spec, rng.randint(2, 10), -1, 1)
            b.emit("kenc bb src 0", "ok"); b.emit("kdecinto c bb", "ok"); b.emit("kdecinto %s bb" % fresh, "ok")
            b.vals["c"] = list(b.vals["src"]); b.vals[fresh] = list(b.vals["src"])
        # a copy of the cleared sketch is a new sketch too: it gets a history of its own, interleaved with that of the cleared sketch
        # (memory retained by Clear must not be shared), and is compared with a fresh twin of its own
        if cc:
            history(rng, b, [cc, fcc], spec, rng.randint(1, 6), lo2, hi2)
        # the first weights after Clear may arrive through a merge from a sketch of the same kinds (the same-kind fast paths of the stores)
        if rng.random() < 0.4:
            b.knew("sd", spec, kp, kn, exact)
            for v in rand_values(rng, rng.choice([1, 3, 8]), 1, 2, zeros=0): b.kadd("sd", v)
            b.kmerge("c", "sd"); b.kmerge(fresh, "sd")
        # history after Clear on the cleared sketch and on its fresh twin: narrower / earlier ranges
        history(rng, b, ["c", fresh], spec, rng.randint(2, 20), rng.choice([-1, 0, -2]), rng.choice([0, 1, 2]))
        if exact and "dense" not in (kp, kn) and rng.random() < 0.4:          # (not on unbounded arrays: values next to the top of the range would make the run a test of array growth)
            # ... and the exact sum leaves the float range again after Clear: the same infinity as on a new sketch
            big = facts[spec]["max"] * 0.5; sg = rng.choice((1, -1))
            if big > 1e290:
                for r in ("c", fresh): b.kadd(r, sg * big, 16.0); b.kadd(r, sg * big * 0.5, 64.0); b.kadd(r, sg * 3.0)          # small dyadic weights: the bins stay exact
        if cc:
            history(rng, b, [cc, fcc], spec, rng.randint(1, 8), lo2, hi2)
            j2 = b.emit("kobs " + fcc); b.emit("kobs " + cc, ("same", j2))
        j = b.emit("kobs " + fresh); b.emit("kobs c", ("same", j))
        for q in [0.0, 1.0, rng.random(), rng.random()]:
            jq = b.emit("q %s %s" % (fresh, f2h(q))); b.emit("q c %s" % f2h(q), ("same", jq))
        if exact:
            js = b.emit("kstats " + fresh); b.emit("kstats c", ("same", js))
    return b

def build_same_length(rng, facts, name):
    """State that a read leaves behind must not survive Clear: a paginated (or any) sketch takes n thinly spread unit values (they stay in the buffer), is READ
    (observation, quantile, encoding or iteration: each sorts the buffer), cleared, and then takes exactly n (sometimes n-1 / n+1) new values in descending or
    random order - the lengths coincide with those at the last read - before it is compared with a fresh twin that was never read."""
    spec = rng.choice(sorted(facts)); b = Builder(name)
    kp = rng.choice(["pag", "pag", "pag", "sparse", "dense"]); wide = kp != "dense"; exact = rng.random() < 0.2
    b.knew("c", spec, kp, kp, exact)
    for cyc in range(rng.choice([1, 1, 2])):
        n = rng.choice([2, 3, 5, 8, 20, 40, 70, 100])
        for v in rand_values(rng, n, -30 if wide else -2, 30 if wide else 2, zeros=0.0, signs=(1,)): b.kadd("c", v)
        for rd in rng.sample(["kobs c", "q c %s" % f2h(rng.random()), "kenc er c 0", "kforeach c 0", "ktoproto PR c"], rng.choice([1, 1, 2])):
            b.emit(rd, "ok" if rd.startswith(("kenc", "ktoproto")) else None)
        b.kclear("c"); fresh = "f%d" % cyc; b.knew(fresh, spec, kp, kp, exact)
        m = max(1, n + rng.choice([0, 0, 0, 0, -1, 1]))
        vs = rand_values(rng, m, -30 if wide else -2, 30 if wide else 2, zeros=0.0, signs=(1,))
        if rng.random() < 0.6: vs = sorted(vs, reverse=True)
        if rng.random() < 0.4:          # ... or the new entries arrive through a decode (the paginated store appends decoded index deltas to its buffer directly)
            b.knew("sd", spec, "pag", "pag", exact)
            for v in vs: b.kadd("sd", v)
            b.emit("kenc bsd sd 0", "ok"); b.emit("kdecinto c bsd", "ok"); b.emit("kdecinto %s bsd" % fresh, "ok"); b.vals["c"] = list(b.vals["sd"]); b.vals[fresh] = list(b.vals["sd"])
        else:
            for v in vs: b.kadd("c", v); b.kadd(fresh, v)
        for q in [0.0, rng.random(), 1.0]:
            jq = b.emit("q %s %s" % (fresh, f2h(q))); b.emit("q c %s" % f2h(q), ("same", jq))
        jf = b.emit("kforeach %s 0" % fresh); b.emit("kforeach c 0", ("same", jf))
        j = b.emit("kobs " + fresh); b.emit("kobs c", ("same", j))
        b.emit("ktoproto PF %s" % fresh, "ok"); jp = b.emit("kpobs PF"); b.emit("ktoproto PC c", "ok"); b.emit("kpobs PC", ("same", jp))
    return b

def run(tier, seed):
    rng = random.Random(seed)
    ok, log = core.build_vrun()
    specs = spec_list(rng, 10 if tier == "quick" else 40)
    facts = sketchcheck.learn_specs("C15", specs) if ok else {}
    builders = ([build(rng, facts, "k%d" % i) for i in range(300 if tier == "quick" else 8000)] + [build_same_length(rng, facts, "sl%d" % i) for i in range(60 if tier == "quick" else 1200)]) if facts else []
    return sketchcheck.run_sketch_property(
        "C15", tier, seed, builders,
        "pairs (history before Clear, history after Clear) on sketches of every store kind (collapsing ones with small limits so that the collapsed state is reached) and both variants, 1-3 "
        "clear/reuse cycles, optionally reusing the cleared sketch as a decode target; the after-history (unit/weighted adds, bursts, reweights, encodes) is applied in lockstep to a freshly "
        "constructed twin; checks: the cleared sketch observes as empty, and after the common history its full observation, 4 quantiles and exact statistics equal the twin's. "
        "distinct_nontrivial = distinct cases")
