"""C02: sketches are fully mergeable."""
import random
from fractions import Fraction
from . import core, sketchcheck
from .sketchgen import Builder, mapspec, STORES, rand_values, spec_list
from .core import f2h

def build(rng, facts, name, pair=None):
    spec = rng.choice(sorted(facts)); b = Builder(name)
    n = rng.choice([0, 1, 3, 10, 40, 120]); vals = rand_values(rng, n, -2, 2, zeros=0.15)
    ws = [rng.choice([None, None, None, 2.0, 0.5, 0.25]) for _ in vals]
    kinds = lambda: (pair if pair else (rng.choice(STORES), rng.choice(STORES)))
    kw = rng.choice(STORES), rng.choice(STORES)
    exact = rng.random() < 0.3          # both variants: the exact one also merges its statistics (min/max/count of the union, a cleared part contributes nothing)
    b.knew("whole", spec, kw[0], kw[1], exact)
    for v, w in zip(vals, ws): b.kadd("whole", v, w)
    nparts = rng.randint(1, 6); parts = ["p%d" % i for i in range(nparts)]
    for i, p in enumerate(parts):
        if pair: b.knew(p, spec, pair[i % 2], pair[i % 2], exact)
        else: b.knew(p, spec, rng.choice(STORES), rng.choice(STORES), exact)
        if rng.random() < 0.15:                        # a cleared part
            b.kadd(p, 3.0); b.kadd(p, -3.0); b.kadd(p, 0.0); b.kclear(p)
    for v, w in zip(vals, ws): b.kadd(rng.choice(parts), v, w)
    # merge in a random tree shape / order
    live = list(parts); args = []
    if rng.random() < 0.3:              # a receiver that holds nothing when it absorbs its first argument (fresh, of the argument's kinds or of any)
        kz = b.kinds[rng.choice(parts)] if rng.random() < 0.6 else (rng.choice(STORES), rng.choice(STORES), exact)
        b.knew("pz", spec, kz[0], kz[1], exact); live.append("pz")
    while len(live) > 1:
        a = live.pop(rng.randrange(len(live))); c = live.pop(rng.randrange(len(live)))
        if c == "pz" and len(args) == 0: a, c = c, a
        if rng.random() < 0.5:          # the receiver has been queried (its store may have reorganised itself) before it absorbs the argument
            b.emit(rng.choice(["q %s %s" % (a, f2h(rng.random())), "kforeach %s 0" % a, "kenc scratch %s 0" % a, "kobs " + a]))
        if rng.random() < 0.3:          # a non-consuming merge first: a copy of the receiver absorbs the argument, the receiver itself must not move
            ja = b.emit("kobs " + a); jsa = b.emit("kstats " + a) if exact else None
            b.kcopy("cp", a); b.kmerge("cp", c)
            b.emit("kobs " + a, ("same", ja))
            if exact: b.emit("kstats " + a, ("same", jsa))
        j0 = b.emit("kobs " + c) if rng.random() < 0.7 else None       # (sometimes the argument is not read before the merge either)
        if not exact and rng.random() < 0.2:          # the merge travels over the wire: DecodeAndMergeWith of the argument's encoding is a merge too (dyadic weights survive the codec: Props/C18grid.v)
            b.emit("kenc mw %s %d" % (c, rng.choice([0, 1])), "ok"); b.emit("kdecinto %s mw" % a, "ok"); b.vals[a] = b.vals[a] + b.vals[c]
        else: b.kmerge(a, c)
        if j0 is None: j0 = b.emit("kobs " + c)
        else: b.emit("kobs " + c, ("same", j0))       # the argument is unchanged
        args.append((c, j0))
        if rng.random() < 0.5 and vals:
            # ... and stays unchanged when the receiver is written to afterwards (no shared memory); the same value goes to the single sketch
            v, w = rng.choice(list(zip(vals, ws)))
            if b.vals[c] and rng.random() < 0.6: v = rng.choice(b.vals[c])[0]          # a value the argument holds: the same bin on both sides
            b.kadd(a, v, w); b.kadd("whole", v, w); b.emit("kobs " + c, ("same", j0))
        live.append(a)
    r = live[0]
    for c, j0 in args: b.emit("kobs " + c, ("same", j0))
    if rng.random() < 0.3:                              # merging an empty sketch is a no-op
        b.knew("e", spec, rng.choice(STORES), rng.choice(STORES), exact); j0 = b.emit("kobs " + r)
        if rng.random() < 0.5: b.kadd("e", 1e6, 0.0); b.kadd("e", -1e6, 0.0)          # weight 0: accepted, and the sketch still holds nothing
        b.kmerge(r, "e"); b.emit("kobs " + r, ("same", j0))
    # the merged sketch and the single sketch are observationally identical: same bins (the store kinds differ, the content may not)
    jw = b.emit("kobs whole"); b.emit("kobs " + r, ("same", jw))
    if vals:
        for q in [0.0, 1.0, 0.5] + [rng.random() for _ in range(8)]:
            jq = b.emit("q whole %s" % f2h(q)); b.emit("q %s %s" % (r, f2h(q)), ("same", jq))
    jf = b.emit("kforeach whole 0"); b.emit("kforeach %s 0" % r, ("same", jf))
    if exact:
        def same_stats(a, env, impl):          # count, min, max exactly; the compensated sums of different association orders agree to a few ulps
            fa = dict(x.split("=") for x in a.split()); fw = dict(x.split("=") for x in impl[jsw].split())
            if (fa["count"], fa["min"], fa["max"]) != (fw["count"], fw["min"], fw["max"]): return "exact statistics of the merged sketch %r differ from the single sketch's %r" % (a, impl[jsw])
            return None
        jsw = b.emit("kstats whole"); b.emit("kstats " + r, same_stats)
    return b

def run(tier, seed):
    rng = random.Random(seed)
    ok, log = core.build_vrun()
    specs = spec_list(rng, 10 if tier == "quick" else 40)
    facts = sketchcheck.learn_specs("C02", specs) if ok else {}
    builders = []
    if facts:
        for i, a in enumerate(STORES):
            for j, c in enumerate(STORES):
                for r in range(2 if tier == "quick" else 20): builders.append(build(rng, facts, "pair-%s-%s-%d" % (a, c, r), pair=(a, c)))
        builders += [build(rng, facts, "t%d" % i) for i in range(280 if tier == "quick" else 8000)]
    return sketchcheck.run_sketch_property(
        "C02", tier, seed, builders,
        "an input (0..120 values with zeros, unit and dyadic weights) is fed to one sketch and split at random over 1..6 sketches of random store kinds (some cleared beforehand), which are merged "
        "in a random order/tree; every (receiver kind, argument kind) pair is enumerated; checks on the implementation: the merged sketch's full observation (count, zero, min, max, bins of both stores), "
        "11 quantiles and its iteration equal those of the single sketch exactly; each argument's observation is unchanged by the merge; merging an empty sketch changes nothing. "
        "distinct_nontrivial = distinct cases with at least 2 parts and 3 values",
        nontrivial=lambda b, impl: len(b.vals.get("whole", [])) >= 3 and sum(1 for l in b.lines if l.startswith(("kmerge", "kdecinto"))) >= 1)
