"""C11: weighted quantiles only return values the sketch holds, at the right rank."""
import random
from fractions import Fraction
from . import core, sketchcheck
from .sketchgen import Builder, mapspec, STORES, rand_values, oracle_quantile_weighted, spec_list
from .core import f2h, parse_F, nextafter

def wgt(rng, small):
    if small: return Fraction(rng.randint(1, 31), 1 << rng.choice([5, 7, 10, 12]))
    c = rng.random()
    if c < 0.3: return Fraction(rng.randint(1, 1 << rng.choice([2, 8, 20])))
    return Fraction(rng.randint(1, 1 << rng.choice([3, 10, 20])), 1 << rng.choice([1, 3, 10]))

def between(k):
    def f(a, env, impl, k=k): return None
    return f

def build(rng, facts, name):
    spec = rng.choice(sorted(facts)); b = Builder(name)
    kp, kn = rng.choice(STORES), rng.choice(STORES); exact = rng.random() < 0.3
    small = rng.random() < 0.45           # total weight below one
    n = rng.choice([1, 1, 2, 3, 6, 15, 40])
    vals = rand_values(rng, n, -3, 3, signs=rng.choice([(1,), (-1,), (1, -1), (1, -1)]))
    # one sketch in four is a copy that keeps absorbing: the first part of the data goes to the original, the copy takes the rest
    ncopy = rng.randint(0, n) if rng.random() < 0.25 else None
    if ncopy is None: b.knew("k", spec, kp, kn, exact)
    else: b.knew("k0", spec, kp, kn, exact)
    for i, v in enumerate(vals):
        if ncopy is not None and i == ncopy: b.kcopy("k", "k0")
        cur = "k0" if ncopy is not None and i < ncopy else "k"
        w = wgt(rng, small) if rng.random() < 0.85 else Fraction(1)          # unit entries among the weighted ones
        if small and sum(c for _, c in b.vals[cur]) + w >= 1: w = Fraction(1, 4096)
        b.kadd(cur, v, float(w))
    if ncopy is not None and ncopy >= n: b.kcopy("k", "k0")
    if rng.random() < 0.4: b.kreweight("k", rng.choice([Fraction(1, 4), Fraction(1, 1024), Fraction(3, 8), Fraction(2), Fraction(1, 64)]))
    if rng.random() < 0.2:
        b.kcopy("c", "k"); b.kmerge("k", "c")
    snap = list(b.vals["k"])
    jobs = b.emit("kobs k")
    qs = [0.0, 1.0, 0.5, rng.random(), rng.random(), nextafter(1.0, False), 5e-324, 0.25, 0.75]
    jq = []
    for q in qs:
        def chk(a, env, impl, q=q):
            msg = oracle_quantile_weighted(snap, q, env.alpha("k"), env.minidx("k"))(a)
            if msg: return msg
            f = dict(x.split("=") for x in impl[jobs].split(" pos[")[0].split())
            y = parse_F(a); mn, mx = parse_F(f["min"]), parse_F(f["max"])
            if not (mn <= y <= mx): return "answer %s lies outside the reported [min, max] = [%s, %s]" % (a, f["min"], f["max"])
            return None
        jq.append(b.emit("q k %s" % f2h(q), chk))
    b.emit("qs k " + " ".join(f2h(q) for q in qs), lambda a, env, impl: None if a == ",".join(impl[j] for j in jq) else "GetValuesAtQuantiles answered %s where the single queries answer %s" % (a, ",".join(impl[j] for j in jq)))
    return b

def run(tier, seed):
    rng = random.Random(seed)
    ok, log = core.build_vrun()
    specs = spec_list(rng, 15 if tier == "quick" else 60)
    facts = sketchcheck.learn_specs("C11", specs) if ok else {}
    n = 400 if tier == "quick" else 10000
    builders = [build(rng, facts, "w%d" % i) for i in range(n)] if facts else []
    return sketchcheck.run_sketch_property(
        "C11", tier, seed, builders,
        "weighted adds with dyadic weights in (0, 2^20], total weight W from 2^-12 upward (45% of the cases keep W < 1), optional Reweight by 1/4, 1/1024, 3/8, 2, 1/64 and self-copy merges, "
        "positive-only / negative-only / mixed data, both variants, all store and mapping kinds; q in {0, 1, 1/2, 1/4, 3/4, random, 1-ulp, 5e-324}; oracle (exact rationals): the answer is within "
        "alpha of an absorbed value whose cumulative-weight interval is within one unit of q(W-1), and lies between the reported minimum and maximum. distinct_nontrivial = distinct cases",
        )
