"""Sketch-level case builders. A Builder accumulates instruction lines and, per line, an optional
expectation: a literal string, ("same", j) = must equal the implementation's answer to line j,
or a callable(answer, ctx) -> error message or None (exact-rational oracles)."""
import math, zlib
from fractions import Fraction
from .core import Case, f2h, h2f, parse_F, nextafter

EPS_FP = Fraction(1, 10**12)
STORES = ["dense", "sparse", "pag"]
ALPHAS = [0.01, 0.02, 0.05, 0.1, 0.005, 0.25, 0.5, 0.75, 0.9]

def mapspec(rng, kinds=("log", "lin", "cub"), with_offset=True):
    k = rng.choice(kinds); a = rng.choice(ALPHAS) if rng.random() < 0.7 else rng.uniform(0.004, 0.95)
    if with_offset and rng.random() < 0.35:
        g0 = (1 + a) / (1 - a)
        g = g0 if k == "log" else g0 ** (math.log(2)) if k == "lin" else g0 ** (10 * math.log(2) / 7)
        off = rng.choice([0.0, 1.0, -3.0, 0.5, 17.25, rng.uniform(-50, 50), float(rng.randint(-1000, 1000))])
        return "%s:g:%s:%s" % (k, f2h(g), f2h(off)), a
    return "%s:a:%s" % (k, f2h(a)), a

def spec_list(rng, n):
    """n random mapping specs plus a fixed cover of the corners every sketch-level check should see whatever the seed: each kind rebuilt from
    (gamma, offset) with a negative offset, with offset exactly 0 and with a large positive offset, as decoders and FromProto build them."""
    out = [mapspec(rng)[0] for _ in range(n)]
    for k, a, off in (("log", 0.01, -12.25), ("lin", 0.02, -1000.0), ("cub", 0.01, -3.5), ("lin", 0.01, 0.0), ("cub", 0.05, 0.0), ("log", 0.02, 1717.5)):
        g0 = (1 + a) / (1 - a); g = g0 if k == "log" else g0 ** (math.log(2)) if k == "lin" else g0 ** (10 * math.log(2) / 7)
        out.append("%s:g:%s:%s" % (k, f2h(g), f2h(off)))
    return out

class Ctx:
    """Per-run facts learnt from the implementation (mapping ranges) used by value generators and oracles."""
    def __init__(self): self.maps = {}      # spec -> dict(acc, min, max)

class Builder:
    def __init__(self, name):
        self.name = name; self.lines = []; self.exp = []; self.meta = {}
        self.vals = {}      # register -> list of (float value, Fraction weight) absorbed
        self.spec = {}      # register -> mapping spec
        self.kinds = {}     # register -> (pos kind, neg kind, exact)
    def emit(self, line, exp=None):
        self.lines.append(line); self.exp.append(exp); return len(self.lines) - 1
    def case(self): return Case(self.name, self.lines, self.meta)
    # ---- instructions with shadow bookkeeping
    def knew(self, k, spec, kp, kn, exact=False):
        self.vals[k] = []; self.spec[k] = spec; self.kinds[k] = (kp, kn, exact)
        # one time in three, when the sketch is one the library has a convenience constructor for, build it through that constructor
        if spec.startswith("log:a:") and kp == kn and (zlib.crc32(self.name.encode()) + len(self.lines)) % 3 == 0:
            a = spec[6:]
            if exact: form = "defaultx %s" % a if kp == "pag" and len(self.lines) % 2 else "provx %s %s" % (a, kp)
            elif kp == "pag": form = "default %s" % a if len(self.lines) % 2 else "prov %s pag" % a
            elif kp == "dense": form = "logdense %s" % a
            elif kp.startswith("low:"): form = "loglow %s %s" % (a, kp[4:])
            elif kp.startswith("high:"): form = "loghigh %s %s" % (a, kp[5:])
            else: form = "prov %s %s" % (a, kp)
            return self.emit("knewc %s %s" % (k, form), "ok")
        return self.emit("knew %s %s %s %s%s" % (k, spec, kp, kn, " exact" if exact else ""), "ok")
    def kadd(self, k, v, w=None, exp="ok"):
        if exp == "ok" and (w is None or w > 0): self.vals[k].append((v, Fraction(1) if w is None else Fraction(w)))
        return self.emit("kadd %s %s%s" % (k, f2h(v), "" if w is None else " " + f2h(float(w))), exp)
    def kmerge(self, k, k2):
        self.vals[k] = self.vals[k] + self.vals[k2]; return self.emit("kmerge %s %s" % (k, k2), "ok")
    def kcopy(self, k2, k):
        self.vals[k2] = list(self.vals[k]); self.spec[k2] = self.spec[k]; self.kinds[k2] = self.kinds[k]
        return self.emit("kcopy %s %s" % (k2, k), "ok")
    def kclear(self, k): self.vals[k] = []; return self.emit("kclear " + k, "ok")
    def kreweight(self, k, w):
        self.vals[k] = [(v, c * Fraction(w)) for v, c in self.vals[k]]; return self.emit("kreweight %s %s" % (k, f2h(float(w))), "ok")

# ---------------------------------------------------------------- values
def rand_values(rng, n, lo_exp=-3, hi_exp=3, signs=(1, -1), zeros=0.05):
    out = []
    for _ in range(n):
        c = rng.random()
        if c < zeros: out.append(0.0); continue
        m = 10 ** rng.uniform(lo_exp, hi_exp)
        if c < 0.2: m = float(2 ** rng.randint(int(lo_exp * 3.3), int(hi_exp * 3.3)))
        elif c < 0.3 and out: m = abs(out[rng.randrange(len(out))]) or m          # duplicate magnitude
        out.append(rng.choice(signs) * m)
    return out

def ulps(v, k):
    for _ in range(abs(k)): v = nextafter(v, k > 0 if v > 0 else k < 0)
    return v

# ---------------------------------------------------------------- exact oracles
def order_stats(vals, minidx):
    """(value as Fraction with sub-minimum magnitudes counted as 0, weight) sorted by value."""
    xs = [((Fraction(v) if abs(v) > minidx else Fraction(0)), w) for v, w in vals]
    xs.sort(key=lambda t: t[0]); return xs

def within(y, x, alpha):
    return abs(y - x) <= (alpha + EPS_FP) * abs(x)

def oracle_quantile_unit(vals, q, alpha, minidx):
    """C01: answer within alpha of x_floor or x_ceil of q*(n-1)."""
    xs = order_stats(vals, minidx); n = len(xs); r = Fraction(q) * (n - 1)
    lo, hi = math.floor(r), math.ceil(r)
    def check(ans, ctx=None):
        y = parse_F(ans) if "@" in ans or ans == "0" else None
        if y is None: return "answer %s is not a finite value" % ans
        for k in (lo, hi):
            if within(y, xs[k][0], alpha): return None
        return "answer %s is not within alpha=%s of x_%d=%s or x_%d=%s (n=%d, q=%s)" % (ans, float(alpha), lo, float(xs[lo][0]), hi, float(xs[hi][0]), n, q)
    return check

def oracle_quantile_weighted(vals, q, alpha, minidx):
    """C11: answer within alpha of some absorbed value whose cumulative interval is within one unit of q*(W-1)."""
    xs = order_stats(vals, minidx); W = sum(w for _, w in xs); r = Fraction(q) * (W - 1)
    def check(ans, ctx=None):
        y = parse_F(ans) if "@" in ans or ans == "0" else None
        if y is None: return "answer %s is not a finite value" % ans
        acc = Fraction(0)
        for x, w in xs:
            lo = acc; acc += w
            if lo - 1 <= r <= acc + 1 and within(y, x, alpha): return None
        return "answer %s is within alpha of no absorbed value whose cumulative-weight interval is within 1 of q(W-1)=%s (W=%s)" % (ans, float(r), float(W))
    return check
