"""C03: index mappings are alpha-accurate, monotone and bin-consistent."""
import math, random
from fractions import Fraction
from . import core, sketchcheck
from .sketchgen import mapspec, ulps
from .core import Case, f2h, h2f, nextafter

EPS = Fraction(1, 10**12)
def _fl(x):
    try: return float(x)
    except (OverflowError, ValueError): return float('inf') if x > 0 else float('-inf')

def specs_for(rng, n):
    out = []
    for kind in ("log", "lin", "cub"):
        for a in (1e-6, 1e-3, 0.01, 0.02, 0.1, 0.5, 0.9, 0.99):
            out.append("%s:a:%s" % (kind, f2h(a)))
    # decoder-built mappings with "nice" bases and offsets: bin edges fall exactly on powers of two (exact integer arguments of
    # the inverse log-like functions), which accuracy-built mappings never produce
    for kind in ("log", "lin", "cub"):
        for g in (2.0, 4.0, 1.4142135623730951, 1.189207115002721, 16.0):
            for off in (0.0, 3.0, -2.0, 0.5, 1.0 / math.log2(g), 1.0):
                out.append("%s:g:%s:%s" % (kind, f2h(g), f2h(off)))
    # offsets within an ulp of an integer (0 included): the argument (i - offset) / multiplier of the inverse log-like function is then a tiny
    # negative or positive number, or the float just below an integer, for the bin next to 1.0 (gamma = 2: for every bin)
    for kind in ("log", "lin", "cub"):
        for g in (1.02, 2.0, 1.0202027004415701, 4.0):
            for off in (1e-20, -1e-20, 5.551115123125783e-17, 5e-324, nextafter(3.0, True), nextafter(3.0, False), nextafter(-2.0, True), nextafter(-2.0, False), 2.0 ** -53, -(2.0 ** -54),
                        nextafter(1.0, False), nextafter(1.0, True), nextafter(-1.0, True), nextafter(-1.0, False), 1 - 2.0 ** -52, nextafter(2.0, False), nextafter(0.5, False), 1 - 2.0 ** -51, 7.5e-17, 1.9e-16):
                out.append("%s:g:%s:%s" % (kind, f2h(g), f2h(off)))
    # offsets near +-2^31: the int32 clamp of the constructors, not the float overflow, then bounds the indexable range on one side
    for kind in ("log", "lin", "cub"):
        for a, off in ((1e-6, 1.9e9), (1e-6, -1.9e9), (1e-3, 2.1473e9), (1e-3, -2.1473e9), (1e-2, 2147480000.5), (1e-2, -2147480000.5), (0.1, 2.0 ** 31 - 100), (0.1, -(2.0 ** 31) + 100), (0.5, 2147483000.0)):
            g0 = (1 + a) / (1 - a); g = g0 if kind == "log" else g0 ** math.log(2) if kind == "lin" else g0 ** (10 * math.log(2) / 7)
            out.append("%s:g:%s:%s" % (kind, f2h(g), f2h(off)))
    while len(out) < n:
        s, a = mapspec(rng); out.append(s)
        if rng.random() < 0.5:
            k = rng.choice(("log", "lin", "cub")); a = 10 ** rng.uniform(-6, math.log10(0.99))
            g0 = (1 + a) / (1 - a); g = g0 if k == "log" else g0 ** math.log(2) if k == "lin" else g0 ** (10 * math.log(2) / 7)
            out.append("%s:g:%s:%s" % (k, f2h(g), f2h(rng.choice([0.0, 1.0, -7.5, rng.uniform(-1e4, 1e4), _fl(rng.randint(-10**6, 10**6))]))))
    return out

def run(tier, seed):
    pid = "C03"; rep = core.Report(pid, tier, seed); rng = random.Random(seed)
    ok, log = core.build_vrun()
    if not ok:
        rep.violation("build", {"what": "vrun does not build against /repo", "log": log[-3000:]}, found_input=False)
        core.proof_section(rep, pid); return rep.finish()
    core.proof_section(rep, pid, trusted_extra=["theorems are about the ideal (real-arithmetic) mappings; their float64 evaluation through Go's math.Log/Exp/Exp2/Log2/Pow/Cbrt is validated by this run's exact-rational oracle, not proved"])
    specs = specs_for(rng, 420 if tier == "quick" else 900)
    facts = sketchcheck.learn_specs(pid, specs)
    npts = 150 if tier == "quick" else 1500
    # phase A: indexes of the probe values
    cases, probes = [], {}
    for si, s in enumerate(sorted(facts)):
        f = facts[s]; mn, mx = f["min"], f["max"]
        vs = set([mn, mx, nextafter(mn, True), nextafter(mx, False), 1.0, nextafter(1.0, True), nextafter(1.0, False)])
        lmn, lmx = math.log(mn), math.log(mx)
        for _ in range(npts // 3): vs.add(min(max(math.exp(rng.uniform(lmn, lmx)), mn), mx))
        for _ in range(npts // 6):
            k = rng.randint(int(lmn / math.log(2)) + 1, int(lmx / math.log(2)) - 1); v = 2.0 ** k
            for d in (-2, -1, 0, 1, 2):
                w = ulps(v, d)
                if mn <= w <= mx: vs.add(w)
        probes[s] = sorted(vs)
        cases.append(Case("a%d" % si, ["mnew m " + s] + ["midx m " + f2h(v) for v in probes[s]], {"spec": s}))
    resA = core.run_cases(pid, "idx", cases)
    # phase B: bin edges around random probes +- ulps, then values / bounds for every index seen
    cases2 = []
    for (c, impl, sides, model) in resA:
        s = c.meta["spec"]; f = facts[s]
        idx = []
        for a in impl[1:]:
            try: idx.append(int(a))
            except ValueError: idx.append(None)
        probes[s] = [(v, i) for v, i in zip(probes[s], idx)]
        want = sorted(set(i for i in idx if i is not None))
        pick = rng.sample(want, min(len(want), npts // 3))
        cases2.append(Case(c.name, ["mnew m " + s] + ["mlow m %d" % i for i in pick], {"spec": s, "pick": pick}))
    resB = core.run_cases(pid, "edges", cases2)
    cases3 = []
    for (c, impl, sides, model) in resB:
        s = c.meta["spec"]; f = facts[s]; edge_vals = set()
        for a in impl[1:]:
            if a.startswith("x") and a != "xnan":
                e = h2f(a[1:])
                for d in (-3, -2, -1, 0, 1, 2, 3):
                    w = ulps(e, d) if 0 < e < float("inf") else e
                    if f["min"] <= w <= f["max"]: edge_vals.add(w)
                # ... and at relative distances 1e-14 .. 1e-8 on both sides: the index is floor(log-like(v) * multiplier + offset) in binary64,
                # so a value this close to an edge is where a loss of precision of that float (large offsets, large indexes) shows
                if 0 < e < float("inf") and rng.random() < 0.5:
                    for d in (1e-14, 1e-12, 1e-10, 1e-9, 1e-8):
                        for w in (e * (1 - d), e * (1 + d)):
                            if f["min"] <= w <= f["max"]: edge_vals.add(w)
        cases3.append(Case(c.name, ["mnew m " + s] + ["midx m " + f2h(v) for v in sorted(edge_vals)], {"spec": s, "vals": sorted(edge_vals)}))
    resC = core.run_cases(pid, "idx2", cases3)
    cases4 = []
    for (c, impl, sides, model) in resC:
        s = c.meta["spec"]
        for v, a in zip(c.meta["vals"], impl[1:]):
            try: probes[s].append((v, int(a)))
            except ValueError: probes[s].append((v, None))
        probes[s].sort()
        want = sorted(set(i for _, i in probes[s] if i is not None))
        lines = ["mnew m " + s, "macc m"]
        for i in want: lines += ["mval m %d" % i, "mlow m %d" % i, "mlow m %d" % (i + 1)]
        cases4.append(Case(c.name, lines, {"spec": s, "want": want}))
    resD = core.run_cases(pid, "vals", cases4)
    # ---- correspondence: the bit-exact glue model (coq/Mapping/Glue.v, libm answered by the implementation's runtime)
    ncmp = nmis = 0
    for res in (resA, resB, resC, resD):
        for (c, impl, sides, model) in res:
            for l, a, b in zip(core.instr_lines(c.lines), impl, model):
                if b == "unsupported": continue
                ncmp += 1
                if not core.lines_agree(a, b):
                    nmis += 1
                    if nmis <= 3:
                        rep.violation("glue-%d" % nmis, {"what": "the bit-exact model of the mapping formulas disagrees with the implementation; no clause of the property failed on this input unless reported separately",
                                                         "correspondence": "coq/Mapping/Glue.v vs ddsketch/mapping", "script": ["mnew m " + c.meta["spec"], l], "implementation": a, "model": b}, found_input=False)
    # ---- oracle
    nfail = 0; evals = 0; samples = []; worst = Fraction(0); kf_specs = []
    known = core.load_known_findings()
    for (c, impl, sides, model) in resD:
        s = c.meta["spec"]; f = facts[s]; want = c.meta["want"]
        acc = Fraction(h2f(impl[1][1:])) if impl[1].startswith("x") and impl[1] != "xnan" else None
        tab = {}
        for k, i in enumerate(want):
            def cv(x):
                if not x.startswith("x") or x == "xnan": return None
                y = h2f(x[1:])
                return "inf" if y == float("inf") else None if y == -float("inf") else Fraction(y)
            tab[i] = tuple(cv(x) for x in impl[2 + 3 * k: 5 + 3 * k])
        fails = []
        if s.split(":")[1] == "a":
            a0 = Fraction(h2f(s.split(":")[2]))
            if acc is None or abs(acc - a0) > Fraction(1, 2 ** 50): fails.append(("reported accuracy %s differs from the configured %s" % (impl[1], _fl(a0)), None))
        prev = None
        for v, i in probes[s]:
            evals += 1
            if i is None: fails.append(("Index(%r) is not an integer" % v, v)); continue
            if not (-2 ** 31 <= i < 2 ** 31): fails.append(("Index(%r) = %d does not fit in 32 bits" % (v, i), v))
            if prev is not None and i < prev[1]: fails.append(("Index decreases: Index(%r) = %d > Index(%r) = %d" % (prev[0], prev[1], v, i), v))
            prev = (v, i)
            val, lo, hi = tab.get(i, (None, None, None)); fv = Fraction(v)
            if val is None or val == "inf" or acc is None: fails.append(("Value(%d) is not finite" % i, v)); continue
            # what the binary64 index float can resolve at this index: a few of its ulps, expressed as a relative distance in v
            slack = Fraction(16 * max(abs(f["off"]), abs(i), 1) * math.log(f["gamma"]) * 1.5) / 2 ** 52
            def cls(ex): return "index-float-precision" if EPS < ex <= slack else None
            err = abs(val - fv) / fv - acc; worst = max(worst, err) if err <= slack else worst
            if err > EPS: fails.append(("Value(Index(v)) = %s is not within alpha of v = %r (index %d, excess %.3g)" % (_fl(val), v, i, _fl(err)), v, cls(err)))
            if lo is None or lo == "inf" or lo * (1 - EPS) > fv: fails.append(("v = %r lies below LowerBound(%d) = %s" % (v, i, None if lo is None else _fl(lo)), v, None if lo in (None, "inf") else cls((lo - fv) / fv)))
            if hi is None or (hi != "inf" and fv > hi * (1 + EPS)):      # +Inf is a valid upper bound for the last bin
                fails.append(("v = %r lies above LowerBound(%d) = %s (the next bin's lower bound)" % (v, i + 1, hi if hi in (None, 'inf') else _fl(hi)), v, None if hi is None else cls((fv - hi) / fv)))
        fails = [x if len(x) == 3 else (x[0], x[1], None) for x in fails]
        fails.sort(key=lambda x: x[2] is not None)          # unexplained failures first
        if any(k0 == "index-float-precision" for _, _, k0 in fails): kf_specs.append("%s (%d values)" % (s, sum(1 for x in fails if x[2] == "index-float-precision")))
        for msg, v, k0 in fails[:3]:
            nfail += 1
            key = k0 or ("upper-bound-wraps" if "next bin's lower bound" in msg and (v is not None and v > f["max"] / 4) else None)
            rep.violation("map-%s-%d" % (c.name, nfail), {"clause": msg, "script": ["mnew m " + s] + (["midx m " + f2h(v)] if v is not None else []), "spec": s}, found_input=True, key=key)
        if len(samples) < 3: samples.append({"spec": s, "points": [f2h(v) for v, _ in probes[s][:6]]})
    rep.coverage.update({"evaluations": evals, "distinct_nontrivial": evals, "samples": samples, "known_finding_index_float_precision_specs": kf_specs,
                         "rule": "mappings: 3 kinds x alpha grid {1e-6..0.99} plus random alpha / (gamma, offset) pairs with non-default offsets; points per mapping: both range ends and neighbours, "
                                 "log-uniform random values over the whole indexable range, every sampled binade boundary 2^k +-0..2 ulps, the implementation's LowerBound(i) of sampled bins +-0..3 ulps; "
                                 "exact-rational oracle: accuracy within alpha+1e-12, containment within 1e-12 relative, Index non-decreasing over the sorted points, int32, reported accuracy within 2^-50. "
                                 "every evaluated point is distinct",
                         "worst_excess_over_alpha": _fl(worst), "mappings": len(resD),
                         "model_lines_compared_bit_for_bit": ncmp, "model_mismatches": nmis})
    rep.assumptions = ["eps_fp = eps_c = 1e-12 relative (DESIGN section 10)"]
    return rep.finish()
