"""C07: wire format matches its documentation; the decoder accepts every valid stream."""
import random
from fractions import Fraction
from . import core, sketchcheck, wire
from .sketchgen import Builder, mapspec, STORES, rand_values, spec_list
from .storegen import Shadow
from .c06 import split_kobs, parse_obs
from .core import f2h

TARGETS = ["dense", "sparse", "pag", "low:8", "high:8", "low:512"]

def gen_stream(rng, f, dense_ok_span=400):
    lo, hi = f.get("imin", -100) + 2, f.get("imax", 100) - 2          # keep every index inside the mapping's index range
    span = max(4, min(dense_ok_span, (hi - lo) // 2))
    base = rng.randint(lo + span, hi - span) if hi - lo > 2 * span + 2 else (lo + hi) // 2
    dense_ok_span = span
    s = wire.Stream()
    def w(): return rng.choice([1.0, 2.0, 0.5, 0.25, 3.0, float(rng.randint(1, 1 << 20)), 0.0, 1.0])
    nblocks = rng.randint(1, 7); placed_map = False
    for _ in range(nblocks):
        t = rng.choice(["idc", "id", "cc", "cc", "zero", "map", "idc"])
        neg = rng.random() < 0.4
        if t == "zero": s.zero_count(rng.choice([1.0, 2.5, 0.0, 7.0]))
        elif t == "map": s.mapping(f["kind"], f["gamma"], f["off"]); placed_map = True
        elif t == "idc":
            items = []; cur = 0
            for _ in range(rng.randint(0, 12)):
                tgt = base + rng.randint(-dense_ok_span // 2, dense_ok_span // 2); items.append((tgt - cur, w())); cur = tgt      # negative, zero and repeated deltas
            s.idc(neg, items)
        elif t == "id":
            ds = []; cur = 0
            for _ in range(rng.randint(0, 80)):
                tgt = base + rng.randint(-min(40, span // 2), min(40, span // 2)); ds.append(tgt - cur); cur = tgt
            s.ids(neg, ds)
        else:
            n = rng.randint(0, 40); stride = rng.choice([1, 1, 2, -1, 0, 33, -7, 100 if n < 4 else 1])
            if abs(stride) * n > span // 2: stride = rng.choice([1, -1, 0])
            if n > span // 2: n = max(0, span // 2)
            s.cc(neg, base + rng.randint(-span // 4, span // 4), stride, [w() for _ in range(n)])
    return s, placed_map

def expect_stream(st, kind):
    def f(a, env):
        if a.startswith("err") or a == "panic": return "a well-formed stream was not accepted: %r" % a
        ha, pa, na = split_kobs(a)
        for nm, sh0, got in (("positive", st.pos, pa), ("negative", st.neg, na)):
            sh = Shadow(kind)
            for i in sorted(sh0.m): sh.add(i, sh0.m[i])
            if sh.obsline() != got: return "%s store is %r, the documentation assigns %r" % (nm, got, sh.obsline())
        z = Shadow("sparse"); z.add(0, st.zero)
        if ha["zero"] != (z.obsline().split("bins=0:")[1] if st.zero else "0"): return "zero count is %s, the documentation assigns %s" % (ha["zero"], st.zero)
        return None
    return f

def build_streams(rng, facts, name):
    spec = rng.choice(sorted(facts)); f = facts[spec]; b = Builder(name)
    b.emit("mnew m " + spec, "ok")
    st, has_map = gen_stream(rng, f)
    b.emit("braw s " + (bytes(st.b).hex() or "-"), "ok")
    for kind in rng.sample(TARGETS, 4):
        b.emit("kdec t s %s %s" % (kind, spec), "ok")
        b.emit("kobs t", expect_stream(st, kind))
    if has_map:
        b.emit("kdec t s sparse nil", "ok"); b.emit("kobs t", expect_stream(st, "sparse"))
    # the same stream into NON-EMPTY receivers of every fill level (in particular a paginated store whose buffer is past its
    # compaction trigger): the result is the receiver's content plus the stream's, whatever the receiver's kind -- twin of sparse kind
    nfill = rng.choice([3, 40, 100, 110, 125, 140])
    vals = rand_values(rng, nfill, -1, 1, zeros=0, signs=((1,) if nfill >= 100 else (1, -1)))
    rk = rng.choice(["pag", "pag", "dense", "sparse"])
    # (the receiver's own values sit near index 0..+-500: an array-backed receiver is only used when the stream's bins are not tens of thousands
    # of indexes away, which would make the run a test of array growth -- the model's arrays are lists)
    far = max([abs(i) for i in list(st.pos.m) + list(st.neg.m)] or [0])
    if rk == "dense" and far > 3000: rk = "sparse" if rng.random() < 0.5 else "pag"
    b.knew("rr", spec, rk, rk); b.knew("tw", spec, "sparse", "sparse")
    for v in vals: b.kadd("rr", v); b.kadd("tw", v)
    b.emit("kdecinto rr s", "ok"); b.emit("kdecinto tw s", "ok")
    jt = b.emit("kobs tw")
    def same_content(a, env, impl, jt=jt):
        if a.startswith("err") or a == "panic": return "decoding a well-formed stream into a non-empty receiver failed: %r" % a
        ha, pa, na = split_kobs(a); ht, pt, nt = split_kobs(impl[jt])
        return None if (pa, na, ha["zero"]) == (pt, nt, ht["zero"]) else "content after decoding into a non-empty %s receiver differs from the same decode into a sparse twin" % rk
    b.emit("kobs rr", same_content)
    b.meta = {"blocks": st.desc}
    return b

def build_exact_into_plain(rng, facts, name):
    spec = rng.choice(sorted(facts)); b = Builder(name)
    kp, kn = rng.choice(STORES), rng.choice(STORES)
    b.knew("x", spec, kp, kn, True)
    arbitrary = rng.random() < 0.5           # fractional, non-dyadic weights: the exact count then takes a full-length (9-byte) varfloat
    b.no_model = arbitrary
    for v in rand_values(rng, rng.choice([1, 3, 10, 40]), -2, 2):
        b.kadd("x", v, rng.choice([0.1, 0.6, 4.0 / 3, 0.3, 1e-3, 2.0]) if arbitrary else rng.choice([None, None, 2.0, 0.5]))
    b.emit("kenc e x %d" % 0, "ok")
    j = b.emit("kobs x")
    for kind in rng.sample(STORES, 2):
        b.emit("kdec p e %s nil" % kind, "ok")           # the plain decoder accepts it and ignores the statistics blocks
        def chk(a, env, impl, j=j, arbitrary=arbitrary):
            if a.startswith("err") or a == "panic": return "plain decoding of an exact-summary encoding failed: %r" % a
            hx, px, nx = split_kobs(impl[j]); ha, pa, na = split_kobs(a)
            if arbitrary:       # weights that do not survive the documented +1/-1 transform: each bin holds the transform of its weight
                for nm, src, got in (("positive", px, pa), ("negative", nx, na)):
                    want = [(i, wire.wire_w(float(w))) for i, w in parse_obs(src)]; want = [(i, w) for i, w in want if w != 0]
                    if want != parse_obs(got): return "%s bins after plain decoding are %r; the sketch held %r (expected the (w+1)-1 transform of each)" % (nm, got, src)
                return None
            return None if (pa, na, ha["zero"]) == (px, nx, hx["zero"]) else "plain decoding of an exact-summary encoding holds %r / %r, the sketch held %r / %r" % (pa, na, px, nx)
        b.emit("kobs p", chk)
    return b

def run(tier, seed):
    rng = random.Random(seed)
    ok, log = core.build_vrun()
    specs = spec_list(rng, 10 if tier == "quick" else 40)
    facts = sketchcheck.learn_specs("C07", specs) if ok else {}
    n = 300 if tier == "quick" else 4000
    builders = ([build_streams(rng, facts, "g%d" % i) for i in range(n)] + [build_exact_into_plain(rng, facts, "x%d" % i) for i in range(n // 3)]) if facts else []
    return sketchcheck.run_sketch_property(
        "C07", tier, seed, builders,
        "(ii) streams generated from the documented grammar by an independent python encoder: 1-7 blocks in any order, all three bin layouts, repeated blocks and indexes, negative/zero/large "
        "strides, zero counts, empty blocks, decoded into 4 of 6 store kinds (index span bounded for dense targets) and compared with the meaning the documentation assigns (exact shadow, clamped "
        "for bounded targets); (iii) exact-summary encodings read by the plain decoder; (i) in the model run every implementation encoding produced by kenc (here and in C06/C14/C15) is read by the "
        "documentation-only Coq decoder ref_decode and compared with the sketch content. distinct_nontrivial = distinct streams with at least 2 blocks",
        nontrivial=lambda b, impl: len(b.meta.get("blocks", [])) >= 2 or b.name.startswith("x"))
