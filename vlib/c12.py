"""C12: summary queries are mutually coherent and alpha-accurate."""
import random
from fractions import Fraction
from . import core, sketchcheck
from .sketchgen import Builder, mapspec, STORES, rand_values, EPS_FP, order_stats, spec_list
from .core import f2h, parse_F, h2f

KINDS = STORES + ["low:8", "high:8", "low:64", "high:2048"]

def dataset(rng, f):
    shape = rng.choice(["neg", "zero", "zero+neg", "single", "submin", "mixed", "pos", "mixed"])
    n = rng.choice([1, 2, 5, 12, 40])
    if shape == "neg": return shape, rand_values(rng, n, -2, 2, signs=(-1,), zeros=0)
    if shape == "pos": return shape, rand_values(rng, n, -2, 2, signs=(1,), zeros=0)
    if shape == "zero": return shape, [rng.choice([0.0, -0.0]) for _ in range(n)]
    if shape == "zero+neg": return shape, rand_values(rng, n, -2, 2, signs=(-1,), zeros=0) + [0.0] * rng.randint(1, 3)
    if shape == "single": return shape, [rng.choice([1.0, -1.0]) * 10 ** rng.uniform(-2, 2)] * rng.choice([1, 3])
    if shape == "submin": return shape, [rng.choice([1, -1]) * f["min"] * rng.choice([1.0, 0.5, 0.25]) for _ in range(n)] + rand_values(rng, rng.choice([0, 2]), -2, 2)
    return shape, rand_values(rng, n, -2, 2)

def build(rng, facts, name):
    spec = rng.choice([s for s in sorted(facts) if facts[s]["kind"] == "log"] if rng.random() < 0.3 else sorted(facts)); f = facts[spec]
    b = Builder(name); kp, kn = rng.choice(KINDS), rng.choice(KINDS); collapsing = ":" in kp or ":" in kn
    exact = rng.random() < 0.3          # "for any sketch": both variants (the exact one answers count/min/max from its statistics)
    b.knew("k", spec, kp, kn, exact)
    shape, vals = dataset(rng, f); b.meta = {"shape": shape}
    for v in vals: b.kadd("k", v, rng.choice([None, None, 2.0, 0.5, 3.0]))
    if rng.random() < 0.3:              # weightless values far outside the data: accepted, and they move nothing
        b.kadd("k", 31337.5, 0.0); b.kadd("k", -31337.5, 0.0)
    # history: merge / copy / clear / decode
    h = rng.choice(["none", "merge", "copy", "clear-refill", "decode"])
    if h == "merge" and rng.random() < 0.3:
        sib = "%s:g:%s:%s" % (f["kind"], f2h(f["gamma"]), f2h(f["off"] + rng.choice([1.0, -2.5, 40.0])))
        b.knew("ox", sib, rng.choice(STORES), rng.choice(STORES), exact); b.kadd("ox", 100.0); b.kadd("ox", 200.0)
        b.emit("kmerge k ox", "err mapping-mismatch")
    elif h == "merge":
        b.knew("o", spec, rng.choice(STORES), rng.choice(STORES), exact)
        for v in dataset(rng, f)[1][:6]: b.kadd("o", v)
        b.kmerge("k", "o")
    elif h == "copy":
        b.kcopy("c", "k"); b.kadd("c", 1.0); b.lines.append("kclear c"); b.exp.append("ok")
    elif h == "clear-refill":
        b.kclear("k")
        for v in dataset(rng, f)[1]: b.kadd("k", v)
    elif h == "decode":
        b.emit("kenc e k 0", "ok"); b.emit("kdecinto k e", "ok"); b.vals["k"] = b.vals["k"] + b.vals["k"]
    snap = list(b.vals["k"])
    def kobs_check(a, env):
        fld = dict(x.split("=") for x in a.split(" pos[")[0].split())
        xs = order_stats(snap, env.minidx("k")); W = sum(w for _, w in xs); al = env.alpha("k")
        if parse_F(fld["count"]) != W: return "count %s differs from the absorbed weight %s" % (fld["count"], W)
        zw = sum(w for x, w in xs if x == 0)
        if parse_F(fld["zero"]) != zw: return "zero count %s differs from the weight of zero-bucket values %s" % (fld["zero"], zw)
        if (fld["empty"] == "1") != (W == 0): return "empty=%s but absorbed weight is %s" % (fld["empty"], W)
        if W == 0: return None if fld["min"] == "-" and fld["max"] == "-" else "min/max defined on an empty sketch"
        if collapsing: return None          # clamped extremes are C05's subject
        ext = (xs[0][0], xs[-1][0])
        if exact:          # the exact variant reports the true extremes themselves (sub-minimum magnitudes included), not the zero bucket's 0
            pos = [Fraction(v) for v, w in snap if w > 0]; ext = (min(pos), max(pos))
        for nm, x in (("min", ext[0]), ("max", ext[1])):
            y = parse_F(fld[nm])
            if abs(y - x) > (al + EPS_FP) * abs(x): return "%s=%s is not within alpha of the true extreme %s" % (nm, fld[nm], float(x))
        return None
    jobs = b.emit("kobs k", kobs_check)
    if snap:
        qs = sorted(set([0.0, 1.0] + [rng.random() for _ in range(5)]))
        js = [b.emit("q k %s" % f2h(q)) for q in qs]
        def mono(a, env, impl):
            ys = [parse_F(impl[j]) for j in js]
            if any(ys[i] > ys[i + 1] for i in range(len(ys) - 1)): return "quantile answers are not non-decreasing in q: %s" % [impl[j] for j in js]
            fld = dict(x.split("=") for x in impl[jobs].split(" pos[")[0].split())
            if not (parse_F(fld["min"]) <= ys[0] and ys[-1] <= parse_F(fld["max"])): return "quantile answers leave [min, max]"
            if a != ",".join(impl[j] for j in js): return "batch query %s differs from the single queries %s" % (a, [impl[j] for j in js])
            return None
        b.emit("qs k " + " ".join(f2h(q) for q in qs), mono)
        perm = list(range(len(qs))); rng.shuffle(perm)          # the batch query answers entry by entry, whatever the order of the list
        b.emit("qs k " + " ".join(f2h(qs[i]) for i in perm), lambda a, env, impl, perm=perm: None if a == ",".join(impl[js[i]] for i in perm) else "batch query on a shuffled list %s differs from the single queries" % a)
        def items(a, env, impl):
            its = [x.split(":") for x in a[len("items="):].split(",")] if a != "items=" else []
            ws = [parse_F(w) for _, w in its]
            if any(w <= 0 for w in ws): return "iteration yields a bin of non-positive weight"
            fld = dict(x.split("=") for x in impl[jobs].split(" pos[")[0].split())
            if sum(ws) != parse_F(fld["count"]): return "iteration weights sum to %s, count is %s" % (sum(ws), fld["count"])
            if len(set(v for v, _ in its)) != len(its): return "iteration yields a value twice"
            return None
        ji = b.emit("kforeach k 0", items)
        n = rng.randint(1, 4)
        b.emit("kforeach k %d" % n, lambda a, env, impl: None if a == "calls=%d" % min(n, 0 if impl[ji] == "items=" else impl[ji].count(",") + 1) else "iteration did not stop as soon as asked: %s" % a)
        signs = set((x > 0) - (x < 0) for x, _ in order_stats(snap, Fraction(0)))
        def ssum(a, env):
            xs = order_stats(snap, env.minidx("k")); al = env.alpha("k")
            if exact: xs = [(Fraction(v), w) for v, w in snap]          # the exact variant sums the true values (sub-minimum magnitudes included)
            true = sum(x * w for x, w in xs)
            got = Fraction(h2f(a[1:]))
            if collapsing: return None
            if len(set((x > 0) - (x < 0) for x, _ in xs if x != 0)) <= 1:
                if abs(got - true) > (al + EPS_FP) * abs(true): return "sum %s is not within alpha of the true sum %s" % (float(got), float(true))
            return None
        b.emit("ksum k", ssum)
    return b

def run(tier, seed):
    rng = random.Random(seed)
    ok, log = core.build_vrun()
    specs = spec_list(rng, 12 if tier == "quick" else 50)
    facts = sketchcheck.learn_specs("C12", specs) if ok else {}
    n = 400 if tier == "quick" else 10000
    builders = [build(rng, facts, "h%d" % i) for i in range(n)] if facts else []
    return sketchcheck.run_sketch_property(
        "C12", tier, seed, builders,
        "data sets targeted at the branches the suite never takes (all-negative, all-zero, zero+negative, single value, sub-minimum magnitudes, positive, mixed) with unit and dyadic weights, "
        "after a history in {none, merge, copy+mutate copy, clear+refill, decode into itself}, on exact and collapsing store kinds; checks: count/zero/empty against the absorbed weights (exact), "
        "min/max within alpha of the true extremes, answers non-decreasing in q and inside [min,max], batch = singles, sum within alpha for same-signed data, iteration weights positive, summing to "
        "count, each value once, early stop. distinct_nontrivial = distinct cases")
