"""C16: reweighting equals having added everything with scaled weights."""
import random
from fractions import Fraction
from . import core, sketchcheck, storecheck
from .sketchgen import Builder, mapspec, STORES, rand_values, spec_list
from .core import f2h, parse_F, h2f

KINDS = STORES + ["pag", "low:8", "high:16", "low:128"]
FACTORS = [Fraction(1, 2), Fraction(1, 4), Fraction(3), Fraction(1), Fraction(5, 4), Fraction(3, 8), Fraction(2), Fraction(63, 8), Fraction(1, 1024),
           1 + Fraction(1, 2 ** 30), 1 - Fraction(1, 2 ** 31), 1 + Fraction(1, 2 ** 40), 1 - Fraction(1, 2 ** 20)]          # dyadic factors next to 1 are factors too

def build(rng, facts, name):
    spec = rng.choice(sorted(facts)); b = Builder(name)
    kp, kn = rng.choice(KINDS), rng.choice(KINDS); exact = rng.random() < 0.4
    f = rng.choice(FACTORS)
    b.knew("a", spec, kp, kn, exact); b.knew("s", spec, kp, kn, exact)
    n = rng.choice([0, 1, 4, 20, 90]); vals = rand_values(rng, n, -2, 2, signs=rng.choice([(1,), (-1,), (1, -1)]), zeros=0.1)
    ws = [rng.choice([None, None, None, 2.0, 0.5, 3.0, 0.125]) for _ in vals]
    # one history in five on the array-backed kinds carries weights whose float total depends on the order of summation (a 2^53 next to units, or
    # 0.3/0.2/0.1): reweighting must scale the running total itself; exact-rational model off, the twin fed scaled weights is the oracle
    if rng.random() < 0.2 and n:
        kp, kn = rng.choice(["dense", "low:128", "high:16"]), rng.choice(["dense", "low:128", "high:16"]); b.no_model = True
        b.lines = []; b.exp = []; b.knew("a", spec, kp, kn, exact); b.knew("s", spec, kp, kn, exact)
        f = rng.choice([Fraction(2), Fraction(1, 2), Fraction(4), Fraction(1, 8)])
        ws = [rng.choice([0.3, 0.2, 0.1, 1.1, None]) for _ in vals] if rng.random() < 0.5 else [float(2 ** 53)] + [None] * (len(vals) - 1)
        vals = sorted(vals, reverse=True)          # decreasing index order of arrival
    # one history in seven: a paginated store whose indexes are all (or mostly) unit entries still in the buffer, small integer and other factors
    if rng.random() < 0.15 and not getattr(b, "no_model", False):
        b.lines = []; b.exp = []; b.vals = {}; b.knew("a", spec, "pag", "pag", exact); b.knew("s", spec, "pag", "pag", exact)
        f = rng.choice([Fraction(2), Fraction(3), Fraction(4), Fraction(8), Fraction(1, 2), Fraction(5), Fraction(7, 4)])
        n = rng.choice([2, 3, 5, 9, 20, 50]); vals = rand_values(rng, n, -2, 2, zeros=0.05); ws = [None if rng.random() < 0.9 else 2.0 for _ in vals]
        if rng.random() < 0.3: vals.append(facts[spec]["min"]); ws.append(None); vals.append(-facts[spec]["min"]); ws.append(None)          # the smallest indexable magnitude counts as 0
    elif n >= 20: vals += [vals[0]] * 70; ws += [None] * 70          # enough unit entries to have both buffered and paged indexes
    for v, w in zip(vals, ws):
        b.kadd("a", v, w)
        b.kadd("s", v, float((Fraction(1) if w is None else Fraction(w)) * f))
    b.kreweight("a", f)
    ja = b.emit("kobs a"); b.emit("kobs s", ("same", ja))
    if exact:
        def stats(a, env, impl):
            fa = dict(x.split("=") for x in impl[jsa].split()); fs = dict(x.split("=") for x in a.split())
            if fa["count"] != fs["count"] or fa["min"] != fs["min"] or fa["max"] != fs["max"]: return "exact count/min/max differ: reweighted %s, scaled adds %s" % (impl[jsa], a)
            if fa["sum"] in ("xnan",) or fs["sum"] in ("xnan",): return None
            x, y = Fraction(h2f(fa["sum"][1:])), Fraction(h2f(fs["sum"][1:]))
            tot = sum(abs(Fraction(v)) * w for v, w in b.vals["s"])
            if abs(x - y) > Fraction(16 + 4 * len(b.vals["s"]), 2 ** 53) * tot: return "exact sums differ beyond rounding: %s vs %s" % (float(x), float(y))
            return None
        jsa = b.emit("kstats a"); b.emit("kstats s", stats)
    if vals:
        for q in [0.0, 1.0, 0.5, rng.random(), rng.random()]:
            pass
    # further operations after the reweight keep agreeing
    for v in rand_values(rng, 3, -2, 2): b.kadd("a", v); b.kadd("s", v)
    ja = b.emit("kobs a"); b.emit("kobs s", ("same", ja))
    b.emit("kreweight a %s" % f2h(1.0), "ok"); b.emit("kobs a", ("same", ja))
    return b

def build_sparse_fine(rng, facts, name):
    """Hash-map stores, weights with a full mantissa (0.1, 0.3, 1/3, 2.3), every bin fed by ONE add (values a factor 4 apart), factors 2^k:
    scaling by a power of two is exact in floats, so each bin must be bit for bit the bin of the twin fed the scaled weight (totals of a hash map
    are order-dependent float sums and are not compared). No exact-rational model here."""
    from .c06 import split_kobs
    spec = rng.choice(sorted(facts)); b = Builder(name); b.no_model = True; exact = rng.random() < 0.3
    b.knew("a", spec, "sparse", "sparse", exact); b.knew("s", spec, "sparse", "sparse", exact)
    f = rng.choice([Fraction(1, 4), Fraction(1, 8), Fraction(4), Fraction(8), Fraction(1, 2), Fraction(1, 64)])
    for i in rng.sample(range(-12, 13), rng.choice([2, 5, 12])):
        v = rng.choice((1, -1)) * 4.0 ** i * 1.3; w = rng.choice([0.1, 0.3, 1.0 / 3, 2.3, 0.7, 1.1])
        b.kadd("a", v, w); b.kadd("s", v, float(Fraction(w) * f))
    b.kreweight("a", f)
    ja = b.emit("kobs a")
    def same_bins(a, env, impl):
        ha, pa, na = split_kobs(a); h0, p0, n0 = split_kobs(impl[ja])
        return None if (pa.split("bins=")[1], na.split("bins=")[1]) == (p0.split("bins=")[1], n0.split("bins=")[1]) else "bins after Reweight %r differ from the bins of scaled adds %r" % (impl[ja], a)
    b.emit("kobs s", same_bins)
    return b

def run(tier, seed):
    rng = random.Random(seed)
    ok, log = core.build_vrun()
    specs = spec_list(rng, 10 if tier == "quick" else 40)
    facts = sketchcheck.learn_specs("C16", specs) if ok else {}
    builders = ([build(rng, facts, "r%d" % i) for i in range(350 if tier == "quick" else 9000)] + [build_sparse_fine(rng, facts, "sf%d" % i) for i in range(40 if tier == "quick" else 1000)]) if facts else []
    return sketchcheck.run_sketch_property(
        "C16", tier, seed, builders,
        "twin sketches: one receives (v, w) and is reweighted by f, the other receives (v, w*f); f in {1/2, 1/4, 3, 1, 5/4, 3/8, 2, 63/8, 1/1024}; all store kinds incl. collapsing and a paginated "
        "store holding both buffered and paged indexes (70 unit repeats), one-sided data, both variants; checks: identical full observations (every bin of both sides, zero weight, count), exact "
        "count/min/max identical and exact sum equal up to rounding, further adds keep agreeing, factor 1 is a no-op. distinct_nontrivial = distinct cases with at least 4 values",
        nontrivial=lambda b, impl: len(b.vals.get("a", [])) >= 4)
