"""C17: changing mapping or unit conserves weight and stays within combined accuracy."""
import math, random, re
from fractions import Fraction
from . import core, sketchcheck
from .sketchgen import Builder, mapspec, STORES, rand_values, EPS_FP
from .c06 import split_kobs, parse_obs
from .core import Case, f2h, h2f, parse_F

def vals_of(sides):
    t = {}
    for s in sides:
        if s.startswith("# val "):
            _, _, i, x = s.split()
            if x != "xnan": t[int(i)] = Fraction(h2f(x[1:])) if abs(h2f(x[1:])) != float("inf") else None
    return t

def run(tier, seed):
    pid = "C17"; rep = core.Report(pid, tier, seed); rng = random.Random(seed)
    ok, log = core.build_vrun()
    if not ok:
        rep.violation("build", {"what": "vrun does not build against /repo", "log": log[-3000:]}, found_input=False)
        core.proof_section(rep, pid); return rep.finish()
    core.proof_section(rep, pid, trusted_extra=["the conversion loop is written once over an abstract arithmetic (Sketch/ChangeMappingG.v): the conservation/support theorems are about its exact instance (proved equal to the ideal model), the sign/overlap theorems about its binary64 instance, which this run compares call by call with the implementation; the combined quantile accuracy is validated by this run's exact-rational oracle"])
    alphas = [0.01, 0.02, 0.05, 0.005, 0.1]
    specs = ["%s:a:%s" % (k, f2h(a)) for k in ("log", "lin", "cub") for a in alphas]
    coarse = ["%s:a:%s" % (k, f2h(0.5)) for k in ("log", "lin", "cub")]; fine = ["%s:a:%s" % (k, f2h(2e-4)) for k in ("log", "cub")]
    specs += coarse + fine
    facts = sketchcheck.learn_specs(pid, specs)
    sibs = {}
    for sp, f in list(facts.items()):
        sibs[sp] = ["%s:g:%s:%s" % (f["kind"], f2h(f["gamma"]), f2h(f["off"] + d)) for d in (40.0, -3.5, 1.0)]
    facts.update(sketchcheck.learn_specs(pid, [x for v in sibs.values() for x in v]))
    sibs = {k: [x for x in v if x in facts] for k, v in sibs.items()}; sibs = {k: v for k, v in sibs.items() if v}
    n = 150 if tier == "quick" else 4000
    cases, metas = [], []
    for i in range(n):
        s1, s2 = rng.choice(sorted(facts)), rng.choice(sorted(facts))
        if rng.random() < 0.15: s2 = s1
        if rng.random() < 0.15 and s1 in sibs: s2 = rng.choice(sibs[s1])          # same kind and base, another index offset: a different mapping (bins renumbered)
        if rng.random() < 0.04 and fine: s1, s2 = rng.choice(coarse), rng.choice(fine)
        f1, f2 = facts[s1], facts[s2]
        c = rng.random()
        if (s1 == s2 or (s1 in sibs and s2 in sibs[s1])) and c < 0.4: scale = 1.0
        elif c < 0.5: scale = f1["gamma"] ** rng.randint(-3, 3) if f1["kind"] == "log" else 2.0 ** rng.randint(-3, 3)      # bin-aligned
        elif c < 0.6: scale = 1.0 / f1["gamma"]
        else: scale = 10 ** rng.uniform(-3, 3)
        exact = rng.random() < 0.3
        wide = s1 in coarse and s2 in fine
        k1 = (rng.choice(STORES), rng.choice(STORES)); k2 = (rng.choice(["sparse", "pag", "sparse", "dense"]), rng.choice(["sparse", "pag"]))
        # one exact-statistics case in three carries a compensated sum whose correction term is not zero (2^53 next to small values) and is
        # converted with a power-of-two factor: the term must be rescaled too, which shows once the large value is cancelled afterwards
        comp = exact and not wide and rng.random() < 0.35
        if comp: scale = 2.0 ** rng.choice([-9, -3, 4, -20]); k1 = (rng.choice(["sparse", "pag"]), rng.choice(["sparse", "pag"]))
        b = Builder("m%d" % i); b.knew("s", s1, k1[0], k1[1], exact)
        if comp:
            for v in [2.0 ** 53, 1.0, 3.0] + rand_values(rng, rng.choice([0, 3]), 0, 1, zeros=0): b.kadd("s", v)
        for v in ([] if comp else rand_values(rng, rng.choice([1, 2, 3]) if wide else rng.choice([1, 3, 10, 40, 120]), -1, 2, zeros=0.1)): b.kadd("s", v, rng.choice([None, None, None, 2.0, 0.5]))
        j0 = b.emit("kobs s")
        # lockstep with the float-level model (Sketch/ChangeMappingG.v over the bit-exact mappings): every AddWithCount call the conversion makes
        jt = b.emit("kchtrace s %s %s" % (s2, f2h(scale)))
        jr = b.emit("kchmap r s %s %s %s %s" % (s2, k2[0], k2[1], f2h(scale)), "ok")
        j1 = b.emit("kobs s", ("same", j0))
        jo = b.emit("kobs r")
        qs = [0.0, 1.0] + [rng.random() for _ in range(9)]
        jq = [b.emit("q r %s" % f2h(q)) for q in qs]
        js = [b.emit("kstats s"), b.emit("kstats r")] if exact else None
        if comp:
            vs = [(Fraction(v) * Fraction(scale), w) for v, w in b.vals["s"]] + [(Fraction(-(2.0 ** 53) * scale), Fraction(1))]
            def sum_ok(a, env, vs=vs):
                fld = dict(x.split("=") for x in a.split()); got = Fraction(h2f(fld["sum"][1:])) if fld["sum"] != "xnan" else None
                true = sum(v * w for v, w in vs); mag = sum(abs(v) * w for v, w in vs)
                if got is None or abs(got - true) > Fraction(16, 2 ** 53) * mag: return "after the conversion and one more addition the exact sum is %s, the true sum is %s" % (fld["sum"], float(true))
                return None
            b.emit("kadd r %s" % f2h(-(2.0 ** 53) * scale), "ok"); b.emit("kstats r", sum_ok)
        # the result and the source are independent sketches afterwards (whatever the scale): mutate one, the other is unchanged
        jr0 = b.emit("kobs r"); jst0 = b.emit("kstats r") if exact else None
        b.emit("kadd s %s" % f2h(7.5), "ok"); b.emit("kadd s %s %s" % (f2h(-3.25), f2h(2.0)), "ok")
        def same_bins(a, env, impl, j=jr0):
            # converted weights are non-dyadic: totals of hash-map stores depend on the summation order, compare the bins
            ha, pa, na = split_kobs(a); h0, p0, n0 = split_kobs(impl[j])
            return None if (pa.split("bins=")[1], na.split("bins=")[1], ha["zero"]) == (p0.split("bins=")[1], n0.split("bins=")[1], h0["zero"]) else "the result changed when the source was modified: %r vs %r" % (a[:200], impl[j][:200])
        b.emit("kobs r", same_bins)
        if exact: b.emit("kstats r", ("same", jst0))
        js0 = b.emit("kobs s"); jss0 = b.emit("kstats s") if exact else None
        b.emit("kadd r %s" % f2h(11.0 * scale), "ok"); b.emit("kclear r", "ok")
        b.emit("kobs s", ("same", js0))
        if exact: b.emit("kstats s", ("same", jss0))
        cases.append(b.case()); metas.append({"b": b, "s1": s1, "s2": s2, "scale": scale, "exact": exact, "j0": j0, "jr": jr, "jt": jt, "jo": jo, "jq": jq, "qs": qs, "js": js, "identity": (s1 == s2 and scale == 1.0)})
    res = core.run_cases(pid, "conv", cases)
    # correspondence: the call traces of implementation and model, compared as sorted multisets (printed so by both sides)
    ntr = ncalls = ngive = 0; trace_bad = []
    for (c, impl, sides, model), m in zip(res, metas):
        a, bm = impl[m["jt"]], model[m["jt"]]
        if bm == "unsupported" or bm.startswith("missing") or bm.startswith("model-"): ngive += 1; continue
        ntr += 1; ncalls += a.count(":")
        if a != bm: trace_bad.append((c, m, a, bm))
    for c, m, a, bm in trace_bad[:5]:
        ta, tb = set(a.replace("pos=", "").replace(" neg=", ",").split(",")), set(bm.replace("pos=", "").replace(" neg=", ",").split(","))
        rep.violation("trace-%s" % c.name, {"clause": "the AddWithCount calls made by ChangeMapping differ from the float-level model's (implementation-only: %s; model-only: %s)" % (sorted(ta - tb)[:4], sorted(tb - ta)[:4]),
                                             "kind": "correspondence", "script": core.instr_lines(m["b"].lines)[: m["jt"] + 1], "implementation": a[:2000], "model": bm[:2000], "from": m["s1"], "to": m["s2"], "scale": m["scale"],
                                             "how_to_replay": "./check --replay <this file>"},
                      found_input=any(x.split(":x")[1][0] in "89abcdef" for x in ta if ":x" in x))          # a negative weight among the implementation's calls is a failing input by itself
    # phase 2: lower bounds of every source / target bin involved
    cases2 = []
    for (c, impl, sides, model), m in zip(res, metas):
        lines = ["mnew a " + m["s1"], "mnew t " + m["s2"]]; m["low_a"] = []; m["low_t"] = []
        try:
            hs, ps, ns = split_kobs(impl[m["j0"]]); hr, pr, nr = split_kobs(impl[m["jo"]])
        except Exception:
            m["bad"] = "observation lines unreadable: %r / %r" % (impl[m["j0"]][:80], impl[m["jo"]][:80]); cases2.append(Case(c.name, lines)); continue
        src_idx = sorted(set(i for i, _ in parse_obs(ps) + parse_obs(ns))); tgt_idx = sorted(set(i for i, _ in parse_obs(pr) + parse_obs(nr)))
        for i in src_idx: lines += ["mlow a %d" % i, "mlow a %d" % (i + 1)]
        for i in tgt_idx: lines += ["mlow t %d" % i, "mlow t %d" % (i + 1)]
        m["src_idx"], m["tgt_idx"] = src_idx, tgt_idx
        cases2.append(Case(c.name, lines))
    res2 = core.run_cases(pid, "bounds", cases2)
    nfail = 0; evals = 0; worst_dw = Fraction(0)
    for (c, impl, sides, model), (c2, impl2, _, _), m in zip(res, res2, metas):
        evals += 1; b = m["b"]; fails = []
        bad = sketchcheck.evaluate(b, impl, sides, model, ignore_model=("kacc", "layout"))
        if bad and bad[1] == "oracle": fails.append(bad[2])
        if "bad" in m: fails.append(m["bad"])
        else:
            def lows(k0, idxs):
                out = {}
                for n_, i in enumerate(idxs):
                    lo, hi = impl2[k0 + 2 * n_], impl2[k0 + 2 * n_ + 1]
                    cv = lambda x: (Fraction(h2f(x[1:])) if x.startswith("x") and x != "xnan" and abs(h2f(x[1:])) != float("inf") else None)
                    out[i] = (cv(lo), cv(hi))
                return out
            la = lows(2, m["src_idx"]); lt = lows(2 + 2 * len(m["src_idx"]), m["tgt_idx"])
            hs, ps, ns = split_kobs(impl[m["j0"]]); hr, pr, nr = split_kobs(impl[m["jo"]])
            sc = Fraction(m["scale"]); f1, f2 = facts[m["s1"]], facts[m["s2"]]
            # carries the requested mapping
            env = sketchcheck.Env()
            for l, sd in zip(core.instr_lines(b.lines), sides): env.note(l, sd)
            if not m["identity"] and "r" in env.maps and (env.maps["r"]["kind"] != f2["kind"] or h2f(env.maps["r"]["gamma"][1:]) != f2["gamma"] or h2f(env.maps["r"]["off"][1:]) != f2["off"]): fails.append("the result does not carry the requested mapping")
            if hr["zero"] != hs["zero"]: fails.append("zero weight changed: %s -> %s" % (hs["zero"], hr["zero"]))
            Ws, Wr = parse_F(hs["count"]) if not m["exact"] else None, None
            for side, src, tgt in (("positive", ps, pr), ("negative", ns, nr)):
                sb, tb = parse_obs(src), parse_obs(tgt)
                ws, wt = sum(w for _, w in sb), sum(w for _, w in tb)
                if ws: worst_dw = max(worst_dw, abs(ws - wt) / ws)
                if abs(ws - wt) > Fraction(1, 2 ** 40) * ws: fails.append("%s weight not conserved: %s -> %s" % (side, float(ws), float(wt)))
                for j, w in tb:
                    if w < 0: fails.append("%s target bin %d has negative weight %s" % (side, j, float(w)))
                if not m["identity"]:
                    for j, w in tb:
                        tl, th = lt.get(j, (None, None))
                        if tl is None or th is None or w <= 0: continue
                        ok_ = False
                        for i, _ in sb:
                            al, ah = la.get(i, (None, None))
                            if al is None or ah is None: ok_ = True; break
                            if tl <= ah * sc * (1 + EPS_FP) and al * sc * (1 - EPS_FP) <= th: ok_ = True; break
                        if not ok_ and w > Fraction(1, 2 ** 40) * (ws or 1): fails.append("%s target bin %d (weight %s) overlaps no scaled source bin" % (side, j, float(w)))
            if m["identity"]:
                if impl[m["jo"]] != impl[m["j0"]]: fails.append("equal mapping and scale 1 must give an exact copy")
            else:
                # quantile clause: y/(scale*V_k) within [(1-a2)/(1+a1), (1+a2)/(1-a1)] for a source representative V_k within one rank
                a1, a2 = Fraction(f1["acc"]), Fraction(f2["acc"])
                vals = vals_of([x for sd in sides for x in sd])          # Value tables (source register emits its own at kobs; same indexes may collide with the target's: disambiguate below)
                # representatives of the source: use the source's `# val` lines, which precede the kchmap instruction
                sv = vals_of([x for sd in sides[: m["jr"]] for x in sd])
                reps = [(-sv[i], w) for i, w in sorted(parse_obs(ns), key=lambda t: -t[0]) if sv.get(i) is not None]
                zw = parse_F(hs["zero"])
                if zw: reps.append((Fraction(0), zw))
                reps += [(sv[i], w) for i, w in sorted(parse_obs(ps)) if sv.get(i) is not None]
                W = sum(w for _, w in reps)
                lo_r, hi_r = (1 - a2) / (1 + a1) - EPS_FP, (1 + a2) / (1 - a1) + EPS_FP
                for q, j in zip(m["qs"], m["jq"]):
                    a = impl[j]
                    if not ("@" in a or a == "0"): fails.append("quantile of the result answered %r" % a); continue
                    y = parse_F(a); r = Fraction(q) * (W - 1)
                    acc = Fraction(0); good = False
                    for V, w in reps:
                        lo_c, acc = acc, acc + w
                        if acc < math.floor(r) - 1 or lo_c > math.ceil(r) + 1: continue
                        if V == 0 and y == 0: good = True; break
                        if V != 0 and y != 0 and (y > 0) == (V > 0) and lo_r <= y / (sc * V) <= hi_r: good = True; break
                    if not good: fails.append("quantile %s of the result (%s) is within the combined accuracy of no scaled source representative within one rank" % (q, a))
            if m["exact"] and m["js"]:
                fs = dict(x.split("=") for x in impl[m["js"][0]].split()); fr = dict(x.split("=") for x in impl[m["js"][1]].split())
                if fs["count"] != fr["count"]: fails.append("exact count changed")
                for nm in ("min", "max"):
                    if fs[nm] != "-" and fr[nm] != "-" and parse_F(fr[nm]) != Fraction(float(parse_F(fs[nm])) * m["scale"]): fails.append("exact %s is not rescaled by the factor" % nm)
        for msg in fails[:2]:
            nfail += 1
            key = "negative-bin" if "negative weight" in msg else None
            rep.violation("conv-%s-%d" % (c.name, nfail), {"clause": msg, "script": core.instr_lines(b.lines)[: m["jo"] + 1], "from": m["s1"], "to": m["s2"], "scale": m["scale"]}, found_input=True, key=key)
    rep.coverage.update({"evaluations": evals, "distinct_nontrivial": evals, "samples": [metas[0]["b"].lines[-16:]] if metas else [],
                         "rule": "conversions between all ordered pairs of {log, linear, cubic} x alpha in {0.005..0.1} (coarser, finer, equal), scale in [1e-3,1e3] incl. bin-aligned gamma^k, 2^k, 1/gamma and 1, "
                                 "sources with positive, negative and zero values and dyadic weights, all source store kinds, sparse/paginated/dense targets (hash-map and paginated targets expose bins of negative weight), both variants; "
                                 "exact-rational oracle: mapping carried, source untouched, zero weight equal, |dW| <= 2^-40 W, no negative bin, every target bin overlaps a scaled source bin (implementation's own LowerBound), "
                                 "identity = exact copy, 11 quantiles within the combined accuracy of a source representative within one rank, statistics rescaled",
                         "worst_relative_weight_drift": float(worst_dw), "traces_compared": ntr, "addwithcount_calls_compared": ncalls, "trace_mismatches": len(trace_bad), "model_gave_up": ngive})
    rep.assumptions = ["eps_fp = 1e-12; values well inside both mappings' ranges after scaling"]
    return rep.finish()
