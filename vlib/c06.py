"""C06: binary encoding round-trips and composes with merging."""
import random, re
from fractions import Fraction
from . import core, sketchcheck
from .sketchgen import Builder, mapspec, STORES, rand_values, spec_list
from .storegen import Shadow
from .core import f2h, parse_F

TARGETS = STORES + ["low:4", "high:4", "low:16", "high:64", "low:2048"]
def parse_obs(o):
    """obsline -> Shadow of the given kind later; returns list of (index, Fraction)."""
    bins = o.split("bins=")[1]
    return [(int(x.split(":")[0]), parse_F(x.split(":")[1])) for x in bins.split(",")] if bins else []
def split_kobs(a):
    m = re.match(r"(.*) pos\[(.*)\] neg\[(.*)\]$", a)
    head = dict(x.split("=") for x in m.group(1).split()); return head, m.group(2), m.group(3)
def expect_decoded(jsrc, kind, extra=None, loose=False):
    """the decoded sketch holds the source's content (clamped when the target is bounded);
    loose (non-dyadic weights, float sums inexact): bin-for-bin equality on exact targets only"""
    def f(a, env, impl):
        if a.startswith("err") or a == "panic": return "decoding failed: %r" % a
        hs, ps, ns = split_kobs(impl[jsrc]); ha, pa, na = split_kobs(a)
        if loose:
            if ":" in kind: return None
            for nm, src, got in (("positive", ps, pa), ("negative", ns, na)):
                if src.split("bins=")[1] != got.split("bins=")[1]: return "%s bins after rebuilding are %r, the source held %r" % (nm, got, src)
            return None if ha["zero"] == hs["zero"] else "zero weight differs"
        for nm, src, got in (("positive", ps, pa), ("negative", ns, na)):
            sh = Shadow(kind)
            for i, w in parse_obs(src): sh.add(i, w)
            if extra:
                for i, w in parse_obs(split_kobs(impl[extra])[1 if nm == "positive" else 2]): sh.add(i, w)
            if sh.obsline() != got: return "%s store after decoding is %r, expected %r" % (nm, got, sh.obsline())
        if not extra and (ha["count"] != hs["count"] or ha["zero"] != hs["zero"]): return "count/zero differ: %r vs source %r" % (ha, hs)
        if ":" not in kind and not extra and (ha["min"] != hs["min"] or ha["max"] != hs["max"]): return "min/max differ"
        return None
    return f

def fill(rng, b, k, n, wide):
    for v in rand_values(rng, n, -2 if not wide else -30, 2 if not wide else 30, zeros=0.1):
        b.kadd(k, v, rng.choice([None, None, None, 2.0, 0.5, 3.0, 0.125, float(rng.randint(1, 1 << 20))]))

def build(rng, facts, name):
    spec = rng.choice(sorted(facts)); b = Builder(name)
    kp, kn = rng.choice(STORES + ["low:32", "high:32"]), rng.choice(STORES); exact = rng.random() < 0.3
    b.knew("src", spec, kp, kn, exact)
    fill(rng, b, "src", rng.choice([0, 1, 3, 12, 40, 150]), wide=("dense" not in (kp, kn) and rng.random() < 0.3))
    if rng.random() < 0.2: b.kreweight("src", Fraction(1, 2))
    j0 = b.emit("kobs src")
    omit = rng.random() < 0.4
    pre = "".join("%02x" % rng.getrandbits(8) for _ in range(rng.choice([0, 0, 5, 64, 200, rng.randint(1, 40), rng.randint(1, 40)])))
    b.emit("kenc e src %d%s" % (omit, (" " + pre) if pre else ""), "ok")
    b.emit("kobs src", ("same", j0))                                   # encoding does not change the observable state
    if pre: b.emit("bdrop e e %d" % (len(pre) // 2), "ok")
    for kind in rng.sample(TARGETS, 4):
        ms = spec if (omit or rng.random() < 0.3) else "nil"
        if "dense" == kind and any(abs(v) > 1e5 or (v != 0 and abs(v) < 1e-5) for v, _ in b.vals["src"]): continue
        b.emit("kdec t e %s %s%s" % (kind, ms, " exact" if exact else ""), "ok")
        b.emit("kobs t", expect_decoded(j0, kind))
        if b.vals["src"]:
            for q in (0.0, 0.5, 1.0):
                if ":" not in kind:
                    jq = b.emit("q src %s" % f2h(q)); b.emit("q t %s" % f2h(q), ("same", jq))
        if exact: js = b.emit("kstats src"); b.emit("kstats t", ("same", js) if ":" not in kind else None)
    # decode into a non-empty sketch = merge
    kind = rng.choice(STORES + ["pag"])
    b.knew("r1", spec, kind, kind, exact); b.knew("r2", spec, kind, kind, exact)
    # receivers of every fill level: in particular a paginated store whose buffer is past its compaction trigger (97..127 unit entries)
    nfill = rng.choice([1, 5, 40, 100, 110, 125, 140])
    vs = rand_values(rng, nfill, -2, 2, zeros=0.02, signs=((1,) if nfill >= 100 else (1, -1)))
    for v in vs: b.kadd("r1", v); b.kadd("r2", v)
    b.emit("kdecinto r1 e", "ok"); b.kmerge("r2", "src")
    j1 = b.emit("kobs r2"); b.emit("kobs r1", ("same", j1))
    # a concatenation of encodings decodes to the merge of the encoded sketches
    b.knew("o", spec, rng.choice(STORES), rng.choice(STORES), exact); fill(rng, b, "o", rng.choice([1, 4, 20]), False)
    om2 = rng.choice([0, 1]); b.emit("kenc e2 o %d" % om2, "ok"); b.emit("kenc e3 r2 1", "ok")
    b.emit("bcat cat e e2 e3", "ok")
    b.emit("kdec c cat %s %s%s" % (kind, spec, " exact" if exact else ""), "ok")
    b.knew("m", spec, kind, kind, exact); b.kmerge("m", "src"); b.kmerge("m", "o"); b.kmerge("m", "r2")
    j2 = b.emit("kobs m"); b.emit("kobs c", ("same", j2))
    # the same concatenation read without a mapping from the caller: fine as soon as ONE of the encodings carries it, wherever it sits
    if omit and om2: b.emit("kdec c2 cat %s nil%s" % (kind, " exact" if exact else ""), "err missing-mapping")
    else: b.emit("kdec c2 cat %s nil%s" % (kind, " exact" if exact else ""), "ok"); b.emit("kobs c2", ("same", j2))
    return b

def build_wide(rng, name):
    """Very fine accuracy: two non-empty bins more than 2^31 indexes apart (index deltas beyond int32), hash-map source, targets that can hold them."""
    a = rng.choice([1e-7, 2e-7, 1.5e-7]); spec = "log:a:%s" % f2h(a); b = Builder(name)
    b.knew("src", spec, "sparse", "sparse")
    for v in rng.sample([1e-100, 1e100, 3e-120, 7e99, 2.5e-90], 3) + [-1e100, -1e-100]: b.kadd("src", v, rng.choice([None, 2.0]))
    j0 = b.emit("kobs src")
    b.emit("kenc e src 0", "ok"); b.emit("kobs src", ("same", j0))
    for kind in ("sparse", rng.choice(["low:8", "high:8"])):
        b.emit("kdec t e %s nil" % kind, "ok"); b.emit("kobs t", expect_decoded(j0, kind))
    b.knew("r", spec, "sparse", "sparse"); b.kadd("r", 1.0); b.knew("r2", spec, "sparse", "sparse"); b.kadd("r2", 1.0)
    b.emit("kdecinto r e", "ok"); b.kmerge("r2", "src"); j1 = b.emit("kobs r2"); b.emit("kobs r", ("same", j1))
    return b

def build_pag_window(rng, facts, name):
    """Decode into a NON-EMPTY paginated receiver whose buffer of unit entries sits anywhere around its compaction trigger and its capacity (sweep of fill
    levels 60..200, values spread so thinly that compaction cannot move them to pages), from a paginated source that still has buffered unit entries (so that it
    emits an index-deltas block), alone and followed by further blocks: decode-into = merge, and the blocks after the index deltas are read as such."""
    spec = rng.choice(sorted(facts)); b = Builder(name)
    b.knew("src", spec, "pag", "pag"); nsrc = rng.choice([1, 2, 5, 20, 40])
    for v in rand_values(rng, nsrc, -30, 30, zeros=0.0): b.kadd("src", v)
    if rng.random() < 0.5: b.kadd("src", 7.5, 2.0)
    b.emit("kenc e src %d" % rng.choice([0, 1]), "ok")
    nfill = rng.randint(60, 200)
    b.knew("r1", spec, "pag", "pag"); b.knew("r2", spec, "pag", "pag")
    for v in rand_values(rng, nfill, -30, 30, zeros=0.0, signs=(1,)): b.kadd("r1", v); b.kadd("r2", v)
    if rng.random() < 0.3: b.emit("kobs r1"); b.emit("kobs r2")          # a read sorts (and may compact) the buffer first
    b.emit("kdecinto r1 e", "ok"); b.kmerge("r2", "src"); j1 = b.emit("kobs r2"); b.emit("kobs r1", ("same", j1))
    b.emit("kdecinto r1 e", "ok"); b.kmerge("r2", "src"); j1 = b.emit("kobs r2"); b.emit("kobs r1", ("same", j1))
    return b

def build_big_total(rng, facts, name):
    """An exact-statistics sketch whose total weight is an integer just above 2^52 (its varfloat takes all 9 bytes, the last one with its top bit set),
    read back by both decoders: integer weights below 2^53 are inside the property."""
    spec = rng.choice(sorted(facts)); b = Builder(name); kp = rng.choice(STORES)
    b.knew("src", spec, kp, kp, True)
    b.kadd("src", 3.0, float(2 ** 52)); b.kadd("src", 5.0, rng.choice([1.0, 3.0, float(2 ** 51 - 1)])); b.kadd("src", -2.0, rng.choice([2.0, 4.0]))
    j0 = b.emit("kobs src"); b.emit("kenc e src 0", "ok")
    for kind in ("sparse", rng.choice(["dense", "pag"])):
        def bins_same(a, env, impl):          # the plain sketch approximates min/max from its bins: compare content only
            if a.startswith("err") or a == "panic": return "decoding failed: %r" % a
            hs, ps, ns = split_kobs(impl[j0]); ha, pa, na = split_kobs(a)
            return None if (pa, na, ha["zero"], ha["count"]) == (ps, ns, hs["zero"], hs["count"]) else "the plain decoder holds %r / %r, the sketch held %r / %r" % (pa, na, ps, ns)
        b.emit("kdec p e %s nil" % kind, "ok"); b.emit("kobs p", bins_same)
        b.emit("kdec x e %s nil exact" % kind, "ok"); js = b.emit("kstats src"); b.emit("kstats x", ("same", js)); b.emit("kobs x", ("same", j0))
    return b

def run(tier, seed):
    rng = random.Random(seed)
    ok, log = core.build_vrun()
    specs = spec_list(rng, 12 if tier == "quick" else 50)
    facts = sketchcheck.learn_specs("C06", specs) if ok else {}
    builders = ([build(rng, facts, "e%d" % i) for i in range(250 if tier == "quick" else 6000)] + [build_wide(rng, "w%d" % i) for i in range(6 if tier == "quick" else 60)] + [build_pag_window(rng, facts, "pw%d" % i) for i in range(40 if tier == "quick" else 600)] + [build_big_total(rng, facts, "b%d" % i) for i in range(8 if tier == "quick" else 80)]) if facts else []
    return sketchcheck.run_sketch_property(
        "C06", tier, seed, builders,
        "sketches from short histories (unit/dyadic/large integer weights surviving the +1/-1 transform, both variants, source stores of every kind incl. collapsing) are encoded with the mapping "
        "embedded or omitted into buffers with random prefixes of 0..200 bytes, decoded into 4 of 8 target kinds (bounded ones with several limits) with the mapping supplied or not; checks: "
        "decoded bins = source bins (clamped by an exact shadow for bounded targets), same count/zero/min/max/quantiles/exact statistics, encoding leaves the observation unchanged and the prefix "
        "intact, decode into a non-empty sketch = merge (twin), a concatenation of 3 encodings decodes to the 3-way merge; in the model run every implementation encoding is also read by the "
        "documentation-only decoder. distinct_nontrivial = distinct cases with a non-empty source",
        nontrivial=lambda b, impl: len(b.vals.get("src", [])) > 0)
