"""C09: protobuf forms round-trip and the streaming writer equals the message."""
import random
from fractions import Fraction
from . import core, sketchcheck
from .sketchgen import Builder, mapspec, STORES, rand_values, spec_list
from .storegen import Shadow
from .c06 import expect_decoded, split_kobs
from .core import nextafter, f2h

TARGETS = STORES + ["low:8", "high:8", "low:256"]

def build(rng, facts, name):
    spec = rng.choice(sorted(facts)); b = Builder(name)
    kp, kn = rng.choice(STORES + ["low:64", "high:64"]), rng.choice(STORES + ["low:64"])
    b.knew("k", spec, kp, kn)
    arbitrary = rng.random() < 0.4
    b.no_model = arbitrary          # non-dyadic weights: float sums are inexact, the exact model does not apply; the implementation-side oracles do
    for v in rand_values(rng, rng.choice([0, 1, 4, 15, 60, 150]), -2, 2, zeros=0.1):
        b.kadd("k", v, rng.choice([None, None, 2.0, 0.5, 0.1, 1e-3, 12345.678, 3.0]) if arbitrary else rng.choice([None, None, 2.0, 0.5, 0.125, 3.0]))
    if rng.random() < 0.2:
        b.kclear("k")
        for v in rand_values(rng, rng.choice([1, 5, 20]), -2, 2): b.kadd("k", v)
    ends = rng.random() < 0.25 and kp in ("sparse", "pag") and kn in ("sparse", "pag")
    if ends:
        # the first and last buckets the mapping can address (their bounds lie outside [min, max] indexable)
        fx = facts[spec]
        for v in rng.sample([nextafter(fx["min"], True), -nextafter(fx["min"], True), fx["min"] * 1.0000001, fx["max"], -fx["max"], nextafter(fx["max"], False)], 3): b.kadd("k", v)
    j0 = b.emit("kobs k")
    def same_bins(a, env, impl):
        # with non-dyadic weights the totals of hash-map stores depend on the iteration order of the float sum: compare bins only
        ha, pa, na = split_kobs(a); h0, p0, n0 = split_kobs(impl[j0])
        return None if (pa.split("bins=")[1], na.split("bins=")[1], ha["zero"]) == (p0.split("bins=")[1], n0.split("bins=")[1], h0["zero"]) else "observation changed: %r vs %r" % (a, impl[j0])
    same0 = same_bins if arbitrary else ("same", j0)
    b.emit("ktoproto P k", "ok"); b.emit("kobs k", same0)
    jp = b.emit("kpobs P")
    # marshal / unmarshal
    b.emit("kpmarshal mb P", "ok"); b.emit("kpunmarshal P2 mb", "ok"); b.emit("kpobs P2", ("same", jp))
    # the allocation-free streaming writer produces bytes that unmarshal to the same message
    b.emit("kstream sb k", "ok"); b.emit("kobs k", same0); b.emit("kpunmarshal P3 sb", "ok"); b.emit("kpobs P3", ("same", jp))
    # rebuild with any store kind
    # (content reaching both ends of the index range is rebuilt into hash-map and bounded stores only: an array over the whole range is a memory test, not a protobuf one)
    for kind in rng.sample([t for t in TARGETS if not ends or t not in ("dense", "pag")], 3):
        for P in ("P", "P3"):
            b.emit("kfromproto r %s %s" % (P, kind), "ok"); b.emit("kobs r", expect_decoded(j0, kind, loose=arbitrary))
    # streaming the same sketch again, into another writer, gives the same message (the writer holds no state between calls; the bytes themselves may order hash-map bins differently)
    jb = b.emit("kstream sb k", "ok"); b.emit("kstream sb2 k", "ok"); b.emit("kpunmarshal P5 sb2", "ok"); b.emit("kpobs P5", ("same", jp))
    # the message is a value: it keeps describing the sketch as it was when converted, whatever happens to the sketch afterwards
    b.kcopy("kk", "k"); b.emit("ktoproto PP kk", "ok"); jpp = b.emit("kpobs PP")
    if rng.random() < 0.5: b.kclear("kk")
    for v in rand_values(rng, rng.choice([2, 6, 30]), -2, 2): b.kadd("kk", v, rng.choice([None, 2.0, 0.75]))
    b.emit("kpobs PP", ("same", jpp)); b.emit("kpmarshal mb2 PP", "ok"); b.emit("kpunmarshal PP2 mb2", "ok"); b.emit("kpobs PP2", ("same", jpp))
    # a caller edits the message it was handed (every count multiplied in place): the edited message is the model's (Wire/ProtoEdit.v), rebuilds to
    # what the model rebuilds, and neither the sketch nor a message converted earlier follows it
    if not arbitrary and not ends:
        fe = rng.choice([2.0, 0.5, 0.25, 4.0, 0.0]); b.emit("ktoproto PE k", "ok"); b.emit("kpscale PE %s" % f2h(fe), "ok"); b.emit("kpobs PE")
        b.emit("kfromproto re PE %s" % rng.choice(["sparse", "pag", "default"]), "ok"); b.emit("kobs re"); b.emit("kobs k", same0); b.emit("kpobs P", ("same", jp))
    # rebuilding has no memory: a message of the same kind and base with another offset rebuilt just before does not leak into this one
    fsp = facts[spec]; sib = "%s:g:%s:%s" % (fsp["kind"], f2h(fsp["gamma"]), f2h(fsp["off"] + rng.choice([7.25, -3.5])))
    b.knew("ks", sib, "sparse", "sparse"); b.kadd("ks", 1.5); b.emit("ktoproto Ps ks", "ok"); b.emit("kfromproto rs Ps sparse", "ok")
    b.emit("kfromproto r P sparse", "ok"); b.emit("kobs r", expect_decoded(j0, "sparse", loose=arbitrary))
    # FromProto = the default (paginated) store provider
    b.emit("kfromproto r P default", "ok"); b.emit("kobs r", expect_decoded(j0, "pag", loose=arbitrary))
    return b

def build_store(rng, name):
    b = Builder(name); kind = rng.choice(STORES + ["low:16", "high:16"])
    b.emit("new s " + kind, "ok"); sh = Shadow(kind)
    base = rng.randint(-2000, 2000)
    for _ in range(rng.choice([0, 1, 5, 30, 100])):
        i = base + rng.randint(-60, 60); w = rng.choice([1.0, 1.0, 1.0, 2.0, 0.5, 0.375, 7.25])
        b.emit("addw s %d %s" % (i, f2h(w)), "ok"); sh.add(i, Fraction(w))
    j0 = b.emit("obs s"); b.emit("toproto p s", "ok"); jp = b.emit("pobs p")
    b.emit("pmarshal mb p", "ok"); b.emit("punmarshal p2 mb", "ok"); b.emit("pobs p2", ("same", jp))
    b.emit("pstream sb s", "ok"); b.emit("punmarshal p3 sb", "ok"); b.emit("pobs p3", ("same", jp)); b.emit("obs s", ("same", j0))
    for k2 in rng.sample(STORES + ["low:16"], 2):
        b.emit("new t " + k2, "ok"); b.emit("fromproto t p3", "ok")
        t = Shadow(k2)
        for i in sorted(sh.m): t.add(i, sh.m[i])
        b.emit("obs t", t.obsline())
    b.emit("newfromproto d p3", "ok")          # store.FromProto: a fresh dense store holding the message's content
    t = Shadow("dense")
    for i in sorted(sh.m): t.add(i, sh.m[i])
    b.emit("obs d", t.obsline())
    # hand-built message mixing sparse and contiguous counts: they add up
    bins = {}
    for _ in range(rng.randint(0, 6)): bins[base + rng.randint(-10, 10)] = rng.choice([1.0, 2.0, 0.5, 4.0])
    off = base + rng.randint(-10, 10); contig = [rng.choice([0.0, 1.0, 2.0, 0.25]) for _ in range(rng.randint(0, 12))]
    b.emit("protomk hm bins=%s contig=%d:%s" % (",".join("%d:%s" % (i, f2h(w)) for i, w in bins.items()), off, ",".join(f2h(w) for w in contig)), "ok")
    for k2 in rng.sample(STORES + ["high:4"], 2):
        b.emit("new u " + k2, "ok"); b.emit("add u %d" % base, "ok"); b.emit("fromproto u hm", "ok")
        u = Shadow(k2); u.add(base, Fraction(1))
        allb = [(i, Fraction(w)) for i, w in bins.items()] + [(off + j, Fraction(w)) for j, w in enumerate(contig)]
        for i, w in sorted(allb): u.add(i, w)
        b.emit("obs u", u.obsline())
    # the store message is a value too
    b.emit("toproto ps s", "ok"); jps = b.emit("pobs ps")
    if rng.random() < 0.5: b.emit("clear s", "ok")
    for _ in range(rng.choice([2, 8, 40])): b.emit("addw s %d %s" % (base + rng.randint(-60, 60), f2h(rng.choice([1.0, 2.0, 0.5]))), "ok")
    b.emit("pobs ps", ("same", jps))
    return b

def run(tier, seed):
    rng = random.Random(seed)
    ok, log = core.build_vrun()
    specs = spec_list(rng, 10 if tier == "quick" else 40) + ["log:g:%s:%s" % (f2h(1.02), f2h(0.0)), "lin:g:%s:%s" % (f2h(1.02), f2h(0.0)), "cub:g:%s:%s" % (f2h(1.015), f2h(0.0)), "lin:g:%s:%s" % (f2h(1.1), f2h(-7.5))]
    facts = sketchcheck.learn_specs("C09", specs) if ok else {}
    n = 250 if tier == "quick" else 6000
    builders = ([build(rng, facts, "k%d" % i) for i in range(n)] + [build_store(rng, "s%d" % i) for i in range(n)]) if facts else []
    return sketchcheck.run_sketch_property(
        "C09", tier, seed, builders,
        "sketches of every store kind (cleared-then-refilled included, negative values, arbitrary non-negative float64 weights) -> ToProto -> proto.Marshal/Unmarshal -> message equality; "
        "EncodeProto streaming bytes -> proto.Unmarshal -> message equal to the in-memory one; FromProtoWithStoreProvider into 3 of 6 store kinds from both messages -> same bins bit for bit "
        "(clamped for bounded targets), zero weight and mapping; store level: ToProto/EncodeProto/MergeWithProto for each kind incl. hand-built messages mixing binCounts and contiguousBinCounts "
        "merged into non-empty stores, against an exact shadow. distinct_nontrivial = distinct cases",
        trusted_extra=["google.golang.org/protobuf Marshal/Unmarshal and the generated ddsketch.pb.go are used as the reference reader of the streaming writer's bytes"])
