"""C19: a mapping keeps its identity through every serialized form."""
import math, random
from fractions import Fraction
from . import core, sketchcheck
from .sketchgen import Builder, ulps
from .core import f2h, h2f, nextafter

KINDS = ("log", "lin", "cub")
def gamma_of(kind, a):
    g0 = (1 + a) / (1 - a)
    return g0 if kind == "log" else g0 ** math.log(2) if kind == "lin" else g0 ** (10 * math.log(2) / 7)

def run(tier, seed):
    pid = "C19"; rng = random.Random(seed)
    ok, log = core.build_vrun()
    n = 120 if tier == "quick" else 2500
    specs = []
    for _ in range(n):
        k = rng.choice(KINDS); a = rng.choice([1e-6, 1e-3, 0.01, 0.02, 0.1, 0.5, 0.99]) if rng.random() < 0.4 else 10 ** rng.uniform(-6, math.log10(0.99))
        if rng.random() < 0.5: specs.append("%s:a:%s" % (k, f2h(a)))
        else: specs.append("%s:g:%s:%s" % (k, f2h(gamma_of(k, a)), f2h(rng.choice([0.0, 1.0, -2.5, 0.125, rng.uniform(-1e3, 1e3), float(rng.randint(-10**5, 10**5)), 1e-7]))))
    for k in KINDS:
        for a in (0.01, 1e-4): specs.append("%s:g:%s:%s" % (k, f2h(gamma_of(k, a)), f2h(0.0)))          # offset exactly 0 (not the default of the linear and cubic kinds)
    facts = sketchcheck.learn_specs(pid, specs) if ok else {}
    specs = [s for s in specs if s in facts]
    builders = []
    for i, s in enumerate(specs):
        f = facts[s]; b = Builder("m%d" % i); b.emit("mnew m " + s, "ok")
        probes_v = [min(max(math.exp(rng.uniform(math.log(f["min"]), math.log(f["max"]))), f["min"]), f["max"]) for _ in range(6)] + [f["min"], f["max"], 1.0]
        probes_i = [rng.randint(-2000, 2000) for _ in range(4)]
        def same_behaviour(m2):
            for v in probes_v:
                j = b.emit("midx m %s" % f2h(v)); b.emit("midx %s %s" % (m2, f2h(v)), ("same", j))
            for k in probes_i:
                j = b.emit("mval m %d" % k); b.emit("mval %s %d" % (m2, k), ("same", j))
                j = b.emit("mlow m %d" % k); b.emit("mlow %s %d" % (m2, k), ("same", j))
            j = b.emit("macc m"); b.emit("macc " + m2, ("same", j))
            j = b.emit("mrange m"); b.emit("mrange " + m2, ("same", j))
            b.emit("meq m " + m2, "1"); b.emit("meq %s m" % m2, "1")
        # binary form
        b.emit("menc e m", "ok"); b.emit("mdec r e", lambda a, env: None if a.startswith("ok 17") else "decoding a mapping block answered %r" % a); same_behaviour("r")
        # ... and the decoder has no memory: a sibling (same kind and base, another offset) decoded just before does not leak into this one
        sib = "%s:g:%s:%s" % (s.split(":")[0], f2h(f["gamma"]), f2h(f["off"] + rng.choice([40.0, -1.0, 0.5])))
        b.emit("mnew sib " + sib, "ok"); b.emit("menc es sib", "ok"); b.emit("mdec rs es"); b.emit("mdec r2 e"); same_behaviour("r2")
        b.emit("mdec rs2 es"); b.emit("meq rs2 sib", "1"); b.emit("meq rs2 m", "0")
        # protobuf message and streaming forms
        b.emit("mproto Q m", "ok"); b.emit("mfromproto p Q", "ok"); same_behaviour("p")
        b.emit("mproto Qs sib", "ok"); b.emit("mfromproto ps Qs", "ok"); b.emit("mfromproto p1 Q", "ok"); same_behaviour("p1"); b.emit("meq ps sib", "1"); b.emit("meq ps m", "0")
        # the message ToProto hands out belongs to the caller: editing it does not change what the mapping says next time
        b.emit("mproto Qe m", "ok"); b.emit("mpedit Qe off %s" % f2h(f["off"] + 100.0), "ok"); b.emit("mpedit Qe gamma %s" % f2h(f["gamma"] * 1.5), "ok")
        b.emit("mproto Qf m", "ok"); b.emit("mpobs Qf", ("same", len(b.lines) + 1)); jq0 = b.emit("mpobs Q")
        b.emit("mstream sb m", "ok"); b.emit("mpunmarshal Q2 sb", "ok"); jq = b.emit("mpobs Q"); b.emit("mpobs Q2", ("same", jq))
        b.emit("mfromproto p2 Q2", "ok"); b.emit("meq m p2", "1")
        b.emit("mpmarshal mb Q", "ok"); b.emit("mpunmarshal Q3 mb", "ok"); b.emit("mpobs Q3", ("same", jq))
        # accuracy constructor = base/offset constructor
        kind = s.split(":")[0]
        b.emit("mnew g %s:g:%s:%s" % (kind, f2h(f["gamma"]), f2h(f["off"])), "ok"); same_behaviour("g")
        # reflexive; never equal across kinds or across clearly different accuracies
        b.emit("meq m m", "1")
        for k2 in KINDS:
            if k2 != kind:
                b.emit("mnew o %s:g:%s:%s" % (k2, f2h(f["gamma"]), f2h(f["off"])), "ok"); b.emit("meq m o", "0"); b.emit("meq o m", "0")
        a = f["acc"]
        for fac in (1.001, 0.999, 1.01, 0.5, 1.0011):
            a2 = a * fac
            if 1e-6 <= a2 <= 0.99 and abs(a2 - a) >= 1.0005e-3 * max(a, a2) and s.split(":")[1] == "a":
                b.emit("mnew d %s:a:%s" % (kind, f2h(a2)), "ok"); b.emit("meq m d", "0"); b.emit("meq d m", "0")
        # symmetric on near pairs (whatever the verdict)
        g2 = ulps(f["gamma"], rng.choice([1, 2, 5, 4000, 10**6]))
        b.emit("mnew u %s:g:%s:%s" % (kind, f2h(g2), f2h(f["off"])), "ok"); j = b.emit("meq m u"); b.emit("meq u m", ("same", j))
        # ... and on pairs whose offsets are next to each other, one of them possibly exactly 0 (0.1+0.2-0.3 is not 0)
        for o1, o2 in ((0.0, rng.choice([5.551115123125783e-17, -5.551115123125783e-17, 1e-13, -3e-14, 1e-300, 5e-324, 2e-12, 9.9e-13])),
                       (f["off"], ulps(f["off"], rng.choice([1, -1, 3, 5000])) if f["off"] != 0 else 1e-15),
                       (-7.5, -7.5), (-7.5, ulps(-7.5, rng.choice([1, 2, -1, 4000])))):
            b.emit("mnew za %s:g:%s:%s" % (kind, f2h(f["gamma"]), f2h(o1)), "ok"); b.emit("mnew zb %s:g:%s:%s" % (kind, f2h(f["gamma"]), f2h(o2)), "ok")
            j = b.emit("meq za zb", "1" if o1 == o2 else None); b.emit("meq zb za", ("same", j))
        # undefined mapping flags are refused by the decoder
        for sub in (2, 4, 5, 17, 63):
            b.emit("braw ub %02x%s" % ((sub << 2) | 2, "00" * 16), "ok"); b.emit("mdec x ub", "err unknown-mapping")
        builders.append(b)
    return sketchcheck.run_sketch_property(
        pid, tier, seed, builders,
        "mappings of the three kinds with alpha log-uniform in [1e-6, 0.99] or on a grid, built from an accuracy or from (gamma, offset) with non-default offsets; each is encoded/decoded in the "
        "binary form, as protobuf message, through the streaming protobuf writer and through proto.Marshal, rebuilt from its own (gamma, offset); the restored mapping must be Equals in both "
        "directions and return bit-identical Index / Value / LowerBound / accuracy / range on 9 probe values and 4 probe indexes; Equals is reflexive, symmetric on pairs 1..10^6 ulps apart, "
        "false across kinds and for accuracies >= 0.1% apart; undefined mapping flags are refused. distinct_nontrivial = distinct mappings",
        trusted_extra=["gamma computed through math.Pow is covered by the comparison with the implementation's own fields, not proved"],
        ignore_model=("kacc", "layout"))
