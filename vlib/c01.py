"""C01: quantile estimates honour the relative-accuracy guarantee (unit weights, non-collapsing stores)."""
import math, random
from fractions import Fraction
from . import core, sketchcheck
from .sketchgen import Builder, mapspec, STORES, rand_values, ulps, oracle_quantile_unit, spec_list
from .core import f2h, nextafter

def build(rng, tier, facts, edges, name, nmax):
    spec = rng.choice(sorted(facts)); f = facts[spec]
    b = Builder(name); kp, kn = rng.choice(STORES), rng.choice(STORES)
    b.meta = {"spec": spec, "stores": (kp, kn)}
    b.knew("k", spec, kp, kn)
    n = rng.choice([1, 2, 3, 5, 10, 30, 100, nmax])
    dense = "dense" in (kp, kn)
    vals = rand_values(rng, n, -3, 3) if dense or rng.random() < 0.5 else rand_values(rng, n, -200, 200)
    if not dense and rng.random() < 0.3: vals += [f["max"], -f["max"], nextafter(f["max"], False)]
    if rng.random() < 0.5: vals += [f["min"], -f["min"], nextafter(f["min"], True), f["min"] / 2, 5e-324, -5e-324][:rng.randint(1, 6)] if not dense or f["min"] > 1e-300 else []
    es = edges.get(spec, [])
    for _ in range(min(len(es), rng.choice([0, 2, 6]))):
        e = rng.choice(es); vals.append(rng.choice((1, -1)) * ulps(e, rng.choice([-3, -2, -1, 0, 0, 1, 2, 3])))
    rng.shuffle(vals)
    if rng.random() < 0.25:
        # arrival patterns around the paginated store's compaction points: k values of one bin, then j far-apart values in
        # decreasing (or increasing) order, queried only once everything is in
        sizes = [31, 32, 33, 63, 64, 65, 95, 96, 97]
        v0 = rng.choice((1, -1)) * 10 ** rng.uniform(-1, 1)
        far = sorted(rand_values(rng, rng.choice(sizes + [64, 64, 64, 128]), -3, 3, zeros=0, signs=((1,) if v0 > 0 else (-1,))), reverse=rng.random() < 0.7)
        vals = [v0 * (1 + rng.random() * 1e-4) for _ in range(rng.choice(sizes))] + far
    def queries():
        snap = list(b.vals["k"]); n = len(snap)
        qs = [0.0, 1.0, 0.5, rng.random(), rng.random()]
        if n > 1:
            for k in rng.sample(range(n), min(n, 4)):
                q = k / (n - 1); qs += [q, nextafter(q, True) if q < 1 else q, nextafter(q, False) if q > 0 else q]
        js = []
        for q in qs:
            js.append(b.emit("q k %s" % f2h(q), (lambda q, snap: lambda a, env: oracle_quantile_unit(snap, q, env.alpha("k"), env.minidx("k"))(a))(q, snap)))
        # GetValuesAtQuantiles answers each entry of its list like the single query, whatever the order of the list
        b.emit("qs k " + " ".join(f2h(q) for q in qs), lambda a, env, impl, js=list(js): None if a == ",".join(impl[j] for j in js) else "GetValuesAtQuantiles answered %s where the single queries answer %s" % (a, ",".join(impl[j] for j in js)))
    if rng.random() < 0.5 and len(vals) >= 4:
        # queries interleaved with additions: the guarantee holds after every prefix; later chunks revisit earlier values (existing bins)
        cuts = sorted(rng.sample(range(1, len(vals)), min(3, len(vals) - 1)))
        prev = 0
        for c in cuts + [len(vals)]:
            for v in vals[prev:c]: b.kadd("k", v)
            for _ in range(rng.choice([0, 3, 10])): b.kadd("k", rng.choice(vals[:c]))
            queries(); prev = c
    else:
        for v in vals: b.kadd("k", v)
        queries()
    b.emit("kobs k")
    return b

def run(tier, seed):
    rng = random.Random(seed)
    ok, log = core.build_vrun()
    specs = spec_list(rng, 18 if tier == "quick" else 80)
    facts = sketchcheck.learn_specs("C01", specs) if ok else {}
    edges = sketchcheck.learn_edges("C01", facts, rng) if ok else {}
    n = 300 if tier == "quick" else 6000
    builders = [build(rng, tier, facts, edges, "c%d" % i, 300 if tier == "quick" else 3000) for i in range(n)] if facts else []
    return sketchcheck.run_sketch_property(
        "C01", tier, seed, builders,
        "sketches with unit adds, mapping kind x store kinds (3x3x3) and alpha/offset at random; values: random magnitudes (10^-3..10^3 for dense stores, 10^-200..10^200 otherwise), "
        "powers of two, duplicates, zeros, sub-minimum magnitudes, both range ends, bin edges (the implementation's LowerBound) +-0..3 ulps, both signs; q in {0, 1, 1/2, random, k/(n-1) and its "
        "two float neighbours}; oracle in exact rationals: answer within (alpha+1e-12)|x_k| of x_floor or x_ceil of q(n-1). distinct_nontrivial = distinct cases with n >= 3 values",
        nontrivial=lambda b, impl: len(b.vals.get("k", [])) >= 3)
