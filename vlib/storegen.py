"""Random store-level programs (C04, C05, C14, C15, C16) with an exact python shadow of every register.
The shadow is the mathematical object of the property texts (index -> exact weight, with the
stepwise clamp for collapsing kinds); it drives the choice of rank probes and is an oracle that is
independent of the Coq model."""
from fractions import Fraction
from .core import Case, f2h

I32MAX, I32MIN = 2**31 - 1, -2**31

class Shadow:
    def __init__(self, kind):
        self.kind = kind; self.m = {}
        self.n = int(kind.split(":")[1]) if ":" in kind else None
    def copy(self):
        s = Shadow(self.kind); s.m = dict(self.m); return s
    def norm(self):
        if self.n is None or not self.m: return
        if self.kind.startswith("low"):
            e = max(self.m) - self.n + 1
            low = [k for k in self.m if k < e]
            if low:
                w = sum(self.m.pop(k) for k in low); self.m[e] = self.m.get(e, 0) + w
        else:
            e = min(self.m) + self.n - 1
            hi = [k for k in self.m if k > e]
            if hi:
                w = sum(self.m.pop(k) for k in hi); self.m[e] = self.m.get(e, 0) + w
    def add(self, i, w):
        if w == 0: return
        self.m[i] = self.m.get(i, 0) + w; self.norm()
    def merge(self, o):
        for k in sorted(o.m): self.add(k, o.m[k])
    def clear(self): self.m = {}
    def reweight(self, w):
        for k in self.m: self.m[k] *= w
    def total(self): return sum(self.m.values(), Fraction(0))
    def rank(self, r):
        acc = Fraction(0); ks = sorted(self.m)
        for k in ks:
            acc += self.m[k]
            if acc > r: return k
        return ks[-1] if ks else None
    def obsline(self):
        def F(x):
            if x == 0: return "0"
            n, d = x.numerator, x.denominator
            k = d.bit_length() - 1
            t = (n & -n).bit_length() - 1
            return "%d@%d" % (n >> t, t - k)
        ks = sorted(self.m)
        return "total=%s empty=%d min=%s max=%s bins=%s" % (
            F(self.total()), 0 if ks else 1, ks[0] if ks else "-", ks[-1] if ks else "-",
            ",".join("%d:%s" % (k, F(self.m[k])) for k in ks))

def universe(rng, wide_ok):
    """Candidate indexes of a case."""
    mode = rng.choice(["cluster", "cluster", "pages", "edges", "wide" if wide_ok else "cluster", "two-clusters"])
    if mode == "wide":
        return [rng.choice([I32MAX, I32MIN, I32MAX - 1, I32MIN + 1, 0, -1, 31, 32, -32, -33]) if rng.random() < 0.3
                else rng.randint(I32MIN, I32MAX) for _ in range(rng.randint(3, 40))]
    c = rng.choice([0, 0, rng.randint(-2**20, 2**20), I32MAX - 400, I32MIN + 400, rng.randint(-5000, 5000) * 32])
    span = rng.choice([1, 3, 8, 33, 64, 130, 300, 700])
    if mode == "pages":
        base = (c // 32) * 32
        return [base + 32 * rng.randint(-span // 32 - 1, span // 32 + 1) + rng.choice([0, 0, 1, 31, 30, 16]) for _ in range(rng.randint(3, 40))]
    if mode == "edges":
        return [c - span, c + span, c, c - span + 1, c + span - 1] + [c + rng.randint(-span, span) for _ in range(rng.randint(0, 10))]
    if mode == "two-clusters":
        d = rng.choice([64, 200, 1500]) if not wide_ok else rng.choice([64, 2000, 10**6])
        return [c + rng.randint(-5, 5) for _ in range(8)] + [c + d + rng.randint(-5, 5) for _ in range(8)]
    return [c + rng.randint(-span, span) for _ in range(rng.randint(3, 60))]

def weight(rng):
    c = rng.random()
    if c < 0.45: return Fraction(1)
    if c < 0.7: return Fraction(rng.randint(1, 1 << rng.choice([2, 6, 12, 20])))
    return Fraction(rng.randint(1, 1 << rng.choice([3, 10, 20])), 1 << rng.choice([1, 2, 3, 10]))

def wh(w): return f2h(float(w))

def gen_program(rng, name, kinds_pool, nregs=None, nsteps=None, ops=None, with_codec=True):
    """Returns (Case, expected) where expected[k] is the shadow's answer for instruction k (or None)."""
    nregs = nregs or rng.randint(2, 4)
    kinds = [rng.choice(kinds_pool) for _ in range(nregs)]
    # dense arrays and the paginated store's page table are contiguous: keep their index spans moderate
    wide_ok = all(k == "sparse" or ":" in k for k in kinds)
    uni = universe(rng, wide_ok)
    if any(k == "pag" for k in kinds) and all(k in ("sparse", "pag") or ":" in k for k in kinds) and rng.random() < 0.3:
        c = rng.choice([0, I32MAX - 70000, I32MIN + 70000, rng.randint(-2**28, 2**28)])
        uni = [min(max(c + rng.randint(-60000, 60000), I32MIN), I32MAX) for _ in range(rng.randint(3, 30))]
    uni = [min(max(i, I32MIN), I32MAX) for i in uni]
    regs = ["s%d" % i for i in range(nregs)]
    sh = {}
    lines, exp = [], []
    def emit(l, e=None): lines.append(l); exp.append(e)
    for r, k in zip(regs, kinds): emit("new %s %s" % (r, k), "ok"); sh[r] = Shadow(k)
    nsteps = nsteps or rng.randint(15, 90)
    ops = ops or ["add"] * 6 + ["addw"] * 5 + ["addbin", "merge", "merge", "copy", "clear", "reweight", "obs", "obs", "rank", "rank", "burst", "codec", "foreachstop", "binsch", "badrew", "proto", "protomk"]
    nrew = 0; nb = 0
    def obs(r): emit("obs " + r, sh[r].obsline())
    def ranks(r):
        s = sh[r]
        if not s.m:          # KeyAtRank of an empty store: no documented answer, the model's is compared
            emit("rank %s %s" % (r, wh(rng.choice([Fraction(0), Fraction(1), Fraction(-1), Fraction(7, 2)]))), None); return
        acc = Fraction(0); cands = [Fraction(-1), Fraction(0)]
        for k in sorted(s.m):
            acc += s.m[k]; cands += [acc, acc - Fraction(1, 1024), acc + Fraction(1, 1024)]
        cands += [acc + 5]
        for rk in rng.sample(cands, min(len(cands), rng.randint(1, 6))):
            if float(rk) != rk: continue
            emit("rank %s %s" % (r, wh(rk)), str(s.rank(max(rk, Fraction(0)))))
    for _ in range(nsteps):
        op = rng.choice(ops); r = rng.choice(regs)
        if op == "add":
            i = rng.choice(uni); emit("add %s %d" % (r, i), "ok"); sh[r].add(i, Fraction(1))
        elif op == "addw":
            i = rng.choice(uni); w = weight(rng) if rng.random() < 0.9 else Fraction(0)          # a zero weight is accepted and changes nothing (not even the index range)
            emit("addw %s %d %s" % (r, i, wh(w)), "ok"); sh[r].add(i, w)
            if w == 0: obs(r)
        elif op == "addbin":
            i = rng.choice(uni); w = rng.choice([Fraction(0), weight(rng), weight(rng)])
            emit("addbin %s %d %s" % (r, i, wh(w)), "ok"); sh[r].add(i, w)
        elif op == "burst":         # many unit adds: fills the paginated buffer, triggers compaction, grows arrays
            base = rng.choice(uni)
            for _ in range(rng.choice([10, 40, 70, 140])):
                i = base + rng.randint(0, rng.choice([3, 40])); i = min(max(i, I32MIN), I32MAX)
                emit("add %s %d" % (r, i), "ok"); sh[r].add(i, Fraction(1))
        elif op == "merge":
            r2 = rng.choice([x for x in regs if x != r])
            emit("merge %s %s" % (r, r2), "ok"); sh[r].merge(sh[r2]); obs(r); obs(r2)
        elif op == "copy":
            r2 = rng.choice([x for x in regs if x != r])
            emit("copy %s %s" % (r2, r), "ok"); sh[r2] = sh[r].copy()
            # independence: mutate one side right away, observe both
            i = rng.choice(uni); t = rng.choice([r, r2]); emit("add %s %d" % (t, i), "ok"); sh[t].add(i, Fraction(1)); obs(r); obs(r2)
        elif op == "clear":
            emit("clear " + r, "ok"); sh[r].clear(); obs(r)
        elif op == "reweight":
            if nrew >= 2: continue
            w = rng.choice([Fraction(1), Fraction(3), Fraction(1, 2), Fraction(5, 4), Fraction(3, 8), Fraction(1, 4), Fraction(63, 8), Fraction(2)])
            nrew += 1; emit("reweight %s %s" % (r, wh(w)), "ok"); sh[r].reweight(w); obs(r)
        elif op == "badrew":          # a non-positive factor is refused and changes nothing
            emit("reweight %s %s" % (r, f2h(rng.choice([0.0, -0.0, -1.0, -0.5, float("-inf"), -5e-324]))), "err bad-factor"); obs(r)
        elif op == "obs": obs(r)
        elif op == "rank": ranks(r)
        elif op == "foreachstop":
            n = rng.randint(1, 4); emit("foreachstop %s %d" % (r, n), "calls=%d" % min(n, len(sh[r].m)))
        elif op == "binsch":
            emit("binsch " + r, "bins=" + sh[r].obsline().split("bins=")[1])
        elif op == "proto" and with_codec:          # through the protobuf message: the source's ToProto, merged by the target's own MergeWithProto
            r2 = rng.choice([x for x in regs if x != r]); nb += 1
            emit("toproto q%d %s" % (nb, r), "ok"); obs(r)
            emit("fromproto %s q%d" % (r2, nb), "ok"); sh[r2].merge(sh[r]); obs(r2)
        elif op == "protomk" and with_codec:          # a hand-built message: sparse and contiguous forms together, zero counts at both ends of the contiguous window
            nb += 1; base = rng.choice(uni); bins = {}
            for _ in range(rng.randint(0, 4)): bins[min(max(base + rng.randint(-12, 12), I32MIN), I32MAX)] = weight(rng)
            off = min(max(base + rng.randint(-12, 12), I32MIN), I32MAX - 20)
            contig = [Fraction(0)] * rng.randint(0, 3) + [rng.choice([Fraction(0), weight(rng)]) for _ in range(rng.randint(0, 8))] + [Fraction(0)] * rng.randint(0, 3)
            emit("protomk q%d bins=%s contig=%d:%s" % (nb, ",".join("%d:%s" % (i, wh(w)) for i, w in bins.items()), off, ",".join(wh(w) for w in contig)), "ok")
            emit("fromproto %s q%d" % (r, nb), "ok")
            for i, w in sorted(bins.items()): sh[r].add(i, w)
            for j, w in enumerate(contig): sh[r].add(off + j, w)
            obs(r)
        elif op == "codec" and with_codec:
            r2 = rng.choice([x for x in regs if x != r]); nb += 1; b = "b%d" % nb
            pre = "".join("%02x" % rng.getrandbits(8) for _ in range(rng.choice([0, 0, 3])))
            emit("enc %s %s %s%s" % (b, r, rng.choice(["pos", "neg"]), (" " + pre) if pre else ""), "ok")
            obs(r)                                    # encoding is a read
            if pre: emit("bdrop %s %s %d" % (b, b, len(pre) // 2), "ok")
            emit("dec %s %s" % (r2, b), "ok"); sh[r2].merge(sh[r]); obs(r2)
    for r in regs: obs(r); ranks(r)
    return Case(name, lines, {"kinds": kinds}), exp
