"""C20: the reference dataset helper returns exact order statistics."""
import math, random
from fractions import Fraction
from . import core, sketchcheck
from .sketchgen import Builder, rand_values
from .core import f2h, h2f, parse_F, nextafter

NAN = float("nan")
def F(x):
    x = Fraction(x)
    if x == 0: return "0"
    n, d = x.numerator, x.denominator; k = d.bit_length() - 1; t = (n & -n).bit_length() - 1
    return "%d@%d" % (n >> t, t - k)

def build(rng, name):
    b = Builder(name); ds = {"d": [], "e": []}
    b.emit("dnew d", "ok"); b.emit("dnew e", "ok")
    def query(d):
        xs = sorted(ds[d]); n = len(xs)
        kind = rng.choice(["dlo", "dhi", "dq", "dlo", "dhi", "dmin", "dmax", "dcount", "dsum"])
        if kind in ("dlo", "dhi", "dq"):
            c = rng.random()
            if n > 1 and c < 0.5:
                k = rng.randrange(n); q = k / (n - 1); q = rng.choice([q, q, nextafter(q, True) if q < 1 else q, nextafter(q, False) if q > 0 else q])
            elif c < 0.7: q = rng.choice([0.0, 1.0, -0.0, 0.5])
            elif c < 0.8: q = rng.choice([-0.1, 1.5, nextafter(1.0, True), nextafter(0.0, False), float("inf"), -float("inf"), NAN])
            else: q = rng.random()
            if n == 0 or not (0 <= q <= 1): exp = "nan"
            else:
                rank = q * (float(n) - 1)
                exp = F(xs[int(math.floor(rank)) if kind != "dhi" else int(math.ceil(rank))])
                # and in any case one of the two order statistics adjacent to the exact rank
                r = Fraction(q) * (n - 1); lo, hi = math.floor(r), math.ceil(r)
                assert Fraction(exp_val(exp)) in (xs_f(xs, lo), xs_f(xs, hi))
            b.emit("%s %s %s" % (kind, d, f2h(q)), exp)
        elif kind == "dmin":
            if n: b.emit("dmin " + d, F(xs[0]))
        elif kind == "dmax":
            if n: b.emit("dmax " + d, F(xs[-1]))
        elif kind == "dcount": b.emit("dcount " + d, F(n))
        else:
            tot = sum(Fraction(x) for x in ds[d]); mag = sum(abs(Fraction(x)) for x in ds[d])
            def mk(tot, mag, n):
                return lambda a, env: None if abs(Fraction(h2f(a[1:])) - tot) <= Fraction(9, 2 ** 53) * mag + Fraction(4 * n + 4, 2 ** 1074) else "sum %s differs from the exact sum %s beyond rounding" % (a, float(tot))
            b.emit("dsum " + d, mk(tot, mag, len(ds[d])))
    if rng.random() < 0.25:          # magnitudes more than 2^53 apart: the small addends do not move the running sum, only the compensation keeps them
        big = rng.choice([1e17, -1e17, 2.0 ** 60, 3e18]); small = rng.choice([1.0, 0.5, 3.0])
        d0 = rng.choice(["d", "e"]); seq = [big] + [small] * rng.choice([64, 300, 1024]) + ([-big] if rng.random() < 0.5 else [])
        for v in seq: b.emit("dadd %s %s" % (d0, f2h(v)), "ok"); ds[d0].append(v)
        tot = sum(Fraction(x) for x in ds[d0]); mag = sum(abs(Fraction(x)) for x in ds[d0]); n0 = len(ds[d0])
        b.emit("dsum " + d0, lambda a, env, tot=tot, mag=mag, n0=n0: None if abs(Fraction(h2f(a[1:])) - tot) <= Fraction(9, 2 ** 53) * mag + Fraction(4 * n0 + 4, 2 ** 1074) else "sum %s differs from the exact sum %s beyond rounding" % (a, float(tot)))
    if rng.random() < 0.06:          # a total beyond the float range (all the large values of one sign): the sum is that infinity, not NaN, whatever is added afterwards
        sg = rng.choice((1, -1)); d0 = rng.choice(["d", "e"]); ds[d0] = []; b.emit("dnew " + d0, "ok")
        seq = [sg * rng.choice([1.5e308, 1.7976931348623157e308, 9e307])] * rng.choice([3, 4, 5]) + [sg * 1.5e308] + [rng.choice([1.0, -1.0, 3.5, 1e300])] * rng.randint(0, 3); rng.shuffle(seq)
        for v in seq: b.emit("dadd %s %s" % (d0, f2h(v)), "ok"); ds[d0].append(v)
        b.emit("dsum " + d0, "x7ff0000000000000" if sg > 0 else "xfff0000000000000")
        b.emit("dadd %s %s" % (d0, f2h(2.0)), "ok"); ds[d0].append(2.0); b.emit("dsum " + d0, "x7ff0000000000000" if sg > 0 else "xfff0000000000000")
        ds[d0] = []; b.emit("dnew " + d0, "ok")
    for _ in range(rng.randint(3, 40)):
        op = rng.choice(["add"] * 6 + ["adds", "query", "query", "query", "merge", "selfmerge"])
        d = rng.choice(["d", "d", "e"])
        if op == "add":
            v = rng.choice(rand_values(rng, 1, -3, 3) + ([rng.choice(ds[d])] if ds[d] else []))
            if v == 0: v = 0.0
            b.emit("dadd %s %s" % (d, f2h(v)), "ok"); ds[d].append(v)
        elif op == "adds":
            for v in rand_values(rng, rng.choice([5, 30]), -3, 3, zeros=0.02):
                if v == 0: v = 0.0
                b.emit("dadd %s %s" % (d, f2h(v)), "ok"); ds[d].append(v)
        elif op == "adds" and False: pass
        elif op == "query": query(d)
        elif op == "merge":
            o = "e" if d == "d" else "d"; b.emit("dmerge %s %s" % (d, o), "ok"); ds[d] = ds[d] + ds[o]; query(d); query(o)
        elif op == "selfmerge" and len(ds[d]) < 200:
            b.emit("dmerge %s %s" % (d, d), "ok"); ds[d] = ds[d] + ds[d]; query(d)
    query("d"); query("e"); query("d")
    return b
def exp_val(s): return parse_F(s)
def xs_f(xs, i): return Fraction(xs[i])

def run(tier, seed):
    rng = random.Random(seed)
    core.build_vrun()
    builders = [build(rng, "d%d" % i) for i in range(600 if tier == "quick" else 30000)]
    return sketchcheck.run_sketch_property(
        "C20", tier, seed, builders,
        "random histories over two datasets: additions (duplicates, negatives, unsorted arrival), bursts, merges in both directions and self-merges, queries interleaved everywhere; "
        "q in {k/(n-1) and its float neighbours, 0, 1, -0, 1/2, random, just outside [0,1], +-Inf, NaN}; oracle: exact order statistics of the python-sorted values at floor/ceil of the "
        "float rank (asserted to be adjacent to the exact rational rank), exact min/max/count, sum within 9*2^-53*sum|x| (the constant of the proved bound, Props/Kahan.v). distinct_nontrivial = distinct histories with a query after a later addition",
        nontrivial=lambda b, impl: any(l.startswith(("dlo", "dhi", "dq")) for l in b.lines))
