"""The wire format written from the documentation in ddsketch/encoding/flag.go, in python: primitive
codecs, a grammar-level stream builder with its meaning, and a block-boundary parser. A third,
independent implementation used to generate well-formed streams and to locate block boundaries."""
import struct
from fractions import Fraction
from .storegen import Shadow

M64 = (1 << 64) - 1
def enc_uv(v):
    out = bytearray()
    for _ in range(8):
        if v < 0x80: break
        out.append((v & 0x7f) | 0x80); v >>= 7
    out.append(v & 0xff); return bytes(out)
def enc_sv(v): return enc_uv(((v >> 63) ^ (v << 1)) & M64)
def f2b(x): return struct.unpack("<Q", struct.pack("<d", x))[0]
def b2f(b): return struct.unpack("<d", struct.pack("<Q", b))[0]
def rotl(x, k): return ((x << k) | (x >> (64 - k))) & M64
def enc_vf(v):
    x = rotl((f2b(v + 1.0) - f2b(1.0)) & M64, 6); out = bytearray()
    for _ in range(8):
        n = x >> 57; x = (x << 7) & M64
        if x == 0: out.append(n); return bytes(out)
        out.append(n | 0x80)
    out.append(x >> 56); return bytes(out)
def enc_f64(v): return struct.pack("<d", v)
def dec_uv(b, p):
    x = 0; s = 0; i = 0
    while True:
        if p + i >= len(b): raise EOFError
        n = b[p + i]
        if n < 0x80 or i == 8: return (x | (n << s)) & M64, p + i + 1
        x |= (n & 0x7f) << s; s += 7; i += 1
def dec_sv(b, p):
    v, p = dec_uv(b, p); r = (v >> 1) ^ (-(v & 1) & M64)
    return (r - (1 << 64) if r >= (1 << 63) else r), p
def dec_vf(b, p):
    x = 0; i = 0; s = 57
    while True:
        if p + i >= len(b): raise EOFError
        n = b[p + i]
        if i == 8: x |= n; break
        if n < 0x80: x |= n << s; break
        x |= (n & 0x7f) << s; i += 1; s -= 7
    return b2f((rotl(x, 58) + f2b(1.0)) & M64) - 1.0, p + i + 1

TY_FEATURES, TY_MAPPING, TY_POS, TY_NEG = 0, 2, 1, 3
def flag(ty, sub): return bytes([ty | (sub << 2)])
KIND_SUB = {"log": 0, "lin": 1, "cub": 3}

def wrap64(v): return ((v + (1 << 63)) % (1 << 64)) - (1 << 63)
def wire_w(x): return Fraction((x + 1.0) - 1.0)

class Stream:
    """A well-formed stream: bytes plus its meaning (two exact shadows, zero weight, block boundaries)."""
    def __init__(self):
        self.b = bytearray(); self.pos = Shadow("sparse"); self.neg = Shadow("sparse"); self.zero = Fraction(0)
        self.bounds = [0]; self.has_map = False; self.desc = []
    def _end(self, d): self.bounds.append(len(self.b)); self.desc.append(d)
    def zero_count(self, w): self.b += flag(TY_FEATURES, 1) + enc_vf(w); self.zero += wire_w(w); self._end("zero")
    def mapping(self, kind, gamma, off): self.b += flag(TY_MAPPING, KIND_SUB[kind]) + enc_f64(gamma) + enc_f64(off); self.has_map = True; self._end("mapping")
    def stat(self, which, x):
        sub = {"count": 0x28, "sum": 0x21, "min": 0x22, "max": 0x23}[which]
        self.b += flag(TY_FEATURES, sub) + (enc_vf(x) if which == "count" else enc_f64(x)); self._end(which)
    def _side(self, neg): return self.neg if neg else self.pos
    def idc(self, neg, items):          # (delta, count)
        self.b += flag(TY_NEG if neg else TY_POS, 1) + enc_uv(len(items)); i = 0
        for d, c in items:
            self.b += enc_sv(d) + enc_vf(c); i = wrap64(i + d); self._side(neg).add(i, wire_w(c))
        self._end("idc")
    def ids(self, neg, deltas):
        self.b += flag(TY_NEG if neg else TY_POS, 2) + enc_uv(len(deltas)); i = 0
        for d in deltas:
            self.b += enc_sv(d); i = wrap64(i + d); self._side(neg).add(i, Fraction(1))
        self._end("id")
    def cc(self, neg, first, stride, counts):
        self.b += flag(TY_NEG if neg else TY_POS, 3) + enc_uv(len(counts)) + enc_sv(first) + enc_sv(stride); i = first
        for c in counts:
            self.b += enc_vf(c); self._side(neg).add(i, wire_w(c)); i = wrap64(i + stride)
        self._end("cc")

def block_bounds(b):
    """Boundaries of the blocks of an encoding, by the documented layout (raises on malformed input)."""
    p = 0; out = [0]
    while p < len(b):
        f = b[p]; ty = f & 3; sub = f >> 2; p += 1
        if ty in (TY_POS, TY_NEG):
            n, p = dec_uv(b, p)
            if sub == 1:
                for _ in range(n): _, p = dec_sv(b, p); _, p = dec_vf(b, p)
            elif sub == 2:
                for _ in range(n): _, p = dec_sv(b, p)
            elif sub == 3:
                _, p = dec_sv(b, p); _, p = dec_sv(b, p)
                for _ in range(n): _, p = dec_vf(b, p)
            else: raise ValueError("unknown bin layout")
        elif ty == TY_MAPPING: p += 16
        elif sub in (1, 0x28): _, p = dec_vf(b, p)
        elif sub in (0x21, 0x22, 0x23): p += 8
        else: raise ValueError("unknown flag")
        if p > len(b): raise EOFError
        out.append(p)
    return out

def defined_flag(f):
    ty, sub = f & 3, f >> 2
    if ty in (TY_POS, TY_NEG): return sub in (1, 2, 3)
    if ty == TY_MAPPING: return sub in (0, 1, 3)
    return sub in (1, 0x28, 0x21, 0x22, 0x23)
