"""Common machinery of /verif/check: builds, proof status, running scripts on the implementation
(vrun) and on the extracted Coq model (vmodel), comparison of projected observables, shrinking,
known findings, evidence files. Python standard library only."""
import fcntl, hashlib, json, os, random, re, struct, subprocess, sys, time
from fractions import Fraction

ROOT = os.path.dirname(os.path.dirname(os.path.abspath(__file__)))
# The registered checks always build from /repo. VERIF_REPO is a tooling-only override (tools/mutant.py: a seeded change applied
# in a scratch worktree): everything then lives in a separate work directory and the evidence of /repo is not touched.
REPO = os.environ.get("VERIF_REPO", "/repo")
ALT = REPO != "/repo"
WORK = os.path.join(ROOT, os.environ.get("VERIF_WORK", ".work-alt") if ALT else ".work")
EVID = os.path.join(WORK, "evidence") if ALT else os.path.join(ROOT, "evidence")
COQ = os.path.join(ROOT, "coq")
VRUN = os.path.join(WORK, "vrun")
VMODEL = os.path.join(ROOT, "model", "vmodel")
GOENV = dict(os.environ, GOFLAGS="-mod=mod", GOPROXY="off", GOSUMDB="off", GOTOOLCHAIN="local")

IDENTITY_ERR = {"eof", "neg-count", "too-high", "too-low", "nan", "overflow32"}
ALLOWED_AXIOMS = {
    "ClassicalDedekindReals.sig_forall_dec", "ClassicalDedekindReals.sig_not_dec",
    "FunctionalExtensionality.functional_extensionality_dep", "Classical_Prop.classic",
}

def sh(cmd, cwd=None, env=None, timeout=3600, inp=None):
    p = subprocess.run(cmd, cwd=cwd, env=env, shell=isinstance(cmd, str), capture_output=True, text=True,
                       timeout=timeout, input=inp)
    return p.returncode, p.stdout, p.stderr

class Lock:
    def __init__(self, name): self.path = os.path.join(WORK, name + ".lock")
    def __enter__(self):
        os.makedirs(WORK, exist_ok=True)
        self.f = open(self.path, "w"); fcntl.flock(self.f, fcntl.LOCK_EX); return self
    def __exit__(self, *a): fcntl.flock(self.f, fcntl.LOCK_UN); self.f.close()

# ---------------------------------------------------------------- builds
def build_vrun():
    """Rebuild the Go interpreter from /repo's current working tree (hooks on)."""
    with Lock("gobuild"):
        hdir = os.path.join(ROOT, "harness")
        if ALT:
            hdir = os.path.join(WORK, "harness"); sh("rm -rf %s && mkdir -p %s && cp %s/*.go %s/go.mod %s/" % (hdir, hdir, os.path.join(ROOT, "harness"), os.path.join(ROOT, "harness"), hdir))
            gm = open(os.path.join(hdir, "go.mod")).read().replace("=> /repo", "=> " + REPO); open(os.path.join(hdir, "go.mod"), "w").write(gm)
        if not os.path.exists(os.path.join(hdir, "go.sum")) or \
           open(os.path.join(hdir, "go.sum")).read() != open(os.path.join(REPO, "go.sum")).read():
            open(os.path.join(hdir, "go.sum"), "w").write(open(os.path.join(REPO, "go.sum")).read())
        rc, out, err = sh(["go", "build", "-tags", "verif", "-o", VRUN, "."], cwd=hdir, env=GOENV, timeout=900)
        return rc == 0, (out + err)

def build_coq():
    """Full .vo build of the development (a no-op when up to date), then extraction and the OCaml driver."""
    with Lock("coqbuild"):
        if not os.path.exists(os.path.join(COQ, "Makefile")):
            rc, out, err = sh("coq_makefile -f _CoqProject -o Makefile", cwd=COQ)
            if rc != 0: return False, out + err
        rc, out, err = sh("timeout 3000 make -j16 2>&1 | grep -v '^COQDEP\\|^COQC\\|^WARNING'", cwd=COQ, timeout=3100)
        rc2, _, _ = sh("make -q", cwd=COQ)
        log = out + err
        if "Error" in log or rc2 not in (0,):
            # make -q returns 1 when something is out of date (i.e. the build failed)
            if "Error" in log: return False, log
        mdir = os.path.join(ROOT, "model")
        newest_vo = max(os.path.getmtime(os.path.join(dp, f)) for dp, _, fs in os.walk(COQ) for f in fs if f.endswith(".vo"))
        drv = os.path.join(mdir, "driver.ml")
        if (not os.path.exists(VMODEL)) or os.path.getmtime(VMODEL) < max(newest_vo, os.path.getmtime(drv)):
            rc, out, err = sh("timeout 900 coqc -Q ../coq SK ../coq/Extract/Extract.v", cwd=mdir)
            if rc != 0: return False, "extraction failed\n" + out + err
            rc, out, err = sh("ocamlfind ocamlopt -O3 -package zarith,unix -linkpkg -w -a model.mli model.ml driver.ml -o vmodel.new && mv vmodel.new vmodel", cwd=mdir)
            if rc != 0: return False, "ocaml build failed\n" + out + err
        return True, log

FORBIDDEN = re.compile(r"\b(Admitted|admit|Axiom|Axioms|Parameter|Parameters|Conjecture|Admit Obligations|Unset Guard Checking|bypass_check|native_compute|Unset Positivity Checking|Unset Universe Checking)\b")
def grep_gate():
    """No Admitted / axiom declarations / disabled checks anywhere in the development."""
    bad = []
    for dp, _, fs in os.walk(COQ):
        for f in fs:
            if not f.endswith(".v"): continue
            txt = open(os.path.join(dp, f)).read()
            txt = re.sub(r"\(\*.*?\*\)", "", txt, flags=re.S)
            for m in FORBIDDEN.finditer(txt):
                bad.append("%s: %s" % (os.path.relpath(os.path.join(dp, f), COQ), m.group(0)))
    for m in re.finditer(r"^\s*(Variable|Hypothesis|Variables|Hypotheses)\b", "", flags=re.M): pass
    return bad


# which theorem files (and which theorems in them) are the proof obligations of each property
PROPS = {
    "C01": [("Rank.v", r"^C01_"), ("Instance.v", r"^I_C01_|^I_a_quantile|^I_a_rank"), ("Refine.v", r"Rf_plain_quantile|Rf_executable_quantile|Rf_plain_add"), ("Rounding.v", r"R_rnd64_rndQ|R_rndQ_mono|R_rndQ_int|R_q2f_correct"), ("Bridge.v", r"Bridge_C01_|Bridge_snapped|Bridge_index_|Bridge_gmap|Bridge_q2f"), ("GlueAcc.v", r"value_accuracy"), ("GlueCtor.v", r"end_to_end|accuracy|ideal"), ("GlueLog.v", r"end_to_end|accuracy|ideal"), ("GlueCub.v", r"end_to_end|accuracy|ideal"), ("GlueHi.v", r"end_to_end|accuracy|full|bridge")],
    "C02": [("Sketch.v", r"^C02_"), ("LayerA.v", r"^A3_"), ("Refine.v", r"Rf_st_merge|Rf_sk_merge|Rf_sketch_history"), ("Misc.v", r"^GRID_"), ("Bridge.v", r"Bridge_C02_|Bridge_observers|Bridge_a_run")],
    "C03": [("C03.v", r"."), ("Glue.v", r"."), ("GlueAcc.v", r"."), ("GlueCtor.v", r"."), ("GlueLog.v", r"."), ("GlueCub.v", r"."), ("GlueHi.v", r"."), ("Bridge.v", r"Bridge_index_|Bridge_gmap|Bridge_gm_checkb")],
    "C04": [("C04dense.v", r"."), ("C04pag.v", r"."), ("C04pagloops.v", r"."), ("C04sparse.v", r"."), ("LayerA.v", r"^A[1-7]_"), ("Refine.v", r"^Rf_st_|^Rf_StInv"), ("Misc.v", r"^GRID_")],
    "C05": [("C05.v", r"."), ("LayerA.v", r"^A8_"), ("Sketch2.v", r"^C05_")],
    "C06": [("Wire.v", r"^C06_"), ("WireRaw.v", r"concat"), ("WireAny.v", r"^C06_"), ("WireAny2.v", r"^C06_x_"), ("C18grid.v", r"gridq")],
    "C07": [("Wire.v", r"^C07_"), ("WireRaw.v", r"."), ("WireAny.v", r"^C07_"), ("WireAny2.v", r"^C07_x_")],
    "C08": [("Wire.v", r"^C08_"), ("WireAny.v", r"^C08_"), ("WireAny2.v", r"^C08_x_"), ("C18.v", r"prefix_eof|reads_at_most_9"), ("C19.v", r"truncated|short_input|unknown_mapping")],
    "C09": [("Proto.v", r"."), ("Misc.v", r"^C09_b_"), ("ProtoEdit.v", r"^C09_edit_")],
    "C10": [("C10.v", r"."), ("Kahan.v", r"."), ("Kahan2.v", r"."), ("Misc.v", r"^C10_f_"), ("SketchSum.v", r"^C10_from_data")],
    "C11": [("Rank.v", r"^C11_"), ("Instance.v", r"^I_C11_"), ("Sketch2.v", r"^C11_"), ("Sketch3.v", r"^C11_|^I_C11_")],
    "C12": [("Sketch.v", r"^C12_"), ("Instance.v", r"^I_C12_"), ("Refine.v", r"Rf_plain_count|Rf_plain_is_empty|Rf_plain_max|Rf_plain_min|Rf_sk_foreach"), ("Sketch2.v", r"^C12_|^I_C12_"), ("Sketch3.v", r"^C12_exec"), ("SketchSum.v", r"^C12_f_"), ("SketchBatch.v", r"^C12_batch"), ("SketchBatchExec.v", r"^C12_exec_"), ("SketchBatchExec64.v", r"^C12_exec64_"), ("SketchBatchHist.v", r"^C12_hist_")],
    "C13": [("Sketch.v", r"^C13_"), ("Refine.v", r"too_high|too_low|no_panic|Rf_sk_add"), ("Bridge.v", r"Bridge_with_")],
    "C14": [("C04pag.v", r"reads_pure|foreach|compact|key_at_rank"), ("C04pagloops.v", r"."), ("C04dense.v", r"foreach|key_at_rank|total|min_index|max_index"),
            ("C20.v", r"queries_transparent|inv_lower|inv_upper"), ("Refine.v", r"reads_pure|quantile_pure|copy")],
    "C15": [("C04dense.v", r"inv_clear|clear_like_new"), ("C04pag.v", r"clear"), ("C05.v", r"clear"), ("C04sparse.v", r"clear"), ("Refine.v", r"clear"), ("C15enc.v", r"^C15_")],
    "C16": [("Sketch.v", r"^C16_"), ("C04dense.v", r"reweight"), ("C04pag.v", r"reweight"), ("LayerA.v", r"^A5_|bscale"), ("C05.v", r"reweight"), ("Refine.v", r"reweight"), ("C10.v", r"^reweight_"), ("Misc.v", r"^C16_f_|^GRID_")],
    "C17": [("ChangeMapping.v", r"."), ("ChangeMappingF.v", r"."), ("ChangeMappingQ.v", r"."), ("ChangeMappingW.v", r"."), ("C10.v", r"^rescale_"), ("Misc.v", r"^C17_f_")],
    "C18": [("C18.v", r"."), ("C18grid.v", r".")],
    "C19": [("C19real.v", r"."), ("C19.v", r"."), ("Glue.v", r"build_float64|decompose|f_of_int"), ("Bridge.v", r"Bridge_with_.*rebuild|Bridge_with_gamma_fields|Bridge_with_accuracy_is")],
    "C20": [("C20.v", r"."), ("Instance.v", r"^I_C20_"), ("Sketch3.v", r"^C20_|^I_C20_"), ("C20sum.v", r"^C20_sum_")],
}

def closure_key(rel):
    """md5 over the sources of a .v file and of everything it (transitively) requires from this development."""
    seen, todo, h = set(), [rel], hashlib.md5()
    while todo:
        r = todo.pop()
        if r in seen: continue
        seen.add(r)
        path = os.path.join(COQ, r)
        if not os.path.exists(path): continue
        txt = open(path).read(); h.update(r.encode()); h.update(txt.encode())
        for m in re.finditer(r"(?:From\s+SK\s+)?Require\s+(?:Import\s+|Export\s+)?((?:[\w.]+\s+)*[\w.]+)\s*\.(?=\s|$)", txt):
            for mod in m.group(1).split():
                mod = mod[3:] if mod.startswith("SK.") else mod
                todo.append(mod.replace(".", "/") + ".v")
    return h.hexdigest()

def proof_status(pid, files=None):
    """Compile the theorem files of a property (their dependencies are already built) and read, for every theorem,
    what Print Assumptions printed. Returns (theorems: dict name -> list of axioms, problems: list)."""
    spec = files or PROPS.get(pid) or [(f, r".") for f in sorted(os.listdir(os.path.join(COQ, "Props"))) if f.startswith(pid) and f.endswith(".v")]
    spec = [(x, r".") if isinstance(x, str) else x for x in spec]
    theorems, problems = {}, []
    for f, pat in spec:
        if not os.path.exists(os.path.join(COQ, "Props", f)): continue
        src = open(os.path.join(COQ, "Props", f)).read()
        src = re.sub(r"\(\*.*?\*\)", "", src, flags=re.S)
        names = [n for n in re.findall(r"^\s*(?:Theorem)\s+([\w']+)", src, flags=re.M) if re.search(pat, n)]
        if not names: problems.append("the selection %r of Props/%s matches no theorem" % (pat, f))
        # the output of Print Assumptions is cached, keyed by the sources of the file's transitive imports
        cache = os.path.join(COQ, "Props", f[:-2] + ".out")
        key = closure_key(os.path.join("Props", f))
        def read_cache():
            cached = open(cache).read() if os.path.exists(cache) else ""
            return cached.split("\n", 1)[1] if cached.startswith("KEY " + key + "\n") and os.path.exists(os.path.join(COQ, "Props", f[:-2] + ".vo")) else None
        out = read_cache(); rc, err = 0, ""
        if out is None:
            # one compiler per file at a time: checks running side by side would otherwise write the same .vo/.out together
            import fcntl
            with open(os.path.join(COQ, "Props", "." + f[:-2] + ".lock"), "w") as lk:
                fcntl.flock(lk, fcntl.LOCK_EX)
                out = read_cache()
                if out is None:
                    rc, out, err = sh("timeout 1800 coqc -Q . SK Props/%s" % f, cwd=COQ)
                    if rc == 0:
                        with open(cache + ".tmp%d" % os.getpid(), "w") as fh: fh.write("KEY " + key + "\n" + out)
                        os.replace(cache + ".tmp%d" % os.getpid(), cache)
        if rc != 0:
            problems.append("Props/%s does not compile: %s" % (f, (out + err)[-600:]))
            for n in names: theorems[n] = None
            continue
        # output: one block per Print Assumptions, in order
        blocks = re.split(r"(?=Closed under the global context|Axioms:)", out)
        blocks = [b for b in blocks if b.startswith("Closed") or b.startswith("Axioms:")]
        printed = re.findall(r"Print Assumptions\s+([\w']+)", src)
        for n, b in zip(printed, blocks):
            if n not in names: continue
            if b.startswith("Closed"): theorems[n] = []
            else:
                ax = re.findall(r"^([A-Za-z_][\w.']*)\s*$|^([A-Za-z_][\w.']*)\s*:", b[len("Axioms:"):], flags=re.M)
                theorems[n] = sorted(set(a or c for a, c in ax))
        for n in names:
            if n not in theorems:
                problems.append("theorem %s of Props/%s has no Print Assumptions" % (n, f)); theorems[n] = None
    if not theorems: problems.append("no theorem file Props/%s*.v" % pid)
    for n, ax in theorems.items():
        if ax is None: continue
        extra = [a for a in ax if a not in ALLOWED_AXIOMS]
        if extra: problems.append("theorem %s depends on axioms outside the trusted base: %s" % (n, ", ".join(extra)))
    return theorems, problems

# ---------------------------------------------------------------- floats
def f2h(x): return "%016x" % struct.unpack("<Q", struct.pack("<d", x))[0]
def h2f(h): return struct.unpack("<d", struct.pack("<Q", int(h, 16)))[0]
def bits2h(b): return "%016x" % b
def parse_F(s):
    """Canonical dyadic output form -> Fraction (or the strings nan/+inf/-inf)."""
    if s in ("nan", "+inf", "-inf"): return s
    if s == "0": return Fraction(0)
    n, e = s.split("@"); n = int(n); e = int(e)
    return Fraction(n) * (Fraction(2) ** e)
def frac_of_float(x): return Fraction(x)
def nextafter(x, up):
    b = struct.unpack("<q", struct.pack("<d", x))[0]
    if x == 0: return 5e-324 if up else -5e-324
    if (x > 0) == up: b += 1
    else: b -= 1
    return struct.unpack("<d", struct.pack("<q", b))[0]

# ---------------------------------------------------------------- running
RUN_TIMEOUT = [900]

def run_scripts(name, lines):
    """Write the script, run vrun then vmodel; returns (impl result lines, impl side lines per result, model lines)."""
    os.makedirs(os.path.join(WORK, name.split("/")[0]), exist_ok=True)
    sp = os.path.join(WORK, name + ".script"); tp = os.path.join(WORK, name + ".tr"); mp = os.path.join(WORK, name + ".mo")
    with open(sp, "w") as f: f.write("\n".join(lines) + "\n")
    with open(tp, "w") as f:
        p = subprocess.run("ulimit -v 12000000; exec %s %s" % (VRUN, sp), shell=True, stdout=f, stderr=subprocess.PIPE, text=True, timeout=RUN_TIMEOUT[0])
    if p.returncode != 0:
        raise RuntimeError("vrun failed: " + p.stderr[-2000:])
    with open(mp, "w") as f:
        p = subprocess.run("ulimit -s unlimited 2>/dev/null; ulimit -v 12000000; exec %s %s %s" % (VMODEL, sp, tp), shell=True, stdout=f, stderr=subprocess.PIPE, text=True, timeout=2 * RUN_TIMEOUT[0])
    if p.returncode != 0:
        raise RuntimeError("vmodel failed: " + p.stderr[-2000:])
    impl, sides, cur = [], [], []
    for l in open(tp):
        l = l.rstrip("\n")
        if l.startswith("#"): cur.append(l)
        else: impl.append(l); sides.append(cur); cur = []
    model = [l.rstrip("\n") for l in open(mp)]
    return impl, sides, model

def norm_line(l):
    if l.startswith("err "):
        parts = l.split()
        cls = parts[1] if len(parts) > 1 else ""
        if cls in IDENTITY_ERR: return "err " + cls
        return "err"
    return l

def lines_agree(impl, model):
    if model == "unsupported": return True
    if impl == model: return True
    return norm_line(impl) == norm_line(model)

class Case:
    """One case = a list of instruction lines (without the `case` line) plus free-form meta."""
    def __init__(self, name, lines, meta=None):
        self.name, self.lines, self.meta = name, lines, meta or {}

def instr_lines(lines):
    return [l for l in lines if l.strip() and not l.startswith("#")]

def run_cases(pid, tag, cases):
    """Runs all cases (sharded over the cores when large). Returns list of (case, impl lines, sides, model lines)."""
    total = sum(len(instr_lines(c.lines)) + 1 for c in cases)
    nshards = 1 if total < 4000 else min(16, len(cases))
    if nshards > 1:
        from concurrent.futures import ThreadPoolExecutor
        shards = [[] for _ in range(nshards)]; sizes = [0] * nshards
        order = sorted(range(len(cases)), key=lambda i: -len(cases[i].lines))
        where = {}
        for i in order:
            j = sizes.index(min(sizes)); where[i] = (j, len(shards[j])); shards[j].append(cases[i]); sizes[j] += len(cases[i].lines) + 1
        with ThreadPoolExecutor(nshards) as ex:
            res = list(ex.map(lambda jt: _run_cases1(pid, "%s-%d" % (tag, jt[0]), jt[1]), enumerate(shards)))
        return [res[where[i][0]][where[i][1]] for i in range(len(cases))]
    return _run_cases1(pid, tag, cases)

def _run_cases1(pid, tag, cases):
    script = []
    for c in cases:
        script.append("case " + c.name); script.extend(instr_lines(c.lines))
    try:
        try:
            impl, sides, model = run_scripts("%s/%s" % (pid, tag), script)
        except subprocess.TimeoutExpired as te:
            raise RuntimeError(("vrun failed: timeout" if VRUN in str(te.cmd) and VMODEL not in str(te.cmd) else "vmodel failed: timeout"))
    except RuntimeError as e:
        if "vmodel failed" in str(e):
            # the model could not follow (resource blow-up on states only a misbehaving implementation reaches): keep the implementation's
            # answers, isolate the cases one by one, mark the model's lines of the offending cases "unsupported"
            if len(cases) == 1:
                sp = os.path.join(WORK, "%s/%s" % (pid, tag) + ".tr"); impl, sides, cur = [], [], []
                for l in open(sp):
                    l = l.rstrip("\n")
                    if l.startswith("#"): cur.append(l)
                    else: impl.append(l); sides.append(cur); cur = []
                n = len(instr_lines(cases[0].lines))
                return [(cases[0], impl[1:n + 1], sides[1:n + 1], ["unsupported"] * n)]
            old = RUN_TIMEOUT[0]; RUN_TIMEOUT[0] = 60; out = []
            try:
                for i, c in enumerate(cases): out.extend(_run_cases1(pid, "%s-one" % tag, [c]))
            finally: RUN_TIMEOUT[0] = old
            return out
        if "vrun failed" not in str(e) or len(cases) == 1:
            if "vrun failed" in str(e) and len(cases) == 1:
                # the implementation died with a fatal runtime error (e.g. out of memory): every answer of the case is "panic"
                n = len(instr_lines(cases[0].lines))
                return [(cases[0], ["panic"] * n, [[] for _ in range(n)], ["unsupported"] * n)]
            raise
        out = []
        for i, c in enumerate(cases): out.extend(_run_cases1(pid, "%s-one" % tag, [c]))
        return out
    if len(impl) != len(model):
        raise RuntimeError("transcripts differ in length: impl %d model %d" % (len(impl), len(model)))
    out, pos = [], 0
    for c in cases:
        n = len(instr_lines(c.lines)) + 1
        out.append((c, impl[pos + 1:pos + n], sides[pos + 1:pos + n], model[pos + 1:pos + n])); pos += n
    return out

def first_mismatch(case, impl, model, ignore=()):
    ins = instr_lines(case.lines)
    for k, (a, b) in enumerate(zip(impl, model)):
        op = ins[k].split()[0]
        if op in ignore: continue
        if not lines_agree(a, b): return k
    return None

def ddmin(lines, still_fails, budget=80):
    """Delta debugging on instruction lines; still_fails(lines) -> bool."""
    n, cur, spent = 2, list(lines), 0
    while len(cur) >= 2 and spent < budget:
        chunk = max(1, len(cur) // n); reduced = False
        for i in range(0, len(cur), chunk):
            cand = cur[:i] + cur[i + chunk:]
            if not cand: continue
            spent += 1
            try: ok = still_fails(cand)
            except Exception: ok = False
            if ok: cur = cand; n = max(n - 1, 2); reduced = True; break
            if spent >= budget: break
        if not reduced:
            if chunk == 1: break
            n = min(len(cur), n * 2)
    return cur

# ---------------------------------------------------------------- findings, evidence, verdict
def load_known_findings():
    path = os.path.join(ROOT, "known_findings.txt"); out = []
    if os.path.exists(path):
        for l in open(path):
            l = l.strip()
            if l.startswith("finding:"):
                m = re.match(r"finding:\s+property=(\w+)\s+key=(\S+)\s+(.*)", l)
                if m: out.append({"property": m.group(1), "key": m.group(2), "text": m.group(3)})
    return out

class Report:
    def __init__(self, pid, tier, seed):
        self.pid, self.tier, self.seed = pid, tier, seed
        self.t0 = time.time(); self.violations = []; self.known = []; self.coverage = {}
        self.assumptions = []; self.notes = []
        os.makedirs(os.path.join(WORK, pid), exist_ok=True); os.makedirs(EVID, exist_ok=True)
        for f in os.listdir(os.path.join(WORK, pid)):
            if f.endswith(".replay.json"): os.remove(os.path.join(WORK, pid, f))
    def violation(self, replay_name, content, found_input=True, key=None):
        """content: dict written as the replay file. key: signature matched against known findings."""
        for kf in load_known_findings():
            if kf["property"] == self.pid and key is not None and kf["key"] == key:
                if kf["text"] not in self.known: self.known.append(kf["text"])
                return
        path = os.path.join(WORK, self.pid, replay_name + ".replay.json")
        content = dict(content, property=self.pid, failing_input_found=found_input)
        json.dump(content, open(path, "w"), indent=1)
        self.violations.append((path, found_input))
    def finish(self, level="proof"):
        for t in self.known: print("KNOWN-FINDING: property=%s %s" % (self.pid, t))
        ev = {"property_id": self.pid, "tier": self.tier, "seed": self.seed, "level": level,
              "coverage": self.coverage, "assumptions": self.assumptions, "wall_s": round(time.time() - self.t0, 2),
              "violations": len(self.violations)}
        json.dump(ev, open(os.path.join(EVID, self.pid + ".json"), "w"), indent=1)
        seen = set()
        for path, found in self.violations:
            if path in seen: continue
            seen.add(path)
            print("VIOLATION property=%s replay=%s%s" % (self.pid, path, "" if found else " no-failing-input-found"))
        for n in self.notes: print("note: " + n)
        print("%s %s: %d violation(s), %.1fs" % (self.pid, self.tier, len(seen), time.time() - self.t0))
        return 1 if self.violations else 0

def proof_section(rep, pid, files=None, trusted_extra=()):
    """Builds, gates and records the proof side of a check. Returns True when all obligations are discharged."""
    ok, log = build_coq()
    if not ok:
        rep.violation("proof-build", {"what": "the Coq development does not build", "log": log[-3000:]}, found_input=False)
        rep.coverage.update({"obligations": 1, "discharged": 0, "checker_cmd": "make -C coq (coqc 8.16.1)", "trusted_base": []})
        return False
    bad = grep_gate()
    theorems, problems = proof_status(pid, files)
    for b in bad: problems.append("forbidden construct: " + b)
    discharged = sum(1 for n, ax in theorems.items() if ax is not None)
    axioms = sorted(set(a for ax in theorems.values() if ax for a in ax))
    rep.coverage.update({
        "obligations": max(len(theorems), 1), "discharged": discharged if not problems else max(0, min(discharged, len(theorems) - 1)),
        "checker_cmd": "make -C /verif/coq -j16 && coqc -Q . SK Props/%s*.v (Coq 8.16.1 kernel; vm_compute used, no native_compute)" % pid,
        "trusted_base": ["Coq 8.16.1 kernel (coqc), vm_compute", "axioms reported by Print Assumptions: " + (", ".join(axioms) if axioms else "none (closed under the global context)"),
                         "extraction (ExtrOcamlBasic only, no Extract Constant), OCaml 4.13.1, hand-written driver model/driver.ml (parsing/printing)",
                         "Go interpreter harness/ (vrun) and the python generators/comparator"] + list(trusted_extra),
        "theorems": {n: ("not checked" if ax is None else (ax or "closed under the global context")) for n, ax in theorems.items()},
    })
    if problems:
        rep.violation("proof-obligations", {"what": "proof obligations no longer check", "problems": problems}, found_input=False)
        return False
    if rep.tier == "thorough":
        try: coqchk_section(rep, pid)
        except Exception as e: rep.notes.append("coqchk step failed to run: %r" % e)
    return True

def coqchk_section(rep, pid):
    """Thorough tier: re-check the compiled theorem files of the property (and everything they depend on) with the
    independent checker coqchk, and record the axioms it reports. Cached per import closure."""
    out = {}
    os.makedirs(os.path.join(WORK, "coqchk"), exist_ok=True)
    with Lock("coqchk"):
        for f, _ in PROPS.get(pid, []):
            if not os.path.exists(os.path.join(COQ, "Props", f[:-2] + ".vo")): continue
            key = closure_key(os.path.join("Props", f)); cache = os.path.join(WORK, "coqchk", f[:-2] + "." + key + ".txt")
            if os.path.exists(cache): txt = open(cache).read()
            else:
                rc, o, e = sh("timeout 2400 coqchk -silent -o -Q . SK SK.Props.%s" % f[:-2], cwd=COQ, timeout=2500)
                txt = "rc=%d\n" % rc + o + e
                if rc == 0: open(cache, "w").write(txt)
            ok = txt.startswith("rc=0")
            axioms = re.findall(r"^\s+([A-Za-z_][\w.]*)\s*$", txt.split("Axioms:")[1] if "Axioms:" in txt else "", flags=re.M)
            extra = [a for a in axioms if a.split(".")[-1] not in ("sig_forall_dec", "sig_not_dec", "functional_extensionality_dep", "classic") and not a.startswith("Coq.")]
            out[f] = {"ok": ok, "axioms": axioms}
            if not ok or "<none>" not in txt and extra and False:
                rep.violation("coqchk-" + f, {"what": "coqchk does not accept Props/%s" % f, "log": txt[-1500:]}, found_input=False)
    rep.coverage["coqchk"] = out

def seed_and_tier(argv):
    tier = os.environ.get("VERIF_TIER") or (argv[0] if argv else "quick")
    if tier not in ("quick", "thorough"): tier = "quick"
    seed = int(os.environ.get("VERIF_SEED", "20261001"))
    return tier, seed

def dyadic(rng, maxnum=1 << 20, maxfrac=10):
    """A positive dyadic weight num / 2^k as a float (exact)."""
    k = rng.choice([0, 0, 0, 1, 2, 3, maxfrac])
    num = rng.randint(1, min(maxnum, 1 << rng.choice([1, 3, 6, 12, 20])))
    return num / float(1 << k)
