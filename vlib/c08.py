"""C08: malformed or truncated encodings are reported, never absorbed or fatal."""
import random
from fractions import Fraction
from . import core, sketchcheck, wire
from .sketchgen import Builder, mapspec, STORES, rand_values, spec_list
from .c06 import split_kobs
from .c07 import gen_stream
from .core import Case, f2h

CONSUMERS = ["dense", "sparse", "pag", "low:8", "high:8"]

def inside_cut(c): return lambda a, env: None if a.startswith("err") else "a cut strictly inside a block (at byte %d) was reported as %r" % (c, a)
def undefined_flag(f): return lambda a, env: None if a.startswith("err") else "undefined flag 0x%02x was answered %r" % (f, a)
def bad_layout(ex): return lambda a, env: "an encoding produced by the implementation does not follow the documented layout: %r" % ex

def run(tier, seed):
    pid = "C08"; rng = random.Random(seed)
    ok, log = core.build_vrun()
    specs = spec_list(rng, 8 if tier == "quick" else 30)
    facts = sketchcheck.learn_specs(pid, specs) if ok else {}
    # siblings: same kind and gamma, another index offset (one of the two often exactly 0) -- a different mapping
    sib = {}
    for sp, f in list(facts.items()):
        offs = [o for o in (0.0, 7.0, 1e-3, -2.5, f["off"] + 1.0) if abs(o - f["off"]) > 1e-6 * max(1.0, abs(f["off"]))]
        sib[sp] = ["%s:g:%s:%s" % (f["kind"], f2h(f["gamma"]), f2h(o)) for o in offs]
    sibfacts = sketchcheck.learn_specs(pid + "/..", []) if False else {}
    nenc = 90 if tier == "quick" else 1500
    # ---- phase 1: valid encodings from the implementation (3 producer kinds x 2 variants) and from the documented grammar
    p1 = []
    for i in range(nenc):
        spec = rng.choice(sorted(facts)); b = Builder("p%d" % i); exact = rng.random() < 0.4
        kp, kn = rng.choice(STORES), rng.choice(STORES)
        b.knew("s", spec, kp, kn, exact)
        arbitrary = rng.random() < 0.35      # non-dyadic weights: full-length (8-9 byte) varfloat encodings, so that cuts fall inside long primitives
        for v in rand_values(rng, rng.choice([1, 3, 8, 25, 70]), -2, 2, zeros=0.15):
            b.kadd("s", v, rng.choice([0.3, 1.0 / 3, 0.1, 1e-3, 123.456, 2.0]) if arbitrary else rng.choice([None, None, None, 2.0, 0.5]))
        omit = rng.random() < 0.3
        b.emit("kenc e s %d" % omit, "ok"); b.emit("bhex e"); b.meta = {"spec": spec, "exact": exact, "omit": omit, "arbitrary": arbitrary}
        p1.append(b)
    res1 = core.run_cases(pid, "enc", [b.case() for b in p1]) if facts else []
    encs = []
    for b, (c, impl, sides, model) in zip(p1, res1):
        h = impl[-1]
        if h and h != "-" and all(ch in "0123456789abcdef" for ch in h): encs.append((bytes.fromhex(h), b.meta))
    for i in range(nenc // 3):
        spec = rng.choice(sorted(facts)); st, has_map = gen_stream(rng, facts[spec])
        if len(st.b): encs.append((bytes(st.b), {"spec": spec, "exact": False, "omit": not has_map, "grammar": True}))
    # ---- phase 2: every cut, undefined flags at every boundary, mapping mismatches
    builders = []; ncuts = nflags = 0
    for i, (eb, meta) in enumerate(encs):
        try: bounds = wire.block_bounds(eb)
        except Exception as ex:
            b = Builder("unparsable%d" % i); b.emit("braw e " + eb.hex(), bad_layout(ex)); builders.append(b); continue
        spec = meta["spec"]; exact = meta["exact"]
        kind = rng.choice(CONSUMERS[:3] if meta.get("arbitrary") else CONSUMERS)     # folding non-dyadic weights into an edge bin is inexact in floats
        b = Builder("t%d" % i); b.emit("mnew m " + spec, "ok"); b.emit("braw e " + eb.hex(), "ok")
        b.meta = {"len": len(eb), "blocks": len(bounds) - 1}
        ex = " exact" if exact else ""
        # the whole encoding, for reference
        b.emit("kdec full e %s %s%s" % (kind, spec, ex), "ok")
        cuts = range(0, len(eb)) if (len(eb) <= 160 or tier == "thorough") else sorted(set(rng.sample(range(len(eb)), 120)) | set(x for x in bounds if x < len(eb)))
        for c in cuts:
            ncuts += 1
            b.emit("bcut t e %d" % c, "ok")
            supply = spec if (meta["omit"] or rng.random() < 0.5) else "nil"
            if c in bounds:
                # a cut exactly between blocks decodes to the content of the complete blocks (or reports what is missing)
                j = b.emit("kdec k t %s %s%s" % (kind, supply, ex))
                b.exp[j] = lambda a, env: None if (a == "ok" or a.startswith("err")) and a != "panic" else "boundary cut answered %r" % a
                # content check against a decode of the same prefix block by block is the model's job (exact comparison); here: success must not hold foreign content
            else:
                b.emit("kdec k t %s %s%s" % (kind, supply, ex), inside_cut(c))
            # the encoding of an exact-statistics sketch is also a valid input of the plain decoder (C07), which skips the statistics blocks:
            # its cuts must fail the same way there (mapping supplied, so that a missing mapping cannot mask an absorbed prefix)
            if exact and c not in bounds and rng.random() < 0.5:
                b.emit("kdec kp t %s %s" % (kind, spec), inside_cut(c))
        # undefined flags substituted at block boundaries
        undefined = [f for f in range(256) if not wire.defined_flag(f)]
        for pos in bounds[:-1]:
            for f in rng.sample(undefined, 3 if tier == "quick" else 12):
                nflags += 1
                b.emit("bset u e %d %d" % (pos, f), "ok")
                b.emit("kdec k u %s %s%s" % (kind, spec, ex), undefined_flag(f))
        # mapping mismatch / missing mapping
        others = [s for s in sorted(facts) if facts[s]["kind"] != facts[spec]["kind"] or abs(facts[s]["acc"] - facts[spec]["acc"]) > 2e-3 * max(facts[s]["acc"], facts[spec]["acc"])]
        if others and not meta["omit"]:
            b.emit("kdec k e %s %s%s" % (kind, rng.choice(others), ex), "err mapping-mismatch")
        if not meta["omit"] and not meta.get("grammar"):
            for sp2 in rng.sample(sib[spec], min(2, len(sib[spec]))):
                b.emit("mnew sm " + sp2, "ok")
                b.emit("kdec k e %s %s%s" % (kind, sp2, ex), "err mapping-mismatch")      # same gamma, another offset: still a different mapping
                # and the other way round: a receiver built with the stream's mapping refuses a stream carrying the sibling
                b.emit("knew z %s sparse sparse%s" % (sp2, ex), "ok"); b.emit("kadd z %s" % f2h(1.0), "ok"); b.emit("kenc ez z 0", "ok")
                b.emit("kdec k ez %s %s%s" % (kind, spec, ex), "err mapping-mismatch")
                # ... and a stream carrying both mappings (a concatenation of the two encodings) is refused even when the caller supplies none
                b.emit("bcat both e ez", "ok"); b.emit("kdec k both %s nil%s" % (kind, ex), "err mapping-mismatch")
        if meta["omit"]:
            b.emit("kdec k e %s nil%s" % (kind, ex), "err missing-mapping")
        if i % 3 == 0 and not exact:
            # a mapping block whose base or offset is not a number differs from every mapping a receiver can have
            fx = facts[spec]; st = wire.Stream()
            if rng.random() < 0.5: st.mapping(fx["kind"], float("nan"), fx["off"])
            else: st.mapping(fx["kind"], fx["gamma"], float("nan"))
            st.idc(False, [(3, 1.0), (2, 2.0)])
            b.emit("braw nb " + bytes(st.b).hex(), "ok"); b.emit("kdec k nb %s %s" % (kind, spec), "err mapping-mismatch")
            b.emit("knew kr %s sparse sparse" % spec, "ok"); b.emit("kadd kr %s" % f2h(1.0), "ok"); jr = b.emit("kobs kr")
            b.emit("kdecinto kr nb", "err mapping-mismatch"); b.emit("kobs kr", ("same", jr))
        builders.append(b)
    return sketchcheck.run_sketch_property(
        pid, tier, seed, builders,
        "valid encodings from the implementation (3 producer store kinds, both variants, mapping embedded or omitted) and from the documented grammar; for each: EVERY truncation point (all of "
        "them up to 160 bytes, 120 sampled beyond in the quick tier) decoded into a random consumer kind incl. collapsing, with the mapping supplied or not: cuts strictly inside a block (boundaries "
        "located by an independent python parser of the documented layout) must be errors, never success and never a panic; boundary cuts must answer ok or a documented error and are compared "
        "exactly, content included, with the Coq model of the decoder; every boundary gets undefined flag bytes substituted; mismatching and missing mappings. distinct_nontrivial = distinct encodings",
        nontrivial=lambda b, impl: b.meta.get("blocks", 0) >= 2)
