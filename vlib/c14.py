"""C14: queries are pure and copies are independent."""
import random
from fractions import Fraction
from . import core, sketchcheck
from .sketchgen import Builder, mapspec, STORES, rand_values, spec_list
from .core import f2h

KINDS = STORES + ["pag", "pag", "low:16", "high:16"]
def reads(rng, b, k, spec):
    n = rng.randint(1, 6)
    for _ in range(n):
        r = rng.choice(["q", "qs", "kobs", "ksum", "kforeach0", "kforeach2", "kenc", "kenc1", "ktoproto", "kstream", "kcopy", "arg-merge", "kacc", "arg-chmap"])
        if r == "arg-chmap" and getattr(b, "huge", False): r = "kobs"          # values next to MaxIndexableValue are outside the conversion's domain (C17): the scaled bounds overflow
        if r == "q": b.emit("q %s %s" % (k, f2h(rng.random())))
        elif r == "qs": b.emit("qs %s %s %s" % (k, f2h(rng.random()), f2h(rng.random())))
        elif r == "kobs": b.emit("kobs " + k)
        elif r == "ksum": b.emit("ksum " + k)
        elif r == "kforeach0": b.emit("kforeach %s 0" % k)
        elif r == "kforeach2": b.emit("kforeach %s 2" % k)
        elif r == "kenc": b.emit("kenc x %s 0" % k, "ok")
        elif r == "kenc1": b.emit("kenc x %s 1 aabbcc" % k, "ok")
        elif r == "ktoproto": b.emit("ktoproto P %s" % k, "ok")
        elif r == "kstream": b.emit("kstream y %s" % k, "ok")
        elif r == "kacc": b.emit("kacc " + k)
        elif r == "kcopy": b.kcopy("tmp", k)
        elif r == "arg-chmap":          # being the argument of a mapping change (unit scale included), then the result is written to and cleared
            b.emit("kchmap cm %s %s %s %s %s" % (k, spec, rng.choice(["sparse", "pag"]), rng.choice(["sparse", "pag"]), f2h(rng.choice([1.0, 1.0, 2.0, 0.5]))), "ok")
            b.emit("kadd cm %s" % f2h(3.0), "ok"); b.emit("kadd cm %s %s" % (f2h(-7.5), f2h(2.0)), "ok"); b.emit("kclear cm", "ok")
        elif r == "arg-merge":
            b.knew("recv", spec, rng.choice(STORES), rng.choice(STORES), b.kinds[k][2]); b.kadd("recv", 2.0); b.kmerge("recv", k)

def build(rng, facts, name):
    spec = rng.choice(sorted(facts)); b = Builder(name)
    kp, kn = rng.choice(KINDS), rng.choice(KINDS); exact = rng.random() < 0.4
    # a quarter of the histories use weights that are not dyadic (0.1, 0.3, 1.1): float sums then depend on the order of summation, so a
    # read that recomputes a cached total is visible; only the array-backed kinds, whose observers sum in a fixed order whatever was read
    # before (hash-map iteration and paginated compaction legitimately reorder float sums), and without the exact-arithmetic model
    arbitrary = rng.random() < 0.25
    if arbitrary: kp, kn = rng.choice(["dense", "low:16", "high:16", "dense"]), rng.choice(["dense", "low:16", "high:16"]); b.no_model = True
    wpool = [None, 0.1, 0.3, 1.1, 0.7, None] if arbitrary else [None, None, None, 0.5, 2.0]
    b.knew("k", spec, kp, kn, exact)
    b.knew("t", spec, kp, kn, exact)            # twin: same mutations, never read in between
    b.knew("src", spec, "pag", rng.choice(STORES), exact)     # a source whose encoding has unit-weight index blocks
    for v in rand_values(rng, rng.choice([3, 12, 40]), -2, 2): b.kadd("src", v)
    b.emit("kenc sb src 0", "ok")
    if exact and kp in ("sparse", "pag") and kn in ("sparse", "pag") and rng.random() < 0.4:          # a running sum beyond MaxFloat64: GetSum then comes from the uncompensated fallback field
        mx = facts[spec]["max"]; b.huge = True
        for v in (0.7 * mx, 0.9 * mx, 42.0, rng.choice([1.0, -0.5 * mx])):
            b.kadd("k", v); b.kadd("t", v)
    for step in range(rng.randint(1, 5)):
        for v in rand_values(rng, rng.choice([1, 3, 10, 70]), -2, 2):
            w = rng.choice(wpool); b.kadd("k", v, w); b.kadd("t", v, w)
        if not b.vals["k"]: continue
        j0 = b.emit("kobs k"); jq = b.emit("q k %s" % f2h(0.3))
        reads(rng, b, "k", spec)
        b.emit("kobs k", ("same", j0)); b.emit("q k %s" % f2h(0.3), ("same", jq))
        # no read alters any LATER answer: the same mutation applied to the read and to the unread twin gives the same observation
        mut = rng.choice(["decinto", "decinto", "merge", "add", "rew"])
        for r in ("k", "t"):
            if mut == "decinto": b.emit("kdecinto %s sb" % r, "ok"); b.vals[r] = b.vals[r] + b.vals["src"]
            elif mut == "merge": b.kmerge(r, "src")
            elif mut == "add": b.kadd(r, 1.25)
            else: b.kreweight(r, Fraction(1, 2))
        jt = b.emit("kobs t"); b.emit("kobs k", ("same", jt))
        jq2 = b.emit("q t %s" % f2h(0.7)); b.emit("q k %s" % f2h(0.7), ("same", jq2))
        j0 = b.emit("kobs k")
        if exact: js = b.emit("kstats k"); reads(rng, b, "k", spec); b.emit("kstats k", ("same", js))
        # copies: equal at the time of copying, independent afterwards
        b.kcopy("c", "k"); b.emit("kobs c", ("same", j0))
        who = rng.choice(["c", "k"]); other = "k" if who == "c" else "c"
        jo = b.emit("kobs " + other)
        both = [who, "t"] if who == "k" else [who]          # the twin follows every mutation of k
        for v in rand_values(rng, rng.choice([1, 4, 40]), -2, 2):
            for r in both: b.kadd(r, v)
        if rng.random() < 0.3:
            for r in both: b.kreweight(r, Fraction(1, 2))
        if rng.random() < 0.2:
            for r in both: b.kclear(r)
        b.emit("kobs " + other, ("same", jo))
        if exact: b.emit("kstats " + other)
    # the message ToProto hands out is a value: it does not follow the sketch, and editing it does not touch the sketch
    if rng.random() < 0.5 and b.vals["k"] and not getattr(b, "huge", False):
        b.emit("ktoproto PV k", "ok"); jp = b.emit("kpobs PV"); olds = [v for v, _ in b.vals["k"]]
        if rng.random() < 0.5:
            for r in ("k", "t"): b.kclear(r)
        for v in [rng.choice(olds) for _ in range(rng.choice([1, 3, 8]))] + rand_values(rng, 2, -2, 2):
            w = rng.choice(wpool)
            for r in ("k", "t"): b.kadd(r, v, w)
        b.emit("kpobs PV", ("same", jp))
        b.emit("ktoproto PW k", "ok"); j0 = b.emit("kobs k"); jf = b.emit("kforeach k 0"); b.emit("kpscale PW %s" % f2h(rng.choice([2.0, 0.5, 0.0])), "ok"); b.emit("kpobs PW")      # the edited message itself is compared with the model's (Wire/ProtoEdit.v)
        b.emit("kobs k", ("same", j0)); b.emit("kforeach k 0", ("same", jf)); jt = b.emit("kobs t"); b.emit("kobs k", ("same", jt))
    # a paginated store copied when its buffer of unit entries is exactly full (or not), then the original is cleared and refilled: the copy keeps its content
    if rng.random() < 0.35:
        m = rng.choice([1, 2, 4, 8, 16, 32, 64, 5, 33]); b.knew("fb", spec, "pag", "pag", exact)
        for v in rand_values(rng, m, -2, 2, signs=(1,), zeros=0): b.kadd("fb", v)
        b.kcopy("fc", "fb"); jc = b.emit("kobs fc"); jb = b.emit("kobs fb")
        if rng.random() < 0.5:
            b.kclear("fb"); b.kadd("fb", 1234.5); b.kadd("fb", 0.0123); b.emit("kobs fc", ("same", jc))
        else:
            b.kclear("fc"); b.kadd("fc", 1234.5); b.kadd("fc", 0.0123); b.emit("kobs fb", ("same", jb))
    # copy taken right after a Clear (retained, cleared memory must not be shared): write to both sides in the ranges used before
    if rng.random() < 0.6 and b.vals["k"]:
        olds = [v for v, _ in b.vals["k"]][:12]
        b.kclear("k"); b.kclear("t"); b.kcopy("c", "k")
        je = b.emit("kobs c")
        for v in olds[:6]: b.kadd("k", v, rng.choice([2.0, None, 0.5]))
        b.emit("kobs c", ("same", je))                      # the copy is still empty
        jk = b.emit("kobs k")
        for v in olds[3:12]: b.kadd("c", v, rng.choice([3.0, None]))
        b.emit("kobs k", ("same", jk))                      # and the original does not see the copy's additions
    return b

def run(tier, seed):
    rng = random.Random(seed)
    ok, log = core.build_vrun()
    specs = spec_list(rng, 10 if tier == "quick" else 40)
    facts = sketchcheck.learn_specs("C14", specs) if ok else {}
    from .c15 import build_same_length          # a read before Clear must not alter the answers after it (the twin is never read)
    builders = ([build(rng, facts, "p%d" % i) for i in range(300 if tier == "quick" else 8000)] + [build_same_length(rng, facts, "sl%d" % i) for i in range(40 if tier == "quick" else 800)]) if facts else []
    return sketchcheck.run_sketch_property(
        "C14", tier, seed, builders,
        "histories interleaving additions with random runs of read-only operations (quantile(s), full observation, sum, iteration with and without early stop, binary encoding with and without "
        "mapping and into a prefixed buffer, protobuf message, streaming protobuf, copy, being the argument of a merge, accuracy) on every store kind (paginated stores doubled) and both variants; "
        "checks: the full observation, a quantile and the exact statistics are identical before and after the reads; a copy observes like its original; after mutating one of the two (adds, "
        "reweight, clear) the other's observation is unchanged. Aliasing after Copy cannot be exhibited by the functional model and is decided by these runs alone. distinct_nontrivial = distinct cases")
