"""C18: variable-length integer / float codecs are exact, framed and sized."""
import itertools, math, struct
from . import core
from .core import Case

PID = "C18"
M64 = (1 << 64) - 1

def uvals(rng, n):
    vs = set()
    for k in range(0, 65):
        for d in (-2, -1, 0, 1, 2):
            v = (1 << k) + d
            if 0 <= v <= M64: vs.add(v)
    vs.update([0, 1, 127, 128, M64, M64 - 1])
    for _ in range(n):
        bits = rng.randint(0, 64)
        vs.add(rng.getrandbits(bits) if bits else 0)
    return sorted(vs)

def svals(rng, n):
    vs = set()
    for k in range(0, 64):
        for d in (-2, -1, 0, 1, 2):
            for s in (1, -1):
                v = s * ((1 << k) + d)
                if -(1 << 63) <= v < (1 << 63): vs.add(v)
    vs.update([0, -1, (1 << 63) - 1, -(1 << 63), (1 << 31) - 1, 1 << 31, -(1 << 31), -(1 << 31) - 1])
    for _ in range(n):
        bits = rng.randint(1, 63)
        vs.add(rng.getrandbits(bits) * rng.choice((1, -1)))
    return sorted(vs)

def fbits(rng, n):
    bs = set([0x0, 0x8000000000000000, 0x3ff0000000000000, 0xbff0000000000000, 0x7ff0000000000000, 0xfff0000000000000,
              0x7ff8000000000000, 0x7ff0000000000001, 0x0000000000000001, 0x000fffffffffffff, 0x0010000000000000,
              0x7fefffffffffffff, 0x4340000000000000, 0x433fffffffffffff, 0x4330000000000000])
    for k in range(0, 54):                       # integers 2^k, 2^k +- 1
        for d in (-1, 0, 1):
            v = float((1 << k) + d)
            bs.add(struct.unpack("<Q", struct.pack("<d", v))[0])
    for _ in range(n):
        c = rng.random()
        if c < 0.35: bs.add(struct.unpack("<Q", struct.pack("<d", float(rng.randint(0, 1 << rng.randint(1, 53)))))[0])
        elif c < 0.55: bs.add(struct.unpack("<Q", struct.pack("<d", rng.randint(1, 1 << 20) / float(1 << rng.randint(0, 12))))[0])
        else: bs.add(rng.getrandbits(64))
    return sorted(bs)

def hexs(b): return b.hex() if b else "-"

def run(tier, seed):
    rep = core.Report(PID, tier, seed)
    rng = __import__("random").Random(seed)
    ok, log = core.build_vrun()
    if not ok:
        rep.violation("build", {"what": "vrun does not build against /repo", "log": log[-3000:]}, found_input=False)
        core.proof_section(rep, PID); return rep.finish()
    core.proof_section(rep, PID)
    nrand = 1500 if tier == "quick" else 60000
    U, S, F = uvals(rng, nrand), svals(rng, nrand), fbits(rng, nrand)
    # ---- phase 1: encoders and size functions
    lines = []
    for v in U: lines += ["uv enc %d" % v, "uv size %d" % v]
    for v in S: lines += ["sv enc %d" % v, "sv size %d" % v]
    def snan(b): return (b & 0x7ff0000000000000) == 0x7ff0000000000000 and (b & 0xfffffffffffff) != 0 and not (b & 0x8000000000000)
    for b in F:
        lines += ["f64 enc %016x" % b]
        if not snan(b): lines += ["vf enc %016x" % b, "vf size %016x" % b]   # NaN payloads are not modelled: signalling NaNs only through the fixed codec
    res1 = core.run_cases(PID, "enc", [Case("enc", lines)])[0]
    _, impl1, _, model1 = res1
    fails = []   # (clause, instruction, impl, expected)
    mism = []
    def cmp(ins, a, b):
        if not core.lines_agree(a, b): mism.append((ins, a, b))
    for ins, a, b in zip(lines, impl1, model1): cmp(ins, a, b)
    enc = {}
    it = iter(zip(lines, impl1))
    for ins, out in it:
        t = ins.split()
        if t[1] == "enc":
            enc[(t[0], t[2])] = out
            n = 0 if out == "-" else len(out) // 2
            if t[0] == "f64":
                if n != 8: fails.append(("fixed floats take 8 bytes", ins, out, "8 bytes"))
            elif not (1 <= n <= 9): fails.append(("every encoding takes 1..9 bytes", ins, out, "1..9 bytes"))
        elif t[1] == "size":
            e = enc[(t[0], t[2])]
            if str(len(e) // 2) != out: fails.append(("size function predicts the encoded length", ins, out, str(len(e) // 2)))
    # ---- phase 2: decoders on encodings with trailers, on every strict prefix, on raw strings
    lines2, expect = [], []
    def add(ins, exp): lines2.append(ins); expect.append(exp)
    for (kind, arg), e in enc.items():
        eb = bytes.fromhex(e)
        trailer = bytes(rng.getrandbits(8) for _ in range(rng.choice([0, 0, 1, 3, 9])))
        if rng.random() < 0.5 or len(eb) >= 8:      # what follows is often another small encoding (0, 1, -1, a continuation byte): "regardless of what follows"
            trailer = bytes([rng.choice([0x00, 0x01, 0x02, 0x7f, 0x80, 0x81, 0xff])]) + trailer
        if kind == "uv": want = "ok %s %d" % (arg, len(eb))
        elif kind == "sv": want = "ok %s %d" % (arg, len(eb))
        elif kind == "f64":
            isnan = (int(arg, 16) & 0x7ff0000000000000) == 0x7ff0000000000000 and (int(arg, 16) & 0xfffffffffffff) != 0
            want = "ok %s 8" % ("xnan" if isnan else "x" + arg)
            add("f64 decbits %s" % hexs(eb + trailer), "ok b%s 8" % bytes.fromhex(arg)[::-1].hex())          # every bit pattern, NaN payloads and signs included
        else:
            v = core.h2f(arg); r = (v + 1.0) - 1.0
            want = "ok %s %d" % ("xnan" if r != r else "x" + core.f2h(r), len(eb))
        add("%s dec %s" % (kind, hexs(eb + trailer)), want)
        if kind == "sv":
            v = int(arg)
            add("sv32 dec %s" % hexs(eb + trailer), ("ok %d %d" % (v, len(eb))) if -(1 << 31) <= v < (1 << 31) else "err overflow32")
        cuts = range(len(eb)) if (tier == "thorough" or rng.random() < 0.25) else [rng.randrange(len(eb))]
        for c in cuts: add("%s dec %s" % (kind, hexs(eb[:c])), "err eof")
    # varfloat exactness on integers below 2^53 (a clause of its own)
    for k in list(range(0, 53)) + [rng.randint(0, (1 << 53) - 1) for _ in range(300)]:
        v = float(k if k > 60 else (1 << k) - 1 if k else 0)
        pass
    raw = [bytes(t) for n in range(0, 2 if tier == "quick" else 3) for t in itertools.product(range(256), repeat=n)]
    for _ in range(3000 if tier == "quick" else 200000):
        raw.append(bytes(rng.getrandbits(8) | (0x80 if rng.random() < 0.6 else 0) for _ in range(rng.randint(1, 12))))
    for r in raw:
        for kind in ("uv", "sv", "sv32", "vf", "f64", "flag"): add("%s dec %s" % (kind, hexs(r)), None)
    _, impl2, _, model2 = core.run_cases(PID, "dec", [Case("dec", lines2)])[0]
    nontrivial = set()
    for ins, a, b, exp in zip(lines2, impl2, model2, expect):
        cmp(ins, a, b)
        if a == "panic": fails.append(("no byte string makes a decoder panic", ins, a, "no panic")); continue
        if a.endswith(" advanced") and not a.startswith("err overflow32"):
            fails.append(("an end-of-input error consumes nothing", ins, a, "slice untouched"))
        if a.startswith("ok "):
            consumed = int(a.split()[-1])
            if consumed > 9: fails.append(("a decoder reads at most 9 bytes", ins, a, "<= 9"))
        if exp is not None:
            got = a
            if exp == "err overflow32": ok_ = a.startswith("err overflow32")
            else: ok_ = (got == exp)
            if not ok_: fails.append(("decoding returns exactly the encoded value and consumes exactly its bytes / a strict prefix is an end-of-input error", ins, a, exp))
            nontrivial.add(ins)
    # ---- verdicts
    for clause, ins, got, want in fails[:20]:
        rep.violation("oracle-%d" % (abs(hash((clause, ins))) % 10**8), {"clause": clause, "script": [ins], "implementation": got, "expected": want})
    if mism and not fails:
        ins, a, b = mism[0]
        rep.violation("correspondence", {"what": "model and implementation disagree; no clause of the property failed on the explored inputs",
                                         "correspondence": "Codec model (coq/Codec) vs ddsketch/encoding", "script": [ins], "implementation": a, "model": b,
                                         "further": [list(x) for x in mism[1:10]]}, found_input=False)
    rep.coverage.update({
        "evaluations": len(lines) + len(lines2), "distinct_nontrivial": len(nontrivial) + len(enc),
        "rule": "values: every 2^k+-d (k<=64, d<=2), extremes, random bit patterns per length class; floats: specials, integers 2^k+-1, dyadics, random bit patterns; "
                "decoders: each encoding + random trailer, strict prefixes, all byte strings of length <= %d, random strings <= 12 bytes with continuation bits; "
                "non-trivial = distinct instruction with an independently computed expected answer" % (1 if tier == "quick" else 2),
        "samples": [lines[0], lines[7], lines2[0], lines2[5], lines2[-1]],
        "exhaustive_byte_strings_upto": 1 if tier == "quick" else 2,
        "mismatches_model_vs_impl": len(mism), "oracle_failures": len(fails),
    })
    rep.assumptions = ["Python's float arithmetic (v+1)-1 is IEEE-754 binary64 (oracle for the varfloat value)",
                       "the Coq codec model is tied to the code only through this run's comparison"]
    return rep.finish()
