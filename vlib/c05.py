"""C05: collapsing stores stay bounded, conserve weight and clamp correctly; every merge is safe."""
import random
from fractions import Fraction
from . import storecheck, storegen
from .core import Case

NS_QUICK = [1, 2, 3, 4, 7, 8, 31, 32, 33, 64, 128, 2048]

def wide_into_empty(rng):
    """Deliberate: merging a store wider than N into an empty / cleared collapsing receiver (D1)."""
    out = []
    for j in range(40):
        n = rng.choice([1, 2, 3, 8, 32]); fam = rng.choice(["low", "high"])
        wide = rng.choice(["%s:%d" % (fam, rng.choice([64, 128, 2048])), "dense", "sparse", "pag", "%s:%d" % ("high" if fam == "low" else "low", 64)])
        lines = ["new r %s:%d" % (fam, n), "new w " + wide]; exp = ["ok", "ok"]
        r, w = storegen.Shadow("%s:%d" % (fam, n)), storegen.Shadow(wide)
        base = rng.randint(-1000, 1000)
        for k in range(rng.choice([n + 1, n + 4, 3 * n + 5, 40])):
            i = base + k * rng.choice([1, 1, 2]); lines.append("add w %d" % i); exp.append("ok"); w.add(i, Fraction(1))
        if rng.random() < 0.5:
            lines += ["add r %d" % base, "clear r"]; exp += ["ok", "ok"]
        lines.append("merge r w"); exp.append("ok"); r.merge(w)
        lines += ["obs r", "obs w", "add r %d" % (base + 3), "obs r", "layout r"]
        e1 = r.obsline(); e2 = w.obsline(); r.add(base + 3, Fraction(1))
        exp += [e1, e2, "ok", r.obsline(), None]
        out.append((Case("wide%d" % j, lines, {"kinds": ["%s:%d" % (fam, n), wide]}), exp))
    return out

def surround(rng):
    """Deliberate: same-kind merges where the argument has another bin limit and lies around / beside a small receiver."""
    out = []
    for j in range(160):
        fam = rng.choice(["low", "high"]); n = rng.choice([2, 3, 4, 8, 16]); m = rng.choice([n, 2 * n, 64, 1024, 1])
        lines = ["new r %s:%d" % (fam, n), "new w %s:%d" % (fam, m)]; exp = ["ok", "ok"]
        r, w = storegen.Shadow("%s:%d" % (fam, n)), storegen.Shadow("%s:%d" % (fam, m))
        c = rng.randint(-200, 200)
        for _ in range(rng.randint(0, 3)):
            i = c + rng.randint(0, max(0, n - 2)); lines.append("add r %d" % i); exp.append("ok"); r.add(i, Fraction(1))
        for _ in range(rng.randint(1, 5)):
            i = c + rng.choice([-1, 1]) * rng.randint(0, 2 * n + 2) + rng.choice([0, 0, n]); wt = rng.choice([Fraction(1), Fraction(1), Fraction(5, 2)])
            lines.append("addw w %d %s" % (i, storegen.wh(wt))); exp.append("ok"); w.add(i, wt)
        if rng.random() < 0.3: lines += ["obs r"]; exp += [r.obsline()]
        lines.append("merge r w"); exp.append("ok"); r.merge(w)
        lines += ["obs r", "obs w", "layout r"]; exp += [r.obsline(), w.obsline(), None]
        i = c + rng.randint(-n, n); lines.append("add r %d" % i); exp.append("ok"); r.add(i, Fraction(1)); lines.append("obs r"); exp.append(r.obsline())
        out.append((Case("sur%d" % j, lines, {"kinds": ["%s:%d" % (fam, n), "%s:%d" % (fam, m)]}), exp))
    return out

def sketch_merges(rng):
    """Sketch level: a sketch keeps its own stores (kind and bin limit) whatever it absorbs -- also when it holds nothing at the time of the merge."""
    from .core import f2h
    out = []
    for j in range(60):
        spec = "%s:a:%s" % (rng.choice(["log", "lin", "cub"]), f2h(rng.choice([0.01, 0.05, 0.02])))
        fam = rng.choice(["low", "high"]); n = rng.choice([1, 4, 8, 32]); ex = " exact" if rng.random() < 0.3 else ""
        kr = "%s:%d" % (fam, n); kw = rng.choice(["dense", "sparse", "pag", "%s:%d" % (fam, rng.choice([2, 64, 2048])), "%s:%d" % ("high" if fam == "low" else "low", 16)])
        if rng.random() < 0.3: kr, kw = kw, kr          # and the other way round: a roomy receiver keeps its room
        lines = ["knew r %s %s %s%s" % (spec, kr, kr, ex), "knew w %s %s %s%s" % (spec, kw, kw, ex)]
        for k in range(rng.choice([3, 12, 40])):
            v = rng.choice([1, 1, -1]) * 10 ** rng.uniform(-2, 3); lines.append("kadd w %s%s" % (f2h(v), rng.choice(["", "", " " + f2h(2.0)])))
        c = rng.random()
        if c < 0.4: lines += ["kadd r %s" % f2h(5.0), "kadd r %s" % f2h(-5.0), "kclear r"]
        elif c < 0.5: lines += ["kadd r %s" % f2h(5.0)]
        lines += ["kmerge r w", "kobs r", "kobs w"]
        for k in range(rng.choice([0, 5, 30])):
            v = rng.choice([1, 1, -1]) * 10 ** rng.uniform(-2, 3); lines.append("kadd r %s" % f2h(v))
        lines += ["kobs r", "q r %s" % f2h(0.5), "q r %s" % f2h(rng.random()), "kobs w"]
        out.append((Case("skm%d" % j, lines, {"kinds": [kr, kw]}), None))
    # the library's own collapsing sketches (LogCollapsingLowest/HighestDenseDDSketch): BOTH stores are of the advertised kind
    for j in range(30):
        fam = rng.choice(["low", "high"]); n = rng.choice([2, 4, 16, 50]); a = rng.choice([0.01, 0.05, 0.02])
        lines = ["knewc k log%s %s %d" % (fam, f2h(a), n), "knew t log:a:%s %s:%d %s:%d" % (f2h(a), fam, n, fam, n)]
        vs = [rng.choice([-1, -1, 1]) * 10 ** rng.uniform(-2, 3) for _ in range(rng.choice([10, 40]))]; rng.shuffle(vs)
        for v in vs: lines += ["kadd k " + f2h(v), "kadd t " + f2h(v)]
        lines += ["kobs k", "kobs t", "q k %s" % f2h(0.0), "q k %s" % f2h(1.0), "q k %s" % f2h(rng.random())]
        out.append((Case("skc%d" % j, lines, {"kinds": ["%s:%d" % (fam, n)]}), None))
    return out

def bound_oracle(case, line, answer):
    """len(bins) <= N for collapsing stores, read through the verif hook."""
    reg = line.split()[1]
    kinds = {}
    for l in case.lines:                      # a copy gives its target the kind (and limit) of its source
        t = l.split()
        if t[0] == "new": kinds[t[1]] = t[2]
        elif t[0] == "copy": kinds[t[1]] = kinds.get(t[2], "")
    k = kinds.get(reg, "")
    if ":" in k and "binslen=" in answer:
        n = int(k.split(":")[1]); bl = int(answer.split("binslen=")[1].split()[0])
        if bl > n: return "array length %d exceeds the bin limit %d" % (bl, n)
    return None

def run(tier, seed):
    rng = random.Random(seed + 5)
    ns = NS_QUICK if tier == "quick" else sorted(set(list(range(1, 41)) + [63, 64, 65, 127, 128, 129, 255, 256, 257, 1023, 1024, 1025, 2047, 2048]))
    pool = []
    for n in ns: pool += ["low:%d" % n, "high:%d" % n]
    pool += ["dense", "sparse", "pag"] * (len(ns) // 3 + 1)
    return storecheck.run_store_property(
        "C05", tier, seed, pool, 500 if tier == "quick" else 15000,
        "programs as for C04 over registers of collapsing kinds (N in %s) mixed with the exact kinds, pairs of different limits, plus 40 deliberate "
        "'wider than N into an empty or cleared receiver' merges and 160 same-kind merges where the argument (another limit) lies around or beside a small receiver, and 60 sketch-level merges between sketches of different store kinds and bin limits (fresh, cleared and used receivers; the model's sketch keeps its stores); oracle = stepwise clamp of an exact shadow map; len(bins) <= N through the hook. "
        "distinct_nontrivial as for C04" % ns,
        extra_cases=lambda rng: wide_into_empty(rng) + surround(rng) + sketch_merges(rng), oracle_extra=bound_oracle)
