"""C13: invalid input is rejected with the documented error and changes nothing."""
import math, random
from fractions import Fraction
from . import core, sketchcheck
from .sketchgen import Builder, mapspec, STORES, rand_values, spec_list
from .core import f2h, nextafter

NAN = float("nan"); INF = float("inf"); MAXF = 1.7976931348623157e308

def run(tier, seed):
    rng = random.Random(seed)
    ok, log = core.build_vrun()
    nstates = 120 if tier == "quick" else 2500
    specs = spec_list(rng, 12 if tier == "quick" else 60)
    facts = sketchcheck.learn_specs("C13", specs) if ok else {}
    specs = [s for s in specs if s in facts]
    builders = []
    # constructors
    b = Builder("ctors")
    for kind in ("log", "lin", "cub"):
        for a in (0.0, 1.0, -0.5, 1.5, 2.0, -0.0):
            b.emit("knew k %s:a:%s dense dense" % (kind, f2h(a)), "err bad-accuracy")
            b.emit("mnew m %s:a:%s" % (kind, f2h(a)), "err bad-accuracy")
        for g in (1.0, 0.5, 0.0, -2.0, nextafter(1.0, False)):
            b.emit("knew k %s:g:%s:%s dense dense" % (kind, f2h(g), f2h(0.0)), "err bad-gamma")
            b.emit("mnew m %s:g:%s:%s" % (kind, f2h(g), f2h(1.5)), "err bad-gamma")
        for a in (1e-6, 0.5, 0.99, nextafter(1.0, False), 1e-9):
            b.emit("mnew m %s:a:%s" % (kind, f2h(a)), "ok")
    for a in (0.0, 1.0, -0.5, 1.5, -0.0):          # the convenience constructors refuse the same accuracies
        for form in ("default %s", "logdense %s", "defaultx %s", "loglow %s 64", "loghigh %s 64", "prov %s sparse", "provx %s dense"):
            b.emit("knewc k " + form % f2h(a), "err bad-accuracy")
    for a in (1e-6, 0.5, nextafter(1.0, False)):
        for form in ("default %s", "logdense %s", "defaultx %s", "loglow %s 64", "loghigh %s 64", "prov %s sparse", "provx %s dense"):
            b.emit("knewc k " + form % f2h(a), "ok")
    b.emit("addbin s 3 %s" % f2h(-1.0), None)      # register does not exist: harness says bad; below the real ones
    b.lines.pop(); b.exp.pop()
    b.emit("new s dense", "ok"); b.emit("addbin s 3 %s" % f2h(-1.0), "err neg-count"); b.emit("addbin s 3 %s" % f2h(-5e-324), "err neg-count")
    b.emit("addbin s 3 %s" % f2h(0.0), "ok"); b.emit("obs s", "total=0 empty=1 min=- max=- bins=")
    b.emit("tnew t %s %s %s %s" % (f2h(-1.0), f2h(0.0), f2h(INF), f2h(-INF)), "err bad-stats")
    b.emit("tnew t %s %s %s %s" % (f2h(2.0), f2h(3.0), f2h(2.0), f2h(1.0)), "err bad-stats")
    b.emit("tnew t %s %s %s %s" % (f2h(0.0), f2h(0.0), f2h(1.0), f2h(-INF)), "err bad-stats")
    b.emit("tnew t %s %s %s %s" % (f2h(2.0), f2h(3.0), f2h(1.0), f2h(2.0)), "ok")
    b.emit("tnew t %s %s %s %s" % (f2h(0.0), f2h(0.0), f2h(INF), f2h(-INF)), "ok")
    builders.append(b)
    for i in range(nstates):
        spec = rng.choice(specs); f = facts[spec]; mx, mn = f["max"], f["min"]
        exact = rng.random() < 0.5
        b = Builder("s%d" % i); b.meta = {"spec": spec, "exact": exact}
        kp, kn = rng.choice(STORES), rng.choice(STORES)
        b.knew("k", spec, kp, kn, exact)
        for v in rand_values(rng, rng.choice([0, 0, 1, 3, 8])): b.kadd("k", v, rng.choice([None, None, 2.0, 0.5]))
        def refused(line, exp):
            j0 = b.emit("kobs k"); b.emit(line, exp); b.emit("kobs k", ("same", j0))
        calls = []
        for w in (None, 0.0, 0.5, 1.0, 3.0):
            ws = "" if w is None else " " + f2h(w)
            calls += [("kadd k %s%s" % (f2h(NAN), ws), "err nan"), ("kadd k %s%s" % (f2h(INF), ws), "err too-high"),
                      ("kadd k %s%s" % (f2h(-INF), ws), "err too-low"), ("kadd k %s%s" % (f2h(MAXF), ws), "err too-high"),
                      ("kadd k %s%s" % (f2h(-MAXF), ws), "err too-low"),
                      ("kadd k %s%s" % (f2h(nextafter(mx, True)), ws), "err too-high"), ("kadd k %s%s" % (f2h(-nextafter(mx, True)), ws), "err too-low")]
        for w in (-1.0, -5e-324, -INF, -0.5):
            for v in (1.0, NAN, INF, 0.0, -3.0, MAXF):
                calls.append(("kadd k %s %s" % (f2h(v), f2h(w)), "err neg-count"))
        for q in (NAN, nextafter(0.0, False), nextafter(1.0, True), INF, -INF, -1.0, 2.0, 1e300):
            calls.append(("q k %s" % f2h(q), "err bad-quantile")); calls.append(("qs k %s %s" % (f2h(0.5), f2h(q)), "err bad-quantile"))
        for w in (0.0, -0.0, -1.0, -INF, -5e-324):
            calls.append(("kreweight k %s" % f2h(w), "err bad-factor"))
        # weight-0 adds of valid values are accepted and change nothing
        for v in (1.0, -2.0, 0.0, mx, -mx):
            calls.append(("kadd k %s %s" % (f2h(v), f2h(0.0)), "ok"))
        for line, exp in rng.sample(calls, 14 if tier == "quick" else 30): refused(line, exp)
        # accepted boundary values
        cands = [mx, -mx, nextafter(mx, False), 0.0, -0.0, 5e-324, -5e-324, mn, -mn, nextafter(mn, True), nextafter(mn, False), 2.2250738585072014e-308]
        if "dense" in (kp, kn): cands = [0.0, -0.0, 5e-324, -5e-324, mn if mn < 1e-300 else 0.0, 2.2250738585072014e-308, 1.0, -1.0]   # keep dense arrays small
        for v in rng.sample(cands, 4):
            b.kadd("k", v, rng.choice([None, 1.0, 0.25, float(2 ** 30)]))
        for q in (0.0, 1.0, -0.0, 0.5, nextafter(1.0, False), 5e-324): b.emit("q k %s" % f2h(q), lambda a, env: None if ("@" in a or a == "0") else "a valid quantile query on a non-empty sketch answered %r" % a)
        # mapping mismatch: different kind or clearly different accuracy
        spec2 = rng.choice([s for s in specs if s != spec] or [spec])
        f2 = facts[spec2]
        if f2["kind"] != f["kind"] or abs(f2["acc"] - f["acc"]) > 2e-3 * max(f2["acc"], f["acc"]):
            b.knew("o", spec2, rng.choice(STORES), rng.choice(STORES), exact); b.kadd("o", 1.5); b.kadd("o", -2.5)
            j0 = b.emit("kobs k"); j1 = b.emit("kobs o"); b.emit("kmerge k o", "err mapping-mismatch"); b.emit("kobs k", ("same", j0)); b.emit("kobs o", ("same", j1))
        # ... or the same kind and base with a different index offset (mappings rebuilt from a base and an offset, as decoders build them)
        if rng.random() < 0.6:
            spec3 = "%s:g:%s:%s" % (f["kind"], f2h(f["gamma"]), f2h(f["off"] + rng.choice([1.0, -0.5, 40.0, 1e-6, -1e-3])))
            b.knew("o2", spec3, rng.choice(STORES), rng.choice(STORES), exact); b.kadd("o2", 1.5); b.kadd("o2", -2.5)
            j0 = b.emit("kobs k"); j1 = b.emit("kobs o2"); b.emit("kmerge k o2", "err mapping-mismatch"); b.emit("kobs k", ("same", j0)); b.emit("kobs o2", ("same", j1))
            j1 = b.emit("kobs o2"); b.emit("kmerge o2 k", "err mapping-mismatch"); b.emit("kobs o2", ("same", j1))
            # ... also when the receiver holds nothing (fresh, or used and cleared), or the argument holds nothing or only zeros: the mapping is part of
            # what a refused call leaves as it was (the receiver still encodes with its own mapping and still refuses the other one)
            b.knew("ev", spec, rng.choice(STORES), rng.choice(STORES), exact)
            if rng.random() < 0.5: b.kadd("ev", 3.0); b.kadd("ev", -1.0); b.kclear("ev")
            b.emit("kenc eb0 ev 0", "ok"); jh = b.emit("bhex eb0")
            b.emit("kmerge ev o2", "err mapping-mismatch"); b.emit("kenc eb1 ev 0", "ok"); b.emit("bhex eb1", ("same", jh))
            b.emit("kmerge ev o2", "err mapping-mismatch")
            b.knew("oz", spec3, rng.choice(STORES), rng.choice(STORES), exact)
            if rng.random() < 0.6: b.kadd("oz", 0.0, 2.5)
            if rng.random() < 0.3: b.kadd("oz", 7.0); b.kclear("oz")
            j0 = b.emit("kobs k"); b.emit("kmerge k oz", "err mapping-mismatch"); b.emit("kobs k", ("same", j0))
        # NewDDSketchWithExactSummaryStatisticsFromData refuses a sketch and statistics that disagree about emptiness, and accepts the others
        if rng.random() < 0.5:
            b.knew("pd", spec, rng.choice(STORES), rng.choice(STORES)); filled = rng.random() < 0.6
            if filled: b.kadd("pd", 2.0, 4.0)
            cnt = rng.choice([0.0, 4.0])
            b.emit("tnew td %s %s %s %s" % ((f2h(4.0), f2h(8.0), f2h(2.0), f2h(2.0)) if cnt else (f2h(0.0), f2h(0.0), f2h(INF), f2h(-INF))), "ok")
            jd = b.emit("kobs pd")
            if filled == (cnt > 0):
                b.emit("kfromdata xd pd td", "ok"); b.emit("kstats xd", "count=%s sum=x%s min=%s max=%s" % (("1@2", f2h(8.0), "1@1", "1@1") if cnt else ("0", f2h(0.0), "-", "-")))
            else:
                b.emit("kfromdata xd pd td", "err other"); b.emit("kobs pd", ("same", jd))
        # empty sketch
        b.kclear("k")
        for q in (0.0, 0.5, 1.0): b.emit("q k %s" % f2h(q), "err empty")
        j0 = b.emit("kobs k"); b.emit("q k %s" % f2h(NAN), "err"); b.emit("kobs k", ("same", j0))
        builders.append(b)
    return sketchcheck.run_sketch_property(
        "C13", tier, seed, builders,
        "sketch states reached by short random histories (both variants, all store kinds, 3 mapping kinds, random alpha/offset), then refused calls drawn from "
        "{NaN, +-Inf, +-MaxFloat64, neighbours of +-MaxIndexableValue} x weights {absent, 0, 1/2, 1, 3}, negative weights x any value, quantiles {NaN, floats just outside [0,1], +-Inf}, "
        "non-positive reweight factors, merges with a different mapping, queries on the empty sketch; each refused call is bracketed by full observations that must be identical; "
        "accepted boundary values (+-Max, +-Min, +-0, subnormals); constructor parameter checks. distinct_nontrivial = distinct cases",
        key_fn=None)
