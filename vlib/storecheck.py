"""Shared runner for the store-level properties (C04, C05, and the store halves of C14, C15, C16)."""
import glob, os, random
from . import core
from .core import Case
from . import storegen

def run_store_property(pid, tier, seed, kinds_pool, ncases, rule, extra_cases=None, ops=None, oracle_extra=None, trusted_extra=()):
    rep = core.Report(pid, tier, seed)
    rng = random.Random(seed)
    ok, log = core.build_vrun()
    if not ok:
        rep.violation("build", {"what": "vrun does not build against /repo", "log": log[-3000:]}, found_input=False)
        core.proof_section(rep, pid, trusted_extra=trusted_extra); return rep.finish()
    core.proof_section(rep, pid, trusted_extra=trusted_extra)
    cases, exps = [], []
    for f in sorted(glob.glob(os.path.join(core.ROOT, "corpus", pid, "*.script"))):
        cases.append(Case("corpus-" + os.path.basename(f)[:-7], [l.rstrip("\n") for l in open(f)], {"corpus": True})); exps.append(None)
    for c, e in (extra_cases(rng) if extra_cases else []): cases.append(c); exps.append(e)
    for i in range(ncases):
        c, e = storegen.gen_program(rng, "g%d" % i, kinds_pool, ops=ops)
        regs = sorted(set(l.split()[1] for l in c.lines if l.startswith("new ")))
        for r in regs: c.lines.append("layout " + r); e.append(None)
        cases.append(c); exps.append(e)
    results = core.run_cases(pid, "main", cases)
    stats = {"instructions": 0, "ops": {}, "kinds": {}, "cases_with_pages": 0, "cases_with_buffer": 0, "max_binslen": 0, "panics": 0,
             "model_unsupported_lines": 0}
    failing = []           # (case, k, kind, detail)
    nontrivial = set()
    for (c, impl, sides, model), exp in zip(results, exps):
        ins = core.instr_lines(c.lines)
        stats["instructions"] += len(ins)
        for k in c.meta.get("kinds", []): stats["kinds"][k] = stats["kinds"].get(k, 0) + 1
        saw_pages = saw_buf = False; nobs = 0
        bad = None
        for k, (l, a, b) in enumerate(zip(ins, impl, model)):
            op = l.split()[0]; stats["ops"][op] = stats["ops"].get(op, 0) + 1
            if b == "unsupported": stats["model_unsupported_lines"] += 1
            if op == "layout":
                f = dict(x.split("=") for x in a.split()) if "=" in a else {}
                if int(f.get("pages", -1)) > 0: saw_pages = True
                if int(f.get("buflen", -1)) > 0: saw_buf = True
                stats["max_binslen"] = max(stats["max_binslen"], int(f.get("binslen", -1)))
                if oracle_extra and bad is None:
                    msg = oracle_extra(c, l, a)
                    if msg: bad = (k, "oracle", msg)
                continue
            if a == "panic": stats["panics"] += 1
            if exp is not None and exp[k] is not None and bad is None:
                if not core.lines_agree(a, exp[k]):
                    bad = (k, "oracle", "implementation answers %r where the exact index->weight map gives %r" % (a, exp[k]))
            if bad is None and not core.lines_agree(a, b):
                bad = (k, "correspondence", "implementation %r, model %r" % (a, b))
            if op == "obs" and "bins=" in a and a.split("bins=")[1].count(",") >= 1: nobs += 1
        stats["cases_with_pages"] += saw_pages; stats["cases_with_buffer"] += saw_buf
        if nobs >= 2: nontrivial.add(hash(tuple(ins)))
        if bad: failing.append((c, bad))
    # ---- shrink and report (at most 5 distinct failures)
    for c, (k, kind, detail) in failing[:5]:
        ins = core.instr_lines(c.lines)[:k + 1]
        def still(ls):
            r = core.run_cases(pid, "shrink", [Case("shrink", ls)])[0]
            return core.first_mismatch(r[0], r[1], r[3], ignore=("layout",)) is not None
        small = ins
        try:
            if still(ins): small = core.ddmin(ins, still, budget=60 if tier == "quick" else 200)
        except Exception as e: rep.notes.append("shrinking failed: %r" % e)
        r = core.run_cases(pid, "shrink", [Case("final", small)])[0]
        # a disagreement with the model or the shadow on an exact observable is a failing input of the property itself:
        # the model's answers are those of the mathematical map (Layer A) by the refinement theorems, the shadow is that map.
        found = True
        rep.violation("case-" + c.name, {"clause": detail, "kind": kind, "script": small, "implementation": r[1], "model": r[3],
                                         "original_case": c.name, "how_to_replay": "./check --replay <this file>"}, found_input=found,
                      key=finding_key(small, r[1]))
    rep.coverage.update({"evaluations": len(cases), "distinct_nontrivial": len(nontrivial), "rule": rule,
                         "samples": [cases[len(cases) // 2].lines[:25]] if cases else [], "distribution": stats,
                         "failing_cases": len(failing)})
    rep.assumptions = ["weights are dyadic with bounded totals, so float64 + * < are exact and the exact-rational model must agree bit for bit",
                       "index expressions stay in the int64 range for int32 indexes"]
    return rep.finish()

def finding_key(script, impl):
    """Signature of a minimised failure: the op kinds of the script and the first abnormal outcome."""
    ops = "-".join(l.split()[0] for l in script[-3:])
    out = next((x.split()[0] for x in impl if x == "panic" or x.startswith("err")), "diff")
    return "%s:%s" % (ops, out)
