"""C10: exact summary statistics are exact across every operation."""
import random
from fractions import Fraction
from . import core, sketchcheck
from .sketchgen import Builder, mapspec, STORES, rand_values
from .core import f2h, h2f, parse_F, nextafter

NAN = float("nan"); INF = float("inf")

def stats_oracle(vals, nscale, nmerge):
    def f(a, env):
        fld = dict(x.split("=") for x in a.split())
        W = sum(w for _, w in vals)
        if parse_F(fld["count"]) != W: return "exact count %s differs from the absorbed weight %s" % (fld["count"], W)
        pos = [Fraction(v) for v, w in vals if w > 0]
        if not pos:
            return None if fld["min"] == "-" and fld["max"] == "-" else "min/max reported on a sketch that absorbed nothing: %s" % a
        if parse_F(fld["min"]) != min(pos) or parse_F(fld["max"]) != max(pos): return "exact min/max %s/%s differ from the true extremes %s/%s" % (fld["min"], fld["max"], float(min(pos)), float(max(pos)))
        if fld["sum"] == "xnan": return "sum is NaN"
        true = sum(Fraction(v) * w for v, w in vals); mag = sum(abs(Fraction(v)) * w for v, w in vals)
        got = Fraction(h2f(fld["sum"][1:]))
        bound = Fraction(5 + 2 * nscale + 2 * nmerge, 2 ** 53) * mag + Fraction(4 * len(vals) + 4, 2 ** 1074)
        if abs(got - true) > bound: return "exact sum %s is off the true sum %s by more than a few ulps of sum|v*w| (%s)" % (float(got), float(true), float(abs(got - true) / (mag or 1)))
        return None
    return f

def build(rng, facts, name):
    spec = rng.choice(sorted(facts)); f = facts[spec]; b = Builder(name)
    kinds = [(rng.choice(STORES), rng.choice(STORES)) for _ in range(3)]
    regs = ["a", "b2", "c"]
    for r, (kp, kn) in zip(regs, kinds): b.knew(r, spec, kp, kn, True)
    b.knew("p", spec, kinds[0][0], kinds[0][1], False)          # plain twin of a
    nscale = {r: 0 for r in regs}; nmerge = {r: 0 for r in regs}
    def check(r):
        b.emit("kstats " + r, stats_oracle(list(b.vals[r]), nscale[r], nmerge[r]))
        b.emit("kobs " + r, lambda a, env, vs=list(b.vals[r]): None if (("empty=1" in a.split(" pos[")[0]) == (sum(w for _, w in vs) == 0)) else "emptiness %r does not match absorbed weight %s" % (a.split(" pos[")[0], sum(w for _, w in vs)))
    twin_ok = True
    for _ in range(rng.randint(4, 30)):
        op = rng.choice(["add"] * 8 + ["addw"] * 4 + ["add0", "bad", "merge", "copy", "clear", "rew", "codec", "decinto", "check", "check"])
        r = rng.choice(regs)
        if op == "add":
            v = rand_values(rng, 1, -3, 3)[0]; b.kadd(r, v)
            if r == "a" and twin_ok: b.kadd("p", v)
        elif op == "addw":
            v = rand_values(rng, 1, -3, 3)[0]; w = rng.choice([2.0, 0.5, 0.25, 3.0, 1024.0, 0.125])
            b.kadd(r, v, w)
            if r == "a" and twin_ok: b.kadd("p", v, w)
        elif op == "add0":
            b.kadd(r, rand_values(rng, 1, -3, 3)[0], 0.0)          # weight 0: accepted, changes nothing
        elif op == "bad":
            b.emit("kadd %s %s%s" % (r, f2h(rng.choice([NAN, INF, -INF, nextafter(f["max"], True)])), rng.choice(["", " " + f2h(0.0), " " + f2h(2.0)])),
                   lambda a, env: None if a.startswith("err") else "an untrackable value was accepted: %r" % a)
            b.emit("kadd %s %s %s" % (r, f2h(1.0), f2h(-1.0)), "err neg-count")
        elif op == "merge":
            o = rng.choice([x for x in regs if x != r]); b.kmerge(r, o); nmerge[r] += 1 + nmerge[o]; nscale[r] += nscale[o]
            if r == "a": twin_ok = False
        elif op == "copy":
            o = rng.choice([x for x in regs if x != r]); b.kcopy(o, r); nscale[o] = nscale[r]; nmerge[o] = nmerge[r]
            if o == "a": twin_ok = False
        elif op == "clear":
            b.kclear(r); nscale[r] = nmerge[r] = 0
            if r == "a": b.kclear("p"); twin_ok = True
        elif op == "rew":
            if nscale[r] >= 2: continue
            w = rng.choice([Fraction(1, 2), Fraction(2), Fraction(3, 4), Fraction(1), Fraction(5)])
            b.kreweight(r, w); nscale[r] += 1
            if r == "a" and twin_ok: b.kreweight("p", w)
        elif op == "codec":
            b.emit("kenc e %s %d" % (r, rng.choice([0, 1])), "ok")
            kind = rng.choice(STORES); b.emit("kdec d e %s %s exact" % (kind, spec), "ok")
            js = b.emit("kstats " + r); b.emit("kstats d", ("same", js))          # round trip of the four statistics blocks
            jo = b.emit("kobs " + r); b.emit("kobs d", lambda a, env, impl, jo=jo: None)
        elif op == "decinto":
            o = rng.choice([x for x in regs if x != r]); b.emit("kenc e2 %s 0" % o, "ok"); b.emit("kdecinto %s e2" % r, "ok")
            b.vals[r] = b.vals[r] + b.vals[o]; nmerge[r] += 2 + nmerge[o]; nscale[r] += nscale[o]
            if r == "a": twin_ok = False
        elif op == "check": check(r)
    for r in regs: check(r)
    # quantile answers lie between the exact minimum and maximum and otherwise equal the plain sketch's answers
    if twin_ok and any(w > 0 for _, w in b.vals["a"]):
        js = b.emit("kstats a")
        for q in [0.0, 1.0, 0.5, rng.random(), rng.random()]:
            jp = b.emit("q p %s" % f2h(q))
            def chk(a, env, impl, jp=jp, js=js):
                fld = dict(x.split("=") for x in impl[js].split()); mn, mx = parse_F(fld["min"]), parse_F(fld["max"])
                y, yp = parse_F(a), parse_F(impl[jp])
                if not (mn <= y <= mx): return "exact-variant quantile %s lies outside [min, max] = [%s, %s]" % (a, fld["min"], fld["max"])
                want = min(max(yp, mn), mx)
                return None if y == want else "exact-variant quantile %s differs from the plain answer %s clamped to [min, max]" % (a, impl[jp])
            b.emit("q a %s" % f2h(q), chk)
    return b

def run(tier, seed):
    rng = random.Random(seed)
    ok, log = core.build_vrun()
    specs = [mapspec(rng)[0] for _ in range(10 if tier == "quick" else 40)]
    facts = sketchcheck.learn_specs("C10", specs) if ok else {}
    builders = [build(rng, facts, "x%d" % i) for i in range(300 if tier == "quick" else 8000)] if facts else []
    return sketchcheck.run_sketch_property(
        "C10", tier, seed, builders,
        "histories over three exact-summary sketches (random store kinds) and a plain twin: unit and dyadic-weight adds of arbitrary trackable values, weight-0 adds, rejected values (NaN, +-Inf, "
        "beyond the range, negative weight), merges, copies, clears, reweights, encode->decode round trips into other store kinds, decode into a non-empty sketch; checks: exact count = absorbed "
        "weight, min/max = true extremes of what was absorbed with positive weight, emptiness, sum within (5+2#scale+2#merge) 2^-53 sum|vw| (+ subnormal floor) in exact rationals, statistics "
        "identical after a codec round trip, quantiles inside [min,max] and equal to the clamped plain answer; the model side replays the Flocq binary64 transcription of the compensated summation "
        "and must match GetSum bit for bit. distinct_nontrivial = distinct histories")
