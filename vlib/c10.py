"""C10: exact summary statistics are exact across every operation."""
import random
from fractions import Fraction
from . import core, sketchcheck
from .sketchgen import Builder, mapspec, STORES, rand_values, spec_list
from .core import f2h, h2f, parse_F, nextafter

NAN = float("nan"); INF = float("inf")

def stats_oracle(vals, nscale, nmerge):
    def f(a, env):
        fld = dict(x.split("=") for x in a.split())
        W = sum(w for _, w in vals)
        if parse_F(fld["count"]) != W: return "exact count %s differs from the absorbed weight %s" % (fld["count"], W)
        pos = [Fraction(v) for v, w in vals if w > 0]
        if not pos:
            return None if fld["min"] == "-" and fld["max"] == "-" else "min/max reported on a sketch that absorbed nothing: %s" % a
        if parse_F(fld["min"]) != min(pos) or parse_F(fld["max"]) != max(pos): return "exact min/max %s/%s differ from the true extremes %s/%s" % (fld["min"], fld["max"], float(min(pos)), float(max(pos)))
        if fld["sum"] == "xnan": return "sum is NaN"
        true = sum(Fraction(v) * w for v, w in vals); mag = sum(abs(Fraction(v)) * w for v, w in vals)
        got = Fraction(h2f(fld["sum"][1:]))
        # constants of the proved bounds (Props/Kahan.v K_add_list_new: 8u; Props/Kahan2.v: +1u per scaling, ~6u per merge), second-order terms absorbed by +1
        bound = Fraction(9 + 2 * nscale + 6 * nmerge, 2 ** 53) * mag + Fraction(4 * len(vals) + 4, 2 ** 1074)
        if abs(got - true) > bound: return "exact sum %s is off the true sum %s by more than a few ulps of sum|v*w| (%s)" % (float(got), float(true), float(abs(got - true) / (mag or 1)))
        return None
    return f

def build(rng, facts, name):
    spec = rng.choice(sorted(facts)); f = facts[spec]; b = Builder(name)
    kinds = [(rng.choice(STORES), rng.choice(STORES)) for _ in range(3)]
    regs = ["a", "b2", "c"]
    for r, (kp, kn) in zip(regs, kinds): b.knew(r, spec, kp, kn, True)
    b.knew("p", spec, kinds[0][0], kinds[0][1], False)          # plain twin of a
    nscale = {r: 0 for r in regs}; nmerge = {r: 0 for r in regs}
    def check(r):
        b.emit("kstats " + r, stats_oracle(list(b.vals[r]), nscale[r], nmerge[r]))
        b.emit("kobs " + r, lambda a, env, vs=list(b.vals[r]): None if (("empty=1" in a.split(" pos[")[0]) == (sum(w for _, w in vs) == 0)) else "emptiness %r does not match absorbed weight %s" % (a.split(" pos[")[0], sum(w for _, w in vs)))
    twin_ok = True
    # one history in twelve only absorbs magnitudes the mapping cannot index (they go to the zero bucket), all of one sign: the plain sketch
    # answers 0 to every quantile, the exact variant must answer inside [min, max], which does not contain 0
    tiny = rng.random() < 0.08; tsign = rng.choice((1, -1))
    tinies = [x for x in (5e-324, 1e-320, f["min"] / 2, f["min"], f["min"] * 0.75) if x > 0]
    def one_value():
        return tsign * rng.choice(tinies) if tiny else rand_values(rng, 1, -3, 3)[0]
    for _ in range(rng.randint(4, 30)):
        op = rng.choice(["add"] * 8 + ["addw"] * 4 + ["add0", "bad", "merge", "copy", "clear", "rew", "codec", "decinto", "check", "check", "chmap"])
        r = rng.choice(regs)
        if op == "chmap" and not tiny:
            # a unit change (ChangeMapping with a dyadic scale, onto any mapping): the bins are split in floating point, the statistics stay exact
            sp2 = rng.choice(sorted(facts)); sc = rng.choice([1.0, 2.0, 0.5, 1.0, 8.0]); vs = [(v * sc, w) for v, w in b.vals[r]]
            b.emit("kchmap cm %s %s %s %s %s" % (r, sp2, rng.choice(["sparse", "pag", "dense"]), rng.choice(["sparse", "pag"]), f2h(sc)), "ok")
            b.emit("kstats cm", stats_oracle(vs, nscale[r] + 1, nmerge[r]))
            b.emit("kstats " + r, stats_oracle(list(b.vals[r]), nscale[r], nmerge[r]))
        elif op == "chmap": pass
        elif op == "add":
            v = one_value(); b.kadd(r, v)
            if r == "a" and twin_ok: b.kadd("p", v)
        elif op == "addw":
            v = one_value(); w = rng.choice([2.0, 0.5, 0.25, 3.0, 1024.0, 0.125])
            b.kadd(r, v, w)
            if r == "a" and twin_ok: b.kadd("p", v, w)
        elif op == "add0":
            b.kadd(r, rand_values(rng, 1, -3, 3)[0], 0.0)          # weight 0: accepted, changes nothing
        elif op == "bad":
            b.emit("kadd %s %s%s" % (r, f2h(rng.choice([NAN, INF, -INF, nextafter(f["max"], True)])), rng.choice(["", " " + f2h(0.0), " " + f2h(2.0)])),
                   lambda a, env: None if a.startswith("err") else "an untrackable value was accepted: %r" % a)
            b.emit("kadd %s %s %s" % (r, f2h(1.0), f2h(-1.0)), "err neg-count")
        elif op == "merge" and rng.random() < 0.25:
            # a merge refused for a different mapping (same kind and base, another offset) leaves count, sum, min and max as they were
            sib = "%s:g:%s:%s" % (f["kind"], f2h(f["gamma"]), f2h(f["off"] + rng.choice([1.0, -2.5, 40.0])))
            b.knew("sx", sib, rng.choice(STORES), rng.choice(STORES), True); b.kadd("sx", 1e3); b.kadd("sx", -1e3, 2.0)
            js = b.emit("kstats " + r); b.emit("kmerge %s sx" % r, "err mapping-mismatch"); b.emit("kstats " + r, ("same", js))
        elif op == "merge":
            o = rng.choice([x for x in regs if x != r]); b.kmerge(r, o); nmerge[r] += 1 + nmerge[o]; nscale[r] += nscale[o]
            if r == "a": twin_ok = False
        elif op == "copy":
            o = rng.choice([x for x in regs if x != r]); b.kcopy(o, r); nscale[o] = nscale[r]; nmerge[o] = nmerge[r]
            if o == "a": twin_ok = False
        elif op == "clear":
            b.kclear(r); nscale[r] = nmerge[r] = 0
            if r == "a": b.kclear("p"); twin_ok = True
        elif op == "rew":
            if nscale[r] >= 2: continue
            w = rng.choice([Fraction(1, 2), Fraction(2), Fraction(3, 4), Fraction(1), Fraction(5)])
            b.kreweight(r, w); nscale[r] += 1
            if r == "a" and twin_ok: b.kreweight("p", w)
        elif op == "codec":
            b.emit("kenc e %s %d" % (r, rng.choice([0, 1])), "ok")
            kind = rng.choice(STORES); b.emit("kdec d e %s %s exact" % (kind, spec), "ok")
            js = b.emit("kstats " + r); b.emit("kstats d", ("same", js))          # round trip of the four statistics blocks
            jo = b.emit("kobs " + r); b.emit("kobs d", lambda a, env, impl, jo=jo: None)
        elif op == "decinto":
            o = rng.choice([x for x in regs if x != r]); b.emit("kenc e2 %s 0" % o, "ok"); b.emit("kdecinto %s e2" % r, "ok")
            b.vals[r] = b.vals[r] + b.vals[o]; nmerge[r] += 2 + nmerge[o]; nscale[r] += nscale[o]
            if r == "a": twin_ok = False
        elif op == "check": check(r)
    for r in regs: check(r)
    # quantile answers lie between the exact minimum and maximum and otherwise equal the plain sketch's answers
    if twin_ok and any(w > 0 for _, w in b.vals["a"]):
        js = b.emit("kstats a")
        for q in [0.0, 1.0, 0.5, rng.random(), rng.random()]:
            jp = b.emit("q p %s" % f2h(q))
            def chk(a, env, impl, jp=jp, js=js):
                fld = dict(x.split("=") for x in impl[js].split()); mn, mx = parse_F(fld["min"]), parse_F(fld["max"])
                y, yp = parse_F(a), parse_F(impl[jp])
                if not (mn <= y <= mx): return "exact-variant quantile %s lies outside [min, max] = [%s, %s]" % (a, fld["min"], fld["max"])
                want = min(max(yp, mn), mx)
                return None if y == want else "exact-variant quantile %s differs from the plain answer %s clamped to [min, max]" % (a, impl[jp])
            b.emit("q a %s" % f2h(q), chk)
    # GetValuesAtQuantiles answers like the single queries, whatever the order of the list (each answer is clamped to [min, max] by itself)
    for r in regs:
        if any(w > 0 for _, w in b.vals[r]):
            qsl = [rng.random() for _ in range(rng.randint(1, 4))] + [0.0, 1.0, 0.0]; rng.shuffle(qsl)
            js = [b.emit("q %s %s" % (r, f2h(q))) for q in qsl]
            b.emit("qs %s %s" % (r, " ".join(f2h(q) for q in qsl)),
                   lambda a, env, impl, js=js: None if a == ",".join(impl[j] for j in js) else "GetValuesAtQuantiles answered %s where the single queries answer %s" % (a, ",".join(impl[j] for j in js)))
    return b


def build_direct(rng, name):
    """The statistics object used directly (stat.SummaryStatistics): every method, including the factors the sketch never
    passes (Reweight(0), negative and zero Rescale). Bit-for-bit against the Flocq instance; exact shadow for the tame programs."""
    b = Builder(name); wild = rng.random() < 0.4; b.meta = {"direct": True, "wild": wild}
    regs = ["t0", "t1", "t2"]; sh = {}
    for r in regs: b.emit("tempty " + r, "ok"); sh[r] = {"vals": [], "ext": [], "ns": 0}
    def val():
        if wild and rng.random() < 0.3: return rng.choice([INF, -INF, NAN, -0.0, 0.0, 1.7976931348623157e308, -1.7976931348623157e308, 5e-324, -5e-324, 2.0 ** 1000, 3.0])
        c = rng.random()
        return float(rng.randint(-1000, 1000)) if c < 0.4 else rng.choice([1, -1]) * 10 ** rng.uniform(-3, 3) if c < 0.8 else rng.choice([0.5, -0.25, 1024.0, 0.0])
    def cnt():
        if wild and rng.random() < 0.3: return rng.choice([0.0, -1.0, INF, NAN, 0.1, 1e300, 5e-324])
        return rng.choice([1.0, 1.0, 2.0, 0.5, 0.25, 3.0, 1024.0])
    def fac(kind):
        if wild and rng.random() < 0.3: return rng.choice([0.0, -0.0, INF, -INF, NAN, -1e300, 1e-320])
        if kind == "rescale": return rng.choice([2.0, 0.5, -1.0, -2.0, -0.5, 4.0, 0.0, 1.0, -8.0, 0.125])
        return rng.choice([2.0, 0.5, 0.0, 1.0, 4.0, 0.125, 3.0])
    def check(r):
        b.emit("tobsx " + r)
        if wild: b.emit("tobs " + r); return
        x = sh[r]; vals = list(x["vals"]); ext = list(x["ext"]); ns = x["ns"]
        def f(a, env, vals=vals, ext=ext, ns=ns):
            fld = dict(y.split("=") for y in a.split())
            W = sum(w for _, w in vals)
            if parse_F(fld["count"]) != W: return "count %s differs from the total weight %s" % (fld["count"], W)
            if not ext:
                if (fld["min"], fld["max"]) != ("+inf", "-inf"): return "empty statistics report min/max %s/%s" % (fld["min"], fld["max"])
            elif parse_F(fld["min"]) != min(ext) or parse_F(fld["max"]) != max(ext): return "min/max %s/%s differ from the true extremes %s/%s" % (fld["min"], fld["max"], float(min(ext)), float(max(ext)))
            true = sum(v * w for v, w in vals); mag = sum(abs(v) * w for v, w in vals); got = Fraction(h2f(fld["sum"][1:]))
            if abs(got - true) > Fraction(9 + 6 * ns, 2 ** 53) * mag + Fraction(4 * len(vals) + 4, 2 ** 1074): return "sum %s is off the true sum %s by more than a few ulps of sum|v*w|" % (float(got), float(true))
            return None
        b.emit("tobs " + r, f)
    for _ in range(rng.randint(5, 40)):
        op = rng.choice(["add"] * 8 + ["merge", "merge", "reweight", "rescale", "rescale", "clear", "copy", "check", "check", "addcount", "addsum", "new"])
        r = rng.choice(regs); x = sh[r]
        if op == "add":
            v, c = val(), cnt(); b.emit("tadd %s %s %s" % (r, f2h(v), f2h(c)), "ok")
            if not wild: x["vals"].append((Fraction(v), Fraction(c))); x["ext"].append(Fraction(v))
        elif op == "merge":
            o = rng.choice([y for y in regs if y != r]); b.emit("tmerge %s %s" % (r, o), "ok")
            x["vals"] += sh[o]["vals"]; x["ext"] += sh[o]["ext"]; x["ns"] += sh[o]["ns"] + 1
        elif op == "reweight":
            if x["ns"] >= 3 and not wild: continue
            f = fac("reweight"); b.emit("treweight %s %s" % (r, f2h(f)), "ok"); x["ns"] += 1
            if not wild:
                x["vals"] = [(v, w * Fraction(f)) for v, w in x["vals"]]
                if f == 0: x["ext"] = []; x["vals"] = []
        elif op == "rescale":
            if x["ns"] >= 3 and not wild: continue
            f = fac("rescale"); b.emit("trescale %s %s" % (r, f2h(f)), "ok"); x["ns"] += 1
            if not wild:
                nonzero = sum(w for _, w in x["vals"]) != 0
                x["vals"] = [(v * Fraction(f), w) for v, w in x["vals"]]
                x["ext"] = [e * Fraction(f) for e in x["ext"]] if (f != 0 or nonzero) else x["ext"]
        elif op == "clear": b.emit("tclear " + r, "ok"); sh[r] = {"vals": [], "ext": [], "ns": 0}
        elif op == "copy":
            o = rng.choice([y for y in regs if y != r]); b.emit("tcopy %s %s" % (o, r), "ok"); sh[o] = {"vals": list(x["vals"]), "ext": list(x["ext"]), "ns": x["ns"]}
            v = val(); b.emit("tadd %s %s %s" % (r, f2h(v), f2h(1.0)), "ok")          # independence of the copy
            if not wild: x["vals"].append((Fraction(v), Fraction(1))); x["ext"].append(Fraction(v))
            check(o)
        elif op == "addcount" and wild: b.emit("taddcount %s %s" % (r, f2h(cnt())), "ok")
        elif op == "addsum" and wild: b.emit("taddsum %s %s" % (r, f2h(val())), "ok")
        elif op == "new":
            c, sm, mn, mx = cnt(), val(), val(), val()
            if rng.random() < 0.5: mn, mx = min(mn, mx), max(mn, mx)
            if rng.random() < 0.2: c, mn, mx = 0.0, INF, -INF
            good = (c >= 0) and not (c > 0 and mn > mx) and not (c == 0 and (mn != INF or mx != -INF))
            b.emit("tnew %s %s %s %s %s" % (r, f2h(c), f2h(sm), f2h(mn), f2h(mx)), "ok" if good else "err bad-stats")
            if good:
                b.emit("tobsx " + r)
                sh[r] = {"vals": [], "ext": [], "ns": 0}
                if not wild: wild = True; b.meta["wild"] = True          # constructed statistics have no history: correspondence only from here on
        elif op == "check": check(r)
    for r in regs: check(r)
    return b

def run(tier, seed):
    rng = random.Random(seed)
    ok, log = core.build_vrun()
    specs = spec_list(rng, 10 if tier == "quick" else 40)
    facts = sketchcheck.learn_specs("C10", specs) if ok else {}
    builders = ([build(rng, facts, "x%d" % i) for i in range(300 if tier == "quick" else 8000)] + [build_direct(rng, "t%d" % i) for i in range(200 if tier == "quick" else 5000)]) if facts else []
    return sketchcheck.run_sketch_property(
        "C10", tier, seed, builders,
        "histories over three exact-summary sketches (random store kinds) and a plain twin: unit and dyadic-weight adds of arbitrary trackable values, weight-0 adds, rejected values (NaN, +-Inf, "
        "beyond the range, negative weight), merges, copies, clears, reweights, encode->decode round trips into other store kinds, decode into a non-empty sketch; checks: exact count = absorbed "
        "weight, min/max = true extremes of what was absorbed with positive weight, emptiness, sum within (9+2#scale+6#merge) 2^-53 sum|vw| (+ subnormal floor; the constants of the proved bounds Props/Kahan.v, Kahan2.v) in exact rationals, statistics "
        "identical after a codec round trip, quantiles inside [min,max] and equal to the clamped plain answer; the model side replays the Flocq binary64 transcription of the compensated summation "
        "and must match GetSum bit for bit. Second stream: stat.SummaryStatistics used directly (Add, AddToCount, AddToSum, MergeWith, Reweight incl. 0, Rescale incl. negative and zero factors, "
        "Clear, Copy, NewSummaryStatisticsFromData accept/refuse), 60% tame programs with an exact shadow (count, extremes, sum bound), 40% with infinities, NaN, -0, negative and huge counts, "
        "every observation compared bit for bit with the Flocq instance. distinct_nontrivial = distinct histories")
