"""Shared runner for sketch-level properties: runs Builders on the implementation and on the model,
evaluates literal / twin / exact-rational expectations on the implementation's answers, compares
with the model, shrinks, reports."""
import glob, os, random
from fractions import Fraction
from . import core
from .core import Case, h2f

class Env:
    """What the implementation told us in a case: mapping facts per sketch register."""
    def __init__(self): self.maps = {}
    def note(self, instr, sides):
        t = instr.split()
        if t[0] in ("knew", "knewc", "kdec", "kchmap", "kfromproto", "kdecinto"):
            for s in sides:
                if s.startswith("# map "):
                    f = dict(x.split("=") for x in s.split()[2:])
                    if "xnan" in f.values(): continue
                    self.maps[t[1]] = {"kind": f["kind"], "acc": Fraction(h2f(f["acc"][1:])), "min": Fraction(h2f(f["min"][1:])),
                                       "max": Fraction(h2f(f["max"][1:])), "gamma": f["gamma"], "off": f["off"]}
        elif t[0] == "kcopy" and t[2] in self.maps: self.maps[t[1]] = self.maps[t[2]]
    def alpha(self, k): return self.maps[k]["acc"]
    def minidx(self, k): return self.maps[k]["min"]

def evaluate(builder, impl, sides, model, ignore_model=()):
    """Returns the first failure (k, kind, detail) or None."""
    env = Env(); ins = core.instr_lines(builder.lines)
    for k, (l, a, sd, b) in enumerate(zip(ins, impl, sides, model)):
        env.note(l, sd)
        e = builder.exp[k] if k < len(builder.exp) else None
        if a == "panic" and e != "panic":
            return (k, "oracle", "the implementation panicked on %r" % l)
        if e is not None:
            if isinstance(e, str):
                if not core.lines_agree(a, e): return (k, "oracle", "%r answered %r, expected %r" % (l, a, e))
            elif isinstance(e, tuple) and e[0] == "same":
                if a != impl[e[1]]: return (k, "oracle", "%r answered %r but the equivalent query (line %d: %r) answered %r" % (l, a, e[1], ins[e[1]], impl[e[1]]))
            elif callable(e):
                try: msg = e(a, env, impl) if (e.__code__.co_argcount - len(e.__defaults__ or ())) >= 3 else e(a, env)
                except Exception as ex: msg = "oracle could not evaluate %r: %r" % (a, ex)
                if msg: return (k, "oracle", "%r: %s" % (l, msg))
        op = l.split()[0]
        if op in ignore_model or b == "unsupported" or getattr(builder, "no_model", False): continue
        if not core.lines_agree(a, b):
            return (k, "correspondence", "%r: implementation %r, model %r" % (l, a, b))
    return None

def run_sketch_property(pid, tier, seed, builders, rule, nontrivial=None, trusted_extra=(), key_fn=None, ignore_model=("kacc", "layout")):
    rep = core.Report(pid, tier, seed)
    ok, log = core.build_vrun()
    if not ok:
        rep.violation("build", {"what": "vrun does not build against /repo", "log": log[-3000:]}, found_input=False)
        core.proof_section(rep, pid, trusted_extra=trusted_extra); return rep.finish()
    core.proof_section(rep, pid, trusted_extra=trusted_extra)
    corpus = []
    for f in sorted(glob.glob(os.path.join(core.ROOT, "corpus", pid, "*.script"))):
        b = type("B", (), {})(); b.name = "corpus-" + os.path.basename(f)[:-7]
        b.lines = [l.rstrip("\n") for l in open(f) if l.strip() and not l.startswith("#")]
        b.exp = [None] * len(b.lines); b.meta = {"corpus": True}; b.case = lambda b=b: Case(b.name, b.lines, b.meta)
        corpus.append(b)
    allb = corpus + builders
    results = core.run_cases(pid, "main", [b.case() for b in allb])
    failing, stats = [], {"instructions": 0, "ops": {}, "model_unsupported_lines": 0, "errors_by_class": {}}
    nt = set()
    for b, (c, impl, sides, model) in zip(allb, results):
        ins = core.instr_lines(b.lines); stats["instructions"] += len(ins)
        for l, a, m in zip(ins, impl, model):
            op = l.split()[0]; stats["ops"][op] = stats["ops"].get(op, 0) + 1
            if m == "unsupported": stats["model_unsupported_lines"] += 1
            if a.startswith("err ") or a == "panic": stats["errors_by_class"][a] = stats["errors_by_class"].get(a, 0) + 1
        bad = evaluate(b, impl, sides, model, ignore_model)
        if bad: failing.append((b, bad))
        if nontrivial is None or nontrivial(b, impl): nt.add(hash(tuple(ins)))
    for b, (k, kind, detail) in failing[:5]:
        ins = core.instr_lines(b.lines)[:k + 1]
        small = ins
        if kind == "correspondence":
            def still(ls):
                r = core.run_cases(pid, "shrink", [Case("shrink", ls)])[0]
                return core.first_mismatch(r[0], r[1], r[3], ignore=ignore_model) is not None
            try:
                if still(ins): small = core.ddmin(ins, still, budget=60 if tier == "quick" else 200)
            except Exception as e: rep.notes.append("shrinking failed: %r" % e)
        r = core.run_cases(pid, "shrink", [Case("final", small)])[0]
        rep.violation("case-" + b.name, {"clause": detail, "kind": kind, "script": small, "implementation": r[1][-12:], "model": r[3][-12:],
                                         "original_case": b.name, "how_to_replay": "./check --replay <this file>"},
                      found_input=True, key=(key_fn(small, r[1]) if key_fn else None))
    rep.coverage.update({"evaluations": len(allb), "distinct_nontrivial": len(nt), "rule": rule,
                         "samples": [allb[len(allb) // 2].lines[:20]] if allb else [], "distribution": stats, "failing_cases": len(failing)})
    rep.assumptions = ["weights are dyadic with bounded totals so that float64 arithmetic on them is exact",
                       "the sketch model runs on the Index/Value table observed from the implementation (the mappings are C03/C19's subject)",
                       "tolerances: eps_fp = 1e-12 relative on accuracy clauses"]
    return rep.finish()

def learn_specs(pid, specs):
    """Phase 0: ask the implementation for the facts of each mapping spec (range, reported accuracy, index range)."""
    specs = sorted(set(specs)); lines = []
    for i, s in enumerate(specs): lines.append("mnew m%d %s" % (i, s))
    c, impl, sides, model = core.run_cases(pid, "specs", [Case("specs", lines)])[0]
    out = {}
    for s, a, sd in zip(specs, impl, sides):
        for x in sd:
            if x.startswith("# map "):
                f = dict(y.split("=") for y in x.split()[2:])
                if "xnan" in f.values(): continue
                out[s] = {"min": h2f(f["min"][1:]), "max": h2f(f["max"][1:]), "acc": h2f(f["acc"][1:]), "gamma": h2f(f["gamma"][1:]), "off": h2f(f["off"][1:]), "kind": f["kind"]}
    lines = []
    for i, s in enumerate(specs):
        if s in out: lines += ["mnew m%d %s" % (i, s), "midx m%d %s" % (i, core.f2h(out[s]["min"])), "midx m%d %s" % (i, core.f2h(out[s]["max"]))]
    if lines:
        c, impl, sides, model = core.run_cases(pid, "specs2", [Case("specs2", lines)])[0]
        k = 0
        for s in specs:
            if s in out:
                try: out[s]["imin"], out[s]["imax"] = int(impl[k + 1]), int(impl[k + 2])
                except ValueError: out[s]["imin"], out[s]["imax"] = -100, 100
                k += 3
    return out

def learn_edges(pid, facts, rng, per_spec=8, lo=1e-3, hi=1e3):
    """Phase 0b: bin edges of each mapping as the implementation computes them (LowerBound of random bins)."""
    specs = sorted(facts); lines = []; probes = []
    for i, s in enumerate(specs):
        lines.append("mnew m%d %s" % (i, s))
        for _ in range(per_spec):
            v = 10 ** rng.uniform(__import__("math").log10(lo), __import__("math").log10(hi)); probes.append((s, i)); lines.append("midx m%d %s" % (i, core.f2h(v)))
    c, impl, sides, model = core.run_cases(pid, "edges0", [Case("e", lines)])[0]
    idx = {}; j = 0
    for l, a in zip(lines, impl):
        if l.startswith("midx"):
            s, i = probes[j]; j += 1
            try: idx.setdefault(s, []).append(int(a))
            except ValueError: pass
    lines = []
    for i, s in enumerate(specs):
        lines.append("mnew m%d %s" % (i, s))
        for k in idx.get(s, []): lines += ["mlow m%d %d" % (i, k), "mlow m%d %d" % (i, k + 1)]
    c, impl, sides, model = core.run_cases(pid, "edges1", [Case("e", lines)])[0]
    out = {s: [] for s in specs}; cur = None
    for l, a in zip(lines, impl):
        t = l.split()
        if t[0] == "mnew": cur = specs[int(t[1][1:])]
        elif a.startswith("x") and a != "xnan":
            v = h2f(a[1:])
            if v == v and 0 < v < float("inf"): out[cur].append(v)
    return out
