"""./check --replay <file>: re-executes a replay file on the current tree (implementation and model side by side)."""
import json, sys
from . import core
from .core import Case

def main(path):
    d = json.load(open(path)); pid = d.get("property", "replay")
    ok, log = core.build_vrun()
    if not ok: print("vrun does not build:\n" + log[-2000:]); return 2
    script = d.get("script")
    if not script:
        print(json.dumps(d, indent=1)[:4000]); print("(no script in this replay: it names a theorem or correspondence that no longer checks)"); return 1
    (c, impl, sides, model) = core.run_cases(pid, "replay", [Case("replay", script)])[0]
    bad = 0
    for l, a, b in zip(core.instr_lines(script), impl, model):
        flag = "" if core.lines_agree(a, b) else "   <-- differs from the model"
        if a == "panic": flag += "   <-- panic"
        if flag: bad += 1
        print("%-60s | impl: %s | model: %s%s" % (l[:60], a[:90], b[:90], flag))
    print("clause recorded in the replay:", d.get("clause", d.get("what")))
    return 1 if bad else 0
