"""C04: non-collapsing stores behave as exact index -> count maps."""
import random
from fractions import Fraction
from . import storecheck, storegen
from .core import Case

def pag_cycles(rng):
    """Deliberate: the paginated store around its compaction points. Phases of [k unit adds inside one page, then j unit adds far
    apart in random / decreasing order] with k, j around the buffer capacities and trigger lengths (32, 64, 96, 128), observed only
    at the end of a phase (a read in the middle would re-sort the buffer and hide stale-order bugs)."""
    out = []
    sizes = [31, 32, 33, 47, 63, 64, 65, 95, 96, 97, 127, 128, 129]
    for j in range(60):
        kind = rng.choice(["pag", "pag", "pag", "sparse", "dense"]); lines = ["new s " + kind, "new t sparse"]; exp = ["ok", "ok"]
        sh = storegen.Shadow(kind); st = storegen.Shadow("sparse")
        base = rng.randint(-3000, 3000) * 32
        for phase in range(rng.randint(1, 4)):
            k = rng.choice(sizes); page = base + 32 * rng.randint(-3, 3)
            for _ in range(k):
                i = page + rng.randint(0, 31); lines.append("add s %d" % i); exp.append("ok"); sh.add(i, Fraction(1))
            far = [base + 32 * rng.randint(-60, 60) + rng.randint(0, 31) for _ in range(rng.choice(sizes + [0, 1, 5]))]
            order = rng.choice(["dec", "inc", "rand"])
            far = sorted(far, reverse=(order == "dec")) if order != "rand" else far
            for i in far:
                lines.append("add s %d" % i); exp.append("ok"); sh.add(i, Fraction(1))
            lines.append("obs s"); exp.append(sh.obsline())
            tot = sh.total()
            for r in [Fraction(0), tot - 1, tot / 2, Fraction(int(tot) // 3), tot - Fraction(1, 2), Fraction(rng.randint(0, int(tot)))]:
                if r >= 0: lines.append("rank s %s" % storegen.wh(r)); exp.append(str(sh.rank(r)))
            if rng.random() < 0.3: lines += ["merge t s", "obs t"]; st.merge(sh); exp += ["ok", st.obsline()]
        lines.append("layout s"); exp.append(None)
        out.append((Case("cyc%d" % j, lines, {"kinds": [kind, "sparse"]}), exp))
    return out

def far_codec(rng):
    """Deliberate: encodings whose consecutive indexes are more than 2^31 apart (the indexes fit in an int32, their differences do not), written by
    a hash-map store or by a paginated store holding them as buffered unit entries, read back by the hash-map and paginated decoders."""
    out = []; I32MAX, I32MIN = 2 ** 31 - 1, -2 ** 31
    for j in range(24):
        src = rng.choice(["sparse", "pag"]); dst = rng.choice(["sparse", "pag", "sparse"])
        lines = ["new s " + src, "new d " + dst]; exp = ["ok", "ok"]; sh, sd = storegen.Shadow(src), storegen.Shadow(dst)
        idx = rng.choice([[-1200000000, 1200000000], [I32MIN, 0], [I32MIN, I32MAX], [-2 ** 30 - 5, 17, 2 ** 30 + 9], [I32MIN + 3, -1, I32MAX - 2], [0, I32MAX]])
        for i in idx + [rng.choice(idx)]:
            if src == "pag" or rng.random() < 0.5: lines.append("add s %d" % i); exp.append("ok"); sh.add(i, Fraction(1))
            else: w = rng.choice([Fraction(5, 2), Fraction(3)]); lines.append("addw s %d %s" % (i, storegen.wh(w))); exp.append("ok"); sh.add(i, w)
        if rng.random() < 0.5: lines.append("add d %d" % idx[0]); exp.append("ok"); sd.add(idx[0], Fraction(1))
        lines += ["enc b s pos", "obs s", "dec d b"]; exp += ["ok", sh.obsline(), "ok"]; sd.merge(sh)
        lines += ["obs d"]; exp += [sd.obsline()]
        tot = sd.total()
        for r in [Fraction(0), tot - 1, tot / 2]:
            if float(r) == r: lines.append("rank d %s" % storegen.wh(r)); exp.append(str(sd.rank(r)))
        out.append((Case("far%d" % j, lines, {"kinds": [src, dst]}), exp))
    return out

def run(tier, seed):
    return storecheck.run_store_property(
        "C04", tier, seed, ["dense", "sparse", "pag", "pag", "dense"], 400 if tier == "quick" else 12000,
        "random programs over 2-4 store registers of kinds dense/sparse/paginated: unit, weighted and bin additions, cross-kind merges, copies "
        "(followed by a mutation of one side), clears, reweightings, encode->decode into another register, bursts of unit adds (buffer compaction, "
        "array growth/shift), observers after every structural step, KeyAtRank at every cumulative boundary +-2^-10, negative and >= total; indexes clustered, "
        "page/array-boundary aligned, near the int32 extremes, far apart when no dense store is involved; plus 60 'compaction cycle' programs on the paginated store "
        "(k in-page unit adds then j far-apart adds in decreasing/increasing/random order, k and j around 32/64/96/128, observed only at phase ends) and 24 round trips of "
        "hash-map / buffered paginated stores whose consecutive indexes are more than 2^31 apart. "
        "distinct_nontrivial = distinct programs with at least two observations of a store holding two or more bins",
        extra_cases=lambda rng: pag_cycles(rng) + far_codec(rng))
