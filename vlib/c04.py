"""C04: non-collapsing stores behave as exact index -> count maps."""
from . import storecheck
def run(tier, seed):
    return storecheck.run_store_property(
        "C04", tier, seed, ["dense", "sparse", "pag", "pag", "dense"], 400 if tier == "quick" else 12000,
        "random programs over 2-4 store registers of kinds dense/sparse/paginated: unit, weighted and bin additions, cross-kind merges, copies "
        "(followed by a mutation of one side), clears, reweightings, encode->decode into another register, bursts of unit adds (buffer compaction, "
        "array growth/shift), observers after every structural step, KeyAtRank at every cumulative boundary +-2^-10, negative and >= total; indexes clustered, "
        "page/array-boundary aligned, near the int32 extremes, far apart when no dense store is involved. distinct_nontrivial = distinct programs with at "
        "least two observations of a store holding two or more bins")
