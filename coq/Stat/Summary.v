(* Layer B, bit-exact: ddsketch/stat/summary.go on Flocq binary64 (compensated summation as written). *)
From Flocq Require Import IEEE754.BinarySingleNaN IEEE754.Binary IEEE754.Bits.
From SK Require Import Base.Prelude Base.F64.

Record summary := { su_count : f64; su_sum : f64; su_comp : f64; su_simple : f64; su_min : f64; su_max : f64 }.
Definition su_new : summary :=
  {| su_count := f64_zero; su_sum := f64_zero; su_comp := f64_zero; su_simple := f64_zero; su_min := f64_pinf; su_max := f64_ninf |}.

Definition su_sum_with_comp (s : summary) (v : f64) : summary :=
  let tmp := fsub v (su_comp s) in
  let velvel := fadd (su_sum s) tmp in
  {| su_count := su_count s; su_sum := velvel; su_comp := fsub (fsub velvel (su_sum s)) tmp;
     su_simple := su_simple s; su_min := su_min s; su_max := su_max s |}.
Definition su_add_to_count (s : summary) (c : f64) : summary :=
  {| su_count := fadd (su_count s) c; su_sum := su_sum s; su_comp := su_comp s; su_simple := su_simple s; su_min := su_min s; su_max := su_max s |}.
Definition su_add_to_sum (s : summary) (a : f64) : summary :=
  let s1 := su_sum_with_comp s a in
  {| su_count := su_count s1; su_sum := su_sum s1; su_comp := su_comp s1; su_simple := fadd (su_simple s1) a; su_min := su_min s1; su_max := su_max s1 |}.
Definition su_minmax (s : summary) (v : f64) : summary :=
  {| su_count := su_count s; su_sum := su_sum s; su_comp := su_comp s; su_simple := su_simple s;
     su_min := if flt v (su_min s) then v else su_min s; su_max := if flt (su_max s) v then v else su_max s |}.
Definition su_add (s : summary) (v c : f64) : summary :=
  su_minmax (su_add_to_sum (su_add_to_count s c) (fmul v c)) v.
Definition su_merge (s o : summary) : summary :=
  let s1 := su_add_to_count s (su_count o) in
  let s2 := su_sum_with_comp (su_sum_with_comp s1 (su_sum o)) (su_comp o) in
  {| su_count := su_count s2; su_sum := su_sum s2; su_comp := su_comp s2; su_simple := fadd (su_simple s2) (su_simple o);
     su_min := if flt (su_min o) (su_min s2) then su_min o else su_min s2;
     su_max := if flt (su_max s2) (su_max o) then su_max o else su_max s2 |}.
Definition su_get_sum (s : summary) : f64 :=
  let tmp := fadd (su_sum s) (su_comp s) in
  if f_is_nan tmp && negb (f_is_finite (su_simple s)) && negb (f_is_nan (su_simple s)) then su_simple s else tmp.
Definition su_reweight (s : summary) (f : f64) : summary :=
  let z := feq f f64_zero in
  {| su_count := fmul (su_count s) f; su_sum := fmul (su_sum s) f; su_comp := fmul (su_comp s) f; su_simple := fmul (su_simple s) f;
     su_min := if z then f64_pinf else su_min s; su_max := if z then f64_ninf else su_max s |}.
Definition su_rescale (s : summary) (f : f64) : summary :=
  let base mn mx := {| su_count := su_count s; su_sum := fmul (su_sum s) f; su_comp := fmul (su_comp s) f;
                       su_simple := fmul (su_simple s) f; su_min := mn; su_max := mx |} in
  if flt f64_zero f then base (fmul (su_min s) f) (fmul (su_max s) f)
  else if flt f f64_zero then base (fmul (su_max s) f) (fmul (su_min s) f)
  else if negb (feq (su_count s) f64_zero) then base f64_zero f64_zero
  else base (su_min s) (su_max s).
(* NewSummaryStatisticsFromData: None = refused *)
Definition su_from_data (count sum mn mx : f64) : option summary :=
  if negb (fle f64_zero count) then None
  else if flt f64_zero count && flt mx mn then None
  else if feq count f64_zero && (negb (feq mn f64_pinf) || negb (feq mx f64_ninf)) then None
  else Some {| su_count := count; su_sum := sum; su_comp := f64_zero; su_simple := sum; su_min := mn; su_max := mx |}.
