(* Layer B: ddsketch/stat/summary.go, written once over an abstract float arithmetic and
   instantiated twice: on Flocq binary64 (the bit-exact shadow that runs against the
   implementation) and on exact extended rationals (the instance the algebraic theorems are
   about). The compensated summation is transcribed as written. Definitions only. *)
From Flocq Require Import IEEE754.BinarySingleNaN IEEE754.Binary IEEE754.Bits.
From SK Require Import Base.Prelude Base.F64.

Section Generic.
Variable F : Type.
Variables (add sub mul : F -> F -> F) (lt eq : F -> F -> bool) (is_nan is_inf : F -> bool) (zero pinf ninf : F).

Record gsummary := { g_count : F; g_sum : F; g_comp : F; g_simple : F; g_min : F; g_max : F }.
Definition g_new : gsummary :=
  {| g_count := zero; g_sum := zero; g_comp := zero; g_simple := zero; g_min := pinf; g_max := ninf |}.

Definition g_sum_with_comp (s : gsummary) (v : F) : gsummary :=
  let tmp := sub v (g_comp s) in
  let velvel := add (g_sum s) tmp in
  {| g_count := g_count s; g_sum := velvel; g_comp := sub (sub velvel (g_sum s)) tmp;
     g_simple := g_simple s; g_min := g_min s; g_max := g_max s |}.
Definition g_add_to_count (s : gsummary) (c : F) : gsummary :=
  {| g_count := add (g_count s) c; g_sum := g_sum s; g_comp := g_comp s; g_simple := g_simple s; g_min := g_min s; g_max := g_max s |}.
Definition g_add_to_sum (s : gsummary) (a : F) : gsummary :=
  let s1 := g_sum_with_comp s a in
  {| g_count := g_count s1; g_sum := g_sum s1; g_comp := g_comp s1; g_simple := add (g_simple s1) a; g_min := g_min s1; g_max := g_max s1 |}.
Definition g_minmax (s : gsummary) (v : F) : gsummary :=
  {| g_count := g_count s; g_sum := g_sum s; g_comp := g_comp s; g_simple := g_simple s;
     g_min := if lt v (g_min s) then v else g_min s; g_max := if lt (g_max s) v then v else g_max s |}.
(* Add(value, count) *)
Definition g_add (s : gsummary) (v c : F) : gsummary :=
  g_minmax (g_add_to_sum (g_add_to_count s c) (mul v c)) v.
Definition g_merge (s o : gsummary) : gsummary :=
  let s1 := g_add_to_count s (g_count o) in
  let s2 := g_sum_with_comp (g_sum_with_comp s1 (g_sum o)) (g_comp o) in
  {| g_count := g_count s2; g_sum := g_sum s2; g_comp := g_comp s2; g_simple := add (g_simple s2) (g_simple o);
     g_min := if lt (g_min o) (g_min s2) then g_min o else g_min s2;
     g_max := if lt (g_max s2) (g_max o) then g_max o else g_max s2 |}.
(* Sum() *)
Definition g_get_sum (s : gsummary) : F :=
  let tmp := add (g_sum s) (g_comp s) in
  if is_nan tmp && is_inf (g_simple s) then g_simple s else tmp.
Definition g_reweight (s : gsummary) (f : F) : gsummary :=
  let z := eq f zero in
  {| g_count := mul (g_count s) f; g_sum := mul (g_sum s) f; g_comp := mul (g_comp s) f; g_simple := mul (g_simple s) f;
     g_min := if z then pinf else g_min s; g_max := if z then ninf else g_max s |}.
Definition g_rescale (s : gsummary) (f : F) : gsummary :=
  let base mn mx := {| g_count := g_count s; g_sum := mul (g_sum s) f; g_comp := mul (g_comp s) f;
                       g_simple := mul (g_simple s) f; g_min := mn; g_max := mx |} in
  if lt zero f then base (mul (g_min s) f) (mul (g_max s) f)
  else if lt f zero then base (mul (g_max s) f) (mul (g_min s) f)
  else if negb (eq (g_count s) zero) then base zero zero
  else base (g_min s) (g_max s).
End Generic.

(* ---- instance 1: IEEE binary64 (Flocq) ---- *)
Definition f_is_inf (x : f64) : bool := negb (f_is_finite x) && negb (f_is_nan x).
Definition summary := gsummary f64.
Definition su_count : summary -> f64 := @g_count f64.
Definition su_sum : summary -> f64 := @g_sum f64.
Definition su_comp : summary -> f64 := @g_comp f64.
Definition su_simple : summary -> f64 := @g_simple f64.
Definition su_min : summary -> f64 := @g_min f64.
Definition su_max : summary -> f64 := @g_max f64.
Definition su_new : summary := g_new f64 f64_zero f64_pinf f64_ninf.
Definition su_add_to_count : summary -> f64 -> summary := g_add_to_count f64 fadd.
Definition su_add_to_sum : summary -> f64 -> summary := g_add_to_sum f64 fadd fsub.
Definition su_add : summary -> f64 -> f64 -> summary := g_add f64 fadd fsub fmul flt.
Definition su_merge : summary -> summary -> summary := g_merge f64 fadd fsub flt.
Definition su_get_sum : summary -> f64 := g_get_sum f64 fadd f_is_nan f_is_inf.
Definition su_reweight : summary -> f64 -> summary := g_reweight f64 fmul feq f64_zero f64_pinf f64_ninf.
Definition su_rescale : summary -> f64 -> summary := g_rescale f64 fmul flt feq f64_zero.
(* NewSummaryStatisticsFromData: None = refused *)
Definition su_from_data (count sum mn mx : f64) : option summary :=
  if negb (fle f64_zero count) then None
  else if flt f64_zero count && flt mx mn then None
  else if feq count f64_zero && (negb (feq mn f64_pinf) || negb (feq mx f64_ninf)) then None
  else Some {| g_count := count; g_sum := sum; g_comp := f64_zero; g_simple := sum; g_min := mn; g_max := mx |}.

(* ---- instance 2: exact extended rationals (NaN, +-Inf, finite Qc) ---- *)
Definition xadd (a b : fval) : fval :=
  match a, b with
  | FNaN, _ | _, FNaN => FNaN
  | FInf s, FInf t => if Bool.eqb s t then FInf s else FNaN
  | FInf s, _ | _, FInf s => FInf s
  | FFin x, FFin y => FFin (Qcplus x y)
  end.
Definition xneg (a : fval) : fval := match a with FNaN => FNaN | FInf s => FInf (negb s) | FFin x => FFin (Qcopp x) end.
Definition xsub (a b : fval) : fval := xadd a (xneg b).
Definition xsign (x : Qc) : comparison := Qccompare x w0.
Definition xmul (a b : fval) : fval :=
  match a, b with
  | FNaN, _ | _, FNaN => FNaN
  | FFin x, FFin y => FFin (Qcmult x y)
  | FInf s, FInf t => FInf (xorb s t)
  | FInf s, FFin y | FFin y, FInf s => match xsign y with Eq => FNaN | Gt => FInf s | Lt => FInf (negb s) end
  end.
Definition xlt (a b : fval) : bool :=
  match a, b with
  | FNaN, _ | _, FNaN => false
  | FFin x, FFin y => wltb x y
  | FInf true, FInf true => false | FInf true, _ => true
  | _, FInf true => false
  | FInf false, _ => false
  | FFin _, FInf false => true
  end.
Definition xeq (a b : fval) : bool :=
  match a, b with
  | FFin x, FFin y => weqb x y
  | FInf s, FInf t => Bool.eqb s t
  | _, _ => false
  end.
Definition x_is_nan (a : fval) : bool := match a with FNaN => true | _ => false end.
Definition x_is_inf (a : fval) : bool := match a with FInf _ => true | _ => false end.
Definition xzero : fval := FFin w0.
Definition xsummary := gsummary fval.
Definition xs_new : xsummary := g_new fval xzero (FInf false) (FInf true).
Definition xs_add : xsummary -> fval -> fval -> xsummary := g_add fval xadd xsub xmul xlt.
Definition xs_merge : xsummary -> xsummary -> xsummary := g_merge fval xadd xsub xlt.
Definition xs_get_sum : xsummary -> fval := g_get_sum fval xadd x_is_nan x_is_inf.
Definition xs_reweight : xsummary -> fval -> xsummary := g_reweight fval xmul xeq xzero (FInf false) (FInf true).
Definition xs_rescale : xsummary -> fval -> xsummary := g_rescale fval xmul xlt xeq xzero.
Definition xs_add_to_count : xsummary -> fval -> xsummary := g_add_to_count fval xadd.
Definition xs_add_to_sum : xsummary -> fval -> xsummary := g_add_to_sum fval xadd xsub.
