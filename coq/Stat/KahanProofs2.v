(* Follow-up to Stat/KahanProofs.v: Reweight / Rescale (sum and sumCompensation are multiplied separately), a
   composable error-tracking calculus for histories of Add / Merge / Reweight / Rescale with the closed form for
   Add + scalings, and the overflow fallback of Sum().  Same conventions: a state stands for sum - comp. *)
From Coq Require Import Bool ZArith Reals Lra Lia Psatz List.
From Flocq Require Import Core.Core Plus_error Relative Sterbenz IEEE754.BinarySingleNaN IEEE754.Binary IEEE754.Bits.
From SK Require Import Base.Prelude Base.F64 Base.F64Proofs Stat.Summary Mapping.Glue Mapping.GlueProofs Stat.KahanProofs.
Import ListNotations.

#[local] Existing Instance prec53_gt_0.
#[local] Existing Instance fexp64_valid.
Local Open Scope R_scope.

Notation val x := (B2R 53 1024 x).
Notation finite x := (is_finite 53 1024 x = true).
Notation fmt x := (generic_format radix2 (FLT_exp (-1074) 53) x).
Notation u53 := (bpow radix2 (-53)).
Notation eta64 := (bpow radix2 (-1075)).
Notation alpha := (2 * u53 + 5 * u53 ^ 2).

(* ------------------------------------------------------------------ *)
(* 1. scaling on real numbers                                           *)
(* ------------------------------------------------------------------ *)
Definition kscaleR (st : R * R) (f : R) : R * R := (rndR (fst st * f), rndR (snd st * f)).

Lemma eta64_pos : 0 < eta64.
Proof. apply bpow_gt_0. Qed.

Lemma kscaleR_fmt (st : R * R) (f : R) : fmt (fst (kscaleR st f)) /\ fmt (snd (kscaleR st f)).
Proof. split; apply rndR_fmt. Qed.

(* the represented number is scaled up to one rounding of each component *)
Lemma kscaleR_err (st : R * R) (f : R) :
  Rabs (rsumR (kscaleR st f) - f * rsumR st) <= u53 * Rabs f * (Rabs (fst st) + Rabs (snd st)) + 2 * eta64.
Proof.
  destruct st as (s, c). unfold kscaleR, rsumR. cbn [fst snd].
  pose proof (rndR_err (s * f)) as H1. pose proof (rndR_err (c * f)) as H2.
  rewrite Rabs_mult in H1, H2.
  replace (rndR (s * f) - rndR (c * f) - f * (s - c)) with ((rndR (s * f) - s * f) - (rndR (c * f) - c * f)) by ring.
  unfold Rminus at 1. eapply Rle_trans; [apply Rabs_triang|]. rewrite Rabs_Ropp. nra.
Qed.

Lemma kscaleR_comp (st : R * R) (f : R) :
  Rabs (snd (kscaleR st f)) <= (1 + u53) * Rabs f * Rabs (snd st) + eta64.
Proof.
  destruct st as (s, c). unfold kscaleR. cbn [fst snd].
  pose proof (rndR_err (c * f)) as H. rewrite Rabs_mult in H.
  replace (rndR (c * f)) with ((rndR (c * f) - c * f) + c * f) by ring.
  eapply Rle_trans; [apply Rabs_triang|]. rewrite (Rabs_mult c f). nra.
Qed.

Lemma kscaleR_sum_lower (st : R * R) (f : R) :
  Rabs (fst st * f) <= (Rabs (fst (kscaleR st f)) + eta64) / (1 - u53).
Proof.
  destruct st as (s, c). unfold kscaleR. cbn [fst snd]. pose proof u53_bounds as Hu.
  pose proof (rndR_err (s * f)) as H.
  assert (Rabs (s * f) <= Rabs (rndR (s * f)) + Rabs (rndR (s * f) - s * f)).
  { replace (s * f) with (rndR (s * f) - (rndR (s * f) - s * f)) at 1 by ring.
    unfold Rminus at 1. eapply Rle_trans; [apply Rabs_triang|]. rewrite Rabs_Ropp. lra. }
  apply Rmult_le_reg_r with (1 - u53); [lra|]. unfold Rdiv. rewrite Rmult_assoc, Rinv_l by lra. lra.
Qed.

(* two-parameter invariant: |comp| <= k u |sum| + e.  An addition (or a merge) re-establishes (2, 0) from ANY
   state of floats (KahanProofs.kstepR_wf); a scaling by f maps (k, e) to (k (1 + 3u), (1 + u)|f| e + 2 eta) *)
Definition wfK (k e : R) (st : R * R) : Prop :=
  fmt (fst st) /\ fmt (snd st) /\ Rabs (snd st) <= k * u53 * Rabs (fst st) + e.

Lemma wfK_of_wfR (st : R * R) : wfR st -> wfK 2 0 st.
Proof. intros (A & B & C). repeat split; try assumption. lra. Qed.

Lemma kstepR_wfK (st : R * R) (x : R) : fmt (fst st) -> fmt (snd st) -> fmt x -> wfK 2 0 (kstepR st x).
Proof.
  intros Fs Fc Fx. destruct (kstepR_fmt st x) as (A & B). repeat split; try assumption.
  pose proof (kstepR_wf st x Fs Fc Fx). lra.
Qed.

Lemma kscaleR_wfK (k e f : R) (st : R * R) : 0 <= k -> k * u53 <= / 2 -> 0 <= e -> wfK k e st ->
  wfK (k * (1 + 3 * u53)) ((1 + u53) * Rabs f * e + 2 * eta64) (kscaleR st f).
Proof.
  intros Hk Hku He (Fs & Fc & W). destruct (kscaleR_fmt st f) as (A & B). split; [exact A|]. split; [exact B|].
  pose proof u53_bounds as Hu. pose proof eta64_pos as Hn.
  pose proof (kscaleR_comp st f) as Hc. pose proof (kscaleR_sum_lower st f) as Hs.
  set (s' := Rabs (fst (kscaleR st f))) in *. set (c' := Rabs (snd (kscaleR st f))) in *.
  rewrite Rabs_mult in Hs.
  pose proof (Rabs_pos f) as Hf. pose proof (Rabs_pos (fst st)) as Hs0. pose proof (Rabs_pos (snd st)) as Hc0.
  assert (Hs' : 0 <= s') by apply Rabs_pos.
  assert (H1 : Rabs f * Rabs (snd st) <= k * u53 * (Rabs (fst st) * Rabs f) + Rabs f * e) by nra.
  assert (Hd : (1 + u53) * / (1 - u53) <= 1 + 3 * u53).
  { apply Rmult_le_reg_r with (1 - u53); [lra|]. rewrite Rmult_assoc, Rinv_l by (apply Rgt_not_eq; lra). nra. }
  assert (H2 : (1 + u53) * (Rabs (fst st) * Rabs f) <= (s' + eta64) * (1 + 3 * u53)).
  { eapply Rle_trans; [apply Rmult_le_compat_l; [lra|exact Hs]|].
    unfold Rdiv. replace ((1 + u53) * ((s' + eta64) * / (1 - u53))) with ((s' + eta64) * ((1 + u53) * / (1 - u53))) by ring.
    apply Rmult_le_compat_l; lra. }
  assert (H3 : k * u53 * ((1 + u53) * (Rabs (fst st) * Rabs f)) <= k * u53 * ((s' + eta64) * (1 + 3 * u53))).
  { apply Rmult_le_compat_l; nra. }
  assert (H4 : k * u53 * (eta64 * (1 + 3 * u53)) <= / 2 * (eta64 * 2)).
  { apply Rmult_le_compat; nra. }
  assert (H5 : (1 + u53) * (Rabs f * Rabs (snd st)) <= k * u53 * ((1 + u53) * (Rabs (fst st) * Rabs f)) + (1 + u53) * Rabs f * e).
  { replace (k * u53 * ((1 + u53) * (Rabs (fst st) * Rabs f)) + (1 + u53) * Rabs f * e)
      with ((1 + u53) * (k * u53 * (Rabs (fst st) * Rabs f) + Rabs f * e)) by ring.
    apply Rmult_le_compat_l; lra. }
  nra.
Qed.

(* scaling by a power of two is exact on a float whose image stays in the normal range *)
Lemma fmt_mult_bpow (x : R) (e : Z) : fmt x -> x = 0 \/ bpow radix2 (-1022) <= Rabs (x * bpow radix2 e) ->
  fmt (x * bpow radix2 e).
Proof.
  intros Fx [Z|N]; [rewrite Z, Rmult_0_l; apply fmt_0|].
  assert (Hx : x <> 0).
  { intros Z. rewrite Z, Rmult_0_l, Rabs_R0 in N. pose proof (bpow_gt_0 radix2 (-1022)). lra. }
  set (fexp := FLT_exp (-1074) 53) in *.
  set (m := Ztrunc (scaled_mantissa radix2 fexp x)).
  assert (Ex : x = F2R (Float radix2 m (cexp radix2 fexp x))) by exact Fx.
  assert (Ey : x * bpow radix2 e = F2R (Float radix2 m (cexp radix2 fexp x + e))).
  { rewrite Ex at 1. unfold F2R. cbn [Fnum Fexp]. rewrite bpow_plus. ring. }
  rewrite Ey. apply generic_format_F2R. intros _. rewrite <- Ey.
  unfold cexp. rewrite mag_mult_bpow by exact Hx.
  assert (Hm : (-1022 < mag radix2 x + e)%Z).
  { rewrite <- mag_mult_bpow by exact Hx. apply mag_gt_bpow. exact N. }
  unfold fexp, FLT_exp. lia.
Qed.

Lemma kscaleR_pow2_exact (st : R * R) (e : Z) : fmt (fst st) -> fmt (snd st) ->
  (fst st = 0 \/ bpow radix2 (-1022) <= Rabs (fst st * bpow radix2 e)) ->
  (snd st = 0 \/ bpow radix2 (-1022) <= Rabs (snd st * bpow radix2 e)) ->
  kscaleR st (bpow radix2 e) = (fst st * bpow radix2 e, snd st * bpow radix2 e) /\
  rsumR (kscaleR st (bpow radix2 e)) = bpow radix2 e * rsumR st.
Proof.
  intros Fs Fc Hs Hc. destruct st as (s, c). cbn [fst snd] in *.
  assert (E : kscaleR (s, c) (bpow radix2 e) = (s * bpow radix2 e, c * bpow radix2 e)).
  { unfold kscaleR. cbn [fst snd]. rewrite !rndR_generic by (apply fmt_mult_bpow; assumption). reflexivity. }
  split; [exact E|]. rewrite E. unfold rsumR. cbn [fst snd]. ring.
Qed.

(* ------------------------------------------------------------------ *)
(* 2. binary64: Reweight and Rescale                                    *)
(* ------------------------------------------------------------------ *)
Definition kscaleF (st : f64 * f64) (f : f64) : f64 * f64 := (fmul (fst st) f, fmul (snd st) f).

Lemma sc_reweight (s : summary) (f : f64) : sc (su_reweight s f) = kscaleF (sc s) f.
Proof. reflexivity. Qed.

Lemma sc_rescale (s : summary) (f : f64) : sc (su_rescale s f) = kscaleF (sc s) f.
Proof.
  unfold su_rescale, g_rescale.
  destruct (flt f64_zero f); [reflexivity|]. destruct (flt f f64_zero); [reflexivity|].
  destruct (negb _); reflexivity.
Qed.

(* a finite result means finite operands and the real scaling *)
Lemma kscaleF_R (st : f64 * f64) (f : f64) : finp (kscaleF st f) ->
  finp st /\ finite f /\ valp (kscaleF st f) = kscaleR (valp st) (val f).
Proof.
  destruct st as (s, c). unfold kscaleF, finp, valp, kscaleR. cbn [fst snd]. intros (F1 & F2).
  destruct (fmul_fin_inv _ _ F1) as (Fs & Ff). destruct (fmul_fin_inv _ _ F2) as (Fc & _).
  split; [split; assumption|]. split; [exact Ff|].
  rewrite (fmul_R _ _ F1), (fmul_R _ _ F2). reflexivity.
Qed.

Theorem su_scale_err (st : f64 * f64) (f : f64) : finp (kscaleF st f) ->
  let st' := kscaleF st f in
  val (fst st') = rndR (val (fst st) * val f) /\ val (snd st') = rndR (val (snd st) * val f) /\
  Rabs (rsumF st' - val f * rsumF st) <=
    u53 * Rabs (val f) * (Rabs (val (fst st)) + Rabs (val (snd st))) + 2 * eta64 /\
  Rabs (val (snd st')) <= (1 + u53) * Rabs (val f) * Rabs (val (snd st)) + eta64.
Proof.
  intros F st'. destruct (kscaleF_R st f F) as (_ & _ & E). fold st' in E.
  pose proof (f_equal fst E) as E1. pose proof (f_equal snd E) as E2.
  unfold valp, kscaleR in E1, E2. cbn [fst snd] in E1, E2.
  split; [exact E1|]. split; [exact E2|].
  pose proof (kscaleR_err (valp st) (val f)) as H1. pose proof (kscaleR_comp (valp st) (val f)) as H2.
  rewrite <- E in H1, H2. split; [exact H1|exact H2].
Qed.

(* power of two, nothing underflows: exact *)
Theorem su_scale_pow2_exact (st : f64 * f64) (f : f64) (e : Z) : finp (kscaleF st f) -> val f = bpow radix2 e ->
  (val (fst st) = 0 \/ bpow radix2 (-1022) <= Rabs (val (fst st) * bpow radix2 e)) ->
  (val (snd st) = 0 \/ bpow radix2 (-1022) <= Rabs (val (snd st) * bpow radix2 e)) ->
  let st' := kscaleF st f in
  val (fst st') = val (fst st) * bpow radix2 e /\ val (snd st') = val (snd st) * bpow radix2 e /\
  rsumF st' = bpow radix2 e * rsumF st.
Proof.
  intros F Ef Hs Hc st'. destruct (kscaleF_R st f F) as (_ & _ & E). fold st' in E. rewrite Ef in E.
  destruct (kscaleR_pow2_exact (valp st) e (val_fmt _) (val_fmt _) Hs Hc) as (E1 & E2).
  rewrite <- E in E1, E2.
  split; [exact (f_equal fst E1)|]. split; [exact (f_equal snd E1)|exact E2].
Qed.

(* ------------------------------------------------------------------ *)
(* 3. a composable error calculus (real numbers)                        *)
(* ------------------------------------------------------------------ *)
(* [track st I G E C]: the state stands for the ideal value I up to E, its compensation is at most C, and
   G bounds |I| (G is the ideal total of the absolute values).  Each operation maps (I, G, E, C) to new
   values by explicit formulas; nothing else about the past is needed. *)
Definition track (st : R * R) (I G E C : R) : Prop :=
  fmt (fst st) /\ fmt (snd st) /\ Rabs (rsumR st - I) <= E /\ Rabs (snd st) <= C /\ Rabs I <= G.

Lemma track_new : track (0, 0) 0 0 0 0.
Proof. unfold track, rsumR. cbn [fst snd]. repeat split; try apply fmt_0; rewrite ?Rminus_0_r, Rabs_R0; lra. Qed.

Lemma track_rsum (st : R * R) (I G E C : R) : track st I G E C -> Rabs (rsumR st) <= G + E.
Proof.
  intros (_ & _ & HE & _ & HG). replace (rsumR st) with ((rsumR st - I) + I) by ring.
  eapply Rle_trans; [apply Rabs_triang|]. lra.
Qed.

Lemma comp_le_alpha (st : R * R) : fmt (fst st) -> fmt (snd st) -> Rabs (snd st) <= 2 * u53 * Rabs (fst st) ->
  Rabs (snd st) <= alpha * Rabs (rsumR st).
Proof. intros A B C. apply wfR_comp_le. repeat split; assumption. Qed.

(* Add: p is the rounded product, q the exact one *)
Lemma track_add (st : R * R) (I G E C p q : R) : track st I G E C -> fmt p ->
  Rabs (p - q) <= u53 * Rabs q + eta64 ->
  let E' := E + alpha * (Rabs p + C) + u53 * Rabs q + eta64 in
  track (kstepR st p) (I + q) (G + Rabs q) E' (alpha * (G + Rabs q + E')).
Proof.
  intros (Fs & Fc & HE & HC & HG) Fp Hp E'. pose proof alpha_bounds as Ha.
  destruct (kstepR_fmt st p) as (F1 & F2).
  pose proof (kstepR_err st p Fs Fc Fp) as Hd.
  assert (Hpc : Rabs (p - snd st) <= Rabs p + C).
  { unfold Rminus. eapply Rle_trans; [apply Rabs_triang|]. rewrite Rabs_Ropp. lra. }
  assert (Hd' : Rabs (rsumR (kstepR st p) - (rsumR st + p)) <= alpha * (Rabs p + C)).
  { eapply Rle_trans; [exact Hd|]. apply Rmult_le_compat_l; lra. }
  assert (HE' : Rabs (rsumR (kstepR st p) - (I + q)) <= E').
  { replace (rsumR (kstepR st p) - (I + q))
      with ((rsumR (kstepR st p) - (rsumR st + p)) + (rsumR st - I) + (p - q)) by ring.
    eapply Rle_trans; [apply Rabs_triang|]. eapply Rle_trans; [apply Rplus_le_compat_r; apply Rabs_triang|].
    unfold E'. lra. }
  assert (HG' : Rabs (I + q) <= G + Rabs q).
  { eapply Rle_trans; [apply Rabs_triang|]. lra. }
  split; [exact F1|]. split; [exact F2|]. split; [exact HE'|]. split; [|exact HG'].
  eapply Rle_trans; [apply (comp_le_alpha _ F1 F2 (kstepR_wf st p Fs Fc Fp))|].
  apply Rmult_le_compat_l; [lra|].
  replace (rsumR (kstepR st p)) with ((rsumR (kstepR st p) - (I + q)) + (I + q)) by ring.
  eapply Rle_trans; [apply Rabs_triang|]. lra.
Qed.

(* Reweight / Rescale by f *)
Lemma track_scale (st : R * R) (I G E C f : R) : track st I G E C ->
  track (kscaleR st f) (f * I) (Rabs f * G)
        (Rabs f * E + u53 * Rabs f * (G + E + 2 * C) + 2 * eta64) ((1 + u53) * Rabs f * C + eta64).
Proof.
  intros T. pose proof (track_rsum _ _ _ _ _ T) as HR. destruct T as (Fs & Fc & HE & HC & HG).
  pose proof u53_bounds as Hu. pose proof (Rabs_pos f) as Hf.
  destruct (kscaleR_fmt st f) as (F1 & F2). split; [exact F1|]. split; [exact F2|].
  assert (Hs : Rabs (fst st) <= G + E + C).
  { replace (fst st) with (rsumR st + snd st) by (unfold rsumR; ring).
    eapply Rle_trans; [apply Rabs_triang|]. lra. }
  split; [|split].
  - pose proof (kscaleR_err st f) as H.
    replace (rsumR (kscaleR st f) - f * I) with ((rsumR (kscaleR st f) - f * rsumR st) + f * (rsumR st - I)) by ring.
    eapply Rle_trans; [apply Rabs_triang|]. rewrite (Rabs_mult f).
    assert (Rabs f * Rabs (rsumR st - I) <= Rabs f * E) by (apply Rmult_le_compat_l; lra).
    assert (u53 * Rabs f * (Rabs (fst st) + Rabs (snd st)) <= u53 * Rabs f * (G + E + 2 * C)).
    { apply Rmult_le_compat_l; [nra|lra]. }
    lra.
  - pose proof (kscaleR_comp st f) as H.
    assert ((1 + u53) * Rabs f * Rabs (snd st) <= (1 + u53) * Rabs f * C) by (apply Rmult_le_compat_l; [nra|lra]).
    lra.
  - rewrite Rabs_mult. apply Rmult_le_compat_l; lra.
Qed.

Lemma Rabs_5 (a b c d e : R) : Rabs (a + b + c + d + e) <= Rabs a + Rabs b + Rabs c + Rabs d + Rabs e.
Proof.
  pose proof (Rabs_triang (a + b + c + d) e). pose proof (Rabs_triang (a + b + c) d).
  pose proof (Rabs_triang (a + b) c). pose proof (Rabs_triang a b). lra.
Qed.

(* MergeWith o *)
Lemma track_merge (st o : R * R) (I G E C Io Go Eo Co : R) : track st I G E C -> track o Io Go Eo Co ->
  let So := Go + Eo + Co in
  let D1 := alpha * (So + C) in
  let C1 := alpha * (G + E + So + D1) in
  let D2 := alpha * (Co + C1) in
  let E' := E + Eo + 2 * Co + D1 + D2 in
  track (kstepR (kstepR st (fst o)) (snd o)) (I + Io) (G + Go) E' (alpha * (G + Go + E')).
Proof.
  intros T To So D1 C1 D2 E'. pose proof alpha_bounds as Ha.
  pose proof (track_rsum _ _ _ _ _ T) as HR. pose proof (track_rsum _ _ _ _ _ To) as HRo.
  destruct T as (Fs & Fc & HE & HC & HG). destruct To as (Fos & Foc & HEo & HCo & HGo).
  set (st1 := kstepR st (fst o)). set (st2 := kstepR st1 (snd o)).
  destruct (kstepR_fmt st (fst o)) as (F11 & F12). fold st1 in F11, F12.
  destruct (kstepR_fmt st1 (snd o)) as (F21 & F22). fold st2 in F21, F22.
  assert (Hso : Rabs (fst o) <= So).
  { replace (fst o) with (rsumR o + snd o) by (unfold rsumR; ring).
    eapply Rle_trans; [apply Rabs_triang|]. unfold So. lra. }
  pose proof (kstepR_err st (fst o) Fs Fc Fos) as Hd1. fold st1 in Hd1.
  assert (Hd1' : Rabs (rsumR st1 - (rsumR st + fst o)) <= D1).
  { eapply Rle_trans; [exact Hd1|]. apply Rmult_le_compat_l; [lra|].
    unfold Rminus. eapply Rle_trans; [apply Rabs_triang|]. rewrite Rabs_Ropp. lra. }
  assert (HR1 : Rabs (rsumR st1) <= G + E + So + D1).
  { replace (rsumR st1) with ((rsumR st1 - (rsumR st + fst o)) + rsumR st + fst o) by ring.
    eapply Rle_trans; [apply Rabs_triang|]. eapply Rle_trans; [apply Rplus_le_compat_r; apply Rabs_triang|]. lra. }
  assert (Hc1 : Rabs (snd st1) <= C1).
  { eapply Rle_trans; [apply (comp_le_alpha _ F11 F12 (kstepR_wf st (fst o) Fs Fc Fos))|].
    apply Rmult_le_compat_l; lra. }
  pose proof (kstepR_err st1 (snd o) F11 F12 Foc) as Hd2. fold st2 in Hd2.
  assert (Hd2' : Rabs (rsumR st2 - (rsumR st1 + snd o)) <= D2).
  { eapply Rle_trans; [exact Hd2|]. apply Rmult_le_compat_l; [lra|].
    unfold Rminus. eapply Rle_trans; [apply Rabs_triang|]. rewrite Rabs_Ropp. lra. }
  assert (HE' : Rabs (rsumR st2 - (I + Io)) <= E').
  { replace (rsumR st2 - (I + Io))
      with ((rsumR st2 - (rsumR st1 + snd o)) + (rsumR st1 - (rsumR st + fst o)) + (rsumR st - I)
            + (rsumR o - Io) + 2 * snd o) by (unfold rsumR; ring).
    eapply Rle_trans; [apply Rabs_5|]. rewrite (Rabs_mult 2), (Rabs_pos_eq 2) by lra. unfold E'. lra. }
  split; [exact F21|]. split; [exact F22|]. split; [exact HE'|]. split.
  - eapply Rle_trans; [apply (comp_le_alpha _ F21 F22 (kstepR_wf st1 (snd o) F11 F12 Foc))|].
    apply Rmult_le_compat_l; [lra|].
    replace (rsumR st2) with ((rsumR st2 - (I + Io)) + (I + Io)) by ring.
    eapply Rle_trans; [apply Rabs_triang|]. pose proof (Rabs_triang I Io). lra.
  - eapply Rle_trans; [apply Rabs_triang|]. lra.
Qed.

(* Sum() *)
Lemma track_sum (st : R * R) (I G E C : R) : track st I G E C ->
  Rabs (rndR (fst st + snd st) - I) <= E + 2 * C + u53 * (G + E + 2 * C).
Proof.
  intros T. pose proof (track_rsum _ _ _ _ _ T) as HR. destruct T as (Fs & Fc & HE & HC & HG).
  pose proof u53_bounds as Hu.
  pose proof (rndR_plus_rel _ _ Fs Fc) as Hr.
  assert (Hsc : Rabs (fst st + snd st) <= G + E + 2 * C).
  { replace (fst st + snd st) with (rsumR st + 2 * snd st) by (unfold rsumR; ring).
    eapply Rle_trans; [apply Rabs_triang|]. rewrite Rabs_mult, (Rabs_pos_eq 2) by lra. lra. }
  replace (rndR (fst st + snd st) - I)
    with ((rndR (fst st + snd st) - (fst st + snd st)) + (rsumR st - I) + 2 * snd st) by (unfold rsumR; ring).
  eapply Rle_trans; [apply Rabs_triang|]. eapply Rle_trans; [apply Rplus_le_compat_r; apply Rabs_triang|].
  rewrite (Rabs_mult 2), (Rabs_pos_eq 2) by lra.
  assert (u53 * Rabs (fst st + snd st) <= u53 * (G + E + 2 * C)) by (apply Rmult_le_compat_l; lra).
  lra.
Qed.

(* ------------------------------------------------------------------ *)
(* 4. arithmetic of the history invariant                               *)
(* ------------------------------------------------------------------ *)
Section HistArith.
Variables u th Sr : R.
Hypothesis Hu : 0 < u <= / 1000.
Hypothesis HS : 0 <= Sr.
Hypothesis Hth : th = (2 * Sr + 20) * u.
Hypothesis Hth4 : th <= / 4.
Let al := 2 * u + 5 * u ^ 2.

Lemma hist_add_arith (a b G q ap W E C eta : R) :
  3 <= a <= Sr + 13 / 4 -> 0 <= b <= 9 / 4 -> 0 <= G -> 0 <= q -> 0 <= W -> 0 <= eta -> 0 <= ap -> 0 <= C -> 0 <= E ->
  E <= a * u * G + W -> C <= b * u * G + W -> ap <= (1 + u) * q + eta ->
  let W' := (1 + al) * W + 2 * eta in
  let E' := E + al * (ap + C) + u * q + eta in
  E' <= (a + th) * u * (G + q) + W' /\ al * (G + q + E') <= (2 + th) * u * (G + q) + W'.
Proof.
  intros Ha Hb HG Hq HW He Hap HC HE0 HE HCb Hp W' E'.
  assert (Hal : 0 < al <= / 400) by (unfold al; nra).
  assert (Su : Sr * u <= / 8) by nra.
  set (G' := G + q).
  assert (HG' : 0 <= G') by (unfold G'; lra).
  (* al * ap *)
  assert (P1 : al * ap <= al * ((1 + u) * q + eta)) by (apply Rmult_le_compat_l; lra).
  assert (P2 : al * (1 + u) <= 2 * u + 8 * u ^ 2) by (unfold al; nra).
  assert (P3 : al * ((1 + u) * q) <= (2 * u + 8 * u ^ 2) * q).
  { rewrite <- Rmult_assoc. apply Rmult_le_compat_r; lra. }
  assert (P4 : al * eta <= eta) by nra.
  (* al * C *)
  assert (Q1 : al * C <= al * (b * u * G + W)) by (apply Rmult_le_compat_l; lra).
  assert (Q2 : al * b <= 5 * u).
  { unfold al. nra. }
  assert (Q3 : al * (b * u * G) <= 5 * u * (u * G)).
  { replace (al * (b * u * G)) with ((al * b) * (u * G)) by ring. apply Rmult_le_compat_r; nra. }
  assert (T1 : 13 * u <= th) by nra.
  assert (T2 : 13 * u * (u * G') <= th * (u * G')) by (apply Rmult_le_compat_r; [apply Rmult_le_pos; lra|exact T1]).
  assert (HE' : E' <= (a + th) * u * G' + W').
  { unfold E', W', G'. 
    assert (Huq : 0 <= u * q) by nra. assert (0 <= (a - 3) * (u * q)) by (apply Rmult_le_pos; lra).
    assert (a * u * G + 3 * u * q <= a * u * (G + q)) by nra.
    assert (8 * u ^ 2 * q + 5 * u * (u * G) <= 13 * u * (u * (G + q))) by nra.
    unfold G' in T2. nra. }
  split; [exact HE'|].
  assert (R1 : al * (G' + E') <= al * (G' + ((a + th) * u * G' + W'))) by (apply Rmult_le_compat_l; lra).
  assert (HW' : 0 <= W') by (unfold W'; nra).
  assert (R2 : al * W' <= W') by nra.
  assert (R3 : al * (a + th) <= (2 * Sr + 8) * u).
  { assert (a + th <= Sr + 7 / 2) by lra. unfold al.
    assert (0 <= Sr * u) by nra. assert (Sr * u * u <= / 8 * u) by nra. nra. }
  assert (R4 : al * ((a + th) * u * G') <= (2 * Sr + 8) * u * (u * G')).
  { replace (al * ((a + th) * u * G')) with (al * (a + th) * (u * G')) by ring. apply Rmult_le_compat_r; nra. }
  assert (R5 : al * G' = 2 * u * G' + 5 * u * (u * G')) by (unfold al; ring).
  assert (R6 : (2 * Sr + 13) * u * (u * G') <= th * (u * G')).
  { apply Rmult_le_compat_r; [nra|]. rewrite Hth. nra. }
  unfold G' in *. nra.
Qed.

Lemma hist_scale_arith (a b G af W E C eta : R) :
  3 <= a <= Sr + 13 / 4 -> 0 <= b <= 9 / 4 -> 0 <= G -> 0 <= af -> 0 <= W -> 0 <= eta -> 0 <= C -> 0 <= E ->
  E <= a * u * G + W -> C <= b * u * G + W ->
  let W' := af * (1 + 3 * u) * W + 2 * eta in
  af * E + u * af * (G + E + 2 * C) + 2 * eta <= (a + 1 + th) * u * (af * G) + W' /\
  (1 + u) * af * C + eta <= (b + th) * u * (af * G) + W'.
Proof.
  intros Ha Hb HG Hf HW He HC HE0 HE HCb W'.
  assert (Su : Sr * u <= / 8) by nra.
  set (G' := af * G). assert (HG' : 0 <= G') by (unfold G'; nra).
  assert (E1 : af * E <= af * (a * u * G + W)) by (apply Rmult_le_compat_l; lra).
  assert (C1 : af * C <= af * (b * u * G + W)) by (apply Rmult_le_compat_l; lra).
  assert (E2 : af * (a * u * G + W) = a * u * G' + af * W) by (unfold G'; ring).
  assert (C2 : af * (b * u * G + W) = b * u * G' + af * W) by (unfold G'; ring).
  assert (HfW : 0 <= af * W) by nra.
  assert (T : (a + 2 * b) * u <= th) by (rewrite Hth; nra).
  assert (T' : (a + 2 * b) * u * (u * G') <= th * (u * G')) by (apply Rmult_le_compat_r; nra).
  assert (Tb : b * u * (u * G') <= th * (u * G')).
  { apply Rmult_le_compat_r; [nra|]. rewrite Hth. nra. }
  split.
  - replace (af * E + u * af * (G + E + 2 * C) + 2 * eta)
      with (af * E + u * G' + u * (af * E) + 2 * u * (af * C) + 2 * eta) by (unfold G'; ring).
    unfold W'. nra.
  - replace ((1 + u) * af * C) with ((1 + u) * (af * C)) by ring. unfold W'. nra.
Qed.

Lemma hist_sum_arith (a b G W E C : R) :
  3 <= a <= Sr + 13 / 4 -> 0 <= b <= 9 / 4 -> 0 <= G -> 0 <= W -> 0 <= C -> 0 <= E ->
  E <= a * u * G + W -> C <= b * u * G + W ->
  E + 2 * C + u * (G + E + 2 * C) <= (a + 2 * b + 1 + th) * u * G + 4 * W.
Proof.
  intros Ha Hb HG HW HC HE0 HE HCb.
  assert (Su : Sr * u <= / 8) by nra.
  assert (T : (a + 2 * b) * u <= th) by (rewrite Hth; nra).
  assert (T' : (a + 2 * b) * u * (u * G) <= th * (u * G)) by (apply Rmult_le_compat_r; nra).
  assert (u * (E + 2 * C) <= u * ((a + 2 * b) * u * G + 3 * W)) by (apply Rmult_le_compat_l; lra).
  assert (u * (3 * W) <= W) by nra.
  nra.
Qed.
End HistArith.

(* ------------------------------------------------------------------ *)
(* 5. histories of Add and scalings, on real numbers                    *)
(* ------------------------------------------------------------------ *)
(* RAdd p q: add the float p, which stands for the exact product q;  RScale f: multiply by f *)
Inductive ropR : Type := RAdd (p q : R) | RScale (f : R).
Definition stepopR (st : R * R) (op : ropR) : R * R :=
  match op with RAdd p _ => kstepR st p | RScale f => kscaleR st f end.
Definition runR (ops : list ropR) (st : R * R) : R * R := fold_left stepopR ops st.
(* the same history in exact arithmetic: value, total of absolute values, and the absolute (underflow) slack *)
Definition idealR (I : R) (op : ropR) : R := match op with RAdd _ q => I + q | RScale f => f * I end.
Definition magR (G : R) (op : ropR) : R := match op with RAdd _ q => G + Rabs q | RScale f => Rabs f * G end.
Definition uflowR (W : R) (op : ropR) : R :=
  match op with RAdd _ _ => (1 + alpha) * W + 2 * eta64 | RScale f => Rabs f * (1 + 3 * u53) * W + 2 * eta64 end.
Definition is_scale (op : ropR) : bool := match op with RScale _ => true | _ => false end.
Definition nscales (ops : list ropR) : nat := length (filter is_scale ops).
Definition op_ok (op : ropR) : Prop :=
  match op with RAdd p q => fmt p /\ Rabs (p - q) <= u53 * Rabs q + eta64 | RScale _ => True end.

Lemma hist_inv (Sr th : R) (ops : list ropR) : 0 <= Sr -> th = (2 * Sr + 20) * u53 -> th <= / 4 ->
  forall (st : R * R) (I G W E C k sk : R), Forall op_ok ops -> track st I G E C ->
  0 <= W -> 0 <= k -> 0 <= sk ->
  E <= (3 + sk + k * th) * u53 * G + W -> C <= (2 + (k + 1) * th) * u53 * G + W ->
  (k + INR (length ops) + 1) * th <= / 4 -> sk + INR (nscales ops) <= Sr ->
  exists E' C' : R,
    let G' := fold_left magR ops G in
    let W' := fold_left uflowR ops W in
    let k' := k + INR (length ops) in
    track (runR ops st) (fold_left idealR ops I) G' E' C' /\ 0 <= W' /\
    E' <= (3 + (sk + INR (nscales ops)) + k' * th) * u53 * G' + W' /\
    C' <= (2 + (k' + 1) * th) * u53 * G' + W'.
Proof.
  intros HS Hth Hth4. pose proof u53_bounds as Hu. pose proof eta64_pos as Hn. pose proof alpha_bounds as Ha.
  assert (Hth0 : 0 <= th) by (rewrite Hth; nra).
  induction ops as [|op ops IH]; intros st I G W E C k sk FO T HW Hk Hsk HE HC Hbud Hcnt.
  - exists E, C. cbn [fold_left length nscales filter INR]. change (runR [] st) with st.
    rewrite !Rplus_0_r. repeat split; try assumption; apply T.
  - inversion FO as [|op0 ops0 Hop FO']; subst op0 ops0.
    change (length (op :: ops)) with (S (length ops)) in *. rewrite S_INR in Hbud.
    pose proof (pos_INR (length ops)) as Hlen. pose proof (pos_INR (nscales ops)) as Hns. pose proof (pos_INR (nscales (op :: ops))) as Hns'.
    assert (Hkth0 : 0 <= k * th) by (apply Rmult_le_pos; lra).
    assert (HG : 0 <= G) by (destruct T as (_ & _ & _ & _ & HG); pose proof (Rabs_pos I); lra).
    assert (HE0 : 0 <= E) by (destruct T as (_ & _ & H & _); pose proof (Rabs_pos (rsumR st - I)); lra).
    assert (HC0 : 0 <= C) by (destruct T as (_ & _ & _ & H & _); pose proof (Rabs_pos (snd st)); lra).
    assert (Hkth : k * th <= / 4) by nra.
    assert (Ha' : 3 <= 3 + sk + k * th <= Sr + 13 / 4) by (split; nra).
    assert (Hb' : 0 <= 2 + (k + 1) * th <= 9 / 4) by (split; nra).
    change (runR (op :: ops) st) with (runR ops (stepopR st op)).
    cbn [fold_left]. rewrite S_INR.
    destruct op as [p q|f].
    + destruct Hop as (Fp & Hp).
      assert (Hap : Rabs p <= (1 + u53) * Rabs q + eta64).
      { replace p with ((p - q) + q) by ring. eapply Rle_trans; [apply Rabs_triang|]. lra. }
      pose proof (track_add st I G E C p q T Fp Hp) as T1. cbv zeta in T1.
      destruct (hist_add_arith u53 th Sr Hu HS Hth Hth4 (3 + sk + k * th) (2 + (k + 1) * th)
                  G (Rabs q) (Rabs p) W E C eta64 Ha' Hb' HG (Rabs_pos q) HW (Rlt_le _ _ Hn) (Rabs_pos p) HC0 HE0 HE HC Hap)
        as (A1 & A2).
      cbv zeta in A1, A2.
      change (nscales (RAdd p q :: ops)) with (nscales ops) in *.
      set (E1 := E + alpha * (Rabs p + C) + u53 * Rabs q + eta64) in *.
      set (W1 := (1 + alpha) * W + 2 * eta64) in *.
      assert (HW1 : 0 <= W1) by (unfold W1; nra).
      assert (HG1 : 0 <= G + Rabs q) by (pose proof (Rabs_pos q); lra).
      assert (B1 : E1 <= (3 + sk + (k + 1) * th) * u53 * (G + Rabs q) + W1).
      { replace (3 + sk + (k + 1) * th) with (3 + sk + k * th + th) by ring. exact A1. }
      assert (B2 : alpha * (G + Rabs q + E1) <= (2 + (k + 1 + 1) * th) * u53 * (G + Rabs q) + W1).
      { eapply Rle_trans; [exact A2|]. apply Rplus_le_compat_r. apply Rmult_le_compat_r; [exact HG1|].
        apply Rmult_le_compat_r; [lra|]. nra. }
      assert (B3 : (k + 1 + INR (length ops) + 1) * th <= / 4).
      { replace (k + 1 + INR (length ops) + 1) with (k + (INR (length ops) + 1) + 1) by ring. exact Hbud. }
      destruct (IH (kstepR st p) (I + q) (G + Rabs q) W1 E1 (alpha * (G + Rabs q + E1)) (k + 1) sk FO' T1 HW1
                   ltac:(lra) Hsk B1 B2 B3 Hcnt) as (E' & C' & H).
      exists E', C'. cbv zeta in H |- *. cbn [magR idealR uflowR].
      replace (k + (INR (length ops) + 1)) with (k + 1 + INR (length ops)) by ring. exact H.
    + pose proof (track_scale st I G E C f T) as T1.
      destruct (hist_scale_arith u53 th Sr Hu Hth Hth4 (3 + sk + k * th) (2 + (k + 1) * th)
                  G (Rabs f) W E C eta64 Ha' Hb' HG (Rabs_pos f) HW (Rlt_le _ _ Hn) HC0 HE0 HE HC) as (A1 & A2).
      cbv zeta in A1, A2.
      change (nscales (RScale f :: ops)) with (S (nscales ops)) in *. rewrite S_INR in Hcnt |- *.
      set (E1 := Rabs f * E + u53 * Rabs f * (G + E + 2 * C) + 2 * eta64) in *.
      set (C1 := (1 + u53) * Rabs f * C + eta64) in *.
      set (W1 := Rabs f * (1 + 3 * u53) * W + 2 * eta64) in *.
      pose proof (Rabs_pos f) as Hf.
      assert (HW1 : 0 <= W1) by (unfold W1; apply Rplus_le_le_0_compat; [repeat apply Rmult_le_pos; lra|lra]).
      assert (B1 : E1 <= (3 + (sk + 1) + (k + 1) * th) * u53 * (Rabs f * G) + W1).
      { replace (3 + (sk + 1) + (k + 1) * th) with (3 + sk + k * th + 1 + th) by ring. exact A1. }
      assert (B2 : C1 <= (2 + (k + 1 + 1) * th) * u53 * (Rabs f * G) + W1).
      { replace (2 + (k + 1 + 1) * th) with (2 + (k + 1) * th + th) by ring. exact A2. }
      assert (B3 : (k + 1 + INR (length ops) + 1) * th <= / 4).
      { replace (k + 1 + INR (length ops) + 1) with (k + (INR (length ops) + 1) + 1) by ring. exact Hbud. }
      destruct (IH (kscaleR st f) (f * I) (Rabs f * G) W1 E1 C1 (k + 1) (sk + 1) FO' T1 HW1
                   ltac:(lra) ltac:(lra) B1 B2 B3 ltac:(lra)) as (E' & C' & H).
      exists E', C'. cbv zeta in H |- *. cbn [magR idealR uflowR].
      replace (k + (INR (length ops) + 1)) with (k + 1 + INR (length ops)) by ring.
      replace (sk + (INR (nscales ops) + 1)) with (sk + 1 + INR (nscales ops)) by ring. exact H.
Qed.

Theorem runR_sum_err (ops : list ropR) : Forall op_ok ops ->
  let N := INR (length ops) in
  let S := INR (nscales ops) in
  let th := (2 * S + 20) * u53 in
  (N + 1) * th <= / 4 ->
  let st := runR ops (0, 0) in
  Rabs (rndR (fst st + snd st) - fold_left idealR ops 0) <=
    (8 + S + (3 * N + 3) * th) * u53 * fold_left magR ops 0 + 4 * fold_left uflowR ops 0.
Proof.
  intros FO N S th Hbud st. pose proof u53_bounds as Hu.
  assert (HS : 0 <= S) by apply pos_INR. assert (HN : 0 <= N) by apply pos_INR.
  assert (Hth0 : 0 <= th) by (unfold th; nra).
  assert (Hth4 : th <= / 4) by nra.
  destruct (hist_inv S th ops HS eq_refl Hth4 (0, 0) 0 0 0 0 0 0 0 FO track_new) as (E' & C' & H); try lra.
  { fold N. lra. }
  { fold S. lra. }
  cbv zeta in H. fold st N S in H. rewrite !Rplus_0_l in H. destruct H as (T & HW & HE & HC).
  set (G' := fold_left magR ops 0) in *. set (W' := fold_left uflowR ops 0) in *.
  pose proof (track_sum _ _ _ _ _ T) as Hs.
  assert (HG : 0 <= G') by (destruct T as (_ & _ & _ & _ & HG); pose proof (Rabs_pos (fold_left idealR ops 0)); lra).
  assert (HE0 : 0 <= E') by (destruct T as (_ & _ & H & _); pose proof (Rabs_pos (rsumR st - fold_left idealR ops 0)); lra).
  assert (HC0 : 0 <= C') by (destruct T as (_ & _ & _ & H & _); pose proof (Rabs_pos (snd st)); lra).
  assert (HNth : 0 <= N * th) by (apply Rmult_le_pos; lra).
  eapply Rle_trans; [exact Hs|].
  eapply Rle_trans; [apply (hist_sum_arith u53 th S Hu eq_refl Hth4 (3 + S + N * th) (2 + (N + 1) * th) G' W' E' C'); try assumption; split; nra|].
  apply Rplus_le_compat_r. apply Rmult_le_compat_r; [exact HG|]. apply Rmult_le_compat_r; [lra|]. lra.
Qed.

(* ------------------------------------------------------------------ *)
(* 6. binary64 histories of Add / Reweight / Rescale                    *)
(* ------------------------------------------------------------------ *)
Inductive fop : Type := FAdd (v w : f64) | FReweight (f : f64) | FRescale (f : f64).
Definition su_apply (s : summary) (op : fop) : summary :=
  match op with FAdd v w => su_add s v w | FReweight f => su_reweight s f | FRescale f => su_rescale s f end.
Definition stepopF (st : f64 * f64) (op : fop) : f64 * f64 :=
  match op with FAdd v w => kstepF st (fmul v w) | FReweight f | FRescale f => kscaleF st f end.
Definition rop_of (op : fop) : ropR :=
  match op with FAdd v w => RAdd (val (fmul v w)) (val v * val w) | FReweight f | FRescale f => RScale (val f) end.
Definition su_history (ops : list fop) : summary := fold_left su_apply ops su_new.

Lemma sc_apply (s : summary) (op : fop) : sc (su_apply s op) = stepopF (sc s) op.
Proof. destruct op; [apply sc_add|apply sc_reweight|apply sc_rescale]. Qed.

Lemma sc_history_gen (ops : list fop) : forall s, sc (fold_left su_apply ops s) = fold_left stepopF ops (sc s).
Proof. induction ops as [|op ops IH]; intros s; [reflexivity|]. cbn [fold_left]. rewrite IH, sc_apply. reflexivity. Qed.

(* a finite outcome means every intermediate result was finite and the run is the real run *)
Lemma stepopF_R (st : f64 * f64) (op : fop) : finp (stepopF st op) ->
  finp st /\ valp (stepopF st op) = stepopR (valp st) (rop_of op) /\ op_ok (rop_of op).
Proof.
  destruct op as [v w|f|f]; cbn [stepopF rop_of stepopR op_ok]; intros F.
  - destruct (kstepF_R st (fmul v w) F) as (F1 & Fp & E). split; [exact F1|]. split; [exact E|].
    split; [apply val_fmt|]. rewrite (fmul_R v w Fp). apply rndR_err.
  - destruct (kscaleF_R st f F) as (F1 & _ & E). split; [exact F1|]. split; [exact E|exact I].
  - destruct (kscaleF_R st f F) as (F1 & _ & E). split; [exact F1|]. split; [exact E|exact I].
Qed.

Lemma runF_R (ops : list fop) : forall st, finp (fold_left stepopF ops st) ->
  finp st /\ valp (fold_left stepopF ops st) = runR (map rop_of ops) (valp st) /\ Forall op_ok (map rop_of ops).
Proof.
  induction ops as [|op ops IH]; intros st F.
  - split; [exact F|]. split; [reflexivity|constructor].
  - cbn [fold_left] in F |- *. destruct (IH _ F) as (F1 & E & O).
    destruct (stepopF_R st op F1) as (F0 & E0 & O0).
    split; [exact F0|]. split.
    + rewrite E, E0. reflexivity.
    + cbn [map]. constructor; assumption.
Qed.

Definition hist_ideal (ops : list fop) : R := fold_left idealR (map rop_of ops) 0.
Definition hist_mag (ops : list fop) : R := fold_left magR (map rop_of ops) 0.
Definition hist_uflow (ops : list fop) : R := fold_left uflowR (map rop_of ops) 0.
Definition hist_scales (ops : list fop) : nat := nscales (map rop_of ops).

Theorem su_history_err (ops : list fop) :
  let s := su_history ops in
  let N := INR (length ops) in
  let S := INR (hist_scales ops) in
  let th := (2 * S + 20) * u53 in
  finite (fadd (su_sum s) (su_comp s)) -> (N + 1) * th <= / 4 ->
  su_get_sum s = fadd (su_sum s) (su_comp s) /\
  Rabs (val (su_get_sum s) - hist_ideal ops) <=
    (8 + S + (3 * N + 3) * th) * u53 * hist_mag ops + 4 * hist_uflow ops.
Proof.
  intros s N S th Fg Hbud.
  destruct (fadd_fin_inv _ _ Fg) as (Fs & Fc).
  pose proof (sc_history_gen ops su_new) as Esc. fold (su_history ops) in Esc. fold s in Esc.
  assert (F : finp (fold_left stepopF ops (sc su_new))) by (rewrite <- Esc; split; assumption).
  destruct (runF_R ops _ F) as (_ & E & O). rewrite <- Esc in E.
  rewrite (su_get_sum_finite s Fg). split; [reflexivity|].
  rewrite (fadd_R _ _ Fs Fc Fg).
  pose proof (runR_sum_err (map rop_of ops) O) as H. cbv zeta in H.
  rewrite map_length in H. fold (hist_scales ops) in H. fold N S th in H. specialize (H Hbud).
  assert (E0 : valp (sc su_new) = (0, 0)).
  { rewrite su_new_sc. unfold valp. cbn [fst snd]. rewrite val_zero. reflexivity. }
  rewrite E0 in E. rewrite <- E in H. unfold valp in H. cbn [fst snd sc] in H. exact H.
Qed.

(* the per-operation rules on summaries (composable: the outcome being finite is the only side condition) *)
Definition tracks (s : summary) (I G E C : R) : Prop := track (valp (sc s)) I G E C.

Lemma tracks_new : tracks su_new 0 0 0 0.
Proof. unfold tracks. rewrite su_new_sc. unfold valp. cbn [fst snd]. rewrite val_zero. exact track_new. Qed.

Lemma tracks_add (s : summary) (v w : f64) (I G E C : R) : tracks s I G E C -> finp (sc (su_add s v w)) ->
  let q := val v * val w in
  let E' := E + alpha * (Rabs (val (fmul v w)) + C) + u53 * Rabs q + eta64 in
  tracks (su_add s v w) (I + q) (G + Rabs q) E' (alpha * (G + Rabs q + E')).
Proof.
  intros T F q E'. rewrite sc_add in F. destruct (kstepF_R _ _ F) as (_ & Fp & Ev).
  unfold tracks. rewrite sc_add, Ev.
  apply (track_add _ I G E C (val (fmul v w)) q T (val_fmt _)). rewrite (fmul_R v w Fp). apply rndR_err.
Qed.

Lemma tracks_scale (s s' : summary) (f : f64) (I G E C : R) : tracks s I G E C ->
  s' = su_reweight s f \/ s' = su_rescale s f -> finp (sc s') ->
  tracks s' (val f * I) (Rabs (val f) * G)
    (Rabs (val f) * E + u53 * Rabs (val f) * (G + E + 2 * C) + 2 * eta64) ((1 + u53) * Rabs (val f) * C + eta64).
Proof.
  intros T Hs F.
  assert (Esc : sc s' = kscaleF (sc s) f) by (destruct Hs as [-> | ->]; [apply sc_reweight|apply sc_rescale]).
  rewrite Esc in F. destruct (kscaleF_R _ _ F) as (_ & _ & Ev).
  unfold tracks. rewrite Esc, Ev. apply track_scale. exact T.
Qed.

Lemma tracks_merge (s o : summary) (I G E C Io Go Eo Co : R) : tracks s I G E C -> tracks o Io Go Eo Co ->
  finp (sc (su_merge s o)) ->
  let So := Go + Eo + Co in
  let D1 := alpha * (So + C) in
  let C1 := alpha * (G + E + So + D1) in
  let D2 := alpha * (Co + C1) in
  let E' := E + Eo + 2 * Co + D1 + D2 in
  tracks (su_merge s o) (I + Io) (G + Go) E' (alpha * (G + Go + E')).
Proof.
  intros T To F. rewrite sc_merge in F.
  destruct (kstepF_R _ _ F) as (F1 & _ & Ev2). destruct (kstepF_R _ _ F1) as (_ & _ & Ev1).
  unfold tracks. rewrite sc_merge, Ev2, Ev1.
  exact (track_merge (valp (sc s)) (valp (sc o)) I G E C Io Go Eo Co T To).
Qed.

Lemma tracks_sum (s : summary) (I G E C : R) : tracks s I G E C -> finite (fadd (su_sum s) (su_comp s)) ->
  Rabs (val (su_get_sum s) - I) <= E + 2 * C + u53 * (G + E + 2 * C).
Proof.
  intros T Fg. destruct (fadd_fin_inv _ _ Fg) as (Fs & Fc).
  rewrite (su_get_sum_finite s Fg), (fadd_R _ _ Fs Fc Fg). exact (track_sum _ _ _ _ _ T).
Qed.

(* ------------------------------------------------------------------ *)
(* 7. the overflow fallback of Sum()                                    *)
(* ------------------------------------------------------------------ *)
Definition pinf_or_nan (x : f64) : Prop := x = f64_pinf \/ f_is_nan x = true.
Definition ninf_or_nan (x : f64) : Prop := x = f64_ninf \/ f_is_nan x = true.

Lemma f64_ninf_eq : f64_ninf = B754_infinity 53 1024 true.
Proof. reflexivity. Qed.

Lemma fadd_pinf_l (y : f64) : pinf_or_nan (fadd f64_pinf y).
Proof.
  rewrite f64_pinf_eq. destruct y as [sy|[|]|sy py Hy|sy my ey Hy]; try (left; reflexivity); right; reflexivity.
Qed.
Lemma fadd_ninf_l (y : f64) : ninf_or_nan (fadd f64_ninf y).
Proof.
  rewrite f64_ninf_eq. destruct y as [sy|[|]|sy py Hy|sy my ey Hy]; try (left; reflexivity); right; reflexivity.
Qed.
Lemma fadd_nan_l (x y : f64) : f_is_nan x = true -> f_is_nan (fadd x y) = true.
Proof. destruct x; try discriminate. intros _. destruct y; reflexivity. Qed.

(* Sum() when simpleSum is +Inf and the compensated sum is +Inf or NaN: +Inf, never NaN *)
Theorem su_get_sum_pinf (s : summary) : su_simple s = f64_pinf -> pinf_or_nan (su_sum s) -> su_get_sum s = f64_pinf.
Proof.
  intros Hs Hsum. unfold su_get_sum, g_get_sum. fold (su_sum s) (su_comp s) (su_simple s). rewrite Hs.
  destruct Hsum as [E|N].
  - rewrite E, f64_pinf_eq. destruct (su_comp s) as [sy|[|]|sy py Hy|sy my ey Hy]; reflexivity.
  - pose proof (fadd_nan_l (su_sum s) (su_comp s) N) as H. rewrite H.
    destruct (fadd (su_sum s) (su_comp s)); reflexivity.
Qed.
Theorem su_get_sum_ninf (s : summary) : su_simple s = f64_ninf -> ninf_or_nan (su_sum s) -> su_get_sum s = f64_ninf.
Proof.
  intros Hs Hsum. unfold su_get_sum, g_get_sum. fold (su_sum s) (su_comp s) (su_simple s). rewrite Hs.
  destruct Hsum as [E|N].
  - rewrite E, f64_ninf_eq. destruct (su_comp s) as [sy|[|]|sy py Hy|sy my ey Hy]; reflexivity.
  - pose proof (fadd_nan_l (su_sum s) (su_comp s) N) as H. rewrite H.
    destruct (fadd (su_sum s) (su_comp s)); reflexivity.
Qed.
(* whenever simpleSum is infinite Sum() is not NaN *)
Theorem su_get_sum_not_nan (s : summary) : f_is_inf (su_simple s) = true -> f_is_nan (su_get_sum s) = false.
Proof.
  intros H. unfold su_get_sum, g_get_sum. fold (su_sum s) (su_comp s) (su_simple s). rewrite H, andb_true_r.
  destruct (f_is_nan (fadd (su_sum s) (su_comp s))) eqn:E; [|exact E].
  destruct (su_simple s); try discriminate H; reflexivity.
Qed.

(* once overflowed, always overflowed: further Adds of products that are not -Inf / NaN keep Sum() = +Inf *)
Definition overflowed_pos (s : summary) : Prop := su_simple s = f64_pinf /\ pinf_or_nan (su_sum s).
Definition not_ninf_nan (p : f64) : Prop := finite p \/ p = f64_pinf.

Lemma overflowed_pos_add (s : summary) (v w : f64) : overflowed_pos s -> not_ninf_nan (fmul v w) ->
  overflowed_pos (su_add s v w).
Proof.
  intros (Hs & Hsum) Hp. split.
  - change (su_simple (su_add s v w)) with (fadd (su_simple s) (fmul v w)). rewrite Hs, f64_pinf_eq.
    destruct Hp as [F|E]; [|rewrite E; reflexivity].
    destruct (fmul v w); try discriminate F; reflexivity.
  - change (su_sum (su_add s v w)) with (fadd (su_sum s) (fsub (fmul v w) (su_comp s))).
    destruct Hsum as [E|N]; [rewrite E; apply fadd_pinf_l|right; apply fadd_nan_l; exact N].
Qed.

Theorem overflowed_pos_add_list (l : list (f64 * f64)) : forall s, overflowed_pos s ->
  Forall (fun vw => not_ninf_nan (fmul (fst vw) (snd vw))) l -> su_get_sum (su_add_list s l) = f64_pinf.
Proof.
  induction l as [|(v, w) l IH]; intros s H FL.
  - destruct H as (H1 & H2). apply su_get_sum_pinf; assumption.
  - inversion FL as [|p0 l0 Hp FL']; subst.
    change (su_add_list s ((v, w) :: l)) with (su_add_list (su_add s v w) l).
    apply IH; [apply overflowed_pos_add; assumption|exact FL'].
Qed.

(* ---- the first overflow of non-negative addends is towards +Inf ---- *)
Lemma inf_of_B2FF (t : f64) (sg : bool) : B2FF 53 1024 t = binary_overflow 53 1024 mode_NE sg -> t = B754_infinity 53 1024 sg.
Proof. destruct t; cbn; intros H; try discriminate H. injection H as ->. reflexivity. Qed.

Lemma fadd_cases (a b : f64) : finite a -> finite b ->
  (finite (fadd a b) /\ val (fadd a b) = rndR (val a + val b)) \/
  (fadd a b = B754_infinity 53 1024 (Bsign 53 1024 a) /\ Bsign 53 1024 a = Bsign 53 1024 b /\
   bpow radix2 1024 <= Rabs (rndR (val a + val b))).
Proof.
  intros Ha Hb.
  pose proof (Binary.Bplus_correct 53 1024 eq_refl eq_refl binop_nan_pl64 mode_NE a b Ha Hb) as H.
  change (Binary.Bplus 53 1024 eq_refl eq_refl binop_nan_pl64 mode_NE a b) with (fadd a b) in H.
  change (round radix2 (SpecFloat.fexp 53 1024) (round_mode mode_NE) (val a + val b)) with (rndR (val a + val b)) in H.
  destruct (Rlt_bool_spec (Rabs (rndR (val a + val b))) (bpow radix2 1024)) as [L|L].
  - left. destruct H as (H1 & H2 & _). split; assumption.
  - right. destruct H as (H1 & H2). split; [apply inf_of_B2FF; exact H1|]. split; assumption.
Qed.

Lemma fsub_cases (a b : f64) : finite a -> finite b ->
  (finite (fsub a b) /\ val (fsub a b) = rndR (val a - val b)) \/
  (fsub a b = B754_infinity 53 1024 (Bsign 53 1024 a) /\ Bsign 53 1024 a = negb (Bsign 53 1024 b) /\
   bpow radix2 1024 <= Rabs (rndR (val a - val b))).
Proof.
  intros Ha Hb.
  pose proof (Binary.Bminus_correct 53 1024 eq_refl eq_refl binop_nan_pl64 mode_NE a b Ha Hb) as H.
  change (Binary.Bminus 53 1024 eq_refl eq_refl binop_nan_pl64 mode_NE a b) with (fsub a b) in H.
  change (round radix2 (SpecFloat.fexp 53 1024) (round_mode mode_NE) (val a - val b)) with (rndR (val a - val b)) in H.
  destruct (Rlt_bool_spec (Rabs (rndR (val a - val b))) (bpow radix2 1024)) as [L|L].
  - left. destruct H as (H1 & H2 & _). split; assumption.
  - right. destruct H as (H1 & H2). split; [apply inf_of_B2FF; exact H1|]. split; assumption.
Qed.

Lemma sign_true_val (x : f64) : Bsign 53 1024 x = true -> val x <= 0.
Proof.
  destruct x as [s|s|s p H|s m e H]; cbn [Bsign B2R]; intros E; try lra.
  subst s. apply F2R_le_0. cbn. lia.
Qed.
Lemma sign_false_val (x : f64) : Bsign 53 1024 x = false -> 0 <= val x.
Proof.
  destruct x as [s|s|s p H|s m e H]; cbn [Bsign B2R]; intros E; try lra.
  subst s. apply F2R_ge_0. cbn. lia.
Qed.

Lemma val_lt_emax (x : f64) : Rabs (val x) < bpow radix2 1024.
Proof. apply abs_B2R_lt_emax. Qed.

Lemma rndR_abs_le_fmt (r m : R) : fmt m -> Rabs r <= m -> Rabs (rndR r) <= m.
Proof. intros Fm H. apply abs_round_le_generic; [exact fexp64_valid|apply valid_rnd_N|exact Fm|exact H]. Qed.

Lemma rndR_nonneg (r : R) : 0 <= r -> 0 <= rndR r.
Proof. intros H. rewrite <- rndR_0. apply rndR_le. exact H. Qed.

Lemma fadd_fin_pinf (s : f64) : finite s -> fadd s f64_pinf = f64_pinf.
Proof. rewrite f64_pinf_eq. destruct s; try discriminate; reflexivity. Qed.

(* one step from a finite state that stands for a non-negative number, adding a non-negative float:
   the outcome is finite, or the sum field is +Inf *)
Lemma nonneg_step (st : f64 * f64) (x : f64) : finp st -> finite x -> 0 <= val x ->
  0 <= rsumF st -> Rabs (val (snd st)) <= alpha * rsumF st ->
  finp (kstepF st x) \/ fst (kstepF st x) = f64_pinf.
Proof.
  destruct st as (s, c). unfold rsumF, finp, kstepF. cbn [fst snd]. intros (Fs & Fc) Fx Hx HR Hc.
  pose proof alpha_bounds as Ha. pose proof u53_bounds as Hu. pose proof (bpow_gt_0 radix2 1024) as Hbig.
  set (R0 := val s - val c) in *.
  assert (Hc' : - (alpha * R0) <= val c <= alpha * R0) by (apply Rabs_le_inv; exact Hc).
  assert (Hs0 : 0 <= val s) by (unfold R0 in *; nra).
  destruct (fsub_cases x c Fx Fc) as [(Fy & Vy)|(Ey & Sg & Big)].
  2:{ right. assert (Sx : Bsign 53 1024 x = false).
      { destruct (Bsign 53 1024 x) eqn:Sx; [|reflexivity]. exfalso.
        pose proof (sign_true_val x Sx) as H0. assert (Z : val x = 0) by lra.
        rewrite Z, Rminus_0_l, (rndR_generic (- val c)) in Big by (apply fmt_opp, val_fmt).
        rewrite Rabs_Ropp in Big. pose proof (val_lt_emax c). lra. }
      rewrite Ey, Sx. apply (fadd_fin_pinf s Fs). }
  set (y := fsub x c) in *.
  (* s + y >= 0 *)
  pose proof (rndR_minus_rel (val x) (val c) (val_fmt x) (val_fmt c)) as Hd. rewrite <- Vy in Hd.
  assert (Hxc : Rabs (val x - val c) <= val x + alpha * R0).
  { unfold Rminus. eapply Rle_trans; [apply Rabs_triang|]. rewrite Rabs_Ropp, (Rabs_pos_eq (val x)) by lra. lra. }
  assert (Hsy : 0 <= val s + val y).
  { apply Rabs_le_inv in Hd.
    assert (u53 * Rabs (val x - val c) <= u53 * (val x + alpha * R0)) by (apply Rmult_le_compat_l; lra).
    replace (val s + val y) with (R0 + val x + (val y - (val x - val c))) by (unfold R0; ring). nra. }
  destruct (fadd_cases s y Fs Fy) as [(Ft & Vt)|(Et & Sg & Big)].
  2:{ right. assert (Ss : Bsign 53 1024 s = false).
      { destruct (Bsign 53 1024 s) eqn:Ss; [|reflexivity]. exfalso.
        pose proof (sign_true_val s Ss). pose proof (sign_true_val y (eq_sym Sg)).
        assert (Z : val s + val y = 0) by lra. rewrite Z, rndR_0, Rabs_R0 in Big. lra. }
      rewrite Et, Ss. reflexivity. }
  left. set (t := fadd s y) in *. split; [exact Ft|].
  assert (Ht0 : 0 <= val t) by (rewrite Vt; apply rndR_nonneg; exact Hsy).
  (* velvel - sum does not overflow *)
  assert (Fz : finite (fsub t s) /\ val (fsub t s) = rndR (val t - val s)).
  { destruct (fsub_cases t s Ft Fs) as [H|(_ & _ & Big)]; [exact H|exfalso].
    destruct (Rle_or_lt (val s) (val t)) as [L|L].
    - assert (Rabs (rndR (val t - val s)) <= val t).
      { apply rndR_abs_le_fmt; [apply val_fmt|]. rewrite Rabs_pos_eq; lra. }
      pose proof (val_lt_emax t) as M. rewrite (Rabs_pos_eq _ Ht0) in M. lra.
    - assert (Rabs (rndR (val t - val s)) <= val s).
      { apply rndR_abs_le_fmt; [apply val_fmt|]. rewrite Rabs_left1; lra. }
      pose proof (val_lt_emax s) as M. rewrite (Rabs_pos_eq _ Hs0) in M. lra. }
  destruct Fz as (Fz & Vz). set (z := fsub t s) in *.
  (* (velvel - sum) - tmp does not overflow: it is at most 2 |rounding error of sum + tmp| <= 2u velvel *)
  destruct (fsub_cases z y Fz Fy) as [(Fc' & _)|(_ & _ & Big)]; [exact Fc'|exfalso].
  pose proof (rndR_plus_rel_res (val s) (val y) (val_fmt s) (val_fmt y)) as He. rewrite <- Vt in He.
  pose proof (rndR_nearest (val t - val s) (val y) (val_fmt y)) as Hn. rewrite <- Vz in Hn.
  replace (val y - (val t - val s)) with (- (val t - (val s + val y))) in Hn by ring. rewrite Rabs_Ropp in Hn.
  assert (Hzy : Rabs (val z - val y) <= val t).
  { replace (val z - val y) with ((val z - (val t - val s)) + (val t - (val s + val y))) by ring.
    eapply Rle_trans; [apply Rabs_triang|]. rewrite (Rabs_pos_eq _ Ht0) in He. nra. }
  assert (Rabs (rndR (val z - val y)) <= val t) by (apply rndR_abs_le_fmt; [apply val_fmt|exact Hzy]).
  pose proof (val_lt_emax t) as M. rewrite (Rabs_pos_eq _ Ht0) in M. lra.
Qed.

Lemma kfoldF_R (xs : list f64) : forall st, finp (kfoldF xs st) ->
  finp st /\ valp (kfoldF xs st) = kfoldR (vals xs) (valp st).
Proof.
  induction xs as [|x xs IH]; intros st F; [split; [exact F|reflexivity]|].
  change (kfoldF (x :: xs) st) with (kfoldF xs (kstepF st x)) in *.
  destruct (IH _ F) as (F1 & E). destruct (kstepF_R st x F1) as (F0 & _ & E0).
  split; [exact F0|]. rewrite E, E0. reflexivity.
Qed.

Definition all_nonneg (xs : list f64) : Prop := Forall (fun x => 0 <= val x) xs.

Lemma sumabsR_nonneg_eq (xs : list f64) : all_nonneg xs -> sumabsR (vals xs) = sumR (vals xs) /\ 0 <= sumR (vals xs).
Proof.
  induction xs as [|x xs IH]; intros H; [split; [reflexivity|cbn; lra]|].
  inversion H as [|x0 l0 Hx H']; subst. destruct (IH H') as (E & P).
  rewrite vals_cons, sumabsR_cons, sumR_cons, E, Rabs_pos_eq by exact Hx. split; [reflexivity|lra].
Qed.

(* non-negative addends: the sum field is finite, +Inf or NaN -- never -Inf *)
Theorem nonneg_fold (xs : list f64) : all_finite xs -> all_nonneg xs -> (Z.of_nat (length xs) <= 2 ^ 50)%Z ->
  finp (kfoldF xs (f64_zero, f64_zero)) \/ pinf_or_nan (fst (kfoldF xs (f64_zero, f64_zero))).
Proof.
  induction xs as [|x p IH] using rev_ind; intros FX NX Hn.
  - left. split; reflexivity.
  - apply Forall_app in FX. destruct FX as (FP & Fx). inversion Fx as [|x0 l0 Fx' _]; subst.
    apply Forall_app in NX. destruct NX as (NP & Nx). inversion Nx as [|x0 l0 Nx' _]; subst.
    rewrite app_length in Hn. cbn [length] in Hn. rewrite Nat2Z.inj_add in Hn.
    assert (Hn1 : (Z.of_nat (length p) <= 2 ^ 50)%Z) by lia.
    assert (EF : kfoldF (p ++ [x]) (f64_zero, f64_zero) = kstepF (kfoldF p (f64_zero, f64_zero)) x).
    { unfold kfoldF. rewrite fold_left_app. reflexivity. }
    rewrite EF. set (st := kfoldF p (f64_zero, f64_zero)) in *.
    destruct (IH FP NP Hn1) as [F|[E|N]].
    + destruct (kfoldF_R p _ F) as (_ & Ev). fold st in Ev.
      assert (E0 : valp (f64_zero, f64_zero) = (0, 0)) by (unfold valp; cbn [fst snd]; rewrite val_zero; reflexivity).
      rewrite E0 in Ev.
      assert (Hlen : (Z.of_nat (length (vals p)) <= 2 ^ 50)%Z) by (rewrite vals_length; exact Hn1).
      pose proof (kfoldR_err (vals p) (0, 0) wfR_zero (vals_fmt p) (len_alpha _ Hlen)) as Er.
      pose proof (kfoldR_wfR (vals p) (0, 0) wfR_zero (vals_fmt p)) as Wr.
      pose proof (wfR_comp_le _ Wr) as Hc. rewrite <- Ev in Er, Hc.
      destruct (sumabsR_nonneg_eq p NP) as (Eabs & Pos).
      pose proof alpha_bounds as Ha. pose proof (len_alpha _ Hlen) as Hb.
      change (rsumR (0, 0)) with (0 - 0) in Er. rewrite Rminus_0_r, Rabs_R0, Rplus_0_l, Rplus_0_l, Eabs in Er.
      change (rsumR (valp st)) with (rsumF st) in Er, Hc. change (snd (valp st)) with (val (snd st)) in Hc.
      set (Sg := sumR (vals p)) in *. set (n := INR (length (vals p))) in *.
      assert (Hn0 : 0 <= n) by apply pos_INR.
      assert (E2 : 2 * n * alpha ^ 2 * Sg <= alpha * Sg).
      { replace (2 * n * alpha ^ 2 * Sg) with ((2 * n * alpha) * (alpha * Sg)) by ring.
        rewrite <- (Rmult_1_l (alpha * Sg)) at 2. apply Rmult_le_compat_r; nra. }
      apply Rabs_le_inv in Er.
      assert (HR : 0 <= rsumF st) by nra.
      rewrite (Rabs_pos_eq _ HR) in Hc.
      destruct (nonneg_step st x F Fx' Nx' HR Hc) as [F'|E']; [left; exact F'|right; left; exact E'].
    + right. unfold kstepF. cbn [fst]. rewrite E. apply fadd_pinf_l.
    + right. right. unfold kstepF. cbn [fst]. apply fadd_nan_l. exact N.
Qed.

(* Add(v, w) over a list with finite non-negative products: if the compensated sum is no longer finite and
   simpleSum is +Inf, Sum() returns +Inf *)
Theorem su_overflow_fallback (l : list (f64 * f64)) :
  all_finite (prodsF l) -> all_nonneg (prodsF l) -> (Z.of_nat (length l) <= 2 ^ 50)%Z ->
  let s := su_add_list su_new l in
  su_simple s = f64_pinf -> is_finite 53 1024 (su_sum s) = false -> su_get_sum s = f64_pinf.
Proof.
  intros FP NP Hn s Hs Hnf.
  assert (Hlen : (Z.of_nat (length (prodsF l)) <= 2 ^ 50)%Z) by (unfold prodsF; rewrite map_length; exact Hn).
  pose proof (nonneg_fold (prodsF l) FP NP Hlen) as H.
  rewrite <- su_new_sc, <- sc_add_list in H. fold s in H.
  apply su_get_sum_pinf; [exact Hs|].
  destruct H as [(F & _)|H]; [|exact H]. cbn [sc fst] in F. rewrite F in Hnf. discriminate Hnf.
Qed.

(* what well_formed becomes under Reweight / Rescale, on summaries *)
Lemma su_scale_wfK (s s' : summary) (f : f64) (k e : R) : 0 <= k -> k * u53 <= / 2 -> 0 <= e ->
  wfK k e (valp (sc s)) -> s' = su_reweight s f \/ s' = su_rescale s f -> finp (sc s') ->
  wfK (k * (1 + 3 * u53)) ((1 + u53) * Rabs (val f) * e + 2 * eta64) (valp (sc s')).
Proof.
  intros Hk Hku He W Hs F.
  assert (Esc : sc s' = kscaleF (sc s) f) by (destruct Hs as [-> | ->]; [apply sc_reweight|apply sc_rescale]).
  rewrite Esc in F. destruct (kscaleF_R _ _ F) as (_ & _ & Ev). rewrite Esc, Ev.
  apply kscaleR_wfK; assumption.
Qed.

Corollary su_scale_wf (s s' : summary) (f : f64) : wfS s -> s' = su_reweight s f \/ s' = su_rescale s f ->
  finp (sc s') ->
  Rabs (val (su_comp s')) <= 2 * (1 + 3 * u53) * u53 * Rabs (val (su_sum s')) + 2 * eta64.
Proof.
  intros W Hs F. pose proof u53_bounds as Hu.
  destruct (su_scale_wfK s s' f 2 0 ltac:(lra) ltac:(lra) ltac:(lra) (wfK_of_wfR _ (wfF_wfR _ W)) Hs F) as (_ & _ & H).
  unfold valp in H. cbn [fst snd sc] in H. rewrite Rmult_0_r, Rplus_0_l in H. exact H.
Qed.

(* ------------------------------------------------------------------ *)
(* 8. summary-level wrappers and checkers (for Props/Kahan2.v)          *)
(* ------------------------------------------------------------------ *)
Theorem su_scale_summary (s s' : summary) (f : f64) : s' = su_reweight s f \/ s' = su_rescale s f ->
  finite (su_sum s') -> finite (su_comp s') ->
  su_sum s' = fmul (su_sum s) f /\ su_comp s' = fmul (su_comp s) f /\
  val (su_sum s') = rndR (val (su_sum s) * val f) /\ val (su_comp s') = rndR (val (su_comp s) * val f) /\
  Rabs (real_sum s' - val f * real_sum s) <=
    u53 * Rabs (val f) * (Rabs (val (su_sum s)) + Rabs (val (su_comp s))) + 2 * eta64 /\
  Rabs (val (su_comp s')) <= (1 + u53) * Rabs (val f) * Rabs (val (su_comp s)) + eta64.
Proof.
  intros Hs F1 F2.
  assert (Esc : sc s' = kscaleF (sc s) f) by (destruct Hs as [-> | ->]; [apply sc_reweight|apply sc_rescale]).
  assert (F : finp (kscaleF (sc s) f)) by (rewrite <- Esc; split; assumption).
  destruct (su_scale_err (sc s) f F) as (V1 & V2 & H1 & H2). cbv zeta in V1, V2, H1, H2.
  rewrite <- Esc in V1, V2, H1, H2.
  split; [exact (f_equal fst Esc)|]. split; [exact (f_equal snd Esc)|].
  split; [exact V1|]. split; [exact V2|]. split; [exact H1|exact H2].
Qed.

Theorem su_scale_pow2_summary (s s' : summary) (f : f64) (e : Z) : s' = su_reweight s f \/ s' = su_rescale s f ->
  finite (su_sum s') -> finite (su_comp s') -> val f = bpow radix2 e ->
  (val (su_sum s) = 0 \/ bpow radix2 (-1022) <= Rabs (val (su_sum s) * bpow radix2 e)) ->
  (val (su_comp s) = 0 \/ bpow radix2 (-1022) <= Rabs (val (su_comp s) * bpow radix2 e)) ->
  val (su_sum s') = val (su_sum s) * bpow radix2 e /\ val (su_comp s') = val (su_comp s) * bpow radix2 e /\
  real_sum s' = bpow radix2 e * real_sum s.
Proof.
  intros Hs F1 F2 Ef H1 H2.
  assert (Esc : sc s' = kscaleF (sc s) f) by (destruct Hs as [-> | ->]; [apply sc_reweight|apply sc_rescale]).
  assert (F : finp (kscaleF (sc s) f)) by (rewrite <- Esc; split; assumption).
  destruct (su_scale_pow2_exact (sc s) f e F Ef H1 H2) as (V1 & V2 & V3). cbv zeta in V1, V2, V3.
  rewrite <- Esc in V1, V2, V3. split; [exact V1|]. split; [exact V2|exact V3].
Qed.

Theorem su_nonneg_never_ninf (l : list (f64 * f64)) :
  all_finite (prodsF l) -> all_nonneg (prodsF l) -> (Z.of_nat (length l) <= 2 ^ 50)%Z ->
  let s := su_add_list su_new l in
  (finite (su_sum s) /\ finite (su_comp s)) \/ pinf_or_nan (su_sum s).
Proof.
  intros FP NP Hn s.
  assert (Hlen : (Z.of_nat (length (prodsF l)) <= 2 ^ 50)%Z) by (unfold prodsF; rewrite map_length; exact Hn).
  pose proof (nonneg_fold (prodsF l) FP NP Hlen) as H.
  rewrite <- su_new_sc, <- sc_add_list in H. exact H.
Qed.

(* |x| >= b *)
Definition abs_ge_b (x b : f64) : bool := fle b (fabs x).
Lemma abs_ge_b_ok (x b : f64) : finite b -> finite x -> abs_ge_b x b = true -> val b <= Rabs (val x).
Proof.
  intros Fb Fx H. unfold abs_ge_b, fle, fcmp, b64_compare, fabs, b64_abs in H.
  rewrite (Binary.Bcompare_correct 53 1024 b _ Fb) in H by (rewrite is_finite_Babs; exact Fx).
  rewrite B2R_Babs in H. destruct (Rcompare_spec (val b) (Rabs (val x))) as [C|C|C]; try lra; discriminate H.
Qed.

(* all products finite and non-negative, as a boolean *)
Definition nonneg_b (x : f64) : bool := f_is_finite x && fle f64_zero x.
Lemma nonneg_b_ok (xs : list f64) : forallb nonneg_b xs = true -> all_finite xs /\ all_nonneg xs.
Proof.
  induction xs as [|x xs IH]; intros H; [split; constructor|].
  cbn [forallb] in H. apply andb_prop in H. destruct H as (H1 & H2). destruct (IH H2) as (I1 & I2).
  unfold nonneg_b in H1. apply andb_prop in H1. destruct H1 as (Fx & Lx).
  split; constructor; try assumption. apply (proj1 (fle_zero x Fx)). exact Lx.
Qed.
