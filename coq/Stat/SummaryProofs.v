(* Proofs about the exact summary statistics (ddsketch/stat/summary.go and the wrapper
   DDSketchWithExactSummaryStatistics), on the EXACT instance [xs_*] of Stat/Summary.v:
   the algorithm as written, run in ideal arithmetic (extended rationals).
   Stdlib only on the exact side; axiom-free. *)
From SK Require Import Base.Prelude Base.F64 Stat.Summary Spec.BinsProofs.
From Coq Require Import Lqa.
Open Scope Qc_scope.

(* the type parameter of the generic record is left implicit in this development *)
Arguments g_count {F} _.
Arguments g_sum {F} _.
Arguments g_comp {F} _.
Arguments g_simple {F} _.
Arguments g_min {F} _.
Arguments g_max {F} _.

(* ================================================================== *)
(** * 0. Arithmetic helpers                                            *)
(* ================================================================== *)

(* the min / max folding steps of the code: [if v < min then v else min], [if max < v then v else max] *)
Definition qmin (a b : Qc) : Qc := if wltb b a then b else a.
Definition qmax (a b : Qc) : Qc := if wltb a b then b else a.

Ltac wcase := match goal with |- context [wltb ?x ?y] => destruct (wltb_spec x y) end.
Lemma qmin_assoc a b c : qmin (qmin a b) c = qmin a (qmin b c).
Proof.
  unfold qmin. destruct (wltb_spec b a), (wltb_spec c b); repeat wcase; try reflexivity; wlra.
Qed.
Lemma qmax_assoc a b c : qmax (qmax a b) c = qmax a (qmax b c).
Proof.
  unfold qmax. destruct (wltb_spec a b), (wltb_spec b c); repeat wcase; try reflexivity; wlra.
Qed.
Lemma qmin_le_l a b : qmin a b <= a.
Proof. unfold qmin. destruct (wltb_spec b a); wlra. Qed.
Lemma qmin_le_r a b : qmin a b <= b.
Proof. unfold qmin. destruct (wltb_spec b a); wlra. Qed.
Lemma qmax_ge_l a b : a <= qmax a b.
Proof. unfold qmax. destruct (wltb_spec a b); wlra. Qed.
Lemma qmax_ge_r a b : b <= qmax a b.
Proof. unfold qmax. destruct (wltb_spec a b); wlra. Qed.
Lemma qmin_cases a b : qmin a b = a \/ qmin a b = b.
Proof. unfold qmin. destruct (wltb b a); auto. Qed.
Lemma qmax_cases a b : qmax a b = a \/ qmax a b = b.
Proof. unfold qmax. destruct (wltb a b); auto. Qed.
Lemma qmin_absorb a b : a <= b -> qmin a b = a.
Proof. intros H. unfold qmin. destruct (wltb_spec b a); [wlra|reflexivity]. Qed.
Lemma qmax_absorb a b : b <= a -> qmax a b = a.
Proof. intros H. unfold qmax. destruct (wltb_spec a b); [wlra|reflexivity]. Qed.

Lemma wmul_lt_neg (f a b : Qc) : f < w0 -> (f * b < f * a <-> a < b).
Proof.
  intros Hf.
  assert (Hp : w0 < w0 - f) by wlra.
  pose proof (wmul_lt_iff (w0 - f) a b Hp) as H. unfold wmul in H.
  split; intros H1.
  - apply H. wlra.
  - apply H in H1. wlra.
Qed.
Lemma wltb_mul_neg (f a b : Qc) : f < w0 -> wltb (f * b) (f * a) = wltb a b.
Proof.
  intros Hf. destruct (wltb_spec a b) as [H|H].
  - apply wltb_lt. apply wmul_lt_neg; assumption.
  - destruct (wltb_spec (f * b) (f * a)) as [H'|H']; [|reflexivity].
    exfalso. apply H. apply (wmul_lt_neg f a b Hf). exact H'.
Qed.
Lemma qmin_mul_pos f a b : w0 < f -> qmin (f * a) (f * b) = f * qmin a b.
Proof. intros Hf. unfold qmin. pose proof (wltb_mul f b a Hf) as H. unfold wmul in H. rewrite H. destruct (wltb b a); reflexivity. Qed.
Lemma qmax_mul_pos f a b : w0 < f -> qmax (f * a) (f * b) = f * qmax a b.
Proof. intros Hf. unfold qmax. pose proof (wltb_mul f a b Hf) as H. unfold wmul in H. rewrite H. destruct (wltb a b); reflexivity. Qed.
Lemma qmin_mul_neg f a b : f < w0 -> qmin (f * a) (f * b) = f * qmax a b.
Proof. intros Hf. unfold qmin, qmax. rewrite (wltb_mul_neg f a b Hf). destruct (wltb a b); reflexivity. Qed.
Lemma qmax_mul_neg f a b : f < w0 -> qmax (f * a) (f * b) = f * qmin a b.
Proof. intros Hf. unfold qmin, qmax. rewrite (wltb_mul_neg f b a Hf). destruct (wltb b a); reflexivity. Qed.

Lemma FFin_inj a b : FFin a = FFin b -> a = b.
Proof. intros H. congruence. Qed.
Lemma xsign_pos f : w0 < f -> xsign f = Gt.
Proof. intros H. unfold xsign. apply Qcgt_alt. exact H. Qed.
Lemma xsign_neg f : f < w0 -> xsign f = Lt.
Proof. intros H. unfold xsign. apply Qclt_alt. exact H. Qed.

(* merging of optional extrema: None is the neutral element (+Inf for min, -Inf for max) *)
Definition omerge (f : Qc -> Qc -> Qc) (a b : option Qc) : option Qc :=
  match a, b with
  | None, x => x
  | x, None => x
  | Some x, Some y => Some (f x y)
  end.
Lemma omerge_none_r f a : omerge f a None = a.
Proof. destruct a; reflexivity. Qed.
Lemma omerge_assoc f (Hf : forall a b c, f (f a b) c = f a (f b c)) a b c :
  omerge f (omerge f a b) c = omerge f a (omerge f b c).
Proof. destruct a, b, c; cbn [omerge]; try reflexivity. now rewrite Hf. Qed.

(* ================================================================== *)
(** * 1. Normal form of a state and the action of every operation      *)
(* ================================================================== *)

Definition emin (a : option Qc) : fval := match a with Some m => FFin m | None => FInf false end.
Definition emax (a : option Qc) : fval := match a with Some m => FFin m | None => FInf true end.
(* count n, sum sm, compensation 0, simple sum = sum, extrema *)
Definition NF (n sm : Qc) (a b : option Qc) : xsummary :=
  {| g_count := FFin n; g_sum := FFin sm; g_comp := FFin w0; g_simple := FFin sm; g_min := emin a; g_max := emax b |}.

Lemma mk_eq (c c' s s' k k' p p' mn mn' mx mx' : fval) :
  c = c' -> s = s' -> k = k' -> p = p' -> mn = mn' -> mx = mx' ->
  Build_gsummary fval c s k p mn mx = Build_gsummary fval c' s' k' p' mn' mx'.
Proof. intros; subst; reflexivity. Qed.
Lemma NF_eq n n' sm sm' a a' b b' : n = n' -> sm = sm' -> a = a' -> b = b' -> NF n sm a b = NF n' sm' a' b'.
Proof. intros; subst; reflexivity. Qed.

Ltac xs_unfold :=
  unfold xs_add, xs_merge, xs_reweight, xs_rescale, xs_add_to_count, xs_add_to_sum, xs_get_sum, xs_new,
         g_add, g_merge, g_reweight, g_rescale, g_minmax, g_add_to_sum, g_add_to_count, g_sum_with_comp, g_get_sum, g_new, NF, xzero;
  cbn [g_count g_sum g_comp g_simple g_min g_max xadd xsub xneg xmul xlt xeq emin emax x_is_nan x_is_inf andb].
Ltac fld := try reflexivity; try (apply f_equal; wring).
Ltac rec_eq := apply mk_eq; fld.

Lemma xs_new_NF : xs_new = NF w0 w0 None None.
Proof. reflexivity. Qed.

(* the identity behind the compensated summation: in exact arithmetic the new compensation
   term [(velvel - sum) - tmp] is 0 whatever the previous compensation was *)
Lemma swc_exact (s : xsummary) (a k v : Qc) :
  g_sum s = FFin a -> g_comp s = FFin k ->
  g_sum_with_comp fval xadd xsub s (FFin v) =
  {| g_count := g_count s; g_sum := FFin (a + (v - k)); g_comp := FFin w0; g_simple := g_simple s;
     g_min := g_min s; g_max := g_max s |}.
Proof.
  intros Hs Hk. unfold g_sum_with_comp. rewrite Hs, Hk. cbn [xadd xsub xneg]. rec_eq.
Qed.

Lemma add_to_count_NF n sm a b c : xs_add_to_count (NF n sm a b) (FFin c) = NF (n + c) sm a b.
Proof. xs_unfold. rec_eq. Qed.
Lemma add_to_sum_NF n sm a b x : xs_add_to_sum (NF n sm a b) (FFin x) = NF n (sm + x) a b.
Proof. xs_unfold. rec_eq. Qed.

Lemma add_NF n sm a b v c :
  xs_add (NF n sm a b) (FFin v) (FFin c) = NF (n + c) (sm + v * c) (omerge qmin a (Some v)) (omerge qmax b (Some v)).
Proof.
  xs_unfold. destruct a as [m|], b as [M|]; cbn [emin emax xlt omerge]; unfold qmin, qmax;
  repeat match goal with |- context [wltb ?x ?y] => destruct (wltb x y) end; rec_eq.
Qed.

Lemma merge_NF n sm a b n' sm' a' b' :
  xs_merge (NF n sm a b) (NF n' sm' a' b') = NF (n + n') (sm + sm') (omerge qmin a a') (omerge qmax b b').
Proof.
  xs_unfold. destruct a as [m|], b as [M|], a' as [m'|], b' as [M'|]; cbn [emin emax xlt omerge]; unfold qmin, qmax;
  repeat match goal with |- context [wltb ?x ?y] => destruct (wltb x y) end; rec_eq.
Qed.

Lemma reweight_NF_nz n sm a b f : f <> w0 -> xs_reweight (NF n sm a b) (FFin f) = NF (f * n) (f * sm) a b.
Proof.
  intros Hf. xs_unfold. apply weqb_neq in Hf. rewrite Hf. rec_eq.
Qed.
Lemma reweight_NF_0 n sm a b : xs_reweight (NF n sm a b) (FFin w0) = NF w0 w0 None None.
Proof. xs_unfold. rewrite weqb_refl. rec_eq. Qed.

Lemma rescale_NF_pos n sm a b f : w0 < f ->
  xs_rescale (NF n sm a b) (FFin f) = NF n (f * sm) (option_map (Qcmult f) a) (option_map (Qcmult f) b).
Proof.
  intros Hf. xs_unfold. pose proof (proj2 (wltb_lt w0 f) Hf) as E. rewrite E.
  destruct a as [m|], b as [M|]; cbn [emin emax xmul option_map]; rewrite ?(xsign_pos f Hf); rec_eq.
Qed.
Lemma rescale_NF_neg n sm a b f : f < w0 ->
  xs_rescale (NF n sm a b) (FFin f) = NF n (f * sm) (option_map (Qcmult f) b) (option_map (Qcmult f) a).
Proof.
  intros Hf. xs_unfold.
  assert (E1 : wltb w0 f = false) by (apply wltb_ge; wlra). rewrite E1.
  pose proof (proj2 (wltb_lt f w0) Hf) as E. rewrite E.
  destruct a as [m|], b as [M|]; cbn [emin emax xmul option_map negb]; rewrite ?(xsign_neg f Hf); cbn [negb]; rec_eq.
Qed.
Lemma rescale_NF_0 n sm a b :
  xs_rescale (NF n sm a b) (FFin w0) = if weqb n w0 then NF n w0 a b else NF n w0 (Some w0) (Some w0).
Proof.
  xs_unfold. change (wltb w0 w0) with false. cbv iota.
  destruct (weqb n w0); cbn [negb]; rec_eq.
Qed.

(* ================================================================== *)
(** * 2. Statistics of a list of (value, weight) pairs                 *)
(* ================================================================== *)

Definition step (s : xsummary) (vc : Qc * Qc) : xsummary := xs_add s (FFin (fst vc)) (FFin (snd vc)).
Definition stats_of (l : list (Qc * Qc)) : xsummary := fold_left step l xs_new.

Fixpoint tw (l : list (Qc * Qc)) : Qc := match l with [] => w0 | (v, c) :: t => c + tw t end.       (* Σ c_i *)
Fixpoint ws (l : list (Qc * Qc)) : Qc := match l with [] => w0 | (v, c) :: t => v * c + ws t end.   (* Σ v_i c_i *)
Definition vals (l : list (Qc * Qc)) : list Qc := map fst l.
Fixpoint lmin (l : list Qc) : option Qc := match l with [] => None | v :: t => omerge qmin (Some v) (lmin t) end.
Fixpoint lmax (l : list Qc) : option Qc := match l with [] => None | v :: t => omerge qmax (Some v) (lmax t) end.

Lemma tw_app l1 l2 : tw (l1 ++ l2) = tw l1 + tw l2.
Proof. induction l1 as [|[v c] t IH]; cbn [tw app]; [wring|rewrite IH; wring]. Qed.
Lemma ws_app l1 l2 : ws (l1 ++ l2) = ws l1 + ws l2.
Proof. induction l1 as [|[v c] t IH]; cbn [ws app]; [wring|rewrite IH; wring]. Qed.
Lemma vals_app l1 l2 : vals (l1 ++ l2) = vals l1 ++ vals l2.
Proof. apply map_app. Qed.
Lemma lmin_app l1 l2 : lmin (l1 ++ l2) = omerge qmin (lmin l1) (lmin l2).
Proof.
  induction l1 as [|v t IH]; cbn [lmin app]; [reflexivity|].
  rewrite IH. symmetry. apply omerge_assoc. exact qmin_assoc.
Qed.
Lemma lmax_app l1 l2 : lmax (l1 ++ l2) = omerge qmax (lmax l1) (lmax l2).
Proof.
  induction l1 as [|v t IH]; cbn [lmax app]; [reflexivity|].
  rewrite IH. symmetry. apply omerge_assoc. exact qmax_assoc.
Qed.

(* specification of lmin / lmax: the least / greatest element *)
Lemma lmin_none l : lmin l = None <-> l = [].
Proof. destruct l as [|v t]; cbn [lmin]; [tauto|]. destruct (lmin t); cbn [omerge]; split; discriminate. Qed.
Lemma lmax_none l : lmax l = None <-> l = [].
Proof. destruct l as [|v t]; cbn [lmax]; [tauto|]. destruct (lmax t); cbn [omerge]; split; discriminate. Qed.
Lemma lmin_spec l m : lmin l = Some m -> In m l /\ forall x, In x l -> m <= x.
Proof.
  revert m. induction l as [|v t IH]; intros m H; cbn [lmin] in H; [discriminate|].
  destruct (lmin t) as [m'|] eqn:E; cbn [omerge] in H; injection H as <-.
  - destruct (IH m' eq_refl) as [Hin Hle]. split.
    + destruct (qmin_cases v m') as [-> | ->]; [left; reflexivity|right; exact Hin].
    + intros x [<-|Hx]; [apply qmin_le_l|].
      apply Qcle_trans with m'; [apply qmin_le_r|apply Hle; exact Hx].
  - apply lmin_none in E. subst t. split; [left; reflexivity|].
    intros x [<-|[]]. apply Qcle_refl.
Qed.
Lemma lmax_spec l m : lmax l = Some m -> In m l /\ forall x, In x l -> x <= m.
Proof.
  revert m. induction l as [|v t IH]; intros m H; cbn [lmax] in H; [discriminate|].
  destruct (lmax t) as [m'|] eqn:E; cbn [omerge] in H; injection H as <-.
  - destruct (IH m' eq_refl) as [Hin Hle]. split.
    + destruct (qmax_cases v m') as [-> | ->]; [left; reflexivity|right; exact Hin].
    + intros x [<-|Hx]; [apply qmax_ge_l|].
      apply Qcle_trans with m'; [apply Hle; exact Hx|apply qmax_ge_r].
  - apply lmax_none in E. subst t. split; [left; reflexivity|].
    intros x [<-|[]]. apply Qcle_refl.
Qed.
Lemma lmin_some l : l <> [] -> exists m, lmin l = Some m.
Proof. intros H. destruct (lmin l) as [m|] eqn:E; [eauto|]. apply lmin_none in E. contradiction. Qed.
Lemma lmax_some l : l <> [] -> exists m, lmax l = Some m.
Proof. intros H. destruct (lmax l) as [m|] eqn:E; [eauto|]. apply lmax_none in E. contradiction. Qed.
Lemma lmin_le_lmax l m M : lmin l = Some m -> lmax l = Some M -> m <= M.
Proof. intros H1 H2. apply lmin_spec in H1. apply lmax_spec in H2. destruct H1 as [Hin _], H2 as [_ Hle]. apply Hle. exact Hin. Qed.

(* folding Add over a list from any normal-form state *)
Lemma fold_NF l : forall n sm a b,
  fold_left step l (NF n sm a b) =
  NF (n + tw l) (sm + ws l) (omerge qmin a (lmin (vals l))) (omerge qmax b (lmax (vals l))).
Proof.
  induction l as [|[v c] t IH]; intros n sm a b.
  - cbn [fold_left tw ws vals map lmin lmax]. rewrite !omerge_none_r. apply NF_eq; try reflexivity; wring.
  - cbn [fold_left]. unfold step at 2. cbn [fst snd]. rewrite add_NF, IH.
    cbn [tw ws vals map fst lmin lmax].
    rewrite (omerge_assoc qmin qmin_assoc), (omerge_assoc qmax qmax_assoc).
    apply NF_eq; try reflexivity; wring.
Qed.

(* closed form of the statistics of a list *)
Theorem stats_of_closed l : stats_of l = NF (tw l) (ws l) (lmin (vals l)) (lmax (vals l)).
Proof.
  unfold stats_of. rewrite xs_new_NF, fold_NF. cbn [omerge]. apply NF_eq; try reflexivity; wring.
Qed.

(* ================================================================== *)
(** * 3. Reachable states: finite, compensation 0, min <= max          *)
(* ================================================================== *)

Definition is_fin (x : fval) : Prop := exists q, x = FFin q.
(* all fields finite, except min / max which may be +Inf / -Inf *)
Definition Fin (s : xsummary) : Prop :=
  is_fin (g_count s) /\ is_fin (g_sum s) /\ is_fin (g_comp s) /\ is_fin (g_simple s) /\
  (is_fin (g_min s) \/ g_min s = FInf false) /\ (is_fin (g_max s) \/ g_max s = FInf true).

Definition mm_ok (a b : option Qc) : Prop :=
  match a, b with None, None => True | Some m, Some M => m <= M | _, _ => False end.
(* what every history produces *)
Definition WF (s : xsummary) : Prop := exists n sm a b, s = NF n sm a b /\ mm_ok a b.

Lemma WF_Fin s : WF s -> Fin s.
Proof.
  intros (n & sm & a & b & -> & _). unfold Fin, NF, is_fin; cbn [g_count g_sum g_comp g_simple g_min g_max].
  repeat split; eauto.
  - destruct a; cbn [emin]; eauto.
  - destruct b; cbn [emax]; eauto.
Qed.
Lemma WF_new : WF xs_new.
Proof. exists w0, w0, None, None. split; [reflexivity|exact I]. Qed.

Lemma mm_ok_merge a b a' b' : mm_ok a b -> mm_ok a' b' -> mm_ok (omerge qmin a a') (omerge qmax b b').
Proof.
  destruct a as [m|], b as [M|], a' as [m'|], b' as [M'|]; cbn [mm_ok omerge]; try tauto.
  intros H H'. apply Qcle_trans with m; [apply qmin_le_l|]. apply Qcle_trans with M; [exact H|apply qmax_ge_l].
Qed.
Lemma mm_ok_single v : mm_ok (Some v) (Some v).
Proof. apply Qcle_refl. Qed.
Lemma mm_ok_list l : mm_ok (lmin l) (lmax l).
Proof.
  destruct (lmin l) as [m|] eqn:E1, (lmax l) as [M|] eqn:E2; cbn [mm_ok].
  - eapply lmin_le_lmax; eassumption.
  - apply lmax_none in E2. subst l. discriminate.
  - apply lmin_none in E1. subst l. discriminate.
  - exact I.
Qed.
Lemma mul_le_pos f a b : w0 <= f -> a <= b -> f * a <= f * b.
Proof. intros Hf H. rewrite (Qcmult_comm f a), (Qcmult_comm f b). apply Qcmult_le_compat_r; assumption. Qed.
Lemma mul_le_neg f a b : f <= w0 -> a <= b -> f * b <= f * a.
Proof.
  intros Hf H. assert (Hp : w0 <= w0 - f) by wlra.
  pose proof (mul_le_pos (w0 - f) a b Hp H). wlra.
Qed.

(* ---- 1. the compensation term is 0 after every operation, from ANY finite state ---- *)
Lemma fin_inv x : is_fin x -> exists q, x = FFin q.
Proof. exact (fun H => H). Qed.

Ltac fin_destruct s H :=
  destruct s as [? ? ? ? ? ?]; destruct H as ([? ?] & [? ?] & [? ?] & [? ?] & ? & ?);
  cbn [g_count g_sum g_comp g_simple g_min g_max] in *; subst.

Lemma comp_zero_add_to_sum s x : Fin s -> g_comp (xs_add_to_sum s (FFin x)) = FFin w0.
Proof. intros H. fin_destruct s H. xs_unfold. fld. Qed.
Lemma comp_zero_add s v c : Fin s -> g_comp (xs_add s (FFin v) (FFin c)) = FFin w0.
Proof. intros H. fin_destruct s H. xs_unfold. fld. Qed.
Lemma comp_zero_merge s o : Fin s -> Fin o -> g_comp (xs_merge s o) = FFin w0.
Proof. intros H H'. fin_destruct s H. fin_destruct o H'. xs_unfold. fld. Qed.
(* ... and the sum really is the sum, whatever the incoming compensation was *)
Lemma sum_add_to_sum s x a k :
  g_sum s = FFin a -> g_comp s = FFin k -> g_sum (xs_add_to_sum s (FFin x)) = FFin (a + (x - k)).
Proof.
  intros Ha Hk. unfold xs_add_to_sum, g_add_to_sum. rewrite (swc_exact s a k x Ha Hk). reflexivity.
Qed.

Lemma WF_facts s : WF s -> g_comp s = FFin w0 /\ xs_get_sum s = g_sum s /\ g_simple s = g_sum s.
Proof.
  intros (n & sm & a & b & -> & _). xs_unfold. repeat split; fld.
Qed.

(* ---- every operation preserves WF ---- *)
Lemma WF_add s v c : WF s -> WF (xs_add s (FFin v) (FFin c)).
Proof.
  intros (n & sm & a & b & -> & H). rewrite add_NF. do 4 eexists. split; [reflexivity|].
  apply mm_ok_merge; [exact H|apply mm_ok_single].
Qed.
Lemma WF_merge s o : WF s -> WF o -> WF (xs_merge s o).
Proof.
  intros (n & sm & a & b & -> & H) (n' & sm' & a' & b' & -> & H'). rewrite merge_NF. do 4 eexists. split; [reflexivity|].
  apply mm_ok_merge; assumption.
Qed.
Lemma WF_add_to_count s c : WF s -> WF (xs_add_to_count s (FFin c)).
Proof. intros (n & sm & a & b & -> & H). rewrite add_to_count_NF. do 4 eexists. split; [reflexivity|exact H]. Qed.
Lemma WF_add_to_sum s x : WF s -> WF (xs_add_to_sum s (FFin x)).
Proof. intros (n & sm & a & b & -> & H). rewrite add_to_sum_NF. do 4 eexists. split; [reflexivity|exact H]. Qed.
Lemma WF_reweight s f : WF s -> WF (xs_reweight s (FFin f)).
Proof.
  intros (n & sm & a & b & -> & H). destruct (weqb_spec f w0) as [->|Hf].
  - rewrite reweight_NF_0. do 4 eexists. split; [reflexivity|exact I].
  - rewrite (reweight_NF_nz _ _ _ _ _ Hf). do 4 eexists. split; [reflexivity|exact H].
Qed.
Lemma Qc_tri (f : Qc) : w0 < f \/ f < w0 \/ f = w0.
Proof. destruct (Qc_dec w0 f) as [[H|H]|H]; auto. Qed.
Lemma WF_rescale s f : WF s -> WF (xs_rescale s (FFin f)).
Proof.
  intros (n & sm & a & b & -> & H). destruct (Qc_tri f) as [Hf|[Hf| ->]].
  - rewrite (rescale_NF_pos _ _ _ _ _ Hf). do 4 eexists. split; [reflexivity|].
    destruct a, b; cbn [mm_ok option_map] in *; try tauto. apply mul_le_pos; [wlra|exact H].
  - rewrite (rescale_NF_neg _ _ _ _ _ Hf). do 4 eexists. split; [reflexivity|].
    destruct a, b; cbn [mm_ok option_map] in *; try tauto. apply mul_le_neg; [wlra|exact H].
  - rewrite rescale_NF_0. destruct (weqb n w0); do 4 eexists; (split; [reflexivity|]); [exact H|apply mm_ok_single].
Qed.

(* ================================================================== *)
(** * 4. The algebra on lists of (value, weight) pairs                 *)
(* ================================================================== *)

Definition rw (f : Qc) : Qc * Qc -> Qc * Qc := fun '(v, c) => (v, f * c).      (* reweight: weights *)
Definition rs (f : Qc) : Qc * Qc -> Qc * Qc := fun '(v, c) => (f * v, c).      (* rescale: values *)

Lemma tw_rw f l : tw (map (rw f) l) = f * tw l.
Proof. induction l as [|[v c] t IH]; cbn [map rw tw]; [wring|rewrite IH; wring]. Qed.
Lemma ws_rw f l : ws (map (rw f) l) = f * ws l.
Proof. induction l as [|[v c] t IH]; cbn [map rw ws]; [wring|rewrite IH; wring]. Qed.
Lemma vals_rw f l : vals (map (rw f) l) = vals l.
Proof. unfold vals. rewrite map_map. apply map_ext. intros [v c]. reflexivity. Qed.
Lemma tw_rs f l : tw (map (rs f) l) = tw l.
Proof. induction l as [|[v c] t IH]; cbn [map rs tw]; [reflexivity|rewrite IH; reflexivity]. Qed.
Lemma ws_rs f l : ws (map (rs f) l) = f * ws l.
Proof. induction l as [|[v c] t IH]; cbn [map rs ws]; [wring|rewrite IH; wring]. Qed.
Lemma vals_rs f l : vals (map (rs f) l) = map (Qcmult f) (vals l).
Proof. unfold vals. rewrite !map_map. apply map_ext. intros [v c]. reflexivity. Qed.

Lemma omap_merge g f x y (Hg : forall a b, f (g a) (g b) = g (f a b)) :
  omerge f (option_map g x) (option_map g y) = option_map g (omerge f x y).
Proof. destruct x, y; cbn [omerge option_map]; try reflexivity. now rewrite Hg. Qed.
Lemma omap_merge2 g f f' x y (Hg : forall a b, f (g a) (g b) = g (f' a b)) :
  omerge f (option_map g x) (option_map g y) = option_map g (omerge f' x y).
Proof. destruct x, y; cbn [omerge option_map]; try reflexivity. now rewrite Hg. Qed.

Lemma lmin_map_pos f l : w0 < f -> lmin (map (Qcmult f) l) = option_map (Qcmult f) (lmin l).
Proof.
  intros Hf. induction l as [|v t IH]; cbn [map lmin]; [reflexivity|]. rewrite IH.
  apply (omap_merge (Qcmult f) qmin (Some v)). intros a b. apply qmin_mul_pos. exact Hf.
Qed.
Lemma lmax_map_pos f l : w0 < f -> lmax (map (Qcmult f) l) = option_map (Qcmult f) (lmax l).
Proof.
  intros Hf. induction l as [|v t IH]; cbn [map lmax]; [reflexivity|]. rewrite IH.
  apply (omap_merge (Qcmult f) qmax (Some v)). intros a b. apply qmax_mul_pos. exact Hf.
Qed.
Lemma lmin_map_neg f l : f < w0 -> lmin (map (Qcmult f) l) = option_map (Qcmult f) (lmax l).
Proof.
  intros Hf. induction l as [|v t IH]; cbn [map lmin lmax]; [reflexivity|]. rewrite IH.
  apply (omap_merge2 (Qcmult f) qmin qmax (Some v)). intros a b. apply qmin_mul_neg. exact Hf.
Qed.
Lemma lmax_map_neg f l : f < w0 -> lmax (map (Qcmult f) l) = option_map (Qcmult f) (lmin l).
Proof.
  intros Hf. induction l as [|v t IH]; cbn [map lmin lmax]; [reflexivity|]. rewrite IH.
  apply (omap_merge2 (Qcmult f) qmax qmin (Some v)). intros a b. apply qmax_mul_neg. exact Hf.
Qed.

(* ---- 2. count is the total weight, sum the weighted sum, min / max the extrema ---- *)
Theorem count_is_total_weight l :
  g_count (stats_of l) = FFin (tw l) /\ g_sum (stats_of l) = FFin (ws l) /\
  xs_get_sum (stats_of l) = FFin (ws l) /\
  g_min (stats_of l) = emin (lmin (vals l)) /\ g_max (stats_of l) = emax (lmax (vals l)).
Proof.
  rewrite stats_of_closed. xs_unfold. repeat split; fld.
Qed.
Theorem minmax_empty : g_min (stats_of []) = FInf false /\ g_max (stats_of []) = FInf true.
Proof. split; reflexivity. Qed.
(* over ALL added values, whatever their weight (Add(value, 0) still folds value into min / max) *)
Theorem minmax_nonempty l : l <> [] ->
  exists m M, g_min (stats_of l) = FFin m /\ g_max (stats_of l) = FFin M /\
              In m (vals l) /\ In M (vals l) /\ (forall v, In v (vals l) -> m <= v <= M).
Proof.
  intros Hl. assert (Hv : vals l <> []) by (destruct l; [contradiction|discriminate]).
  destruct (lmin_some _ Hv) as [m Hm], (lmax_some _ Hv) as [M HM].
  exists m, M. rewrite stats_of_closed. unfold NF; cbn [g_min g_max]. rewrite Hm, HM. cbn [emin emax].
  destruct (lmin_spec _ _ Hm) as [H1 H2], (lmax_spec _ _ HM) as [H3 H4]. repeat split; auto.
Qed.
(* corollary for positive weights: the extrema of the values that carry weight *)
Corollary minmax_positive l : l <> [] -> Forall (fun vc => w0 < snd vc) l ->
  exists m M cm cM, g_min (stats_of l) = FFin m /\ g_max (stats_of l) = FFin M /\
              In (m, cm) l /\ w0 < cm /\ In (M, cM) l /\ w0 < cM /\ (forall v c, In (v, c) l -> m <= v <= M).
Proof.
  intros Hl Hpos. destruct (minmax_nonempty l Hl) as (m & M & H1 & H2 & H3 & H4 & H5).
  unfold vals in H3, H4. apply in_map_iff in H3, H4. destruct H3 as ([m' cm] & E1 & I1), H4 as ([M' cM] & E2 & I2).
  cbn [fst] in E1, E2. subst m' M'. exists m, M, cm, cM.
  rewrite Forall_forall in Hpos. repeat split; auto.
  - exact (Hpos _ I1).
  - exact (Hpos _ I2).
  - apply H5. unfold vals. apply in_map_iff. exists (v, c). split; [reflexivity|assumption].
  - apply H5. unfold vals. apply in_map_iff. exists (v, c). split; [reflexivity|assumption].
Qed.
Lemma WF_stats_of l : WF (stats_of l).
Proof. rewrite stats_of_closed. do 4 eexists. split; [reflexivity|apply mm_ok_list]. Qed.

(* ---- 3. merge is union ---- *)
Theorem merge_is_union l1 l2 : xs_merge (stats_of l1) (stats_of l2) = stats_of (l1 ++ l2).
Proof.
  rewrite !stats_of_closed, merge_NF, tw_app, ws_app, vals_app, lmin_app, lmax_app. reflexivity.
Qed.
Theorem merge_new_r s : WF s -> xs_merge s xs_new = s.
Proof.
  intros (n & sm & a & b & -> & _). rewrite xs_new_NF, merge_NF, !omerge_none_r. apply NF_eq; try reflexivity; wring.
Qed.
Theorem merge_new_l s : WF s -> xs_merge xs_new s = s.
Proof.
  intros (n & sm & a & b & -> & _). rewrite xs_new_NF, merge_NF. cbn [omerge]. apply NF_eq; try reflexivity; wring.
Qed.

(* ---- 4. reweight ---- *)
Theorem reweight_algebra f l : f <> w0 ->
  xs_reweight (stats_of l) (FFin f) = stats_of (map (fun '(v, c) => (v, f * c)) l).
Proof.
  intros Hf. change (fun '(v, c) => (v, f * c)) with (rw f).
  rewrite !stats_of_closed, (reweight_NF_nz _ _ _ _ _ Hf), tw_rw, ws_rw, vals_rw. reflexivity.
Qed.
Theorem reweight_fields f l : f <> w0 ->
  g_count (xs_reweight (stats_of l) (FFin f)) = FFin (f * tw l) /\
  g_sum (xs_reweight (stats_of l) (FFin f)) = FFin (f * ws l) /\
  g_min (xs_reweight (stats_of l) (FFin f)) = g_min (stats_of l) /\
  g_max (xs_reweight (stats_of l) (FFin f)) = g_max (stats_of l).
Proof.
  intros Hf. rewrite !stats_of_closed, (reweight_NF_nz _ _ _ _ _ Hf). repeat split; reflexivity.
Qed.
Theorem reweight_one s : WF s -> xs_reweight s (FFin w1) = s.
Proof.
  intros (n & sm & a & b & -> & _). rewrite reweight_NF_nz; [apply NF_eq; try reflexivity; wring|].
  apply weqb_neq. reflexivity.
Qed.
Theorem reweight_zero s : WF s -> xs_reweight s (FFin w0) = xs_new.
Proof. intros (n & sm & a & b & -> & _). rewrite reweight_NF_0. reflexivity. Qed.

(* ---- 5. rescale ---- *)
Theorem rescale_algebra f l : f <> w0 ->
  xs_rescale (stats_of l) (FFin f) = stats_of (map (fun '(v, c) => (f * v, c)) l).
Proof.
  intros Hf. change (fun '(v, c) => (f * v, c)) with (rs f).
  rewrite !stats_of_closed, tw_rs, ws_rs, vals_rs. destruct (Qc_tri f) as [Hp|[Hn|E]]; [| |contradiction].
  - rewrite (rescale_NF_pos _ _ _ _ _ Hp), (lmin_map_pos _ _ Hp), (lmax_map_pos _ _ Hp). reflexivity.
  - rewrite (rescale_NF_neg _ _ _ _ _ Hn), (lmin_map_neg _ _ Hn), (lmax_map_neg _ _ Hn). reflexivity.
Qed.
Theorem rescale_pos_fields f l : w0 < f ->
  g_count (xs_rescale (stats_of l) (FFin f)) = FFin (tw l) /\
  g_sum (xs_rescale (stats_of l) (FFin f)) = FFin (f * ws l) /\
  g_min (xs_rescale (stats_of l) (FFin f)) = emin (option_map (Qcmult f) (lmin (vals l))) /\
  g_max (xs_rescale (stats_of l) (FFin f)) = emax (option_map (Qcmult f) (lmax (vals l))).
Proof.
  intros Hf. rewrite !stats_of_closed, (rescale_NF_pos _ _ _ _ _ Hf). repeat split; reflexivity.
Qed.
(* a negative factor swaps min and max *)
Theorem rescale_neg_fields f l : f < w0 ->
  g_count (xs_rescale (stats_of l) (FFin f)) = FFin (tw l) /\
  g_sum (xs_rescale (stats_of l) (FFin f)) = FFin (f * ws l) /\
  g_min (xs_rescale (stats_of l) (FFin f)) = emin (option_map (Qcmult f) (lmax (vals l))) /\
  g_max (xs_rescale (stats_of l) (FFin f)) = emax (option_map (Qcmult f) (lmin (vals l))).
Proof.
  intros Hf. rewrite !stats_of_closed, (rescale_NF_neg _ _ _ _ _ Hf). repeat split; reflexivity.
Qed.
Theorem rescale_zero l : tw l <> w0 ->
  g_count (xs_rescale (stats_of l) (FFin w0)) = FFin (tw l) /\
  g_sum (xs_rescale (stats_of l) (FFin w0)) = FFin w0 /\
  g_min (xs_rescale (stats_of l) (FFin w0)) = FFin w0 /\ g_max (xs_rescale (stats_of l) (FFin w0)) = FFin w0.
Proof.
  intros Hn. rewrite !stats_of_closed, rescale_NF_0. apply weqb_neq in Hn. rewrite Hn. repeat split; reflexivity.
Qed.
(* ... and with count 0 the extrema are left alone (this differs from the statistics of the mapped list
   when zero-weight values were absorbed) *)
Theorem rescale_zero_empty l : tw l = w0 ->
  xs_rescale (stats_of l) (FFin w0) = NF w0 w0 (lmin (vals l)) (lmax (vals l)).
Proof.
  intros Hn. rewrite !stats_of_closed, rescale_NF_0, Hn. rewrite weqb_refl. reflexivity.
Qed.

(* ---- 6. empty exactly when nothing with positive weight was absorbed ---- *)
Lemma tw_nonneg l : Forall (fun vc => w0 <= snd vc) l -> w0 <= tw l.
Proof.
  induction 1 as [|[v c] t Hc Ht IH]; cbn [tw]; [apply Qcle_refl|]. cbn [snd] in Hc. wlra.
Qed.
Lemma tw_zero_iff l : Forall (fun vc => w0 <= snd vc) l -> (tw l = w0 <-> Forall (fun vc => snd vc = w0) l).
Proof.
  induction 1 as [|[v c] t Hc Ht IH]; cbn [tw].
  - split; [constructor|reflexivity].
  - cbn [snd] in Hc. pose proof (tw_nonneg t Ht) as Hn. split.
    + intros H. assert (c = w0 /\ tw t = w0) as [E1 E2] by (split; wlra).
      constructor; [exact E1|apply IH; exact E2].
    + intros H. inversion H as [|x y E1 E2]; subst. cbn [snd] in E1. apply IH in E2. rewrite E1, E2. wring.
Qed.
Theorem empty_iff l : Forall (fun vc => w0 <= snd vc) l ->
  (g_count (stats_of l) = FFin w0 <-> Forall (fun vc => snd vc = w0) l).
Proof.
  intros Hnn. rewrite stats_of_closed. unfold NF; cbn [g_count]. rewrite <- (tw_zero_iff l Hnn).
  split; [apply FFin_inj|intros ->; reflexivity].
Qed.
Corollary nonempty_positive l : Forall (fun vc => w0 < snd vc) l -> l <> [] -> g_count (stats_of l) <> FFin w0.
Proof.
  intros Hpos Hl H. assert (Hnn : Forall (fun vc => w0 <= snd vc) l).
  { eapply Forall_impl; [|exact Hpos]. intros a Ha. cbn beta in *. wlra. }
  apply (empty_iff l Hnn) in H. destruct l as [|[v c] t]; [contradiction|].
  inversion Hpos as [|x y P1 P2]; inversion H as [|x' y' Z1 Z2]; subst. cbn [snd] in *. wlra.
Qed.

(* ================================================================== *)
(** * 5. Histories                                                     *)
(* ================================================================== *)

Inductive sop :=
| SAdd (v : Qc) (c : Qc)        (* Add(v, c) *)
| SMerge (h : list sop)         (* MergeWith(the statistics produced by history h from empty) *)
| SReweight (f : Qc)
| SRescale (f : Qc)
| SClear
| SAddToCount (c : Qc)
| SAddToSum (x : Qc).

Section SopInd.
  Variable P : sop -> Prop.
  Hypothesis Hadd : forall v c, P (SAdd v c).
  Hypothesis Hmerge : forall h, Forall P h -> P (SMerge h).
  Hypothesis Hreweight : forall f, P (SReweight f).
  Hypothesis Hrescale : forall f, P (SRescale f).
  Hypothesis Hclear : P SClear.
  Hypothesis Hcount : forall c, P (SAddToCount c).
  Hypothesis Hsum : forall x, P (SAddToSum x).
  Fixpoint sop_ind' (o : sop) : P o :=
    match o with
    | SAdd v c => Hadd v c
    | SMerge h => Hmerge h ((fix go (h : list sop) : Forall P h :=
                               match h with [] => Forall_nil P | o :: t => Forall_cons o (sop_ind' o) (go t) end) h)
    | SReweight f => Hreweight f
    | SRescale f => Hrescale f
    | SClear => Hclear
    | SAddToCount c => Hcount c
    | SAddToSum x => Hsum x
    end.
End SopInd.

Fixpoint run_op (o : sop) (s : xsummary) {struct o} : xsummary :=
  match o with
  | SAdd v c => xs_add s (FFin v) (FFin c)
  | SMerge h => xs_merge s ((fix go (h : list sop) (t : xsummary) {struct h} : xsummary :=
                               match h with [] => t | o :: h' => go h' (run_op o t) end) h xs_new)
  | SReweight f => xs_reweight s (FFin f)
  | SRescale f => xs_rescale s (FFin f)
  | SClear => xs_new
  | SAddToCount c => xs_add_to_count s (FFin c)
  | SAddToSum x => xs_add_to_sum s (FFin x)
  end.
Fixpoint run (h : list sop) (t : xsummary) {struct h} : xsummary :=
  match h with [] => t | o :: h' => run h' (run_op o t) end.
Lemma run_op_merge h s : run_op (SMerge h) s = xs_merge s (run h xs_new).
Proof. reflexivity. Qed.
Lemma run_app h1 h2 s : run (h1 ++ h2) s = run h2 (run h1 s).
Proof. revert s. induction h1 as [|o t IH]; intros s; cbn [app run]; [reflexivity|apply IH]. Qed.

(* a property of every operation of a history, nested merges included *)
Section AllOps.
  Variable Q : sop -> Prop.
  Fixpoint all_ops (o : sop) {struct o} : Prop :=
    Q o /\ match o with
           | SMerge h => (fix all (h : list sop) : Prop := match h with [] => True | o :: t => all_ops o /\ all t end) h
           | _ => True
           end.
  Fixpoint all_h (h : list sop) {struct h} : Prop :=
    match h with [] => True | o :: t => all_ops o /\ all_h t end.
End AllOps.
Lemma all_ops_merge Q h : all_ops Q (SMerge h) <-> Q (SMerge h) /\ all_h Q h.
Proof. reflexivity. Qed.
Lemma all_h_app Q h1 h2 : all_h Q (h1 ++ h2) <-> all_h Q h1 /\ all_h Q h2.
Proof. induction h1 as [|o t IH]; cbn [app all_h]; [tauto|rewrite IH; tauto]. Qed.

(* the only side condition of the history theorem: no rescaling by 0 *)
Definition ok1 (o : sop) : Prop := match o with SRescale f => f <> w0 | _ => True end.
Definition ok_h : list sop -> Prop := all_h ok1.
(* the task's side conditions: weights >= 0, reweight and rescale factors > 0 *)
Definition nn1 (o : sop) : Prop :=
  match o with
  | SAdd _ c => w0 <= c | SReweight f => w0 < f | SRescale f => w0 < f | SAddToCount c => w0 <= c | _ => True
  end.
Definition nn_h : list sop -> Prop := all_h nn1.
(* histories made of Add / Merge / Reweight / Rescale / Clear only *)
Definition pure1 (o : sop) : Prop := match o with SAddToCount _ | SAddToSum _ => False | _ => True end.
Definition pure_h : list sop -> Prop := all_h pure1.

Lemma all_h_impl (Q R : sop -> Prop) (HQR : forall o, Q o -> R o) h : all_h Q h -> all_h R h.
Proof.
  assert (Ho : forall o, all_ops Q o -> all_ops R o).
  { induction o as [v c|h' IH|f|f| |c|x] using sop_ind'; intros H;
    try (destruct H as [H _]; split; [apply HQR; exact H|exact I]).
    apply all_ops_merge in H. apply all_ops_merge. destruct H as [H1 H2]. split; [apply HQR; exact H1|]. clear H1.
    induction IH as [|o t Ho Ht IHt]; [exact I|]. destruct H2 as [H2 H3]. split; [apply Ho; exact H2|apply IHt; exact H3]. }
  induction h as [|o t IH]; intros H; [exact I|]. destruct H as [H1 H2]. split; [apply Ho; exact H1|apply IH; exact H2].
Qed.
Lemma nn_ok h : nn_h h -> ok_h h.
Proof. apply all_h_impl. intros [] H; cbn [nn1 ok1] in *; try exact I. wlra. Qed.

(* ---- 1 (histories). every history, from any reachable state, yields a reachable state ---- *)
Lemma WF_run_op o : forall s, WF s -> WF (run_op o s).
Proof.
  induction o as [v c|h IH|f|f| |c|x] using sop_ind'; intros s Hs; cbn [run_op].
  - apply WF_add; exact Hs.
  - change (WF (xs_merge s (run h xs_new))). apply WF_merge; [exact Hs|].
    generalize xs_new WF_new. induction IH as [|o t Ho Ht IHt]; intros u Hu; cbn [run]; [exact Hu|].
    apply IHt. apply Ho. exact Hu.
  - apply WF_reweight; exact Hs.
  - apply WF_rescale; exact Hs.
  - exact WF_new.
  - apply WF_add_to_count; exact Hs.
  - apply WF_add_to_sum; exact Hs.
Qed.
Lemma WF_run h : forall s, WF s -> WF (run h s).
Proof. induction h as [|o t IH]; intros s Hs; cbn [run]; [exact Hs|]. apply IH. apply WF_run_op. exact Hs. Qed.

Theorem comp_zero h :
  g_comp (run h xs_new) = FFin w0 /\ xs_get_sum (run h xs_new) = g_sum (run h xs_new) /\
  g_simple (run h xs_new) = g_sum (run h xs_new).
Proof. apply WF_facts. apply WF_run. exact WF_new. Qed.
Theorem comp_zero_prefix h1 h2 : g_comp (run h1 xs_new) = FFin w0 /\ g_comp (run (h1 ++ h2) xs_new) = FFin w0.
Proof. split; apply comp_zero. Qed.
Theorem run_Fin h : Fin (run h xs_new).
Proof. apply WF_Fin. apply WF_run. exact WF_new. Qed.

(* ---- 9. the abstract content of a history: (value, weight) pairs, plus the raw offsets
        that AddToCount / AddToSum contribute to count and sum ---- *)
Record flat := { fl_items : list (Qc * Qc); fl_cnt : Qc; fl_sum : Qc }.
Definition fl_empty : flat := {| fl_items := []; fl_cnt := w0; fl_sum := w0 |}.
Definition fl_merge (a b : flat) : flat :=
  {| fl_items := fl_items a ++ fl_items b; fl_cnt := fl_cnt a + fl_cnt b; fl_sum := fl_sum a + fl_sum b |}.
Fixpoint flat_op (o : sop) (a : flat) {struct o} : flat :=
  match o with
  | SAdd v c => {| fl_items := fl_items a ++ [(v, c)]; fl_cnt := fl_cnt a; fl_sum := fl_sum a |}
  | SMerge h => fl_merge a ((fix go (h : list sop) (t : flat) {struct h} : flat :=
                               match h with [] => t | o :: h' => go h' (flat_op o t) end) h fl_empty)
  | SReweight f => if weqb f w0 then fl_empty
                   else {| fl_items := map (fun '(v, c) => (v, f * c)) (fl_items a); fl_cnt := f * fl_cnt a; fl_sum := f * fl_sum a |}
  | SRescale f => {| fl_items := map (fun '(v, c) => (f * v, c)) (fl_items a); fl_cnt := fl_cnt a; fl_sum := f * fl_sum a |}
  | SClear => fl_empty
  | SAddToCount c => {| fl_items := fl_items a; fl_cnt := fl_cnt a + c; fl_sum := fl_sum a |}
  | SAddToSum x => {| fl_items := fl_items a; fl_cnt := fl_cnt a; fl_sum := fl_sum a + x |}
  end.
Fixpoint flatten_from (h : list sop) (t : flat) {struct h} : flat :=
  match h with [] => t | o :: h' => flatten_from h' (flat_op o t) end.
Definition flatten (h : list sop) : flat := flatten_from h fl_empty.
Lemma flat_op_merge h a : flat_op (SMerge h) a = fl_merge a (flatten h).
Proof. reflexivity. Qed.

(* the statistics denoted by an abstract content *)
Definition den (a : flat) : xsummary :=
  xs_add_to_sum (xs_add_to_count (stats_of (fl_items a)) (FFin (fl_cnt a))) (FFin (fl_sum a)).
Lemma den_closed a :
  den a = NF (tw (fl_items a) + fl_cnt a) (ws (fl_items a) + fl_sum a) (lmin (vals (fl_items a))) (lmax (vals (fl_items a))).
Proof. unfold den. rewrite stats_of_closed, add_to_count_NF, add_to_sum_NF. reflexivity. Qed.
Lemma den_empty : den fl_empty = xs_new.
Proof. rewrite den_closed, xs_new_NF. cbn [fl_empty fl_items fl_cnt fl_sum tw ws vals map lmin lmax]. apply NF_eq; try reflexivity; wring. Qed.
Lemma den_pure l : den {| fl_items := l; fl_cnt := w0; fl_sum := w0 |} = stats_of l.
Proof. rewrite den_closed, stats_of_closed. cbn [fl_items fl_cnt fl_sum]. apply NF_eq; try reflexivity; wring. Qed.
Lemma WF_den a : WF (den a).
Proof. rewrite den_closed. do 4 eexists. split; [reflexivity|apply mm_ok_list]. Qed.

Lemma den_merge a b : xs_merge (den a) (den b) = den (fl_merge a b).
Proof.
  rewrite !den_closed, merge_NF. cbn [fl_merge fl_items fl_cnt fl_sum].
  rewrite tw_app, ws_app, vals_app, lmin_app, lmax_app. apply NF_eq; try reflexivity; wring.
Qed.

Lemma run_op_den o : all_ops ok1 o -> forall a, run_op o (den a) = den (flat_op o a).
Proof.
  induction o as [v c|h IH|f|f| |c|x] using sop_ind'; intros Hok a.
  - cbn [run_op flat_op]. rewrite !den_closed, add_NF. cbn [fl_items fl_cnt fl_sum].
    rewrite tw_app, ws_app, vals_app, lmin_app, lmax_app.
    cbn [tw ws vals map fst lmin lmax omerge]. apply NF_eq; try reflexivity; wring.
  - rewrite run_op_merge, flat_op_merge. apply all_ops_merge in Hok. destruct Hok as [_ Hok].
    rewrite <- den_merge. f_equal.
    rewrite <- den_empty. unfold flatten. generalize fl_empty.
    induction IH as [|o t Ho Ht IHt]; intros b; cbn [run flatten_from]; [reflexivity|].
    destruct Hok as [H1 H2]. rewrite (Ho H1). apply IHt. exact H2.
  - cbn [run_op flat_op]. destruct (weqb_spec f w0) as [->|Hf].
    + rewrite den_empty, den_closed, reweight_NF_0. reflexivity.
    + change (fun '(v, c) => (v, f * c)) with (rw f).
      rewrite !den_closed, (reweight_NF_nz _ _ _ _ _ Hf). cbn [fl_items fl_cnt fl_sum].
      rewrite tw_rw, ws_rw, vals_rw. apply NF_eq; try reflexivity; wring.
  - cbn [run_op flat_op]. destruct Hok as [Hf _]. cbn [ok1] in Hf.
    change (fun '(v, c) => (f * v, c)) with (rs f).
    rewrite !den_closed. cbn [fl_items fl_cnt fl_sum]. rewrite tw_rs, ws_rs, vals_rs.
    destruct (Qc_tri f) as [Hp|[Hn|E]]; [| |contradiction].
    + rewrite (rescale_NF_pos _ _ _ _ _ Hp), (lmin_map_pos _ _ Hp), (lmax_map_pos _ _ Hp).
      apply NF_eq; try reflexivity; wring.
    + rewrite (rescale_NF_neg _ _ _ _ _ Hn), (lmin_map_neg _ _ Hn), (lmax_map_neg _ _ Hn).
      apply NF_eq; try reflexivity; wring.
  - cbn [run_op flat_op]. symmetry. apply den_empty.
  - cbn [run_op flat_op]. rewrite !den_closed, add_to_count_NF. cbn [fl_items fl_cnt fl_sum].
    apply NF_eq; try reflexivity; wring.
  - cbn [run_op flat_op]. rewrite !den_closed, add_to_sum_NF. cbn [fl_items fl_cnt fl_sum].
    apply NF_eq; try reflexivity; wring.
Qed.
Lemma run_den h : ok_h h -> forall a, run h (den a) = den (flatten_from h a).
Proof.
  induction h as [|o t IH]; intros Hok a; cbn [run flatten_from]; [reflexivity|].
  destruct Hok as [H1 H2]. rewrite (run_op_den o H1). apply IH. exact H2.
Qed.

(* exact across every operation, after any history *)
Theorem run_is_flatten h : ok_h h -> run h xs_new = den (flatten h).
Proof. intros Hok. rewrite <- den_empty. apply run_den. exact Hok. Qed.

(* without AddToCount / AddToSum the offsets are 0: the statistics of the flattened list *)
Lemma pure_flat_op o : all_ops pure1 o -> forall a, fl_cnt a = w0 /\ fl_sum a = w0 ->
  fl_cnt (flat_op o a) = w0 /\ fl_sum (flat_op o a) = w0.
Proof.
  induction o as [v c|h IH|f|f| |c|x] using sop_ind'; intros Hp a [Hc Hs].
  - cbn [flat_op fl_cnt fl_sum]. auto.
  - rewrite flat_op_merge. apply all_ops_merge in Hp. destruct Hp as [_ Hp].
    assert (Hh : fl_cnt (flatten h) = w0 /\ fl_sum (flatten h) = w0).
    { unfold flatten. assert (H0 : fl_cnt fl_empty = w0 /\ fl_sum fl_empty = w0) by (split; reflexivity).
      revert H0. generalize fl_empty.
      induction IH as [|o t Ho Ht IHt]; intros b Hb; cbn [flatten_from]; [exact Hb|].
      destruct Hp as [H1 H2]. apply (IHt H2). apply (Ho H1). exact Hb. }
    destruct Hh as [E1 E2]. cbn [fl_merge fl_cnt fl_sum]. rewrite Hc, Hs, E1, E2. split; wring.
  - cbn [flat_op]. destruct (weqb f w0); cbn [fl_empty fl_cnt fl_sum]; [auto|]. rewrite Hc, Hs. split; wring.
  - cbn [flat_op fl_cnt fl_sum]. rewrite Hs. split; [exact Hc|wring].
  - cbn [flat_op fl_empty fl_cnt fl_sum]. auto.
  - destruct Hp as [[] _].
  - destruct Hp as [[] _].
Qed.
Lemma pure_flatten_from h : pure_h h -> forall a, fl_cnt a = w0 /\ fl_sum a = w0 ->
  fl_cnt (flatten_from h a) = w0 /\ fl_sum (flatten_from h a) = w0.
Proof.
  induction h as [|o t IH]; intros Hp a Ha; cbn [flatten_from]; [exact Ha|].
  destruct Hp as [H1 H2]. apply (IH H2). apply (pure_flat_op o H1). exact Ha.
Qed.
Theorem run_is_stats_of_flatten h : ok_h h -> pure_h h -> run h xs_new = stats_of (fl_items (flatten h)).
Proof.
  intros Hok Hp. rewrite (run_is_flatten h Hok).
  destruct (pure_flatten_from h Hp fl_empty (conj eq_refl eq_refl)) as [E1 E2]. fold (flatten h) in E1, E2.
  rewrite <- den_pure. destruct (flatten h) as [l c x]. cbn [fl_items fl_cnt fl_sum] in *. subst. reflexivity.
Qed.

(* under the task's side conditions every flattened weight, and the count offset, is >= 0 *)
Definition fl_nonneg (a : flat) : Prop := Forall (fun vc => w0 <= snd vc) (fl_items a) /\ w0 <= fl_cnt a.
Lemma nn_flat_op o : all_ops nn1 o -> forall a, fl_nonneg a -> fl_nonneg (flat_op o a).
Proof.
  induction o as [v c|h IH|f|f| |c|x] using sop_ind'; intros Hp a [Hi Hc]; unfold fl_nonneg.
  - destruct Hp as [Hp _]. cbn [nn1] in Hp. cbn [flat_op fl_items fl_cnt]. split; [|exact Hc].
    apply Forall_app. split; [exact Hi|]. constructor; [exact Hp|constructor].
  - rewrite flat_op_merge. apply all_ops_merge in Hp. destruct Hp as [_ Hp].
    assert (Hh : fl_nonneg (flatten h)).
    { unfold flatten. assert (H0 : fl_nonneg fl_empty) by (split; [constructor|apply Qcle_refl]).
      revert H0. generalize fl_empty.
      induction IH as [|o t Ho Ht IHt]; intros b Hb; cbn [flatten_from]; [exact Hb|].
      destruct Hp as [H1 H2]. apply (IHt H2). apply (Ho H1). exact Hb. }
    destruct Hh as [E1 E2]. cbn [fl_merge fl_items fl_cnt]. split; [apply Forall_app; split; assumption|wlra].
  - destruct Hp as [Hp _]. cbn [nn1] in Hp. cbn [flat_op].
    destruct (weqb f w0); cbn [fl_empty fl_items fl_cnt]; [split; [constructor|apply Qcle_refl]|].
    split.
    + apply Forall_forall. intros [v c] Hin. apply in_map_iff in Hin. destruct Hin as ([v' c'] & E & Hin).
      injection E as <- <-. rewrite Forall_forall in Hi. specialize (Hi _ Hin). cbn [snd] in *.
      apply (wnonneg_mul f c'); [wlra|exact Hi].
    + apply (wnonneg_mul f (fl_cnt a)); [wlra|exact Hc].
  - cbn [flat_op fl_items fl_cnt]. split; [|exact Hc].
    apply Forall_forall. intros [v c] Hin. apply in_map_iff in Hin. destruct Hin as ([v' c'] & E & Hin).
    injection E as <- <-. rewrite Forall_forall in Hi. exact (Hi _ Hin).
  - cbn [flat_op fl_empty fl_items fl_cnt]. split; [constructor|apply Qcle_refl].
  - destruct Hp as [Hp _]. cbn [nn1] in Hp. cbn [flat_op fl_items fl_cnt]. split; [exact Hi|wlra].
  - cbn [flat_op fl_items fl_cnt]. split; assumption.
Qed.
Lemma nn_flatten h : nn_h h -> fl_nonneg (flatten h).
Proof.
  unfold flatten. assert (H0 : fl_nonneg fl_empty) by (split; [constructor|apply Qcle_refl]).
  revert H0. generalize fl_empty. induction h as [|o t IH]; intros b Hb Hp; cbn [flatten_from]; [exact Hb|].
  destruct Hp as [H1 H2]. apply IH; [|exact H2]. apply (nn_flat_op o H1). exact Hb.
Qed.
(* 6 on histories: the count is 0 exactly when no positive weight remains *)
Theorem empty_iff_history h : nn_h h ->
  (g_count (run h xs_new) = FFin w0 <->
   Forall (fun vc => snd vc = w0) (fl_items (flatten h)) /\ fl_cnt (flatten h) = w0).
Proof.
  intros Hnn. rewrite (run_is_flatten h (nn_ok h Hnn)), den_closed. unfold NF; cbn [g_count].
  destruct (nn_flatten h Hnn) as [Hi Hc]. pose proof (tw_nonneg _ Hi) as Ht.
  rewrite <- (tw_zero_iff _ Hi). split.
  - intros H. apply FFin_inj in H. split; wlra.
  - intros [E1 E2]. rewrite E1, E2. apply f_equal. wring.
Qed.

(* ================================================================== *)
(** * 6. Decoding the statistics                                       *)
(* ================================================================== *)

(* Encode emits count / sum / min / max when they differ from 0 / 0 / +Inf / -Inf, and the decoder
   replays what it reads with AddToCount, AddToSum, Add(min, 0), Add(max, 0) on the receiver r *)
Definition enc_dec (src r : xsummary) : xsummary :=
  let r1 := if xeq (g_count src) xzero then r else xs_add_to_count r (g_count src) in
  let r2 := if xeq (xs_get_sum src) xzero then r1 else xs_add_to_sum r1 (xs_get_sum src) in
  let r3 := if xeq (g_min src) (FInf false) then r2 else xs_add r2 (g_min src) xzero in
  if xeq (g_max src) (FInf true) then r3 else xs_add r3 (g_max src) xzero.

Theorem decode_is_merge src r : WF src -> WF r -> enc_dec src r = xs_merge r src.
Proof.
  intros (n & sm & a & b & -> & Hab) (n' & sm' & a' & b' & -> & _).
  rewrite merge_NF. unfold enc_dec. cbv zeta.
  change (g_count (NF n sm a b)) with (FFin n). change (xs_get_sum (NF n sm a b)) with (FFin (sm + w0)).
  change (g_min (NF n sm a b)) with (emin a). change (g_max (NF n sm a b)) with (emax b).
  unfold xzero. cbn [xeq].
  replace (sm + w0) with sm by wring.
  assert (E1 : (if weqb n w0 then NF n' sm' a' b' else xs_add_to_count (NF n' sm' a' b') (FFin n)) = NF (n' + n) sm' a' b').
  { destruct (weqb_spec n w0) as [->|_]; [apply NF_eq; try reflexivity; wring|apply add_to_count_NF]. }
  rewrite E1. clear E1.
  assert (E2 : (if weqb sm w0 then NF (n' + n) sm' a' b' else xs_add_to_sum (NF (n' + n) sm' a' b') (FFin sm))
               = NF (n' + n) (sm' + sm) a' b').
  { destruct (weqb_spec sm w0) as [->|_]; [apply NF_eq; try reflexivity; wring|apply add_to_sum_NF]. }
  rewrite E2. clear E2.
  destruct a as [m|], b as [M|]; cbn [mm_ok] in Hab; try contradiction; cbn [emin emax xeq Bool.eqb].
  - rewrite !add_NF. apply NF_eq; try wring.
    + rewrite (omerge_assoc qmin qmin_assoc). cbn [omerge]. rewrite (qmin_absorb m M Hab). reflexivity.
    + rewrite (omerge_assoc qmax qmax_assoc). cbn [omerge]. unfold qmax.
      destruct (wltb_spec m M) as [_|H]; [reflexivity|]. do 2 f_equal. wlra.
  - rewrite !omerge_none_r. reflexivity.
Qed.
(* round trip: decoding into a fresh summary gives back the encoded statistics *)
Theorem decode_roundtrip src : WF src -> enc_dec src xs_new = src.
Proof. intros H. rewrite (decode_is_merge src xs_new H WF_new). apply merge_new_l. exact H. Qed.

(* the same on histories: the four decoder calls, for a non-empty list of finite values *)
Definition decode_ops (n sm mn mx : Qc) : list sop := [SAddToCount n; SAddToSum sm; SAdd mn w0; SAdd mx w0].
Theorem decode_statistics l r : l <> [] -> WF r ->
  exists n sm mn mx,
    g_count (stats_of l) = FFin n /\ xs_get_sum (stats_of l) = FFin sm /\
    g_min (stats_of l) = FFin mn /\ g_max (stats_of l) = FFin mx /\
    run (decode_ops n sm mn mx) xs_new = stats_of l /\
    run (decode_ops n sm mn mx) r = xs_merge r (stats_of l).
Proof.
  intros Hl (n' & sm' & a' & b' & -> & _).
  assert (Hv : vals l <> []) by (destruct l; [contradiction|discriminate]).
  destruct (lmin_some _ Hv) as [m Hm], (lmax_some _ Hv) as [M HM].
  pose proof (lmin_le_lmax _ _ _ Hm HM) as Hle.
  exists (tw l), (ws l), m, M. rewrite stats_of_closed, Hm, HM.
  assert (G : forall n' sm' a' b', run (decode_ops (tw l) (ws l) m M) (NF n' sm' a' b') =
                                   xs_merge (NF n' sm' a' b') (NF (tw l) (ws l) (Some m) (Some M))).
  { intros n1 sm1 a1 b1. cbn [decode_ops run run_op]. rewrite add_to_count_NF, add_to_sum_NF, !add_NF, merge_NF.
    apply NF_eq; try wring.
    + rewrite (omerge_assoc qmin qmin_assoc). cbn [omerge]. rewrite (qmin_absorb m M Hle). reflexivity.
    + rewrite (omerge_assoc qmax qmax_assoc). cbn [omerge]. unfold qmax.
      destruct (wltb_spec m M) as [_|H]; [reflexivity|]. do 2 f_equal. wlra. }
  repeat split; try reflexivity.
  - xs_unfold. fld.
  - rewrite xs_new_NF, G, merge_NF. cbn [omerge]. apply NF_eq; try reflexivity; wring.
  - apply G.
Qed.

(* ================================================================== *)
(** * 7. The quantile clamp                                            *)
(* ================================================================== *)

(* the wrapper's GetValueAtQuantile clamps the plain sketch's answer v to [min, max] of the statistics *)
Definition clamp (v mn mx : Qc) : Qc := if wltb v mn then mn else if wltb mx v then mx else v.
Lemma clamp_bounds v mn mx : mn <= mx -> mn <= clamp v mn mx <= mx.
Proof. intros H. unfold clamp. destruct (wltb_spec v mn), (wltb_spec mx v); split; wlra. Qed.
Lemma clamp_id v mn mx : mn <= v <= mx -> clamp v mn mx = v.
Proof. intros [H1 H2]. unfold clamp. destruct (wltb_spec v mn), (wltb_spec mx v); try reflexivity; wlra. Qed.

(* the model's [clamp_stats] (Sketch/Sketch.v), on the summary of the bit-exact instance whose
   min and max denote the finite values mn and mx, is that clamp *)
From SK Require Sketch.Sketch.
Lemma clamp_stats_exact (t : summary) (v mn mx : Qc) :
  f2v (su_min t) = FFin mn -> f2v (su_max t) = FFin mx ->
  Sketch.clamp_stats t v = FFin (clamp v mn mx).
Proof.
  intros H1 H2. unfold Sketch.clamp_stats, clamp. rewrite H1, H2. cbn [Sketch.fv_lt_q Sketch.fv_gt_q].
  destruct (wltb v mn); [reflexivity|]. destruct (wltb mx v); reflexivity.
Qed.
Theorem quantile_clamp (t : summary) (v mn mx : Qc) :
  f2v (su_min t) = FFin mn -> f2v (su_max t) = FFin mx -> mn <= mx ->
  exists r, Sketch.clamp_stats t v = FFin r /\ mn <= r <= mx /\ (mn <= v <= mx -> r = v).
Proof.
  intros H1 H2 Hle. exists (clamp v mn mx). split; [apply clamp_stats_exact; assumption|].
  split; [apply clamp_bounds; exact Hle|apply clamp_id].
Qed.

(* ================================================================== *)
(** * 8. A decidable equality, to run concrete histories by computation *)
(* ================================================================== *)

Definition fv_eqb (a b : fval) : bool :=
  match a, b with
  | FNaN, FNaN => true
  | FInf s, FInf t => Bool.eqb s t
  | FFin x, FFin y => weqb x y
  | _, _ => false
  end.
Lemma fv_eqb_eq a b : fv_eqb a b = true -> a = b.
Proof.
  destruct a as [|s|x], b as [|t|y]; cbn [fv_eqb]; intros H; try discriminate; try reflexivity.
  - apply Bool.eqb_prop in H. now subst.
  - apply weqb_eq in H. now subst.
Qed.
Definition xs_eqb (s t : xsummary) : bool :=
  fv_eqb (g_count s) (g_count t) && fv_eqb (g_sum s) (g_sum t) && fv_eqb (g_comp s) (g_comp t) &&
  fv_eqb (g_simple s) (g_simple t) && fv_eqb (g_min s) (g_min t) && fv_eqb (g_max s) (g_max t).
Lemma xs_eqb_eq s t : xs_eqb s t = true -> s = t.
Proof.
  unfold xs_eqb. intros H. repeat (apply andb_prop in H; destruct H as [H ?]).
  destruct s as [c1 s1 k1 p1 mn1 mx1], t as [c2 s2 k2 p2 mn2 mx2]; cbn [g_count g_sum g_comp g_simple g_min g_max] in *.
  apply mk_eq; apply fv_eqb_eq; assumption.
Qed.
