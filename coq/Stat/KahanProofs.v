(* Float-level theorems about the compensated summation of ddsketch/stat/summary.go AS WRITTEN in the
   model (Stat/Summary.v, binary64 instance su_*, which is replayed bit for bit against the Go code).

   Sign convention.  One step  tmp := x - comp; velvel := sum + tmp; comp' := (velvel - sum) - tmp; sum' := velvel
   makes comp' the amount by which velvel EXCEEDS sum + tmp, so the real number a state stands for is
        real_sum s = val (sum s) - val (comp s)
   (that is also what the next step uses: it subtracts comp from the next addend).  The model's (and Go's)
   [Sum()] returns  sum + comp  and [MergeWith] feeds  +o.comp  to the recurrence: both have the opposite sign.
   The theorems below are about exactly what the model does; the sign shows up as the explicit terms
   2|comp| in [get_sum] and 2|comp o| in [merge].

   Part 1 works on real numbers in the binary64 format with rounding to nearest even (Flocq's FLT format has no
   upper exponent bound, so no overflow hypothesis is needed there); part 2 links the binary64 operations to it
   under an explicit no-overflow bound. *)
From Coq Require Import Bool ZArith Reals Lra Lia Psatz List.
From Flocq Require Import Core.Core Plus_error Relative Sterbenz Pff2Flocq
                          IEEE754.BinarySingleNaN IEEE754.Binary IEEE754.Bits.
From SK Require Import Base.Prelude Base.F64 Base.F64Proofs Stat.Summary Mapping.Glue Mapping.GlueProofs.
Import ListNotations.

#[local] Existing Instance prec53_gt_0.
#[local] Existing Instance fexp64_valid.
Local Open Scope R_scope.

Notation val x := (B2R 53 1024 x).
Notation finite x := (is_finite 53 1024 x = true).
Notation fmt x := (generic_format radix2 (FLT_exp (-1074) 53) x).
(* unit roundoff of binary64 *)
Notation u53 := (bpow radix2 (-53)).
(* half the smallest subnormal: absolute rounding error of an underflowing product *)
Notation eta64 := (bpow radix2 (-1075)).

(* ------------------------------------------------------------------ *)
(* 0. elementary facts about rndR                                      *)
(* ------------------------------------------------------------------ *)
Lemma u53_val : u53 = / IZR (2 ^ 53).
Proof. reflexivity. Qed.

Lemma u53_bounds : 0 < u53 <= / 1000.
Proof.
  split; [apply bpow_gt_0|].
  rewrite u53_val. apply Rinv_le_contravar; [lra|]. apply IZR_le. lia.
Qed.

Lemma u_ro_53 : u_ro radix2 53 = u53.
Proof.
  assert (H : u53 = bpow radix2 (-1) * bpow radix2 (-52)) by (rewrite <- bpow_plus; reflexivity).
  rewrite H. reflexivity.
Qed.

Lemma rndR_fmt (x : R) : fmt (rndR x).
Proof. apply generic_format_round; [exact fexp64_valid|apply valid_rnd_N]. Qed.

Lemma rndR_opp (x : R) : rndR (- x) = - rndR x.
Proof. apply round_NE_opp. Qed.

Lemma rndR_0 : rndR 0 = 0.
Proof. apply round_0. apply valid_rnd_N. Qed.

Lemma fmt_0 : fmt 0.
Proof. apply generic_format_0. Qed.

Lemma fmt_opp (x : R) : fmt x -> fmt (- x).
Proof. apply generic_format_opp. Qed.

(* rounding a sum of two floats: relative error u, also relative to the result (no underflow term:
   a sum of floats that falls in the subnormal range is exact) *)
Lemma rndR_plus_rel (a b : R) : fmt a -> fmt b -> Rabs (rndR (a + b) - (a + b)) <= u53 * Rabs (a + b).
Proof.
  intros Fa Fb.
  destruct (FLT_plus_error_N_ex radix2 (-1074) 53 (fun x => negb (Z.even x)) a b Fa Fb) as (eps & He & Hr).
  fold ZnearestE in Hr. change (round radix2 (FLT_exp (-1074) 53) ZnearestE (a + b)) with (rndR (a + b)) in Hr.
  rewrite Hr. replace ((a + b) * (1 + eps) - (a + b)) with ((a + b) * eps) by ring.
  rewrite Rabs_mult, Rmult_comm. apply Rmult_le_compat_r; [apply Rabs_pos|].
  eapply Rle_trans; [exact He|]. rewrite <- u_ro_53. apply u_rod1pu_ro_le_u_ro.
Qed.

Lemma rndR_plus_rel_res (a b : R) : fmt a -> fmt b -> Rabs (rndR (a + b) - (a + b)) <= u53 * Rabs (rndR (a + b)).
Proof.
  intros Fa Fb.
  destruct (FLT_plus_error_N_round_ex radix2 (-1074) 53 (fun x => negb (Z.even x)) a b Fa Fb) as (eps & He & Hr).
  fold ZnearestE in Hr. change (round radix2 (FLT_exp (-1074) 53) ZnearestE (a + b)) with (rndR (a + b)) in Hr.
  rewrite u_ro_53 in He.
  set (t := rndR (a + b)) in *. rewrite Hr.
  replace (t - t * (1 + eps)) with (- (t * eps)) by ring.
  rewrite Rabs_Ropp, Rabs_mult, Rmult_comm. apply Rmult_le_compat_r; [apply Rabs_pos|exact He].
Qed.

Lemma rndR_minus_rel (a b : R) : fmt a -> fmt b -> Rabs (rndR (a - b) - (a - b)) <= u53 * Rabs (a - b).
Proof. intros Fa Fb. apply (rndR_plus_rel a (- b) Fa (fmt_opp b Fb)). Qed.

(* the rounded value is at least as close as any other float *)
Lemma rndR_nearest (x g : R) : fmt g -> Rabs (rndR x - x) <= Rabs (g - x).
Proof.
  intros Fg.
  destruct (round_N_pt radix2 (FLT_exp (-1074) 53) (fun x => negb (Z.even x)) x) as (_ & H).
  apply H. exact Fg.
Qed.

(* Sterbenz, in a sign-free form *)
Lemma sterbenz_abs (a b : R) : fmt a -> fmt b -> Rabs (a - b) <= Rabs b / 2 -> fmt (a - b).
Proof.
  intros Fa Fb H.
  destruct (Rle_or_lt 0 b) as [Hb|Hb].
  - rewrite (Rabs_pos_eq b Hb) in H. apply Rabs_le_inv in H.
    apply sterbenz; auto with typeclass_instances. lra.
  - rewrite (Rabs_left b Hb) in H. apply Rabs_le_inv in H.
    replace (a - b) with (- ((- a) - (- b))) by ring. apply fmt_opp.
    apply sterbenz; auto using fmt_opp with typeclass_instances. lra.
Qed.

(* Dekker's Fast2Sum in the shape of the Go statements: when |y| <= |s| the compensation is exact *)
Lemma fast2sum_go (s y : R) : fmt s -> fmt y -> Rabs y <= Rabs s ->
  rndR (s + y) - rndR (rndR (rndR (s + y) - s) - y) = s + y.
Proof.
  intros Fs Fy H.
  assert (Hsym : forall x : Z, negb (Z.even x) = negb (negb (Z.even (- (x + 1))))).
  { intros x. rewrite Z.even_opp, Z.even_add. simpl. destruct (Z.even x); reflexivity. }
  pose proof (Fast2Sum_correct (-1074) 53 (fun x => negb (Z.even x)) ltac:(lia) ltac:(lia) Hsym s y Fs Fy H) as E.
  fold ZnearestE in E.
  change (round radix2 (FLT_exp (-1074) 53) ZnearestE) with rndR in E.
  set (t := rndR (s + y)) in *.
  replace (t - s) with (- (s - t)) by ring. rewrite rndR_opp.
  replace (- rndR (s - t) - y) with (- (y + rndR (s - t))) by ring. rewrite rndR_opp. lra.
Qed.

(* ------------------------------------------------------------------ *)
(* 1. one step on real numbers                                          *)
(* ------------------------------------------------------------------ *)
(* the four Go statements; a state is (sum, sumCompensation) *)
Definition kstepR (st : R * R) (x : R) : R * R :=
  let y := rndR (x - snd st) in
  let t := rndR (fst st + y) in
  (t, rndR (rndR (t - fst st) - y)).

(* the real number a state stands for *)
Definition rsumR (st : R * R) : R := fst st - snd st.

Section TwoSum.
Variables s y : R.
Hypotheses (Fs : fmt s) (Fy : fmt y).
Let t := rndR (s + y).
Let c' := rndR (rndR (t - s) - y).

(* when the addend dominates, the first subtraction may round; the second one never does *)
Lemma twosum_caseB : Rabs s < Rabs y ->
  c' = rndR (t - s) - y /\
  Rabs (t - (s + y)) <= 3 * u53 * Rabs y /\
  Rabs (rndR (t - s) - (t - s)) <= u53 * Rabs (t - s) /\
  Rabs c' <= 2 * Rabs (t - (s + y)).
Proof.
  intros Hlt. pose proof u53_bounds as Hu.
  pose proof (rndR_plus_rel_res s y Fs Fy) as He. fold t in He.
  set (e := t - (s + y)) in *.
  assert (Ft : fmt t) by apply rndR_fmt.
  assert (HT : Rabs t <= 2 * Rabs y + Rabs e).
  { replace t with (s + y + e) by (unfold e; ring).
    eapply Rle_trans; [apply Rabs_triang|]. pose proof (Rabs_triang s y). lra. }
  assert (He3 : Rabs e <= 3 * u53 * Rabs y).
  { pose proof (Rabs_pos e). pose proof (Rabs_pos y). pose proof (Rabs_pos t).
    assert (u53 * Rabs t <= u53 * (2 * Rabs y + Rabs e)) by (apply Rmult_le_compat_l; lra).
    assert (u53 * Rabs e <= Rabs e / 1000) by nra. nra. }
  set (z := rndR (t - s)) in *.
  assert (Hz : Rabs (z - (t - s)) <= Rabs e).
  { eapply Rle_trans; [apply (rndR_nearest (t - s) y Fy)|].
    replace (y - (t - s)) with (- e) by (unfold e; ring). rewrite Rabs_Ropp. lra. }
  assert (Hzy : Rabs (z - y) <= 2 * Rabs e).
  { replace (z - y) with ((z - (t - s)) + e) by (unfold e; ring).
    eapply Rle_trans; [apply Rabs_triang|]. lra. }
  assert (Fz : fmt z) by apply rndR_fmt.
  assert (Fzy : fmt (z - y)).
  { apply sterbenz_abs; [exact Fz|exact Fy|]. pose proof (Rabs_pos y). nra. }
  assert (Hc : c' = z - y).
  { unfold c'. fold z. apply round_generic; [apply valid_rnd_N|exact Fzy]. }
  split; [exact Hc|]. split; [exact He3|]. split.
  - apply (rndR_minus_rel t s Ft Fs).
  - rewrite Hc. exact Hzy.
Qed.

Lemma twosum_caseA : Rabs y <= Rabs s -> t - c' = s + y.
Proof. intros H. apply fast2sum_go; assumption. Qed.

(* what one TwoSum-like block loses, and how large the new compensation can be *)
Lemma twosum_gen :
  Rabs ((t - c') - (s + y)) <= u53 * (1 + 3 * u53) * Rabs y /\
  Rabs c' <= 2 * u53 * Rabs t.
Proof.
  pose proof u53_bounds as Hu.
  pose proof (rndR_plus_rel_res s y Fs Fy) as He. fold t in He.
  destruct (Rle_or_lt (Rabs y) (Rabs s)) as [HA|HB].
  - pose proof (twosum_caseA HA) as E. split.
    + replace (t - c' - (s + y)) with 0 by lra. rewrite Rabs_R0.
      pose proof (Rabs_pos y). nra.
    + replace c' with (t - (s + y)) by lra. pose proof (Rabs_pos t). nra.
  - destruct (twosum_caseB HB) as (Hc & He3 & Hz & Hc2). split.
    + rewrite Hc. replace (t - (rndR (t - s) - y) - (s + y)) with (- (rndR (t - s) - (t - s))) by ring.
      rewrite Rabs_Ropp. eapply Rle_trans; [exact Hz|].
      assert (Rabs (t - s) <= (1 + 3 * u53) * Rabs y).
      { replace (t - s) with (y + (t - (s + y))) by ring. eapply Rle_trans; [apply Rabs_triang|]. lra. }
      rewrite Rmult_assoc. apply Rmult_le_compat_l; lra.
    + lra.
Qed.
End TwoSum.

(* one step: well-formedness |comp| <= 2u|sum| is re-established whatever the state was,
   and the represented number moves by the addend up to (2u + 5u^2) |x - comp| *)
Lemma kstepR_fmt (st : R * R) (x : R) : fmt (fst (kstepR st x)) /\ fmt (snd (kstepR st x)).
Proof. split; apply rndR_fmt. Qed.

Lemma kstepR_wf (st : R * R) (x : R) : fmt (fst st) -> fmt (snd st) -> fmt x ->
  Rabs (snd (kstepR st x)) <= 2 * u53 * Rabs (fst (kstepR st x)).
Proof.
  intros Fs Fc Fx. destruct st as (s, c). cbn [fst snd] in *. unfold kstepR. cbn [fst snd].
  apply (twosum_gen s (rndR (x - c)) Fs (rndR_fmt _)).
Qed.

Lemma kstepR_err (st : R * R) (x : R) : fmt (fst st) -> fmt (snd st) -> fmt x ->
  Rabs (rsumR (kstepR st x) - (rsumR st + x)) <= (2 * u53 + 5 * u53 ^ 2) * Rabs (x - snd st).
Proof.
  intros Fs Fc Fx. destruct st as (s, c). cbn [fst snd] in *. unfold kstepR, rsumR. cbn [fst snd].
  pose proof u53_bounds as Hu.
  set (y := rndR (x - c)).
  destruct (twosum_gen s y Fs (rndR_fmt _)) as (H1 & _).
  pose proof (rndR_minus_rel x c Fx Fc) as Hy. fold y in Hy.
  set (t := rndR (s + y)) in *. set (c' := rndR (rndR (t - s) - y)) in *.
  assert (HY : Rabs y <= (1 + u53) * Rabs (x - c)).
  { replace y with ((x - c) + (y - (x - c))) by ring. eapply Rle_trans; [apply Rabs_triang|]. lra. }
  replace (t - c' - (s - c + x)) with ((t - c' - (s + y)) + (y - (x - c))) by ring.
  eapply Rle_trans; [apply Rabs_triang|].
  pose proof (Rabs_pos (x - c)). pose proof (Rabs_pos y).
  assert (u53 * (1 + 3 * u53) * Rabs y <= u53 * (1 + 3 * u53) * ((1 + u53) * Rabs (x - c))).
  { apply Rmult_le_compat_l; [nra|exact HY]. }
  assert (K : u53 * (1 + 3 * u53) * (1 + u53) <= u53 + 5 * u53 ^ 2) by nra.
  assert (u53 * (1 + 3 * u53) * (1 + u53) * Rabs (x - c) <= (u53 + 5 * u53 ^ 2) * Rabs (x - c)).
  { apply Rmult_le_compat_r; assumption. }
  lra.
Qed.

(* exact when the compensation is zero and the sum is representable *)
Lemma kstepR_exact (s x : R) : fmt s -> fmt x -> fmt (s + x) -> kstepR (s, 0) x = (s + x, 0).
Proof.
  intros Fs Fx Fsx. unfold kstepR. cbn [fst snd].
  rewrite Rminus_0_r. rewrite (rndR_generic x Fx). rewrite (rndR_generic (s + x) Fsx).
  replace (s + x - s) with x by ring. rewrite (rndR_generic x Fx).
  replace (x - x) with 0 by ring. rewrite rndR_0. reflexivity.
Qed.

(* ------------------------------------------------------------------ *)
(* 2. the recurrence over a list, on real numbers                       *)
(* ------------------------------------------------------------------ *)
Definition kfoldR (xs : list R) (st : R * R) : R * R := fold_left kstepR xs st.
Definition sumR (xs : list R) : R := fold_right Rplus 0 xs.
Definition sumabsR (xs : list R) : R := fold_right (fun x a => Rabs x + a) 0 xs.
(* well-formed state: both components are floats and |comp| <= 2u |sum| *)
Definition wfR (st : R * R) : Prop :=
  fmt (fst st) /\ fmt (snd st) /\ Rabs (snd st) <= 2 * u53 * Rabs (fst st).

Notation alpha := (2 * u53 + 5 * u53 ^ 2).

Lemma alpha_bounds : 0 < alpha <= / 400.
Proof. pose proof u53_bounds. split; nra. Qed.

Lemma sumR_cons (x : R) (xs : list R) : sumR (x :: xs) = x + sumR xs.
Proof. reflexivity. Qed.
Lemma sumabsR_cons (x : R) (xs : list R) : sumabsR (x :: xs) = Rabs x + sumabsR xs.
Proof. reflexivity. Qed.

Lemma sumabsR_nonneg (xs : list R) : 0 <= sumabsR xs.
Proof.
  induction xs as [|x xs IH]; [cbn; lra|]. rewrite sumabsR_cons. pose proof (Rabs_pos x). lra.
Qed.

Lemma sumR_abs (xs : list R) : Rabs (sumR xs) <= sumabsR xs.
Proof.
  induction xs as [|x xs IH]; [cbn; rewrite Rabs_R0; lra|].
  rewrite sumR_cons, sumabsR_cons. eapply Rle_trans; [apply Rabs_triang|]. lra.
Qed.

Lemma wfR_zero : wfR (0, 0).
Proof. repeat split; cbn; try apply fmt_0. rewrite Rabs_R0. lra. Qed.

Lemma wfR_comp0 (s : R) : fmt s -> wfR (s, 0).
Proof.
  intros F. repeat split; cbn; [exact F|apply fmt_0|]. rewrite Rabs_R0.
  pose proof u53_bounds. pose proof (Rabs_pos s). nra.
Qed.

Lemma kstepR_wfR (st : R * R) (x : R) : wfR st -> fmt x -> wfR (kstepR st x).
Proof.
  intros (Fs & Fc & _) Fx. destruct (kstepR_fmt st x) as (F1 & F2).
  split; [exact F1|]. split; [exact F2|]. apply kstepR_wf; assumption.
Qed.

(* in a well-formed state the compensation is small relative to the represented number *)
Lemma wfR_comp_le (st : R * R) : wfR st -> Rabs (snd st) <= alpha * Rabs (rsumR st).
Proof.
  intros (_ & _ & H). unfold rsumR. destruct st as (s, c). cbn [fst snd] in *.
  pose proof u53_bounds as Hu.
  assert (Rabs s <= Rabs (s - c) + Rabs c).
  { replace s with ((s - c) + c) at 1 by ring. apply Rabs_triang. }
  pose proof (Rabs_pos c). pose proof (Rabs_pos s). pose proof (Rabs_pos (s - c)).
  assert (u53 * Rabs s <= u53 * (Rabs (s - c) + Rabs c)) by (apply Rmult_le_compat_l; lra).
  assert (u53 * Rabs c <= Rabs c / 1000) by nra.
  assert (u53 * (u53 * Rabs (s - c)) >= 0) by nra.
  nra.
Qed.

Lemma wfR_sum_le (st : R * R) : wfR st -> Rabs (fst st) <= (1 + alpha) * Rabs (rsumR st).
Proof.
  intros W. pose proof (wfR_comp_le st W) as H. unfold rsumR in *. destruct st as (s, c). cbn [fst snd] in *.
  assert (Rabs s <= Rabs (s - c) + Rabs c).
  { replace s with ((s - c) + c) at 1 by ring. apply Rabs_triang. }
  lra.
Qed.

(* the arithmetic of the induction step *)
Lemma fold_arith (a m r0 ax A d e : R) :
  0 <= a <= 1 -> 0 <= m -> 2 * (m + 1) * a <= 1 -> 0 <= r0 -> 0 <= ax -> 0 <= A ->
  0 <= d <= a * ax + a * (a * r0) ->
  e <= a * A + 2 * m * a ^ 2 * (r0 + ax + d + A) ->
  e + d <= a * (ax + A) + 2 * (m + 1) * a ^ 2 * (r0 + (ax + A)).
Proof.
  intros Ha Hm Hma Hr Hx HA Hd He.
  assert (H1 : 2 * m * a <= 1) by nra.
  assert (H2 : 2 * m * a ^ 2 * d <= a * d).
  { replace (2 * m * a ^ 2 * d) with ((2 * m * a) * (a * d)) by ring.
    rewrite <- (Rmult_1_l (a * d)) at 2. apply Rmult_le_compat_r; nra. }
  assert (H3 : a * d <= a * (a * ax + a * (a * r0))) by (apply Rmult_le_compat_l; lra).
  assert (H4 : a * (a * (a * r0)) <= a * (a * r0)).
  { rewrite <- (Rmult_1_l (a * (a * r0))) at 2. apply Rmult_le_compat_r; nra. }
  assert (0 <= a * (a * ax)) by nra.
  assert (0 <= a * (a * r0)) by nra.
  assert (0 <= m * a ^ 2 * A) by (apply Rmult_le_pos; nra).
  nra.
Qed.

Theorem kfoldR_err (xs : list R) : forall st, wfR st -> Forall (fun x => fmt x) xs ->
  2 * INR (length xs) * alpha <= 1 ->
  Rabs (rsumR (kfoldR xs st) - (rsumR st + sumR xs)) <=
    alpha * sumabsR xs + 2 * INR (length xs) * alpha ^ 2 * (Rabs (rsumR st) + sumabsR xs).
Proof.
  pose proof alpha_bounds as Ha.
  induction xs as [|x xs IH]; intros st W FX Hn.
  - cbn. replace (rsumR st - (rsumR st + 0)) with 0 by ring. rewrite Rabs_R0.
    pose proof (Rabs_pos (rsumR st)). nra.
  - inversion FX as [|x0 xs0 Fx FX']; subst.
    change (kfoldR (x :: xs) st) with (kfoldR xs (kstepR st x)).
    assert (W1 : wfR (kstepR st x)) by (apply kstepR_wfR; assumption).
    change (length (x :: xs)) with (S (length xs)) in *. rewrite S_INR in *.
    set (m := INR (length xs)) in *.
    assert (Hm : 0 <= m) by apply pos_INR.
    assert (Hn' : 2 * m * alpha <= 1) by nra.
    specialize (IH (kstepR st x) W1 FX' Hn').
    destruct W as (Fs & Fc & Wc).
    pose proof (kstepR_err st x Fs Fc Fx) as Hd.
    pose proof (wfR_comp_le st (conj Fs (conj Fc Wc))) as Hc.
    set (R1 := rsumR (kstepR st x)) in *. set (R0 := rsumR st) in *.
    set (d := R1 - (R0 + x)) in *.
    assert (Hd' : Rabs d <= alpha * Rabs x + alpha * (alpha * Rabs R0)).
    { eapply Rle_trans; [exact Hd|].
      assert (Rabs (x - snd st) <= Rabs x + Rabs (snd st)).
      { unfold Rminus. eapply Rle_trans; [apply Rabs_triang|]. rewrite Rabs_Ropp. lra. }
      assert (alpha * Rabs (x - snd st) <= alpha * (Rabs x + alpha * Rabs R0)).
      { apply Rmult_le_compat_l; lra. }
      lra. }
    assert (HR1 : Rabs R1 <= Rabs R0 + Rabs x + Rabs d).
    { replace R1 with (R0 + x + d) by (unfold d; ring).
      eapply Rle_trans; [apply Rabs_triang|]. pose proof (Rabs_triang R0 x). lra. }
    rewrite sumR_cons, sumabsR_cons.
    replace (rsumR (kfoldR xs (kstepR st x)) - (R0 + (x + sumR xs)))
      with ((rsumR (kfoldR xs (kstepR st x)) - (R1 + sumR xs)) + d) by (unfold d; ring).
    eapply Rle_trans; [apply Rabs_triang|].
    pose proof (sumabsR_nonneg xs) as HA.
    apply fold_arith with (d := Rabs d) (r0 := Rabs R0) (m := m).
    + lra.
    + exact Hm.
    + exact Hn.
    + apply Rabs_pos.
    + apply Rabs_pos.
    + exact HA.
    + split; [apply Rabs_pos|exact Hd'].
    + eapply Rle_trans; [exact IH|].
      apply Rplus_le_compat_l.
      apply Rmult_le_compat_l; [|lra].
      apply Rmult_le_pos; [lra|nra].
Qed.

Lemma kfoldR_wfR (xs : list R) : forall st, wfR st -> Forall (fun x => fmt x) xs -> wfR (kfoldR xs st).
Proof.
  induction xs as [|x xs IH]; intros st W FX; [exact W|].
  inversion FX; subst. apply IH; [apply kstepR_wfR|]; assumption.
Qed.

(* size of the final state: nothing grows beyond (1 + O(u)) (|real_sum| + sum |x|) *)
Theorem kfoldR_bounds (xs : list R) (st : R * R) : wfR st -> Forall (fun x => fmt x) xs ->
  2 * INR (length xs) * alpha <= 1 ->
  let T := Rabs (rsumR st) + sumabsR xs in
  Rabs (rsumR (kfoldR xs st)) <= (1 + 2 * alpha) * T /\
  Rabs (fst (kfoldR xs st)) <= (1 + alpha) * ((1 + 2 * alpha) * T) /\
  Rabs (snd (kfoldR xs st)) <= alpha * ((1 + 2 * alpha) * T).
Proof.
  intros W FX Hn T. pose proof alpha_bounds as Ha.
  pose proof (kfoldR_err xs st W FX Hn) as E. fold T in E.
  pose proof (kfoldR_wfR xs st W FX) as W'.
  pose proof (sumabsR_nonneg xs) as HA. pose proof (sumR_abs xs) as HS.
  assert (HT : 0 <= T) by (unfold T; pose proof (Rabs_pos (rsumR st)); lra).
  set (n := INR (length xs)) in *. assert (Hn0 : 0 <= n) by apply pos_INR.
  assert (E2 : 2 * n * alpha ^ 2 * T <= alpha * T).
  { replace (2 * n * alpha ^ 2 * T) with ((2 * n * alpha) * (alpha * T)) by ring.
    rewrite <- (Rmult_1_l (alpha * T)) at 2. apply Rmult_le_compat_r; nra. }
  assert (E3 : alpha * sumabsR xs <= alpha * T).
  { apply Rmult_le_compat_l; [lra|]. unfold T. pose proof (Rabs_pos (rsumR st)). lra. }
  assert (HR : Rabs (rsumR (kfoldR xs st)) <= (1 + 2 * alpha) * T).
  { set (Rn := rsumR (kfoldR xs st)) in *.
    replace Rn with ((Rn - (rsumR st + sumR xs)) + (rsumR st + sumR xs)) by ring.
    eapply Rle_trans; [apply Rabs_triang|]. pose proof (Rabs_triang (rsumR st) (sumR xs)).
    unfold T in *. lra. }
  split; [exact HR|]. split.
  - eapply Rle_trans; [apply (wfR_sum_le _ W')|]. apply Rmult_le_compat_l; lra.
  - eapply Rle_trans; [apply (wfR_comp_le _ W')|]. apply Rmult_le_compat_l; lra.
Qed.

(* the same with explicit constants in u = 2^-53 *)
Lemma len_u (n : nat) : (Z.of_nat n <= 2 ^ 50)%Z -> INR n * u53 <= / 8.
Proof.
  intros H. rewrite INR_IZR_INZ. apply IZR_le in H.
  pose proof u53_bounds as Hu.
  assert (E : IZR (2 ^ 50) * u53 = / 8).
  { rewrite u53_val. change (2 ^ 53)%Z with (2 ^ 50 * 8)%Z. rewrite mult_IZR.
    assert (IZR (2 ^ 50) <> 0) by (apply not_0_IZR; lia). field. assumption. }
  rewrite <- E. apply Rmult_le_compat_r; lra.
Qed.

Lemma len_alpha (n : nat) : (Z.of_nat n <= 2 ^ 50)%Z -> 2 * INR n * alpha <= 1.
Proof.
  intros H. pose proof (len_u n H). pose proof (pos_INR n). pose proof u53_bounds as Hu. nra.
Qed.

Theorem kfoldR_err_u (xs : list R) (st : R * R) : wfR st -> Forall (fun x => fmt x) xs ->
  (Z.of_nat (length xs) <= 2 ^ 50)%Z ->
  Rabs (rsumR (kfoldR xs st) - (rsumR st + sumR xs)) <=
    (2 * u53 + 5 * u53 ^ 2) * sumabsR xs + 9 * INR (length xs) * u53 ^ 2 * (Rabs (rsumR st) + sumabsR xs).
Proof.
  intros W FX Hn. pose proof (kfoldR_err xs st W FX (len_alpha _ Hn)) as E.
  eapply Rle_trans; [exact E|]. apply Rplus_le_compat_l.
  pose proof u53_bounds as Hu. pose proof (sumabsR_nonneg xs). pose proof (Rabs_pos (rsumR st)).
  apply Rmult_le_compat_r; [lra|].
  assert (0 <= INR (length xs)) by apply pos_INR.
  assert (2 * alpha ^ 2 <= 9 * u53 ^ 2) by nra.
  replace (2 * INR (length xs) * alpha ^ 2) with (INR (length xs) * (2 * alpha ^ 2)) by ring.
  replace (9 * INR (length xs) * u53 ^ 2) with (INR (length xs) * (9 * u53 ^ 2)) by ring.
  apply Rmult_le_compat_l; assumption.
Qed.

(* exactness: while every partial sum is representable the compensation stays 0 *)
Fixpoint prefix_fmt (s : R) (xs : list R) : Prop :=
  match xs with [] => True | x :: xs' => fmt (s + x) /\ prefix_fmt (s + x) xs' end.

Theorem kfoldR_exact (xs : list R) : forall s, fmt s -> Forall (fun x => fmt x) xs -> prefix_fmt s xs ->
  kfoldR xs (s, 0) = (s + sumR xs, 0).
Proof.
  induction xs as [|x xs IH]; intros s Fs FX HP.
  - cbn. rewrite Rplus_0_r. reflexivity.
  - inversion FX; subst. destruct HP as (HP1 & HP2).
    change (kfoldR (x :: xs) (s, 0)) with (kfoldR xs (kstepR (s, 0) x)).
    rewrite kstepR_exact by assumption. rewrite IH by assumption. rewrite sumR_cons. f_equal. ring.
Qed.

(* ------------------------------------------------------------------ *)
(* 3. binary64: the model's operations                                  *)
(* ------------------------------------------------------------------ *)
(* sumWithCompensation on the pair (sum, sumCompensation) *)
Definition kstepF (st : f64 * f64) (x : f64) : f64 * f64 :=
  let y := fsub x (snd st) in
  let t := fadd (fst st) y in
  (t, fsub (fsub t (fst st)) y).
Definition su_swc : summary -> f64 -> summary := g_sum_with_comp f64 fadd fsub.
Definition sc (s : summary) : f64 * f64 := (su_sum s, su_comp s).
Definition valp (st : f64 * f64) : R * R := (val (fst st), val (snd st)).
Definition finp (st : f64 * f64) : Prop := finite (fst st) /\ finite (snd st).

Lemma sc_swc (s : summary) (x : f64) : sc (su_swc s x) = kstepF (sc s) x.
Proof. reflexivity. Qed.
Lemma sc_add_to_sum (s : summary) (x : f64) : sc (su_add_to_sum s x) = kstepF (sc s) x.
Proof. reflexivity. Qed.
Lemma sc_add (s : summary) (v w : f64) : sc (su_add s v w) = kstepF (sc s) (fmul v w).
Proof. reflexivity. Qed.
Lemma sc_merge (s o : summary) : sc (su_merge s o) = kstepF (kstepF (sc s) (su_sum o)) (su_comp o).
Proof. reflexivity. Qed.

Lemma rndR_plus_le2 (a b : R) : fmt a -> fmt b -> Rabs (rndR (a + b)) <= 2 * Rabs (a + b).
Proof.
  intros Fa Fb. pose proof (rndR_plus_rel a b Fa Fb) as H. pose proof u53_bounds.
  replace (rndR (a + b)) with ((rndR (a + b) - (a + b)) + (a + b)) by ring.
  eapply Rle_trans; [apply Rabs_triang|]. pose proof (Rabs_pos (a + b)). nra.
Qed.
Lemma rndR_minus_le2 (a b : R) : fmt a -> fmt b -> Rabs (rndR (a - b)) <= 2 * Rabs (a - b).
Proof. intros Fa Fb. apply (rndR_plus_le2 a (- b) Fa (fmt_opp b Fb)). Qed.

Lemma val_fmt (x : f64) : fmt (val x).
Proof. exact (generic_format_B2R 53 1024 x). Qed.

(* one step does not overflow and is the real step, when everything is below B with 32 B <= MaxFloat64 *)
Lemma kstepF_sim (B : R) (st : f64 * f64) (x : f64) : 32 * B <= IZR f64max_Z ->
  finp st -> finite x ->
  Rabs (val (fst st)) <= B -> Rabs (val (snd st)) <= B -> Rabs (val x) <= B ->
  finp (kstepF st x) /\ valp (kstepF st x) = kstepR (valp st) (val x).
Proof.
  intros HB (Fs & Fc) Fx Hs Hc Hx. destruct st as (s, c). cbn [fst snd] in *.
  unfold kstepF, kstepR, valp, finp. cbn [fst snd].
  assert (HB0 : 0 <= B) by (pose proof (Rabs_pos (val x)); lra).
  assert (H1 : Rabs (val x - val c) <= 2 * B).
  { unfold Rminus. eapply Rle_trans; [apply Rabs_triang|]. rewrite Rabs_Ropp. lra. }
  destruct (fsub_bounded x c Fx Fc ltac:(lra)) as (Fy & Vy).
  set (y := fsub x c) in *.
  assert (Hy : Rabs (val y) <= 4 * B).
  { rewrite Vy. eapply Rle_trans; [apply rndR_minus_le2; apply val_fmt|]. lra. }
  assert (H2 : Rabs (val s + val y) <= 5 * B).
  { eapply Rle_trans; [apply Rabs_triang|]. lra. }
  destruct (fadd_bounded s y Fs Fy ltac:(lra)) as (Ft & Vt).
  set (t := fadd s y) in *.
  assert (Ht : Rabs (val t) <= 10 * B).
  { rewrite Vt. eapply Rle_trans; [apply rndR_plus_le2; apply val_fmt|]. lra. }
  assert (H3 : Rabs (val t - val s) <= 11 * B).
  { unfold Rminus. eapply Rle_trans; [apply Rabs_triang|]. rewrite Rabs_Ropp. lra. }
  destruct (fsub_bounded t s Ft Fs ltac:(lra)) as (Fz & Vz).
  set (z := fsub t s) in *.
  assert (Hz : Rabs (val z) <= 22 * B).
  { rewrite Vz. eapply Rle_trans; [apply rndR_minus_le2; apply val_fmt|]. lra. }
  assert (H4 : Rabs (val z - val y) <= 26 * B).
  { unfold Rminus. eapply Rle_trans; [apply Rabs_triang|]. rewrite Rabs_Ropp. lra. }
  destruct (fsub_bounded z y Fz Fy ltac:(lra)) as (Fc' & Vc').
  split; [split; assumption|].
  rewrite Vc', Vz, Vt, Vy. reflexivity.
Qed.

Definition kfoldF (xs : list f64) (st : f64 * f64) : f64 * f64 := fold_left kstepF xs st.
Definition vals (xs : list f64) : list R := map (fun x => val x) xs.
Definition all_finite (xs : list f64) : Prop := Forall (fun x => finite x) xs.
(* well-formed binary64 state *)
Definition wfF (st : f64 * f64) : Prop :=
  finp st /\ Rabs (val (snd st)) <= 2 * u53 * Rabs (val (fst st)).

Lemma wfF_wfR (st : f64 * f64) : wfF st -> wfR (valp st).
Proof. intros (_ & H). split; [apply val_fmt|]. split; [apply val_fmt|exact H]. Qed.

Lemma vals_fmt (xs : list f64) : Forall (fun x => fmt x) (vals xs).
Proof. unfold vals. apply Forall_map. apply Forall_forall. intros x _. apply val_fmt. Qed.

Lemma vals_length (xs : list f64) : length (vals xs) = length xs.
Proof. apply map_length. Qed.

Lemma bpow1000_max : 64 * bpow radix2 1000 <= IZR f64max_Z.
Proof.
  rewrite <- (IZR_Zpower radix2 1000) by lia. rewrite <- mult_IZR. apply IZR_le.
  apply Zle_bool_imp_le. vm_compute. reflexivity.
Qed.

Lemma sumabsR_app (a b : list R) : sumabsR (a ++ b) = sumabsR a + sumabsR b.
Proof.
  induction a as [|x a IH]; simpl app; [change (sumabsR []) with 0; ring|].
  rewrite !sumabsR_cons, IH. ring.
Qed.
Lemma sumR_app (a b : list R) : sumR (a ++ b) = sumR a + sumR b.
Proof.
  induction a as [|x a IH]; simpl app; [change (sumR []) with 0; ring|].
  rewrite !sumR_cons, IH. ring.
Qed.

(* the whole recurrence stays finite and is the real recurrence *)
Theorem kfoldF_sim (st : f64 * f64) : wfF st -> forall xs : list f64, all_finite xs ->
  (Z.of_nat (length xs) <= 2 ^ 50)%Z ->
  Rabs (rsumR (valp st)) + sumabsR (vals xs) <= bpow radix2 1000 ->
  finp (kfoldF xs st) /\ valp (kfoldF xs st) = kfoldR (vals xs) (valp st).
Proof.
  intros W. pose proof (wfF_wfR st W) as WR.
  induction xs as [|x p IH] using rev_ind; intros FX Hn HT.
  - split; [exact (proj1 W)|reflexivity].
  - apply Forall_app in FX. destruct FX as (FP & Fx). inversion Fx as [|x0 l0 Fx' _]; subst.
    rewrite app_length in Hn. cbn [length] in Hn.
    unfold vals in HT. rewrite map_app, sumabsR_app in HT.
    cbn [map] in HT. rewrite sumabsR_cons in HT. change (sumabsR []) with 0 in HT.
    assert (HT' : Rabs (rsumR (valp st)) + (sumabsR (vals p) + (Rabs (val x) + 0)) <= bpow radix2 1000) by exact HT.
    clear HT.
    pose proof (sumabsR_nonneg (vals p)) as HP. pose proof (Rabs_pos (val x)) as HX.
    pose proof (Rabs_pos (rsumR (valp st))) as HR0.
    assert (Hn1 : (Z.of_nat (length p) <= 2 ^ 50)%Z).
    { rewrite Nat2Z.inj_add in Hn. lia. }
    assert (HT1 : Rabs (rsumR (valp st)) + sumabsR (vals p) <= bpow radix2 1000) by lra.
    destruct (IH FP Hn1 HT1) as (Ffin & Fval).
    assert (Hlen : (Z.of_nat (length (vals p)) <= 2 ^ 50)%Z) by (unfold vals; rewrite map_length; exact Hn1).
    destruct (kfoldR_bounds (vals p) (valp st) WR (vals_fmt p) (len_alpha _ Hlen)) as (_ & Bs & Bc).
    cbv zeta in Bs, Bc. rewrite <- Fval in Bs, Bc. pose proof alpha_bounds as Ha.
    set (T := Rabs (rsumR (valp st)) + sumabsR (vals p)) in *.
    assert (HT0 : 0 <= T) by (unfold T; lra).
    assert (K1 : (1 + alpha) * ((1 + 2 * alpha) * T) <= 2 * T).
    { rewrite <- Rmult_assoc. apply Rmult_le_compat_r; [exact HT0|]. nra. }
    assert (K2 : alpha * ((1 + 2 * alpha) * T) <= 2 * T).
    { rewrite <- Rmult_assoc. apply Rmult_le_compat_r; [exact HT0|]. nra. }
    assert (EF : kfoldF (p ++ [x]) st = kstepF (kfoldF p st) x).
    { unfold kfoldF. rewrite fold_left_app. reflexivity. }
    assert (ER : kfoldR (vals (p ++ [x])) (valp st) = kstepR (kfoldR (vals p) (valp st)) (val x)).
    { unfold kfoldR, vals. rewrite map_app, fold_left_app. reflexivity. }
    rewrite EF, ER, <- Fval.
    pose proof bpow1000_max as HM.
    apply (kstepF_sim (2 * bpow radix2 1000)); try assumption; cbn [fst snd valp] in *; lra.
Qed.

Lemma fsub_fin_inv (a b : f64) : finite (fsub a b) -> finite a /\ finite b.
Proof.
  unfold fsub, b64_minus, Binary.Bminus. rewrite is_finite_BSN2B.
  destruct a as [sa|sa|sa pa Ha|sa ma ea Ha]; destruct b as [sb|sb|sb pb Hb|sb mb eb Hb];
    cbn [B2BSN BinarySingleNaN.Bminus BinarySingleNaN.Bplus BinarySingleNaN.Bopp]; intros H; try (split; reflexivity);
    try discriminate H; try (destruct (Bool.eqb sa (negb sb)); discriminate H).
Qed.

(* T1, binary64: if the step produces finite numbers it is the real step *)
Lemma kstepF_R (st : f64 * f64) (x : f64) : finp (kstepF st x) ->
  finp st /\ finite x /\ valp (kstepF st x) = kstepR (valp st) (val x).
Proof.
  destruct st as (s, c). unfold kstepF, finp, valp, kstepR. cbn [fst snd]. intros (Ft & Fc').
  destruct (fadd_fin_inv _ _ Ft) as (Fs & Fy).
  destruct (fsub_fin_inv _ _ Fy) as (Fx & Fc).
  destruct (fsub_fin_inv _ _ Fc') as (Fz & _).
  split; [split; assumption|]. split; [assumption|].
  rewrite (fsub_R _ _ Fz Fy Fc'), (fsub_R _ _ Ft Fs Fz), (fadd_R _ _ Fs Fy Ft), (fsub_R _ _ Fx Fc Fy).
  reflexivity.
Qed.

Theorem kahan_step_float (s c x : f64) :
  let y := fsub x c in
  let t := fadd s y in
  let c' := fsub (fsub t s) y in
  finite t -> finite c' ->
  (* the Go statements, in real numbers *)
  val y = rndR (val x - val c) /\
  val t = rndR (val s + val y) /\
  val c' = rndR (rndR (val t - val s) - val y) /\
  (* Fast2Sum: nothing is lost when the running sum dominates the corrected addend *)
  (Rabs (val y) <= Rabs (val s) -> val t - val c' = val s + val y) /\
  (* in general the compensation misses at most one rounding of velvel - sum *)
  Rabs ((val t - val c') - (val s + val y)) <= u53 * (1 + 3 * u53) * Rabs (val y) /\
  Rabs (val c') <= 2 * u53 * Rabs (val t) /\
  (* the represented number sum - comp moves by x up to (2u + 5u^2) |x - comp| *)
  Rabs ((val t - val c') - ((val s - val c) + val x)) <= (2 * u53 + 5 * u53 ^ 2) * Rabs (val x - val c).
Proof.
  intros y t c' Ft Fc'.
  destruct (kstepF_R (s, c) x (conj Ft Fc')) as ((Fs & Fc) & Fx & E).
  unfold kstepF, valp, kstepR in E. cbn [fst snd] in E. fold y t c' in E.
  injection E as Et Ec.
  destruct (fadd_fin_inv _ _ Ft) as (_ & Fy).
  assert (Ey : val y = rndR (val x - val c)) by (apply fsub_R; assumption).
  rewrite <- Ey in Et, Ec. rewrite <- Et in Ec.
  split; [exact Ey|]. split; [exact Et|]. split; [exact Ec|].
  pose proof (val_fmt s) as Fms. pose proof (val_fmt y) as Fmy.
  split; [|split; [|split]].
  - intros H. rewrite Ec, Et. apply fast2sum_go; assumption.
  - rewrite Ec, Et. apply (twosum_gen (val s) (val y) Fms Fmy).
  - rewrite Ec, Et. apply (twosum_gen (val s) (val y) Fms Fmy).
  - pose proof (kstepR_err (val s, val c) (val x) Fms (val_fmt c) (val_fmt x)) as H.
    unfold kstepR, rsumR in H. cbn [fst snd] in H. rewrite <- Ey, <- Et, <- Ec in H. exact H.
Qed.

(* T2, binary64 *)
Definition rsumF (st : f64 * f64) : R := val (fst st) - val (snd st).

Theorem kahan_fold_float (st : f64 * f64) (xs : list f64) : wfF st -> all_finite xs ->
  (Z.of_nat (length xs) <= 2 ^ 50)%Z ->
  Rabs (rsumF st) + sumabsR (vals xs) <= bpow radix2 1000 ->
  wfF (kfoldF xs st) /\
  Rabs (rsumF (kfoldF xs st) - (rsumF st + sumR (vals xs))) <=
    (2 * u53 + 5 * u53 ^ 2) * sumabsR (vals xs)
    + 9 * INR (length xs) * u53 ^ 2 * (Rabs (rsumF st) + sumabsR (vals xs)).
Proof.
  intros W FX Hn HT.
  destruct (kfoldF_sim st W xs FX Hn HT) as (Ffin & Fval).
  pose proof (wfF_wfR st W) as WR.
  assert (Hlen : (Z.of_nat (length (vals xs)) <= 2 ^ 50)%Z) by (unfold vals; rewrite map_length; exact Hn).
  pose proof (kfoldR_wfR (vals xs) (valp st) WR (vals_fmt xs)) as (_ & _ & Wc). rewrite <- Fval in Wc.
  split; [split; [exact Ffin|exact Wc]|].
  pose proof (kfoldR_err_u (vals xs) (valp st) WR (vals_fmt xs) Hlen) as E.
  rewrite <- Fval in E. rewrite vals_length in E. exact E.
Qed.

(* T0, binary64: integers (or any inputs whose partial sums are all representable) are summed exactly *)
Lemma finite_of_fmt_sim (st : f64 * f64) (x : f64) : finp st -> finite x -> val (snd st) = 0 ->
  fmt (val (fst st) + val x) -> Rabs (val (fst st)) <= bpow radix2 1000 -> Rabs (val x) <= bpow radix2 1000 ->
  finp (kstepF st x) /\ valp (kstepF st x) = (val (fst st) + val x, 0).
Proof.
  intros F Fx Hc Hf Hs Hx. pose proof bpow1000_max as HM.
  assert (Hc' : Rabs (val (snd st)) <= bpow radix2 1000).
  { rewrite Hc, Rabs_R0. apply bpow_ge_0. }
  destruct (kstepF_sim (bpow radix2 1000) st x ltac:(pose proof (bpow_ge_0 radix2 1000); lra) F Fx Hs Hc' Hx) as (F' & V).
  split; [exact F'|]. rewrite V. destruct st as (s, c). unfold valp. cbn [fst snd] in *. rewrite Hc.
  apply kstepR_exact; try apply val_fmt. exact Hf.
Qed.

Theorem kahan_exact_float (xs : list f64) : forall st : f64 * f64, finp st -> val (snd st) = 0 ->
  all_finite xs -> prefix_fmt (val (fst st)) (vals xs) ->
  Rabs (val (fst st)) + sumabsR (vals xs) <= bpow radix2 1000 ->
  finp (kfoldF xs st) /\ val (fst (kfoldF xs st)) = val (fst st) + sumR (vals xs) /\ val (snd (kfoldF xs st)) = 0.
Proof.
  induction xs as [|x xs IH]; intros st F Hc FX HP HB.
  - split; [exact F|]. split; [cbn; lra|exact Hc].
  - inversion FX as [|x0 l0 Fx FX']; subst.
    change (vals (x :: xs)) with (val x :: vals xs) in *. destruct HP as (HP1 & HP2).
    rewrite sumabsR_cons in HB. rewrite sumR_cons.
    pose proof (sumabsR_nonneg (vals xs)) as HA. pose proof (Rabs_pos (val x)). pose proof (Rabs_pos (val (fst st))).
    destruct (finite_of_fmt_sim st x F Fx Hc HP1 ltac:(lra) ltac:(lra)) as (F1 & V1).
    change (kfoldF (x :: xs) st) with (kfoldF xs (kstepF st x)).
    pose proof (f_equal fst V1) as V1s. pose proof (f_equal snd V1) as V1c. unfold valp in V1s, V1c. cbn [fst snd] in V1s, V1c.
    destruct (IH (kstepF st x) F1 V1c FX') as (F2 & V2s & V2c).
    + rewrite V1s. exact HP2.
    + rewrite V1s. pose proof (Rabs_triang (val (fst st)) (val x)). lra.
    + split; [exact F2|]. split; [rewrite V2s, V1s; ring|exact V2c].
Qed.

(* ------------------------------------------------------------------ *)
(* 4. arithmetic of the final bounds                                   *)
(* ------------------------------------------------------------------ *)
(* Sum(): rounding of sum + comp, and the sign *)
Lemma getsum_arith (u c sc Rn dres : R) :
  0 < u <= / 1000 -> 0 <= Rn -> 0 <= c -> 0 <= sc ->
  c <= (2 * u + 5 * u ^ 2) * Rn -> sc <= Rn + 2 * c -> dres <= u * sc ->
  dres + 2 * c <= (5 * u + 15 * u ^ 2) * Rn.
Proof.
  intros Hu HR Hc Hsc H1 H2 H3.
  assert (u * sc <= u * (Rn + 2 * c)) by (apply Rmult_le_compat_l; lra).
  assert (u * c <= u * ((2 * u + 5 * u ^ 2) * Rn)) by (apply Rmult_le_compat_l; lra).
  assert (0 <= u * u * Rn) by (apply Rmult_le_pos; nra).
  assert (u * (u * u * Rn) <= / 1000 * (u * u * Rn)) by (apply Rmult_le_compat_r; lra).
  nra.
Qed.

Lemma total_arith (u n r0 B P eta E dSV Rn g : R) :
  0 < u <= / 1000 -> 0 <= n -> n * u <= / 8 -> 0 <= r0 -> 0 <= B -> 0 <= P -> 0 <= eta -> 0 <= Rn ->
  P <= (1 + u) * B + n * eta ->
  dSV <= u * B + n * eta ->
  E <= (2 * u + 5 * u ^ 2) * P + 9 * n * u ^ 2 * (r0 + P) ->
  Rn <= (1 + 2 * (2 * u + 5 * u ^ 2)) * (r0 + P) ->
  g <= (5 * u + 15 * u ^ 2) * Rn ->
  g + E + dSV <= (5 * u + (9 * n + 36) * u ^ 2) * r0 + (8 * u + (10 * n + 49) * u ^ 2) * B + 2 * n * eta.
Proof.
  intros Hu Hn Hnu Hr HB HP He HRn H1 H2 H3 H4 H5.
  assert (K1 : (5 * u + 15 * u ^ 2) * (1 + 2 * (2 * u + 5 * u ^ 2)) <= 5 * u + 36 * u ^ 2) by nra.
  assert (G1 : g <= (5 * u + 36 * u ^ 2) * (r0 + P)).
  { eapply Rle_trans; [exact H5|]. eapply Rle_trans.
    - apply Rmult_le_compat_l; [nra|exact H4].
    - rewrite <- Rmult_assoc. apply Rmult_le_compat_r; lra. }
  (* everything in terms of r0 and P *)
  assert (G2 : g + E <= (5 * u + 36 * u ^ 2 + 9 * n * u ^ 2) * r0 + (7 * u + 41 * u ^ 2 + 9 * n * u ^ 2) * P) by lra.
  set (cP := 7 * u + 41 * u ^ 2 + 9 * n * u ^ 2) in *.
  assert (HcP0 : 0 <= cP) by (unfold cP; nra).
  assert (HcP1 : cP <= 1) by (unfold cP; nra).
  assert (G3 : cP * P <= cP * ((1 + u) * B + n * eta)) by (apply Rmult_le_compat_l; lra).
  assert (K2 : cP * (1 + u) <= 7 * u + (10 * n + 49) * u ^ 2).
  { unfold cP. assert (n * u * u <= / 8 * u) by (apply Rmult_le_compat_r; lra).
    assert (0 <= n * u * u) by (apply Rmult_le_pos; nra). nra. }
  assert (G4 : cP * ((1 + u) * B) <= (7 * u + (10 * n + 49) * u ^ 2) * B).
  { rewrite <- Rmult_assoc. apply Rmult_le_compat_r; lra. }
  assert (G5 : cP * (n * eta) <= n * eta).
  { rewrite <- (Rmult_1_l (n * eta)) at 2. apply Rmult_le_compat_r; [apply Rmult_le_pos; lra|lra]. }
  nra.
Qed.

Lemma tracked_arith (u n r0 B P eta E dSV : R) :
  0 < u <= / 1000 -> 0 <= n -> n * u <= / 8 -> 0 <= r0 -> 0 <= B -> 0 <= P -> 0 <= eta ->
  P <= (1 + u) * B + n * eta ->
  dSV <= u * B + n * eta ->
  E <= (2 * u + 5 * u ^ 2) * P + 9 * n * u ^ 2 * (r0 + P) ->
  E + dSV <= 9 * n * u ^ 2 * r0 + (3 * u + (10 * n + 8) * u ^ 2) * B + 2 * n * eta.
Proof.
  intros Hu Hn Hnu Hr HB HP He H1 H2 H3.
  assert (G2 : E <= (9 * n * u ^ 2) * r0 + (2 * u + 5 * u ^ 2 + 9 * n * u ^ 2) * P) by lra.
  set (cP := 2 * u + 5 * u ^ 2 + 9 * n * u ^ 2) in *.
  assert (HcP0 : 0 <= cP) by (unfold cP; nra).
  assert (HcP1 : cP <= 1) by (unfold cP; nra).
  assert (G3 : cP * P <= cP * ((1 + u) * B + n * eta)) by (apply Rmult_le_compat_l; lra).
  assert (K2 : cP * (1 + u) <= 2 * u + (10 * n + 8) * u ^ 2).
  { unfold cP. assert (n * u * u <= / 8 * u) by (apply Rmult_le_compat_r; lra).
    assert (0 <= n * u * u) by (apply Rmult_le_pos; nra). nra. }
  assert (G4 : cP * ((1 + u) * B) <= (2 * u + (10 * n + 8) * u ^ 2) * B).
  { rewrite <- Rmult_assoc. apply Rmult_le_compat_r; lra. }
  assert (G5 : cP * (n * eta) <= n * eta).
  { rewrite <- (Rmult_1_l (n * eta)) at 2. apply Rmult_le_compat_r; [apply Rmult_le_pos; lra|lra]. }
  nra.
Qed.

Lemma merge_arith (u rs ro so co E : R) :
  0 < u <= / 1000 -> 0 <= rs -> 0 <= ro -> 0 <= so -> 0 <= co ->
  co <= (2 * u + 5 * u ^ 2) * ro -> so <= (1 + (2 * u + 5 * u ^ 2)) * ro ->
  E <= (2 * u + 5 * u ^ 2) * (so + co) + 4 * (2 * u + 5 * u ^ 2) ^ 2 * (rs + (so + co)) ->
  2 * co + E <= (6 * u + 44 * u ^ 2) * ro + 17 * u ^ 2 * rs.
Proof.
  intros Hu Hrs Hro Hso Hco H1 H2 H3.
  set (a := 2 * u + 5 * u ^ 2) in *.
  assert (Ha : 0 < a <= / 400) by (unfold a; nra).
  assert (Hsc : so + co <= (1 + 2 * a) * ro) by lra.
  assert (K1 : a * (so + co) <= a * ((1 + 2 * a) * ro)) by (apply Rmult_le_compat_l; lra).
  assert (Ha2 : 0 <= 4 * a ^ 2) by nra.
  assert (K2 : 4 * a ^ 2 * (rs + (so + co)) <= 4 * a ^ 2 * (rs + (1 + 2 * a) * ro)) by (apply Rmult_le_compat_l; lra).
  assert (K3 : 4 * a ^ 2 <= 17 * u ^ 2) by (unfold a; nra).
  assert (K4 : 2 * a + a * (1 + 2 * a) + 4 * a ^ 2 * (1 + 2 * a) <= 6 * u + 44 * u ^ 2) by (unfold a; nra).
  assert (K5 : 4 * a ^ 2 * rs <= 17 * u ^ 2 * rs) by (apply Rmult_le_compat_r; lra).
  assert (K6 : (2 * a + a * (1 + 2 * a) + 4 * a ^ 2 * (1 + 2 * a)) * ro <= (6 * u + 44 * u ^ 2) * ro) by (apply Rmult_le_compat_r; lra).
  assert (2 * co <= 2 * a * ro) by lra.
  lra.
Qed.

(* ------------------------------------------------------------------ *)
(* 5. summaries: Add over a list, Sum(), MergeWith                      *)
(* ------------------------------------------------------------------ *)
Definition real_sum (s : summary) : R := val (su_sum s) - val (su_comp s).
Definition wfS (s : summary) : Prop := wfF (sc s).
Definition su_add_list (s : summary) (l : list (f64 * f64)) : summary :=
  fold_left (fun s vw => su_add s (fst vw) (snd vw)) l s.
Definition prodsF (l : list (f64 * f64)) : list f64 := map (fun vw => fmul (fst vw) (snd vw)) l.
Definition prodsR (l : list (f64 * f64)) : list R := map (fun vw => val (fst vw) * val (snd vw)) l.
Definition pairs_finite (l : list (f64 * f64)) : Prop := Forall (fun vw => finite (fst vw) /\ finite (snd vw)) l.

Lemma real_sum_sc (s : summary) : real_sum s = rsumF (sc s).
Proof. reflexivity. Qed.

Lemma sc_add_list (l : list (f64 * f64)) : forall s, sc (su_add_list s l) = kfoldF (prodsF l) (sc s).
Proof.
  induction l as [|(v, w) l IH]; intros s; [reflexivity|].
  change (su_add_list s ((v, w) :: l)) with (su_add_list (su_add s v w) l).
  rewrite IH, sc_add. reflexivity.
Qed.

(* rounding an arbitrary real (a product): relative error u plus half the smallest subnormal *)
Lemma rndR_err (x : R) : Rabs (rndR x - x) <= u53 * Rabs x + eta64.
Proof.
  destruct (error_N_FLT radix2 (-1074) 53 ltac:(lia) (fun x => negb (Z.even x)) x) as (eps & eta & He & Ht & _ & Hr).
  fold ZnearestE in Hr. change (round radix2 (FLT_exp (-1074) 53) ZnearestE x) with (rndR x) in Hr.
  rewrite Hr. replace (x * (1 + eps) + eta - x) with (x * eps + eta) by ring.
  eapply Rle_trans; [apply Rabs_triang|].
  assert (E1 : / 2 * bpow radix2 (- (53) + 1) = u53) by exact u_ro_53.
  assert (E2 : / 2 * bpow radix2 (-1074) = eta64).
  { change (bpow radix2 (-1075)) with (bpow radix2 (-1 + -1074)). rewrite bpow_plus. reflexivity. }
  rewrite E1 in He. rewrite E2 in Ht. rewrite Rabs_mult.
  pose proof (Rabs_pos x). assert (Rabs x * Rabs eps <= Rabs x * u53) by (apply Rmult_le_compat_l; lra). lra.
Qed.

Lemma prodsR_cons (v w : f64) (l : list (f64 * f64)) : prodsR ((v, w) :: l) = (val v * val w) :: prodsR l.
Proof. reflexivity. Qed.
Lemma prodsF_cons (v w : f64) (l : list (f64 * f64)) : prodsF ((v, w) :: l) = fmul v w :: prodsF l.
Proof. reflexivity. Qed.
Lemma vals_cons (x : f64) (xs : list f64) : vals (x :: xs) = val x :: vals xs.
Proof. reflexivity. Qed.

(* the products value*count: finite, and close to the exact products *)
Lemma prods_ok (l : list (f64 * f64)) : pairs_finite l -> sumabsR (prodsR l) <= IZR f64max_Z ->
  all_finite (prodsF l) /\
  Rabs (sumR (vals (prodsF l)) - sumR (prodsR l)) <= u53 * sumabsR (prodsR l) + INR (length l) * eta64 /\
  sumabsR (vals (prodsF l)) <= (1 + u53) * sumabsR (prodsR l) + INR (length l) * eta64.
Proof.
  induction l as [|(v, w) l IH]; intros FL HB.
  - split; [constructor|].
    change (sumR (vals (prodsF []))) with 0. change (sumR (prodsR [])) with 0.
    change (sumabsR (prodsR [])) with 0. change (sumabsR (vals (prodsF []))) with 0.
    change (INR (@length (f64 * f64) [])) with 0.
    rewrite Rminus_0_r, Rabs_R0. lra.
  - inversion FL as [|p0 l0 (Fv & Fw) FL']; subst. cbn [fst snd] in *.
    rewrite prodsR_cons, sumabsR_cons in HB.
    pose proof (sumabsR_nonneg (prodsR l)) as HA. pose proof (Rabs_pos (val v * val w)) as HX.
    destruct (IH FL' ltac:(lra)) as (I1 & I2 & I3).
    destruct (fmul_bounded v w Fv Fw ltac:(lra)) as (Fp & Vp).
    pose proof (rndR_err (val v * val w)) as He. rewrite <- Vp in He.
    rewrite prodsF_cons, prodsR_cons, vals_cons, !sumR_cons, !sumabsR_cons.
    change (length ((v, w) :: l)) with (S (length l)). rewrite S_INR.
    split; [constructor; assumption|]. split.
    + replace (val (fmul v w) + sumR (vals (prodsF l)) - (val v * val w + sumR (prodsR l)))
        with ((val (fmul v w) - val v * val w) + (sumR (vals (prodsF l)) - sumR (prodsR l))) by ring.
      eapply Rle_trans; [apply Rabs_triang|]. lra.
    + assert (Rabs (val (fmul v w)) <= Rabs (val v * val w) + (u53 * Rabs (val v * val w) + eta64)).
      { replace (val (fmul v w)) with ((val v * val w) + (val (fmul v w) - val v * val w)) at 1 by ring.
        eapply Rle_trans; [apply Rabs_triang|]. lra. }
      lra.
Qed.

(* Sum() on a state whose sum + comp is finite is that addition *)
Lemma su_get_sum_finite (s : summary) : finite (fadd (su_sum s) (su_comp s)) ->
  su_get_sum s = fadd (su_sum s) (su_comp s).
Proof.
  intros H. unfold su_get_sum, g_get_sum. fold (su_sum s) (su_comp s).
  destruct (fadd (su_sum s) (su_comp s)); try discriminate H; reflexivity.
Qed.

(* Sum() against the number the state stands for: 2|comp| from the sign, u|sum + comp| from the rounding *)
Theorem su_get_sum_err (s : summary) : wfS s -> Rabs (real_sum s) <= bpow radix2 1000 ->
  finite (su_get_sum s) /\
  val (su_get_sum s) = rndR (val (su_sum s) + val (su_comp s)) /\
  Rabs (val (su_get_sum s) - real_sum s) <= (5 * u53 + 15 * u53 ^ 2) * Rabs (real_sum s).
Proof.
  intros ((Fs & Fc) & Wc) HB. cbn [sc fst snd] in *.
  pose proof (wfF_wfR (sc s) (conj (conj Fs Fc) Wc)) as WR.
  pose proof (wfR_comp_le _ WR) as Hc. pose proof (wfR_sum_le _ WR) as Hs.
  unfold valp, rsumR in Hc, Hs. cbn [sc fst snd] in Hc, Hs. fold (real_sum s) in Hc, Hs.
  pose proof alpha_bounds as Ha. pose proof bpow1000_max as HM. pose proof (Rabs_pos (real_sum s)) as HR.
  pose proof (Rabs_pos (val (su_comp s))) as Hc0.
  assert (Hsc : Rabs (val (su_sum s) + val (su_comp s)) <= Rabs (real_sum s) + 2 * Rabs (val (su_comp s))).
  { replace (val (su_sum s) + val (su_comp s)) with (real_sum s + 2 * val (su_comp s)) by (unfold real_sum; ring).
    eapply Rle_trans; [apply Rabs_triang|]. rewrite Rabs_mult, (Rabs_pos_eq 2) by lra. lra. }
  assert (Hsmall : alpha * Rabs (real_sum s) <= Rabs (real_sum s)).
  { rewrite <- (Rmult_1_l (Rabs (real_sum s))) at 2. apply Rmult_le_compat_r; lra. }
  destruct (fadd_bounded (su_sum s) (su_comp s) Fs Fc ltac:(lra)) as (Ff & Vf).
  rewrite (su_get_sum_finite s Ff). split; [exact Ff|]. split; [exact Vf|].
  pose proof (rndR_plus_rel _ _ (val_fmt (su_sum s)) (val_fmt (su_comp s))) as Hr. rewrite <- Vf in Hr.
  set (g := val (fadd (su_sum s) (su_comp s))) in *.
  replace (g - real_sum s)
    with ((g - (val (su_sum s) + val (su_comp s))) + 2 * val (su_comp s)) by (unfold real_sum; ring).
  eapply Rle_trans; [apply Rabs_triang|]. rewrite (Rabs_mult 2), (Rabs_pos_eq 2) by lra.
  apply (getsum_arith u53 (Rabs (val (su_comp s))) (Rabs (val (su_sum s) + val (su_comp s))) (Rabs (real_sum s)));
    try assumption; try apply Rabs_pos. exact u53_bounds.
Qed.

(* T3: Add(value, count) over a list, then Sum() *)
Theorem su_add_list_err (s0 : summary) (l : list (f64 * f64)) : wfS s0 -> pairs_finite l ->
  (Z.of_nat (length l) <= 2 ^ 50)%Z ->
  Rabs (real_sum s0) + sumabsR (prodsR l) <= bpow radix2 999 ->
  let s := su_add_list s0 l in
  let n := INR (length l) in
  wfS s /\ finite (su_get_sum s) /\
  (* the number the final state stands for *)
  Rabs (real_sum s - (real_sum s0 + sumR (prodsR l))) <=
    9 * n * u53 ^ 2 * Rabs (real_sum s0) + (3 * u53 + (10 * n + 8) * u53 ^ 2) * sumabsR (prodsR l) + 2 * n * eta64 /\
  (* the number Sum() reports *)
  Rabs (val (su_get_sum s) - (real_sum s0 + sumR (prodsR l))) <=
    (5 * u53 + (9 * n + 36) * u53 ^ 2) * Rabs (real_sum s0)
    + (8 * u53 + (10 * n + 49) * u53 ^ 2) * sumabsR (prodsR l) + 2 * n * eta64.
Proof.
  intros W FL Hn HB s n.
  pose proof u53_bounds as Hu. pose proof bpow1000_max as HM. pose proof alpha_bounds as Ha.
  pose proof (sumabsR_nonneg (prodsR l)) as HB0. pose proof (Rabs_pos (real_sum s0)) as Hr0.
  assert (H999 : bpow radix2 1000 = 2 * bpow radix2 999).
  { change 1000%Z with (999 + 1)%Z. rewrite bpow_plus_1. reflexivity. }
  pose proof (bpow_ge_0 radix2 999) as H999p.
  destruct (prods_ok l FL ltac:(lra)) as (FP & HSV & HP).
  fold n in HSV, HP.
  assert (Hn0 : 0 <= n) by apply pos_INR.
  assert (Hnu : n * u53 <= / 8).
  { exact (len_u _ Hn). }
  assert (Heta : 0 <= eta64) by apply bpow_ge_0.
  assert (Hneta : n * eta64 <= bpow radix2 (-1000)).
  { unfold n. rewrite INR_IZR_INZ. apply IZR_le in Hn.
    assert (IZR (Z.of_nat (length l)) * eta64 <= IZR (2 ^ 50) * eta64) by (apply Rmult_le_compat_r; lra).
    change (IZR (2 ^ 50)) with (bpow radix2 50) in H. rewrite <- bpow_plus in H.
    eapply Rle_trans; [exact H|]. apply bpow_le. lia. }
  assert (Hm1000 : bpow radix2 (-1000) <= 1).
  { change 1 with (bpow radix2 0). apply bpow_le. lia. }
  assert (H1le : 2 <= bpow radix2 999).
  { change 2 with (bpow radix2 1). apply bpow_le. lia. }
  assert (Hlen : (Z.of_nat (length (prodsF l)) <= 2 ^ 50)%Z) by (unfold prodsF; rewrite map_length; exact Hn).
  assert (HT : Rabs (rsumF (sc s0)) + sumabsR (vals (prodsF l)) <= bpow radix2 1000).
  { rewrite <- real_sum_sc.
    assert (u53 * sumabsR (prodsR l) <= / 1000 * bpow radix2 999).
    { apply Rmult_le_compat; lra. }
    lra. }
  destruct (kahan_fold_float (sc s0) (prodsF l) W FP Hlen HT) as (W' & E).
  rewrite <- sc_add_list in W', E. fold s in W', E. rewrite <- !real_sum_sc in E.
  assert (Elen : INR (length (prodsF l)) = n) by (unfold prodsF, n; rewrite map_length; reflexivity).
  rewrite Elen in E.
  (* size of the final represented number *)
  pose proof (wfF_wfR (sc s0) W) as WR0.
  assert (Hlen' : (Z.of_nat (length (vals (prodsF l))) <= 2 ^ 50)%Z) by (rewrite vals_length; exact Hlen).
  destruct (kfoldR_bounds (vals (prodsF l)) (valp (sc s0)) WR0 (vals_fmt _) (len_alpha _ Hlen')) as (BR & _ & _).
  cbv zeta in BR.
  destruct (kfoldF_sim (sc s0) W (prodsF l) FP Hlen HT) as (_ & Fval).
  rewrite <- Fval, <- sc_add_list in BR. fold s in BR.
  change (rsumR (valp (sc s))) with (real_sum s) in BR. change (rsumR (valp (sc s0))) with (real_sum s0) in BR.
  set (P := sumabsR (vals (prodsF l))) in *. set (B := sumabsR (prodsR l)) in *.
  assert (HP0 : 0 <= P) by apply sumabsR_nonneg.
  assert (HRs : Rabs (real_sum s) <= bpow radix2 1000).
  { assert ((1 + 2 * alpha) * (Rabs (real_sum s0) + P) <= (1 + / 200) * (Rabs (real_sum s0) + P)).
    { apply Rmult_le_compat_r; lra. }
    assert (u53 * B <= / 1000 * bpow radix2 999) by (apply Rmult_le_compat; lra).
    lra. }
  destruct (su_get_sum_err s W' HRs) as (Fg & _ & Eg).
  split; [exact W'|]. split; [exact Fg|].
  set (V := sumR (prodsR l)) in *. set (S := sumR (vals (prodsF l))) in *.
  split.
  - replace (real_sum s - (real_sum s0 + V)) with ((real_sum s - (real_sum s0 + S)) + (S - V)) by ring.
    eapply Rle_trans; [apply Rabs_triang|].
    apply (tracked_arith u53 n (Rabs (real_sum s0)) B P eta64); assumption.
  - replace (val (su_get_sum s) - (real_sum s0 + V))
      with ((val (su_get_sum s) - real_sum s) + (real_sum s - (real_sum s0 + S)) + (S - V)) by ring.
    eapply Rle_trans; [apply Rabs_triang|]. eapply Rle_trans; [apply Rplus_le_compat_r; apply Rabs_triang|].
    apply (total_arith u53 n (Rabs (real_sum s0)) B P eta64 _ _ (Rabs (real_sum s))); try assumption.
    apply Rabs_pos.
Qed.

(* MergeWith: the two statements sumWithCompensation(o.sum); sumWithCompensation(o.sumCompensation) *)
Theorem su_merge_err (s o : summary) : wfS s -> wfS o ->
  Rabs (real_sum s) + 2 * Rabs (real_sum o) <= bpow radix2 1000 ->
  wfS (su_merge s o) /\
  (* what the recurrence absorbs is sum o + comp o, up to the usual error ... *)
  Rabs (real_sum (su_merge s o) - (real_sum s + (val (su_sum o) + val (su_comp o)))) <=
    alpha * (Rabs (val (su_sum o)) + Rabs (val (su_comp o)))
    + 4 * alpha ^ 2 * (Rabs (real_sum s) + (Rabs (val (su_sum o)) + Rabs (val (su_comp o)))) /\
  (* ... which is real_sum o + 2 comp o *)
  Rabs (real_sum (su_merge s o) - (real_sum s + real_sum o)) <=
    (6 * u53 + 44 * u53 ^ 2) * Rabs (real_sum o) + 17 * u53 ^ 2 * Rabs (real_sum s).
Proof.
  intros W Wo HB. pose proof alpha_bounds as Ha. pose proof u53_bounds as Hu.
  destruct Wo as ((Fos & Foc) & Woc). cbn [sc fst snd] in Fos, Foc, Woc.
  pose proof (wfF_wfR (sc o) (conj (conj Fos Foc) Woc)) as WRo.
  pose proof (wfR_comp_le _ WRo) as Hc. pose proof (wfR_sum_le _ WRo) as Hs.
  unfold valp, rsumR in Hc, Hs. cbn [sc fst snd] in Hc, Hs. fold (real_sum o) in Hc, Hs.
  set (xs := [su_sum o; su_comp o]).
  assert (EM : sc (su_merge s o) = kfoldF xs (sc s)) by reflexivity.
  assert (FX : all_finite xs) by (repeat constructor; assumption).
  assert (Hn : (Z.of_nat (length xs) <= 2 ^ 50)%Z) by (cbn; lia).
  assert (EA : sumabsR (vals xs) = Rabs (val (su_sum o)) + Rabs (val (su_comp o))).
  { unfold xs. rewrite !vals_cons, !sumabsR_cons. change (sumabsR (vals [])) with 0. ring. }
  assert (ES : sumR (vals xs) = val (su_sum o) + val (su_comp o)).
  { unfold xs. rewrite !vals_cons, !sumR_cons. change (sumR (vals [])) with 0. ring. }
  pose proof (Rabs_pos (real_sum o)) as Hro. pose proof (Rabs_pos (real_sum s)) as Hrs.
  pose proof (Rabs_pos (val (su_sum o))). pose proof (Rabs_pos (val (su_comp o))).
  assert (Hsmall : alpha * Rabs (real_sum o) <= / 400 * Rabs (real_sum o)) by (apply Rmult_le_compat_r; lra).
  assert (HT : Rabs (rsumF (sc s)) + sumabsR (vals xs) <= bpow radix2 1000).
  { rewrite EA, <- real_sum_sc. lra. }
  destruct (kahan_fold_float (sc s) xs W FX Hn HT) as (W' & E).
  rewrite <- EM in W', E. rewrite <- !real_sum_sc in E. rewrite EA, ES in E.
  change (INR (length xs)) with 2 in E.
  split; [exact W'|].
  assert (E' : Rabs (real_sum (su_merge s o) - (real_sum s + (val (su_sum o) + val (su_comp o)))) <=
    alpha * (Rabs (val (su_sum o)) + Rabs (val (su_comp o)))
    + 4 * alpha ^ 2 * (Rabs (real_sum s) + (Rabs (val (su_sum o)) + Rabs (val (su_comp o))))).
  { pose proof (kfoldR_err (vals xs) (valp (sc s)) (wfF_wfR _ W) (vals_fmt xs)) as ER.
    rewrite vals_length in ER. change (INR (length xs)) with 2 in ER.
    specialize (ER ltac:(lra)).
    destruct (kfoldF_sim (sc s) W xs FX Hn HT) as (_ & Fval). rewrite <- Fval, <- EM in ER.
    change (rsumR (valp (sc (su_merge s o)))) with (real_sum (su_merge s o)) in ER.
    change (rsumR (valp (sc s))) with (real_sum s) in ER.
    rewrite EA, ES in ER. lra. }
  split; [exact E'|].
  replace (real_sum (su_merge s o) - (real_sum s + real_sum o))
    with ((real_sum (su_merge s o) - (real_sum s + (val (su_sum o) + val (su_comp o)))) + 2 * val (su_comp o))
    by (unfold real_sum; ring).
  eapply Rle_trans; [apply Rabs_triang|]. rewrite (Rabs_mult 2), (Rabs_pos_eq 2) by lra.
  rewrite Rplus_comm.
  apply (merge_arith u53 (Rabs (real_sum s)) (Rabs (real_sum o)) (Rabs (val (su_sum o))) (Rabs (val (su_comp o))));
    assumption.
Qed.

(* the empty summary *)
Lemma val_zero : val f64_zero = 0.
Proof. rewrite f64_zero_eq. reflexivity. Qed.

Lemma su_new_sc : sc su_new = (f64_zero, f64_zero).
Proof. reflexivity. Qed.

Lemma wfS_new : wfS su_new.
Proof.
  unfold wfS. rewrite su_new_sc. split; [split; reflexivity|]. cbn [fst snd]. rewrite val_zero, Rabs_R0.
  pose proof u53_bounds. lra.
Qed.

Lemma real_sum_new : real_sum su_new = 0.
Proof. unfold real_sum. change (su_sum su_new) with f64_zero. change (su_comp su_new) with f64_zero. rewrite val_zero. ring. Qed.

Lemma su_get_sum_new : su_get_sum su_new = f64_zero.
Proof. vm_compute. reflexivity. Qed.

(* a summary built by NewSummaryStatisticsFromData is well formed too *)
Lemma wfS_comp0 (s : summary) : finite (su_sum s) -> su_comp s = f64_zero -> wfS s.
Proof.
  intros F E. unfold wfS, wfF, finp, sc. cbn [fst snd]. rewrite E. split; [split; [exact F|reflexivity]|].
  rewrite val_zero, Rabs_R0. pose proof u53_bounds. pose proof (Rabs_pos (val (su_sum s))). nra.
Qed.

Corollary su_add_list_new_err (l : list (f64 * f64)) : pairs_finite l ->
  (Z.of_nat (length l) <= 2 ^ 50)%Z -> sumabsR (prodsR l) <= bpow radix2 999 ->
  let s := su_add_list su_new l in
  let n := INR (length l) in
  finite (su_get_sum s) /\
  Rabs (val (su_get_sum s) - sumR (prodsR l)) <=
    (8 * u53 + (10 * n + 49) * u53 ^ 2) * sumabsR (prodsR l) + 2 * n * eta64.
Proof.
  intros FL Hn HB s n.
  destruct (su_add_list_err su_new l wfS_new FL Hn) as (_ & Fg & _ & E).
  { rewrite real_sum_new, Rabs_R0. lra. }
  split; [exact Fg|]. fold s n in E. rewrite real_sum_new, Rabs_R0 in E.
  rewrite Rplus_0_l, Rmult_0_r, Rplus_0_l in E. exact E.
Qed.

(* ------------------------------------------------------------------ *)
(* 6. T0 on integers                                                    *)
(* ------------------------------------------------------------------ *)
Definition sumZ (zs : list Z) : Z := fold_right Z.add 0%Z zs.
Definition sumabsZ (zs : list Z) : Z := fold_right (fun z a => (Z.abs z + a)%Z) 0%Z zs.

Lemma sumabsZ_nonneg (zs : list Z) : (0 <= sumabsZ zs)%Z.
Proof. induction zs as [|z zs IH]; cbn; [lia|]. fold (sumabsZ zs). lia. Qed.

Lemma sumR_IZR (zs : list Z) : sumR (map IZR zs) = IZR (sumZ zs).
Proof.
  induction zs as [|z zs IH]; [reflexivity|].
  change (map IZR (z :: zs)) with (IZR z :: map IZR zs). rewrite sumR_cons, IH.
  change (sumZ (z :: zs)) with (z + sumZ zs)%Z. rewrite plus_IZR. reflexivity.
Qed.

Lemma sumabsR_IZR (zs : list Z) : sumabsR (map IZR zs) = IZR (sumabsZ zs).
Proof.
  induction zs as [|z zs IH]; [reflexivity|].
  change (map IZR (z :: zs)) with (IZR z :: map IZR zs). rewrite sumabsR_cons, IH.
  change (sumabsZ (z :: zs)) with (Z.abs z + sumabsZ zs)%Z. rewrite plus_IZR, abs_IZR. reflexivity.
Qed.

Lemma int_prefix_fmt (zs : list Z) : forall a : Z, (Z.abs a + sumabsZ zs <= 2 ^ 53)%Z ->
  prefix_fmt (IZR a) (map IZR zs).
Proof.
  induction zs as [|z zs IH]; intros a H; [exact I|].
  change (sumabsZ (z :: zs)) with (Z.abs z + sumabsZ zs)%Z in H. pose proof (sumabsZ_nonneg zs).
  cbn [map prefix_fmt]. rewrite <- plus_IZR. split.
  - apply int_format. lia.
  - apply IH. lia.
Qed.

Lemma bpow53_le_1000 : IZR (2 ^ 53) <= bpow radix2 1000.
Proof. change (IZR (2 ^ 53)) with (bpow radix2 53). apply bpow_le. lia. Qed.

(* integer inputs: the recurrence started from (0, 0) is exact as long as sum |z| <= 2^53 *)
Theorem kahan_exact_int (xs : list f64) (zs : list Z) : all_finite xs -> vals xs = map IZR zs ->
  (sumabsZ zs <= 2 ^ 53)%Z ->
  let st := kfoldF xs (f64_zero, f64_zero) in
  finp st /\ val (fst st) = IZR (sumZ zs) /\ val (snd st) = 0.
Proof.
  intros FX EV HB st.
  destruct (kahan_exact_float xs (f64_zero, f64_zero)) as (F & Vs & Vc); try assumption.
  - split; reflexivity.
  - cbn [snd]. exact val_zero.
  - cbn [fst]. rewrite val_zero, EV. apply (int_prefix_fmt zs 0). cbn [Z.abs]. lia.
  - cbn [fst]. rewrite val_zero, Rabs_R0, EV, sumabsR_IZR.
    apply IZR_le in HB. pose proof bpow53_le_1000. lra.
  - split; [exact F|]. split; [|exact Vc]. fold st in Vs. rewrite Vs. cbn [fst]. rewrite val_zero, EV, sumR_IZR. ring.
Qed.

(* Add(value, count) with integer values and counts, then Sum(): exact *)
Lemma int_prods (zl : list (Z * Z)) :
  Forall (fun zz => (Z.abs (fst zz) <= 2 ^ 53 /\ Z.abs (snd zz) <= 2 ^ 53)%Z) zl ->
  (sumabsZ (map (fun zz => (fst zz * snd zz)%Z) zl) <= 2 ^ 53)%Z ->
  all_finite (prodsF (map (fun zz => (f_of_int (fst zz), f_of_int (snd zz))) zl)) /\
  vals (prodsF (map (fun zz => (f_of_int (fst zz), f_of_int (snd zz))) zl)) =
    map IZR (map (fun zz => (fst zz * snd zz)%Z) zl).
Proof.
  induction zl as [|(zv, zw) zl IH]; intros HZ HB; [split; [constructor|reflexivity]|].
  inversion HZ as [|p0 l0 (Hv & Hw) HZ']; subst. cbn [fst snd] in *.
  change (sumabsZ (map (fun zz : Z * Z => (fst zz * snd zz)%Z) ((zv, zw) :: zl)))
    with (Z.abs (zv * zw) + sumabsZ (map (fun zz : Z * Z => (fst zz * snd zz)%Z) zl))%Z in HB.
  pose proof (sumabsZ_nonneg (map (fun zz : Z * Z => (fst zz * snd zz)%Z) zl)).
  destruct (IH HZ' ltac:(lia)) as (I1 & I2).
  destruct (f_of_int_correct zv Hv) as (Fv & Vv). destruct (f_of_int_correct zw Hw) as (Fw & Vw).
  assert (HM : Rabs (val (f_of_int zv) * val (f_of_int zw)) <= IZR f64max_Z).
  { rewrite Vv, Vw, <- mult_IZR.
    apply (small_le_max (Z.abs (zv * zw))); [lia|]. rewrite abs_IZR. lra. }
  destruct (fmul_bounded _ _ Fv Fw HM) as (Fp & Vp).
  cbn [map]. rewrite prodsF_cons, vals_cons. split; [constructor; assumption|].
  rewrite I2. f_equal. cbn [fst snd]. rewrite Vp, Vv, Vw, <- mult_IZR. apply rndR_IZR. lia.
Qed.

Lemma sumZ_abs (ps : list Z) : (Z.abs (sumZ ps) <= sumabsZ ps)%Z.
Proof. induction ps as [|p ps IH]; cbn; [lia|]. fold (sumZ ps) (sumabsZ ps). lia. Qed.

Theorem su_add_list_exact_int (zl : list (Z * Z)) :
  Forall (fun zz => (Z.abs (fst zz) <= 2 ^ 53 /\ Z.abs (snd zz) <= 2 ^ 53)%Z) zl ->
  (sumabsZ (map (fun zz => (fst zz * snd zz)%Z) zl) <= 2 ^ 53)%Z ->
  let s := su_add_list su_new (map (fun zz => (f_of_int (fst zz), f_of_int (snd zz))) zl) in
  finite (su_get_sum s) /\
  val (su_get_sum s) = IZR (sumZ (map (fun zz => (fst zz * snd zz)%Z) zl)) /\
  val (su_comp s) = 0.
Proof.
  intros HZ HB s.
  destruct (int_prods zl HZ HB) as (FP & EV).
  set (l := map (fun zz => (f_of_int (fst zz), f_of_int (snd zz))) zl) in *.
  set (ps := map (fun zz => (fst zz * snd zz)%Z) zl) in *.
  destruct (kahan_exact_int (prodsF l) ps FP EV HB) as ((Fs & Fc) & Vs & Vc).
  rewrite <- su_new_sc, <- sc_add_list in Fs, Fc, Vs, Vc. fold s in Fs, Fc, Vs, Vc. cbn [sc fst snd] in Fs, Fc, Vs, Vc.
  assert (HS : Rabs (val (su_sum s) + val (su_comp s)) <= IZR f64max_Z).
  { rewrite Vs, Vc, Rplus_0_r. pose proof (sumZ_abs ps).
    apply (small_le_max (Z.abs (sumZ ps))); [lia|]. rewrite abs_IZR. lra. }
  destruct (fadd_bounded _ _ Fs Fc HS) as (Fg & Vg).
  rewrite (su_get_sum_finite s Fg). split; [exact Fg|]. split; [|exact Vc].
  rewrite Vg, Vs, Vc, Rplus_0_r. apply rndR_generic. rewrite <- Vs. apply val_fmt.
Qed.

(* ------------------------------------------------------------------ *)
(* 7. boolean sufficient conditions (to instantiate the theorems on concrete floats) *)
(* ------------------------------------------------------------------ *)
Definition f64_2p900 : f64 := B754_finite 53 1024 false 4503599627370496%positive 848 eq_refl.
Definition f64_2p450 : f64 := B754_finite 53 1024 false 4503599627370496%positive 398 eq_refl.

Lemma val_2p900 : val f64_2p900 = bpow radix2 900.
Proof.
  change (val f64_2p900) with (IZR 4503599627370496 * bpow radix2 848).
  change (IZR 4503599627370496) with (bpow radix2 52). rewrite <- bpow_plus. reflexivity.
Qed.
Lemma val_2p450 : val f64_2p450 = bpow radix2 450.
Proof.
  change (val f64_2p450) with (IZR 4503599627370496 * bpow radix2 398).
  change (IZR 4503599627370496) with (bpow radix2 52). rewrite <- bpow_plus. reflexivity.
Qed.

(* |x| <= b, in Go:  math.Abs(x) <= b  (false for NaN and infinities when b is finite) *)
Definition abs_le_b (x b : f64) : bool := fle (fabs x) b.

Lemma abs_le_b_ok (x b : f64) : finite b -> abs_le_b x b = true -> finite x /\ Rabs (val x) <= val b.
Proof.
  intros Fb H. unfold abs_le_b, fle, fcmp, b64_compare, fabs, b64_abs in H.
  assert (Fx : finite x).
  { destruct x as [sx|sx|sx px Hx|sx mx ex Hx]; try reflexivity;
      destruct b as [sb|sb|sb pb Hb|sb mb eb Hb]; try discriminate Fb; cbn in H; discriminate H. }
  split; [exact Fx|].
  rewrite (Binary.Bcompare_correct 53 1024 _ b) in H.
  - rewrite B2R_Babs in H. destruct (Rcompare_spec (Rabs (val x)) (val b)) as [C|C|C]; try lra; discriminate H.
  - rewrite is_finite_Babs. exact Fx.
  - exact Fb.
Qed.

Definition all_small (b : f64) (xs : list f64) : bool := forallb (fun x => abs_le_b x b) xs.
Definition pairs_small (b : f64) (l : list (f64 * f64)) : bool :=
  forallb (fun vw => abs_le_b (fst vw) b && abs_le_b (snd vw) b) l.

Lemma all_small_ok (b : f64) (xs : list f64) : finite b -> all_small b xs = true ->
  all_finite xs /\ sumabsR (vals xs) <= INR (length xs) * val b.
Proof.
  intros Fb. induction xs as [|x xs IH]; intros H.
  - split; [constructor|]. change (sumabsR (vals [])) with 0. change (INR (@length f64 [])) with 0. lra.
  - change (all_small b (x :: xs)) with (abs_le_b x b && all_small b xs) in H.
    apply andb_prop in H. destruct H as (H1 & H2).
    destruct (abs_le_b_ok x b Fb H1) as (Fx & Vx). destruct (IH H2) as (I1 & I2).
    split; [constructor; assumption|].
    rewrite vals_cons, sumabsR_cons. change (length (x :: xs)) with (S (length xs)). rewrite S_INR. lra.
Qed.

Lemma pairs_small_ok (b : f64) (l : list (f64 * f64)) : finite b -> pairs_small b l = true ->
  pairs_finite l /\ sumabsR (prodsR l) <= INR (length l) * (val b * val b).
Proof.
  intros Fb. induction l as [|(v, w) l IH]; intros H.
  - split; [constructor|]. change (sumabsR (prodsR [])) with 0. change (INR (@length (f64 * f64) [])) with 0. lra.
  - change (pairs_small b ((v, w) :: l)) with ((abs_le_b v b && abs_le_b w b) && pairs_small b l) in H.
    apply andb_prop in H. destruct H as (H1 & H2). apply andb_prop in H1. destruct H1 as (Hv & Hw).
    destruct (abs_le_b_ok v b Fb Hv) as (Fv & Vv). destruct (abs_le_b_ok w b Fb Hw) as (Fw & Vw).
    destruct (IH H2) as (I1 & I2).
    split; [constructor; [split; assumption|assumption]|].
    rewrite prodsR_cons, sumabsR_cons. change (length ((v, w) :: l)) with (S (length l)). rewrite S_INR.
    rewrite Rabs_mult.
    assert (Rabs (val v) * Rabs (val w) <= val b * val b).
    { apply Rmult_le_compat; try apply Rabs_pos; assumption. }
    lra.
Qed.

Lemma len_bpow50 (n : nat) : (Z.of_nat n <= 2 ^ 50)%Z -> INR n <= bpow radix2 50.
Proof. intros H. rewrite INR_IZR_INZ. change (bpow radix2 50) with (IZR (2 ^ 50)). apply IZR_le. exact H. Qed.

Lemma all_small_900 (xs : list f64) : all_small f64_2p900 xs = true -> (Z.of_nat (length xs) <= 2 ^ 50)%Z ->
  all_finite xs /\ sumabsR (vals xs) <= bpow radix2 950.
Proof.
  intros H Hn. destruct (all_small_ok f64_2p900 xs eq_refl H) as (F & B). split; [exact F|].
  rewrite val_2p900 in B. pose proof (len_bpow50 _ Hn). pose proof (bpow_ge_0 radix2 900).
  eapply Rle_trans; [exact B|]. change 950%Z with (50 + 900)%Z. rewrite bpow_plus.
  apply Rmult_le_compat_r; assumption.
Qed.

Lemma pairs_small_450 (l : list (f64 * f64)) : pairs_small f64_2p450 l = true -> (Z.of_nat (length l) <= 2 ^ 50)%Z ->
  pairs_finite l /\ sumabsR (prodsR l) <= bpow radix2 950.
Proof.
  intros H Hn. destruct (pairs_small_ok f64_2p450 l eq_refl H) as (F & B). split; [exact F|].
  rewrite val_2p450, <- bpow_plus in B. pose proof (len_bpow50 _ Hn). pose proof (bpow_ge_0 radix2 (450 + 450)).
  eapply Rle_trans; [exact B|]. change 950%Z with (50 + (450 + 450))%Z. rewrite (bpow_plus radix2 50).
  apply Rmult_le_compat_r; assumption.
Qed.

(* a well-formed state whose sum field is at most 2^900 stands for a number of at most 2^901 *)
Lemma rsumF_small (st : f64 * f64) : wfF st -> abs_le_b (fst st) f64_2p900 = true ->
  Rabs (rsumF st) <= bpow radix2 901.
Proof.
  intros (_ & W) H. destruct (abs_le_b_ok (fst st) f64_2p900 eq_refl H) as (_ & B). rewrite val_2p900 in B.
  unfold rsumF. pose proof u53_bounds as Hu. pose proof (Rabs_pos (val (fst st))).
  assert (Rabs (val (fst st) - val (snd st)) <= Rabs (val (fst st)) + Rabs (val (snd st))).
  { unfold Rminus. eapply Rle_trans; [apply Rabs_triang|]. rewrite Rabs_Ropp. lra. }
  change 901%Z with (900 + 1)%Z. rewrite bpow_plus_1. change (IZR radix2) with 2. nra.
Qed.

Lemma real_sum_small (s : summary) : wfS s -> abs_le_b (su_sum s) f64_2p900 = true ->
  Rabs (real_sum s) <= bpow radix2 901.
Proof. intros W H. rewrite real_sum_sc. apply rsumF_small; assumption. Qed.

(* ------------------------------------------------------------------ *)
(* 8. the same statements phrased on summaries (for Props/Kahan.v)      *)
(* ------------------------------------------------------------------ *)
Definition su_add_to_sum_list (s : summary) (xs : list f64) : summary := fold_left su_add_to_sum xs s.

Lemma sc_add_to_sum_list (xs : list f64) : forall s, sc (su_add_to_sum_list s xs) = kfoldF xs (sc s).
Proof.
  induction xs as [|x xs IH]; intros s; [reflexivity|].
  change (su_add_to_sum_list s (x :: xs)) with (su_add_to_sum_list (su_add_to_sum s x) xs).
  rewrite IH, sc_add_to_sum. reflexivity.
Qed.

Theorem su_add_to_sum_list_err (s : summary) (xs : list f64) : wfS s -> all_finite xs ->
  (Z.of_nat (length xs) <= 2 ^ 50)%Z ->
  Rabs (real_sum s) + sumabsR (vals xs) <= bpow radix2 1000 ->
  wfS (su_add_to_sum_list s xs) /\
  Rabs (real_sum (su_add_to_sum_list s xs) - (real_sum s + sumR (vals xs))) <=
    (2 * u53 + 5 * u53 ^ 2) * sumabsR (vals xs)
    + 9 * INR (length xs) * u53 ^ 2 * (Rabs (real_sum s) + sumabsR (vals xs)).
Proof.
  intros W FX Hn HB. rewrite real_sum_sc in HB.
  destruct (kahan_fold_float (sc s) xs W FX Hn HB) as (W' & E).
  rewrite <- sc_add_to_sum_list in W', E. split; [exact W'|exact E].
Qed.

Theorem su_add_to_sum_list_exact (s : summary) (xs : list f64) :
  finite (su_sum s) -> finite (su_comp s) -> val (su_comp s) = 0 -> all_finite xs ->
  prefix_fmt (val (su_sum s)) (vals xs) ->
  Rabs (val (su_sum s)) + sumabsR (vals xs) <= bpow radix2 1000 ->
  let s' := su_add_to_sum_list s xs in
  finite (su_sum s') /\ finite (su_comp s') /\
  val (su_sum s') = val (su_sum s) + sumR (vals xs) /\ val (su_comp s') = 0.
Proof.
  intros Fs Fc Vc FX HP HB s'.
  destruct (kahan_exact_float xs (sc s) (conj Fs Fc) Vc FX HP HB) as ((F1 & F2) & V1 & V2).
  rewrite <- sc_add_to_sum_list in F1, F2, V1, V2. fold s' in F1, F2, V1, V2.
  repeat split; assumption.
Qed.

(* the fields after one AddToSum / Add / MergeWith, as expressions of the model's operations *)
Lemma su_add_to_sum_fields (s : summary) (x : f64) :
  let y := fsub x (su_comp s) in
  let t := fadd (su_sum s) y in
  su_sum (su_add_to_sum s x) = t /\ su_comp (su_add_to_sum s x) = fsub (fsub t (su_sum s)) y.
Proof. split; reflexivity. Qed.

Lemma su_add_fields (s : summary) (v w : f64) :
  su_sum (su_add s v w) = su_sum (su_add_to_sum s (fmul v w)) /\
  su_comp (su_add s v w) = su_comp (su_add_to_sum s (fmul v w)).
Proof. split; reflexivity. Qed.

Lemma fst_sc (s : summary) : fst (sc s) = su_sum s.
Proof. reflexivity. Qed.
Lemma snd_sc (s : summary) : snd (sc s) = su_comp s.
Proof. reflexivity. Qed.

Lemma su_merge_fields (s o : summary) :
  su_sum (su_merge s o) = su_sum (su_add_to_sum (su_add_to_sum s (su_sum o)) (su_comp o)) /\
  su_comp (su_merge s o) = su_comp (su_add_to_sum (su_add_to_sum s (su_sum o)) (su_comp o)).
Proof.
  pose proof (sc_merge s o) as E.
  rewrite <- (sc_add_to_sum s (su_sum o)), <- sc_add_to_sum in E.
  split.
  - rewrite <- (fst_sc (su_merge s o)), E. apply fst_sc.
  - rewrite <- (snd_sc (su_merge s o)), E. apply snd_sc.
Qed.

(* the number Sum() reports relative to the represented one, exactly *)
Lemma su_get_sum_sign (s : summary) : wfS s -> Rabs (real_sum s) <= bpow radix2 1000 ->
  val (su_get_sum s) = rndR (real_sum s + 2 * val (su_comp s)).
Proof.
  intros W HB. destruct (su_get_sum_err s W HB) as (_ & V & _). rewrite V. f_equal. unfold real_sum. ring.
Qed.
