(* Miscellaneous float-level and wrapper-level theorems (proofs; the statements are restated in
   Props/Misc.v):
     Part 1  GRID   binary64 +, -, * on weights of a dyadic grid are the exact Qc operations
     Part 2  C10_f  min / max / count of the binary64 summary statistics su_* (the instance that runs)
     Part 3  C10_f  history theorem for the statistics field of the exact-variant sketch
     Part 4  C09_b  Layer B MergeWithProto / FromProto for the five store kinds
     Part 5  C16_f  reweight / rescale of the binary64 statistics under the grid condition *)
From Coq Require Import Bool NArith ZArith QArith Qcanon Qcabs Qreals Reals Lra Lia List Permutation.
From Flocq Require Import Core.Core IEEE754.BinarySingleNaN IEEE754.Binary IEEE754.Bits.
From SK Require Import Base.Prelude Base.F64 Base.F64Proofs.
From SK Require Import Spec.Bins Spec.BinsProofs Spec.ASketch Store.Any Store.AnyProofs Stat.Summary
                       Sketch.Sketch Sketch.SketchProofs Sketch.RefineProofs Wire.Proto.
From SK Require Export Wire.ProtoB.
From SK Require Stat.SummaryProofs Wire.ProtoProofs Store.DenseProofs Store.CollapsingProofs.
Import ListNotations.

#[local] Existing Instance prec53_gt_0.
#[local] Existing Instance fexp64_valid.
Local Open Scope Z_scope.

Local Notation BR x := (B2R 53 1024 x).
Local Notation fin x := (is_finite 53 1024 x = true).

(* ================================================================== *)
(** * Part 1: the grid 2^-k                                            *)
(* ================================================================== *)
(* z / 2^k *)
Definition gridv (k z : Z) : Qc := Q2Qc (inject_Z z / inject_Z (2 ^ k)).
(* q is a multiple of 2^-k *)
Definition on_grid (k : Z) (q : Qc) : Prop := exists z : Z, q = gridv k z.
(* ... with |q| 2^k <= 2^53: q = z / 2^k for an integer |z| <= 2^53 *)
Definition grid53 (k : Z) (q : Qc) : Prop := exists z : Z, Z.abs z <= 2 ^ 53 /\ q = gridv k z.

Lemma IZR_pow2 (k : Z) : 0 <= k -> IZR (2 ^ k) = bpow radix2 k.
Proof. intros Hk. exact (IZR_Zpower radix2 k Hk). Qed.

Lemma qR_gridv (k z : Z) : 0 <= k -> qR (gridv k z) = (IZR z * bpow radix2 (- k))%R.
Proof.
  intros Hk. unfold gridv. rewrite qR_Q2Qc.
  unfold Qdiv. rewrite Q2R_mult, Q2R_inv by (apply inject_Z_pow2_nz; exact Hk).
  rewrite !Q2R_inject_Z, (IZR_pow2 k Hk), bpow_opp. reflexivity.
Qed.

Lemma gridv_inj_R (k : Z) (q : Qc) (z : Z) : 0 <= k -> qR q = (IZR z * bpow radix2 (- k))%R -> q = gridv k z.
Proof. intros Hk H. apply qR_inj. rewrite qR_gridv by exact Hk. exact H. Qed.

Lemma gridv_0 (k : Z) : 0 <= k -> gridv k 0 = w0.
Proof. intros Hk. symmetry. apply gridv_inj_R; [exact Hk|]. rewrite qR_w0. simpl. ring. Qed.

Lemma gridv_plus (k a b : Z) : 0 <= k -> (gridv k a + gridv k b)%Qc = gridv k (a + b).
Proof.
  intros Hk. apply gridv_inj_R; [exact Hk|]. rewrite qR_plus, !qR_gridv, plus_IZR by exact Hk. ring.
Qed.
Lemma gridv_opp (k a : Z) : 0 <= k -> (- gridv k a)%Qc = gridv k (- a).
Proof.
  intros Hk. apply gridv_inj_R; [exact Hk|]. rewrite qR_opp, !qR_gridv, opp_IZR by exact Hk. ring.
Qed.
Lemma gridv_minus (k a b : Z) : 0 <= k -> (gridv k a - gridv k b)%Qc = gridv k (a - b).
Proof.
  intros Hk. unfold Qcminus. rewrite gridv_opp, gridv_plus by exact Hk. f_equal.
Qed.
Lemma gridv_mult (k j a b : Z) : 0 <= k -> 0 <= j -> (gridv k a * gridv j b)%Qc = gridv (k + j) (a * b).
Proof.
  intros Hk Hj. apply gridv_inj_R; [lia|]. rewrite qR_mult, !qR_gridv, mult_IZR by lia.
  replace (- (k + j)) with (- k + - j) by lia. rewrite bpow_plus. ring.
Qed.

Lemma gridv_le (k a b : Z) : 0 <= k -> ((gridv k a <= gridv k b)%Qc <-> a <= b).
Proof.
  intros Hk. rewrite qR_le, !qR_gridv by exact Hk.
  pose proof (bpow_gt_0 radix2 (- k)) as Hp. split; intros H.
  - apply le_IZR. apply Rmult_le_reg_r with (bpow radix2 (- k)); assumption.
  - apply Rmult_le_compat_r; [lra|]. apply IZR_le. exact H.
Qed.

Lemma gridv_abs (k a : Z) : 0 <= k -> Qcabs (gridv k a) = gridv k (Z.abs a).
Proof.
  intros Hk. destruct (Z_le_gt_dec 0 a) as [H|H].
  - rewrite Z.abs_eq by exact H. apply Qcabs_pos. change (w0 <= gridv k a)%Qc.
    rewrite <- (gridv_0 k Hk). apply gridv_le; assumption.
  - rewrite Z.abs_neq by lia. rewrite <- gridv_opp by exact Hk. apply Qcabs_neg. change (gridv k a <= w0)%Qc.
    rewrite <- (gridv_0 k Hk). apply gridv_le; [exact Hk|lia].
Qed.

(* closure of the grid *)
Lemma on_grid_0 (k : Z) : 0 <= k -> on_grid k w0.
Proof. intros Hk. exists 0. symmetry. apply gridv_0. exact Hk. Qed.
Lemma on_grid_plus (k : Z) (x y : Qc) : 0 <= k -> on_grid k x -> on_grid k y -> on_grid k (x + y).
Proof. intros Hk [a ->] [b ->]. exists (a + b). apply gridv_plus. exact Hk. Qed.
Lemma on_grid_opp (k : Z) (x : Qc) : 0 <= k -> on_grid k x -> on_grid k (- x).
Proof. intros Hk [a ->]. exists (- a). apply gridv_opp. exact Hk. Qed.
Lemma on_grid_minus (k : Z) (x y : Qc) : 0 <= k -> on_grid k x -> on_grid k y -> on_grid k (x - y).
Proof. intros Hk [a ->] [b ->]. exists (a - b). apply gridv_minus. exact Hk. Qed.
Lemma on_grid_mult (k j : Z) (x y : Qc) : 0 <= k -> 0 <= j -> on_grid k x -> on_grid j y -> on_grid (k + j) (x * y).
Proof. intros Hk Hj [a ->] [b ->]. exists (a * b). apply gridv_mult; assumption. Qed.
Lemma on_grid_dyadic (k : Z) (q : Qc) : 0 <= k -> on_grid k q -> dyadic q.
Proof. intros Hk [z ->]. exists z, k. split; [exact Hk|reflexivity]. Qed.
Lemma grid53_on_grid (k : Z) (q : Qc) : grid53 k q -> on_grid k q.
Proof. intros (z & _ & E). exists z. exact E. Qed.

(* a grid point bounded by 2^53 / 2^k in absolute value is a bounded grid point *)
Lemma grid53_of_bound (k : Z) (q : Qc) :
  0 <= k -> on_grid k q -> (Qcabs q <= gridv k (2 ^ 53))%Qc -> grid53 k q.
Proof.
  intros Hk [z ->] H. exists z. split; [|reflexivity].
  rewrite gridv_abs in H by exact Hk. apply gridv_le in H; assumption.
Qed.
Lemma grid53_of_nonneg (k : Z) (q : Qc) :
  0 <= k -> on_grid k q -> (w0 <= q)%Qc -> (q <= gridv k (2 ^ 53))%Qc -> grid53 k q.
Proof. intros Hk Hg H0 H. apply grid53_of_bound; [exact Hk|exact Hg|]. rewrite Qcabs_pos by exact H0. exact H. Qed.

(* ---- bounded grid points are binary64 values ---- *)
Lemma gridv_format (k z : Z) : 0 <= k <= 1074 -> Z.abs z <= 2 ^ 53 ->
  generic_format radix2 (FLT_exp (-1074) 53) (IZR z * bpow radix2 (- k)).
Proof.
  change (2 ^ 53) with 9007199254740992. intros Hk Hz. apply generic_format_FLT.
  destruct (Z.eq_dec (Z.abs z) 9007199254740992) as [E|N].
  - assert (Hc : z = 9007199254740992 \/ z = - 9007199254740992) by lia.
    apply (FLT_spec radix2 (-1074) 53 _ (Float radix2 (z / 2) (1 + - k))).
    + unfold F2R. cbn [Fnum Fexp]. rewrite bpow_plus. change (bpow radix2 1) with 2%R.
      destruct Hc as [-> | ->].
      * change (9007199254740992 / 2) with 4503599627370496. lra.
      * change (- 9007199254740992 / 2) with (- 4503599627370496). lra.
    + cbn [Fnum]. change (radix2 ^ 53) with 9007199254740992.
      destruct Hc as [-> | ->]; vm_compute; reflexivity.
    + cbn [Fexp]. lia.
  - apply (FLT_spec radix2 (-1074) 53 _ (Float radix2 z (- k))).
    + reflexivity.
    + cbn [Fnum]. change (radix2 ^ 53) with 9007199254740992. lia.
    + cbn [Fexp]. lia.
Qed.

Lemma pow53_le_max : (IZR (2 ^ 53) <= IZR f64max_Z)%R.
Proof. apply IZR_le. vm_compute. discriminate. Qed.

Lemma grid53_facts (k : Z) (q : Qc) : 0 <= k <= 1074 -> grid53 k q ->
  dyadic q /\ generic_format radix2 (FLT_exp (-1074) 53) (qR q) /\ (Rabs (qR q) <= IZR f64max_Z)%R.
Proof.
  intros Hk (z & Hz & ->). split; [exists z, k; split; [lia|reflexivity]|].
  rewrite qR_gridv by lia. split; [apply gridv_format; assumption|].
  apply Rle_trans with (IZR (2 ^ 53)); [|exact pow53_le_max].
  rewrite Rabs_mult, <- abs_IZR, (Rabs_pos_eq (bpow radix2 (- k))) by apply bpow_ge_0.
  assert (H1 : (bpow radix2 (- k) <= 1)%R) by (change 1%R with (bpow radix2 0); apply bpow_le; lia).
  pose proof (bpow_ge_0 radix2 (- k)) as H0.
  assert (H2 : (IZR (Z.abs z) <= IZR (2 ^ 53))%R) by (apply IZR_le; exact Hz).
  assert (H3 : (0 <= IZR (Z.abs z))%R) by (apply IZR_le; lia).
  nra.
Qed.

Lemma rndR_id (x : R) : generic_format radix2 (FLT_exp (-1074) 53) x -> rndR x = x.
Proof. intros H. unfold rndR. apply round_generic; [apply valid_rnd_N|exact H]. Qed.

Lemma f2q_of_BR (a : f64) (q : Qc) : fin a -> BR a = qR q -> f2q a = q.
Proof. intros Fa H. apply qR_inj. rewrite (f2q_B2R a Fa). exact H. Qed.

(* q2f is exact on bounded grid points *)
Lemma q2f_grid (k : Z) (q : Qc) : 0 <= k <= 1074 -> grid53 k q -> fin (q2f q) /\ f2q (q2f q) = q.
Proof.
  intros Hk Hg. destruct (grid53_facts k q Hk Hg) as (Hd & Hf & Hb).
  assert (Hov : (Rabs (rndR (qR q)) < bpow radix2 1024)%R) by (apply no_overflow_Rabs; exact Hb).
  destruct (q2f_correct q Hd Hov) as (F & V). split; [exact F|].
  apply f2q_of_BR; [exact F|]. rewrite V. apply rndR_id. exact Hf.
Qed.

(* ---- the three operations (Flocq's correctness theorems) ---- *)
Lemma fadd_bounded' (a b : f64) : fin a -> fin b -> (Rabs (BR a + BR b) <= IZR f64max_Z)%R ->
  fin (fadd a b) /\ BR (fadd a b) = rndR (BR a + BR b).
Proof.
  intros Ha Hb Hr.
  pose proof (Binary.Bplus_correct 53 1024 eq_refl eq_refl binop_nan_pl64 mode_NE a b Ha Hb) as H.
  change (Binary.Bplus 53 1024 eq_refl eq_refl binop_nan_pl64 mode_NE a b) with (fadd a b) in H.
  rewrite Rlt_bool_true in H by (apply no_overflow_Rabs; exact Hr).
  destruct H as (H1 & H2 & _). split; assumption.
Qed.
Lemma fsub_bounded' (a b : f64) : fin a -> fin b -> (Rabs (BR a - BR b) <= IZR f64max_Z)%R ->
  fin (fsub a b) /\ BR (fsub a b) = rndR (BR a - BR b).
Proof.
  intros Ha Hb Hr.
  pose proof (Binary.Bminus_correct 53 1024 eq_refl eq_refl binop_nan_pl64 mode_NE a b Ha Hb) as H.
  change (Binary.Bminus 53 1024 eq_refl eq_refl binop_nan_pl64 mode_NE a b) with (fsub a b) in H.
  rewrite Rlt_bool_true in H by (apply no_overflow_Rabs; exact Hr).
  destruct H as (H1 & H2 & _). split; assumption.
Qed.
Lemma fmul_bounded' (a b : f64) : fin a -> fin b -> (Rabs (BR a * BR b) <= IZR f64max_Z)%R ->
  fin (fmul a b) /\ BR (fmul a b) = rndR (BR a * BR b).
Proof.
  intros Ha Hb Hr.
  pose proof (Binary.Bmult_correct 53 1024 eq_refl eq_refl binop_nan_pl64 mode_NE a b) as H.
  change (Binary.Bmult 53 1024 eq_refl eq_refl binop_nan_pl64 mode_NE a b) with (fmul a b) in H.
  rewrite Rlt_bool_true in H by (apply no_overflow_Rabs; exact Hr).
  destruct H as (H1 & H2 & _). split; [rewrite H2, Ha, Hb; reflexivity|exact H1].
Qed.

(* float level: the operation is exact as soon as the exact result is a bounded grid point *)
Theorem fadd_exact (k : Z) (a b : f64) : 0 <= k <= 1074 -> fin a -> fin b ->
  grid53 k (f2q a + f2q b) -> fin (fadd a b) /\ f2q (fadd a b) = (f2q a + f2q b)%Qc.
Proof.
  intros Hk Fa Fb Hg. destruct (grid53_facts k _ Hk Hg) as (_ & Hf & Hb).
  rewrite qR_plus, (f2q_B2R a Fa), (f2q_B2R b Fb) in Hf, Hb.
  destruct (fadd_bounded' a b Fa Fb Hb) as (F & V). split; [exact F|].
  apply f2q_of_BR; [exact F|]. rewrite V, (rndR_id _ Hf), qR_plus, (f2q_B2R a Fa), (f2q_B2R b Fb). reflexivity.
Qed.
Theorem fsub_exact (k : Z) (a b : f64) : 0 <= k <= 1074 -> fin a -> fin b ->
  grid53 k (f2q a - f2q b) -> fin (fsub a b) /\ f2q (fsub a b) = (f2q a - f2q b)%Qc.
Proof.
  intros Hk Fa Fb Hg. destruct (grid53_facts k _ Hk Hg) as (_ & Hf & Hb).
  rewrite qR_minus, (f2q_B2R a Fa), (f2q_B2R b Fb) in Hf, Hb.
  destruct (fsub_bounded' a b Fa Fb Hb) as (F & V). split; [exact F|].
  apply f2q_of_BR; [exact F|]. rewrite V, (rndR_id _ Hf), qR_minus, (f2q_B2R a Fa), (f2q_B2R b Fb). reflexivity.
Qed.
Theorem fmul_exact (k : Z) (a b : f64) : 0 <= k <= 1074 -> fin a -> fin b ->
  grid53 k (f2q a * f2q b) -> fin (fmul a b) /\ f2q (fmul a b) = (f2q a * f2q b)%Qc.
Proof.
  intros Hk Fa Fb Hg. destruct (grid53_facts k _ Hk Hg) as (_ & Hf & Hb).
  rewrite qR_mult, (f2q_B2R a Fa), (f2q_B2R b Fb) in Hf, Hb.
  destruct (fmul_bounded' a b Fa Fb Hb) as (F & V). split; [exact F|].
  apply f2q_of_BR; [exact F|]. rewrite V, (rndR_id _ Hf), qR_mult, (f2q_B2R a Fa), (f2q_B2R b Fb). reflexivity.
Qed.

(* weight level (the Qc weights of the model, converted by q2f as at the model's API) *)
Theorem grid_fadd (k : Z) (x y : Qc) : 0 <= k <= 1074 ->
  grid53 k x -> grid53 k y -> grid53 k (x + y) -> f2q (fadd (q2f x) (q2f y)) = (x + y)%Qc.
Proof.
  intros Hk Hx Hy Hs. destruct (q2f_grid k x Hk Hx) as (Fx & Ex). destruct (q2f_grid k y Hk Hy) as (Fy & Ey).
  destruct (fadd_exact k (q2f x) (q2f y) Hk Fx Fy) as (_ & E); rewrite Ex, Ey in *; [exact Hs|exact E].
Qed.
Theorem grid_fsub (k : Z) (x y : Qc) : 0 <= k <= 1074 ->
  grid53 k x -> grid53 k y -> grid53 k (x - y) -> f2q (fsub (q2f x) (q2f y)) = (x - y)%Qc.
Proof.
  intros Hk Hx Hy Hs. destruct (q2f_grid k x Hk Hx) as (Fx & Ex). destruct (q2f_grid k y Hk Hy) as (Fy & Ey).
  destruct (fsub_exact k (q2f x) (q2f y) Hk Fx Fy) as (_ & E); rewrite Ex, Ey in *; [exact Hs|exact E].
Qed.
Theorem grid_fmul (k j : Z) (x w : Qc) : 0 <= k -> 0 <= j -> k + j <= 1074 ->
  grid53 k x -> grid53 j w -> (Qcabs (x * w) <= gridv (k + j) (2 ^ 53))%Qc ->
  f2q (fmul (q2f x) (q2f w)) = (x * w)%Qc.
Proof.
  intros Hk Hj Hkj Hx Hw Hb.
  destruct (q2f_grid k x ltac:(lia) Hx) as (Fx & Ex). destruct (q2f_grid j w ltac:(lia) Hw) as (Fw & Ew).
  assert (Hp : grid53 (k + j) (x * w)).
  { apply grid53_of_bound; [lia| |exact Hb].
    apply on_grid_mult; [exact Hk|exact Hj|apply grid53_on_grid; exact Hx|apply grid53_on_grid; exact Hw]. }
  destruct (fmul_exact (k + j) (q2f x) (q2f w) ltac:(lia) Fx Fw) as (_ & E); rewrite Ex, Ew in *; [exact Hp|exact E].
Qed.
(* non-negative weights: the bound on the sum bounds the operands *)
Theorem grid_fadd_nonneg (k : Z) (x y : Qc) : 0 <= k <= 1074 ->
  on_grid k x -> on_grid k y -> (w0 <= x)%Qc -> (w0 <= y)%Qc -> (x + y <= gridv k (2 ^ 53))%Qc ->
  f2q (fadd (q2f x) (q2f y)) = (x + y)%Qc.
Proof.
  intros Hk Gx Gy Hx Hy Hb.
  assert (Hx' : (x <= x + y)%Qc).
  { rewrite <- (Qcplus_0_r x) at 1. apply Qcplus_le_compat; [apply Qcle_refl|exact Hy]. }
  assert (Hy' : (y <= x + y)%Qc).
  { rewrite <- (Qcplus_0_l y) at 1. apply Qcplus_le_compat; [exact Hx|apply Qcle_refl]. }
  assert (Hs : (w0 <= x + y)%Qc) by (eapply Qcle_trans; [exact Hx|exact Hx']).
  apply (grid_fadd k); [exact Hk| | |].
  - apply grid53_of_nonneg; [lia|exact Gx|exact Hx|eapply Qcle_trans; eassumption].
  - apply grid53_of_nonneg; [lia|exact Gy|exact Hy|eapply Qcle_trans; eassumption].
  - apply grid53_of_nonneg; [lia|apply on_grid_plus; [lia|exact Gx|exact Gy]|exact Hs|exact Hb].
Qed.

(* ---- sums: a left fold of fadd over bounded grid weights is exact, in any order ---- *)
Fixpoint zsum (l : list Z) : Z := match l with [] => 0 | z :: t => z + zsum t end.
Fixpoint zsumabs (l : list Z) : Z := match l with [] => 0 | z :: t => Z.abs z + zsumabs t end.
Definition qsum (l : list Qc) : Qc := fold_right Qcplus w0 l.
Definition qsumabs (l : list Qc) : Qc := fold_right (fun x a => (Qcabs x + a)%Qc) w0 l.

Lemma zsumabs_nonneg (l : list Z) : 0 <= zsumabs l.
Proof. induction l as [|z t IH]; cbn [zsumabs]; lia. Qed.
Lemma zsum_le_abs (l : list Z) : Z.abs (zsum l) <= zsumabs l.
Proof. induction l as [|z t IH]; cbn [zsum zsumabs]; lia. Qed.

Lemma qsum_gridv (k : Z) (zs : list Z) : 0 <= k -> qsum (map (gridv k) zs) = gridv k (zsum zs).
Proof.
  intros Hk. induction zs as [|z t IH]; cbn [map qsum fold_right zsum].
  - symmetry. apply gridv_0. exact Hk.
  - fold (qsum (map (gridv k) t)). rewrite IH. apply gridv_plus. exact Hk.
Qed.
Lemma qsumabs_gridv (k : Z) (zs : list Z) : 0 <= k -> qsumabs (map (gridv k) zs) = gridv k (zsumabs zs).
Proof.
  intros Hk. induction zs as [|z t IH]; cbn [map qsumabs fold_right zsumabs].
  - symmetry. apply gridv_0. exact Hk.
  - fold (qsumabs (map (gridv k) t)). rewrite IH, gridv_abs by exact Hk. apply gridv_plus. exact Hk.
Qed.
Lemma on_grid_list (k : Z) (ws : list Qc) : Forall (on_grid k) ws -> exists zs, ws = map (gridv k) zs.
Proof.
  induction 1 as [|w t [z ->] _ [zs ->]]; [exists []; reflexivity|]. exists (z :: zs). reflexivity.
Qed.
Lemma qsum_perm (l l' : list Qc) : Permutation l l' -> qsum l = qsum l'.
Proof.
  induction 1 as [|x l l' _ IH|x y l|l l' l'' _ IH1 _ IH2]; cbn [qsum fold_right].
  - reflexivity.
  - fold (qsum l) (qsum l'). now rewrite IH.
  - fold (qsum l). ring.
  - congruence.
Qed.
Lemma qsumabs_perm (l l' : list Qc) : Permutation l l' -> qsumabs l = qsumabs l'.
Proof.
  induction 1 as [|x l l' _ IH|x y l|l l' l'' _ IH1 _ IH2]; cbn [qsumabs fold_right].
  - reflexivity.
  - fold (qsumabs l) (qsumabs l'). now rewrite IH.
  - fold (qsumabs l). ring.
  - congruence.
Qed.

Lemma grid_floats_list (k : Z) (cs : list f64) : Forall (fun c => fin c /\ on_grid k (f2q c)) cs ->
  exists zs, Forall2 (fun c z => fin c /\ f2q c = gridv k z) cs zs /\ map f2q cs = map (gridv k) zs.
Proof.
  induction 1 as [|c t (Fc & z & Ez) _ (zs & IH & Em)]; [exists []; split; [constructor|reflexivity]|].
  exists (z :: zs). split; [constructor; [split; assumption|exact IH]|]. cbn [map]. now rewrite Ez, Em.
Qed.

(* the invariant of the running sum: accumulator and the rest of the list on the grid, absolute total
   at most 2^53 *)
Lemma fadd_fold_grid (k : Z) : 0 <= k <= 1074 ->
  forall (cs : list f64) (zs : list Z), Forall2 (fun c z => fin c /\ f2q c = gridv k z) cs zs ->
  forall (acc : f64) (za : Z), fin acc -> f2q acc = gridv k za -> Z.abs za + zsumabs zs <= 2 ^ 53 ->
  fin (fold_left fadd cs acc) /\ f2q (fold_left fadd cs acc) = gridv k (za + zsum zs).
Proof.
  intros Hk cs zs H. induction H as [|c z cs zs (Fc & Ec) _ IH]; intros acc za Fa Ea Hb.
  - cbn [fold_left zsum]. rewrite Z.add_0_r. split; assumption.
  - cbn [fold_left zsum zsumabs] in *.
    pose proof (zsumabs_nonneg zs) as Hn.
    destruct (fadd_exact k acc c Hk Fa Fc) as (F1 & E1).
    { rewrite Ea, Ec, gridv_plus by lia. exists (za + z). split; [lia|reflexivity]. }
    rewrite Ea, Ec, gridv_plus in E1 by lia.
    destruct (IH (fadd acc c) (za + z) F1 E1 ltac:(lia)) as (F2 & E2).
    split; [exact F2|]. rewrite E2. f_equal. lia.
Qed.

(* float level: counts held as finite floats whose values are on the grid 2^-k with absolute total
   at most 2^53 / 2^k: the left fold of fadd from +0, over ANY permutation, is finite and equals the
   exact sum *)
Theorem fadd_fold_exact (k : Z) (cs cs' : list f64) : 0 <= k <= 1074 ->
  Forall (fun c => fin c /\ on_grid k (f2q c)) cs ->
  (qsumabs (map f2q cs) <= gridv k (2 ^ 53))%Qc -> Permutation cs cs' ->
  fin (fold_left fadd cs' f64_zero) /\ f2q (fold_left fadd cs' f64_zero) = qsum (map f2q cs).
Proof.
  intros Hk Hg Hb Hp.
  rewrite (qsum_perm _ _ (Permutation_map f2q Hp)). rewrite (qsumabs_perm _ _ (Permutation_map f2q Hp)) in Hb.
  assert (Hg' : Forall (fun c => fin c /\ on_grid k (f2q c)) cs') by (eapply Permutation_Forall; eassumption).
  clear Hg Hp cs.
  destruct (grid_floats_list k cs' Hg') as (zs & Hz & Em).
  rewrite Em in *. rewrite qsumabs_gridv in Hb by lia. apply gridv_le in Hb; [|lia].
  destruct (fadd_fold_grid k Hk cs' zs Hz f64_zero 0) as (F & E).
  - reflexivity.
  - symmetry. apply gridv_0. lia.
  - cbn [Z.abs]. lia.
  - split; [exact F|]. rewrite E, qsum_gridv by lia. reflexivity.
Qed.

(* weight level *)
Theorem grid_fold_exact (k : Z) (ws ws' : list Qc) : 0 <= k <= 1074 ->
  Forall (on_grid k) ws -> (qsumabs ws <= gridv k (2 ^ 53))%Qc -> Permutation ws ws' ->
  f2q (fold_left fadd (map q2f ws') f64_zero) = qsum ws.
Proof.
  intros Hk Hg Hb Hp.
  destruct (on_grid_list k ws Hg) as [zs ->].
  pose proof Hb as Hb'. rewrite qsumabs_gridv in Hb' by lia. apply gridv_le in Hb'; [|lia].
  assert (Hq : Forall (fun w => fin (q2f w) /\ f2q (q2f w) = w) (map (gridv k) zs)).
  { apply Forall_forall. intros w Hin. apply in_map_iff in Hin. destruct Hin as (z & <- & Hin).
    apply (q2f_grid k); [exact Hk|]. exists z. split; [|reflexivity].
    clear Hb Hp Hg. induction zs as [|y t IH]; [destruct Hin|]. cbn [zsumabs] in Hb'. pose proof (zsumabs_nonneg t).
    destruct Hin as [-> | Hin]; [lia|apply IH; [lia|exact Hin]]. }
  assert (Eid : map f2q (map q2f (map (gridv k) zs)) = map (gridv k) zs).
  { rewrite map_map. rewrite <- (map_id (map (gridv k) zs)) at 2. apply map_ext_in. intros w Hin.
    rewrite Forall_forall in Hq. apply (Hq w Hin). }
  destruct (fadd_fold_exact k (map q2f (map (gridv k) zs)) (map q2f ws') Hk) as (_ & E).
  - apply Forall_forall. intros c Hin. apply in_map_iff in Hin. destruct Hin as (w & <- & Hin).
    rewrite Forall_forall in Hq, Hg. destruct (Hq w Hin) as (F & Ew). split; [exact F|]. rewrite Ew. apply Hg. exact Hin.
  - rewrite Eid. exact Hb.
  - apply Permutation_map. exact Hp.
  - rewrite E, Eid. reflexivity.
Qed.

(* ================================================================== *)
(** * Part 2: min / max / count of the binary64 statistics             *)
(* ================================================================== *)
(* ---- the generic text, once for both instances: what Add does to count, min and max ---- *)
Section GenericFields.
Variable F : Type.
Variables (add sub mul : F -> F -> F) (lt : F -> F -> bool).
Definition gmin_step (m v : F) : F := if lt v m then v else m.
Definition gmax_step (m v : F) : F := if lt m v then v else m.
Definition g_stats (l : list (F * F)) (s : gsummary F) : gsummary F :=
  fold_left (fun s vc => g_add F add sub mul lt s (fst vc) (snd vc)) l s.

Lemma g_add_fields (s : gsummary F) (v c : F) :
  g_count (g_add F add sub mul lt s v c) = add (g_count s) c /\
  g_min (g_add F add sub mul lt s v c) = gmin_step (g_min s) v /\
  g_max (g_add F add sub mul lt s v c) = gmax_step (g_max s) v.
Proof. repeat split. Qed.
Lemma g_merge_fields (s o : gsummary F) :
  g_count (g_merge F add sub lt s o) = add (g_count s) (g_count o) /\
  g_min (g_merge F add sub lt s o) = gmin_step (g_min s) (g_min o) /\
  g_max (g_merge F add sub lt s o) = gmax_step (g_max s) (g_max o).
Proof. repeat split. Qed.
Lemma g_stats_fields (l : list (F * F)) : forall s : gsummary F,
  g_count (g_stats l s) = fold_left add (map snd l) (g_count s) /\
  g_min (g_stats l s) = fold_left gmin_step (map fst l) (g_min s) /\
  g_max (g_stats l s) = fold_left gmax_step (map fst l) (g_max s).
Proof.
  induction l as [|[v c] t IH]; intros s; [repeat split|].
  cbn [g_stats fold_left map fst snd]. exact (IH (g_add F add sub mul lt s v c)).
Qed.
Lemma g_stats_app (l1 l2 : list (F * F)) (s : gsummary F) : g_stats (l1 ++ l2) s = g_stats l2 (g_stats l1 s).
Proof. unfold g_stats. apply fold_left_app. Qed.
End GenericFields.

(* the binary64 statistics of a list of Add(value, count) *)
Definition su_stats_from (l : list (f64 * f64)) (s : summary) : summary :=
  fold_left (fun s vc => su_add s (fst vc) (snd vc)) l s.
Definition su_stats (l : list (f64 * f64)) : summary := su_stats_from l su_new.
Local Notation fminf := (gmin_step f64 flt).
Local Notation fmaxf := (gmax_step f64 flt).

Lemma su_stats_fields (l : list (f64 * f64)) (s : summary) :
  su_count (su_stats_from l s) = fold_left fadd (map snd l) (su_count s) /\
  su_min (su_stats_from l s) = fold_left fminf (map fst l) (su_min s) /\
  su_max (su_stats_from l s) = fold_left fmaxf (map fst l) (su_max s).
Proof. exact (g_stats_fields f64 fadd fsub fmul flt l s). Qed.

(* comparisons of finite floats *)
Lemma flt_true_lt (a b : f64) : fin a -> fin b -> flt a b = true -> (f2q a < f2q b)%Qc.
Proof. intros Fa Fb H. apply (flt_iff a b Fa Fb). exact H. Qed.
Lemma flt_false_le (a b : f64) : fin a -> fin b -> flt a b = false -> (f2q b <= f2q a)%Qc.
Proof.
  intros Fa Fb H. apply Qcnot_lt_le. intros L. apply (flt_iff a b Fa Fb) in L. congruence.
Qed.
Lemma flt_pinf_l (x : f64) : flt f64_pinf x = false.
Proof. destruct x as [s|[|]|s pl e|[|] m e Hb]; reflexivity. Qed.
Lemma flt_ninf_r (x : f64) : flt x f64_ninf = false.
Proof. destruct x as [s|[|]|s pl e|[|] m e Hb]; reflexivity. Qed.
Lemma flt_fin_pinf (x : f64) : fin x -> flt x f64_pinf = true.
Proof. destruct x as [s|[|]|s pl e|[|] m e Hb]; intros H; try discriminate H; reflexivity. Qed.
Lemma flt_ninf_fin (x : f64) : fin x -> flt f64_ninf x = true.
Proof. destruct x as [s|[|]|s pl e|[|] m e Hb]; intros H; try discriminate H; reflexivity. Qed.

(* m is the FIRST element of vs whose value is minimal (Go's < does not separate -0 from +0, so an
   equal value met later never replaces the one held) *)
Definition first_min (vs : list f64) (m : f64) : Prop :=
  exists l1 l2, vs = l1 ++ m :: l2 /\
    (forall x, In x l1 -> (f2q m < f2q x)%Qc) /\ (forall x, In x l2 -> (f2q m <= f2q x)%Qc).
Definition first_max (vs : list f64) (m : f64) : Prop :=
  exists l1 l2, vs = l1 ++ m :: l2 /\
    (forall x, In x l1 -> (f2q x < f2q m)%Qc) /\ (forall x, In x l2 -> (f2q x <= f2q m)%Qc).

Lemma first_min_cons (x : f64) (t : list f64) (r : f64) :
  first_min t r -> (f2q r < f2q x)%Qc -> first_min (x :: t) r.
Proof.
  intros (l1 & l2 & -> & H1 & H2) Hx. exists (x :: l1), l2. split; [reflexivity|]. split; [|exact H2].
  intros y [<- | Hy]; [exact Hx|exact (H1 y Hy)].
Qed.
Lemma first_max_cons (x : f64) (t : list f64) (r : f64) :
  first_max t r -> (f2q x < f2q r)%Qc -> first_max (x :: t) r.
Proof.
  intros (l1 & l2 & -> & H1 & H2) Hx. exists (x :: l1), l2. split; [reflexivity|]. split; [|exact H2].
  intros y [<- | Hy]; [exact Hx|exact (H1 y Hy)].
Qed.
Lemma first_min_in (vs : list f64) (m : f64) : first_min vs m -> In m vs /\ forall x, In x vs -> (f2q m <= f2q x)%Qc.
Proof.
  intros (l1 & l2 & -> & H1 & H2). split; [apply in_or_app; right; left; reflexivity|].
  intros x Hx. apply in_app_or in Hx. destruct Hx as [Hx|[<- | Hx]];
    [apply Qclt_le_weak; exact (H1 x Hx)|apply Qcle_refl|exact (H2 x Hx)].
Qed.
Lemma first_max_in (vs : list f64) (m : f64) : first_max vs m -> In m vs /\ forall x, In x vs -> (f2q x <= f2q m)%Qc.
Proof.
  intros (l1 & l2 & -> & H1 & H2). split; [apply in_or_app; right; left; reflexivity|].
  intros x Hx. apply in_app_or in Hx. destruct Hx as [Hx|[<- | Hx]];
    [apply Qclt_le_weak; exact (H1 x Hx)|apply Qcle_refl|exact (H2 x Hx)].
Qed.

Lemma fold_fminf_fin (vs : list f64) : Forall (fun v => fin v) vs -> forall m : f64, fin m ->
  (fold_left fminf vs m = m /\ forall x, In x vs -> (f2q m <= f2q x)%Qc) \/
  (first_min vs (fold_left fminf vs m) /\ (f2q (fold_left fminf vs m) < f2q m)%Qc).
Proof.
  induction 1 as [|x t Fx Ft IH]; intros m Fm.
  - left. split; [reflexivity|intros x []].
  - cbn [fold_left]. unfold gmin_step at 2 4 6. destruct (flt x m) eqn:E.
    + pose proof (flt_true_lt x m Fx Fm E) as L. right.
      destruct (IH x Fx) as [(Er & Hr)|(Hr & Lr)].
      * rewrite Er. split; [|exact L]. exists [], t. split; [reflexivity|]. split; [intros y []|exact Hr].
      * split; [apply first_min_cons; assumption|eapply Qclt_trans; eassumption].
    + pose proof (flt_false_le x m Fx Fm E) as L.
      destruct (IH m Fm) as [(Er & Hr)|(Hr & Lr)].
      * left. split; [exact Er|]. intros y [<- | Hy]; [exact L|exact (Hr y Hy)].
      * right. split; [|exact Lr]. apply first_min_cons; [exact Hr|eapply Qclt_le_trans; eassumption].
Qed.
Lemma fold_fmaxf_fin (vs : list f64) : Forall (fun v => fin v) vs -> forall m : f64, fin m ->
  (fold_left fmaxf vs m = m /\ forall x, In x vs -> (f2q x <= f2q m)%Qc) \/
  (first_max vs (fold_left fmaxf vs m) /\ (f2q m < f2q (fold_left fmaxf vs m))%Qc).
Proof.
  induction 1 as [|x t Fx Ft IH]; intros m Fm.
  - left. split; [reflexivity|intros x []].
  - cbn [fold_left]. unfold gmax_step at 2 4 6. destruct (flt m x) eqn:E.
    + pose proof (flt_true_lt m x Fm Fx E) as L. right.
      destruct (IH x Fx) as [(Er & Hr)|(Hr & Lr)].
      * rewrite Er. split; [|exact L]. exists [], t. split; [reflexivity|]. split; [intros y []|exact Hr].
      * split; [apply first_max_cons; assumption|eapply Qclt_trans; eassumption].
    + pose proof (flt_false_le m x Fm Fx E) as L.
      destruct (IH m Fm) as [(Er & Hr)|(Hr & Lr)].
      * left. split; [exact Er|]. intros y [<- | Hy]; [exact L|exact (Hr y Hy)].
      * right. split; [|exact Lr]. apply first_max_cons; [exact Hr|eapply Qcle_lt_trans; eassumption].
Qed.

(* from the sentinels of a new summary *)
Lemma fold_fminf_new (v : f64) (t : list f64) : Forall (fun v => fin v) (v :: t) ->
  first_min (v :: t) (fold_left fminf (v :: t) f64_pinf).
Proof.
  intros H. inversion H as [|v' t' Fv Ft]; subst. cbn [fold_left]. unfold gmin_step at 2. rewrite (flt_fin_pinf v Fv).
  destruct (fold_fminf_fin t Ft v Fv) as [(Er & Hr)|(Hr & Lr)].
  - rewrite Er. exists [], t. split; [reflexivity|]. split; [intros y []|exact Hr].
  - apply first_min_cons; assumption.
Qed.
Lemma fold_fmaxf_new (v : f64) (t : list f64) : Forall (fun v => fin v) (v :: t) ->
  first_max (v :: t) (fold_left fmaxf (v :: t) f64_ninf).
Proof.
  intros H. inversion H as [|v' t' Fv Ft]; subst. cbn [fold_left]. unfold gmax_step at 2. rewrite (flt_ninf_fin v Fv).
  destruct (fold_fmaxf_fin t Ft v Fv) as [(Er & Hr)|(Hr & Lr)].
  - rewrite Er. exists [], t. split; [reflexivity|]. split; [intros y []|exact Hr].
  - apply first_max_cons; assumption.
Qed.

(* min / max of the binary64 statistics: no rounding is involved, whatever the counts (finite or not) *)
Theorem su_minmax_exact (l : list (f64 * f64)) : Forall (fun vc => fin (fst vc)) l ->
  match l with
  | [] => su_min (su_stats l) = f64_pinf /\ su_max (su_stats l) = f64_ninf
  | _ :: _ => first_min (map fst l) (su_min (su_stats l)) /\ first_max (map fst l) (su_max (su_stats l))
  end.
Proof.
  intros H. destruct (su_stats_fields l su_new) as (_ & Emin & Emax). unfold su_stats. rewrite Emin, Emax.
  assert (Hv : Forall (fun v => fin v) (map fst l)).
  { apply Forall_forall. intros v Hin. apply in_map_iff in Hin. destruct Hin as (vc & <- & Hin).
    rewrite Forall_forall in H. exact (H vc Hin). }
  destruct l as [|[v c] t]; [split; reflexivity|]. cbn [map fst] in *.
  split; [apply fold_fminf_new|apply fold_fmaxf_new]; exact Hv.
Qed.

(* the same, against the exact instance of Props/C10.v: the values of min and max are lmin / lmax of
   the exact values *)
Definition qvals (l : list (f64 * f64)) : list (Qc * Qc) := map (fun vc => (f2q (fst vc), f2q (snd vc))) l.
Lemma vals_qvals (l : list (f64 * f64)) : SummaryProofs.vals (qvals l) = map f2q (map fst l).
Proof. unfold SummaryProofs.vals, qvals. rewrite !map_map. reflexivity. Qed.

Lemma f2v_pinf : f2v f64_pinf = FInf false. Proof. reflexivity. Qed.
Lemma f2v_ninf : f2v f64_ninf = FInf true. Proof. reflexivity. Qed.

Theorem su_minmax_is_exact_instance (l : list (f64 * f64)) : Forall (fun vc => fin (fst vc)) l ->
  f2v (su_min (su_stats l)) = g_min (SummaryProofs.stats_of (qvals l)) /\
  f2v (su_max (su_stats l)) = g_max (SummaryProofs.stats_of (qvals l)).
Proof.
  intros H. pose proof (su_minmax_exact l H) as M.
  destruct (SummaryProofs.count_is_total_weight (qvals l)) as (_ & _ & _ & Emin & Emax).
  rewrite Emin, Emax, vals_qvals.
  destruct l as [|vc t]; [destruct M as [-> ->]; split; reflexivity|].
  destruct M as [Mn Mx]. set (vs := map fst (vc :: t)) in *.
  assert (Hv : forall v, In v vs -> fin v).
  { intros v Hin. apply in_map_iff in Hin. destruct Hin as (vc' & <- & Hin). rewrite Forall_forall in H. exact (H vc' Hin). }
  assert (Hne : map f2q vs <> []) by (unfold vs; discriminate).
  split.
  - destruct (first_min_in _ _ Mn) as (Hin & Hle).
    destruct (SummaryProofs.lmin_some _ Hne) as [m Em]. rewrite Em. cbn [SummaryProofs.emin].
    destruct (SummaryProofs.lmin_spec _ _ Em) as (Hm & Hmle).
    rewrite (fin_f2v _ (Hv _ Hin)). f_equal. apply Qcle_antisym.
    + apply in_map_iff in Hm. destruct Hm as (x & <- & Hx). exact (Hle x Hx).
    + apply Hmle. apply in_map. exact Hin.
  - destruct (first_max_in _ _ Mx) as (Hin & Hle).
    destruct (SummaryProofs.lmax_some _ Hne) as [m Em]. rewrite Em. cbn [SummaryProofs.emax].
    destruct (SummaryProofs.lmax_spec _ _ Em) as (Hm & Hmle).
    rewrite (fin_f2v _ (Hv _ Hin)). f_equal. apply Qcle_antisym.
    + apply Hmle. apply in_map. exact Hin.
    + apply in_map_iff in Hm. destruct Hm as (x & <- & Hx). exact (Hle x Hx).
Qed.

(* ---- count: exact under the grid condition, in any order of the additions ---- *)
Lemma tw_qvals (l : list (f64 * f64)) : SummaryProofs.tw (qvals l) = qsum (map f2q (map snd l)).
Proof.
  induction l as [|[v c] t IH]; [reflexivity|]. cbn [qvals map SummaryProofs.tw fst snd qsum fold_right].
  fold (qvals t). rewrite IH. reflexivity.
Qed.

Theorem su_count_exact (k : Z) (l l' : list (f64 * f64)) : 0 <= k <= 1074 ->
  Forall (fun vc => fin (snd vc) /\ on_grid k (f2q (snd vc))) l ->
  (qsumabs (map f2q (map snd l)) <= gridv k (2 ^ 53))%Qc -> Permutation l l' ->
  fin (su_count (su_stats l')) /\
  f2q (su_count (su_stats l')) = qsum (map f2q (map snd l)) /\
  f2v (su_count (su_stats l')) = g_count (SummaryProofs.stats_of (qvals l)).
Proof.
  intros Hk Hg Hb Hp. destruct (su_stats_fields l' su_new) as (Ec & _ & _). unfold su_stats. rewrite Ec.
  change (su_count su_new) with f64_zero.
  destruct (fadd_fold_exact k (map snd l) (map snd l') Hk) as (F & E).
  - apply Forall_forall. intros c Hin. apply in_map_iff in Hin. destruct Hin as (vc & <- & Hin).
    rewrite Forall_forall in Hg. exact (Hg vc Hin).
  - exact Hb.
  - apply Permutation_map. exact Hp.
  - split; [exact F|]. split; [exact E|].
    destruct (SummaryProofs.count_is_total_weight (qvals l)) as (Ecnt & _). rewrite Ecnt, tw_qvals, <- E.
    apply fin_f2v. exact F.
Qed.

(* ---- merge: min of mins, max of maxes, sum of counts ---- *)
Definition okmin (v : f64) : Prop := v = f64_pinf \/ fin v.
Definition okmax (v : f64) : Prop := v = f64_ninf \/ fin v.

Lemma fminf_pinf_l (v : f64) : okmin v -> fminf f64_pinf v = v.
Proof. intros [-> | F]; unfold gmin_step; [reflexivity|]. now rewrite flt_fin_pinf. Qed.
Lemma fminf_pinf_r (m : f64) : fminf m f64_pinf = m.
Proof. unfold gmin_step. now rewrite flt_pinf_l. Qed.
Lemma fmaxf_ninf_l (v : f64) : okmax v -> fmaxf f64_ninf v = v.
Proof. intros [-> | F]; unfold gmax_step; [reflexivity|]. now rewrite flt_ninf_fin. Qed.
Lemma fmaxf_ninf_r (m : f64) : fmaxf m f64_ninf = m.
Proof. unfold gmax_step. now rewrite flt_ninf_r. Qed.
Lemma okmin_fminf (a b : f64) : okmin a -> okmin b -> okmin (fminf a b).
Proof. intros Ha Hb. unfold gmin_step. destruct (flt b a); assumption. Qed.
Lemma okmax_fmaxf (a b : f64) : okmax a -> okmax b -> okmax (fmaxf a b).
Proof. intros Ha Hb. unfold gmax_step. destruct (flt a b); assumption. Qed.

Lemma flt_true_R (a b : f64) : fin a -> fin b -> flt a b = true -> (BR a < BR b)%R.
Proof.
  intros Fa Fb H. apply flt_true_lt in H; [|exact Fa|exact Fb].
  apply qR_lt in H. now rewrite (f2q_B2R a Fa), (f2q_B2R b Fb) in H.
Qed.
Lemma flt_false_R (a b : f64) : fin a -> fin b -> flt a b = false -> (BR b <= BR a)%R.
Proof.
  intros Fa Fb H. apply flt_false_le in H; [|exact Fa|exact Fb].
  apply qR_le in H. now rewrite (f2q_B2R a Fa), (f2q_B2R b Fb) in H.
Qed.

Ltac flt_cases :=
  try reflexivity; exfalso;
  repeat match goal with
         | E : flt ?u ?v = true |- _ => apply flt_true_R in E; [|assumption|assumption]
         | E : flt ?u ?v = false |- _ => apply flt_false_R in E; [|assumption|assumption]
         end; lra.

Lemma fminf_assoc_fin (a b x : f64) : fin a -> fin b -> fin x -> fminf (fminf a b) x = fminf a (fminf b x).
Proof.
  intros Fa Fb Fx. unfold gmin_step.
  destruct (flt b a) eqn:E1; destruct (flt x b) eqn:E2; destruct (flt x a) eqn:E3; rewrite ?E1, ?E2, ?E3; flt_cases.
Qed.
Lemma fmaxf_assoc_fin (a b x : f64) : fin a -> fin b -> fin x -> fmaxf (fmaxf a b) x = fmaxf a (fmaxf b x).
Proof.
  intros Fa Fb Fx. unfold gmax_step.
  destruct (flt a b) eqn:E1; destruct (flt b x) eqn:E2; destruct (flt a x) eqn:E3; rewrite ?E1, ?E2, ?E3; flt_cases.
Qed.

Lemma fminf_assoc (a b x : f64) : okmin a -> okmin b -> okmin x -> fminf (fminf a b) x = fminf a (fminf b x).
Proof.
  intros [-> | Fa] Hb Hx.
  - rewrite !fminf_pinf_l; [reflexivity|apply okmin_fminf; assumption|assumption].
  - destruct Hb as [-> | Fb].
    + now rewrite fminf_pinf_r, fminf_pinf_l.
    + destruct Hx as [-> | Fx]; [now rewrite !fminf_pinf_r|now apply fminf_assoc_fin].
Qed.
Lemma fmaxf_assoc (a b x : f64) : okmax a -> okmax b -> okmax x -> fmaxf (fmaxf a b) x = fmaxf a (fmaxf b x).
Proof.
  intros [-> | Fa] Hb Hx.
  - rewrite !fmaxf_ninf_l; [reflexivity|apply okmax_fmaxf; assumption|assumption].
  - destruct Hb as [-> | Fb].
    + now rewrite fmaxf_ninf_r, fmaxf_ninf_l.
    + destruct Hx as [-> | Fx]; [now rewrite !fmaxf_ninf_r|now apply fmaxf_assoc_fin].
Qed.

Lemma fold_fminf_shift (vs : list f64) : Forall (fun v => fin v) vs -> forall a b : f64, okmin a -> okmin b ->
  fold_left fminf vs (fminf a b) = fminf a (fold_left fminf vs b) /\ okmin (fold_left fminf vs b).
Proof.
  induction 1 as [|x t Fx Ft IH]; intros a b Ha Hb; [split; [reflexivity|exact Hb]|].
  cbn [fold_left]. rewrite fminf_assoc by (try assumption; right; exact Fx).
  apply IH; [exact Ha|apply okmin_fminf; [exact Hb|right; exact Fx]].
Qed.
Lemma fold_fmaxf_shift (vs : list f64) : Forall (fun v => fin v) vs -> forall a b : f64, okmax a -> okmax b ->
  fold_left fmaxf vs (fmaxf a b) = fmaxf a (fold_left fmaxf vs b) /\ okmax (fold_left fmaxf vs b).
Proof.
  induction 1 as [|x t Fx Ft IH]; intros a b Ha Hb; [split; [reflexivity|exact Hb]|].
  cbn [fold_left]. rewrite fmaxf_assoc by (try assumption; right; exact Fx).
  apply IH; [exact Ha|apply okmax_fmaxf; [exact Hb|right; exact Fx]].
Qed.

Lemma su_merge_fields (s o : summary) :
  su_count (su_merge s o) = fadd (su_count s) (su_count o) /\
  su_min (su_merge s o) = fminf (su_min s) (su_min o) /\
  su_max (su_merge s o) = fmaxf (su_max s) (su_max o).
Proof. exact (g_merge_fields f64 fadd fsub flt s o). Qed.

(* merging the statistics of two lists gives, bit for bit, the min and max of the concatenation *)
Theorem su_merge_minmax (l1 l2 : list (f64 * f64)) :
  Forall (fun vc => fin (fst vc)) l1 -> Forall (fun vc => fin (fst vc)) l2 ->
  su_min (su_merge (su_stats l1) (su_stats l2)) = su_min (su_stats (l1 ++ l2)) /\
  su_max (su_merge (su_stats l1) (su_stats l2)) = su_max (su_stats (l1 ++ l2)).
Proof.
  intros H1 H2.
  assert (Hv : forall l, Forall (fun vc : f64 * f64 => fin (fst vc)) l -> Forall (fun v => fin v) (map fst l)).
  { intros l H. apply Forall_forall. intros v Hin. apply in_map_iff in Hin. destruct Hin as (vc & <- & Hin).
    rewrite Forall_forall in H. exact (H vc Hin). }
  destruct (su_merge_fields (su_stats l1) (su_stats l2)) as (_ & -> & ->).
  destruct (su_stats_fields l1 su_new) as (_ & Emin1 & Emax1).
  destruct (su_stats_fields l2 su_new) as (_ & Emin2 & Emax2).
  destruct (su_stats_fields (l1 ++ l2) su_new) as (_ & Emin & Emax).
  unfold su_stats. rewrite Emin, Emax, Emin1, Emax1, Emin2, Emax2, !map_app, !fold_left_app.
  change (su_min su_new) with f64_pinf. change (su_max su_new) with f64_ninf.
  destruct (fold_fminf_shift (map fst l1) (Hv l1 H1) f64_pinf f64_pinf (or_introl eq_refl) (or_introl eq_refl)) as (_ & O1).
  destruct (fold_fmaxf_shift (map fst l1) (Hv l1 H1) f64_ninf f64_ninf (or_introl eq_refl) (or_introl eq_refl)) as (_ & O1').
  split.
  - destruct (fold_fminf_shift (map fst l2) (Hv l2 H2) (fold_left fminf (map fst l1) f64_pinf) f64_pinf O1 (or_introl eq_refl)) as (E & _).
    rewrite fminf_pinf_r in E. symmetry. exact E.
  - destruct (fold_fmaxf_shift (map fst l2) (Hv l2 H2) (fold_left fmaxf (map fst l1) f64_ninf) f64_ninf O1' (or_introl eq_refl)) as (E & _).
    rewrite fmaxf_ninf_r in E. symmetry. exact E.
Qed.

(* the merged count is the exact sum of the two counts when that sum is a bounded grid point *)
Theorem su_merge_count_exact (k : Z) (s o : summary) : 0 <= k <= 1074 ->
  fin (su_count s) -> fin (su_count o) -> grid53 k (f2q (su_count s) + f2q (su_count o)) ->
  fin (su_count (su_merge s o)) /\ f2q (su_count (su_merge s o)) = (f2q (su_count s) + f2q (su_count o))%Qc.
Proof.
  intros Hk Fs Fo Hg. destruct (su_merge_fields s o) as (-> & _). now apply (fadd_exact k).
Qed.

(* ================================================================== *)
(** * Part 3: the statistics field of the exact-variant sketch, after any history *)
(* ================================================================== *)
(* what DDSketchWithExactSummaryStatistics forwards: Add / AddWithCount (unit = true: Add(v)),
   MergeWith, Reweight, Clear, Copy *)
Inductive wop := WAdd (v c : f64) (unit : bool) | WMerge (o : sketch) | WReweight (w : f64) | WClear | WCopy.

Section Wrapper.
Variable fx : fixes.
Variable mt : mtable.

(* [None] = a panic (or a Reweight refused although the factor is > 0).  A refused Add (value outside
   the indexable range, NaN, negative count), a MergeWith refused for unequal mappings and a Reweight
   by a factor <= 0 return an error in Go and leave the sketch as it was *)
Definition wk_step (s : sketch) (x : wop) : option sketch :=
  match x with
  | WAdd v c u => match sk_add fx mt s v c u with ROk s' => Some s' | RErr _ => Some s | RPanic => None end
  | WMerge o => match sk_merge s o with ROk (s', _) => Some s' | RErr _ => Some s | RPanic => None end
  | WReweight w => if fle w f64_zero then Some s else match sk_reweight s w with ROk s' => Some s' | _ => None end
  | WClear => Some (sk_clear s)
  | WCopy => Some (sk_copy s)
  end.
Definition wk_run (s : sketch) (ops : list wop) : option sketch :=
  fold_left (fun acc x => match acc with Some s' => wk_step s' x | None => None end) ops (Some s).

(* the test AddWithCount applies to (value, count) before touching anything *)
Definition add_accepted (v c : f64) : bool :=
  negb (flt c f64_zero) &&
  (if flt (mt_min mt) v then negb (flt (mt_max mt) v)
   else if flt v (fneg (mt_min mt)) then negb (flt v (fneg (mt_max mt)))
   else negb (f_is_nan v)).
(* the image of the history on the statistics object: m is the mapping identity of the sketch *)
Definition su_step (m : mapid) (t : summary) (x : wop) : summary :=
  match x with
  | WAdd v c u => if negb u && feq c f64_zero then t else if add_accepted v c then su_add t v c else t
  | WMerge o => if map_equals m (sk_map o) then match sk_stats o with Some u => su_merge t u | None => t end else t
  | WReweight w => if fle w f64_zero then t else su_reweight t w
  | WClear => su_new
  | WCopy => t
  end.

Lemma plain_add_ok_inv (s s' : sketch) (v c : f64) :
  plain_add mt s v c = ROk s' -> add_accepted v c = true /\ sk_stats s' = sk_stats s /\ sk_map s' = sk_map s.
Proof.
  unfold plain_add, add_accepted. destruct (flt c f64_zero); [discriminate|]. cbn [negb andb].
  destruct (flt (mt_min mt) v).
  - destruct (flt (mt_max mt) v); [discriminate|].
    destruct (st_addw (sk_pos s) _ _); [|discriminate]. intros H. injection H as <-. repeat split.
  - destruct (flt v (fneg (mt_min mt))).
    + destruct (flt v (fneg (mt_max mt))); [discriminate|].
      destruct (st_addw (sk_neg s) _ _); [|discriminate]. intros H. injection H as <-. repeat split.
    + destruct (f_is_nan v); [discriminate|]. intros H. injection H as <-. repeat split.
Qed.
Lemma plain_add_err_inv (s : sketch) (v c : f64) (e : err) :
  plain_add mt s v c = RErr e -> add_accepted v c = false.
Proof.
  unfold plain_add, add_accepted. destruct (flt c f64_zero); [reflexivity|]. cbn [negb andb].
  destruct (flt (mt_min mt) v).
  - destruct (flt (mt_max mt) v); [reflexivity|]. destruct (st_addw (sk_pos s) _ _); discriminate.
  - destruct (flt v (fneg (mt_min mt))).
    + destruct (flt v (fneg (mt_max mt))); [reflexivity|]. destruct (st_addw (sk_neg s) _ _); discriminate.
    + destruct (f_is_nan v); [reflexivity|discriminate].
Qed.

(* one operation: the statistics field is updated exactly as [su_step] says, whatever the stores
   hold (no invariant needed), for the repaired and the unrepaired weight-0 shortcut alike *)
Theorem wk_step_stats (s s' : sketch) (t : summary) (x : wop) :
  wk_step s x = Some s' -> sk_stats s = Some t ->
  sk_stats s' = Some (su_step (sk_map s) t x) /\ sk_map s' = sk_map s.
Proof.
  intros H Ht. destruct x as [v c u|o|w| |]; cbn [wk_step su_step] in *.
  - unfold sk_add in H. rewrite Ht in H.
    destruct (negb u && negb (fD7 fx) && feq c f64_zero) eqn:E0.
    + injection H as <-. apply andb_prop in E0. destruct E0 as (E0 & E1). apply andb_prop in E0. destruct E0 as (E0 & _).
      rewrite E0, E1. cbn [andb]. split; [exact Ht|reflexivity].
    + destruct (plain_add mt s v c) as [s0|e|] eqn:Ep; [| |discriminate].
      * destruct (plain_add_ok_inv _ _ _ _ Ep) as (Ea & Es & Em). rewrite Ea.
        destruct (negb u && feq c f64_zero); injection H as <-.
        -- split; [congruence|exact Em].
        -- split; [reflexivity|exact Em].
      * injection H as <-. rewrite (plain_add_err_inv _ _ _ _ Ep).
        destruct (negb u && feq c f64_zero); split; (exact Ht || reflexivity).
  - unfold sk_merge in H. destruct (map_equals (sk_map s) (sk_map o)); cbn [negb] in H.
    + destruct (st_merge (sk_pos s) (sk_pos o)) as [[p' op']|]; [|discriminate].
      destruct (st_merge (sk_neg s) (sk_neg o)) as [[n' on']|]; [|discriminate].
      injection H as <-. cbn [sk_stats sk_map]. rewrite Ht. split; [|reflexivity].
      destruct (sk_stats o); reflexivity.
    + injection H as <-. split; [exact Ht|reflexivity].
  - destruct (fle w f64_zero) eqn:Ew.
    + injection H as <-. split; [exact Ht|reflexivity].
    + unfold sk_reweight in H. rewrite Ew, Ht in H. destruct (feq w f64_one).
      * injection H as <-. split; reflexivity.
      * cbv zeta in H. destruct (st_reweight (sk_pos s) (f2q w)); try discriminate.
        destruct (st_reweight (sk_neg s) (f2q w)); try discriminate. injection H as <-. split; reflexivity.
  - injection H as <-. unfold sk_clear. cbn [sk_stats sk_map]. rewrite Ht. split; reflexivity.
  - injection H as <-. split; [exact Ht|reflexivity].
Qed.

Lemma wk_run_cons (s : sketch) (x : wop) (ops : list wop) :
  wk_run s (x :: ops) = match wk_step s x with Some s1 => wk_run s1 ops | None => None end.
Proof.
  unfold wk_run. cbn [fold_left]. destruct (wk_step s x); [reflexivity|].
  induction ops as [|y ops IH]; [reflexivity|exact IH].
Qed.

(* after ANY history that did not panic: the statistics field is the fold of the forwarded operations *)
Theorem wk_stats_history (ops : list wop) : forall (s s' : sketch) (t : summary),
  wk_run s ops = Some s' -> sk_stats s = Some t ->
  sk_stats s' = Some (fold_left (su_step (sk_map s)) ops t) /\ sk_map s' = sk_map s.
Proof.
  induction ops as [|x ops IH]; intros s s' t H Ht.
  - injection H as <-. split; [exact Ht|reflexivity].
  - rewrite wk_run_cons in H. destruct (wk_step s x) as [s1|] eqn:E1; [|discriminate].
    destruct (wk_step_stats s s1 t x E1 Ht) as (Ht1 & Em1).
    destruct (IH s1 s' _ H Ht1) as (Ht' & Em'). rewrite Em1 in Ht', Em'. split; [exact Ht'|exact Em'].
Qed.

(* refused additions leave everything unchanged; accepted ones reach Add(v, c) of the statistics *)
Corollary wk_rejected_add (s : sketch) (v c : f64) (u : bool) (e : err) :
  sk_add fx mt s v c u = RErr e -> wk_step s (WAdd v c u) = Some s.
Proof. intros H. cbn [wk_step]. rewrite H. reflexivity. Qed.

(* the plain sketch does not look at the statistics: the plain variant of the same history *)
Definition kop_of (x : wop) : kop :=
  match x with
  | WAdd v c _ => KAdd v c | WMerge o => KMerge o | WReweight w => KReweight w | WClear => KClear | WCopy => KCopy
  end.
Definition wop_ok (m : mapid) (x : wop) : Prop := kop_ok m (kop_of x).

(* no panic, invariant, and the bins evolve as in Layer A (repaired weight-0 shortcut) *)
Theorem wk_step_refines (s : sketch) (x : wop) :
  fD7 fx = true -> mt_ok mt -> SkInv s -> wop_ok (sk_map s) x ->
  exists s', wk_step s x = Some s' /\ SkInv s' /\ sk_same s s' /\
             sk_abs s' = a_step (am_of mt) (sk_lp s) (sk_ln s) (sk_abs s) (kop_of x).
Proof.
  intros F7 Hm Hs Hx. destruct x as [v c u|o|w| |]; unfold wop_ok in Hx; cbn [kop_of kop_ok wk_step a_step] in *.
  - destruct Hx as (Fv & Fc & Hc). pose proof (sk_add_refines fx mt s v c u F7 Hm Hs Fv Fc Hc) as H.
    destruct (a_add (am_of mt) (sk_lp s) (sk_ln s) (sk_abs s) (f2q v) (f2q c)) as [a'| | ].
    + destruct H as (s' & E & I' & K & A). exists s'. rewrite E. auto.
    + rewrite H. exists s. split; [reflexivity|]. split; [exact Hs|]. split; [apply sk_same_refl|reflexivity].
    + rewrite H. exists s. split; [reflexivity|]. split; [exact Hs|]. split; [apply sk_same_refl|reflexivity].
  - destruct Hx as [Ho Hmap]. destruct (sk_merge_refines s o Hs Ho Hmap) as (s' & o' & E & I' & _ & K & _ & A & _).
    exists s'. rewrite E. auto.
  - destruct Hx as [Fw Hw]. destruct (sk_reweight_refines s w Hs Fw Hw) as (s' & E & I' & K & A).
    exists s'. rewrite Hw, E. auto.
  - exists (sk_clear s). destruct (sk_clear_refines s Hs) as (I' & K & A). auto.
  - exists s. split; [reflexivity|]. split; [exact Hs|]. split; [apply sk_same_refl|reflexivity].
Qed.

Theorem wk_run_refines (ops : list wop) : forall s : sketch,
  fD7 fx = true -> mt_ok mt -> SkInv s -> Forall (wop_ok (sk_map s)) ops ->
  exists s', wk_run s ops = Some s' /\ SkInv s' /\ sk_same s s' /\
             sk_abs s' = a_run (am_of mt) (sk_lp s) (sk_ln s) (sk_abs s) (map kop_of ops).
Proof.
  induction ops as [|x ops IH]; intros s F7 Hm Hs Hops.
  - exists s. split; [reflexivity|]. split; [exact Hs|]. split; [apply sk_same_refl|reflexivity].
  - inversion Hops as [|x' ops' Hx Hops']; subst x' ops'.
    destruct (wk_step_refines s x F7 Hm Hs Hx) as (s1 & E1 & I1 & K1 & A1).
    assert (Hops1 : Forall (wop_ok (sk_map s1)) ops) by (destruct K1 as (M & _); now rewrite M).
    destruct (IH s1 F7 Hm I1 Hops1) as (s' & E' & I' & K' & A').
    exists s'. rewrite wk_run_cons, E1. split; [exact E'|]. split; [exact I'|].
    split; [eapply sk_same_trans; eassumption|].
    rewrite A', (sk_same_lp _ _ K1), (sk_same_ln _ _ K1), A1. reflexivity.
Qed.

(* from a new exact-variant sketch: never a panic, bins = Layer A history, statistics = su-fold *)
Theorem wk_history (m : mapid) (kp kn : kind) (ops : list wop) :
  fD7 fx = true -> mt_ok mt -> kind_ok kp -> kind_ok kn -> Forall (wop_ok m) ops ->
  exists s, wk_run (sk_new m kp kn true) ops = Some s /\ SkInv s /\ sk_map s = m /\
            sk_abs s = a_run (am_of mt) (kind_limit kp) (kind_limit kn) a_new (map kop_of ops) /\
            sk_stats s = Some (fold_left (su_step m) ops su_new).
Proof.
  intros F7 Hm Hp Hn Hops.
  destruct (wk_run_refines ops (sk_new m kp kn true) F7 Hm (SkInv_new m kp kn true Hp Hn) Hops) as (s & E & I' & K & A).
  destruct (wk_stats_history ops _ _ su_new E eq_refl) as (Et & Em).
  exists s. split; [exact E|]. split; [exact I'|]. split; [exact Em|]. split; [|exact Et].
  rewrite A, sk_abs_new. unfold sk_lp, sk_ln. cbn [sk_new sk_pos sk_neg]. rewrite !st_limit_new. reflexivity.
Qed.

(* add-only histories: the statistics are [su_stats] of the accepted additions (Part 2 applies) *)
Fixpoint accepted_adds (ops : list wop) : list (f64 * f64) :=
  match ops with
  | [] => []
  | WAdd v c u :: tl =>
    if negb u && feq c f64_zero then accepted_adds tl
    else if add_accepted v c then (v, c) :: accepted_adds tl else accepted_adds tl
  | _ :: tl => accepted_adds tl
  end.
Definition adds_only (ops : list wop) : Prop := Forall (fun x => match x with WAdd _ _ _ => True | _ => False end) ops.
Lemma su_step_adds (m : mapid) (ops : list wop) : adds_only ops -> forall t : summary,
  fold_left (su_step m) ops t = su_stats_from (accepted_adds ops) t.
Proof.
  induction 1 as [|x ops Hx _ IH]; intros t; [reflexivity|].
  destruct x as [v c u| | | |]; try destruct Hx. cbn [fold_left su_step accepted_adds].
  destruct (negb u && feq c f64_zero); [apply IH|]. destruct (add_accepted v c); [|apply IH].
  cbn [su_stats_from fold_left fst snd]. apply IH.
Qed.
End Wrapper.

(* ================================================================== *)
(** * Part 4: Layer B MergeWithProto / ToProto / FromProto             *)
(* ================================================================== *)
(* int32 indexes: the map keys, and the first and last index of the contiguous block *)
Definition pb_idx_ok (p : pb_store) : Prop :=
  Forall (fun kv => idx_ok (fst kv)) (bin_counts p) /\
  (contiguous_counts p = [] \/
   (idx_ok (contiguous_offset p) /\ idx_ok (contiguous_offset p + Z.of_nat (length (contiguous_counts p)) - 1))).

Lemma contig_content_in (l : list f64) : forall (o k : Z) (w : W),
  In (k, w) (contig_content o l) -> o <= k < o + Z.of_nat (length l).
Proof.
  induction l as [|x t IH]; intros o k w H; [destruct H|].
  cbn [contig_content length] in *. destruct H as [E|H].
  - injection E as <- _. lia.
  - apply IH in H. lia.
Qed.

Lemma store_content_bins_ok (p : pb_store) : pb_idx_ok p -> ProtoProofs.pb_nonneg p -> DenseProofs.bins_ok (store_content p).
Proof.
  intros (Hk & Hc) Hn k w Hin. split.
  - unfold store_content in Hin. apply in_app_or in Hin. destruct Hin as [Hin|Hin].
    + unfold entries_content in Hin. apply in_map_iff in Hin. destruct Hin as (kv & E & Hin). injection E as <- _.
      rewrite Forall_forall in Hk. exact (Hk kv Hin).
    + pose proof (contig_content_in _ _ _ _ Hin) as Hr. destruct Hc as [Hc|(H1 & H2)].
      * rewrite Hc in Hin. destruct Hin.
      * unfold idx_ok in *. lia.
  - unfold ProtoProofs.pb_nonneg, nonneg in Hn. rewrite Forall_forall in Hn. exact (Hn (k, w) Hin).
Qed.

(* MergeWithProto into a receiver of ANY of the five kinds refines Layer A merge_with_proto *)
Theorem st_from_proto_refines (s : store) (p : pb_store) :
  StInv s -> DenseProofs.bins_ok (store_content p) ->
  exists s', st_merge_with_proto s p = Some s' /\ StInv s' /\ st_kind s' = st_kind s /\
             st_abs s' = norm (st_limit s) (merge_with_proto (st_abs s) p).
Proof.
  intros H Hb. destruct (st_add_list_spec (store_content p) s H Hb) as (s' & E & I' & K & A).
  exists s'. split; [exact E|]. split; [exact I'|]. split; [exact K|].
  rewrite A. unfold merge_with_proto. apply smerge_list_st_norm; [exact H|].
  unfold nonneg. apply Forall_forall. intros [k w] Hin. exact (proj2 (Hb k w Hin)).
Qed.
Corollary st_from_proto_msg (s : store) (p : pb_store) :
  StInv s -> pb_idx_ok p -> ProtoProofs.pb_nonneg p ->
  exists s', st_merge_with_proto s p = Some s' /\ StInv s' /\ st_kind s' = st_kind s /\
             st_abs s' = norm (st_limit s) (merge_with_proto (st_abs s) p).
Proof. intros H Hi Hn. apply st_from_proto_refines; [exact H|now apply store_content_bins_ok]. Qed.

Lemma pb_map_view_incl (l : list (Z * f64)) (kv : Z * f64) : In kv (pb_map_view l) -> In kv l.
Proof.
  induction l as [|x t IH]; [intros []|]. cbn [pb_map_view].
  destruct (existsb _ t); [intros H; right; exact (IH H)|intros [<- | H]; [left; reflexivity|right; exact (IH H)]].
Qed.
Corollary st_from_proto_go (s : store) (p : pb_store) :
  StInv s -> pb_idx_ok p -> ProtoProofs.pb_nonneg p ->
  exists s', st_merge_with_proto_go s p = Some s' /\ StInv s' /\ st_kind s' = st_kind s /\
             st_abs s' = norm (st_limit s) (merge_with_proto_go (st_abs s) p).
Proof.
  intros H (Hk & Hc) Hn. apply (st_from_proto_refines s (pb_go_view p) H).
  intros k w Hin. unfold store_content, pb_go_view in Hin. cbn [bin_counts contiguous_counts contiguous_offset] in Hin.
  apply (store_content_bins_ok p (conj Hk Hc) Hn k w). unfold store_content.
  apply in_app_or in Hin. apply in_or_app. destruct Hin as [Hin|Hin]; [left|right; exact Hin].
  unfold entries_content in *. apply in_map_iff in Hin. destruct Hin as (kv & E & Hin).
  apply in_map_iff. exists kv. split; [exact E|apply pb_map_view_incl; exact Hin].
Qed.

(* ---- ToProto of the five kinds ---- *)
Definition st_proto_form (s : store) : pb_store :=
  match s with SD _ => to_proto_dense (st_abs s) | _ => to_proto_sparse (st_abs s) end.

Theorem st_to_proto_spec (s : store) : StInv s -> st_to_proto s = Some (st_proto_form s).
Proof.
  intros H. destruct s as [d|m|p]; cbn [st_to_proto st_proto_form].
  - pose proof (StInv_SD_winv d H) as W. unfold CollapsingProofs.WInv in W.
    destruct (ProtoProofs.dense_to_proto _ W) as (r & E & Er).
    change (Dense.to_proto_d (CollapsingProofs.as_exact d)) with (Dense.to_proto_d d) in E.
    change (DenseProofs.dabs (CollapsingProofs.as_exact d)) with (DenseProofs.dabs d) in Er.
    rewrite E. cbn [option_map]. rewrite Er, (st_abs_content _ H). reflexivity.
  - destruct (st_foreach_spec _ H) as (s' & l & E & _ & _ & _ & El & _). rewrite E. cbn [option_map snd]. now rewrite El.
  - destruct (st_foreach_spec _ H) as (s' & l & E & _ & _ & _ & El & _). rewrite E. cbn [option_map snd]. now rewrite El.
Qed.

Lemma keys_ok_Forall (b : list (Z * W)) : keys_ok b -> ProtoProofs.keys_ok b.
Proof. intros H. apply Forall_forall. intros [k w] Hin. exact (H k w Hin). Qed.

Lemma st_proto_form_ok (s : store) : StInv s -> ProtoProofs.f64_weights (st_abs s) ->
  DenseProofs.bins_ok (store_content (st_proto_form s)) /\ ProtoProofs.store_ok (st_proto_form s) /\
  pb_map_view (bin_counts (st_proto_form s)) = bin_counts (st_proto_form s) /\
  forall r, wf r = true -> pos r -> merge_with_proto r (st_proto_form s) = bmerge r (st_abs s).
Proof.
  intros H Hf. pose proof (st_abs_wf s H) as Hw. pose proof (st_abs_pos s H) as Hp.
  pose proof (st_abs_keys_ok s H) as Hk. pose proof (st_abs_bins_ok s H) as Hbo.
  remember (st_abs s) as b eqn:Eb0.
  assert (Hsparse : DenseProofs.bins_ok (store_content (to_proto_sparse b)) /\ ProtoProofs.store_ok (to_proto_sparse b) /\
    pb_map_view (bin_counts (to_proto_sparse b)) = bin_counts (to_proto_sparse b) /\
    forall r, wf r = true -> pos r -> merge_with_proto r (to_proto_sparse b) = bmerge r b).
  { split; [rewrite ProtoProofs.content_sparse by exact Hf; exact Hbo|].
    split; [apply ProtoProofs.store_ok_sparse; apply keys_ok_Forall; exact Hk|]. split.
    - apply ProtoProofs.pb_map_view_nodup. cbn [to_proto_sparse bin_counts]. rewrite map_map. cbn [fst].
      apply ProtoProofs.wf_nodup. exact Hw.
    - intros r Hr Hpr. apply ProtoProofs.merge_sparse_into; try assumption. apply Permutation_refl. }
  destruct s as [d|m|p]; cbn [st_proto_form]; rewrite <- Eb0; try exact Hsparse. clear Hsparse Eb0.
  split; [|split; [apply ProtoProofs.store_ok_dense; apply keys_ok_Forall; exact Hk|split;
    [unfold to_proto_dense; destruct (min_key b), (max_key b); reflexivity|]]].
  - destruct b as [|kw tl] eqn:Eb; [intros k w []|]. rewrite <- Eb in *.
    assert (Hne : b <> []) by (rewrite Eb; discriminate).
    destruct (min_key_some b Hne) as [mn Hmn]. destruct (max_key_some b Hne) as [mx Hmx].
    rewrite (ProtoProofs.content_dense b mn mx Hf Hmn Hmx). intros k w Hin.
    apply in_map_iff in Hin. destruct Hin as (i & E & Hi). injection E as <- <-. apply in_zrange in Hi.
    split; [|apply get_nonneg; apply pos_nonneg; exact Hp].
    destruct (min_key_spec b mn Hw Hmn) as (N1 & _). destruct (max_key_spec b mx Hw Hmx) as (N2 & _).
    apply get_neq0_In in N1, N2. apply in_map_iff in N1, N2.
    destruct N1 as ([k1 w1] & E1 & I1). destruct N2 as ([k2 w2] & E2 & I2). cbn [fst] in E1, E2. subst k1 k2.
    pose proof (Hk _ _ I1) as O1. pose proof (Hk _ _ I2) as O2. unfold idx_ok in *. lia.
  - intros r Hr Hpr. apply ProtoProofs.merge_dense_into; assumption.
Qed.

(* a store of any kind -> message -> a store of any kind: the receiver absorbs the content as MergeWith
   would (its own normal form applied); into a new store it is the content itself, re-normalised *)
Theorem st_proto_roundtrip (s r : store) :
  StInv s -> StInv r -> ProtoProofs.f64_weights (st_abs s) ->
  exists p r', st_to_proto s = Some p /\ st_merge_with_proto_go r p = Some r' /\ StInv r' /\ st_kind r' = st_kind r /\
               st_abs r' = norm (st_limit r) (bmerge (st_abs r) (st_abs s)).
Proof.
  intros Hs Hr Hf. destruct (st_proto_form_ok s Hs Hf) as (Hb & _ & Hv & Hm).
  exists (st_proto_form s). unfold st_merge_with_proto_go.
  assert (Ev : pb_go_view (st_proto_form s) = st_proto_form s).
  { unfold pb_go_view. rewrite Hv. destruct (st_proto_form s); reflexivity. }
  rewrite Ev. destruct (st_from_proto_refines r (st_proto_form s) Hr Hb) as (r' & E & I' & K & A).
  exists r'. split; [now apply st_to_proto_spec|]. split; [exact E|]. split; [exact I'|]. split; [exact K|].
  rewrite A, (Hm (st_abs r) (st_abs_wf r Hr) (st_abs_pos r Hr)). reflexivity.
Qed.

(* ---- the sketch ---- *)
Definition mapid_valid (m : mapid) : Prop :=
  (mk_kind m = 0 \/ mk_kind m = 1 \/ mk_kind m = 3)%N /\ fle (mk_gamma m) f64_one = false.

Lemma mapid_roundtrip (m : mapid) : mapid_of_pb (pb_of_mapid m) = m.
Proof. destruct m; reflexivity. Qed.

Lemma norm_new_merge (k : kind) (b : bins) : wf b = true -> pos b ->
  norm (st_limit (st_new k)) (bmerge (st_abs (st_new k)) b) = norm (kind_limit k) b.
Proof. intros Hw Hp. rewrite st_abs_new, st_limit_new, bmerge_nil_l by assumption. reflexivity. Qed.

(* any sketch -> message -> sketch with stores of any two kinds: same mapping identity (bit for bit),
   same zero weight, same bins (normalised by the new stores' limits: the identity for the three
   non-collapsing kinds) *)
Theorem sk_proto_roundtrip (s : sketch) (kp kn : kind) :
  SkInv s -> kind_ok kp -> kind_ok kn -> mapid_valid (sk_map s) ->
  ProtoProofs.f64_weights (st_abs (sk_pos s)) -> ProtoProofs.f64_weights (st_abs (sk_neg s)) ->
  rnd64 (sk_zero s) = sk_zero s ->
  exists msg s', sk_to_proto s = Some msg /\ sk_from_proto kp kn msg = ROk s' /\
    SkInv s' /\ sk_map s' = sk_map s /\ sk_zero s' = sk_zero s /\ sk_stats s' = None /\
    st_kind (sk_pos s') = kp /\ st_kind (sk_neg s') = kn /\
    st_abs (sk_pos s') = norm (kind_limit kp) (st_abs (sk_pos s)) /\
    st_abs (sk_neg s') = norm (kind_limit kn) (st_abs (sk_neg s)).
Proof.
  intros (Hp & Hn & Hz) Kp Kn (Mk & Mg) Fp Fn Fz.
  destruct (st_proto_roundtrip (sk_pos s) (st_new kp) Hp (StInv_new kp Kp) Fp) as (pp & p' & Ep & Mp & Ip & Kp' & Ap).
  destruct (st_proto_roundtrip (sk_neg s) (st_new kn) Hn (StInv_new kn Kn) Fn) as (pn & n' & En & Mn & In' & Kn' & An).
  unfold sk_to_proto. rewrite Ep, En. eexists. eexists. split; [reflexivity|].
  unfold sk_from_proto. cbn [ps_mapping ps_pos ps_neg ps_zero pb_of_mapid pm_interp pm_gamma].
  assert (Ek : negb ((mk_kind (sk_map s) =? 0) || (mk_kind (sk_map s) =? 1) || (mk_kind (sk_map s) =? 3))%N = false)
    by (destruct Mk as [-> | [-> | ->]]; reflexivity).
  rewrite Ek, Mg, Mp, Mn. split; [reflexivity|].
  cbn [sk_map sk_pos sk_neg sk_zero sk_stats]. unfold SkInv. cbn [sk_pos sk_neg sk_zero].
  rewrite st_kind_new in Kp', Kn'. fold (rnd64 (sk_zero s)). rewrite Fz.
  rewrite norm_new_merge in Ap by (now apply st_abs_wf || now apply st_abs_pos).
  rewrite norm_new_merge in An by (now apply st_abs_wf || now apply st_abs_pos).
  change (mapid_of_pb _) with (mapid_of_pb (pb_of_mapid (sk_map s))). rewrite mapid_roundtrip. auto 12.
Qed.

(* non-collapsing target kinds: the abstraction is reproduced exactly *)
Corollary sk_proto_roundtrip_exact (s : sketch) (kp kn : kind) :
  SkInv s -> kind_limit kp = Exact -> kind_limit kn = Exact -> kind_ok kp -> kind_ok kn -> mapid_valid (sk_map s) ->
  ProtoProofs.f64_weights (st_abs (sk_pos s)) -> ProtoProofs.f64_weights (st_abs (sk_neg s)) ->
  rnd64 (sk_zero s) = sk_zero s ->
  exists msg s', sk_to_proto s = Some msg /\ sk_from_proto kp kn msg = ROk s' /\
    SkInv s' /\ sk_map s' = sk_map s /\ sk_abs s' = sk_abs s.
Proof.
  intros Hs Lp Ln Kp Kn Mv Fp Fn Fz.
  destruct (sk_proto_roundtrip s kp kn Hs Kp Kn Mv Fp Fn Fz) as (msg & s' & E1 & E2 & I' & Em & Ez & _ & _ & _ & Ap & An).
  exists msg, s'. split; [exact E1|]. split; [exact E2|]. split; [exact I'|]. split; [exact Em|].
  unfold sk_abs. rewrite Ap, An, Ez, Lp, Ln. reflexivity.
Qed.

(* ================================================================== *)
(** * Part 5: Reweight / Rescale of the binary64 statistics            *)
(* ================================================================== *)
Lemma f2q_pos_flt (w : f64) : fin w -> (w0 < f2q w)%Qc -> flt f64_zero w = true /\ feq w f64_zero = false /\ fle w f64_zero = false.
Proof.
  intros Fw Hw. pose proof f64_zero_finite as F0. unfold f_is_finite in F0.
  split; [apply (flt_iff f64_zero w F0 Fw); rewrite f2q_f64_zero; exact Hw|]. split.
  - destruct (feq w f64_zero) eqn:E; [|reflexivity]. apply (feq_iff w f64_zero Fw F0) in E.
    rewrite f2q_f64_zero in E. rewrite E in Hw. exfalso. exact (Qcle_not_lt _ _ (Qcle_refl w0) Hw).
  - destruct (fle w f64_zero) eqn:E; [|reflexivity]. apply (fle_iff w f64_zero Fw F0) in E.
    rewrite f2q_f64_zero in E. exfalso. exact (Qcle_not_lt _ _ E Hw).
Qed.

Lemma su_reweight_fields (t : summary) (w : f64) :
  su_count (su_reweight t w) = fmul (su_count t) w /\ su_sum (su_reweight t w) = fmul (su_sum t) w /\
  su_comp (su_reweight t w) = fmul (su_comp t) w /\ su_simple (su_reweight t w) = fmul (su_simple t) w /\
  su_min (su_reweight t w) = (if feq w f64_zero then f64_pinf else su_min t) /\
  su_max (su_reweight t w) = (if feq w f64_zero then f64_ninf else su_max t).
Proof. repeat split. Qed.

(* Reweight by a finite w > 0: min and max are untouched (bit for bit); count and sum are multiplied
   exactly whenever the exact product is a bounded grid point *)
Theorem su_reweight_exact (t : summary) (w : f64) : fin w -> (w0 < f2q w)%Qc ->
  su_min (su_reweight t w) = su_min t /\ su_max (su_reweight t w) = su_max t /\
  (forall k, 0 <= k <= 1074 -> fin (su_count t) -> grid53 k (f2q (su_count t) * f2q w) ->
     fin (su_count (su_reweight t w)) /\ f2q (su_count (su_reweight t w)) = (f2q (su_count t) * f2q w)%Qc) /\
  (forall k, 0 <= k <= 1074 -> fin (su_sum t) -> grid53 k (f2q (su_sum t) * f2q w) ->
     fin (su_sum (su_reweight t w)) /\ f2q (su_sum (su_reweight t w)) = (f2q (su_sum t) * f2q w)%Qc).
Proof.
  intros Fw Hw. destruct (f2q_pos_flt w Fw Hw) as (_ & Eq & _).
  destruct (su_reweight_fields t w) as (Ec & Es & _ & _ & Emin & Emax). rewrite Emin, Emax, Ec, Es, Eq.
  split; [reflexivity|]. split; [reflexivity|]. split; intros k Hk F Hg; now apply (fmul_exact k).
Qed.

Lemma fmul_pinf_pos (f : f64) : flt f64_zero f = true -> fin f -> fmul f64_pinf f = f64_pinf.
Proof. destruct f as [s|s|s pl e|[|] m e Hb]; intros H F; try discriminate H; try discriminate F; reflexivity. Qed.
Lemma fmul_ninf_pos (f : f64) : flt f64_zero f = true -> fin f -> fmul f64_ninf f = f64_ninf.
Proof. destruct f as [s|s|s pl e|[|] m e Hb]; intros H F; try discriminate H; try discriminate F; reflexivity. Qed.

Lemma su_rescale_pos_fields (t : summary) (f : f64) : flt f64_zero f = true ->
  su_count (su_rescale t f) = su_count t /\ su_sum (su_rescale t f) = fmul (su_sum t) f /\
  su_min (su_rescale t f) = fmul (su_min t) f /\ su_max (su_rescale t f) = fmul (su_max t) f.
Proof. intros H. unfold su_rescale, g_rescale. rewrite H. repeat split. Qed.

(* Rescale (change of unit) by a finite f > 0: count untouched; sum, min, max multiplied, exactly
   whenever the exact product is a bounded grid point; the sentinels of an empty summary stay *)
Theorem su_rescale_exact (t : summary) (f : f64) : fin f -> (w0 < f2q f)%Qc ->
  su_count (su_rescale t f) = su_count t /\
  (forall k, 0 <= k <= 1074 -> fin (su_sum t) -> grid53 k (f2q (su_sum t) * f2q f) ->
     fin (su_sum (su_rescale t f)) /\ f2q (su_sum (su_rescale t f)) = (f2q (su_sum t) * f2q f)%Qc) /\
  (forall k, 0 <= k <= 1074 -> fin (su_min t) -> grid53 k (f2q (su_min t) * f2q f) ->
     fin (su_min (su_rescale t f)) /\ f2q (su_min (su_rescale t f)) = (f2q (su_min t) * f2q f)%Qc) /\
  (forall k, 0 <= k <= 1074 -> fin (su_max t) -> grid53 k (f2q (su_max t) * f2q f) ->
     fin (su_max (su_rescale t f)) /\ f2q (su_max (su_rescale t f)) = (f2q (su_max t) * f2q f)%Qc) /\
  (su_min t = f64_pinf -> su_min (su_rescale t f) = f64_pinf) /\
  (su_max t = f64_ninf -> su_max (su_rescale t f) = f64_ninf).
Proof.
  intros Ff Hf. destruct (f2q_pos_flt f Ff Hf) as (Ez & _ & _).
  destruct (su_rescale_pos_fields t f Ez) as (Ec & Es & Emin & Emax). rewrite Ec, Es, Emin, Emax.
  split; [reflexivity|].
  split; [intros k Hk F Hg; now apply (fmul_exact k)|].
  split; [intros k Hk F Hg; now apply (fmul_exact k)|].
  split; [intros k Hk F Hg; now apply (fmul_exact k)|].
  split; intros ->; [now apply fmul_pinf_pos|now apply fmul_ninf_pos].
Qed.

(* the wrapper forwards Reweight to the statistics (Part 3) : the sketch-level statement *)
Theorem sk_reweight_stats (s s' : sketch) (t : summary) (w : f64) :
  sk_reweight s w = ROk s' -> sk_stats s = Some t -> sk_stats s' = Some (su_reweight t w).
Proof.
  intros H Ht. unfold sk_reweight in H. destruct (fle w f64_zero); [discriminate|]. rewrite Ht in H.
  destruct (feq w f64_one).
  - injection H as <-. reflexivity.
  - cbv zeta in H. destruct (st_reweight (sk_pos s) (f2q w)); try discriminate.
    destruct (st_reweight (sk_neg s) (f2q w)); try discriminate. injection H as <-. reflexivity.
Qed.

(* ================================================================== *)
(** * Part 6: helpers for the concrete examples of Props/Misc.v        *)
(* ================================================================== *)
(* f64_weights is decidable by computation *)
Lemma f64_weights_of_exactb (l : list (Z * W)) :
  forallb (fun kw => exactb (snd kw)) l = true -> ProtoProofs.f64_weights l.
Proof.
  intros H. unfold ProtoProofs.f64_weights. apply Forall_forall. intros kw Hin.
  rewrite forallb_forall in H. specialize (H kw Hin). unfold exactb in H. apply weqb_eq in H. exact H.
Qed.

(* a toy mapping table (floor as the index, indexable range (2^-10, 1024]) and a valid mapping identity *)
Definition mx_f (b : N) : f64 := f64_of_bits b.
Definition mx_mt : mtable :=
  {| mt_index := fun q => Qnum (this q) / Zpos (Qden (this q)); mt_value := fun i => w_of_Z (Z.max 1 i);
     mt_min := mx_f 4562146422526312448; mt_max := mx_f 4652218415073722368 |}.
Lemma mx_mt_ok : mt_ok mx_mt.
Proof.
  split; [vm_compute; reflexivity|]. split; [vm_compute; reflexivity|].
  assert (Emin : f2q (mt_min mx_mt) = Q2Qc (1 # 1024)) by (apply Qc_is_canon; vm_compute; reflexivity).
  assert (Emax : f2q (mt_max mx_mt) = Q2Qc (1024 # 1)) by (apply Qc_is_canon; vm_compute; reflexivity).
  rewrite Emin, Emax. intros x Hlo Hhi. cbn [mx_mt mt_index].
  unfold Qclt, Qcle in Hlo, Hhi. change (this (Q2Qc (1 # 1024))) with (1 # 1024)%Q in Hlo.
  change (this (Q2Qc (1024 # 1))) with (1024 # 1)%Q in Hhi.
  unfold Qlt in Hlo. unfold Qle in Hhi. cbn [Qnum Qden] in Hlo, Hhi.
  set (n := Qnum (this x)) in *. set (d := Qden (this x)) in *.
  assert (H0 : 0 <= n / Z.pos d) by (apply Z.div_pos; lia).
  assert (H1 : n / Z.pos d <= 1024) by (apply Z.div_le_upper_bound; lia).
  unfold idx_ok, MinInt32, MaxInt32. lia.
Qed.
