(* C17 — [changeStoreMapping] (ddsketch/ddsketch.go) written ONCE over an abstract arithmetic and
   instantiated twice:

     * on exact rationals [Qc]: this instance IS the ideal model of Sketch/ChangeMapping.v
       (ChangeMappingGProofs.v: [gx_adds_loop_ideal], [gx_bin_adds_ideal], [gx_store_adds_ideal]), so
       every theorem of Props/ChangeMapping.v is a theorem about the skeleton below;
     * on Flocq binary64 with the bit-exact mappings of Mapping/Glue.v: this instance runs in lockstep
       against the implementation (instruction `kchtrace`): every AddWithCount call that
       changeStoreMapping makes (index and weight, bit for bit) is compared.

   The Go text transcribed (after commit e1377b7; [guard = false] is the text before it):

     oldStore.ForEach(func(index int, count float64) (stop bool) {
         inLowerBound := oldMapping.LowerBound(index) * scaleFactor
         inHigherBound := oldMapping.LowerBound(index+1) * scaleFactor
         inSize := inHigherBound - inLowerBound
         for outIndex := newMapping.Index(inLowerBound); newMapping.LowerBound(outIndex) < inHigherBound; outIndex++ {
             outLowerBound := newMapping.LowerBound(outIndex)
             outHigherBound := newMapping.LowerBound(outIndex + 1)
             lowerIntersectionBound := math.Max(outLowerBound, inLowerBound)
             higherIntersectionBound := math.Min(outHigherBound, inHigherBound)
             intersectionSize := higherIntersectionBound - lowerIntersectionBound
             if intersectionSize <= 0 { continue }                                  // guard
             proportion := intersectionSize / inSize
             newStore.AddWithCount(outIndex, proportion*count)
         }
         return false
     })

   Definitions only. *)
From Flocq Require Import IEEE754.BinarySingleNaN IEEE754.Binary IEEE754.Bits.
From SK Require Import Base.Prelude Base.F64 Mapping.Glue Spec.Bins Sketch.ChangeMapping.

(* ====================================================================== *)
(** * 1. The generic skeleton                                              *)
(* ====================================================================== *)

(* the arithmetic changeStoreMapping uses: [*], [-], [/], math.Max, math.Min, [<], [<= 0] *)
Record carith (T : Type) := {
  c_mul : T -> T -> T;
  c_sub : T -> T -> T;
  c_div : T -> T -> T;
  c_max : T -> T -> T;
  c_min : T -> T -> T;
  c_ltb : T -> T -> bool;
  c_le0 : T -> bool            (* x <= 0 *)
}.
Arguments c_mul {T}. Arguments c_sub {T}. Arguments c_div {T}. Arguments c_max {T}.
Arguments c_min {T}. Arguments c_ltb {T}. Arguments c_le0 {T}.

Section Generic.
Variable T : Type.
Variable A : carith T.
Variables (lower1 lower2 : Z -> T) (index2 : T -> Z) (scale : T) (guard : bool).

Definition g_in_low (i : Z) : T := c_mul A (lower1 i) scale.
Definition g_in_high (i : Z) : T := c_mul A (lower1 (i + 1)) scale.

(* intersectionSize, from outLowerBound, outHigherBound and the scaled source range *)
Definition g_isect (inLow inHigh outLow outHigh : T) : T :=
  c_sub A (c_min A outHigh inHigh) (c_max A outLow inLow).
(* proportion * count *)
Definition g_share (inSize isect c : T) : T := c_mul A (c_div A isect inSize) c.
(* the "continue" test *)
Definition g_skips (isect : T) : bool := guard && c_le0 A isect.

(* the for loop, one unit of fuel per evaluation of its condition; the result is the list of
   (outIndex, proportion*count) passed to AddWithCount, in call order; None = fuel exhausted *)
Fixpoint g_adds_loop (fuel : nat) (inLow inHigh inSize c : T) (out : Z) : option (list (Z * T)) :=
  match fuel with
  | O => None
  | S f =>
    let outLow := lower2 out in
    if c_ltb A outLow inHigh then
      match g_adds_loop f inLow inHigh inSize c (out + 1) with
      | Some l =>
        let isect := g_isect inLow inHigh outLow (lower2 (out + 1)) in
        Some (if g_skips isect then l else (out, g_share inSize isect c) :: l)
      | None => None
      end
    else Some []
  end.

(* the body of the ForEach callback for the source bin (i, c) *)
Definition g_bin_adds (fuel : nat) (i : Z) (c : T) : option (list (Z * T)) :=
  let inLow := g_in_low i in
  let inHigh := g_in_high i in
  g_adds_loop fuel inLow inHigh (c_sub A inHigh inLow) c (index2 inLow).

(* changeStoreMapping: all the calls, source bins in the order given; [fuel_of i] = fuel for source
   bin i ([None] = refuse) *)
Fixpoint g_store_adds (fuel_of : Z -> option nat) (src : list (Z * T)) : option (list (Z * T)) :=
  match src with
  | [] => Some []
  | (i, c) :: tl =>
    match fuel_of i with
    | None => None
    | Some fuel =>
      match g_bin_adds fuel i c with
      | Some l => match g_store_adds fuel_of tl with Some l' => Some (l ++ l') | None => None end
      | None => None
      end
    end
  end.
End Generic.

Arguments g_adds_loop : simpl never.

(* ====================================================================== *)
(** * 2. Instance 1: exact rationals (the ideal model)                     *)
(* ====================================================================== *)

Definition qc_arith : carith Qc :=
  {| c_mul := wmul; c_sub := wsub; c_div := Qcdiv; c_max := qmax; c_min := qmin;
     c_ltb := wltb; c_le0 := fun x => wleb x w0 |}.

Definition gx_adds_loop (lower2 : Z -> Qc) (guard : bool) :=
  g_adds_loop Qc qc_arith lower2 guard.
Definition gx_bin_adds (lower1 lower2 : Z -> Qc) (index2 : Qc -> Z) (scale : Qc) (guard : bool) :=
  g_bin_adds Qc qc_arith lower1 lower2 index2 scale guard.
(* the ideal model's fuel: index2 inHigh - index2 inLow + 2 *)
Definition gx_fuel (lower1 : Z -> Qc) (index2 : Qc -> Z) (scale : Qc) (i : Z) : option nat :=
  Some (bin_fuel lower1 index2 scale i).
Definition gx_store_adds (lower1 lower2 : Z -> Qc) (index2 : Qc -> Z) (scale : Qc) (guard : bool) :=
  g_store_adds Qc qc_arith lower1 lower2 index2 scale guard (gx_fuel lower1 index2 scale).

(* ====================================================================== *)
(** * 3. Instance 2: IEEE binary64, Go's math.Max / math.Min               *)
(* ====================================================================== *)

(* math.NaN() = 0x7FF8000000000001 *)
Definition go_nan : f64 := f64_of_bits 9221120237041090561.
Definition f_signbit (x : f64) : bool := Binary.Bsign 53 1024 x.
Definition f_is_pinf (x : f64) : bool := match x with B754_infinity _ _ false => true | _ => false end.
Definition f_is_ninf (x : f64) : bool := match x with B754_infinity _ _ true => true | _ => false end.

(* math.Max (src/math/dim.go, same answers from dim_amd64.s):
     Max(x, +Inf) = Max(+Inf, x) = +Inf;  Max(x, NaN) = Max(NaN, x) = NaN;
     Max(+0, ±0) = Max(±0, +0) = +0;  Max(-0, -0) = -0 *)
Definition go_max (x y : f64) : f64 :=
  if f_is_pinf x || f_is_pinf y then f64_pinf
  else if f_is_nan x || f_is_nan y then go_nan
  else if feq x f64_zero && feq x y then (if f_signbit x then y else x)
  else if fgt x y then x else y.
(* math.Min:  Min(x, -Inf) = Min(-Inf, x) = -Inf;  Min(x, NaN) = Min(NaN, x) = NaN;  Min(-0, ±0) = Min(±0, -0) = -0 *)
Definition go_min (x y : f64) : f64 :=
  if f_is_ninf x || f_is_ninf y then f64_ninf
  else if f_is_nan x || f_is_nan y then go_nan
  else if feq x f64_zero && feq x y then (if f_signbit x then x else y)
  else if flt x y then x else y.

Definition f64_arith : carith f64 :=
  {| c_mul := fmul; c_sub := fsub; c_div := fdiv; c_max := go_max; c_min := go_min;
     c_ltb := flt; c_le0 := fun x => fle x f64_zero |}.

(* over arbitrary float mappings (what the theorems are about) *)
Definition cmf_adds_loop (lower2 : Z -> f64) (guard : bool) :=
  g_adds_loop f64 f64_arith lower2 guard.
Definition cmf_bin_adds (lower1 lower2 : Z -> f64) (index2 : f64 -> Z) (scale : f64) (guard : bool) :=
  g_bin_adds f64 f64_arith lower1 lower2 index2 scale guard.

(* the fuel of the executed instance, from the float indexes: Index(inHigh) - Index(inLow) + 4
   (the loop evaluates its condition at most Index(inHigh) - Index(inLow) + 3 times when Index and
   LowerBound agree within one bin); refused beyond [cmf_max_fuel] *)
Definition cmf_max_fuel : Z := 100000.
Definition cmf_fuel (lower1 : Z -> f64) (index2 : f64 -> Z) (scale : f64) (i : Z) : option nat :=
  let n := index2 (g_in_high f64 f64_arith lower1 scale i) - index2 (g_in_low f64 f64_arith lower1 scale i) + 4 in
  if cmf_max_fuel <? n then None else Some (Z.to_nat n).
Definition cmf_store_adds (lower1 lower2 : Z -> f64) (index2 : f64 -> Z) (scale : f64) (guard : bool)
    (src : list (Z * f64)) : option (list (Z * f64)) :=
  g_store_adds f64 f64_arith lower1 lower2 index2 scale guard (cmf_fuel lower1 index2 scale) src.

(* with the bit-exact mappings of Mapping/Glue.v: the two changeStoreMapping calls of ChangeMapping
   (positive store, negative store) of the repaired code *)
Definition cmf_store (L : libm) (m1 m2 : gmap) (scale : f64) (guard : bool) (src : list (Z * f64)) :
    option (list (Z * f64)) :=
  cmf_store_adds (gm_lower L m1) (gm_lower L m2) (gm_index L m2) scale guard src.
Definition cmf_sketch (L : libm) (m1 m2 : gmap) (scale : f64) (pos neg : list (Z * f64)) :
    option (list (Z * f64) * list (Z * f64)) :=
  match cmf_store L m1 m2 scale true pos with
  | None => None
  | Some p => match cmf_store L m1 m2 scale true neg with
              | None => None
              | Some n => Some (p, n)
              end
  end.
(* "if scaleFactor == 1 && s.IndexMapping.Equals(newMapping) { return s.Copy() }" is decided by the
   caller with [feq scale f64_one] and [Sketch.map_equals] *)
Definition cmf_shortcut (same_mapping : bool) (scale : f64) : bool := feq scale f64_one && same_mapping.
