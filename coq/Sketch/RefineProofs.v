(* The executable sketch model (Layer B, Sketch/Sketch.v over Store/Any.v) refines the abstract
   sketch (Layer A, Spec/ASketch.v): every Layer A theorem (accuracy, mergeability, ...) applies to
   the model that is run against the Go code.
     sk_abs s     the Layer A sketch of s (contents of the two stores, zero weight)
     am_of mt     the Layer A mapping of an observed mapping table
     SkInv s      invariant: both stores satisfy their representation invariant, zero weight >= 0
   Floats enter only through the comparisons of plain_add / sk_reweight (Flocq's Bcompare_correct
   and the exact-value bridge of Base/F64Proofs.v); the statements about them depend on the
   classical real-number axioms of the standard library (via Flocq), everything else is axiom-free. *)
From Coq Require Import Reals Lra.
From Flocq Require Import Core.Core IEEE754.BinarySingleNaN IEEE754.Binary IEEE754.Bits.
From SK Require Import Base.F64 Base.F64Proofs Store.Any Store.AnyProofs Spec.ASketch Stat.Summary
                       Sketch.Sketch Sketch.SketchProofs Spec.BinsProofs.
Local Open Scope Z_scope.

(* ================================================================== *)
(** * 0. Abstraction and invariant                                     *)
(* ================================================================== *)
Definition sk_abs (s : sketch) : asketch :=
  {| a_pos := st_abs (sk_pos s); a_neg := st_abs (sk_neg s); a_zero := sk_zero s |}.
Definition am_of (mt : mtable) : amapping :=
  {| am_index := mt_index mt; am_value := mt_value mt; am_min := f2q (mt_min mt); am_max := f2q (mt_max mt) |}.
Definition SkInv (s : sketch) : Prop :=
  StInv (sk_pos s) /\ StInv (sk_neg s) /\ (w0 <= sk_zero s)%Qc.
(* the limits of the two stores (what Layer A calls lp, ln) *)
Definition sk_lp (s : sketch) : limit := st_limit (sk_pos s).
Definition sk_ln (s : sketch) : limit := st_limit (sk_neg s).
(* what no operation changes: the mapping identity and the kinds of the two stores *)
Definition sk_same (s s' : sketch) : Prop :=
  sk_map s' = sk_map s /\ st_kind (sk_pos s') = st_kind (sk_pos s) /\ st_kind (sk_neg s') = st_kind (sk_neg s).
(* the mapping table: finite bounds, indexes of the indexable range are int32 *)
Definition mt_ok (mt : mtable) : Prop :=
  f_is_finite (mt_min mt) = true /\ f_is_finite (mt_max mt) = true /\
  forall x : Qc, (f2q (mt_min mt) < x)%Qc -> (x <= f2q (mt_max mt))%Qc -> idx_ok (mt_index mt x).

Lemma sk_same_refl s : sk_same s s.
Proof. unfold sk_same. auto. Qed.
Lemma sk_same_trans s1 s2 s3 : sk_same s1 s2 -> sk_same s2 s3 -> sk_same s1 s3.
Proof. unfold sk_same. intros (A & B & C) (A' & B' & C'). repeat split; congruence. Qed.
Lemma sk_same_lp s s' : sk_same s s' -> sk_lp s' = sk_lp s.
Proof. intros (_ & K & _). unfold sk_lp. rewrite !st_limit_kind, K. reflexivity. Qed.
Lemma sk_same_ln s s' : sk_same s s' -> sk_ln s' = sk_ln s.
Proof. intros (_ & _ & K). unfold sk_ln. rewrite !st_limit_kind, K. reflexivity. Qed.

Theorem SkInv_awf s : SkInv s -> awf (sk_abs s).
Proof.
  intros (Hp & Hn & Hz). unfold awf, sk_abs. cbn [a_pos a_neg a_zero].
  split; [now apply st_abs_wf|]. split; [now apply st_abs_wf|]. split; [now apply st_abs_pos|].
  split; [now apply st_abs_pos|exact Hz].
Qed.
Theorem SkInv_new m kp kn exact : kind_ok kp -> kind_ok kn -> SkInv (sk_new m kp kn exact).
Proof.
  intros Hp Hn. unfold SkInv, sk_new. cbn [sk_pos sk_neg sk_zero].
  split; [now apply StInv_new|]. split; [now apply StInv_new|apply Qcle_refl].
Qed.
Theorem sk_abs_new m kp kn exact : sk_abs (sk_new m kp kn exact) = a_new.
Proof. unfold sk_abs, sk_new, a_new. cbn [sk_pos sk_neg sk_zero]. rewrite !st_abs_new. reflexivity. Qed.

(* ================================================================== *)
(** * 1. binary64 comparisons on finite arguments are comparisons of the exact values *)
(* ================================================================== *)
Lemma f2v_fin v x : f2v v = FFin x -> f_is_finite v = true /\ f2q v = x.
Proof.
  intros E. unfold f2q. rewrite E. split; [|reflexivity].
  destruct v; cbn [f2v] in E; try discriminate E; reflexivity.
Qed.
Lemma fin_f2v v : f_is_finite v = true -> f2v v = FFin (f2q v).
Proof. destruct v; intros H; try discriminate H; reflexivity. Qed.

Lemma flt_iff a b :
  f_is_finite a = true -> f_is_finite b = true -> (flt a b = true <-> (f2q a < f2q b)%Qc).
Proof.
  intros Ha Hb. unfold f_is_finite in Ha, Hb. unfold flt, fcmp, b64_compare.
  rewrite (Binary.Bcompare_correct 53 1024 a b Ha Hb).
  rewrite qR_lt, (f2q_B2R a Ha), (f2q_B2R b Hb).
  destruct (Rcompare_spec (Binary.B2R 53 1024 a) (Binary.B2R 53 1024 b)) as [H|H|H]; split; intros H';
    try reflexivity; try discriminate H'; try exact H; exfalso; lra.
Qed.
Lemma flt_wltb a b : f_is_finite a = true -> f_is_finite b = true -> flt a b = wltb (f2q a) (f2q b).
Proof.
  intros Ha Hb. pose proof (flt_iff a b Ha Hb) as H.
  destruct (wltb_spec (f2q a) (f2q b)) as [L|L].
  - now apply H.
  - destruct (flt a b); [|reflexivity]. exfalso. apply L. now apply H.
Qed.
Lemma fle_iff a b :
  f_is_finite a = true -> f_is_finite b = true -> (fle a b = true <-> (f2q a <= f2q b)%Qc).
Proof.
  intros Ha Hb. unfold f_is_finite in Ha, Hb. unfold fle, fcmp, b64_compare.
  rewrite (Binary.Bcompare_correct 53 1024 a b Ha Hb).
  rewrite qR_le, (f2q_B2R a Ha), (f2q_B2R b Hb).
  destruct (Rcompare_spec (Binary.B2R 53 1024 a) (Binary.B2R 53 1024 b)) as [H|H|H]; split; intros H';
    try reflexivity; try discriminate H'; try lra.
Qed.
Lemma feq_iff a b :
  f_is_finite a = true -> f_is_finite b = true -> (feq a b = true <-> f2q a = f2q b).
Proof.
  intros Ha Hb. unfold f_is_finite in Ha, Hb. unfold feq, fcmp, b64_compare.
  rewrite (Binary.Bcompare_correct 53 1024 a b Ha Hb).
  destruct (Rcompare_spec (Binary.B2R 53 1024 a) (Binary.B2R 53 1024 b)) as [H|H|H]; split; intros H';
    try reflexivity; try discriminate H'.
  - exfalso. apply (f_equal qR) in H'. rewrite (f2q_B2R a Ha), (f2q_B2R b Hb) in H'. lra.
  - apply qR_inj. rewrite (f2q_B2R a Ha), (f2q_B2R b Hb). exact H.
  - exfalso. apply (f_equal qR) in H'. rewrite (f2q_B2R a Ha), (f2q_B2R b Hb) in H'. lra.
Qed.
Lemma fneg_finite v : f_is_finite (fneg v) = f_is_finite v.
Proof. unfold f_is_finite, fneg, b64_opp. apply Binary.is_finite_Bopp. Qed.
Lemma f2q_fneg v : f_is_finite v = true -> f2q (fneg v) = (- f2q v)%Qc.
Proof.
  intros Hv. apply qR_inj. rewrite qR_opp.
  rewrite (f2q_B2R (fneg v)) by (pose proof (fneg_finite v) as E; unfold f_is_finite in *; congruence).
  rewrite (f2q_B2R v Hv). unfold fneg, b64_opp. apply Binary.B2R_Bopp.
Qed.
Lemma f64_zero_finite : f_is_finite f64_zero = true.
Proof. rewrite f64_zero_eq. reflexivity. Qed.
Lemma f2q_f64_zero : f2q f64_zero = w0.
Proof. rewrite f64_zero_eq. reflexivity. Qed.
Lemma f64_one_finite : f_is_finite f64_one = true.
Proof. vm_compute. reflexivity. Qed.
Lemma f2q_f64_one : f2q f64_one = w1.
Proof. apply Qc_is_canon. vm_compute. reflexivity. Qed.
Lemma finite_not_nan v : f_is_finite v = true -> f_is_nan v = false.
Proof. destruct v; intros H; try discriminate H; reflexivity. Qed.
(* the test of GetValueAtQuantile on its argument only lets finite floats through *)
Lemma unit_interval_finite q : fle f64_zero q = true -> fle q f64_one = true -> f_is_finite q = true.
Proof.
  intros Q0 Q1. destruct q as [sq|sq|sq pl Hpl|sq mq eq Hq]; try reflexivity; exfalso.
  - destruct sq; [vm_compute in Q0|vm_compute in Q1]; discriminate.
  - vm_compute in Q0. discriminate.
Qed.

(* ================================================================== *)
(** * 2. Count, IsEmpty                                                *)
(* ================================================================== *)
Theorem plain_count_refines s : SkInv s -> plain_count s = a_count (sk_abs s).
Proof.
  intros (Hp & Hn & _). unfold plain_count, a_count, sk_abs. cbn [a_pos a_neg a_zero].
  rewrite (st_total_spec _ Hp), (st_total_spec _ Hn). reflexivity.
Qed.
Theorem plain_is_empty_refines s : SkInv s -> plain_is_empty s = a_is_empty (sk_abs s).
Proof.
  intros (Hp & Hn & _). unfold plain_is_empty, a_is_empty, sk_abs. cbn [a_pos a_neg a_zero].
  rewrite (st_is_empty_spec _ Hp), (st_is_empty_spec _ Hn). reflexivity.
Qed.

(* ================================================================== *)
(** * 3. AddWithCount                                                  *)
(* ================================================================== *)
Lemma sk_abs_with_stores s p n :
  sk_abs (with_stores s p n) = {| a_pos := st_abs p; a_neg := st_abs n; a_zero := sk_zero s |}.
Proof. reflexivity. Qed.

(* finite value, finite weight >= 0: the decision table of Layer A, test by test; an accepted value
   is absorbed without panic, the invariant is kept and the abstraction follows a_add *)
Theorem plain_add_refines mt s v c :
  mt_ok mt -> SkInv s -> f_is_finite v = true -> f_is_finite c = true -> (w0 <= f2q c)%Qc ->
  match a_add (am_of mt) (sk_lp s) (sk_ln s) (sk_abs s) (f2q v) (f2q c) with
  | AAdded a' => exists s', plain_add mt s v c = ROk s' /\ SkInv s' /\ sk_same s s' /\ sk_abs s' = a' /\
                            sk_stats s' = sk_stats s
  | ATooHigh => plain_add mt s v c = RErr ETooHigh
  | ATooLow => plain_add mt s v c = RErr ETooLow
  end.
Proof.
  intros (Fmin & Fmax & Hidx) (Hp & Hn & Hz) Fv Fc Hc.
  unfold plain_add, a_add. cbn [am_of am_min am_max am_index].
  rewrite (flt_wltb c f64_zero Fc f64_zero_finite), f2q_f64_zero.
  destruct (wltb_spec (f2q c) w0) as [Hneg|_]; [exfalso; eapply Qclt_not_le; eauto|].
  rewrite (flt_wltb (mt_min mt) v Fmin Fv), (flt_wltb (mt_max mt) v Fmax Fv).
  assert (Fnmin : f_is_finite (fneg (mt_min mt)) = true) by now rewrite fneg_finite.
  assert (Fnmax : f_is_finite (fneg (mt_max mt)) = true) by now rewrite fneg_finite.
  rewrite (flt_wltb v _ Fv Fnmin), (flt_wltb v _ Fv Fnmax), (f2q_fneg _ Fmin), (f2q_fneg _ Fmax), (f2q_fneg v Fv).
  destruct (wltb_spec (f2q (mt_min mt)) (f2q v)) as [L1|L1].
  - destruct (wltb_spec (f2q (mt_max mt)) (f2q v)) as [L2|L2]; [reflexivity|].
    apply Qcnot_lt_le in L2.
    destruct (st_addw_spec (sk_pos s) (mt_index mt (f2q v)) (f2q c) Hp (Hidx _ L1 L2) Hc) as (p' & E & I' & K & A).
    rewrite E. eexists. split; [reflexivity|]. unfold SkInv, sk_same. cbn [with_stores sk_pos sk_neg sk_zero sk_map sk_stats].
    split; [auto|]. split; [auto|]. split; [|reflexivity]. rewrite sk_abs_with_stores, A. reflexivity.
  - destruct (wltb_spec (f2q v) (- f2q (mt_min mt))%Qc) as [L2|L2].
    + destruct (wltb_spec (f2q v) (- f2q (mt_max mt))%Qc) as [L3|L3]; [reflexivity|].
      apply Qcnot_lt_le in L3.
      assert (J1 : (f2q (mt_min mt) < - f2q v)%Qc).
      { apply Qclt_minus_iff. apply Qclt_minus_iff in L2.
        replace (- f2q v + - f2q (mt_min mt))%Qc with (- f2q (mt_min mt) + - f2q v)%Qc by ring. exact L2. }
      assert (J2 : (- f2q v <= f2q (mt_max mt))%Qc).
      { apply Qcle_minus_iff. apply Qcle_minus_iff in L3.
        replace (f2q (mt_max mt) + - - f2q v)%Qc with (f2q v + - - f2q (mt_max mt))%Qc by ring. exact L3. }
      destruct (st_addw_spec (sk_neg s) (mt_index mt (- f2q v)%Qc) (f2q c) Hn (Hidx _ J1 J2) Hc) as (n' & E & I' & K & A).
      rewrite E. eexists. split; [reflexivity|]. unfold SkInv, sk_same. cbn [with_stores sk_pos sk_neg sk_zero sk_map sk_stats].
      split; [auto|]. split; [auto|]. split; [|reflexivity]. rewrite sk_abs_with_stores, A. reflexivity.
    + rewrite (finite_not_nan v Fv). eexists. split; [reflexivity|]. unfold SkInv, sk_same.
      cbn [sk_pos sk_neg sk_zero sk_map sk_stats]. split; [|auto].
      split; [exact Hp|]. split; [exact Hn|]. apply wnonneg_add; assumption.
Qed.

(* the three outcomes, as equivalences *)
Corollary plain_add_no_panic mt s v c :
  mt_ok mt -> SkInv s -> f_is_finite v = true -> f_is_finite c = true -> (w0 <= f2q c)%Qc ->
  plain_add mt s v c <> RPanic.
Proof.
  intros Hm Hs Fv Fc Hc. pose proof (plain_add_refines mt s v c Hm Hs Fv Fc Hc) as H.
  destruct (a_add _ _ _ _ _ _); [destruct H as (s' & E & _)|..]; rewrite ?E, ?H; discriminate.
Qed.
Corollary plain_add_too_high_iff mt s v c :
  mt_ok mt -> SkInv s -> f_is_finite v = true -> f_is_finite c = true -> (w0 <= f2q c)%Qc ->
  (plain_add mt s v c = RErr ETooHigh <->
   a_add (am_of mt) (sk_lp s) (sk_ln s) (sk_abs s) (f2q v) (f2q c) = ATooHigh).
Proof.
  intros Hm Hs Fv Fc Hc. pose proof (plain_add_refines mt s v c Hm Hs Fv Fc Hc) as H.
  destruct (a_add _ _ _ _ _ _); [destruct H as (s' & E & _)|..]; rewrite ?E, ?H; split; intros X;
    try reflexivity; discriminate X.
Qed.
Corollary plain_add_too_low_iff mt s v c :
  mt_ok mt -> SkInv s -> f_is_finite v = true -> f_is_finite c = true -> (w0 <= f2q c)%Qc ->
  (plain_add mt s v c = RErr ETooLow <->
   a_add (am_of mt) (sk_lp s) (sk_ln s) (sk_abs s) (f2q v) (f2q c) = ATooLow).
Proof.
  intros Hm Hs Fv Fc Hc. pose proof (plain_add_refines mt s v c Hm Hs Fv Fc Hc) as H.
  destruct (a_add _ _ _ _ _ _); [destruct H as (s' & E & _)|..]; rewrite ?E, ?H; split; intros X;
    try reflexivity; discriminate X.
Qed.
(* the statement with the arguments given by their extended values *)
Corollary plain_add_refines_fv mt s v c x cq :
  mt_ok mt -> SkInv s -> f2v v = FFin x -> f2v c = FFin cq -> (w0 <= cq)%Qc ->
  match a_add (am_of mt) (sk_lp s) (sk_ln s) (sk_abs s) x cq with
  | AAdded a' => exists s', plain_add mt s v c = ROk s' /\ SkInv s' /\ sk_same s s' /\ sk_abs s' = a' /\
                            sk_stats s' = sk_stats s
  | ATooHigh => plain_add mt s v c = RErr ETooHigh
  | ATooLow => plain_add mt s v c = RErr ETooLow
  end.
Proof.
  intros Hm Hs Ev Ec Hc. destruct (f2v_fin v x Ev) as [Fv <-]. destruct (f2v_fin c cq Ec) as [Fc <-].
  now apply plain_add_refines.
Qed.

(* ================================================================== *)
(** * 4. GetValueAtQuantile                                            *)
(* ================================================================== *)
Section Quantile.
Variable rnd : Qc -> Qc.

(* whatever the flags and the argument: the sketch handed back has the same abstraction (C14) *)
Theorem plain_quantile_pure fx mt s q :
  SkInv s ->
  SkInv (fst (plain_quantile rnd fx mt s q)) /\ sk_same s (fst (plain_quantile rnd fx mt s q)) /\
  sk_abs (fst (plain_quantile rnd fx mt s q)) = sk_abs s /\
  sk_stats (fst (plain_quantile rnd fx mt s q)) = sk_stats s /\
  sk_zero (fst (plain_quantile rnd fx mt s q)) = sk_zero s.
Proof.
  intros Hs. pose proof Hs as (Hp & Hn & Hz).
  assert (Same : SkInv s /\ sk_same s s /\ sk_abs s = sk_abs s /\ sk_stats s = sk_stats s /\ sk_zero s = sk_zero s).
  { split; [exact Hs|]. split; [apply sk_same_refl|auto]. }
  unfold plain_quantile.
  destruct (if fD5 fx then _ else _); [exact Same|]. cbv zeta.
  destruct (weqb (plain_count s) w0); [exact Same|].
  match goal with |- context [wltb ?r (st_total (sk_neg s))] => destruct (wltb r (st_total (sk_neg s))) end.
  - match goal with |- context [st_key_at_rank (sk_neg s) ?r] =>
      destruct (st_key_at_rank_spec (sk_neg s) r Hn) as (n' & k & E & I' & K & A & _); rewrite E end.
    cbn [fst]. unfold SkInv, sk_same, sk_abs. cbn [with_stores sk_pos sk_neg sk_zero sk_map sk_stats].
    rewrite A. auto 10.
  - match goal with |- context [wltb ?r ?t] => destruct (wltb r t) end; [exact Same|].
    match goal with |- context [st_key_at_rank (sk_pos s) ?r] =>
      destruct (st_key_at_rank_spec (sk_pos s) r Hp) as (p' & k & E & I' & K & A & _); rewrite E end.
    cbn [fst]. unfold SkInv, sk_same, sk_abs. cbn [with_stores sk_pos sk_neg sk_zero sk_map sk_stats].
    rewrite A. auto 10.
Qed.

(* the repaired code (D4, D5), q in [0, 1] as the code tests it, non-empty sketch: the answer is a
   value (no error, no panic) and it is the Layer A answer; Layer A answers None only when the rank
   arithmetic sends the query to an EMPTY positive store (excluded by quantile_refines_some) *)
Theorem plain_quantile_refines fx mt s q :
  fD4 fx = true -> fD5 fx = true -> SkInv s ->
  fle f64_zero q = true -> fle q f64_one = true -> plain_count s <> w0 ->
  exists s' y, plain_quantile rnd fx mt s q = (s', ROk y) /\ SkInv s' /\ sk_same s s' /\ sk_abs s' = sk_abs s /\
    match a_quantile rnd (am_of mt) (sk_abs s) (f2q q) with
    | Some y' => y' = y
    | None => st_abs (sk_pos s) = []
    end.
Proof.
  intros F4 F5 Hs Q0 Q1 Hc. pose proof Hs as (Hp & Hn & Hz).
  unfold plain_quantile, a_quantile. rewrite F4, F5, Q0, Q1. cbn [negb andb]. cbv zeta.
  rewrite <- (plain_count_refines s Hs).
  destruct (weqb_spec (plain_count s) w0) as [E|_]; [contradiction|].
  unfold a_rank. cbv zeta. rewrite <- (plain_count_refines s Hs).
  set (rank0 := rnd (wmul (f2q q) (rnd (wsub (plain_count s) w1)))).
  set (rank := if wltb rank0 w0 then w0 else rank0).
  assert (R0 : (w0 <= rank)%Qc).
  { unfold rank. destruct (wltb_spec rank0 w0) as [L|L]; [apply Qcle_refl|now apply Qcnot_lt_le]. }
  change (a_pos (sk_abs s)) with (st_abs (sk_pos s)).
  change (a_neg (sk_abs s)) with (st_abs (sk_neg s)).
  change (a_zero (sk_abs s)) with (sk_zero s).
  cbn [am_of am_value].
  rewrite <- (st_total_spec _ Hn).
  destruct (wltb_spec rank (st_total (sk_neg s))) as [L1|L1].
  - match goal with |- context [st_key_at_rank (sk_neg s) ?r] =>
      destruct (st_key_at_rank_spec (sk_neg s) r Hn) as (n' & k & E & I' & K & A & KR); rewrite E end.
    assert (Hne : st_abs (sk_neg s) <> []).
    { intros E0. apply (st_total_zero_iff _ Hn) in E0. rewrite E0 in L1. eapply Qclt_not_le; eauto. }
    rewrite (KR Hne). eexists. eexists. split; [reflexivity|].
    unfold SkInv, sk_same, sk_abs. cbn [with_stores sk_pos sk_neg sk_zero sk_map]. rewrite A. auto 10.
  - destruct (wltb_spec rank (rnd (wadd (sk_zero s) (st_total (sk_neg s))))) as [L2|L2].
    + exists s, w0. split; [reflexivity|]. split; [exact Hs|]. split; [apply sk_same_refl|]. split; [reflexivity|exact eq_refl].
    + match goal with |- context [st_key_at_rank (sk_pos s) ?r] =>
        destruct (st_key_at_rank_spec (sk_pos s) r Hp) as (p' & k & E & I' & K & A & KR); rewrite E end.
      eexists. eexists. split; [reflexivity|].
      split; [unfold SkInv; cbn [with_stores sk_pos sk_neg sk_zero]; auto|].
      split; [unfold sk_same; cbn [with_stores sk_pos sk_neg sk_map]; auto|].
      split; [unfold sk_abs; cbn [with_stores sk_pos sk_neg sk_zero]; now rewrite A|].
      destruct (st_abs (sk_pos s)) as [|kw tl] eqn:Ea.
      * reflexivity.
      * rewrite KR by discriminate. reflexivity.
Qed.

(* with the premises of C12_quantile_some (monotone rounding fixing 0, idempotent, not merging the
   count with its predecessor nor with 0) both sides answer, and they answer the same *)
Theorem plain_quantile_refines_some fx mt s q :
  (forall x y : Qc, (x <= y)%Qc -> (rnd x <= rnd y)%Qc) -> rnd w0 = w0 -> (forall x : Qc, rnd (rnd x) = rnd x) ->
  fD4 fx = true -> fD5 fx = true -> SkInv s ->
  fle f64_zero q = true -> fle q f64_one = true -> plain_count s <> w0 ->
  (w0 < rnd (plain_count s))%Qc -> (rnd (wsub (plain_count s) w1) < rnd (plain_count s))%Qc ->
  exists s' y, plain_quantile rnd fx mt s q = (s', ROk y) /\ SkInv s' /\ sk_same s s' /\ sk_abs s' = sk_abs s /\
               a_quantile rnd (am_of mt) (sk_abs s) (f2q q) = Some y.
Proof.
  intros Rm R0 Ri F4 F5 Hs Q0 Q1 Hc C0 C1.
  destruct (plain_quantile_refines fx mt s q F4 F5 Hs Q0 Q1 Hc) as (s' & y & E & I' & K & A & M).
  exists s', y. split; [exact E|]. split; [exact I'|]. split; [exact K|]. split; [exact A|].
  pose proof (unit_interval_finite q Q0 Q1) as Fq.
  rewrite (plain_count_refines s Hs) in Hc, C0, C1.
  destruct (a_quantile_some rnd (am_of mt) Rm R0 Ri (sk_abs s) (f2q q) (SkInv_awf s Hs) Hc) as (y' & Ey); try assumption.
  - rewrite <- f2q_f64_zero. apply (fle_iff _ _ f64_zero_finite Fq). exact Q0.
  - rewrite <- f2q_f64_one. apply (fle_iff _ _ Fq f64_one_finite). exact Q1.
  - rewrite Ey in M. subst y'. exact Ey.
Qed.
End Quantile.

(* ================================================================== *)
(** * 5. GetMaxValue / GetMinValue                                     *)
(* ================================================================== *)
Definition res_of_opt (o : option Qc) : result Qc := match o with Some v => ROk v | None => RErr EEmpty end.

Theorem plain_max_refines mt s : SkInv s -> plain_max mt s = res_of_opt (a_max (am_of mt) (sk_abs s)).
Proof.
  intros (Hp & Hn & Hz). unfold plain_max, a_max, sk_abs. cbn [a_pos a_neg a_zero am_of am_value].
  rewrite (st_is_empty_spec _ Hp), (st_max_spec _ Hp), (st_min_spec _ Hn).
  destruct (st_abs (sk_pos s)) as [|kw tl] eqn:Ea.
  - cbn [is_emptyb negb max_key]. destruct (wltb w0 (sk_zero s)); [reflexivity|].
    destruct (min_key (st_abs (sk_neg s))); reflexivity.
  - cbn [is_emptyb negb]. destruct (max_key_some (kw :: tl)) as [mx E]; [discriminate|]. rewrite E. reflexivity.
Qed.
Theorem plain_min_refines mt s : SkInv s -> plain_min mt s = res_of_opt (a_min (am_of mt) (sk_abs s)).
Proof.
  intros (Hp & Hn & Hz). unfold plain_min, a_min, sk_abs. cbn [a_pos a_neg a_zero am_of am_value].
  rewrite (st_is_empty_spec _ Hn), (st_max_spec _ Hn), (st_min_spec _ Hp).
  destruct (st_abs (sk_neg s)) as [|kw tl] eqn:Ea.
  - cbn [is_emptyb negb max_key]. destruct (wltb w0 (sk_zero s)); [reflexivity|].
    destruct (min_key (st_abs (sk_pos s))); reflexivity.
  - cbn [is_emptyb negb]. destruct (max_key_some (kw :: tl)) as [mx E]; [discriminate|]. rewrite E. reflexivity.
Qed.

(* ================================================================== *)
(** * 6. ForEach                                                       *)
(* ================================================================== *)
(* no panic; the items are exactly the Layer A items (same list, same order); abstraction unchanged *)
Theorem sk_foreach_refines mt s :
  SkInv s ->
  exists s', sk_foreach mt s = Some (s', a_items (am_of mt) (sk_abs s)) /\
             SkInv s' /\ sk_same s s' /\ sk_abs s' = sk_abs s /\ sk_stats s' = sk_stats s.
Proof.
  intros (Hp & Hn & Hz). unfold sk_foreach.
  destruct (st_foreach_spec _ Hp) as (p' & lp & Ep & Ip & Kp & Ap & Lp & _).
  destruct (st_foreach_spec _ Hn) as (n' & ln & En & In' & Kn & An & Ln & _).
  rewrite Ep, En. subst lp ln. eexists. split; [reflexivity|].
  unfold SkInv, sk_same, sk_abs. cbn [with_stores sk_pos sk_neg sk_zero sk_map sk_stats]. rewrite Ap, An. auto 10.
Qed.

(* ================================================================== *)
(** * 7. MergeWith                                                     *)
(* ================================================================== *)
(* equal mappings (as the code tests them): no panic, the receiver's abstraction is the Layer A
   merge with the receiver's limits, the argument's abstraction is unchanged *)
Theorem sk_merge_refines s o :
  SkInv s -> SkInv o -> map_equals (sk_map s) (sk_map o) = true ->
  exists s' o', sk_merge s o = ROk (s', o') /\ SkInv s' /\ SkInv o' /\ sk_same s s' /\ sk_same o o' /\
    sk_abs s' = a_merge (sk_lp s) (sk_ln s) (sk_abs s) (sk_abs o) /\ sk_abs o' = sk_abs o.
Proof.
  intros (Hp & Hn & Hz) (Hop & Hon & Hoz) Hm. unfold sk_merge. rewrite Hm. cbn [negb].
  destruct (st_merge_spec _ _ Hp Hop) as (p' & op' & Ep & Ip & Iop & Kp & Kop & Ap & Aop).
  destruct (st_merge_spec _ _ Hn Hon) as (n' & on' & En & In' & Ion & Kn & Kon & An & Aon).
  rewrite Ep, En. eexists. eexists. split; [reflexivity|].
  unfold SkInv, sk_same, sk_abs, a_merge, sk_lp, sk_ln.
  cbn [with_stores sk_pos sk_neg sk_zero sk_map a_pos a_neg a_zero].
  rewrite Ap, An, Aop, Aon. split; [|auto 10]. split; [exact Ip|]. split; [exact In'|]. now apply wnonneg_add.
Qed.
Theorem sk_merge_mismatch_refused s o :
  map_equals (sk_map s) (sk_map o) = false -> sk_merge s o = RErr EMismatch.
Proof. intros H. unfold sk_merge. rewrite H. reflexivity. Qed.

(* ================================================================== *)
(** * 8. Reweight, Clear                                               *)
(* ================================================================== *)
Lemma sk_abs_with_stats s t : sk_abs (with_stats s t) = sk_abs s.
Proof. reflexivity. Qed.

Theorem sk_reweight_refines s w :
  SkInv s -> f_is_finite w = true -> fle w f64_zero = false ->
  exists s', sk_reweight s w = ROk s' /\ SkInv s' /\ sk_same s s' /\
             sk_abs s' = a_reweight (f2q w) (sk_abs s).
Proof.
  intros (Hp & Hn & Hz) Fw Hw. pose proof (f2q_pos w Fw Hw) as Wpos. unfold sk_reweight. rewrite Hw.
  destruct (feq w f64_one) eqn:E1.
  - apply (feq_iff w f64_one Fw f64_one_finite) in E1. rewrite f2q_f64_one in E1.
    eexists. split; [reflexivity|]. rewrite E1, a_reweight_1.
    unfold SkInv, sk_same. cbn [with_stats sk_pos sk_neg sk_zero sk_map]. auto 10.
  - cbv zeta.
    destruct (st_reweight_spec _ (f2q w) Hp Wpos) as (p' & Ep & Ip & Kp & Ap).
    destruct (st_reweight_spec _ (f2q w) Hn Wpos) as (n' & En & In' & Kn & An).
    rewrite Ep, En. eexists. split; [reflexivity|].
    unfold SkInv, sk_same, sk_abs, a_reweight. cbn [with_stats sk_pos sk_neg sk_zero sk_map a_pos a_neg a_zero].
    rewrite Ap, An, (wmul_comm (sk_zero s)). split; [|auto]. split; [exact Ip|]. split; [exact In'|].
    apply wnonneg_mul; [now apply wpos_nonneg|exact Hz].
Qed.
Theorem sk_reweight_nonpositive_refused s w : fle w f64_zero = true -> sk_reweight s w = RErr EBadFactor.
Proof. apply sk_reweight_nonpositive. Qed.

Theorem sk_clear_refines s :
  SkInv s -> SkInv (sk_clear s) /\ sk_same s (sk_clear s) /\ sk_abs (sk_clear s) = a_new.
Proof.
  intros (Hp & Hn & Hz). destruct (st_clear_spec _ Hp) as (Ip & Kp & Ap). destruct (st_clear_spec _ Hn) as (In' & Kn & An).
  unfold SkInv, sk_same, sk_abs, sk_clear, a_new. cbn [sk_pos sk_neg sk_zero sk_map]. rewrite Ap, An.
  split; [|auto]. split; [exact Ip|]. split; [exact In'|apply Qcle_refl].
Qed.
Theorem sk_copy_refines s : sk_copy s = s.
Proof. reflexivity. Qed.

(* ================================================================== *)
(** * 9. Histories                                                     *)
(* ================================================================== *)
Inductive kop :=
| KAdd (v c : f64) | KMerge (o : sketch) | KReweight (w : f64) | KClear
| KQuantile (q : f64) | KForeach | KCopy.
(* finite value and finite weight >= 0; an argument sketch satisfying the invariant (in particular
   any reachable sketch) with an equal mapping; a finite factor > 0 *)
Definition kop_ok (m : mapid) (x : kop) : Prop :=
  match x with
  | KAdd v c => f_is_finite v = true /\ f_is_finite c = true /\ (w0 <= f2q c)%Qc
  | KMerge o => SkInv o /\ map_equals m (sk_map o) = true
  | KReweight w => f_is_finite w = true /\ fle w f64_zero = false
  | _ => True
  end.
Definition kop_is_read (x : kop) : bool :=
  match x with KQuantile _ | KForeach | KCopy => true | _ => false end.
(* the same history on Layer A: a rejected value (too high / too low) leaves the sketch unchanged,
   reads are the identity *)
Definition a_step (m : amapping) (lp ln : limit) (a : asketch) (x : kop) : asketch :=
  match x with
  | KAdd v c => match a_add m lp ln a (f2q v) (f2q c) with AAdded a' => a' | _ => a end
  | KMerge o => a_merge lp ln a (sk_abs o)
  | KReweight w => a_reweight (f2q w) a
  | KClear => a_new
  | _ => a
  end.
Definition a_run (m : amapping) (lp ln : limit) (a : asketch) (ops : list kop) : asketch :=
  fold_left (a_step m lp ln) ops a.

Section History.
Variable rnd : Qc -> Qc.
Variable fx : fixes.
Variable mt : mtable.

(* [None] = a panic, or an operation refused although its arguments are acceptable; an error on Add
   (the value is outside the indexable range) leaves the sketch unchanged, as in Go *)
Definition sk_step (s : sketch) (x : kop) : option sketch :=
  match x with
  | KAdd v c => match plain_add mt s v c with ROk s' => Some s' | RErr _ => Some s | RPanic => None end
  | KMerge o => match sk_merge s o with ROk (s', _) => Some s' | _ => None end
  | KReweight w => match sk_reweight s w with ROk s' => Some s' | _ => None end
  | KClear => Some (sk_clear s)
  | KQuantile q => Some (fst (plain_quantile rnd fx mt s q))
  | KForeach => option_map fst (sk_foreach mt s)
  | KCopy => Some (sk_copy s)
  end.
Definition sk_run (s : sketch) (ops : list kop) : option sketch :=
  fold_left (fun acc x => match acc with Some s' => sk_step s' x | None => None end) ops (Some s).

Theorem sk_step_spec s x :
  mt_ok mt -> SkInv s -> kop_ok (sk_map s) x ->
  exists s', sk_step s x = Some s' /\ SkInv s' /\ sk_same s s' /\
             sk_abs s' = a_step (am_of mt) (sk_lp s) (sk_ln s) (sk_abs s) x.
Proof.
  intros Hm Hs Hx. destruct x as [v c|o|w| |q| | ]; cbn [kop_ok sk_step a_step] in *.
  - destruct Hx as (Fv & Fc & Hc). pose proof (plain_add_refines mt s v c Hm Hs Fv Fc Hc) as H.
    destruct (a_add (am_of mt) (sk_lp s) (sk_ln s) (sk_abs s) (f2q v) (f2q c)) as [a'| | ].
    + destruct H as (s' & E & I' & K & A & _). exists s'. rewrite E. auto.
    + rewrite H. exists s. split; [reflexivity|]. split; [exact Hs|]. split; [apply sk_same_refl|reflexivity].
    + rewrite H. exists s. split; [reflexivity|]. split; [exact Hs|]. split; [apply sk_same_refl|reflexivity].
  - destruct Hx as [Ho Hmap]. destruct (sk_merge_refines s o Hs Ho Hmap) as (s' & o' & E & I' & _ & K & _ & A & _).
    exists s'. rewrite E. auto.
  - destruct Hx as [Fw Hw]. destruct (sk_reweight_refines s w Hs Fw Hw) as (s' & E & I' & K & A).
    exists s'. rewrite E. auto.
  - exists (sk_clear s). destruct (sk_clear_refines s Hs) as (I' & K & A). auto.
  - destruct (plain_quantile_pure rnd fx mt s q Hs) as (I' & K & A & _). eexists. split; [reflexivity|]. auto.
  - destruct (sk_foreach_refines mt s Hs) as (s' & E & I' & K & A & _). exists s'. rewrite E. cbn [option_map fst]. auto.
  - exists s. split; [reflexivity|]. split; [exact Hs|]. split; [apply sk_same_refl|reflexivity].
Qed.

(* reads leave the abstraction unchanged (C14 at sketch level) *)
Theorem sk_reads_pure s x :
  mt_ok mt -> SkInv s -> kop_is_read x = true ->
  exists s', sk_step s x = Some s' /\ SkInv s' /\ sk_same s s' /\ sk_abs s' = sk_abs s.
Proof.
  intros Hm Hs Hr. destruct x; try discriminate Hr; refine (sk_step_spec s _ Hm Hs _); exact I.
Qed.

Lemma sk_run_cons s x ops :
  sk_run s (x :: ops) = match sk_step s x with Some s1 => sk_run s1 ops | None => None end.
Proof.
  unfold sk_run. cbn [fold_left]. destruct (sk_step s x); [reflexivity|].
  induction ops as [|y ops IH]; [reflexivity|exact IH].
Qed.
Theorem sk_run_spec ops : forall s,
  mt_ok mt -> SkInv s -> Forall (kop_ok (sk_map s)) ops ->
  exists s', sk_run s ops = Some s' /\ SkInv s' /\ sk_same s s' /\
             sk_abs s' = a_run (am_of mt) (sk_lp s) (sk_ln s) (sk_abs s) ops.
Proof.
  induction ops as [|x ops IH]; intros s Hm Hs Hops.
  - exists s. split; [reflexivity|]. split; [exact Hs|]. split; [apply sk_same_refl|reflexivity].
  - inversion Hops as [|x' ops' Hx Hops']; subst x' ops'.
    destruct (sk_step_spec s x Hm Hs Hx) as (s1 & E1 & I1 & K1 & A1).
    assert (Hops1 : Forall (kop_ok (sk_map s1)) ops) by (destruct K1 as (M & _); now rewrite M).
    destruct (IH s1 Hm I1 Hops1) as (s' & E' & I' & K' & A').
    exists s'. rewrite sk_run_cons, E1. split; [exact E'|]. split; [exact I'|].
    split; [eapply sk_same_trans; eassumption|].
    rewrite A', (sk_same_lp _ _ K1), (sk_same_ln _ _ K1), A1. reflexivity.
Qed.

(* every sketch obtained from a new one (any kinds of stores, capacity >= 1, with or without exact
   statistics) by any sequence of Add / MergeWith / Reweight / Clear / GetValueAtQuantile / ForEach /
   Copy never panicked on the way, satisfies the invariant, and its abstraction is the Layer A
   sketch of the same sequence *)
Theorem sketch_history_refines m kp kn exact ops :
  mt_ok mt -> kind_ok kp -> kind_ok kn -> Forall (kop_ok m) ops ->
  exists s, sk_run (sk_new m kp kn exact) ops = Some s /\ SkInv s /\ awf (sk_abs s) /\
            sk_map s = m /\ st_kind (sk_pos s) = kp /\ st_kind (sk_neg s) = kn /\
            sk_abs s = a_run (am_of mt) (kind_limit kp) (kind_limit kn) a_new ops.
Proof.
  intros Hm Hp Hn Hops.
  destruct (sk_run_spec ops (sk_new m kp kn exact) Hm (SkInv_new m kp kn exact Hp Hn) Hops) as (s & E & I' & K & A).
  exists s. split; [exact E|]. split; [exact I'|]. split; [now apply SkInv_awf|].
  destruct K as (K1 & K2 & K3). cbn [sk_new sk_map sk_pos sk_neg] in K1, K2, K3. rewrite st_kind_new in K2, K3.
  split; [exact K1|]. split; [exact K2|]. split; [exact K3|].
  rewrite A, sk_abs_new. unfold sk_lp, sk_ln. cbn [sk_new sk_pos sk_neg]. rewrite !st_limit_new. reflexivity.
Qed.

(* Clear then any history = a new sketch (same mapping, same kinds of stores) then the same
   history: no earlier state leaks (C15 at sketch level) *)
Theorem sk_clear_then_history s exact ops :
  mt_ok mt -> SkInv s -> Forall (kop_ok (sk_map s)) ops ->
  exists s1 s2, sk_run (sk_clear s) ops = Some s1 /\
                sk_run (sk_new (sk_map s) (st_kind (sk_pos s)) (st_kind (sk_neg s)) exact) ops = Some s2 /\
                SkInv s1 /\ SkInv s2 /\ sk_same s s1 /\ sk_same s s2 /\ sk_abs s1 = sk_abs s2.
Proof.
  intros Hm Hs Hops. pose proof Hs as (Hp & Hn & _).
  destruct (sk_clear_refines s Hs) as (Ic & Kc & Ac).
  assert (Hopsc : Forall (kop_ok (sk_map (sk_clear s))) ops) by exact Hops.
  destruct (sk_run_spec ops (sk_clear s) Hm Ic Hopsc) as (s1 & E1 & I1 & K1 & A1).
  destruct (sketch_history_refines (sk_map s) _ _ exact ops Hm (StInv_kind_ok _ Hp) (StInv_kind_ok _ Hn) Hops)
    as (s2 & E2 & I2 & _ & M2 & P2 & N2 & A2).
  exists s1, s2. split; [exact E1|]. split; [exact E2|]. split; [exact I1|]. split; [exact I2|].
  split; [eapply sk_same_trans; eassumption|]. split; [unfold sk_same; auto|].
  rewrite A1, A2, Ac, (sk_same_lp _ _ Kc), (sk_same_ln _ _ Kc). unfold sk_lp, sk_ln. rewrite !st_limit_kind. reflexivity.
Qed.
End History.

(* ================================================================== *)
(** * 10. The accuracy theorem on the executable model                 *)
(* ================================================================== *)
From Coq Require Import Permutation Sorted Qcabs.
From SK Require Import Sketch.RankProofs.

(* Add(v) for each value in turn (weight 1.0) *)
Fixpoint plain_add_units (mt : mtable) (s : sketch) (vs : list f64) : result sketch :=
  match vs with
  | [] => ROk s
  | v :: tl => match plain_add mt s v f64_one with ROk s' => plain_add_units mt s' tl | r => r end
  end.

Lemma plain_add_units_refines mt vs : forall s a,
  mt_ok mt -> SkInv s -> sk_lp s = Exact -> sk_ln s = Exact -> Forall (fun v => f_is_finite v = true) vs ->
  a_add_list (am_of mt) (sk_abs s) (map (fun v => unit_item (f2q v)) vs) = Some a ->
  exists s', plain_add_units mt s vs = ROk s' /\ SkInv s' /\ sk_same s s' /\ sk_abs s' = a.
Proof.
  induction vs as [|v vs IH]; intros s a Hm Hs Lp Ln Hf Ha.
  - cbn [map a_add_list] in Ha. injection Ha as <-. exists s. split; [reflexivity|]. split; [exact Hs|].
    split; [apply sk_same_refl|reflexivity].
  - inversion Hf as [|v' vs' Fv Hf']; subst v' vs'. cbn [map a_add_list unit_item fst snd] in Ha.
    assert (H1 : (w0 <= f2q f64_one)%Qc) by (rewrite f2q_f64_one; apply w1_nonneg).
    pose proof (plain_add_refines mt s v f64_one Hm Hs Fv f64_one_finite H1) as H.
    rewrite Lp, Ln, f2q_f64_one in H.
    destruct (a_add (am_of mt) Exact Exact (sk_abs s) (f2q v) w1) as [a'| | ]; try discriminate Ha.
    destruct H as (s1 & E1 & I1 & K1 & A1 & _). subst a'.
    destruct (IH s1 a Hm I1) as (s' & E' & I' & K' & A'); try assumption.
    + rewrite (sk_same_lp _ _ K1). exact Lp.
    + rewrite (sk_same_ln _ _ K1). exact Ln.
    + exists s'. cbn [plain_add_units]. rewrite E1. split; [exact E'|]. split; [exact I'|].
      split; [eapply sk_same_trans; eassumption|exact A'].
Qed.

(* C01 on the executable model: a sketch over non-collapsing stores of any kind (dense, sparse,
   paginated) that absorbed the finite values vs (all within the indexable range) answers, for q in
   [0, 1], the representative of the k-th smallest value, k between floor and ceiling of q (n - 1) *)
Theorem executable_quantile_selects_order_statistic
  (rnd : Qc -> Qc) (fx : fixes) (mt : mtable) (B : Z) (m : mapid) (kp kn : kind) (exact : bool)
  (vs : list f64) (ys : list Qc) (q : f64) :
  (forall x y : Qc, (x <= y)%Qc -> (rnd x <= rnd y)%Qc) ->
  (forall z : Z, Z.abs z <= B -> rnd (inj z) = inj z) ->
  mt_ok mt -> (w0 <= f2q (mt_min mt))%Qc ->
  (forall x y : Qc, (f2q (mt_min mt) < x)%Qc -> (x <= y)%Qc -> (y <= f2q (mt_max mt))%Qc -> mt_index mt x <= mt_index mt y) ->
  kind_limit kp = Exact -> kind_limit kn = Exact ->
  fD4 fx = true -> fD5 fx = true ->
  Forall (fun v => f_is_finite v = true) vs ->
  (forall v, In v vs -> (Qcabs (f2q v) <= f2q (mt_max mt))%Qc) ->
  Permutation (map f2q vs) ys -> Sorted Qcle ys -> vs <> [] -> Z.of_nat (length vs) <= B ->
  fle f64_zero q = true -> fle q f64_one = true ->
  exists s, plain_add_units mt (sk_new m kp kn exact) vs = ROk s /\ SkInv s /\
  exists (k : nat) s',
    cfloor (f2q q * inj (Z.of_nat (length vs) - 1)) <= Z.of_nat k <= cceil (f2q q * inj (Z.of_nat (length vs) - 1)) /\
    (k < length vs)%nat /\
    plain_quantile rnd fx mt s q = (s', ROk (repr (am_of mt) (nth k ys w0))) /\
    SkInv s' /\ sk_abs s' = sk_abs s.
Proof.
  intros Rm Ri Hm Hmin Hmono Lp Ln F4 F5 Hf Hrange Hperm Hsort Hne HB Q0 Q1.
  assert (Hkp : kind_ok kp) by (destruct kp; try exact I; discriminate Lp).
  assert (Hkn : kind_ok kn) by (destruct kn; try exact I; discriminate Ln).
  set (s0 := sk_new m kp kn exact).
  pose proof (SkInv_new m kp kn exact Hkp Hkn) as I0. fold s0 in I0.
  assert (L0p : sk_lp s0 = Exact) by (unfold sk_lp, s0; cbn [sk_new sk_pos]; now rewrite st_limit_new).
  assert (L0n : sk_ln s0 = Exact) by (unfold sk_ln, s0; cbn [sk_new sk_neg]; now rewrite st_limit_new).
  destruct (a_add_list_total (am_of mt) (map (fun v => unit_item (f2q v)) vs) (sk_abs s0)) as (a & Ea).
  { intros it Hin. apply in_map_iff in Hin. destruct Hin as (v & <- & Hv). cbn [unit_item fst]. now apply Hrange. }
  destruct (plain_add_units_refines mt vs s0 a Hm I0 L0p L0n Hf Ea) as (s & Es & Is & Ks & As).
  exists s. split; [exact Es|]. split; [exact Is|].
  pose proof (unit_interval_finite q Q0 Q1) as Fq.
  assert (Hq0 : (w0 <= f2q q)%Qc).
  { rewrite <- f2q_f64_zero. apply (fle_iff _ _ f64_zero_finite Fq). exact Q0. }
  assert (Hq1 : (f2q q <= w1)%Qc).
  { rewrite <- f2q_f64_one. apply (fle_iff _ _ Fq f64_one_finite). exact Q1. }
  unfold s0 in Ea. rewrite sk_abs_new, <- (map_map f2q unit_item) in Ea.
  assert (Hne' : map f2q vs <> []) by (destruct vs; [contradiction|discriminate]).
  assert (HB' : Z.of_nat (length (map f2q vs)) <= B) by now rewrite map_length.
  destruct (quantile_selects_order_statistic (am_of mt) Hmin Hmono rnd B Rm Ri (map f2q vs) ys a (f2q q)
              Ea Hperm Hsort Hne' HB' Hq0 Hq1) as (k & K1 & K2 & K3).
  rewrite map_length in K1, K2. rewrite <- As in K3.
  assert (Hc : plain_count s <> w0).
  { rewrite (plain_count_refines s Is). exact (proj1 (a_quantile_cases rnd (am_of mt) _ _ _ K3)). }
  destruct (plain_quantile_refines rnd fx mt s q F4 F5 Is Q0 Q1 Hc) as (s' & y & E & I' & _ & A' & M).
  rewrite K3 in M. subst y. exists k, s'. auto.
Qed.

(* ================================================================== *)
(** * 11. DDSketchWithExactSummaryStatistics.Add / AddWithCount        *)
(* ================================================================== *)
(* the statistics are bookkeeping on the side: with the repaired weight-0 shortcut (D7) the bins
   evolve exactly as in the plain sketch *)
Theorem sk_add_refines fx mt s v c unit :
  fD7 fx = true -> mt_ok mt -> SkInv s -> f_is_finite v = true -> f_is_finite c = true -> (w0 <= f2q c)%Qc ->
  match a_add (am_of mt) (sk_lp s) (sk_ln s) (sk_abs s) (f2q v) (f2q c) with
  | AAdded a' => exists s', sk_add fx mt s v c unit = ROk s' /\ SkInv s' /\ sk_same s s' /\ sk_abs s' = a'
  | ATooHigh => sk_add fx mt s v c unit = RErr ETooHigh
  | ATooLow => sk_add fx mt s v c unit = RErr ETooLow
  end.
Proof.
  intros F7 Hm Hs Fv Fc Hc. pose proof (plain_add_refines mt s v c Hm Hs Fv Fc Hc) as H.
  unfold sk_add. rewrite F7. destruct (sk_stats s) as [t|].
  - rewrite andb_false_r. cbn [negb andb].
    destruct (a_add (am_of mt) (sk_lp s) (sk_ln s) (sk_abs s) (f2q v) (f2q c)) as [a'| | ].
    + destruct H as (s' & E & I' & K & A & _). rewrite E.
      destruct (negb unit && feq c f64_zero); eexists; (split; [reflexivity|]); auto.
    + rewrite H. reflexivity.
    + rewrite H. reflexivity.
  - destruct (a_add (am_of mt) (sk_lp s) (sk_ln s) (sk_abs s) (f2q v) (f2q c)) as [a'| | ]; [|exact H|exact H].
    destruct H as (s' & E & I' & K & A & _). exists s'. auto.
Qed.

(* ---- summary used by Props/Refine.v ---- *)
Theorem sk_new_spec m kp kn exact :
  kind_ok kp -> kind_ok kn -> SkInv (sk_new m kp kn exact) /\ sk_abs (sk_new m kp kn exact) = a_new.
Proof. intros Hp Hn. split; [now apply SkInv_new|apply sk_abs_new]. Qed.
