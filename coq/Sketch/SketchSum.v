(* Layer B: ddsketch/ddsketch.go — DDSketch.GetSum and NewDDSketchWithExactSummaryStatisticsFromData.
   GetSum of the plain sketch is the ForEach callback  sum += value * count  run in binary64 over the bins in
   iteration order (zero bucket, positive bins, negative bins: the list sk_foreach produces).
   Definitions only (extracted; everything computes). *)
From Coq Require Import Bool List.
From SK Require Import Base.Prelude Base.F64 Stat.Summary Sketch.Sketch.

(* the callback of GetSum folded over the (value, count) pairs as binary64 numbers, from sum = 0 *)
Definition sum_fold_f64 (l : list (f64 * f64)) : f64 :=
  fold_left (fun acc vc => fadd acc (fmul (fst vc) (snd vc))) l f64_zero.

(* on the pairs ForEach hands to the callback: bin values and bin counts are exact rationals in the model,
   the callback receives them as float64 *)
Definition sk_get_sum_f64 (l : list (Qc * W)) : f64 :=
  sum_fold_f64 (map (fun vc => (q2f (fst vc), q2f (snd vc))) l).

(* NewDDSketchWithExactSummaryStatisticsFromData: refused (None) iff  sketch.IsEmpty() != (summaryStatistics.Count() == 0).
   The argument is a *DDSketch, so IsEmpty is the plain one (zeroCount == 0 and both stores empty); for a sketch
   without statistics that is sk_is_empty.  Accepted: the same mapping, stores and zero count, with the given statistics. *)
Definition sk_from_data (s : sketch) (t : summary) : option sketch :=
  if Bool.eqb (plain_is_empty s) (feq (su_count t) f64_zero) then Some (with_stats s (Some t)) else None.
