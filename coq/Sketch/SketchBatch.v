(* GetValuesAtQuantiles (ddsketch.go): the batch entry point is a loop over the single query that stops at the
   first error,
     for i, q := range quantiles { val, err := s.GetValueAtQuantile(q); if err != nil { return nil, err }; values[i] = val }
   and the exact variant clamps every answer into [min, max] of its statistics afterwards - which is what the
   single query of that variant does too, so both variants are the loop below over [sk_quantile].
   Written over an arbitrary single query [quant] so that the theorems (Sketch/SketchBatchProofs.v) do not depend
   on how a store answers.  Definitions only. *)
From Coq Require Import List.
From SK Require Import Base.Prelude Base.F64 Sketch.Sketch.
Import ListNotations.

Section Batch.
Context {S A Q : Type}.
Variable quant : S -> Q -> S * result A.

Fixpoint quantiles_with (s : S) (qs : list Q) : S * result (list A) :=
  match qs with
  | [] => (s, ROk [])
  | q :: tl =>
    let '(s', r) := quant s q in
    match r with
    | ROk v =>
      let '(s'', r') := quantiles_with s' tl in
      (s'', match r' with ROk vs => ROk (v :: vs) | RErr e => RErr e | RPanic => RPanic end)
    | RErr e => (s', RErr e)
    | RPanic => (s', RPanic)
    end
  end.
End Batch.
