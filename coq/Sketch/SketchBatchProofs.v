(* The batch query answers what the single queries answer: for any single query whose reads are pure up to a
   relation R (the stores may reorganise themselves: R = "same abstraction"), the batch result is the list of
   the single answers on the ORIGINAL sketch, and it fails exactly with the error of the first failing single query. *)
From Coq Require Import List.
From SK Require Import Base.Prelude Base.F64 Sketch.Sketch Sketch.SketchBatch.
Import ListNotations.

Section BatchProofs.
Context {S A Q : Type}.
Variable quant : S -> Q -> S * result A.
Variable R : S -> S -> Prop.
Hypothesis R_refl : forall s, R s s.
Hypothesis R_trans : forall a b c, R a b -> R b c -> R a c.
Hypothesis quant_keeps : forall s q, R s (fst (quant s q)).
Hypothesis quant_respects : forall s s' q, R s s' -> snd (quant s q) = snd (quant s' q).

Lemma batch_keeps (qs : list Q) : forall s, R s (fst (quantiles_with quant s qs)).
Proof.
  induction qs as [|q tl IH]; intro s; cbn [quantiles_with]; [apply R_refl|].
  pose proof (quant_keeps s q) as K. destruct (quant s q) as [s' r] eqn:E. cbn [fst] in K.
  destruct r as [v|e|]; [|exact K|exact K].
  pose proof (IH s') as K'. destruct (quantiles_with quant s' tl) as [s'' r']. cbn [fst] in *.
  exact (R_trans _ _ _ K K').
Qed.

(* all answers: each is the single answer on the sketch the batch started from *)
Theorem batch_ok (qs : list Q) : forall s0 s vs, R s0 s ->
  snd (quantiles_with quant s qs) = ROk vs -> Forall2 (fun q v => snd (quant s0 q) = ROk v) qs vs.
Proof.
  induction qs as [|q tl IH]; intros s0 s vs H0 E; cbn [quantiles_with] in E.
  - cbn [snd] in E. injection E as <-. constructor.
  - pose proof (quant_keeps s q) as K. pose proof (quant_respects s0 s q H0) as Rq.
    destruct (quant s q) as [s' r] eqn:Eq. cbn [fst snd] in K, Rq.
    destruct r as [v|e|]; cbn [snd] in E; try discriminate.
    destruct (quantiles_with quant s' tl) as [s'' r'] eqn:Et. cbn [snd] in E.
    destruct r' as [vs'|e|]; try discriminate. injection E as <-.
    constructor; [exact Rq|]. apply (IH s0 s' vs' (R_trans _ _ _ H0 K)). now rewrite Et.
Qed.

(* a refused batch: some single query is refused with that very error, and all those before it are answered *)
Theorem batch_err (qs : list Q) : forall s0 s e, R s0 s ->
  snd (quantiles_with quant s qs) = RErr e ->
  exists pre q post, qs = pre ++ q :: post /\ snd (quant s0 q) = RErr e /\
                     Forall (fun q' => exists v, snd (quant s0 q') = ROk v) pre.
Proof.
  induction qs as [|q tl IH]; intros s0 s e H0 E; cbn [quantiles_with] in E; [discriminate|].
  pose proof (quant_keeps s q) as K. pose proof (quant_respects s0 s q H0) as Rq.
  destruct (quant s q) as [s' r] eqn:Eq. cbn [fst snd] in K, Rq.
  destruct r as [v|e'|]; cbn [snd] in E.
  - destruct (quantiles_with quant s' tl) as [s'' r'] eqn:Et. cbn [snd] in E.
    destruct r' as [vs'|e'|]; try discriminate. injection E as ->.
    destruct (IH s0 s' e (R_trans _ _ _ H0 K)) as (pre & q1 & post & -> & E1 & F); [now rewrite Et|].
    exists (q :: pre), q1, post. split; [reflexivity|]. split; [exact E1|]. constructor; [now exists v|exact F].
  - injection E as ->. exists [], q, tl. split; [reflexivity|]. split; [exact Rq|constructor].
  - discriminate.
Qed.

(* the converse: if every single query is answered, so is the batch *)
Theorem batch_total (qs : list Q) : forall s0 s, R s0 s ->
  Forall (fun q => exists v, snd (quant s0 q) = ROk v) qs -> exists vs, snd (quantiles_with quant s qs) = ROk vs.
Proof.
  induction qs as [|q tl IH]; intros s0 s H0 F; cbn [quantiles_with]; [now exists []|].
  inversion F as [|q' tl' [v Hv] Ft]; subst.
  pose proof (quant_keeps s q) as K. pose proof (quant_respects s0 s q H0) as Rq.
  destruct (quant s q) as [s' r] eqn:Eq. cbn [fst snd] in K, Rq. rewrite Hv in Rq. subst r.
  destruct (IH s0 s' (R_trans _ _ _ H0 K) Ft) as [vs Evs].
  destruct (quantiles_with quant s' tl) as [s'' r']. cbn [snd] in *. subst r'. now exists (v :: vs).
Qed.
End BatchProofs.
