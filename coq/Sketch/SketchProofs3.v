(* Sketch-level proofs, third series.
     1. C11  weighted quantiles in ROUNDED rank arithmetic for weights on a dyadic grid 2^-k
             (abstract monotone rounding that fixes the bounded grid points; then rndQ and the
             executed rnd64): the selected value's cumulative interval contains a grid point within
             one grid step of max 0 (q (W - 1)); corollaries: absorbed value, between min and max.
     2. C12  on the executed sketch (Layer B): minimum, maximum, sum of the ForEach items, and
             monotone / bounded quantiles of a sketch built by AddWithCount from a new sketch with
             stores of any kind.
     3. C20  the reference dataset: floor / ceiling of the ROUNDED rank against the literal
             floor / ceiling of q (n - 1): they differ exactly when the rounding reaches the
             neighbouring integer; for binary64 only within relative distance 2^-53 of it. *)
From SK Require Import Spec.Bins Spec.BinsProofs Spec.ASketch Sketch.SketchProofs Sketch.RankProofs.
From SK Require Import Sketch.SketchProofs2.
From Coq Require Import Lqa Permutation Sorted Qround Qcabs.
From SK Require Import Base.F64 Base.F64Proofs Sketch.MiscProofs Sketch.RoundingInstance.
Local Open Scope Z_scope.

(* ================================================================== *)
(** * 0. The grid 2^-k inside Qc (axiom-free)                          *)
(* ================================================================== *)
Local Open Scope Qc_scope.

Lemma pow2_pos (k : Z) : (0 <= k)%Z -> (0 < 2 ^ k)%Z.
Proof. intros Hk. apply Z.pow_pos_nonneg; lia. Qed.
Lemma injU_pos (k : Z) : (0 <= k)%Z -> 0 < inj (2 ^ k).
Proof. intros Hk. change 0 with (inj 0). apply inj_mono_lt. apply pow2_pos. exact Hk. Qed.
(* a grid point times 2^k is its numerator *)
Lemma gv_scale (k z : Z) : (0 <= k)%Z -> gridv k z * inj (2 ^ k) = inj z.
Proof.
  intros Hk. pose proof (pow2_pos k Hk) as Hp. apply Qc_is_canon.
  rewrite this_mult. unfold gridv, inj. cbn [this Q2Qc]. rewrite !Qred_correct.
  field. intros E. unfold Qeq in E. cbn in E. lia.
Qed.
Lemma mulU_cancel (x y u : Qc) : 0 < u -> x * u = y * u -> x = y.
Proof.
  intros Hu H. apply Qcle_antisym; apply (Qcmult_lt_0_le_reg_r _ _ u Hu); rewrite H; apply Qcle_refl.
Qed.
Lemma gv_plus (k a b : Z) : (0 <= k)%Z -> gridv k a + gridv k b = gridv k (a + b).
Proof.
  intros Hk. apply (mulU_cancel _ _ (inj (2 ^ k)) (injU_pos k Hk)).
  rewrite Qcmult_plus_distr_l, !gv_scale, inj_plus by exact Hk. reflexivity.
Qed.
Lemma gv_opp (k a : Z) : (0 <= k)%Z -> - gridv k a = gridv k (- a).
Proof.
  intros Hk. apply (mulU_cancel _ _ (inj (2 ^ k)) (injU_pos k Hk)).
  replace (- gridv k a * inj (2 ^ k)) with (- (gridv k a * inj (2 ^ k))) by ring.
  rewrite !gv_scale, inj_opp by exact Hk. reflexivity.
Qed.
Lemma gv_minus (k a b : Z) : (0 <= k)%Z -> gridv k a - gridv k b = gridv k (a - b).
Proof.
  intros Hk. unfold Qcminus. rewrite gv_opp, gv_plus by exact Hk. f_equal.
Qed.
Lemma gv_0 (k : Z) : (0 <= k)%Z -> gridv k 0 = w0.
Proof.
  intros Hk. apply (mulU_cancel _ _ (inj (2 ^ k)) (injU_pos k Hk)). rewrite gv_scale by exact Hk.
  unfold w0. change (Q2Qc 0) with (inj 0). replace (inj 0 * inj (2 ^ k)) with (inj 0); [reflexivity|].
  change (inj 0) with (Q2Qc 0). ring.
Qed.
Lemma gv_U (k : Z) : (0 <= k)%Z -> gridv k (2 ^ k) = w1.
Proof.
  intros Hk. apply (mulU_cancel _ _ (inj (2 ^ k)) (injU_pos k Hk)). rewrite gv_scale by exact Hk.
  unfold w1. ring.
Qed.
Lemma gv_le (k a b : Z) : (0 <= k)%Z -> (gridv k a <= gridv k b <-> (a <= b)%Z).
Proof.
  intros Hk. pose proof (injU_pos k Hk) as Hu. split.
  - intros H. apply inj_le. rewrite <- (gv_scale k a Hk), <- (gv_scale k b Hk).
    apply Qcmult_le_compat_r; [exact H|apply Qclt_le_weak; exact Hu].
  - intros H. apply (Qcmult_lt_0_le_reg_r _ _ _ Hu). rewrite !gv_scale by exact Hk.
    apply inj_mono. exact H.
Qed.
Lemma gv_lt (k a b : Z) : (0 <= k)%Z -> (gridv k a < gridv k b <-> (a < b)%Z).
Proof.
  intros Hk. split.
  - intros H. destruct (Z.lt_ge_cases a b) as [L|G]; [exact L|]. exfalso.
    apply (gv_le k b a Hk) in G. exact (Qclt_not_le _ _ H G).
  - intros H. apply Qcnot_le_lt. intros G. apply (gv_le k b a Hk) in G. lia.
Qed.
Lemma gv_inj (k a b : Z) : (0 <= k)%Z -> gridv k a = gridv k b -> a = b.
Proof.
  intros Hk H. assert (H1 : gridv k a <= gridv k b) by (rewrite H; apply Qcle_refl).
  assert (H2 : gridv k b <= gridv k a) by (rewrite H; apply Qcle_refl).
  apply gv_le in H1; [|exact Hk]. apply gv_le in H2; [|exact Hk]. lia.
Qed.

(* floor and ceiling on the grid *)
Definition gfl (k : Z) (x : Qc) : Z := cfloor (x * inj (2 ^ k)).
Definition gcl (k : Z) (x : Qc) : Z := cceil (x * inj (2 ^ k)).
Lemma gfl_le k x : (0 <= k)%Z -> gridv k (gfl k x) <= x.
Proof.
  intros Hk. apply (Qcmult_lt_0_le_reg_r _ _ _ (injU_pos k Hk)). rewrite gv_scale by exact Hk.
  apply cfloor_le.
Qed.
Lemma gcl_ge k x : (0 <= k)%Z -> x <= gridv k (gcl k x).
Proof.
  intros Hk. apply (Qcmult_lt_0_le_reg_r _ _ _ (injU_pos k Hk)). rewrite gv_scale by exact Hk.
  apply cceil_ge.
Qed.
Lemma gfl_spec k z x : (0 <= k)%Z -> gridv k z <= x -> (z <= gfl k x)%Z.
Proof.
  intros Hk H. apply cfloor_spec. rewrite <- (gv_scale k z Hk).
  apply Qcmult_le_compat_r; [exact H|apply Qclt_le_weak; apply injU_pos; exact Hk].
Qed.
Lemma gcl_spec k z x : (0 <= k)%Z -> x <= gridv k z -> (gcl k x <= z)%Z.
Proof.
  intros Hk H. apply cceil_spec. rewrite <- (gv_scale k z Hk).
  apply Qcmult_le_compat_r; [exact H|apply Qclt_le_weak; apply injU_pos; exact Hk].
Qed.
Lemma gfl_lt k x : (0 <= k)%Z -> x < gridv k (gfl k x + 1).
Proof.
  intros Hk. apply Qcnot_le_lt. intros H. apply (gfl_spec k _ x Hk) in H. lia.
Qed.
Lemma gcl_gt k x : (0 <= k)%Z -> gridv k (gcl k x - 1) < x.
Proof.
  intros Hk. apply Qcnot_le_lt. intros H. apply (gcl_spec k _ x Hk) in H. lia.
Qed.
Lemma gfl_le_gcl k x : (0 <= k)%Z -> (gfl k x <= gcl k x)%Z.
Proof. intros Hk. apply cfloor_le_cceil. Qed.
Lemma gfl_grid k z : (0 <= k)%Z -> gfl k (gridv k z) = z.
Proof. intros Hk. unfold gfl. rewrite gv_scale by exact Hk. apply cfloor_inj. Qed.
Lemma gcl_grid k z : (0 <= k)%Z -> gcl k (gridv k z) = z.
Proof. intros Hk. unfold gcl. rewrite gv_scale by exact Hk. apply cceil_inj. Qed.

(* ================================================================== *)
(** * 1. C11: rounded rank arithmetic, weights on the grid 2^-k        *)
(* ================================================================== *)

(* positive weights on the grid *)
Definition gridw (k : Z) (l : list item) : Prop :=
  Forall (fun a : item => exists z : Z, (0 < z)%Z /\ snd a = gridv k z) l.

Section GridWeights.
Variable rnd : Qc -> Qc.
Variable B k : Z.
Hypothesis k0 : (0 <= k)%Z.
Hypothesis UB : (2 ^ k <= B)%Z.
Hypothesis rnd_mono : forall x y, x <= y -> rnd x <= rnd y.
Hypothesis rnd_grid : forall z : Z, (Z.abs z <= B)%Z -> rnd (gridv k z) = gridv k z.

Let g := gridv k.
Let U := (2 ^ k)%Z.

Lemma U1 : (1 <= U)%Z.
Proof. unfold U. pose proof (pow2_pos k k0). lia. Qed.

Lemma gridw_wpos l : gridw k l -> wpos l.
Proof.
  unfold gridw, wpos. apply Forall_impl. intros a [z [Hz ->]]. rewrite <- (gv_0 k k0).
  apply gv_lt; assumption.
Qed.
Lemma gridw_wsum l : gridw k l -> exists z, (0 <= z)%Z /\ wsum l = g z.
Proof.
  induction l as [|a l IH]; intros H.
  - exists 0%Z. split; [lia|]. unfold g. rewrite gv_0 by exact k0. reflexivity.
  - inversion H as [|a' l' [z [Hz Ea]] Hl]; subst. destruct (IH Hl) as [z' [Hz' E']].
    exists (z + z')%Z. split; [lia|]. rewrite wsum_cons, Ea, E'. unfold g, wadd. apply gv_plus. exact k0.
Qed.
Lemma rnd_ge_g z x : (Z.abs z <= B)%Z -> g z <= x -> g z <= rnd x.
Proof. intros Hz H. unfold g. rewrite <- (rnd_grid z Hz). apply rnd_mono. exact H. Qed.
Lemma rnd_le_g z x : (Z.abs z <= B)%Z -> x <= g z -> rnd x <= g z.
Proof. intros Hz H. unfold g. rewrite <- (rnd_grid z Hz). apply rnd_mono. exact H. Qed.

(* the rank the sketch computes lies between the grid neighbours of max 0 (q (W - 1)) *)
Lemma grid_rank_bracket (n : Z) (q : Qc) :
  (1 <= n <= B)%Z -> 0 <= q -> q <= 1 ->
  let r := q * g (n - U) in
  let r0 := rnd (wmul q (rnd (wsub (g n) w1))) in
  let rho := if wltb r0 w0 then w0 else r0 in
  let f := Z.max 0 (gfl k r) in
  let c := Z.max 0 (gcl k r) in
  (0 <= f)%Z /\ (f <= c)%Z /\ (c <= Z.max 0 (n - U))%Z /\ g f <= rho /\ rho <= g c.
Proof.
  intros Hn Hq0 Hq1. cbv zeta. pose proof U1 as HU1.
  assert (E1 : wsub (g n) w1 = g (n - U)).
  { unfold wsub, g, U. rewrite <- (gv_U k k0). apply gv_minus. exact k0. }
  assert (E2 : rnd (g (n - U)) = g (n - U)) by (apply rnd_grid; unfold U; lia).
  rewrite E1, E2.
  unfold wmul. set (r := q * g (n - U)).
  pose proof (gfl_le_gcl k r k0) as Hfc.
  assert (G0 : g 0 = w0) by (unfold g; apply gv_0; exact k0).
  destruct (Z.le_gt_cases U n) as [HnU|HnU].
  - assert (Hc : 0 <= g (n - U)).
    { change 0 with w0. rewrite <- G0. apply gv_le; [exact k0|lia]. }
    destruct (mul_bracket q (g (n - U)) Hq0 Hq1 Hc) as [Hr0 Hr1]. fold r in Hr0, Hr1.
    assert (Hf0 : (0 <= gfl k r)%Z) by (apply gfl_spec; [exact k0|fold g; rewrite G0; exact Hr0]).
    assert (Hc1 : (gcl k r <= n - U)%Z) by (apply gcl_spec; [exact k0|exact Hr1]).
    rewrite !Z.max_r by lia.
    assert (H1 : g (gfl k r) <= rnd r) by (apply rnd_ge_g; [lia|apply gfl_le; exact k0]).
    assert (H2 : rnd r <= g (gcl k r)) by (apply rnd_le_g; [lia|apply gcl_ge; exact k0]).
    assert (H0 : w0 <= rnd r).
    { rewrite <- G0. eapply Qcle_trans; [|exact H1]. apply gv_le; [exact k0|lia]. }
    destruct (wltb_spec (rnd r) w0) as [E|E]; [exfalso; exact (Qclt_not_le _ _ E H0)|].
    split; [lia|]. split; [lia|]. split; [lia|]. split; assumption.
  - assert (Hc : g (n - U) <= 0).
    { change 0 with w0. rewrite <- G0. apply gv_le; [exact k0|lia]. }
    destruct (mul_bracket_neg q (g (n - U)) Hq0 Hq1 Hc) as [Hr0 Hr1]. fold r in Hr0, Hr1.
    assert (Hc1 : (gcl k r <= 0)%Z) by (apply gcl_spec; [exact k0|fold g; rewrite G0; exact Hr1]).
    rewrite !Z.max_l by lia.
    assert (H2 : rnd r <= w0).
    { rewrite <- G0. apply rnd_le_g; [lia|rewrite G0; exact Hr1]. }
    split; [lia|]. split; [lia|]. split; [lia|]. rewrite G0.
    destruct (wltb_spec (rnd r) w0) as [E|E]; [split; apply Qcle_refl|].
    apply Qcnot_lt_le in E. assert (E0 : rnd r = w0) by (apply Qcle_antisym; assumption).
    rewrite E0. split; apply Qcle_refl.
Qed.

Variable m : amapping.
Hypothesis mn0 : 0 <= am_min m.
Hypothesis idx_mono :
  forall x y, am_min m < x -> x <= y -> y <= am_max m -> (am_index m x <= am_index m y)%Z.

Lemma weighted_grid_core N Zs P s q n :
  gridw k (N ++ Zs ++ P) -> StronglySorted vle (N ++ Zs ++ P) -> Forall (okv m) (N ++ Zs ++ P) ->
  Forall (fun a => isN m a = true) N -> Forall (fun a => isZ m a = true) Zs ->
  Forall (fun a => isP m a = true) P ->
  a_pos s = bins_of_list (map (kpos m) P) -> a_neg s = bins_of_list (map (kneg m) N) ->
  a_zero s = wsum Zs ->
  N ++ Zs ++ P <> [] -> wsum (N ++ Zs ++ P) = g n -> (n <= B)%Z -> 0 <= q -> q <= 1 ->
  exists l1 a l2 (t : Z),
    N ++ Zs ++ P = l1 ++ a :: l2 /\
    a_quantile rnd m s q = Some (repr m (fst a)) /\
    (Z.max 0 (gfl k (q * g (n - U))) <= t <= Z.max 0 (gcl k (q * g (n - U))))%Z /\
    wsum l1 - 1 < g t /\ g t < wsum l1 + snd a /\
    (isN m a = false -> wsum l1 <= g t).
Proof.
  intros Hi Hs Hok HN HZ HP CP CN CZ Hne HWn HB Hq0 Hq1. pose proof U1 as HU1.
  pose proof (gridw_wpos _ Hi) as Hw.
  pose proof Hi as Hi'. unfold gridw in Hi'. apply Forall_app in Hi'. destruct Hi' as [HiN Hi'].
  apply Forall_app in Hi'. destruct Hi' as [HiZ HiP].
  pose proof (gridw_wpos _ HiN) as HwN. pose proof (gridw_wpos _ HiZ) as HwZ.
  pose proof (gridw_wpos _ HiP) as HwP.
  pose proof Hok as Hok'. apply Forall_app in Hok'. destruct Hok' as [HokN Hok'].
  apply Forall_app in Hok'. destruct Hok' as [_ HokP].
  destruct (ssorted_app _ _ _ Hs) as [HsN Hs']. destruct (ssorted_app _ _ _ Hs') as [_ HsP].
  destruct (gridw_wsum N HiN) as [zN [HzN EN0]]. destruct (gridw_wsum Zs HiZ) as [zZ [HzZ EZ0]].
  destruct (gridw_wsum P HiP) as [zP [HzP EP0]].
  assert (Gp : forall a b, g a + g b = g (a + b)) by (intros; apply gv_plus; exact k0).
  assert (Gm : forall a b, g a - g b = g (a - b)) by (intros; apply gv_minus; exact k0).
  assert (Gle : forall a b, g a <= g b -> (a <= b)%Z) by (intros a b; apply gv_le; exact k0).
  assert (Glt : forall a b, g a < g b -> (a < b)%Z) by (intros a b; apply gv_lt; exact k0).
  assert (Gle' : forall a b, (a <= b)%Z -> g a <= g b) by (intros a b; apply gv_le; exact k0).
  assert (Glt' : forall a b, (a < b)%Z -> g a < g b) by (intros a b; apply gv_lt; exact k0).
  assert (G0 : g 0 = w0) by (apply gv_0; exact k0).
  assert (GU : g U = w1) by (apply gv_U; exact k0).
  assert (Ginj : forall a b, g a = g b -> a = b) by (intros a b; apply gv_inj; exact k0).
  assert (TN : total (a_neg s) = g zN).
  { rewrite CN, total_bins_of_list. unfold kneg. rewrite total_map_key. exact EN0. }
  assert (TP : total (a_pos s) = g zP).
  { rewrite CP, total_bins_of_list. unfold kpos. rewrite total_map_key. exact EP0. }
  assert (TZ : a_zero s = g zZ) by (rewrite CZ; exact EZ0).
  assert (Hlen : n = (zN + zZ + zP)%Z).
  { apply Ginj. rewrite <- HWn, !wsum_app, EN0, EZ0, EP0. unfold wadd. rewrite !Gp. f_equal. lia. }
  assert (Hn1 : (1 <= n)%Z).
  { pose proof (wsum_pos _ Hw Hne) as H. rewrite HWn, <- G0 in H. apply Glt in H. lia. }
  assert (Hcount : a_count s = g n).
  { unfold a_count. rewrite TN, TZ, TP, Hlen. unfold wadd. rewrite !Gp. f_equal. lia. }
  assert (Hcne : a_count s <> w0).
  { rewrite Hcount, <- G0. intros E. apply Ginj in E. lia. }
  destruct (grid_rank_bracket n q (conj Hn1 HB) Hq0 Hq1) as [Hf0 [Hfc [HcM [Hlo Hhi]]]].
  cbv zeta in Hf0, Hfc, HcM, Hlo, Hhi.
  assert (Hrank : a_rank rnd s q =
                  if wltb (rnd (wmul q (rnd (wsub (g n) w1)))) w0 then w0 else rnd (wmul q (rnd (wsub (g n) w1)))).
  { unfold a_rank. cbv zeta. rewrite Hcount. reflexivity. }
  remember (if wltb (rnd (wmul q (rnd (wsub (g n) w1)))) w0 then w0 else rnd (wmul q (rnd (wsub (g n) w1)))) as rho eqn:Erho.
  clear Erho.
  remember (Z.max 0 (gfl k (q * g (n - U)))) as f eqn:Ef. remember (Z.max 0 (gcl k (q * g (n - U)))) as c eqn:Ec.
  clear Ef Ec.
  (* parts of a split of a class *)
  assert (Hsplit : forall l l1 a l2, gridw k l -> l = l1 ++ a :: l2 ->
            exists y1 ca y2, (0 <= y1)%Z /\ (0 < ca)%Z /\ (0 <= y2)%Z /\
              wsum l1 = g y1 /\ snd a = g ca /\ wsum l2 = g y2 /\
              wsum l = g (y1 + ca + y2)).
  { intros l l1 a l2 Hl E. rewrite E in Hl. unfold gridw in Hl. apply Forall_app in Hl.
    destruct Hl as [H1 H2]. apply Forall_cons_iff in H2. destruct H2 as [[ca [Hca Ea]] H2].
    destruct (gridw_wsum l1 H1) as [y1 [Hy1 E1]]. destruct (gridw_wsum l2 H2) as [y2 [Hy2 E2]].
    exists y1, ca, y2. repeat (split; [assumption|]).
    rewrite E, wsum_app, wsum_cons, E1, Ea, E2. unfold wadd. fold g. rewrite !Gp. f_equal. lia. }
  assert (Hnil : forall l, wsum l = g 0 -> gridw k l -> l = []).
  { intros l E Hl. destruct l as [|a l]; [reflexivity|]. exfalso.
    pose proof (wsum_pos _ (gridw_wpos _ Hl) ltac:(discriminate)) as H. rewrite E, G0 in H.
    exact (Qclt_not_le _ _ H (Qcle_refl _)). }
  destruct (Qclt_le_dec rho (g zN)) as [Hbr|Hbr].
  - (* negative branch *)
    assert (Hfn : (f < zN)%Z). { apply Glt. eapply Qcle_lt_trans; eassumption. }
    remember (rnd (wsub (rnd (wsub (g zN) w1)) rho)) as r' eqn:Er'.
    assert (Er'' : r' = rnd (g (zN - U) - rho)).
    { rewrite Er'. replace (wsub (g zN) w1) with (g (zN - U)) by (rewrite <- GU; symmetry; apply Gm).
      assert (E2 : rnd (g (zN - U)) = g (zN - U)) by (apply rnd_grid; lia).
      rewrite E2. reflexivity. }
    assert (Hr'lo : g (zN - U - c) <= r').
    { rewrite Er''. apply rnd_ge_g; [lia|]. rewrite <- (Gm (zN - U)%Z c). unfold Qcminus. apply Qcplus_le_compat; [apply Qcle_refl|].
      apply Qcopp_le_compat. exact Hhi. }
    assert (Hr'hi : r' <= g (zN - U - f)).
    { rewrite Er''. apply rnd_le_g; [lia|]. rewrite <- (Gm (zN - U)%Z f). unfold Qcminus. apply Qcplus_le_compat; [apply Qcle_refl|].
      apply Qcopp_le_compat. exact Hlo. }
    assert (HNne : N <> []).
    { intros E. subst N. rewrite wsum_nil, <- G0 in EN0. apply Ginj in EN0. lia. }
    destruct (find_split_r N r' HwN HNne) as [n1 [a [n2 [EN [C1 C2]]]]].
    destruct (Hsplit N n1 a n2 HiN EN) as [y1 [ca [y2 [Hy1 [Hca [Hy2 [E1 [Ea [E2 Et]]]]]]]]].
    rewrite EN0 in Et. apply Ginj in Et.
    assert (HaN : isN m a = true).
    { rewrite Forall_forall in HN. apply HN. rewrite EN. apply in_elt. }
    assert (Hsel : key_at_rank (a_neg s) r' = Some (am_index m (- fst a))).
    { rewrite CN. rewrite EN at 1. rewrite EN in HwN, HN, HokN, HsN.
      apply (select_neg m idx_mono); assumption. }
    assert (K1 : (y1 - U < c)%Z).
    { destruct C2 as [C2|C2].
      - rewrite E2, Ea in C2. unfold wadd in C2. rewrite Gp in C2.
        assert (H : g (zN - U - c) < g (y2 + ca)) by (eapply Qcle_lt_trans; eassumption).
        apply Glt in H. lia.
      - subst n1. rewrite wsum_nil, <- G0 in E1. apply Ginj in E1. lia. }
    assert (K2 : (f < y1 + ca)%Z).
    { destruct C1 as [C1|C1].
      - rewrite E2 in C1. assert (H : g y2 <= g (zN - U - f)) by (eapply Qcle_trans; eassumption).
        apply Gle in H. lia.
      - subst n2. rewrite wsum_nil, <- G0 in E2. apply Ginj in E2. lia. }
    exists n1, a, (n2 ++ Zs ++ P), (Z.max f (y1 - U + 1)).
    split; [rewrite EN at 1; rewrite <- app_assoc; reflexivity|].
    split.
    { rewrite (repr_N m mn0 a HaN). apply a_quantile_neg; [exact Hcne|rewrite Hrank, TN; exact Hbr|].
      rewrite Hrank, TN, <- Er'. exact Hsel. }
    split; [lia|]. rewrite E1, Ea. rewrite <- GU at 1. rewrite Gm, Gp.
    split; [apply Glt'; lia|]. split; [apply Glt'; lia|]. intros C. rewrite C in HaN. discriminate.
  - assert (EZN : rnd (wadd (a_zero s) (total (a_neg s))) = g (zZ + zN)).
    { rewrite TZ, TN. unfold wadd. rewrite Gp. apply rnd_grid. lia. }
    destruct (Qclt_le_dec rho (g (zZ + zN))) as [Hbr2|Hbr2].
    + (* zero branch *)
      assert (HZne : Zs <> []).
      { intros E. subst Zs. rewrite wsum_nil, <- G0 in EZ0. apply Ginj in EZ0. subst zZ.
        cbn [Z.add] in Hbr2. exact (Qclt_not_le _ _ Hbr2 Hbr). }
      destruct (find_split Zs (rho - g zN) HwZ HZne) as [z1 [a [z2 [EZ [C1 C2]]]]].
      destruct (Hsplit Zs z1 a z2 HiZ EZ) as [y1 [ca [y2 [Hy1 [Hca [Hy2 [E1 [Ea [E2 Et]]]]]]]]].
      rewrite EZ0 in Et. apply Ginj in Et.
      assert (HaZ : isZ m a = true).
      { rewrite Forall_forall in HZ. apply HZ. rewrite EZ. apply in_elt. }
      assert (K1 : (zN + y1 <= c)%Z).
      { apply Gle. rewrite <- Gp. destruct C1 as [C1|C1].
        - rewrite E1 in C1. qlra.
        - subst z1. rewrite wsum_nil, <- G0 in E1. apply Ginj in E1. subst y1. rewrite G0. qlra. }
      assert (K2 : (f < zN + y1 + ca)%Z).
      { destruct C2 as [C2|C2].
        - apply Glt. rewrite <- !Gp. rewrite E1, Ea in C2. qlra.
        - subst z2. rewrite wsum_nil, <- G0 in E2. apply Ginj in E2.
          assert (Hf2 : (f < zZ + zN)%Z) by (apply Glt; eapply Qcle_lt_trans; eassumption).
          lia. }
      exists (N ++ z1), a, (z2 ++ P), (Z.max f (zN + y1)). split.
      { rewrite EZ at 1. rewrite <- !app_assoc. reflexivity. }
      split.
      { rewrite (repr_Z m a HaZ). apply a_quantile_zero; [exact Hcne|rewrite Hrank, TN; exact Hbr|].
        rewrite Hrank, EZN. exact Hbr2. }
      split; [lia|]. rewrite wsum_app, EN0, E1, Ea. unfold wadd. rewrite !Gp.
      assert (S1 : g (zN + y1) <= g (Z.max f (zN + y1))) by (apply Gle'; lia).
      split; [qlra|]. split; [apply Glt'; lia|]. intros _. exact S1.
    + (* positive branch *)
      assert (Hc2 : (zZ + zN <= c)%Z). { apply Gle. eapply Qcle_trans; eassumption. }
      remember (rnd (wsub (rnd (wsub rho (a_zero s))) (total (a_neg s)))) as r' eqn:Er'.
      rewrite TZ, TN in Er'.
      assert (Hin_lo : g (f - zZ) <= rnd (wsub rho (g zZ))).
      { apply rnd_ge_g; [lia|]. rewrite <- (Gm f zZ). unfold wsub, Qcminus. apply Qcplus_le_compat; [exact Hlo|apply Qcle_refl]. }
      assert (Hin_hi : rnd (wsub rho (g zZ)) <= g (c - zZ)).
      { apply rnd_le_g; [lia|]. rewrite <- (Gm c zZ). unfold wsub, Qcminus. apply Qcplus_le_compat; [exact Hhi|apply Qcle_refl]. }
      assert (Hr'lo : g (f - zZ - zN) <= r').
      { rewrite Er'. apply rnd_ge_g; [lia|]. rewrite <- (Gm (f - zZ)%Z zN). unfold wsub, Qcminus.
        apply Qcplus_le_compat; [exact Hin_lo|apply Qcle_refl]. }
      assert (Hr'hi : r' <= g (c - zZ - zN)).
      { rewrite Er'. apply rnd_le_g; [lia|]. rewrite <- (Gm (c - zZ)%Z zN). unfold wsub, Qcminus.
        apply Qcplus_le_compat; [exact Hin_hi|apply Qcle_refl]. }
      assert (HPne : P <> []).
      { intros E. subst P. rewrite wsum_nil, <- G0 in EP0. apply Ginj in EP0.
        assert (Hf2 : (c < n)%Z) by lia. lia. }
      destruct (find_split P r' HwP HPne) as [p1 [a [p2 [EP [C1 C2]]]]].
      destruct (Hsplit P p1 a p2 HiP EP) as [y1 [ca [y2 [Hy1 [Hca [Hy2 [E1 [Ea [E2 Et]]]]]]]]].
      rewrite EP0 in Et. apply Ginj in Et.
      assert (HaP : isP m a = true).
      { rewrite Forall_forall in HP. apply HP. rewrite EP. apply in_elt. }
      assert (Hsel : key_at_rank (a_pos s) r' = Some (am_index m (fst a))).
      { rewrite CP. rewrite EP at 1. rewrite EP in HwP, HP, HokP, HsP.
        apply (select_pos m idx_mono); assumption. }
      assert (K1 : (zN + zZ + y1 <= c)%Z).
      { destruct C1 as [C1|C1].
        - rewrite E1 in C1. assert (H : g y1 <= g (c - zZ - zN)) by (eapply Qcle_trans; eassumption).
          apply Gle in H. lia.
        - subst p1. rewrite wsum_nil, <- G0 in E1. apply Ginj in E1. lia. }
      assert (K2 : (f < zN + zZ + y1 + ca)%Z).
      { destruct C2 as [C2|C2].
        - rewrite E1, Ea in C2. unfold wadd in C2. rewrite Gp in C2.
          assert (H : g (f - zZ - zN) < g (y1 + ca)) by (eapply Qcle_lt_trans; eassumption).
          apply Glt in H. lia.
        - subst p2. rewrite wsum_nil, <- G0 in E2. apply Ginj in E2. lia. }
      exists (N ++ Zs ++ p1), a, p2, (Z.max f (zN + zZ + y1)). split.
      { rewrite EP at 1. rewrite <- !app_assoc. reflexivity. }
      split.
      { rewrite (repr_P m mn0 a HaP).
        apply a_quantile_pos; [exact Hcne|rewrite Hrank, TN; exact Hbr|rewrite Hrank, EZN; exact Hbr2|].
        rewrite Hrank, TZ, TN, <- Er'. exact Hsel. }
      split; [lia|]. rewrite !wsum_app, EN0, EZ0, E1, Ea. unfold wadd. rewrite !Gp.
      assert (S1 : g (zN + (zZ + y1)) <= g (Z.max f (zN + zZ + y1))) by (apply Gle'; lia).
      split; [qlra|]. split; [apply Glt'; lia|]. intros _. exact S1.
Qed.
End GridWeights.

Section GridTheorems.
Variable rnd : Qc -> Qc.
Variable B k : Z.
Hypothesis k0 : (0 <= k)%Z.
Hypothesis UB : (2 ^ k <= B)%Z.
Hypothesis rnd_mono : forall x y, x <= y -> rnd x <= rnd y.
Hypothesis rnd_grid : forall z : Z, (Z.abs z <= B)%Z -> rnd (gridv k z) = gridv k z.
Variable m : amapping.
Hypothesis mn0 : 0 <= am_min m.
Hypothesis idx_mono :
  forall x y, am_min m < x -> x <= y -> y <= am_max m -> (am_index m x <= am_index m y)%Z.

(* THEOREM B under rounding, weights z_i / 2^k with total n / 2^k, n <= B, 2^k <= B:
   the answer represents the value a of a split ys = l1 ++ a :: l2 of the sorted input such that a
   grid point t / 2^k between the grid neighbours of max 0 (q (W - 1)) satisfies
   C - 1 < t / 2^k < C + c  (C = weight before a, c = weight of a), and C <= t / 2^k unless a comes
   from the negative store *)
Theorem weighted_quantile_grid xs ys s q n :
  a_add_list m a_new xs = Some s -> Permutation xs ys -> StronglySorted vle ys -> gridw k ys ->
  ys <> [] -> wsum ys = gridv k n -> (n <= B)%Z -> 0 <= q -> q <= 1 ->
  exists l1 a l2 (t : Z),
    ys = l1 ++ a :: l2 /\
    a_quantile rnd m s q = Some (repr m (fst a)) /\
    (Z.max 0 (gfl k (q * (wsum ys - 1))) <= t <= Z.max 0 (gcl k (q * (wsum ys - 1))))%Z /\
    wsum l1 - 1 < gridv k t /\ gridv k t < wsum l1 + snd a /\
    (isN m a = false -> wsum l1 <= gridv k t).
Proof.
  intros Hadd Hperm Hs Hi Hne HWn HB Hq0 Hq1.
  assert (Hwx : wpos xs).
  { apply (wpos_perm ys); [apply Permutation_sym; exact Hperm|apply (gridw_wpos k k0); exact Hi]. }
  destruct (sketch_content m mn0 xs ys s Hadd Hperm Hwx) as [CP [CN [CZ Hok]]].
  pose proof (sorted_decomp m mn0 ys Hs) as Hdec.
  pose proof (weighted_grid_core rnd B k k0 UB rnd_mono rnd_grid m mn0 idx_mono
                (filter (isN m) ys) (filter (isZ m) ys) (filter (isP m) ys) s q n) as G.
  rewrite <- Hdec in G.
  assert (E : wsum ys - 1 = gridv k (n - 2 ^ k)).
  { rewrite HWn. change 1 with w1. rewrite <- (gv_U k k0). apply gv_minus. exact k0. }
  rewrite E. apply G; try assumption; apply Forall_filter_true.
Qed.

Lemma split_weights (ys l1 : list item) a l2 :
  wpos ys -> ys = l1 ++ a :: l2 -> w0 <= wsum l1 /\ w0 < snd a /\ wsum l1 + snd a <= wsum ys.
Proof.
  intros Hw E. rewrite E in Hw. unfold wpos in Hw. apply Forall_app in Hw. destruct Hw as [H1 H2].
  apply Forall_cons_iff in H2. destruct H2 as [H2 H3].
  pose proof (wsum_nonneg l1 H1) as A1. pose proof (wsum_nonneg l2 H3) as A3.
  rewrite E, wsum_app, wsum_cons. unfold wadd. split; [exact A1|]. split; [exact H2|]. qlra.
Qed.

(* in the form of C11: the cumulative interval of the selected value is within one unit of weight,
   plus one grid step, of q (W - 1) *)
Corollary weighted_quantile_grid_unit xs ys s q n :
  a_add_list m a_new xs = Some s -> Permutation xs ys -> StronglySorted vle ys -> gridw k ys ->
  ys <> [] -> wsum ys = gridv k n -> (n <= B)%Z -> 0 <= q -> q <= 1 ->
  exists l1 a l2,
    ys = l1 ++ a :: l2 /\
    a_quantile rnd m s q = Some (repr m (fst a)) /\
    wsum l1 - 1 - gridv k 1 < q * (wsum ys - 1) /\
    q * (wsum ys - 1) < wsum l1 + snd a + gridv k 1.
Proof.
  intros Hadd Hperm Hs Hi Hne HWn HB Hq0 Hq1.
  destruct (weighted_quantile_grid xs ys s q n Hadd Hperm Hs Hi Hne HWn HB Hq0 Hq1)
    as (l1 & a & l2 & t & E & K & [T1 T2] & L1 & L2 & _).
  exists l1, a, l2. split; [exact E|]. split; [exact K|].
  destruct (split_weights ys l1 a l2 (gridw_wpos k k0 _ Hi) E) as [W1 [W2 W3]].
  set (r := q * (wsum ys - 1)) in *.
  assert (Gp : forall x y, gridv k x + gridv k y = gridv k (x + y)) by (intros; apply gv_plus; exact k0).
  assert (Gle' : forall x y, (x <= y)%Z -> gridv k x <= gridv k y) by (intros x y; apply gv_le; exact k0).
  assert (Hu : 0 < gridv k 1).
  { change 0 with w0. rewrite <- (gv_0 k k0). apply gv_lt; [exact k0|lia]. }
  split.
  - destruct (Z.le_gt_cases 0 (gcl k r)) as [Hc|Hc].
    + rewrite Z.max_r in T2 by exact Hc.
      pose proof (gcl_gt k r k0) as H. pose proof (Gle' _ _ T2) as H2.
      assert (H3 : gridv k (gcl k r) = gridv k (gcl k r - 1) + gridv k 1).
      { rewrite Gp. f_equal. lia. }
      rewrite H3 in H2. qlra.
    + (* r < 0: the total weight is below 1 *)
      pose proof (gcl_ge k r k0) as H.
      assert (H0 : gridv k (gcl k r) < 0).
      { change 0 with w0. rewrite <- (gv_0 k k0). apply gv_lt; [exact k0|lia]. }
      assert (Hr : r < 0) by qlra.
      assert (HW : wsum ys - 1 <= 0).
      { apply Qcnot_lt_le. intros Hp. assert (Hp' : 0 <= wsum ys - 1) by qlra.
        destruct (mul_bracket q (wsum ys - 1) Hq0 Hq1 Hp') as [A _]. fold r in A. qlra. }
      destruct (mul_bracket_neg q (wsum ys - 1) Hq0 Hq1 HW) as [A _]. fold r in A. qlra.
  - pose proof (gfl_lt k r k0) as H. rewrite <- (Gp (gfl k r) 1%Z) in H.
    assert (H2 : gridv k (gfl k r) <= gridv k t) by (apply Gle'; lia). qlra.
Qed.

(* the answer is the representative of an absorbed value *)
Corollary weighted_quantile_grid_absorbed xs ys s q n :
  a_add_list m a_new xs = Some s -> Permutation xs ys -> StronglySorted vle ys -> gridw k ys ->
  ys <> [] -> wsum ys = gridv k n -> (n <= B)%Z -> 0 <= q -> q <= 1 ->
  exists a, In a xs /\ a_quantile rnd m s q = Some (repr m (fst a)).
Proof.
  intros Hadd Hperm Hs Hi Hne HWn HB Hq0 Hq1.
  destruct (weighted_quantile_grid xs ys s q n Hadd Hperm Hs Hi Hne HWn HB Hq0 Hq1)
    as (l1 & a & l2 & t & E & K & _).
  exists a. split; [|exact K]. apply (Permutation_in _ (Permutation_sym Hperm)). rewrite E. apply in_elt.
Qed.
(* ... hence never a value from an empty side, and between a_min and a_max (value premises on the
   keys of the sketch only) *)
Corollary weighted_quantile_grid_between xs ys s q n :
  vals_mono_on m s -> vals_nonneg_on m s ->
  a_add_list m a_new xs = Some s -> Permutation xs ys -> StronglySorted vle ys -> gridw k ys ->
  ys <> [] -> wsum ys = gridv k n -> (n <= B)%Z -> 0 <= q -> q <= 1 ->
  exists lo hi y, a_min m s = Some lo /\ a_max m s = Some hi /\
    a_quantile rnd m s q = Some y /\ lo <= y /\ y <= hi.
Proof.
  intros Hvm Hvn Hadd Hperm Hs Hi Hne HWn HB Hq0 Hq1.
  destruct (weighted_quantile_grid_absorbed xs ys s q n Hadd Hperm Hs Hi Hne HWn HB Hq0 Hq1) as [a [Ha K]].
  assert (Hwx : wpos xs).
  { apply (wpos_perm ys); [apply Permutation_sym; exact Hperm|apply (gridw_wpos k k0); exact Hi]. }
  destruct (absorbed_between_min_max_on_keys m mn0 xs s a Hvm Hvn Hadd Hwx Ha) as [lo [hi [M1 [M2 [M3 M4]]]]].
  exists lo, hi, (repr m (fst a)). repeat split; assumption.
Qed.
End GridTheorems.

(* ================================================================== *)
(** * 1b. The executed operator                                        *)
(* ================================================================== *)
(* From here on: Flocq facts, hence the four stdlib real-number axioms. *)
From Coq Require Import Reals Lra.
From Flocq Require Import Core.Core Relative IEEE754.BinarySingleNaN IEEE754.Binary.

(* round-to-nearest-even fixes the bounded grid points (GRID_q2f_exact, for the total operator) *)
Lemma rndQ_grid (k z : Z) : (0 <= k <= 1074)%Z -> (Z.abs z <= 2 ^ 53)%Z -> rndQ (gridv k z) = gridv k z.
Proof.
  intros Hk Hz. apply qR_inj. rewrite rndQ_R, qR_gridv by lia. apply rndR_id.
  apply gridv_format; assumption.
Qed.

Lemma gridv_mulU (k a : Z) : (0 <= k)%Z -> gridv k (a * 2 ^ k) = inj a.
Proof.
  intros Hk. apply (mulU_cancel _ _ (inj (2 ^ k)) (injU_pos k Hk)). rewrite gv_scale by exact Hk.
  apply Qc_is_canon. rewrite this_mult, !this_inj. rewrite inject_Z_mult. reflexivity.
Qed.
Lemma gridw_dyw (k : Z) (l : list item) : (0 <= k)%Z -> gridw k l -> dyw l.
Proof.
  intros Hk H. unfold gridw in H. unfold dyw. eapply Forall_impl; [|exact H].
  intros a [z [Hz ->]]. split.
  - apply (on_grid_dyadic k); [exact Hk|]. exists z. reflexivity.
  - rewrite <- (gv_0 k Hk). apply gv_le; [exact Hk|lia].
Qed.
Lemma grid_total_small (k n : Z) : (0 <= k)%Z -> (n <= 2 ^ 53)%Z -> gridv k n <= inj (2 ^ 1000).
Proof.
  intros Hk Hn. pose proof (pow2_pos k Hk) as Hp. pose proof pow53_le_pow1000 as H53.
  apply Qcle_trans with (inj (2 ^ 53)).
  - rewrite <- (gridv_mulU k (2 ^ 53) Hk). apply gv_le; [exact Hk|]. nia.
  - apply inj_mono. exact H53.
Qed.

Section GridRnd64.
Variable m : amapping.
Variable k : Z.
Hypothesis k53 : (0 <= k <= 53)%Z.
Hypothesis mn0 : 0 <= am_min m.
Hypothesis idx_mono :
  forall x y, am_min m < x -> x <= y -> y <= am_max m -> (am_index m x <= am_index m y)%Z.

Lemma k0' : (0 <= k)%Z. Proof. lia. Qed.
Lemma UB53 : (2 ^ k <= 2 ^ 53)%Z.
Proof. apply Z.pow_le_mono_r; lia. Qed.
Lemma rndQ_grid53 : forall z : Z, (Z.abs z <= 2 ^ 53)%Z -> rndQ (gridv k z) = gridv k z.
Proof. intros z Hz. apply rndQ_grid; [lia|exact Hz]. Qed.

(* the congruence rnd64 = rndQ on a sketch of grid weights *)
Lemma a_quantile_rnd64_eq_rndQ_grid xs ys s q n :
  a_add_list m a_new xs = Some s -> Permutation xs ys -> gridw k ys ->
  wsum ys = gridv k n -> (n <= 2 ^ 53)%Z -> dyadic q -> 0 <= q -> q <= 1 ->
  a_quantile rnd64 m s q = a_quantile rndQ m s q.
Proof.
  intros H Hperm Hi Hsum Hn Dq Hq0 Hq1.
  assert (Hw : dyw xs).
  { unfold dyw. eapply Permutation_Forall; [apply Permutation_sym; exact Hperm|].
    apply (gridw_dyw k); [exact k0'|exact Hi]. }
  apply (a_quantile_rnd64_eq_rndQ_built m xs s q Hw H); try assumption.
  rewrite (wsum_perm _ _ Hperm), Hsum. apply grid_total_small; [exact k0'|exact Hn].
Qed.

Theorem weighted_quantile_grid_rnd64 xs ys s q n :
  a_add_list m a_new xs = Some s -> Permutation xs ys -> StronglySorted vle ys -> gridw k ys ->
  ys <> [] -> wsum ys = gridv k n -> (n <= 2 ^ 53)%Z -> dyadic q -> 0 <= q -> q <= 1 ->
  exists l1 a l2 (t : Z),
    ys = l1 ++ a :: l2 /\
    a_quantile rnd64 m s q = Some (repr m (fst a)) /\
    (Z.max 0 (gfl k (q * (wsum ys - 1))) <= t <= Z.max 0 (gcl k (q * (wsum ys - 1))))%Z /\
    wsum l1 - 1 < gridv k t /\ gridv k t < wsum l1 + snd a /\
    (isN m a = false -> wsum l1 <= gridv k t).
Proof.
  intros Hadd Hperm Hs Hi Hne HWn HB Dq Hq0 Hq1.
  rewrite (a_quantile_rnd64_eq_rndQ_grid xs ys s q n Hadd Hperm Hi HWn HB Dq Hq0 Hq1).
  exact (weighted_quantile_grid rndQ (2 ^ 53) k k0' UB53 rndQ_mono rndQ_grid53 m mn0 idx_mono
           xs ys s q n Hadd Hperm Hs Hi Hne HWn HB Hq0 Hq1).
Qed.
Theorem weighted_quantile_grid_unit_rnd64 xs ys s q n :
  a_add_list m a_new xs = Some s -> Permutation xs ys -> StronglySorted vle ys -> gridw k ys ->
  ys <> [] -> wsum ys = gridv k n -> (n <= 2 ^ 53)%Z -> dyadic q -> 0 <= q -> q <= 1 ->
  exists l1 a l2,
    ys = l1 ++ a :: l2 /\
    a_quantile rnd64 m s q = Some (repr m (fst a)) /\
    wsum l1 - 1 - gridv k 1 < q * (wsum ys - 1) /\
    q * (wsum ys - 1) < wsum l1 + snd a + gridv k 1.
Proof.
  intros Hadd Hperm Hs Hi Hne HWn HB Dq Hq0 Hq1.
  rewrite (a_quantile_rnd64_eq_rndQ_grid xs ys s q n Hadd Hperm Hi HWn HB Dq Hq0 Hq1).
  exact (weighted_quantile_grid_unit rndQ (2 ^ 53) k k0' UB53 rndQ_mono rndQ_grid53 m mn0 idx_mono
           xs ys s q n Hadd Hperm Hs Hi Hne HWn HB Hq0 Hq1).
Qed.
Theorem weighted_quantile_grid_absorbed_rnd64 xs ys s q n :
  a_add_list m a_new xs = Some s -> Permutation xs ys -> StronglySorted vle ys -> gridw k ys ->
  ys <> [] -> wsum ys = gridv k n -> (n <= 2 ^ 53)%Z -> dyadic q -> 0 <= q -> q <= 1 ->
  exists a, In a xs /\ a_quantile rnd64 m s q = Some (repr m (fst a)).
Proof.
  intros Hadd Hperm Hs Hi Hne HWn HB Dq Hq0 Hq1.
  rewrite (a_quantile_rnd64_eq_rndQ_grid xs ys s q n Hadd Hperm Hi HWn HB Dq Hq0 Hq1).
  exact (weighted_quantile_grid_absorbed rndQ (2 ^ 53) k k0' UB53 rndQ_mono rndQ_grid53 m mn0 idx_mono
           xs ys s q n Hadd Hperm Hs Hi Hne HWn HB Hq0 Hq1).
Qed.
Theorem weighted_quantile_grid_between_rnd64 xs ys s q n :
  vals_mono_on m s -> vals_nonneg_on m s ->
  a_add_list m a_new xs = Some s -> Permutation xs ys -> StronglySorted vle ys -> gridw k ys ->
  ys <> [] -> wsum ys = gridv k n -> (n <= 2 ^ 53)%Z -> dyadic q -> 0 <= q -> q <= 1 ->
  exists lo hi y, a_min m s = Some lo /\ a_max m s = Some hi /\
    a_quantile rnd64 m s q = Some y /\ lo <= y /\ y <= hi.
Proof.
  intros Hvm Hvn Hadd Hperm Hs Hi Hne HWn HB Dq Hq0 Hq1.
  rewrite (a_quantile_rnd64_eq_rndQ_grid xs ys s q n Hadd Hperm Hi HWn HB Dq Hq0 Hq1).
  exact (weighted_quantile_grid_between rndQ (2 ^ 53) k k0' UB53 rndQ_mono rndQ_grid53 m mn0 idx_mono
           xs ys s q n Hvm Hvn Hadd Hperm Hs Hi Hne HWn HB Hq0 Hq1).
Qed.
End GridRnd64.

(* ================================================================== *)
(** * 3. C20: floor / ceiling of the rounded rank vs the literal rank  *)
(* ================================================================== *)
From SK Require Data.Dataset Data.DatasetProofs.
Import Data.Dataset.
Module DP3 := Data.DatasetProofs.
Local Open Scope Qc_scope.

Section RankLiteral.
Variable rnd : Qc -> Qc.
Variable B : Z.
Hypothesis rnd_mono : forall x y : Qc, x <= y -> rnd x <= rnd y.
Hypothesis rnd_int : forall z : Z, (0 <= z <= B)%Z -> rnd (DP3.inj z) = DP3.inj z.

Lemma qfloor_lt_succ (x : Qc) : x < DP3.inj (qfloor x + 1).
Proof.
  apply Qcnot_le_lt. intros H. apply DP3.qfloor_lb in H. lia.
Qed.
Lemma qceil_gt_pred (x : Qc) : DP3.inj (qceil x - 1) < x.
Proof.
  apply Qcnot_le_lt. intros H. apply DP3.qceil_ub in H. lia.
Qed.

(* LowerQuantile's index floor (rnd r) is the literal floor r, except when the rounding carries r up to
   the next integer: then r is not an integer and the index is ceil r = floor r + 1 *)
Theorem floor_of_rounded (r : Qc) : (0 <= qfloor r)%Z -> (qceil r <= B)%Z ->
  (qfloor (rnd r) = qfloor r /\ rnd r < DP3.inj (qfloor r + 1)) \/
  (qfloor (rnd r) = (qfloor r + 1)%Z /\ rnd r = DP3.inj (qfloor r + 1) /\ r < rnd r /\
   qceil r = (qfloor r + 1)%Z).
Proof.
  intros H0 HB.
  destruct (DP3.rank_between_floor_ceil rnd B rnd_mono rnd_int r H0 HB) as (A1 & A2 & A3 & A4).
  destruct (Qclt_le_dec (rnd r) (DP3.inj (qfloor r + 1))) as [L|G].
  - left. split; [|exact L].
    destruct (Z.le_gt_cases (qfloor r + 1) (qfloor (rnd r))) as [C|C]; [|lia]. exfalso.
    apply DP3.inj_le_mono in C. pose proof (DP3.qfloor_le (rnd r)) as Hf.
    exact (Qclt_not_le _ _ L (Qcle_trans _ _ _ C Hf)).
  - right. pose proof (DP3.qfloor_lb _ _ G) as C.
    assert (E : qfloor (rnd r) = (qfloor r + 1)%Z) by lia.
    assert (Ec : qceil r = (qfloor r + 1)%Z) by lia.
    assert (Er : rnd r = DP3.inj (qfloor r + 1)).
    { apply Qcle_antisym; [|exact G]. eapply Qcle_trans; [apply DP3.qceil_ge|].
      apply DP3.inj_le_mono. lia. }
    split; [exact E|]. split; [exact Er|]. split; [|exact Ec]. rewrite Er. apply qfloor_lt_succ.
Qed.
(* UpperQuantile's index ceil (rnd r) is the literal ceil r, except when the rounding carries r down to
   the previous integer *)
Theorem ceil_of_rounded (r : Qc) : (0 <= qfloor r)%Z -> (qceil r <= B)%Z ->
  (qceil (rnd r) = qceil r /\ DP3.inj (qceil r - 1) < rnd r) \/
  (qceil (rnd r) = (qceil r - 1)%Z /\ rnd r = DP3.inj (qceil r - 1) /\ rnd r < r /\
   qfloor r = (qceil r - 1)%Z).
Proof.
  intros H0 HB.
  destruct (DP3.rank_between_floor_ceil rnd B rnd_mono rnd_int r H0 HB) as (A1 & A2 & A3 & A4).
  destruct (Qclt_le_dec (DP3.inj (qceil r - 1)) (rnd r)) as [L|G].
  - left. split; [|exact L].
    destruct (Z.le_gt_cases (qceil (rnd r)) (qceil r - 1)) as [C|C]; [|lia]. exfalso.
    apply DP3.inj_le_mono in C. pose proof (DP3.qceil_ge (rnd r)) as Hf.
    exact (Qclt_not_le _ _ L (Qcle_trans _ _ _ Hf C)).
  - right. pose proof (DP3.qceil_ub _ _ G) as C.
    assert (E : qceil (rnd r) = (qceil r - 1)%Z) by lia.
    assert (Ec : qfloor r = (qceil r - 1)%Z) by lia.
    assert (Er : rnd r = DP3.inj (qceil r - 1)).
    { apply Qcle_antisym; [exact G|]. eapply Qcle_trans; [|apply DP3.qfloor_le].
      apply DP3.inj_le_mono. lia. }
    split; [exact E|]. split; [exact Er|]. split; [|exact Ec]. rewrite Er. apply qceil_gt_pred.
Qed.
(* a rank the rounding leaves alone (e.g. an exactly representable q (n - 1)) is read literally *)
Corollary literal_when_exact (r : Qc) : rnd r = r -> qfloor (rnd r) = qfloor r /\ qceil (rnd r) = qceil r.
Proof. intros E. rewrite E. split; reflexivity. Qed.
End RankLiteral.

(* binary64: the relative error of one rounding *)
Definition eps53 : Qc := Q2Qc (pow2Q (-53)).
Lemma qR_eps53 : qR eps53 = bpow radix2 (-53).
Proof. unfold eps53. rewrite qR_Q2Qc. apply Q2R_pow2Q. Qed.
Lemma rndQ_err_rel (q : Qc) :
  (bpow radix2 (-1022) <= Rabs (qR q))%R ->
  (Rabs (qR (rndQ q) - qR q) <= bpow radix2 (-53) * Rabs (qR q))%R.
Proof.
  intros Hn. rewrite rndQ_R. unfold rndR.
  replace (bpow radix2 (-53)) with (/ 2 * bpow radix2 (- (53) + 1))%R.
  - apply relative_error_N_FLT; [reflexivity|exact Hn].
  - change (- (53) + 1)%Z with (-53 + 1)%Z. rewrite bpow_plus.
    change (bpow radix2 1) with 2%R. field.
Qed.
Lemma rndQ_half : rndQ (gridv 1 1) = gridv 1 1.
Proof. apply rndQ_grid; [lia|vm_compute; discriminate]. Qed.
Lemma qR_half : qR (gridv 1 1) = (/ 2)%R.
Proof. rewrite qR_gridv by lia. change (bpow radix2 (- (1))) with (/ 2)%R. lra. Qed.
Lemma rndQ_int3 : forall z : Z, (0 <= z <= 2 ^ 53)%Z -> rndQ (DP3.inj z) = DP3.inj z.
Proof. intros z Hz. apply rndQ_int. rewrite Z.abs_eq; lia. Qed.
Lemma rel_err_Qc (r : Qc) :
  gridv 1 1 <= r -> Qcabs (rndQ r - r) <= eps53 * r.
Proof.
  intros Hh. assert (Hh' : (/ 2 <= qR r)%R) by (rewrite <- qR_half; apply qR_le; exact Hh).
  assert (Hn : (bpow radix2 (-1022) <= Rabs (qR r))%R).
  { rewrite Rabs_pos_eq by lra. eapply Rle_trans; [|exact Hh'].
    change (/ 2)%R with (bpow radix2 (-1)). apply bpow_le. lia. }
  pose proof (rndQ_err_rel r Hn) as H. rewrite (Rabs_pos_eq (qR r)) in H by lra.
  apply Qcabs_Qcle_condition. apply Rabs_le_inv in H. destruct H as [H1 H2].
  split; apply qR_le; rewrite ?qR_opp, qR_minus, qR_mult, qR_eps53; lra.
Qed.

(* the literal reading of LowerQuantile fails only when r = q (n - 1) is within relative distance
   2^-53 BELOW the next integer, that of UpperQuantile only within 2^-53 ABOVE the previous one *)
Theorem rndQ_floor_crossing (r : Qc) : (0 <= qfloor r)%Z -> (qceil r <= 2 ^ 53)%Z ->
  qfloor (rndQ r) <> qfloor r ->
  qfloor (rndQ r) = (qfloor r + 1)%Z /\ r < DP3.inj (qfloor r + 1) /\
  DP3.inj (qfloor r + 1) - r <= eps53 * r.
Proof.
  intros H0 HB Hne.
  destruct (floor_of_rounded rndQ (2 ^ 53) rndQ_mono rndQ_int3 r H0 HB) as [[E _]|(E & Er & Hlt & _)];
    [contradiction|].
  split; [exact E|]. split; [rewrite <- Er; exact Hlt|].
  assert (Hh : gridv 1 1 <= r).
  { apply Qcnot_lt_le. intros Hs. apply Qclt_le_weak in Hs. apply rndQ_mono in Hs.
    rewrite rndQ_half, Er in Hs.
    assert (H1 : DP3.inj 1 <= DP3.inj (qfloor r + 1)) by (apply DP3.inj_le_mono; lia).
    assert (H2 : gridv 1 1 < DP3.inj 1) by (vm_compute; reflexivity).
    exact (Qclt_not_le _ _ H2 (Qcle_trans _ _ _ H1 Hs)). }
  pose proof (rel_err_Qc r Hh) as H. rewrite Er in H. rewrite Qcabs_pos in H; [exact H|].
  rewrite Er in Hlt. unfold Qcminus. apply Qclt_le_weak in Hlt. qlra.
Qed.
Theorem rndQ_ceil_crossing (r : Qc) : (0 <= qfloor r)%Z -> (qceil r <= 2 ^ 53)%Z ->
  (0 < r -> gridv 1074 1 <= r) ->
  qceil (rndQ r) <> qceil r ->
  qceil (rndQ r) = (qceil r - 1)%Z /\ DP3.inj (qceil r - 1) < r /\
  r - DP3.inj (qceil r - 1) <= eps53 * r.
Proof.
  intros H0 HB Hmin Hne.
  destruct (ceil_of_rounded rndQ (2 ^ 53) rndQ_mono rndQ_int3 r H0 HB) as [[E _]|(E & Er & Hlt & Ef)];
    [contradiction|].
  split; [exact E|]. split; [rewrite <- Er; exact Hlt|].
  assert (Hh : gridv 1 1 <= r).
  { apply Qcnot_lt_le. intros Hs.
    assert (Hr1 : r <= DP3.inj 1).
    { apply Qclt_le_weak. eapply Qclt_le_trans; [exact Hs|]. vm_compute. discriminate. }
    apply DP3.qceil_ub in Hr1.
    assert (Ec : qceil r = 1%Z) by lia. rewrite Ec in Er. change (1 - 1)%Z with 0%Z in Er.
    (* r > 0 would round to 0: excluded, r is at least the least positive binary64 *)
    rewrite Er in Hlt. specialize (Hmin Hlt). apply rndQ_mono in Hmin.
    rewrite rndQ_grid in Hmin by (try lia; vm_compute; discriminate). rewrite Er in Hmin.
    assert (Hp : DP3.inj 0 < gridv 1074 1) by (vm_compute; reflexivity).
    exact (Qclt_not_le _ _ Hp Hmin). }
  pose proof (rel_err_Qc r Hh) as H. rewrite Er in H.
  rewrite Qcabs_neg in H.
  - replace (- (DP3.inj (qceil r - 1) - r)) with (r - DP3.inj (qceil r - 1)) in H by ring. exact H.
  - rewrite Er in Hlt. apply Qclt_le_weak in Hlt. qlra.
Qed.

(* the dataset: what LowerQuantile / UpperQuantile return, against the literal order statistics *)
Section DatasetLiteral.
Variable sort : list Qc -> list Qc.
Hypothesis sort_sorted : forall l, Sorted Qcle (sort l).
Hypothesis sort_perm : forall l, Permutation l (sort l).

Theorem lower_vs_literal_rndQ (pre : list DP3.op) (q : Qc) :
  let xs := DP3.adds pre in
  let r := q * (DP3.inj (Z.of_nat (length xs)) - 1) in
  xs <> [] -> 0 <= q -> q <= 1 -> (Z.of_nat (length xs) - 1 <= 2 ^ 53)%Z ->
  exists j : Z,
    snd (DP3.run sort rndQ (pre ++ [DP3.OLower (Some q)]) d_new) =
      snd (DP3.run sort rndQ pre d_new) ++ [nth_error (sort xs) (Z.to_nat j)] /\
    (0 <= j <= Z.of_nat (length xs) - 1)%Z /\
    (j = qfloor r \/
     (j = (qfloor r + 1)%Z /\ j = qceil r /\ r < DP3.inj j /\ DP3.inj j - r <= eps53 * r)).
Proof.
  intros xs r Hne Hq0 Hq1 HB.
  destruct (DP3.lower_is_order_statistic sort rndQ (2 ^ 53) sort_sorted sort_perm rndQ_mono rndQ_int3
              pre q Hne Hq0 Hq1 HB) as (E & K & _).
  destruct (DP3.quantile_position_bracket rndQ (2 ^ 53) rndQ_mono rndQ_int3 xs q Hne Hq0 Hq1 HB)
    as (B0 & B1 & B2 & B3 & B4 & B5).
  fold xs in E, K. fold r in E, K, B0, B1, B2, B3, B4, B5.
  exists (qfloor (rndQ r)). split; [exact E|]. split; [lia|].
  destruct (Z.eq_dec (qfloor (rndQ r)) (qfloor r)) as [Eq|Ne]; [left; exact Eq|right].
  destruct (rndQ_floor_crossing r B0 ltac:(lia) Ne) as (C1 & C2 & C3).
  rewrite C1. split; [reflexivity|]. split; [lia|]. split; assumption.
Qed.
Theorem upper_vs_literal_rndQ (pre : list DP3.op) (q : Qc) :
  let xs := DP3.adds pre in
  let r := q * (DP3.inj (Z.of_nat (length xs)) - 1) in
  xs <> [] -> 0 <= q -> q <= 1 -> (Z.of_nat (length xs) - 1 <= 2 ^ 53)%Z ->
  (0 < r -> gridv 1074 1 <= r) ->
  exists j : Z,
    snd (DP3.run sort rndQ (pre ++ [DP3.OUpper (Some q)]) d_new) =
      snd (DP3.run sort rndQ pre d_new) ++ [nth_error (sort xs) (Z.to_nat j)] /\
    (0 <= j <= Z.of_nat (length xs) - 1)%Z /\
    (j = qceil r \/
     (j = (qceil r - 1)%Z /\ j = qfloor r /\ DP3.inj j < r /\ r - DP3.inj j <= eps53 * r)).
Proof.
  intros xs r Hne Hq0 Hq1 HB Hmin.
  destruct (DP3.upper_is_order_statistic sort rndQ (2 ^ 53) sort_sorted sort_perm rndQ_mono rndQ_int3
              pre q Hne Hq0 Hq1 HB) as (E & K & _).
  destruct (DP3.quantile_position_bracket rndQ (2 ^ 53) rndQ_mono rndQ_int3 xs q Hne Hq0 Hq1 HB)
    as (B0 & B1 & B2 & B3 & B4 & B5).
  fold xs in E, K. fold r in E, K, B0, B1, B2, B3, B4, B5.
  exists (qceil (rndQ r)). split; [exact E|]. split; [lia|].
  destruct (Z.eq_dec (qceil (rndQ r)) (qceil r)) as [Eq|Ne]; [left; exact Eq|right].
  destruct (rndQ_ceil_crossing r B0 ltac:(lia) Hmin Ne) as (C1 & C2 & C3).
  rewrite C1. split; [reflexivity|]. split; [lia|]. split; assumption.
Qed.
(* the literal statement, under the condition that makes it true *)
Corollary lower_literal_rndQ (pre : list DP3.op) (q : Qc) :
  let xs := DP3.adds pre in
  let r := q * (DP3.inj (Z.of_nat (length xs)) - 1) in
  xs <> [] -> 0 <= q -> q <= 1 -> (Z.of_nat (length xs) - 1 <= 2 ^ 53)%Z ->
  eps53 * r < DP3.inj (qfloor r + 1) - r ->
  snd (DP3.run sort rndQ (pre ++ [DP3.OLower (Some q)]) d_new) =
    snd (DP3.run sort rndQ pre d_new) ++ [nth_error (sort xs) (Z.to_nat (qfloor r))].
Proof.
  intros xs r Hne Hq0 Hq1 HB Hfar.
  destruct (lower_vs_literal_rndQ pre q Hne Hq0 Hq1 HB) as (j & E & _ & [J|(J & _ & _ & C)]).
  - fold xs in E. rewrite E. fold r in J. rewrite J. reflexivity.
  - exfalso. fold xs r in J, C. rewrite J in C. exact (Qclt_not_le _ _ Hfar C).
Qed.
Corollary upper_literal_rndQ (pre : list DP3.op) (q : Qc) :
  let xs := DP3.adds pre in
  let r := q * (DP3.inj (Z.of_nat (length xs)) - 1) in
  xs <> [] -> 0 <= q -> q <= 1 -> (Z.of_nat (length xs) - 1 <= 2 ^ 53)%Z ->
  (0 < r -> gridv 1074 1 <= r) ->
  eps53 * r < r - DP3.inj (qceil r - 1) ->
  snd (DP3.run sort rndQ (pre ++ [DP3.OUpper (Some q)]) d_new) =
    snd (DP3.run sort rndQ pre d_new) ++ [nth_error (sort xs) (Z.to_nat (qceil r))].
Proof.
  intros xs r Hne Hq0 Hq1 HB Hmin Hfar.
  destruct (upper_vs_literal_rndQ pre q Hne Hq0 Hq1 HB Hmin) as (j & E & _ & [J|(J & _ & _ & C)]).
  - fold xs in E. rewrite E. fold r in J. rewrite J. reflexivity.
  - exfalso. fold xs r in J, C. rewrite J in C. exact (Qclt_not_le _ _ Hfar C).
Qed.
(* an exactly representable rank *)
Corollary literal_exact_rank_rndQ (pre : list DP3.op) (q : Qc) :
  let xs := DP3.adds pre in
  let r := q * (DP3.inj (Z.of_nat (length xs)) - 1) in
  xs <> [] -> 0 <= q -> q <= 1 -> (Z.of_nat (length xs) - 1 <= 2 ^ 53)%Z ->
  rndQ r = r ->
  snd (DP3.run sort rndQ (pre ++ [DP3.OLower (Some q)]) d_new) =
    snd (DP3.run sort rndQ pre d_new) ++ [nth_error (sort xs) (Z.to_nat (qfloor r))] /\
  snd (DP3.run sort rndQ (pre ++ [DP3.OUpper (Some q)]) d_new) =
    snd (DP3.run sort rndQ pre d_new) ++ [nth_error (sort xs) (Z.to_nat (qceil r))].
Proof.
  intros xs r Hne Hq0 Hq1 HB Ex.
  destruct (DP3.lower_is_order_statistic sort rndQ (2 ^ 53) sort_sorted sort_perm rndQ_mono rndQ_int3
              pre q Hne Hq0 Hq1 HB) as (E & _).
  destruct (DP3.upper_is_order_statistic sort rndQ (2 ^ 53) sort_sorted sort_perm rndQ_mono rndQ_int3
              pre q Hne Hq0 Hq1 HB) as (E' & _).
  fold xs in E, E'. fold r in E, E'. rewrite Ex in E, E'. split; assumption.
Qed.

(* the executed operator: histories whose quantile arguments are binary64 values *)
Lemma run_query_rnd64 (pre : list DP3.op) (o : DP3.op) :
  Forall dy_op pre -> dy_op o -> DP3.adds1 o = [] ->
  (Z.of_nat (length (DP3.adds pre)) <= 2 ^ 1000)%Z ->
  DP3.run sort rnd64 (pre ++ [o]) d_new = DP3.run sort rndQ (pre ++ [o]) d_new /\
  DP3.run sort rnd64 pre d_new = DP3.run sort rndQ pre d_new.
Proof.
  intros Hd Ho Hadd Hn. split.
  - apply (run_rnd64_eq_rndQ sort sort_sorted sort_perm).
    + apply Forall_app. split; [exact Hd|]. constructor; [exact Ho|constructor].
    + rewrite DP3.adds_app. change (DP3.adds [o]) with (DP3.adds1 o ++ []). rewrite Hadd, app_nil_r. exact Hn.
  - apply (run_rnd64_eq_rndQ sort sort_sorted sort_perm); assumption.
Qed.
Theorem lower_vs_literal_rnd64 (pre : list DP3.op) (q : Qc) :
  let xs := DP3.adds pre in
  let r := q * (DP3.inj (Z.of_nat (length xs)) - 1) in
  Forall dy_op pre -> dyadic q ->
  xs <> [] -> 0 <= q -> q <= 1 -> (Z.of_nat (length xs) - 1 <= 2 ^ 53)%Z ->
  exists j : Z,
    snd (DP3.run sort rnd64 (pre ++ [DP3.OLower (Some q)]) d_new) =
      snd (DP3.run sort rnd64 pre d_new) ++ [nth_error (sort xs) (Z.to_nat j)] /\
    (0 <= j <= Z.of_nat (length xs) - 1)%Z /\
    (j = qfloor r \/
     (j = (qfloor r + 1)%Z /\ j = qceil r /\ r < DP3.inj j /\ DP3.inj j - r <= eps53 * r)).
Proof.
  intros xs r Hd Dq Hne Hq0 Hq1 HB.
  assert (Hn : (Z.of_nat (length (DP3.adds pre)) <= 2 ^ 1000)%Z).
  { assert (2 ^ 53 + 1 <= 2 ^ 1000)%Z by (apply Z.leb_le; vm_compute; reflexivity). fold xs. lia. }
  destruct (run_query_rnd64 pre (DP3.OLower (Some q)) Hd Dq eq_refl Hn) as [E1 E2].
  rewrite E1, E2. exact (lower_vs_literal_rndQ pre q Hne Hq0 Hq1 HB).
Qed.
Theorem upper_vs_literal_rnd64 (pre : list DP3.op) (q : Qc) :
  let xs := DP3.adds pre in
  let r := q * (DP3.inj (Z.of_nat (length xs)) - 1) in
  Forall dy_op pre -> dyadic q ->
  xs <> [] -> 0 <= q -> q <= 1 -> (Z.of_nat (length xs) - 1 <= 2 ^ 53)%Z ->
  (0 < r -> gridv 1074 1 <= r) ->
  exists j : Z,
    snd (DP3.run sort rnd64 (pre ++ [DP3.OUpper (Some q)]) d_new) =
      snd (DP3.run sort rnd64 pre d_new) ++ [nth_error (sort xs) (Z.to_nat j)] /\
    (0 <= j <= Z.of_nat (length xs) - 1)%Z /\
    (j = qceil r \/
     (j = (qceil r - 1)%Z /\ j = qfloor r /\ DP3.inj j < r /\ r - DP3.inj j <= eps53 * r)).
Proof.
  intros xs r Hd Dq Hne Hq0 Hq1 HB Hmin.
  assert (Hn : (Z.of_nat (length (DP3.adds pre)) <= 2 ^ 1000)%Z).
  { assert (2 ^ 53 + 1 <= 2 ^ 1000)%Z by (apply Z.leb_le; vm_compute; reflexivity). fold xs. lia. }
  destruct (run_query_rnd64 pre (DP3.OUpper (Some q)) Hd Dq eq_refl Hn) as [E1 E2].
  rewrite E1, E2. exact (upper_vs_literal_rndQ pre q Hne Hq0 Hq1 HB Hmin).
Qed.
End DatasetLiteral.

(* a positive binary64 value is at least the least positive binary64 2^-1074 *)
Lemma float_pos_ge_min (x : f64) : 0 < f2q x -> gridv 1074 1 <= f2q x.
Proof.
  intros Hpos. destruct (is_finite 53 1024 x) eqn:HF.
  - apply qR_le. apply qR_lt in Hpos. rewrite qR_gridv by lia.
    rewrite (f2q_B2R x HF) in *. change (qR 0) with (qR w0) in Hpos. rewrite qR_w0 in Hpos.
    replace (IZR 1 * bpow radix2 (- (1074)))%R with (bpow radix2 (-1074)) by (simpl; lra).
    apply (generic_format_ge_bpow radix2 (FLT_exp (-1074) 53)).
    + intros e. unfold FLT_exp. lia.
    + exact Hpos.
    + exact (generic_format_B2R 53 1024 x).
  - rewrite (f2q_not_finite x HF) in Hpos. exfalso. exact (Qclt_not_le _ _ Hpos (Qcle_refl _)).
Qed.
(* a binary64 q and n >= 2 values: a positive rank is at least 2^-1074 (no underflow to 0) *)
Lemma rank_min_of_float (x : f64) (n : nat) :
  (2 <= n)%nat -> 0 < f2q x * (DP3.inj (Z.of_nat n) - 1) -> gridv 1074 1 <= f2q x * (DP3.inj (Z.of_nat n) - 1).
Proof.
  intros Hn Hpos.
  assert (H1 : 1 <= DP3.inj (Z.of_nat n) - 1).
  { change 1 with (DP3.inj 1). rewrite DP3.inj_minus. apply DP3.inj_le_mono. lia. }
  assert (Hq : 0 < f2q x).
  { apply Qcnot_le_lt. intros Hle.
    assert (Hm : f2q x * (DP3.inj (Z.of_nat n) - 1) <= 0).
    { assert (H0 : 0 <= DP3.inj (Z.of_nat n) - 1) by qlra.
      pose proof (Qcmult_le_compat_r _ _ _ Hle H0) as H. rewrite Qcmult_0_l in H. exact H. }
    exact (Qclt_not_le _ _ Hpos Hm). }
  pose proof (float_pos_ge_min x Hq) as Hx.
  apply Qcle_trans with (f2q x * 1); [rewrite Qcmult_1_r; exact Hx|].
  rewrite !(Qcmult_comm (f2q x)). apply Qcmult_le_compat_r; [exact H1|apply Qclt_le_weak; exact Hq].
Qed.

(* ================================================================== *)
(** * 2. C12 on the executed sketch (Layer B)                          *)
(* ================================================================== *)
From SK Require Import Store.Any Store.AnyProofs Stat.Summary Sketch.Sketch Sketch.RefineProofs.
Local Open Scope Qc_scope.

(* AddWithCount(v, c) for each pair in turn; the first refusal / panic ends the run *)
Fixpoint plain_add_list (mt : mtable) (s : sketch) (l : list (f64 * f64)) : result sketch :=
  match l with
  | [] => ROk s
  | vc :: tl => match plain_add mt s (fst vc) (snd vc) with ROk s' => plain_add_list mt s' tl | r => r end
  end.
(* the exact values and weights of the input *)
Definition qitems (l : list (f64 * f64)) : list item := map (fun vc => (f2q (fst vc), f2q (snd vc))) l.
(* finite values within the indexable range, finite weights >= 0 *)
Definition adds_ok (mt : mtable) (l : list (f64 * f64)) : Prop :=
  Forall (fun vc => f_is_finite (fst vc) = true /\ f_is_finite (snd vc) = true /\ w0 <= f2q (snd vc) /\
                    Qcabs (f2q (fst vc)) <= f2q (mt_max mt)) l.

Lemma a_add_in_range m lp ln a v c :
  Qcabs v <= am_max m -> exists a', a_add m lp ln a v c = AAdded a'.
Proof.
  intros H. apply Qcabs_Qcle_condition in H. destruct H as [H1 H2]. unfold a_add.
  destruct (wltb_spec (am_min m) v) as [E1|E1].
  - destruct (wltb_spec (am_max m) v) as [E2|E2]; [exfalso; exact (Qclt_not_le _ _ E2 H2)|eexists; reflexivity].
  - destruct (wltb_spec v (- am_min m)) as [E3|E3]; [|eexists; reflexivity].
    destruct (wltb_spec v (- am_max m)) as [E2|E2]; [exfalso; exact (Qclt_not_le _ _ E2 H1)|eexists; reflexivity].
Qed.

(* the run does not panic, keeps the invariant and the kinds, and its abstraction is the Layer A
   build with the limits of the two stores *)
Lemma plain_add_list_refines mt l : forall s,
  mt_ok mt -> SkInv s -> adds_ok mt l ->
  exists s', plain_add_list mt s l = ROk s' /\ SkInv s' /\ sk_same s s' /\
             sk_abs s' = a_build (am_of mt) (sk_lp s) (sk_ln s) (sk_abs s) (qitems l).
Proof.
  induction l as [|[v c] l IH]; intros s Hm Hs Hl.
  - exists s. split; [reflexivity|]. split; [exact Hs|]. split; [apply sk_same_refl|reflexivity].
  - inversion Hl as [|x y (Fv & Fc & Hc & Hr) Hl']; subst. cbn [fst snd] in Fv, Fc, Hc, Hr.
    pose proof (plain_add_refines mt s v c Hm Hs Fv Fc Hc) as H.
    destruct (a_add_in_range (am_of mt) (sk_lp s) (sk_ln s) (sk_abs s) (f2q v) (f2q c) Hr) as [a' Ea].
    rewrite Ea in H. destruct H as (s1 & E1 & I1 & K1 & A1 & _).
    destruct (IH s1 Hm I1 Hl') as (s' & E' & I' & K' & A').
    exists s'. cbn [plain_add_list fst snd]. rewrite E1. split; [exact E'|]. split; [exact I'|].
    split; [eapply sk_same_trans; eassumption|].
    rewrite A', (sk_same_lp _ _ K1), (sk_same_ln _ _ K1), A1.
    unfold qitems. cbn [map fst snd]. rewrite a_build_cons. unfold a_addx. rewrite Ea. reflexivity.
Qed.

Lemma qitems_in l vc : In vc l -> In (f2q (fst vc), f2q (snd vc)) (qitems l).
Proof. intros H. unfold qitems. apply in_map_iff. exists vc. split; [reflexivity|exact H]. Qed.
Lemma qitems_in_inv l a : In a (qitems l) -> exists vc, In vc l /\ a = (f2q (fst vc), f2q (snd vc)).
Proof. unfold qitems. intros H. apply in_map_iff in H. destruct H as [vc [E Hin]]. exists vc. split; [exact Hin|symmetry; exact E]. Qed.

Section Executed.
Variable mt : mtable.
Variable mid : mapid.
Variables kp kn : kind.
Variable exact : bool.
Hypothesis Hmt : mt_ok mt.
Hypothesis Hkp : kind_ok kp.
Hypothesis Hkn : kind_ok kn.

Let m := am_of mt.
Let lp := kind_limit kp.
Let ln := kind_limit kn.

(* a sketch built from a new one: its abstraction *)
Theorem built_refines l :
  adds_ok mt l ->
  exists s ax, plain_add_list mt (sk_new mid kp kn exact) l = ROk s /\ SkInv s /\
    a_add_list m a_new (qitems l) = Some ax /\ awf ax /\
    sk_abs s = a_norm lp ln ax /\ sk_abs s = a_build m lp ln a_new (qitems l) /\
    st_kind (sk_pos s) = kp /\ st_kind (sk_neg s) = kn.
Proof.
  intros Hl. set (s0 := sk_new mid kp kn exact).
  pose proof (SkInv_new mid kp kn exact Hkp Hkn) as I0. fold s0 in I0.
  assert (L0p : sk_lp s0 = lp) by (unfold sk_lp, s0, lp; cbn [sk_new sk_pos]; apply st_limit_new).
  assert (L0n : sk_ln s0 = ln) by (unfold sk_ln, s0, ln; cbn [sk_new sk_neg]; apply st_limit_new).
  destruct (plain_add_list_refines mt l s0 Hmt I0 Hl) as (s & E & Is & Ks & As).
  rewrite L0p, L0n in As. unfold s0 in As at 1. rewrite sk_abs_new in As. fold m in As.
  destruct (a_add_list_total m (qitems l) a_new) as [ax Eax].
  { intros a Ha. destruct (qitems_in_inv l a Ha) as [vc [Hvc ->]]. cbn [fst].
    unfold adds_ok in Hl. rewrite Forall_forall in Hl. exact (proj2 (proj2 (proj2 (Hl vc Hvc)))). }
  assert (Hwn : wnonneg (qitems l)).
  { unfold wnonneg. apply Forall_forall. intros a Ha. destruct (qitems_in_inv l a Ha) as [vc [Hvc ->]]. cbn [snd].
    unfold adds_ok in Hl. rewrite Forall_forall in Hl. exact (proj1 (proj2 (proj2 (Hl vc Hvc)))). }
  destruct (collapsing_built m lp ln (qitems l) ax (kind_limit_ok kp Hkp) (kind_limit_ok kn Hkn) Hwn Eax) as [Eb Hax].
  exists s, ax. split; [exact E|]. split; [exact Is|]. split; [exact Eax|]. split; [exact Hax|].
  split; [rewrite As; exact Eb|]. split; [exact As|].
  destruct Ks as (_ & K1 & K2). unfold s0 in K1, K2. cbn [sk_new sk_pos sk_neg] in K1, K2.
  rewrite st_kind_new in K1, K2. split; assumption.
Qed.

Hypothesis mn0 : w0 <= f2q (mt_min mt).
Hypothesis idx_mono :
  forall x y : Qc, f2q (mt_min mt) < x -> x <= y -> y <= f2q (mt_max mt) -> (mt_index mt x <= mt_index mt y)%Z.

Definition wpos_adds (l : list (f64 * f64)) : Prop := Forall (fun vc => w0 < f2q (snd vc)) l.
Lemma wpos_qitems l : wpos_adds l -> wpos (qitems l).
Proof.
  intros H. unfold wpos. apply Forall_forall. intros a Ha. destruct (qitems_in_inv l a Ha) as [vc [Hvc ->]].
  cbn [snd]. unfold wpos_adds in H. rewrite Forall_forall in H. exact (H vc Hvc).
Qed.

(* GetMinValue / GetMaxValue of the executed sketch, stores of ANY kind: the representative of the
   true extreme, its key clamped to the window a collapsing store retains *)
Theorem built_min l vc :
  adds_ok mt l -> wpos_adds l -> In vc l -> (forall b, In b l -> f2q (fst vc) <= f2q (fst b)) ->
  exists s ax, plain_add_list mt (sk_new mid kp kn exact) l = ROk s /\
    a_add_list m a_new (qitems l) = Some ax /\
    plain_min mt s = ROk (repr_c m lp ln ax (f2q (fst vc))).
Proof.
  intros Hl Hw Hin Hmin. destruct (built_refines l Hl) as (s & ax & E & Is & Eax & Hax & _ & Ab & _).
  exists s, ax. split; [exact E|]. split; [exact Eax|].
  rewrite (plain_min_refines mt s Is), Ab. fold m.
  rewrite (min_built_gen m mn0 idx_mono lp ln (qitems l) ax (f2q (fst vc), f2q (snd vc))
             (kind_limit_ok kp Hkp) (kind_limit_ok kn Hkn) Eax (wpos_qitems l Hw) (qitems_in l vc Hin)).
  - reflexivity.
  - intros b Hb. destruct (qitems_in_inv l b Hb) as [vb [Hvb ->]]. cbn [fst]. apply Hmin. exact Hvb.
Qed.
Theorem built_max l vc :
  adds_ok mt l -> wpos_adds l -> In vc l -> (forall b, In b l -> f2q (fst b) <= f2q (fst vc)) ->
  exists s ax, plain_add_list mt (sk_new mid kp kn exact) l = ROk s /\
    a_add_list m a_new (qitems l) = Some ax /\
    plain_max mt s = ROk (repr_c m lp ln ax (f2q (fst vc))).
Proof.
  intros Hl Hw Hin Hmax. destruct (built_refines l Hl) as (s & ax & E & Is & Eax & Hax & _ & Ab & _).
  exists s, ax. split; [exact E|]. split; [exact Eax|].
  rewrite (plain_max_refines mt s Is), Ab. fold m.
  rewrite (max_built_gen m mn0 idx_mono lp ln (qitems l) ax (f2q (fst vc), f2q (snd vc))
             (kind_limit_ok kp Hkp) (kind_limit_ok kn Hkn) Eax (wpos_qitems l Hw) (qitems_in l vc Hin)).
  - reflexivity.
  - intros b Hb. destruct (qitems_in_inv l b Hb) as [vb [Hvb ->]]. cbn [fst]. apply Hmax. exact Hvb.
Qed.
(* the side that does not collapse (in particular: non-collapsing stores): the representative itself,
   hence within alpha *)
Theorem built_min_exact l vc alpha :
  adds_ok mt l -> wpos_adds l -> In vc l -> (forall b, In b l -> f2q (fst vc) <= f2q (fst b)) ->
  retained ln (a_neg (a_build m Exact Exact a_new (qitems l))) (mt_index mt (- f2q (fst vc))) ->
  retained lp (a_pos (a_build m Exact Exact a_new (qitems l))) (mt_index mt (f2q (fst vc))) ->
  (forall x, f2q (mt_min mt) < x -> x <= f2q (mt_max mt) -> Qcabs (mt_value mt (mt_index mt x) - x) <= alpha * x) ->
  exists s lo, plain_add_list mt (sk_new mid kp kn exact) l = ROk s /\
    plain_min mt s = ROk lo /\ lo = repr m (f2q (fst vc)) /\
    ((Qcabs (f2q (fst vc)) <= f2q (mt_min mt) /\ lo = w0) \/
     Qcabs (lo - f2q (fst vc)) <= alpha * Qcabs (f2q (fst vc))).
Proof.
  intros Hl Hw Hin Hmin Rn Rp Hacc.
  destruct (built_min l vc Hl Hw Hin Hmin) as (s & ax & E & Eax & Em).
  rewrite (a_add_list_build m (qitems l) a_new ax Eax) in Rn, Rp.
  exists s, (repr m (f2q (fst vc))). split; [exact E|].
  rewrite (repr_c_retained m lp ln ax (f2q (fst vc)) (fun _ => Rp) (fun _ => Rn) mn0) in Em.
  split; [exact Em|]. split; [reflexivity|].
  pose proof (okv_of_built m mn0 (qitems l) ax (f2q (fst vc), f2q (snd vc)) Eax (qitems_in l vc Hin)) as Hok.
  exact (repr_accuracy m mn0 alpha (f2q (fst vc), f2q (snd vc)) Hok Hacc).
Qed.
Theorem built_max_exact l vc alpha :
  adds_ok mt l -> wpos_adds l -> In vc l -> (forall b, In b l -> f2q (fst b) <= f2q (fst vc)) ->
  retained ln (a_neg (a_build m Exact Exact a_new (qitems l))) (mt_index mt (- f2q (fst vc))) ->
  retained lp (a_pos (a_build m Exact Exact a_new (qitems l))) (mt_index mt (f2q (fst vc))) ->
  (forall x, f2q (mt_min mt) < x -> x <= f2q (mt_max mt) -> Qcabs (mt_value mt (mt_index mt x) - x) <= alpha * x) ->
  exists s hi, plain_add_list mt (sk_new mid kp kn exact) l = ROk s /\
    plain_max mt s = ROk hi /\ hi = repr m (f2q (fst vc)) /\
    ((Qcabs (f2q (fst vc)) <= f2q (mt_min mt) /\ hi = w0) \/
     Qcabs (hi - f2q (fst vc)) <= alpha * Qcabs (f2q (fst vc))).
Proof.
  intros Hl Hw Hin Hmax Rn Rp Hacc.
  destruct (built_max l vc Hl Hw Hin Hmax) as (s & ax & E & Eax & Em).
  rewrite (a_add_list_build m (qitems l) a_new ax Eax) in Rn, Rp.
  exists s, (repr m (f2q (fst vc))). split; [exact E|].
  rewrite (repr_c_retained m lp ln ax (f2q (fst vc)) (fun _ => Rp) (fun _ => Rn) mn0) in Em.
  split; [exact Em|]. split; [reflexivity|].
  pose proof (okv_of_built m mn0 (qitems l) ax (f2q (fst vc), f2q (snd vc)) Eax (qitems_in l vc Hin)) as Hok.
  exact (repr_accuracy m mn0 alpha (f2q (fst vc), f2q (snd vc)) Hok Hacc).
Qed.

(* GetSum as the sum over what ForEach reports; non-collapsing stores, same-signed data *)
Theorem built_sum l alpha :
  lp = Exact -> ln = Exact ->
  adds_ok mt l -> (forall vc, In vc l -> sum_ok m (f2q (fst vc), f2q (snd vc))) ->
  (forall x, f2q (mt_min mt) < x -> x <= f2q (mt_max mt) -> Qcabs (mt_value mt (mt_index mt x) - x) <= alpha * x) ->
  (forall vc, In vc l -> 0 <= f2q (fst vc)) \/ (forall vc, In vc l -> f2q (fst vc) <= 0) ->
  exists s s' its, plain_add_list mt (sk_new mid kp kn exact) l = ROk s /\
    sk_foreach mt s = Some (s', its) /\ sk_abs s' = sk_abs s /\
    isum its = rsum m (qitems l) /\
    Qcabs (isum its - isum (qitems l)) <= alpha * Qcabs (isum (qitems l)).
Proof.
  intros Lp Ln Hl Hok Hacc Hsign.
  destruct (built_refines l Hl) as (s & ax & E & Is & Eax & Hax & An & _ & _).
  rewrite Lp, Ln in An. change (a_norm Exact Exact ax) with {| a_pos := a_pos ax; a_neg := a_neg ax; a_zero := a_zero ax |} in An.
  assert (An' : sk_abs s = ax) by (rewrite An; destruct ax; reflexivity).
  destruct (sk_foreach_refines mt s Is) as (s' & Ef & _ & _ & As' & _).
  exists s, s', (a_items m (sk_abs s)). split; [exact E|]. split; [exact Ef|]. split; [exact As'|].
  rewrite <- a_sum_isum, An'. split; [exact (a_sum_built m mn0 (qitems l) ax Eax)|].
  assert (Hwn : wnonneg (qitems l)).
  { unfold wnonneg. apply Forall_forall. intros a Ha. destruct (qitems_in_inv l a Ha) as [vc [Hvc ->]]. cbn [snd].
    unfold adds_ok in Hl. rewrite Forall_forall in Hl. exact (proj1 (proj2 (proj2 (Hl vc Hvc)))). }
  apply (sum_accuracy m mn0 alpha (qitems l) ax Eax Hwn).
  - intros a Ha. destruct (qitems_in_inv l a Ha) as [vc [Hvc ->]]. apply Hok. exact Hvc.
  - exact Hacc.
  - destruct Hsign as [Hp|Hn]; [left|right]; intros a Ha; destruct (qitems_in_inv l a Ha) as [vc [Hvc ->]];
      cbn [fst]; [apply Hp|apply Hn]; exact Hvc.
Qed.
End Executed.

(* ---- quantiles of the executed sketch, binary64 rank arithmetic ---- *)
Lemma dy_count a : dy_sketch a -> dyadic (a_count a).
Proof.
  intros [Dp [Dn Dz]]. unfold a_count. apply dyadic_plus; [apply dyadic_plus|].
  - exact Dz.
  - apply dyadic_total; exact Dp.
  - apply dyadic_total; exact Dn.
Qed.
Lemma rnd64_count_eq a :
  awf a -> dy_sketch a -> small a ->
  rnd64 (a_count a) = rndQ (a_count a) /\ rnd64 (wsub (a_count a) w1) = rndQ (wsub (a_count a) w1).
Proof.
  intros Ha Hd Hs. pose proof (dy_count a Hd) as Dc. pose proof (a_count_nonneg a Ha) as C0.
  unfold small in Hs. pose proof (one_le_K KB KB_1) as HK. split.
  - apply (rnd64_bK KB KB_1 KB_2); [exact Dc|]. unfold bK. fold KB in Hs. split; qlra.
  - apply (rnd64_bK KB KB_1 KB_2); [apply dyadic_minus; [exact Dc|exact dyadic_w1]|].
    unfold bK. fold KB in Hs. split; qlra.
Qed.

Section ExecutedQuantiles.
Variable fx : fixes.
Hypothesis F4 : fD4 fx = true.
Hypothesis F5 : fD5 fx = true.
Variable mt : mtable.
Let m := am_of mt.

(* the premises under which GetValueAtQuantile is the Layer A quantile (C12_quantile_some):
   dyadic weights of total at most 2^1000, and rounding separates the count from 0 and from count - 1 *)
Definition quantile_ready (s : sketch) : Prop :=
  SkInv s /\ dy_sketch (sk_abs s) /\ small (sk_abs s) /\ plain_count s <> w0 /\
  w0 < rnd64 (plain_count s) /\ rnd64 (wsub (plain_count s) w1) < rnd64 (plain_count s).

Lemma unit_q q : fle f64_zero q = true -> fle q f64_one = true ->
  dyadic (f2q q) /\ w0 <= f2q q /\ f2q q <= w1.
Proof.
  intros Q0 Q1. pose proof (unit_interval_finite q Q0 Q1) as Fq. split; [apply dyadic_f2q|]. split.
  - rewrite <- f2q_f64_zero. apply (fle_iff _ _ f64_zero_finite Fq). exact Q0.
  - rewrite <- f2q_f64_one. apply (fle_iff _ _ Fq f64_one_finite). exact Q1.
Qed.

Lemma exec_quantile_is_layerA s q :
  quantile_ready s -> fle f64_zero q = true -> fle q f64_one = true ->
  exists s' y, plain_quantile rnd64 fx mt s q = (s', ROk y) /\ SkInv s' /\ sk_abs s' = sk_abs s /\
               a_quantile rndQ m (sk_abs s) (f2q q) = Some y.
Proof.
  intros (Is & Hd & Hs & Hc & C0 & C1) Q0 Q1. destruct (unit_q q Q0 Q1) as (Dq & Hq0 & Hq1).
  pose proof (SkInv_awf s Is) as Ha.
  destruct (plain_quantile_refines rnd64 fx mt s q F4 F5 Is Q0 Q1 Hc) as (s' & y & E & I' & _ & A' & M).
  fold m in M. rewrite (a_quantile_rnd64_eq_rndQ_awf m (sk_abs s) (f2q q) Ha Hd Hs Dq Hq0 Hq1) in M.
  rewrite (plain_count_refines s Is) in Hc, C0, C1.
  destruct (rnd64_count_eq (sk_abs s) Ha Hd Hs) as [R1 R2]. rewrite R1 in C0, C1. rewrite R2 in C1.
  destruct (a_quantile_some rndQ m rndQ_mono rndQ_w0 rndQ_idem (sk_abs s) (f2q q) Ha Hc Hq0 Hq1 C0 C1) as [y0 E0].
  rewrite E0 in M. subst y0. exists s', y. auto.
Qed.

(* quantiles are non-decreasing in q *)
Theorem exec_quantile_mono s q1 q2 s1 s2 y1 y2 :
  quantile_ready s -> vals_pos_on m (sk_abs s) -> vals_mono_on m (sk_abs s) ->
  fle f64_zero q1 = true -> fle q1 f64_one = true -> fle f64_zero q2 = true -> fle q2 f64_one = true ->
  fle q1 q2 = true ->
  plain_quantile rnd64 fx mt s q1 = (s1, ROk y1) -> plain_quantile rnd64 fx mt s q2 = (s2, ROk y2) ->
  y1 <= y2.
Proof.
  intros Hr Hv Hvm Q0 Q1a Q0b Q1 Q12 E1 E2.
  pose proof (unit_interval_finite q1 Q0 Q1a) as F1. pose proof (unit_interval_finite q2 Q0b Q1) as F2.
  assert (Q12' : f2q q1 <= f2q q2) by (apply (fle_iff _ _ F1 F2); exact Q12).
  destruct (exec_quantile_is_layerA s q1 Hr Q0 Q1a) as (s1' & y1' & E1' & _ & _ & A1).
  destruct (exec_quantile_is_layerA s q2 Hr Q0b Q1) as (s2' & y2' & E2' & _ & _ & A2).
  rewrite E1 in E1'. rewrite E2 in E2'.
  assert (Ey1 : y1' = y1) by congruence. assert (Ey2 : y2' = y2) by congruence. subst y1' y2'.
  destruct Hr as (Is & _). destruct (unit_q q1 Q0 Q1a) as (_ & Hq0 & _).
  exact (quantile_mono_rndQ_on_keys m (sk_abs s) (f2q q1) (f2q q2) y1 y2 Hv Hvm (SkInv_awf s Is) Hq0 Q12' A1 A2).
Qed.
(* ... and lie between GetMinValue and GetMaxValue *)
Theorem exec_quantile_bounds s q s' y lo hi :
  quantile_ready s -> vals_pos_on m (sk_abs s) -> vals_mono_on m (sk_abs s) ->
  fle f64_zero q = true -> fle q f64_one = true ->
  plain_quantile rnd64 fx mt s q = (s', ROk y) -> plain_min mt s = ROk lo -> plain_max mt s = ROk hi ->
  lo <= y /\ y <= hi.
Proof.
  intros Hr Hv Hvm Q0 Q1 E Emin Emax.
  destruct (exec_quantile_is_layerA s q Hr Q0 Q1) as (s1 & y1 & E1 & _ & _ & A1).
  rewrite E in E1. assert (Ey : y1 = y) by congruence. subst y1. destruct Hr as (Is & _).
  rewrite (plain_min_refines mt s Is) in Emin. rewrite (plain_max_refines mt s Is) in Emax. fold m in Emin, Emax.
  destruct (a_min m (sk_abs s)) as [lo'|] eqn:L; [|discriminate]. injection Emin as <-.
  destruct (a_max m (sk_abs s)) as [hi'|] eqn:H; [|discriminate]. injection Emax as <-.
  exact (quantile_bounds_rndQ_on_keys m (sk_abs s) (f2q q) y lo' hi' Hv Hvm (SkInv_awf s Is) A1 L H).
Qed.
End ExecutedQuantiles.

(* the premises of the two theorems are met by every sketch built from a new one (stores of any
   kind) by additions whose weights lie on a grid 2^-k, k <= 53, with total * 2^k <= 2^53 *)
Lemma dy_map_key (g : Z -> Z) b : dy_bins b -> dy_bins (map (fun kw => (g (fst kw), snd kw)) b).
Proof.
  unfold dy_bins. induction b as [|[k w] b IH]; intros H; [constructor|].
  apply Forall_cons_iff in H. destruct H as [H1 H2]. cbn [map fst snd]. constructor; [exact H1|apply IH; exact H2].
Qed.
Lemma dy_norm l b : dy_bins b -> dy_bins (norm l b).
Proof.
  intros H. destruct l as [|n|n]; cbn [norm]; [exact H| |].
  - unfold clamp_low. destruct (max_key b) as [mx|]; [|constructor]. cbv zeta. unfold bins_of_list.
    apply dy_bmerge_list; [constructor|]. apply (dy_map_key (fun k => Z.max k (mx - n + 1))). exact H.
  - unfold clamp_high. destruct (min_key b) as [mn|]; [|constructor]. cbv zeta. unfold bins_of_list.
    apply dy_bmerge_list; [constructor|]. apply (dy_map_key (fun k => Z.min k (mn + n - 1))). exact H.
Qed.

Theorem built_quantile_ready (mt : mtable) (mid : mapid) (kp kn : kind) (exact : bool)
        (l : list (f64 * f64)) (k n : Z) :
  mt_ok mt -> kind_ok kp -> kind_ok kn ->
  adds_ok mt l -> l <> [] -> (0 <= k <= 53)%Z -> gridw k (qitems l) ->
  wsum (qitems l) = gridv k n -> (n <= 2 ^ 53)%Z ->
  exists s, plain_add_list mt (sk_new mid kp kn exact) l = ROk s /\ quantile_ready s /\
            plain_count s = gridv k n.
Proof.
  intros Hmt Hkp Hkn Hl Hne Hk Hg HW Hn. assert (k0 : (0 <= k)%Z) by lia.
  destruct (built_refines mt mid kp kn exact Hmt Hkp Hkn l Hl) as (s & ax & E & Is & Eax & Hax & An & _ & _).
  exists s. split; [exact E|].
  destruct (built_sketch_facts (am_of mt) (qitems l) ax (gridw_dyw k _ k0 Hg) Eax) as [Dax [_ Cax]].
  assert (Hd : dy_sketch (sk_abs s)).
  { rewrite An. destruct Dax as [Dp [Dn Dz]]. unfold dy_sketch, a_norm; cbn [a_pos a_neg a_zero].
    split; [apply dy_norm; exact Dp|]. split; [apply dy_norm; exact Dn|exact Dz]. }
  assert (Hc : a_count (sk_abs s) = gridv k n) by (rewrite An, a_count_norm, Cax; exact HW).
  assert (Hs : small (sk_abs s)).
  { unfold small. rewrite Hc. apply grid_total_small; assumption. }
  pose proof (SkInv_awf s Is) as Ha.
  assert (Hn1 : (1 <= n)%Z).
  { assert (Hq : qitems l <> []) by (destruct l; [contradiction|discriminate]).
    pose proof (wsum_pos _ (gridw_wpos k k0 _ Hg) Hq) as H. rewrite HW, <- (gv_0 k k0) in H.
    apply gv_lt in H; [lia|exact k0]. }
  pose proof (pow2_pos k k0) as Hp. assert (HU : (2 ^ k <= 2 ^ 53)%Z) by (apply Z.pow_le_mono_r; lia).
  destruct (rnd64_count_eq (sk_abs s) Ha Hd Hs) as [R1 R2].
  assert (Pc : plain_count s = gridv k n) by (rewrite (plain_count_refines s Is); exact Hc).
  assert (E1 : wsub (gridv k n) w1 = gridv k (n - 2 ^ k)).
  { unfold wsub. rewrite <- (gv_U k k0). apply gv_minus. exact k0. }
  split; [|exact Pc].
  unfold quantile_ready. split; [exact Is|]. split; [exact Hd|]. split; [exact Hs|].
  rewrite Pc. rewrite Hc in R1, R2. rewrite R1, R2, E1.
  rewrite !rndQ_grid by lia.
  split; [|split].
  - rewrite <- (gv_0 k k0). intros C. apply gv_inj in C; [lia|exact k0].
  - rewrite <- (gv_0 k k0). apply gv_lt; [exact k0|lia].
  - apply gv_lt; [exact k0|lia].
Qed.

(* C11 with the quantile given as the binary64 value the code receives *)
Theorem weighted_quantile_grid_rnd64_f2q (m : amapping) (k : Z) xs ys s (x : f64) n :
  (0 <= k <= 53)%Z -> 0 <= am_min m ->
  (forall x y, am_min m < x -> x <= y -> y <= am_max m -> (am_index m x <= am_index m y)%Z) ->
  a_add_list m a_new xs = Some s -> Permutation xs ys -> StronglySorted vle ys -> gridw k ys ->
  ys <> [] -> wsum ys = gridv k n -> (n <= 2 ^ 53)%Z ->
  fle f64_zero x = true -> fle x f64_one = true ->
  exists l1 a l2 (t : Z),
    ys = l1 ++ a :: l2 /\
    a_quantile rnd64 m s (f2q x) = Some (repr m (fst a)) /\
    (Z.max 0 (gfl k (f2q x * (wsum ys - 1))) <= t <= Z.max 0 (gcl k (f2q x * (wsum ys - 1))))%Z /\
    wsum l1 - 1 < gridv k t /\ gridv k t < wsum l1 + snd a /\
    (isN m a = false -> wsum l1 <= gridv k t).
Proof.
  intros Hk M0 Im Hadd Hperm Hs Hi Hne HW Hn Q0 Q1. destruct (unit_q x Q0 Q1) as (Dq & Hq0 & Hq1).
  exact (weighted_quantile_grid_rnd64 m k Hk M0 Im xs ys s (f2q x) n Hadd Hperm Hs Hi Hne HW Hn Dq Hq0 Hq1).
Qed.
