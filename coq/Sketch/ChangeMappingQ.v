(* Sketch/ChangeMappingQ — C17, the quantile clause of the change of mapping, in exact arithmetic.

   Sketch/ChangeMapping.v proves that the conversion is a monotone coupling (convert_store_facts).
   Here the coupling is turned into a statement about quantiles at the SAME rank:
     - convert_store_rank_overlap : the source bin and the result bin selected by one rank t
       (0 <= t < total) overlap (scaled source range meets the target range);
     - rank_value_ratio           : hence the representative value of the result bin is within the
       combined relative accuracy of the two mappings of the scaled source value.
   Stdlib only, axiom-free. *)
From SK Require Import Spec.Bins Spec.ASketch Spec.BinsProofs Sketch.ChangeMapping.
From Coq Require Import Lqa.

(* ---------------------------------------------------------------------- *)
(** ** key_at_rank below the total weight: the window of cumulative sums    *)

Lemma rank_window b t k :
  wf b = true -> pos b -> (w0 <= t)%Qc -> (t < total b)%Qc -> key_at_rank b t = Some k ->
  (t < cum b k)%Qc /\ (cum b (k - 1) <= t)%Qc.
Proof.
  intros Hwf Hp Ht0 Ht Hk.
  assert (Hne : b <> []). { intros E. subst b. discriminate. }
  destruct (key_at_rank_spec b t Hwf Hp Hne Ht0) as [k' [H1 [_ H3]]].
  rewrite Hk in H1. injection H1 as H1. subst k'.
  destruct H3 as [[H3 H4]|[H3 H4]].
  - split; [exact H3|]. apply H4. lia.
  - exfalso. pose proof (cum_at_max b k k Hwf H3 (Z.le_refl k)) as E.
    specialize (H4 k). rewrite E in H4. exact (Qclt_not_le _ _ Ht H4).
Qed.

Lemma wmul_le_r (a b s : Qc) : (w0 < s)%Qc -> (a <= b)%Qc -> (wmul a s <= wmul b s)%Qc.
Proof.
  intros Hs H. unfold wmul. apply Qcmult_le_compat_r; [exact H|]. apply Qclt_le_weak. exact Hs.
Qed.
Lemma wmul_le_inv_r (a b s : Qc) : (w0 < s)%Qc -> (wmul a s <= wmul b s)%Qc -> (a <= b)%Qc.
Proof.
  intros Hs H. apply Qcnot_lt_le. intros Hlt. apply (Qcle_not_lt _ _ H).
  unfold wmul. apply Qcmult_lt_compat_r; assumption.
Qed.

(* ---------------------------------------------------------------------- *)
(** ** 1. same rank => overlapping bins                                     *)

Theorem convert_store_rank_overlap
        (lower1 lower2 : Z -> Qc) (index2 : Qc -> Z) (scale : Qc) (guard : bool) :
  (w0 < scale)%Qc -> incr lower1 -> positive lower1 -> incr lower2 -> index_spec lower2 index2 ->
  forall (b r : bins) (t : W) (i out : Z),
  wf b = true -> pos b -> convert_store lower1 lower2 index2 scale guard b = Some r ->
  (w0 <= t)%Qc -> (t < total b)%Qc ->
  key_at_rank b t = Some i -> key_at_rank r t = Some out ->
  overlap lower1 lower2 scale i out.
Proof.
  intros Hs Hm1 Hp1 Hm2 Hidx b r t i out Hwf Hp H Ht0 Ht Hi Hout.
  pose proof (pos_nonneg b Hp) as Hn.
  destruct (convert_store_facts lower1 lower2 index2 scale guard Hs Hm1 Hp1 Hm2 Hidx b r Hn H)
    as [Hwr [Hpr [_ [Hup Hlo]]]].
  pose proof (convert_store_total lower1 lower2 index2 scale guard Hs Hm1 Hp1 Hm2 Hidx b r Hn H)
    as Htot.
  destruct (rank_window b t i Hwf Hp Ht0 Ht Hi) as [Hb1 Hb2].
  assert (Htr : (t < total r)%Qc) by (rewrite Htot; exact Ht).
  destruct (rank_window r t out Hwr Hpr Ht0 Htr Hout) as [Hr1 Hr2].
  unfold overlap, in_low, in_high. split.
  - (* the target bin is not entirely above the scaled source bin *)
    apply Qcnot_le_lt. intros Hc.
    assert (HH : (cum b i <= cum r (out - 1))%Qc).
    { unfold cum. apply (Hlo (fun o => o <=? out - 1) (fun k => k <=? i)).
      intros i' out' [Ho _] Hp'. apply Z.leb_le in Hp'. apply Z.leb_le.
      unfold in_high in Ho.
      assert (Hlt : (lower2 out' < lower2 out)%Qc).
      { apply Qclt_le_trans with (wmul (lower1 (i' + 1)) scale); [exact Ho|].
        apply Qcle_trans with (wmul (lower1 (i + 1)) scale); [|exact Hc].
        apply wmul_le_r; [exact Hs|]. apply incr_le; [exact Hm1|lia]. }
      pose proof (incr_lt_inv lower2 Hm2 _ _ Hlt). lia. }
    apply (Qclt_not_le _ _ Hb1). apply Qcle_trans with (cum r (out - 1)); assumption.
  - (* the target bin is not entirely below the scaled source bin *)
    apply Qcnot_le_lt. intros Hc.
    assert (HH : (cum r out <= cum b (i - 1))%Qc).
    { unfold cum. apply (Hup (fun o => o <=? out) (fun k => k <=? i - 1)).
      intros i' out' [_ Ho] Hp'. apply Z.leb_le in Hp'. apply Z.leb_le.
      unfold in_low in Ho.
      assert (Hlt : (wmul (lower1 i') scale < wmul (lower1 i) scale)%Qc).
      { apply Qclt_le_trans with (lower2 (out' + 1)); [exact Ho|].
        apply Qcle_trans with (lower2 (out + 1)); [|exact Hc].
        apply incr_le; [exact Hm2|lia]. }
      assert (Hlt' : (lower1 i' < lower1 i)%Qc).
      { apply Qcnot_le_lt. intros Hge. apply (Qclt_not_le _ _ Hlt).
        apply wmul_le_r; assumption. }
      pose proof (incr_lt_inv lower1 Hm1 _ _ Hlt'). lia. }
    apply (Qclt_not_le _ _ Hr1). apply Qcle_trans with (cum b (i - 1)); assumption.
Qed.

(* ---------------------------------------------------------------------- *)
(** ** 2. overlapping bins => representative values within the combined accuracy *)

(* [accurate lower value a]: the representative of bin k is within relative error a of every
   point of the closed range of the bin:  |value k - x| <= a * x  for lower k <= x <= lower (k+1) *)
Definition accurate (lower value : Z -> Qc) (a : Qc) : Prop :=
  forall (k : Z) (x : Qc), (lower k <= x)%Qc -> (x <= lower (k + 1)%Z)%Qc ->
    (value k - x <= a * x)%Qc /\ (x - value k <= a * x)%Qc.

(* the arithmetic of the two accuracies, on plain rationals *)
Lemma ratio_Q (s y v1 v2 a1 a2 : Q) :
  (0 < s -> 0 < y -> 0 <= a1 -> a1 < 1 -> 0 <= a2 -> a2 < 1 ->
   v1 - y <= a1 * y -> y - v1 <= a1 * y ->
   v2 - y * s <= a2 * (y * s) -> y * s - v2 <= a2 * (y * s) ->
   (1 - a2) * (s * v1) <= (1 + a1) * v2 /\ (1 - a1) * v2 <= (1 + a2) * (s * v1))%Q.
Proof.
  intros Hs Hy Ha1 Ha1' Ha2 Ha2' A1 A2 B1 B2.
  assert (U1 : (s * v1 <= (1 + a1) * (y * s))%Q) by nra.
  assert (U2 : ((1 - a1) * (y * s) <= s * v1)%Q) by nra.
  set (x := (y * s)%Q) in *. set (u := (s * v1)%Q) in *. clearbody x u.
  split.
  - assert (P1 : (0 <= (1 - a2) * ((1 + a1) * x - u))%Q) by (apply Qmult_le_0_compat; lra).
    assert (P2 : (0 <= (1 + a1) * (v2 - (1 - a2) * x))%Q) by (apply Qmult_le_0_compat; lra).
    lra.
  - assert (P1 : (0 <= (1 - a1) * ((1 + a2) * x - v2))%Q) by (apply Qmult_le_0_compat; lra).
    assert (P2 : (0 <= (1 + a2) * (u - (1 - a1) * x))%Q) by (apply Qmult_le_0_compat; lra).
    lra.
Qed.

(* transfer of an (in)equality on weights to plain rationals *)
Ltac to_Q :=
  unfold W, w0, w1, wadd, wmul, wsub in *;
  unfold Qcle, Qclt in *;
  repeat match goal with
  | |- context [this (?a + ?b)%Qc] => rewrite (this_plus a b)
  | |- context [this (?a * ?b)%Qc] => rewrite (this_mult a b)
  | |- context [this (?a - ?b)%Qc] => rewrite (this_minus a b)
  | H : context [this (?a + ?b)%Qc] |- _ => rewrite (this_plus a b) in H
  | H : context [this (?a - ?b)%Qc] |- _ => rewrite (this_minus a b) in H
  | H : context [this (?a * ?b)%Qc] |- _ => rewrite (this_mult a b) in H
  end;
  change (this (Q2Qc 0)) with 0%Q in *; change (this (Q2Qc 1)) with 1%Q in *.

(* the common point of two overlapping bins *)
Lemma overlap_common_point (lower1 lower2 : Z -> Qc) (scale : Qc) (i out : Z) :
  (w0 < scale)%Qc -> incr lower1 -> positive lower1 -> incr lower2 ->
  overlap lower1 lower2 scale i out ->
  exists y : Qc,
    (lower1 i <= y)%Qc /\ (y <= lower1 (i + 1)%Z)%Qc /\ (0 < y)%Qc /\
    (lower2 out <= y * scale)%Qc /\ (y * scale <= lower2 (out + 1)%Z)%Qc.
Proof.
  intros Hs Hm1 Hp1 Hm2 [Ho1 Ho2]. unfold in_low, in_high in Ho1, Ho2.
  destruct (wltb_spec (wmul (lower1 i) scale) (lower2 out)) as [E|E].
  - (* the target bin starts inside the scaled source bin: x = lower2 out *)
    assert (Hs0 : scale <> w0) by (apply wpos_neq; exact Hs).
    exists (lower2 out * / scale)%Qc.
    assert (Ey : ((lower2 out * / scale) * scale = lower2 out)%Qc).
    { unfold w0 in Hs0. field. exact Hs0. }
    assert (H1 : (lower1 i <= lower2 out * / scale)%Qc).
    { apply (wmul_le_inv_r _ _ scale Hs). unfold wmul. rewrite Ey. apply Qclt_le_weak. exact E. }
    split; [exact H1|]. split.
    + apply (wmul_le_inv_r _ _ scale Hs). unfold wmul. rewrite Ey. apply Qclt_le_weak. exact Ho1.
    + split; [apply Qclt_le_trans with (lower1 i); [apply Hp1|exact H1]|].
      rewrite Ey. split; [apply Qcle_refl|].
      apply Qclt_le_weak. apply Hm2. lia.
  - (* the scaled source bin starts inside the target bin: x = lower1 i * scale *)
    apply Qcnot_lt_le in E. exists (lower1 i).
    split; [apply Qcle_refl|]. split; [|split; [apply Hp1|]].
    + apply Qclt_le_weak. apply Hm1. lia.
    + split; [exact E|]. apply Qclt_le_weak. exact Ho2.
Qed.

Theorem overlap_value_ratio
        (lower1 lower2 value1 value2 : Z -> Qc) (scale a1 a2 : Qc) (i out : Z) :
  (w0 < scale)%Qc -> incr lower1 -> positive lower1 -> incr lower2 ->
  (0 <= a1)%Qc -> (a1 < 1)%Qc -> (0 <= a2)%Qc -> (a2 < 1)%Qc ->
  accurate lower1 value1 a1 -> accurate lower2 value2 a2 ->
  overlap lower1 lower2 scale i out ->
  ((1 - a2) * (scale * value1 i) <= (1 + a1) * value2 out)%Qc /\
  ((1 - a1) * value2 out <= (1 + a2) * (scale * value1 i))%Qc.
Proof.
  intros Hs Hm1 Hp1 Hm2 Ha1 Ha1' Ha2 Ha2' Hv1 Hv2 Hov.
  destruct (overlap_common_point lower1 lower2 scale i out Hs Hm1 Hp1 Hm2 Hov)
    as [y [Hy1 [Hy2 [Hy0 [Hx1 Hx2]]]]].
  destruct (Hv1 i y Hy1 Hy2) as [A1 A2].
  destruct (Hv2 out (y * scale)%Qc Hx1 Hx2) as [B1 B2].
  clear Hov Hv1 Hv2 Hy1 Hy2 Hx1 Hx2 Hp1 Hm2 Hm1.
  generalize dependent (value1 i). generalize dependent (value2 out).
  intros v2 B1 B2 v1 A1 A2.
  to_Q. exact (ratio_Q _ _ _ _ _ _ Hs Hy0 Ha1 Ha1' Ha2 Ha2' A1 A2 B1 B2).
Qed.

Theorem rank_value_ratio
        (lower1 lower2 : Z -> Qc) (index2 : Qc -> Z) (scale : Qc) (guard : bool)
        (value1 value2 : Z -> Qc) (a1 a2 : Qc) :
  (w0 < scale)%Qc -> incr lower1 -> positive lower1 -> incr lower2 -> index_spec lower2 index2 ->
  (0 <= a1)%Qc -> (a1 < 1)%Qc -> (0 <= a2)%Qc -> (a2 < 1)%Qc ->
  accurate lower1 value1 a1 -> accurate lower2 value2 a2 ->
  forall (b r : bins) (t : W) (i out : Z),
  wf b = true -> pos b -> convert_store lower1 lower2 index2 scale guard b = Some r ->
  (w0 <= t)%Qc -> (t < total b)%Qc ->
  key_at_rank b t = Some i -> key_at_rank r t = Some out ->
  ((1 - a2) * (scale * value1 i) <= (1 + a1) * value2 out)%Qc /\
  ((1 - a1) * value2 out <= (1 + a2) * (scale * value1 i))%Qc.
Proof.
  intros Hs Hm1 Hp1 Hm2 Hidx Ha1 Ha1' Ha2 Ha2' Hv1 Hv2 b r t i out Hwf Hp H Ht0 Ht Hi Hout.
  apply (overlap_value_ratio lower1 lower2 value1 value2 scale a1 a2 i out); try assumption.
  exact (convert_store_rank_overlap lower1 lower2 index2 scale guard Hs Hm1 Hp1 Hm2 Hidx
           b r t i out Hwf Hp H Ht0 Ht Hi Hout).
Qed.

(* ---------------------------------------------------------------------- *)
(** ** 3. Non-vacuity: a concrete mapping on all of Z satisfying every hypothesis

    hz_lower k = k + 1 for k >= 0 and 1 / (1 - k) for k < 0  (... 1/3, 1/2, 1, 2, 3, ...),
    hz_index   = its exact index, hz_value k = 4/3 * hz_lower k, relative accuracy 1/3
    (every bin has ratio upper/lower <= 2). *)

Definition lq (k : Z) : Q := if 0 <=? k then inject_Z (k + 1) else 1 # Z.to_pos (1 - k).
Definition hz_lower (k : Z) : Qc := Q2Qc (lq k).
Definition hz_index (x : Qc) : Z :=
  let p := Qnum (this x) in let q := Zpos (Qden (this x)) in
  if q <=? p then p / q - 1 else - ((q - 1) / p).
Definition hz_value (k : Z) : Qc := (Q2Qc (4 # 3) * hz_lower k)%Qc.
Definition hz_scale : Qc := Q2Qc (3 # 2).
Definition hz_acc : Qc := Q2Qc (1 # 3).
Definition hz_src : bins := [(0, Q2Qc 1); (1, Q2Qc 1); (2, Q2Qc 1)].

Lemma lq_incr i j : i < j -> (lq i < lq j)%Q.
Proof.
  intros H. unfold lq. destruct (Z.leb_spec 0 i), (Z.leb_spec 0 j); try lia.
  - rewrite <- Zlt_Qlt. lia.
  - unfold Qlt. cbn [Qnum Qden inject_Z]. rewrite Z2Pos.id by lia. nia.
  - unfold Qlt. cbn [Qnum Qden]. rewrite !Z2Pos.id by lia. lia.
Qed.
Lemma lq_pos k : (0 < lq k)%Q.
Proof.
  unfold lq. destruct (Z.leb_spec 0 k).
  - change 0%Q with (inject_Z 0). rewrite <- Zlt_Qlt. lia.
  - reflexivity.
Qed.
Lemma lq_double k : (lq (k + 1) <= 2 * lq k)%Q.
Proof.
  unfold lq. destruct (Z.leb_spec 0 k), (Z.leb_spec 0 (k + 1)); try lia.
  - rewrite !inject_Z_plus.
    assert (Hk : (inject_Z 0 <= inject_Z k)%Q) by (rewrite <- Zle_Qle; exact H).
    change (inject_Z 0) with 0%Q in Hk. change (inject_Z 1) with 1%Q. lra.
  - assert (k = -1) by lia. subst k. vm_compute. discriminate.
  - unfold Qle, Qmult. cbn [Qnum Qden]. rewrite !Z2Pos.id by lia. lia.
Qed.

Lemma Q2Qc_lt a b : (a < b)%Q -> (Q2Qc a < Q2Qc b)%Qc.
Proof. intros H. unfold Qclt. cbn [this Q2Qc]. rewrite !Qred_correct. exact H. Qed.
Lemma Q2Qc_le a b : (a <= b)%Q -> (Q2Qc a <= Q2Qc b)%Qc.
Proof. intros H. unfold Qcle. cbn [this Q2Qc]. rewrite !Qred_correct. exact H. Qed.

Lemma hz_lower_incr : incr hz_lower.
Proof. intros i j H. apply Q2Qc_lt. apply lq_incr. exact H. Qed.
Lemma hz_lower_pos : positive hz_lower.
Proof. intros k. change 0%Qc with (Q2Qc 0). apply Q2Qc_lt. apply lq_pos. Qed.

Lemma hz_index_ok : index_spec hz_lower hz_index.
Proof.
  intros [[p q] Hc] Hx. unfold Qclt in Hx. cbn [this] in Hx.
  assert (Hp : 0 < p). { unfold Qlt in Hx. cbn in Hx. lia. }
  unfold hz_lower, hz_index, Qcle, Qclt. cbn [this Q2Qc Qnum Qden]. rewrite !Qred_correct.
  pose proof (Pos2Z.is_pos q) as Hq.
  destruct (Z.leb_spec (Zpos q) p) as [E|E].
  - (* x >= 1 *)
    assert (Hd : 1 <= p / Zpos q) by (apply Z.div_le_lower_bound; lia).
    unfold lq. destruct (Z.leb_spec 0 (p / Zpos q - 1)); [|lia].
    destruct (Z.leb_spec 0 (p / Zpos q - 1 + 1)); [|lia].
    unfold Qle, Qlt. cbn [Qnum Qden inject_Z].
    pose proof (Z.mul_div_le p (Zpos q) Hq). pose proof (Z.mul_succ_div_gt p (Zpos q) Hq).
    split; nia.
  - (* x < 1 *)
    set (m := (Zpos q - 1) / p).
    assert (Hm : 1 <= m) by (apply Z.div_le_lower_bound; lia).
    pose proof (Z.mul_div_le (Zpos q - 1) p Hp) as M1.
    pose proof (Z.mul_succ_div_gt (Zpos q - 1) p Hp) as M2. fold m in M1, M2.
    unfold lq. destruct (Z.leb_spec 0 (- m)); [lia|]. split.
    + unfold Qle. cbn [Qnum Qden]. rewrite Z2Pos.id by lia. nia.
    + destruct (Z.leb_spec 0 (- m + 1)).
      * assert (m = 1) by lia. unfold Qlt. cbn [Qnum Qden inject_Z]. lia.
      * unfold Qlt. cbn [Qnum Qden]. rewrite Z2Pos.id by lia. nia.
Qed.

Lemma hz_accurate : accurate hz_lower hz_value hz_acc.
Proof.
  intros k x H1 H2. unfold hz_value, hz_acc.
  assert (H3 : (hz_lower (k + 1) <= Q2Qc 2 * hz_lower k)%Qc).
  { unfold hz_lower, Qcle. rewrite this_mult. cbn [this Q2Qc]. rewrite !Qred_correct.
    apply lq_double. }
  generalize dependent (hz_lower (k + 1)). generalize dependent (hz_lower k). intros l H1 u H2 H3.
  unfold Qcle in *. rewrite ?this_minus, ?this_mult in *.
  change (this (Q2Qc (4 # 3))) with (4 # 3)%Q. change (this (Q2Qc (1 # 3))) with (1 # 3)%Q.
  change (this (Q2Qc 2)) with 2%Q in H3. split; lra.
Qed.

(* the conversion of three unit bins [1,2) [2,3) [3,4) at scale 3/2 *)
Lemma hz_convert :
  option_map bins_Q (convert_store hz_lower hz_lower hz_index hz_scale true hz_src)
  = Some [(0, (1 # 3)%Q); (1, (2 # 3)%Q); (2, (2 # 3)%Q); (3, (2 # 3)%Q); (4, (2 # 3)%Q)].
Proof. vm_compute. reflexivity. Qed.

(* rank 1: source bin 1 (cumulative 1, 2, 3), result bin 2 (cumulative 1/3, 1, 5/3, ...) *)
Lemma hz_ranks :
  key_at_rank hz_src (Q2Qc 1) = Some 1 /\
  (exists r, convert_store hz_lower hz_lower hz_index hz_scale true hz_src = Some r /\
             key_at_rank r (Q2Qc 1) = Some 2).
Proof. split; [vm_compute; reflexivity|]. eexists. split; [vm_compute; reflexivity|vm_compute; reflexivity]. Qed.

(* theorem 1 instantiated: all its premises hold on these tables *)
Theorem hz_rank_overlap :
  forall (t : W) (i out : Z) (r : bins),
  convert_store hz_lower hz_lower hz_index hz_scale true hz_src = Some r ->
  (w0 <= t)%Qc -> (t < Q2Qc 3)%Qc ->
  key_at_rank hz_src t = Some i -> key_at_rank r t = Some out ->
  overlap hz_lower hz_lower hz_scale i out.
Proof.
  intros t i out r H Ht0 Ht Hi Hout.
  apply (convert_store_rank_overlap hz_lower hz_lower hz_index hz_scale true) with (b := hz_src) (r := r) (t := t);
    try assumption.
  - vm_compute. reflexivity.
  - exact hz_lower_incr.
  - exact hz_lower_pos.
  - exact hz_lower_incr.
  - exact hz_index_ok.
  - vm_compute. reflexivity.
  - apply posb_pos. vm_compute. reflexivity.
Qed.

(* theorem 2 instantiated at rank 1: 2/3 * (3/2 * 8/3) <= 4/3 * 4  and  2/3 * 4 <= 4/3 * (3/2 * 8/3) *)
Theorem hz_quantile_ratio :
  ((1 - hz_acc) * (hz_scale * hz_value 1) <= (1 + hz_acc) * hz_value 2)%Qc /\
  ((1 - hz_acc) * hz_value 2 <= (1 + hz_acc) * (hz_scale * hz_value 1))%Qc.
Proof.
  destruct hz_ranks as [Hi [r [Hr Hout]]].
  apply (rank_value_ratio hz_lower hz_lower hz_index hz_scale true hz_value hz_value hz_acc hz_acc)
    with (b := hz_src) (r := r) (t := Q2Qc 1); try assumption.
  - vm_compute. reflexivity.
  - exact hz_lower_incr.
  - exact hz_lower_pos.
  - exact hz_lower_incr.
  - exact hz_index_ok.
  - vm_compute. discriminate.
  - vm_compute. reflexivity.
  - vm_compute. discriminate.
  - vm_compute. reflexivity.
  - exact hz_accurate.
  - exact hz_accurate.
  - vm_compute. reflexivity.
  - apply posb_pos. vm_compute. reflexivity.
  - vm_compute. discriminate.
  - vm_compute. reflexivity.
Qed.

(* the premises of the two theorems, all at once, on these tables *)
Theorem hz_tables_ok :
  (w0 < hz_scale)%Qc /\ incr hz_lower /\ positive hz_lower /\ index_spec hz_lower hz_index /\
  (0 <= hz_acc)%Qc /\ (hz_acc < 1)%Qc /\ accurate hz_lower hz_value hz_acc /\
  wf hz_src = true /\ pos hz_src /\ total hz_src = Q2Qc 3.
Proof.
  split; [vm_compute; reflexivity|]. split; [exact hz_lower_incr|]. split; [exact hz_lower_pos|].
  split; [exact hz_index_ok|]. split; [vm_compute; discriminate|]. split; [vm_compute; reflexivity|].
  split; [exact hz_accurate|]. split; [vm_compute; reflexivity|].
  split; [apply posb_pos; vm_compute; reflexivity|]. apply Qc_is_canon. vm_compute. reflexivity.
Qed.
