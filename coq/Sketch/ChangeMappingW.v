(* C17 — [changeStoreMapping] at the float level, "keeps the total weight up to rounding", for ONE source bin.

   The loop of Sketch/ChangeMappingG.v (binary64 instance [cmf_adds_loop], guard = true) is analysed on real
   numbers:

     (a) the exact intersections  min(outHigh, inHigh) - max(outLow, inLow)  of the visited target bins are all
         > 0 (so the guard skips none of them: the float subtraction of two distinct floats does not round to 0)
         and telescope to exactly  inHigh - inLow   ([cmw_loop_facts], second and third conjuncts);
     (b) every weight passed to AddWithCount is  count * e_j / (inHigh - inLow)  up to a relative error 5u and an
         absolute underflow term (2 count + 1) * 2^-1075   ([cmw_call], [cmw_share_arith]);
     (c) hence the weights sum to count within  5u * count + m * (2 count + 1) * 2^-1075,  m the number of calls
         ([cmw_loop_total], [cmw_bin_adds_total]).

   u = 2^-53.  The four roundings: intersectionSize (subtraction of floats: relative u, no underflow error),
   inSize (same), proportion = intersectionSize / inSize (relative u, plus at most 2^-1075 when it underflows),
   proportion * count (same).  (1+u)^3 / (1-u) <= 1 + 5u. *)
From Coq Require Import Bool NArith ZArith Reals Lra Lia Psatz List.
From Flocq Require Import Core.Core IEEE754.BinarySingleNaN IEEE754.Binary IEEE754.Bits.
From SK Require Import Base.Prelude Base.F64 Base.F64Proofs Stat.KahanProofs
                       Sketch.ChangeMappingG Sketch.ChangeMappingGProofs.
Import ListNotations.

#[local] Existing Instance prec53_gt_0.
#[local] Existing Instance fexp64_valid.
Local Open Scope R_scope.

(* ====================================================================== *)
(** * 1. real arithmetic                                                   *)
(* ====================================================================== *)

(* intersectionSize / inSize against e / D, division-free: q D = e, r S = i *)
Lemma cmw_ratio (u e D i S r q : R) :
  0 < u <= / 1000 -> 0 < D -> 0 <= e ->
  Rabs (i - e) <= u * e -> Rabs (S - D) <= u * D -> q * D = e -> r * S = i ->
  0 <= q /\ 0 <= r /\ r * (1 - u) <= q * (1 + u) /\ q * (1 - u) <= r * (1 + u).
Proof.
  intros Hu HD He Hi HS Hq Hr.
  apply Rabs_le_inv in Hi. apply Rabs_le_inv in HS.
  assert (S0 : 0 < S) by nra.
  assert (i0 : 0 <= i) by nra.
  assert (q0 : 0 <= q) by nra.
  assert (r0 : 0 <= r) by nra.
  repeat split; try assumption.
  - assert (r * (1 - u) * D <= q * (1 + u) * D) by nra. nra.
  - assert (q * (1 - u) * D <= r * (1 + u) * D) by nra. nra.
Qed.

(* proportion p = rnd(r), weight w = rnd(p C) *)
Lemma cmw_share_arith (u eta q r C p w : R) :
  0 < u <= / 1000 -> 0 <= eta -> 0 <= C -> 0 <= q -> 0 <= r -> 0 <= p ->
  r * (1 - u) <= q * (1 + u) -> q * (1 - u) <= r * (1 + u) ->
  Rabs (p - r) <= u * r + eta -> Rabs (w - p * C) <= u * (p * C) + eta ->
  Rabs (w - C * q) <= 5 * u * (C * q) + (2 * C + 1) * eta.
Proof.
  intros Hu Heta HC Hq Hr Hp H1 H2 Hpr Hw.
  apply Rabs_le_inv in Hpr. apply Rabs_le_inv in Hw.
  assert (U1 : r * ((1 + u) * (1 + u)) <= q * (1 + 5 * u)).
  { assert (r * ((1 + u) * (1 + u)) * (1 - u) <= q * (1 + 5 * u) * (1 - u)); [|nra].
    assert (r * (1 - u) * ((1 + u) * (1 + u)) <= q * (1 + u) * ((1 + u) * (1 + u))) by (apply Rmult_le_compat_r; nra).
    assert (q * ((1 + u) * ((1 + u) * (1 + u))) <= q * ((1 + 5 * u) * (1 - u))) by (apply Rmult_le_compat_l; nra).
    nra. }
  assert (L1 : q * (1 - 5 * u) <= r * ((1 - u) * (1 - u))).
  { assert (q * (1 - 5 * u) * (1 + u) <= r * ((1 - u) * (1 - u)) * (1 + u)); [|nra].
    assert (q * (1 - u) * ((1 - u) * (1 - u)) <= r * (1 + u) * ((1 - u) * (1 - u))) by (apply Rmult_le_compat_r; nra).
    assert (q * ((1 - 5 * u) * (1 + u)) <= q * ((1 - u) * ((1 - u) * (1 - u)))) by (apply Rmult_le_compat_l; nra).
    nra. }
  apply Rabs_le. split.
  - assert (A : (r * (1 - u) - eta) * C * (1 - u) <= p * C * (1 - u)).
    { apply Rmult_le_compat_r; [lra|]. apply Rmult_le_compat_r; lra. }
    assert (B : C * (q * (1 - 5 * u)) <= C * (r * ((1 - u) * (1 - u)))) by (apply Rmult_le_compat_l; lra).
    assert (E : eta * C * (1 - u) <= eta * C * 1) by (apply Rmult_le_compat_l; nra).
    nra.
  - assert (A : p * C * (1 + u) <= (r * (1 + u) + eta) * C * (1 + u)).
    { apply Rmult_le_compat_r; [lra|]. apply Rmult_le_compat_r; lra. }
    assert (B : C * (r * ((1 + u) * (1 + u))) <= C * (q * (1 + 5 * u))) by (apply Rmult_le_compat_l; lra).
    assert (E : eta * C * (1 + u) <= eta * C * 2) by (apply Rmult_le_compat_l; nra).
    nra.
Qed.

(* summing per-item bounds  |f x - C g x / D| <= k C g x / D + tiny *)
Lemma cmw_sum_list (A : Type) (C D k tiny : R) (f g : A -> R) (l : list A) :
  Forall (fun x => Rabs (f x - C * (g x / D)) <= k * (C * (g x / D)) + tiny) l ->
  Rabs (sumR (map f l) - C * (sumR (map g l) / D)) <=
    k * (C * (sumR (map g l) / D)) + INR (length l) * tiny.
Proof.
  induction 1 as [|x l Hx Hl IH].
  - cbn [map sumR fold_right length INR]. unfold Rdiv. rewrite Rmult_0_l, Rmult_0_r, Rmult_0_r, Rmult_0_l, Rminus_0_r, Rabs_R0. lra.
  - cbn [map]. rewrite !sumR_cons. cbn [length]. rewrite S_INR.
    unfold Rdiv in *. rewrite Rmult_plus_distr_r.
    set (a := g x * / D) in *. set (b := sumR (map g l) * / D) in *.
    apply Rabs_le_inv in Hx. apply Rabs_le_inv in IH. apply Rabs_le. lra.
Qed.

(* ====================================================================== *)
(** * 2. the value of the quotient and of the product                      *)
(* ====================================================================== *)

Lemma cmw_fdiv_R (a b : f64) : finite a -> finite b -> 0 <= val a <= val b -> 0 < val b ->
  finite (fdiv a b) /\ val (fdiv a b) = rndR (val a / val b) /\ 0 <= val (fdiv a b) <= 1.
Proof.
  intros Ha Hb Hab Hpos.
  assert (Hnz : val b <> 0) by lra.
  pose proof (Binary.Bdiv_correct 53 1024 eq_refl eq_refl binop_nan_pl64 mode_NE a b Hnz) as H.
  change (Binary.Bdiv 53 1024 eq_refl eq_refl binop_nan_pl64 mode_NE a b) with (fdiv a b) in H.
  change (round radix2 (SpecFloat.fexp 53 1024) (round_mode mode_NE)) with rndR in H.
  assert (Q : 0 <= val a / val b <= 1).
  { split.
    - apply Rmult_le_pos; [lra|]. left. apply Rinv_0_lt_compat. exact Hpos.
    - apply (Rmult_le_reg_r (val b)); [exact Hpos|]. unfold Rdiv. rewrite Rmult_assoc, Rinv_l by exact Hnz. lra. }
  assert (P0 : 0 <= rndR (val a / val b)) by (rewrite <- cm_rnd_0; apply cm_rnd_le; lra).
  assert (P1 : rndR (val a / val b) <= 1) by (rewrite <- cm_rnd_1; apply cm_rnd_le; lra).
  rewrite Rlt_bool_true in H by (rewrite Rabs_pos_eq by exact P0; pose proof cm_one_lt_emax; lra).
  destruct H as (H1 & H2 & _). rewrite H2, H1. split; [exact Ha|]. split; [reflexivity|]. split; assumption.
Qed.

Lemma cmw_fmul_R (p c : f64) : finite p -> finite c -> 0 <= val p <= 1 -> 0 <= val c ->
  finite (fmul p c) /\ val (fmul p c) = rndR (val p * val c).
Proof.
  intros Hp Hc Hp1 Hc0.
  pose proof (Binary.Bmult_correct 53 1024 eq_refl eq_refl binop_nan_pl64 mode_NE p c) as H.
  change (Binary.Bmult 53 1024 eq_refl eq_refl binop_nan_pl64 mode_NE p c) with (fmul p c) in H.
  change (round radix2 (SpecFloat.fexp 53 1024) (round_mode mode_NE)) with rndR in H.
  assert (Q : 0 <= val p * val c <= val c).
  { split; [apply Rmult_le_pos; lra|]. rewrite <- (Rmult_1_l (val c)) at 2. apply Rmult_le_compat_r; lra. }
  assert (P0 : 0 <= rndR (val p * val c)) by (rewrite <- cm_rnd_0; apply cm_rnd_le; lra).
  assert (P1 : rndR (val p * val c) <= val c) by (apply Rle_trans with (rndR (val c)); [apply cm_rnd_le; lra|rewrite cm_rnd_BR; apply Rle_refl]).
  pose proof (cm_BR_lt_emax c) as Bc. rewrite Rabs_pos_eq in Bc by exact Hc0.
  rewrite Rlt_bool_true in H by (rewrite Rabs_pos_eq by exact P0; lra).
  destruct H as (H1 & H2 & _). rewrite H2, H1, Hp, Hc. split; reflexivity.
Qed.

(* ====================================================================== *)
(** * 3. one iteration                                                     *)
(* ====================================================================== *)

(* the exact intersection of the target bin j with the scaled source range *)
Definition cmw_exact (lower2 : Z -> f64) (inLow inHigh : f64) (j : Z) : R :=
  Rmin (val (lower2 (j + 1)%Z)) (val inHigh) - Rmax (val (lower2 j)) (val inLow).

(* the per-call underflow allowance: proportion may lose 2^-1075 (times count), the product 2^-1075 *)
Definition cmw_tiny (c : f64) : R := (2 * val c + 1) * eta64.

Lemma cmw_call (inLow inHigh c outLow outHigh : f64) :
  finite inLow -> finite inHigh -> finite (fsub inHigh inLow) -> finite c -> 0 <= val c ->
  finite outLow -> finite outHigh ->
  val inLow < val inHigh -> val outLow < val inHigh -> val outLow < val outHigh -> val inLow < val outHigh ->
  let e := Rmin (val outHigh) (val inHigh) - Rmax (val outLow) (val inLow) in
  let D := val inHigh - val inLow in
  let isect := g_isect f64 f64_arith inLow inHigh outLow outHigh in
  0 < e <= D /\ fle isect f64_zero = false /\
  Rabs (val (g_share f64 f64_arith (fsub inHigh inLow) isect c) - val c * (e / D)) <=
    5 * u53 * (val c * (e / D)) + cmw_tiny c.
Proof.
  intros Hl Hh Hs Hc Hc0 Fol Foh HD Hcond Hinc Hlo e D isect.
  unfold g_isect, g_share in *. cbn [c_sub c_min c_max c_mul c_div f64_arith] in *.
  destruct (go_max_fin outLow inLow Fol Hl) as (Fmx & Emx & _).
  destruct (go_min_fin outHigh inHigh Foh Hh) as (Fmn & Emn & _).
  set (mx := go_max outLow inLow) in *. set (mn := go_min outHigh inHigh) in *.
  assert (He : e = val mn - val mx) by (unfold e; rewrite Emx, Emn; reflexivity).
  assert (Hlt : val mx < val mn).
  { rewrite Emx, Emn. apply Rmax_case; apply Rmin_case; lra. }
  assert (HeD : 0 < e <= D).
  { unfold D. rewrite He. pose proof (Rmin_r (val outHigh) (val inHigh)). pose proof (Rmax_r (val outLow) (val inLow)).
    rewrite <- Emx in *. rewrite <- Emn in *. lra. }
  (* inSize *)
  pose proof (cm_fsub_R inHigh inLow Hh Hl Hs) as Rs. fold D in Rs.
  assert (D0 : 0 < D) by (unfold D; lra).
  pose proof (cm_rnd_sub_pos inHigh inLow HD) as Ps. fold D in Ps. rewrite <- Rs in Ps.
  pose proof (rndR_minus_rel (val inHigh) (val inLow) (val_fmt _) (val_fmt _)) as ES. fold D in ES. rewrite <- Rs in ES.
  rewrite (Rabs_pos_eq D) in ES by lra.
  (* intersectionSize *)
  assert (Hmono : rndR (val mn - val mx) <= val (fsub inHigh inLow)) by (rewrite Rs, <- He; apply cm_rnd_le; lra).
  pose proof (cm_BR_lt_emax (fsub inHigh inLow)) as Bs. rewrite Rabs_pos_eq in Bs by lra.
  destruct (cm_fsub_bounded mn mx Fmn Fmx) as (Fi & Ri); [lra|lra|].
  pose proof (cm_rnd_sub_pos mn mx Hlt) as Pi. rewrite <- Ri in Pi.
  pose proof (rndR_minus_rel (val mn) (val mx) (val_fmt _) (val_fmt _)) as EI. rewrite <- Ri, <- He in EI.
  rewrite (Rabs_pos_eq e) in EI by lra.
  assert (Hguard : fle (fsub mn mx) f64_zero = false).
  { destruct (fle (fsub mn mx) f64_zero) eqn:E; [|reflexivity]. apply (cm_fle_zero_r _ Fi) in E. lra. }
  split; [exact HeD|]. split; [exact Hguard|].
  set (I := fsub mn mx) in *. set (S := fsub inHigh inLow) in *.
  (* proportion *)
  destruct (cmw_fdiv_R I S Fi Hs) as (Fp & Rp & Bp); [rewrite Ri; lra|exact Ps|].
  destruct (cmw_fmul_R (fdiv I S) c Fp Hc Bp Hc0) as (Fw & Rw).
  pose proof (rndR_err (val I / val S)) as EP. rewrite <- Rp in EP.
  pose proof (rndR_err (val (fdiv I S) * val c)) as EW. rewrite <- Rw in EW.
  assert (R0 : 0 <= val I / val S) by (apply Rmult_le_pos; [lra|left; apply Rinv_0_lt_compat; exact Ps]).
  rewrite (Rabs_pos_eq _ R0) in EP.
  rewrite (Rabs_pos_eq (val (fdiv I S) * val c)) in EW by (apply Rmult_le_pos; lra).
  assert (Hq : e / D * D = e) by (unfold Rdiv; rewrite Rmult_assoc, Rinv_l by lra; ring).
  assert (Hr : val I / val S * val S = val I) by (unfold Rdiv; rewrite Rmult_assoc, Rinv_l by lra; ring).
  destruct (cmw_ratio u53 e D (val I) (val S) (val I / val S) (e / D) u53_bounds D0 (Rlt_le _ _ (proj1 HeD)) EI ES Hq Hr)
    as (q0 & r0 & H1 & H2).
  unfold cmw_tiny.
  apply (cmw_share_arith u53 eta64 (e / D) (val I / val S) (val c) (val (fdiv I S)) (val (fmul (fdiv I S) c)) u53_bounds);
    try assumption; try lra.
  apply bpow_ge_0.
Qed.

(* ====================================================================== *)
(** * 4. the loop                                                          *)
(* ====================================================================== *)

(* what remains of the source range from the lower bound of target bin [out] on *)
Definition cmw_rest (lower2 : Z -> f64) (inLow inHigh : f64) (out : Z) : R :=
  val inHigh - Rmin (val inHigh) (Rmax (val (lower2 out)) (val inLow)).

Section Loop.
Variables (lower2 : Z -> f64) (inLow inHigh c : f64).
Hypothesis Hl : finite inLow.
Hypothesis Hh : finite inHigh.
Hypothesis Hs : finite (fsub inHigh inLow).
Hypothesis Hc : finite c.
Hypothesis Hc0 : 0 <= val c.
Hypothesis HD : val inLow < val inHigh.

Let D := val inHigh - val inLow.
Let ex := cmw_exact lower2 inLow inHigh.

(* (a) + (b): no visited target is skipped (each call's exact intersection is > 0), the exact intersections of the
   calls telescope to what remained of the source range, each weight is its exact share up to rounding *)
Lemma cmw_loop_facts : forall (fuel : nat) (out : Z) (l : list (Z * f64)),
  (forall j, (out <= j <= out + Z.of_nat fuel)%Z -> finite (lower2 j)) ->
  (forall j, (out <= j < out + Z.of_nat fuel)%Z -> val (lower2 j) < val (lower2 (j + 1)%Z)) ->
  ((1 <= fuel)%nat -> val inLow < val (lower2 (out + 1)%Z)) ->
  cmf_adds_loop lower2 true fuel inLow inHigh (fsub inHigh inLow) c out = Some l ->
  sumR (map (fun jw => ex (fst jw)) l) = cmw_rest lower2 inLow inHigh out /\
  Forall (fun jw => 0 < ex (fst jw) <= D /\
                    Rabs (val (snd jw) - val c * (ex (fst jw) / D)) <= 5 * u53 * (val c * (ex (fst jw) / D)) + cmw_tiny c) l.
Proof.
  induction fuel as [|f IH]; intros out l Hfin Hinc Hlo H.
  - discriminate H.
  - unfold cmf_adds_loop in H. rewrite g_adds_loop_S in H. cbn [c_ltb f64_arith] in H.
    assert (F0 : finite (lower2 out)) by (apply Hfin; lia).
    assert (F1 : finite (lower2 (out + 1)%Z)) by (apply Hfin; rewrite Nat2Z.inj_succ; lia).
    destruct (flt (lower2 out) inHigh) eqn:Ec.
    + apply (cm_flt_R _ _ F0 Hh) in Ec.
      destruct (g_adds_loop f64 f64_arith lower2 true f inLow inHigh (fsub inHigh inLow) c (out + 1)) as [l'|] eqn:E;
        [|discriminate H].
      assert (I1 : val (lower2 out) < val (lower2 (out + 1)%Z)) by (apply Hinc; rewrite Nat2Z.inj_succ; lia).
      assert (L1 : val inLow < val (lower2 (out + 1)%Z)) by (apply Hlo; lia).
      destruct (IH (out + 1)%Z l') as (IHs & IHf).
      { intros j Hj. apply Hfin. rewrite Nat2Z.inj_succ. lia. }
      { intros j Hj. apply Hinc. rewrite Nat2Z.inj_succ. lia. }
      { intros Hf. apply Rlt_trans with (1 := L1). replace (out + 1 + 1)%Z with ((out + 1) + 1)%Z by lia.
        apply Hinc. rewrite Nat2Z.inj_succ. lia. }
      { exact E. }
      destruct (cmw_call inLow inHigh c (lower2 out) (lower2 (out + 1)%Z) Hl Hh Hs Hc Hc0 F0 F1 HD Ec I1 L1)
        as (He & Hg & Hw).
      unfold g_skips in H. cbn [andb c_le0 f64_arith] in H. rewrite Hg in H. injection H as <-.
      split.
      * cbn [map fst]. rewrite sumR_cons, IHs. unfold ex, cmw_exact, cmw_rest.
        rewrite (Rmax_left (val (lower2 (out + 1)%Z)) (val inLow)) by lra.
        rewrite (Rmin_right (val inHigh) (Rmax (val (lower2 out)) (val inLow))) by (apply Rmax_case; lra).
        rewrite (Rmin_comm (val inHigh)). ring.
      * constructor; [|exact IHf]. cbn [fst snd]. split; [exact He|exact Hw].
    + injection H as <-. split; [|constructor].
      cbn [map sumR fold_right]. unfold cmw_rest.
      assert (G : val inHigh <= val (lower2 out)).
      { destruct (Rle_lt_dec (val inHigh) (val (lower2 out))) as [G|G]; [exact G|].
        apply (cm_flt_R _ _ F0 Hh) in G. congruence. }
      rewrite Rmin_left; [ring|]. apply Rle_trans with (1 := G). apply Rmax_l.
Qed.

(* (c) the weights of the calls sum to count * (what remained) / (inHigh - inLow), up to rounding *)
Lemma cmw_loop_sum (fuel : nat) (out : Z) (l : list (Z * f64)) :
  (forall j, (out <= j <= out + Z.of_nat fuel)%Z -> finite (lower2 j)) ->
  (forall j, (out <= j < out + Z.of_nat fuel)%Z -> val (lower2 j) < val (lower2 (j + 1)%Z)) ->
  ((1 <= fuel)%nat -> val inLow < val (lower2 (out + 1)%Z)) ->
  cmf_adds_loop lower2 true fuel inLow inHigh (fsub inHigh inLow) c out = Some l ->
  Rabs (sumR (map (fun jw => val (snd jw)) l) - val c * (cmw_rest lower2 inLow inHigh out / D)) <=
    5 * u53 * (val c * (cmw_rest lower2 inLow inHigh out / D)) + INR (length l) * cmw_tiny c.
Proof.
  intros Hfin Hinc Hlo H.
  destruct (cmw_loop_facts fuel out l Hfin Hinc Hlo H) as (Hsum & Hall).
  rewrite <- Hsum.
  apply (cmw_sum_list (Z * f64) (val c) D (5 * u53) (cmw_tiny c) (fun jw => val (snd jw)) (fun jw => ex (fst jw)) l).
  eapply Forall_impl; [|exact Hall]. intros jw (_ & Hb). exact Hb.
Qed.
End Loop.

(* the loop of one source bin, started at a correct Index *)
Theorem cmw_loop_total (lower2 : Z -> f64) (fuel : nat) (inLow inHigh c : f64) (out0 : Z) (l : list (Z * f64)) :
  finite inLow -> finite inHigh -> finite (fsub inHigh inLow) -> finite c -> fle f64_zero c = true ->
  val inLow < val inHigh ->
  (forall j, (out0 <= j <= out0 + Z.of_nat fuel)%Z -> finite (lower2 j)) ->
  (forall j, (out0 <= j < out0 + Z.of_nat fuel)%Z -> val (lower2 j) < val (lower2 (j + 1)%Z)) ->
  val (lower2 out0) <= val inLow < val (lower2 (out0 + 1)%Z) ->
  cmf_adds_loop lower2 true fuel inLow inHigh (fsub inHigh inLow) c out0 = Some l ->
  Rabs (sumR (map (fun jw => val (snd jw)) l) - val c) <=
    5 * u53 * val c + INR (length l) * ((2 * val c + 1) * eta64).
Proof.
  intros Hl Hh Hs Hc Hc0 HD Hfin Hinc (Hi0 & Hi1) H.
  apply (cm_fle_zero_l c Hc) in Hc0.
  pose proof (cmw_loop_sum lower2 inLow inHigh c Hl Hh Hs Hc Hc0 HD fuel out0 l Hfin Hinc (fun _ => Hi1) H) as B.
  assert (E : cmw_rest lower2 inLow inHigh out0 / (val inHigh - val inLow) = 1).
  { unfold cmw_rest. rewrite (Rmax_right (val (lower2 out0)) (val inLow)) by exact Hi0.
    rewrite Rmin_right by lra. unfold Rdiv. apply Rinv_r. lra. }
  rewrite E, Rmult_1_r in B. exact B.
Qed.

(* the exact side of the same statement: the calls' exact intersections are > 0 and sum to inHigh - inLow exactly *)
Theorem cmw_loop_exact_total (lower2 : Z -> f64) (fuel : nat) (inLow inHigh c : f64) (out0 : Z) (l : list (Z * f64)) :
  finite inLow -> finite inHigh -> finite (fsub inHigh inLow) -> finite c -> fle f64_zero c = true ->
  val inLow < val inHigh ->
  (forall j, (out0 <= j <= out0 + Z.of_nat fuel)%Z -> finite (lower2 j)) ->
  (forall j, (out0 <= j < out0 + Z.of_nat fuel)%Z -> val (lower2 j) < val (lower2 (j + 1)%Z)) ->
  val (lower2 out0) <= val inLow < val (lower2 (out0 + 1)%Z) ->
  cmf_adds_loop lower2 true fuel inLow inHigh (fsub inHigh inLow) c out0 = Some l ->
  sumR (map (fun jw => cmw_exact lower2 inLow inHigh (fst jw)) l) = val inHigh - val inLow /\
  Forall (fun jw =>
            let e := cmw_exact lower2 inLow inHigh (fst jw) in
            0 < e <= val inHigh - val inLow /\
            Rabs (val (snd jw) - val c * (e / (val inHigh - val inLow))) <=
              5 * u53 * (val c * (e / (val inHigh - val inLow))) + (2 * val c + 1) * eta64) l.
Proof.
  intros Hl Hh Hs Hc Hc0 HD Hfin Hinc (Hi0 & Hi1) H.
  apply (cm_fle_zero_l c Hc) in Hc0.
  destruct (cmw_loop_facts lower2 inLow inHigh c Hl Hh Hs Hc Hc0 HD fuel out0 l Hfin Hinc (fun _ => Hi1) H) as (Hsum & Hall).
  split; [|exact Hall].
  rewrite Hsum. unfold cmw_rest. rewrite (Rmax_right (val (lower2 out0)) (val inLow)) by exact Hi0.
  rewrite Rmin_right by lra. reflexivity.
Qed.

(* the ForEach callback for the source bin (i, c) *)
Theorem cmw_bin_adds_total (lower1 lower2 : Z -> f64) (index2 : f64 -> Z) (scale : f64) (fuel : nat) (i : Z) (c : f64)
    (l : list (Z * f64)) :
  let inLow := fmul (lower1 i) scale in
  let inHigh := fmul (lower1 (i + 1)%Z) scale in
  let out0 := index2 inLow in
  finite inLow -> finite inHigh -> finite (fsub inHigh inLow) -> finite c -> fle f64_zero c = true ->
  val inLow < val inHigh ->
  (forall j, (out0 <= j <= out0 + Z.of_nat fuel)%Z -> finite (lower2 j)) ->
  (forall j, (out0 <= j < out0 + Z.of_nat fuel)%Z -> val (lower2 j) < val (lower2 (j + 1)%Z)) ->
  val (lower2 out0) <= val inLow < val (lower2 (out0 + 1)%Z) ->
  cmf_bin_adds lower1 lower2 index2 scale true fuel i c = Some l ->
  Rabs (sumR (map (fun jw => val (snd jw)) l) - val c) <=
    5 * u53 * val c + INR (length l) * ((2 * val c + 1) * eta64).
Proof.
  intros inLow inHigh out0 Hl Hh Hs Hc Hc0 HD Hfin Hinc Hidx H.
  exact (cmw_loop_total lower2 fuel inLow inHigh c out0 l Hl Hh Hs Hc Hc0 HD Hfin Hinc Hidx H).
Qed.

(* ====================================================================== *)
(** * 5. the premises are satisfiable: the base-2 tables of ChangeMappingGProofs, scale 1.001, source bin (1, 1.0) *)
(* ====================================================================== *)
Theorem cmw_example :
  let inLow := fmul (exf_lower 1) exf_scale in
  let inHigh := fmul (exf_lower 2) exf_scale in
  let out0 := exf_index_exact inLow in
  exists l : list (Z * f64),
    (finite inLow /\ finite inHigh /\ finite (fsub inHigh inLow) /\ finite f64_one /\ fle f64_zero f64_one = true /\
     val inLow < val inHigh /\
     (forall j, (out0 <= j <= out0 + Z.of_nat 6)%Z -> finite (exf_lower j)) /\
     (forall j, (out0 <= j < out0 + Z.of_nat 6)%Z -> val (exf_lower j) < val (exf_lower (j + 1)%Z)) /\
     val (exf_lower out0) <= val inLow < val (exf_lower (out0 + 1)%Z)) /\
    cmf_bin_adds exf_lower exf_lower exf_index_exact exf_scale true 6 1 f64_one = Some l /\
    bits_of_adds (Some l) = Some [(1%Z, 4607164422397910035%N); (2%Z, 4566753501465799841%N)] /\
    Rabs (sumR (map (fun jw => val (snd jw)) l) - val f64_one) <=
      5 * u53 * val f64_one + INR (length l) * ((2 * val f64_one + 1) * eta64).
Proof.
  intros inLow inHigh out0.
  assert (Eo : out0 = 1%Z) by (vm_compute; reflexivity).
  assert (Fl : finite inLow) by (vm_compute; reflexivity).
  assert (Fh : finite inHigh) by (vm_compute; reflexivity).
  assert (Fs : finite (fsub inHigh inLow)) by (vm_compute; reflexivity).
  assert (HD : val inLow < val inHigh) by (apply (cm_flt_R _ _ Fl Fh); vm_compute; reflexivity).
  assert (Hfin : forall j, (out0 <= j <= out0 + Z.of_nat 6)%Z -> finite (exf_lower j)).
  { rewrite Eo. intros j Hj.
    assert (Hc : forallb (fun k => is_finite 53 1024 (exf_lower k)) (zrange 1 7) = true) by (vm_compute; reflexivity).
    rewrite forallb_forall in Hc. apply Hc. apply in_zrange. cbn in Hj. lia. }
  assert (Hinc : forall j, (out0 <= j < out0 + Z.of_nat 6)%Z -> val (exf_lower j) < val (exf_lower (j + 1)%Z)).
  { intros j Hj. apply cm_flt_R; [apply Hfin; lia|apply Hfin; lia|]. rewrite Eo in Hj.
    assert (Hc : forallb (fun k => flt (exf_lower k) (exf_lower (k + 1)%Z)) (zrange 1 6) = true) by (vm_compute; reflexivity).
    rewrite forallb_forall in Hc. apply Hc. apply in_zrange. cbn in Hj. lia. }
  assert (F1 : finite (exf_lower 1)) by (vm_compute; reflexivity).
  assert (F2 : finite (exf_lower 2)) by (vm_compute; reflexivity).
  assert (Hidx : val (exf_lower out0) <= val inLow < val (exf_lower (out0 + 1)%Z)).
  { rewrite Eo. change (1 + 1)%Z with 2%Z. split.
    - apply (cm_fle_R _ _ F1 Fl). vm_compute. reflexivity.
    - apply (cm_flt_R _ _ Fl F2). vm_compute. reflexivity. }
  assert (Hb : match cmf_bin_adds exf_lower exf_lower exf_index_exact exf_scale true 6 1 f64_one with
               | Some _ => true | None => false end = true) by (vm_compute; reflexivity).
  destruct (cmf_bin_adds exf_lower exf_lower exf_index_exact exf_scale true 6 1 f64_one) as [l|] eqn:E;
    [clear Hb|discriminate Hb].
  exists l.
  split; [exact (conj Fl (conj Fh (conj Fs (conj eq_refl (conj eq_refl (conj HD (conj Hfin (conj Hinc Hidx))))))))|].
  split; [reflexivity|].
  split; [rewrite <- E; vm_compute; reflexivity|].
  exact (cmw_bin_adds_total exf_lower exf_lower exf_index_exact exf_scale 6 1 f64_one l Fl Fh Fs eq_refl eq_refl HD Hfin Hinc Hidx E).
Qed.
