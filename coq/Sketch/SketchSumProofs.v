(* Float-level analysis of DDSketch.GetSum (Sketch/SketchSum.v: sum_fold_f64 = the ForEach callback
   sum += value * count  in binary64) and the refusal rule of NewDDSketchWithExactSummaryStatisticsFromData.

   GetSum is the plain recursive sum of rounded products: n multiplications and n additions.  Part 1 is the
   textbook analysis on real numbers in the binary64 format (one addition moves the running sum by at most u times
   the exact sum, so after k additions the relative error with respect to the sum of the absolute values is
   (1+u)^k - 1); part 2 links the binary64 operations to it under an explicit no-overflow bound; part 3 adds the
   products (relative error u, plus eta = 2^-1075 when a product falls in the subnormal range), reusing the product
   step of Stat/KahanProofs.v.  The per-operation lemmas (rndR_plus_rel, rndR_err, fadd_bounded, fmul_bounded,
   prods_ok, ...) come from Stat/KahanProofs.v and Mapping/GlueProofs.v. *)
From Coq Require Import Bool ZArith Reals Lra Lia Psatz List.
From Flocq Require Import Core.Core IEEE754.BinarySingleNaN IEEE754.Binary IEEE754.Bits.
From SK Require Import Sketch.Sketch Sketch.SketchSum.
From SK Require Import Base.Prelude Base.F64 Base.F64Proofs Stat.Summary Mapping.Glue Mapping.GlueProofs Stat.KahanProofs.
Import ListNotations.

#[local] Existing Instance prec53_gt_0.
#[local] Existing Instance fexp64_valid.
Local Open Scope R_scope.

(* ------------------------------------------------------------------ *)
(* 0. (1+u)^k                                                           *)
(* ------------------------------------------------------------------ *)
Lemma pow1u_ge1 (k : nat) : 1 <= (1 + u53) ^ k.
Proof. apply pow_R1_Rle. pose proof u53_bounds. lra. Qed.

(* (1+u)^k - 1 <= k u (1 + k u) as long as k u <= 1 *)
Lemma pow1u_bound (k : nat) : INR k * u53 <= 1 -> (1 + u53) ^ k - 1 <= INR k * u53 * (1 + INR k * u53).
Proof.
  pose proof u53_bounds as Hu.
  induction k as [|k IH]; intros H.
  - cbn [pow INR]. lra.
  - rewrite S_INR in H |- *. rewrite <- tech_pow_Rmult. pose proof (pos_INR k) as HK.
    set (K := INR k) in *. set (p := (1 + u53) ^ k) in *.
    assert (H0 : K * u53 <= 1) by nra.
    specialize (IH H0).
    assert (H2 : K * K * u53 <= K) by nra.
    assert (H3 : 0 <= u53 * u53 * (K + 1 - K * K * u53)) by (apply Rmult_le_pos; [nra|lra]).
    assert (H4 : (1 + u53) * p <= (1 + u53) * (1 + K * u53 * (1 + K * u53))) by (apply Rmult_le_compat_l; lra).
    nra.
Qed.

Lemma pow1u_le2 (n : nat) : (Z.of_nat n <= 2 ^ 50)%Z -> (1 + u53) ^ n <= 2.
Proof.
  intros Hn. pose proof (len_u n Hn) as H. pose proof (pos_INR n) as HK. pose proof u53_bounds as Hu.
  pose proof (pow1u_bound n ltac:(lra)) as HP.
  assert (0 <= INR n * u53) by (apply Rmult_le_pos; lra).
  assert (INR n * u53 * (1 + INR n * u53) <= / 8 * (1 + / 8)) by (apply Rmult_le_compat; lra).
  lra.
Qed.

(* ------------------------------------------------------------------ *)
(* 1. the recursive sum on real numbers in the format                   *)
(* ------------------------------------------------------------------ *)
Definition nstepR (a x : R) : R := rndR (a + x).
Definition nfoldR (xs : list R) (a : R) : R := fold_left nstepR xs a.

Lemma rndR_plus_abs (a b : R) : fmt a -> fmt b -> Rabs (rndR (a + b)) <= (1 + u53) * Rabs (a + b).
Proof.
  intros Fa Fb. pose proof (rndR_plus_rel a b Fa Fb) as H.
  replace (rndR (a + b)) with ((rndR (a + b) - (a + b)) + (a + b)) by ring.
  eapply Rle_trans; [apply Rabs_triang|]. lra.
Qed.

Lemma nstep_arith (u P A B s' m M S : R) : 0 < u -> 1 <= P -> 0 <= S -> 0 <= m <= M ->
  A <= (P - 1) * (s' + S) -> s' <= (1 + u) * m -> B <= u * m ->
  A + B <= ((1 + u) * P - 1) * (M + S).
Proof.
  intros Hu HP HS (Hm & HM) HA Hs HB.
  assert (H1 : s' <= (1 + u) * M) by nra.
  assert (H2 : (P - 1) * (s' + S) <= (P - 1) * ((1 + u) * M + S)) by (apply Rmult_le_compat_l; lra).
  assert (H3 : u * m <= u * M) by nra.
  assert (H4 : 0 <= u * P * S) by (apply Rmult_le_pos; [apply Rmult_le_pos|]; lra).
  nra.
Qed.

(* k additions: relative error (1+u)^k - 1 with respect to |a| + sum |x| *)
Theorem nfoldR_err (xs : list R) : forall a, fmt a -> Forall (fun x => fmt x) xs ->
  Rabs (nfoldR xs a - (a + sumR xs)) <= ((1 + u53) ^ length xs - 1) * (Rabs a + sumabsR xs).
Proof.
  induction xs as [|x xs IH]; intros a Fa FX.
  - cbn [nfoldR fold_left length pow]. change (sumR []) with 0.
    replace (a - (a + 0)) with 0 by ring. rewrite Rabs_R0. apply Req_le. ring.
  - inversion FX as [|x0 l0 Fx FX']; subst.
    change (nfoldR (x :: xs) a) with (nfoldR xs (rndR (a + x))).
    rewrite sumR_cons, sumabsR_cons. change (length (x :: xs)) with (S (length xs)). rewrite <- tech_pow_Rmult.
    pose proof (IH (rndR (a + x)) (rndR_fmt _) FX') as I.
    pose proof (rndR_plus_rel a x Fa Fx) as E1. pose proof (rndR_plus_abs a x Fa Fx) as E2.
    pose proof (Rabs_triang a x) as T. pose proof (sumabsR_nonneg xs) as HA.
    pose proof (pow1u_ge1 (length xs)) as HP. pose proof u53_bounds as Hu.
    set (P := (1 + u53) ^ length xs) in *. set (s' := rndR (a + x)) in *.
    replace (nfoldR xs s' - (a + (x + sumR xs))) with ((nfoldR xs s' - (s' + sumR xs)) + (s' - (a + x))) by ring.
    eapply Rle_trans; [apply Rabs_triang|]. rewrite <- Rplus_assoc.
    apply (nstep_arith u53 P _ _ (Rabs s') (Rabs (a + x)) (Rabs a + Rabs x) (sumabsR xs)); try assumption; try lra.
    split; [apply Rabs_pos|exact T].
Qed.

(* ------------------------------------------------------------------ *)
(* 2. binary64: fold_left fadd                                          *)
(* ------------------------------------------------------------------ *)
Definition nfoldF (xs : list f64) (a : f64) : f64 := fold_left fadd xs a.

Lemma nsim_arith (u P s' m a x S Mx : R) : 0 < u -> 1 <= P -> 0 <= S -> 0 <= a -> 0 <= x ->
  m <= a + x -> s' <= (1 + u) * m -> (1 + u) * P * (a + (x + S)) <= Mx ->
  a + x <= Mx /\ P * (s' + S) <= Mx.
Proof.
  intros Hu HP HS Ha Hx Hm Hs HB.
  assert (H0 : 1 <= (1 + u) * P) by nra.
  assert (H1 : 1 * (a + (x + S)) <= (1 + u) * P * (a + (x + S))) by (apply Rmult_le_compat_r; lra).
  split; [lra|].
  assert (H2 : s' <= (1 + u) * (a + x)) by nra.
  assert (H3 : P * (s' + S) <= P * ((1 + u) * (a + x) + S)) by (apply Rmult_le_compat_l; lra).
  assert (H4 : 0 <= u * P * S) by (apply Rmult_le_pos; [apply Rmult_le_pos|]; lra).
  nra.
Qed.

(* no addition overflows and the fold is the real fold, when (1+u)^n (|a| + sum |x|) is at most MaxFloat64 *)
Theorem nfoldF_sim (xs : list f64) : forall a : f64, finite a -> all_finite xs ->
  (1 + u53) ^ length xs * (Rabs (val a) + sumabsR (vals xs)) <= IZR f64max_Z ->
  finite (nfoldF xs a) /\ val (nfoldF xs a) = nfoldR (vals xs) (val a).
Proof.
  induction xs as [|x xs IH]; intros a Fa FX HB.
  - split; [exact Fa|reflexivity].
  - inversion FX as [|x0 l0 Fx FX']; subst.
    rewrite vals_cons, sumabsR_cons in HB. change (length (x :: xs)) with (S (length xs)) in HB.
    rewrite <- tech_pow_Rmult in HB.
    pose proof (rndR_plus_abs (val a) (val x) (val_fmt a) (val_fmt x)) as E2.
    pose proof (Rabs_triang (val a) (val x)) as T. pose proof (sumabsR_nonneg (vals xs)) as HA.
    pose proof (pow1u_ge1 (length xs)) as HP. pose proof u53_bounds as Hu.
    destruct (nsim_arith u53 ((1 + u53) ^ length xs) (Rabs (rndR (val a + val x))) (Rabs (val a + val x))
                (Rabs (val a)) (Rabs (val x)) (sumabsR (vals xs)) (IZR f64max_Z)) as (H1 & H2);
      try assumption; try apply Rabs_pos; try lra.
    destruct (fadd_bounded a x Fa Fx) as (Fs & Vs); [eapply Rle_trans; [exact T|exact H1]|].
    change (nfoldF (x :: xs) a) with (nfoldF xs (fadd a x)).
    change (nfoldR (vals (x :: xs)) (val a)) with (nfoldR (vals xs) (rndR (val a + val x))). rewrite <- Vs.
    apply IH; [exact Fs|exact FX'|]. rewrite Vs. exact H2.
Qed.

(* exactness: while every partial sum is representable nothing is lost (no length premise) *)
Theorem nfoldF_exact (xs : list f64) : forall a : f64, finite a -> all_finite xs ->
  prefix_fmt (val a) (vals xs) -> Rabs (val a) + sumabsR (vals xs) <= IZR f64max_Z ->
  finite (nfoldF xs a) /\ val (nfoldF xs a) = val a + sumR (vals xs).
Proof.
  induction xs as [|x xs IH]; intros a Fa FX HP HB.
  - split; [exact Fa|]. change (sumR (vals [])) with 0. change (nfoldF [] a) with a. ring.
  - inversion FX as [|x0 l0 Fx FX']; subst.
    rewrite vals_cons in HP, HB |- *. destruct HP as (HP1 & HP2). rewrite sumabsR_cons in HB. rewrite sumR_cons.
    pose proof (sumabsR_nonneg (vals xs)) as HA. pose proof (Rabs_triang (val a) (val x)) as T.
    destruct (fadd_bounded a x Fa Fx ltac:(lra)) as (Fs & Vs). rewrite (rndR_generic _ HP1) in Vs.
    change (nfoldF (x :: xs) a) with (nfoldF xs (fadd a x)).
    destruct (IH (fadd a x) Fs FX') as (F2 & V2).
    + rewrite Vs. exact HP2.
    + rewrite Vs. lra.
    + split; [exact F2|]. rewrite V2, Vs. ring.
Qed.

(* ------------------------------------------------------------------ *)
(* 3. GetSum: products, then the recursive sum                          *)
(* ------------------------------------------------------------------ *)
Lemma sum_fold_prods (l : list (f64 * f64)) : forall a : f64,
  fold_left (fun acc vc => fadd acc (fmul (fst vc) (snd vc))) l a = nfoldF (prodsF l) a.
Proof.
  induction l as [|(v, w) l IH]; intros a; [reflexivity|].
  rewrite prodsF_cons. change (nfoldF (fmul v w :: prodsF l) a) with (nfoldF (prodsF l) (fadd a (fmul v w))).
  rewrite <- IH. reflexivity.
Qed.

Lemma sum_fold_f64_eq (l : list (f64 * f64)) : sum_fold_f64 l = nfoldF (prodsF l) f64_zero.
Proof. apply sum_fold_prods. Qed.

Lemma prodsF_length (l : list (f64 * f64)) : length (prodsF l) = length l.
Proof. apply map_length. Qed.

Lemma nsum_total_arith (u P r S T A B ne : R) : 0 < u -> 1 <= P -> 0 <= A -> 0 <= ne ->
  Rabs (r - S) <= (P - 1) * B -> Rabs (S - T) <= u * A + ne -> B <= (1 + u) * A + ne ->
  Rabs (r - T) <= ((1 + u) * P - 1) * A + P * ne.
Proof.
  intros Hu HP HA Hne H1 H2 H3.
  replace (r - T) with ((r - S) + (S - T)) by ring. eapply Rle_trans; [apply Rabs_triang|].
  assert (H4 : (P - 1) * B <= (P - 1) * ((1 + u) * A + ne)) by (apply Rmult_le_compat_l; lra).
  nra.
Qed.

Lemma n_eta_small (n : nat) : (Z.of_nat n <= 2 ^ 50)%Z -> 0 <= INR n * eta64 <= bpow radix2 1000.
Proof.
  intros Hn. pose proof (len_u n Hn) as H. pose proof (pos_INR n) as HK.
  assert (He : eta64 <= u53) by (apply bpow_le; lia).
  assert (H1 : 1 <= bpow radix2 1000) by (change 1 with (bpow radix2 0); apply bpow_le; lia).
  pose proof (bpow_gt_0 radix2 (-1075)) as He0.
  assert (INR n * eta64 <= INR n * u53) by (apply Rmult_le_compat_l; lra).
  split; [apply Rmult_le_pos; lra|lra].
Qed.

(* the textbook shape: gamma-like factor (1+u)^(n+1) - 1 on the sum of the absolute exact products (n additions and one
   multiplication per term), and the underflow of the products, eta each, amplified by the n additions *)
Theorem sum_fold_f64_err_pow (l : list (f64 * f64)) : pairs_finite l -> (Z.of_nat (length l) <= 2 ^ 50)%Z ->
  sumabsR (prodsR l) <= bpow radix2 1000 ->
  finite (sum_fold_f64 l) /\
  Rabs (val (sum_fold_f64 l) - sumR (prodsR l)) <=
    ((1 + u53) ^ S (length l) - 1) * sumabsR (prodsR l) + (1 + u53) ^ length l * (INR (length l) * eta64).
Proof.
  intros PF Hn HB.
  pose proof bpow1000_max as HM. pose proof (bpow_ge_0 radix2 1000) as H1000. pose proof u53_bounds as Hu.
  destruct (prods_ok l PF ltac:(lra)) as (FP & D1 & D2).
  pose proof (pow1u_le2 (length l) Hn) as HP2. pose proof (pow1u_ge1 (length l)) as HP1.
  destruct (n_eta_small (length l) Hn) as (Hne0 & Hne).
  pose proof (sumabsR_nonneg (prodsR l)) as HA. pose proof (sumabsR_nonneg (vals (prodsF l))) as HBv.
  rewrite sum_fold_f64_eq.
  destruct (nfoldF_sim (prodsF l) f64_zero eq_refl FP) as (Ff & Vf).
  { rewrite val_zero, Rabs_R0, Rplus_0_l, prodsF_length.
    assert (K1 : u53 * sumabsR (prodsR l) <= 1 * bpow radix2 1000) by (apply Rmult_le_compat; lra).
    assert (K2 : (1 + u53) ^ length l * sumabsR (vals (prodsF l)) <= 2 * (3 * bpow radix2 1000))
      by (apply Rmult_le_compat; lra).
    lra. }
  split; [exact Ff|].
  pose proof (nfoldR_err (vals (prodsF l)) (val f64_zero) (val_fmt _) (vals_fmt _)) as E.
  rewrite <- Vf in E. rewrite val_zero, Rabs_R0, !Rplus_0_l, vals_length, prodsF_length in E.
  rewrite <- tech_pow_Rmult.
  apply (nsum_total_arith u53 _ _ (sumR (vals (prodsF l))) _ _ (sumabsR (vals (prodsF l)))); try assumption; lra.
Qed.

(* explicit constants: (n+1) u (1 + (n+1) u) and 2 n eta *)
Theorem sum_fold_f64_err (l : list (f64 * f64)) : pairs_finite l -> (Z.of_nat (length l) <= 2 ^ 50)%Z ->
  sumabsR (prodsR l) <= bpow radix2 1000 ->
  let n := INR (length l) in
  finite (sum_fold_f64 l) /\
  Rabs (val (sum_fold_f64 l) - sumR (prodsR l)) <=
    (n + 1) * u53 * (1 + (n + 1) * u53) * sumabsR (prodsR l) + 2 * n * eta64.
Proof.
  intros PF Hn HB n.
  destruct (sum_fold_f64_err_pow l PF Hn HB) as (F & E). split; [exact F|].
  eapply Rle_trans; [exact E|].
  pose proof u53_bounds as Hu. pose proof (len_u (length l) Hn) as Hnu. fold n in Hnu.
  pose proof (pow1u_bound (S (length l))) as G. rewrite S_INR in G. fold n in G.
  pose proof (pow1u_le2 (length l) Hn) as HP2.
  destruct (n_eta_small (length l) Hn) as (Hne0 & _). fold n in Hne0.
  pose proof (sumabsR_nonneg (prodsR l)) as HA.
  apply Rplus_le_compat.
  - apply Rmult_le_compat_r; [exact HA|]. apply G. lra.
  - replace (2 * n * eta64) with (2 * (n * eta64)) by ring. apply Rmult_le_compat_r; assumption.
Qed.

(* integer values and counts with sum |v w| <= 2^53: GetSum is the exact integer, whatever the number of bins *)
Theorem sum_fold_f64_exact_int (zl : list (Z * Z)) :
  Forall (fun zz => (Z.abs (fst zz) <= 2 ^ 53 /\ Z.abs (snd zz) <= 2 ^ 53)%Z) zl ->
  (sumabsZ (map (fun zz => (fst zz * snd zz)%Z) zl) <= 2 ^ 53)%Z ->
  let r := sum_fold_f64 (map (fun zz => (f_of_int (fst zz), f_of_int (snd zz))) zl) in
  finite r /\ val r = IZR (sumZ (map (fun zz => (fst zz * snd zz)%Z) zl)).
Proof.
  intros HZ HB r.
  destruct (int_prods zl HZ HB) as (FP & EV).
  unfold r. rewrite sum_fold_f64_eq.
  set (l := map (fun zz => (f_of_int (fst zz), f_of_int (snd zz))) zl) in *.
  set (ps := map (fun zz => (fst zz * snd zz)%Z) zl) in *.
  destruct (nfoldF_exact (prodsF l) f64_zero eq_refl FP) as (F & V).
  - rewrite val_zero, EV. apply (int_prefix_fmt ps 0). cbn [Z.abs]. lia.
  - rewrite val_zero, Rabs_R0, EV, sumabsR_IZR, Rplus_0_l.
    apply IZR_le. eapply Z.le_trans; [exact HB|]. apply Zle_bool_imp_le. vm_compute. reflexivity.
  - split; [exact F|]. rewrite V, val_zero, EV, sumR_IZR. ring.
Qed.

(* ------------------------------------------------------------------ *)
(* 4. NewDDSketchWithExactSummaryStatisticsFromData                     *)
(* ------------------------------------------------------------------ *)
Lemma sk_from_data_spec (s : sketch) (t : summary) :
  (sk_from_data s t = None <-> plain_is_empty s <> feq (su_count t) f64_zero) /\
  (forall s', sk_from_data s t = Some s' ->
     sk_map s' = sk_map s /\ sk_pos s' = sk_pos s /\ sk_neg s' = sk_neg s /\ sk_zero s' = sk_zero s /\
     sk_stats s' = Some t) /\
  (plain_is_empty s = feq (su_count t) f64_zero -> sk_from_data s t = Some (with_stats s (Some t))).
Proof.
  unfold sk_from_data. split; [|split].
  - destruct (Bool.eqb (plain_is_empty s) (feq (su_count t) f64_zero)) eqn:E.
    + split; [discriminate|]. intros H. apply Bool.eqb_prop in E. contradiction.
    + split; [|reflexivity]. intros _ H. rewrite H, Bool.eqb_reflx in E. discriminate.
  - intros s'. destruct (Bool.eqb (plain_is_empty s) (feq (su_count t) f64_zero)); [|discriminate].
    intros E. injection E as <-. repeat split.
  - intros H. rewrite H, Bool.eqb_reflx. reflexivity.
Qed.

(* the argument of the constructor is a plain sketch: there IsEmpty is the model's sk_is_empty *)
Lemma plain_is_empty_no_stats (s : sketch) : sk_stats s = None -> sk_is_empty s = plain_is_empty s.
Proof. intros H. unfold sk_is_empty. rewrite H. reflexivity. Qed.

(* the accepted sketch is empty exactly when the argument was *)
Lemma sk_from_data_is_empty (s s' : sketch) (t : summary) : sk_from_data s t = Some s' ->
  sk_is_empty s' = plain_is_empty s /\ plain_is_empty s' = plain_is_empty s.
Proof.
  unfold sk_from_data. destruct (Bool.eqb (plain_is_empty s) (feq (su_count t) f64_zero)) eqn:E; [|discriminate].
  intros H. injection H as <-. apply Bool.eqb_prop in E. split; [|reflexivity].
  unfold sk_is_empty, with_stats. cbn [sk_stats]. symmetry. exact E.
Qed.
