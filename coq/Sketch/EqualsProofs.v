(* C19: identity of an index mapping through its binary form (mapping block of the wire format) and
   the Equals gate (withinTolerance with tolerance 1e-12) on Flocq binary64.
   Go: ddsketch/mapping/{logarithmic,linearly_interpolated,cubically_interpolated}_mapping.go
   (Equals, Encode, withinTolerance), index_mapping.go (Decode), encoding/flag.go.
   Only the four stdlib axioms of the real numbers that Flocq brings. *)
From Coq Require Import Bool NArith ZArith List Lia Reals Lra.
From Flocq Require Import Core.Core Relative Plus_error IEEE754.BinarySingleNaN IEEE754.Binary IEEE754.Bits.
From SK Require Import Codec.Codec Codec.CodecProofs Codec.VarfloatProofs.
From SK Require Import Base.Prelude Base.F64 Sketch.Sketch Wire.Wire.
Import ListNotations.

Local Notation BR := (Binary.B2R 53 1024).
Local Notation fexp64 := (FLT_exp (-1074) 53).
Local Notation rnd64R := (round radix2 fexp64 ZnearestE).

(* ================================================================== *)
(* 1. the mapping block                                                *)
(* ================================================================== *)
Definition kind_ok (k : N) : Prop := k = 0%N \/ k = 1%N \/ k = 3%N.

Lemma kind_ok_dec k : {kind_ok k} + {~ kind_ok k}.
Proof.
  unfold kind_ok.
  destruct (N.eq_dec k 0) as [H0|H0]; [left; tauto|].
  destruct (N.eq_dec k 1) as [H1|H1]; [left; tauto|].
  destruct (N.eq_dec k 3) as [H3|H3]; [left; tauto|].
  right. tauto.
Qed.

Lemma kind_ok_test k : (((k =? 0) || (k =? 1) || (k =? 3))%N = true) <-> kind_ok k.
Proof.
  unfold kind_ok. rewrite !orb_true_iff, !N.eqb_eq. tauto.
Qed.

Lemma shiftr_mapping_flag k : kind_ok k -> N.shiftr (mk_flag ft_mapping k) 2 = k.
Proof. intros [Hk|[Hk|Hk]]; subst k; reflexivity. Qed.

(* the three accepted flag bytes are the documented ones: 0b0000_0010, 0b0000_0110, 0b0000_1110 *)
Lemma mapping_flag_values :
  mk_flag ft_mapping 0 = 2%N /\ mk_flag ft_mapping 1 = 6%N /\ mk_flag ft_mapping 3 = 14%N /\
  flag_map_log = 2%N /\ flag_map_lin = 6%N /\ flag_map_cub = 14%N.
Proof. repeat split; reflexivity. Qed.

(* Go's mapping.Decode switches on the whole flag byte; [dec_mapping] looks at the subflag only and is
   called by the block loop on flags of type "mapping": there the two tests coincide *)
Definition flag_char_test (f : N) : bool :=
  implb (flag_type f =? ft_mapping)%N
        (Bool.eqb ((N.shiftr f 2 =? 0) || (N.shiftr f 2 =? 1) || (N.shiftr f 2 =? 3))%N
                  ((f =? 2) || (f =? 6) || (f =? 14))%N).
Lemma flag_char_sweep : forallb flag_char_test bytes256 = true.
Proof. vm_compute. reflexivity. Qed.

Lemma mapping_flag_char f : (f < 256)%N -> flag_type f = ft_mapping ->
  (kind_ok (N.shiftr f 2) <-> f = 2%N \/ f = 6%N \/ f = 14%N).
Proof.
  intros Hf Ht. pose proof (byte_sweep flag_char_test flag_char_sweep f Hf) as H.
  unfold flag_char_test in H. rewrite Ht, N.eqb_refl in H. cbn [implb] in H.
  apply Bool.eqb_prop in H. rewrite <- kind_ok_test, H, !orb_true_iff, !N.eqb_eq. tauto.
Qed.

Lemma dec_mapping_kind_ok f b : kind_ok (N.shiftr f 2) ->
  dec_mapping f b =
  match Varfloat.dec_f64le b with
  | Ok g b1 => match Varfloat.dec_f64le b1 with
               | Ok o b2 => if fle g f64_one then DErr EBadGamma
                            else DOk {| mk_kind := N.shiftr f 2; mk_gamma := g; mk_off := o |} b2
               | _ => DErr EEof end
  | _ => DErr EEof
  end.
Proof.
  intros Hk. apply kind_ok_test in Hk. unfold dec_mapping. cbv zeta. rewrite Hk. reflexivity.
Qed.

Theorem unknown_mapping_flag f b : ~ kind_ok (N.shiftr f 2) -> dec_mapping f b = DErr EUnknownMapping.
Proof.
  intros Hk. unfold dec_mapping. cbv zeta.
  destruct (((N.shiftr f 2 =? 0) || (N.shiftr f 2 =? 1) || (N.shiftr f 2 =? 3))%N) eqn:E.
  - apply kind_ok_test in E. contradiction.
  - reflexivity.
Qed.

(* strict "greater than" excludes "less or equal", NaN included *)
Lemma flt_fle_swap a b : flt a b = true -> fle b a = false.
Proof.
  unfold flt, fle, fcmp, b64_compare. rewrite (Binary.Bcompare_swap 53 1024 a b).
  destruct (Binary.Bcompare 53 1024 a b) as [[ | | ]|]; cbn [CompOpp]; congruence.
Qed.

(* the decoder's test is "not (gamma <= 1)": it lets a NaN gamma through, as the Go constructors do *)
Theorem mapping_encode_decode_gen (m : mapid) (rest : list byte) :
  kind_ok (mk_kind m) -> fle (mk_gamma m) f64_one = false ->
  exists f body,
    enc_mapping m = f :: body /\ f = mk_flag ft_mapping (mk_kind m) /\ length body = 16%nat /\
    dec_mapping f (body ++ rest) = DOk m rest.
Proof.
  intros Hk Hg. destruct m as [k g o]. cbn [mk_kind mk_gamma mk_off] in *.
  exists (mk_flag ft_mapping k), (Varfloat.enc_f64le g ++ Varfloat.enc_f64le o).
  split; [reflexivity|]. split; [reflexivity|]. split.
  - rewrite app_length, !f64le_float_length. reflexivity.
  - rewrite dec_mapping_kind_ok by (rewrite shiftr_mapping_flag by exact Hk; exact Hk).
    rewrite <- app_assoc, !f64le_float_roundtrip.
    rewrite Hg, shiftr_mapping_flag by exact Hk. reflexivity.
Qed.

Theorem mapping_encode_decode (m : mapid) (rest : list byte) :
  kind_ok (mk_kind m) -> flt f64_one (mk_gamma m) = true ->
  exists f body,
    enc_mapping m = f :: body /\ f = mk_flag ft_mapping (mk_kind m) /\ length body = 16%nat /\
    dec_mapping f (body ++ rest) = DOk m rest.
Proof.
  intros Hk Hg. apply mapping_encode_decode_gen; [exact Hk|]. apply flt_fle_swap. exact Hg.
Qed.

(* what a successful decode tells: the kind is one of the three, gamma is not <= 1, exactly 16 bytes were read *)
Lemma DOk_inj {A} (a a' : A) (r r' : list byte) : DOk a r = DOk a' r' -> a = a' /\ r = r'.
Proof. intros H. injection H as H1 H2. split; assumption. Qed.

Lemma skipn_skipn_add {A} (n m : nat) (l : list A) : skipn n (skipn m l) = skipn (m + n) l.
Proof.
  revert l. induction m as [|m IH]; intros l; [reflexivity|].
  destruct l as [|x l]; [destruct n; reflexivity|]. cbn [skipn Nat.add]. apply IH.
Qed.

Theorem mapping_decode_inv f b m rest : dec_mapping f b = DOk m rest ->
  kind_ok (mk_kind m) /\ mk_kind m = N.shiftr f 2 /\ fle (mk_gamma m) f64_one = false /\
  (16 <= length b)%nat /\ rest = skipn 16 b.
Proof.
  intros H. destruct (kind_ok_dec (N.shiftr f 2)) as [Hk|Hk].
  2:{ rewrite (unknown_mapping_flag f b Hk) in H. discriminate. }
  rewrite (dec_mapping_kind_ok f b Hk) in H.
  unfold Varfloat.dec_f64le, dec_f64le_bits in H.
  destruct (length b <? 8)%nat eqn:E1; [discriminate|].
  destruct (length (skipn 8 b) <? 8)%nat eqn:E2; [discriminate|].
  destruct (fle (Varfloat.f64_of_bits (le_value (firstn 8 b))) f64_one) eqn:E3; [discriminate|].
  apply DOk_inj in H. destruct H as [Hm Hr]. subst m. cbn [mk_kind mk_gamma mk_off].
  apply Nat.ltb_ge in E1. apply Nat.ltb_ge in E2. rewrite skipn_length in E2.
  split; [exact Hk|]. split; [reflexivity|]. split; [exact E3|]. split; [lia|].
  rewrite <- Hr. rewrite skipn_skipn_add. reflexivity.
Qed.

(* gamma <= 1 (or NaN gamma: then [fle] is false! see below) *)
Theorem mapping_bad_gamma (m : mapid) (rest : list byte) :
  kind_ok (mk_kind m) -> fle (mk_gamma m) f64_one = true ->
  exists f body, enc_mapping m = f :: body /\ dec_mapping f (body ++ rest) = DErr EBadGamma.
Proof.
  intros Hk Hg. destruct m as [k g o]. cbn [mk_kind mk_gamma mk_off] in *.
  exists (mk_flag ft_mapping k), (Varfloat.enc_f64le g ++ Varfloat.enc_f64le o).
  split; [reflexivity|].
  rewrite dec_mapping_kind_ok by (rewrite shiftr_mapping_flag by exact Hk; exact Hk).
  rewrite <- app_assoc, !f64le_float_roundtrip, Hg. reflexivity.
Qed.

(* fewer than 16 payload bytes: io.EOF, whatever the bytes are *)
Theorem mapping_short_input f (p : list byte) :
  kind_ok (N.shiftr f 2) -> (length p < 16)%nat -> dec_mapping f p = DErr EEof.
Proof.
  intros Hk Hp. rewrite dec_mapping_kind_ok by exact Hk.
  unfold Varfloat.dec_f64le at 1. unfold dec_f64le_bits.
  destruct (length p <? 8)%nat eqn:E1; [reflexivity|].
  apply Nat.ltb_ge in E1.
  unfold Varfloat.dec_f64le. unfold dec_f64le_bits.
  assert (E2 : (length (skipn 8 p) <? 8)%nat = true).
  { apply Nat.ltb_lt. rewrite skipn_length. lia. }
  rewrite E2. reflexivity.
Qed.

Theorem mapping_truncated (m : mapid) f body (p s : list byte) :
  kind_ok (mk_kind m) -> enc_mapping m = f :: body -> body = p ++ s -> s <> [] ->
  dec_mapping f p = DErr EEof.
Proof.
  intros Hk He Hb Hs. destruct m as [k g o]. cbn [mk_kind] in Hk.
  unfold enc_mapping in He. cbn [mk_kind mk_gamma mk_off app] in He.
  apply cons_inj in He. destruct He as [Hf Hbody]. subst f.
  apply mapping_short_input.
  - rewrite shiftr_mapping_flag by exact Hk. exact Hk.
  - assert (HL : length body = 16%nat).
    { rewrite <- Hbody, app_length, !f64le_float_length. reflexivity. }
    rewrite Hb, app_length in HL. destruct s as [|x s]; [congruence|]. cbn [length] in HL. lia.
Qed.

(* ================================================================== *)
(* 2. Equals: kinds                                                    *)
(* ================================================================== *)
Theorem equals_kind a b : map_equals a b = true -> mk_kind a = mk_kind b.
Proof.
  unfold map_equals. rewrite !andb_true_iff. intros [[H _] _]. apply N.eqb_eq. exact H.
Qed.

Theorem equals_kind_neq a b : mk_kind a <> mk_kind b -> map_equals a b = false.
Proof.
  intros H. destruct (map_equals a b) eqn:E; [|reflexivity].
  apply equals_kind in E. contradiction.
Qed.

(* ================================================================== *)
(* float helpers: comparisons of finite floats depend on the real values only *)
(* ================================================================== *)
Lemma fcmp_fin a b : f_is_finite a = true -> f_is_finite b = true ->
  fcmp a b = Some (Rcompare (BR a) (BR b)).
Proof. intros Ha Hb. exact (Binary.Bcompare_correct 53 1024 a b Ha Hb). Qed.

Lemma fle_fin a b : f_is_finite a = true -> f_is_finite b = true -> fle a b = Rle_bool (BR a) (BR b).
Proof.
  intros Ha Hb. unfold fle. rewrite (fcmp_fin a b Ha Hb). unfold Rle_bool.
  destruct (Rcompare (BR a) (BR b)); reflexivity.
Qed.

Lemma flt_fin a b : f_is_finite a = true -> f_is_finite b = true -> flt a b = Rlt_bool (BR a) (BR b).
Proof.
  intros Ha Hb. unfold flt. rewrite (fcmp_fin a b Ha Hb). unfold Rlt_bool.
  destruct (Rcompare (BR a) (BR b)); reflexivity.
Qed.

Lemma feq_fin a b : f_is_finite a = true -> f_is_finite b = true -> feq a b = Req_bool (BR a) (BR b).
Proof.
  intros Ha Hb. unfold feq. rewrite (fcmp_fin a b Ha Hb). unfold Req_bool.
  destruct (Rcompare (BR a) (BR b)); reflexivity.
Qed.

Lemma fle_fin_true a b : f_is_finite a = true -> f_is_finite b = true -> (BR a <= BR b)%R -> fle a b = true.
Proof. intros Ha Hb H. rewrite fle_fin by assumption. apply Rle_bool_true. exact H. Qed.

Lemma fle_fin_inv a b : f_is_finite a = true -> f_is_finite b = true -> fle a b = true -> (BR a <= BR b)%R.
Proof.
  intros Ha Hb H. rewrite fle_fin in H by assumption.
  destruct (Rle_bool_spec (BR a) (BR b)) as [H1|H1]; [exact H1|discriminate].
Qed.

Lemma fin_not_nan x : f_is_finite x = true -> f_is_nan x = false.
Proof. destruct x; cbn; congruence. Qed.

Lemma fabs_R x : BR (fabs x) = Rabs (BR x).
Proof. exact (Binary.B2R_Babs 53 1024 unop_nan_pl64 x). Qed.
Lemma fabs_fin x : f_is_finite (fabs x) = f_is_finite x.
Proof. exact (Binary.is_finite_Babs 53 1024 unop_nan_pl64 x). Qed.
Lemma fabs_sign x : f_is_nan x = false -> Binary.Bsign 53 1024 (fabs x) = false.
Proof. exact (Binary.Bsign_Babs 53 1024 unop_nan_pl64 x). Qed.

Lemma f64_zero_eq : f64_zero = B754_zero 53 1024 false.
Proof. reflexivity. Qed.
Lemma f64_zero_R : BR f64_zero = 0%R.
Proof. rewrite f64_zero_eq. reflexivity. Qed.
Lemma f64_zero_fin : f_is_finite f64_zero = true.
Proof. reflexivity. Qed.

Lemma feq_zero_fin x : f_is_finite x = true -> feq x f64_zero = Req_bool (BR x) 0.
Proof. intros Hx. rewrite (feq_fin x f64_zero Hx f64_zero_fin), f64_zero_R. reflexivity. Qed.

(* 1e-12 as a binary64: 4951760157141521 * 2^-92 *)
Lemma tol12_aux :
  binary_float_of_bits_aux 52 11 (Z.of_N 4427486594234968593) = F754_finite false 4951760157141521 (-92).
Proof. vm_compute. reflexivity. Qed.

Lemma tol12_R : BR tol12 = (4951760157141521 / 4951760157141521099596496896)%R.
Proof.
  unfold tol12, f64_of_bits, b64_of_bits, binary_float_of_bits.
  rewrite Binary.B2R_FF2B, tol12_aux.
  unfold FF2R, F2R, cond_Zopp, Fnum, Fexp, bpow. simpl Z.pow_pos. lra.
Qed.

Lemma tol12_fin : f_is_finite tol12 = true.
Proof.
  unfold tol12, f64_of_bits, b64_of_bits, binary_float_of_bits, f_is_finite.
  rewrite Binary.is_finite_FF2B, tol12_aux. reflexivity.
Qed.

Lemma tol12_bounds : (0 < BR tol12 <= 1)%R.
Proof. rewrite tol12_R. lra. Qed.

(* x - y on finite floats: no NaN; either the rounded difference (finite) or an infinity *)
Lemma fsub_fin_cases x y : f_is_finite x = true -> f_is_finite y = true ->
  (f_is_finite (fsub x y) = true /\ BR (fsub x y) = rnd64R (BR x - BR y) /\
   (Rabs (rnd64R (BR x - BR y)) < bpow radix2 1024)%R)
  \/ (exists s, fsub x y = B754_infinity 53 1024 s) /\ (bpow radix2 1024 <= Rabs (rnd64R (BR x - BR y)))%R.
Proof.
  intros Hx Hy.
  pose proof (Binary.Bminus_correct 53 1024 eq_refl eq_refl binop_nan_pl64 mode_NE x y Hx Hy) as H.
  change (Binary.Bminus 53 1024 eq_refl eq_refl binop_nan_pl64 mode_NE x y) with (fsub x y) in H.
  change (SpecFloat.fexp 53 1024) with fexp64 in H.
  change (round_mode mode_NE) with ZnearestE in H.
  destruct (Rlt_bool_spec (Rabs (rnd64R (BR x - BR y))) (bpow radix2 1024)) as [Hlt|Hge].
  - destruct H as (HR & HF & _). left. split; [exact HF|]. split; [exact HR|exact Hlt].
  - right. split; [|exact Hge]. destruct H as [H _].
    unfold binary_overflow in H. cbn [overflow_to_inf] in H.
    destruct (fsub x y) as [s|s|s pl e|s m e e0]; cbn [Binary.B2FF] in H; try discriminate.
    exists s. reflexivity.
Qed.

Lemma rnd64R_opp r : rnd64R (- r) = (- rnd64R r)%R.
Proof. apply round_NE_opp. Qed.

(* |x - y| = |y - x| as floats (Leibniz equality: abs clears the sign of a zero) *)
Lemma fabs_fsub_sym x y : f_is_finite x = true -> f_is_finite y = true ->
  fabs (fsub x y) = fabs (fsub y x).
Proof.
  intros Hx Hy.
  assert (Hopp : rnd64R (BR y - BR x) = (- rnd64R (BR x - BR y))%R).
  { rewrite <- rnd64R_opp. f_equal. lra. }
  destruct (fsub_fin_cases x y Hx Hy) as [(F1 & R1 & L1)|[(s1 & E1) G1]];
  destruct (fsub_fin_cases y x Hy Hx) as [(F2 & R2 & L2)|[(s2 & E2) G2]].
  - apply Binary.B2R_Bsign_inj.
    + fold (f_is_finite (fabs (fsub x y))). rewrite fabs_fin. exact F1.
    + fold (f_is_finite (fabs (fsub y x))). rewrite fabs_fin. exact F2.
    + rewrite !fabs_R, R1, R2, Hopp, Rabs_Ropp. reflexivity.
    + rewrite !fabs_sign by (apply fin_not_nan; assumption). reflexivity.
  - rewrite Hopp, Rabs_Ropp in G2. lra.
  - rewrite Hopp, Rabs_Ropp in L2. lra.
  - rewrite E1, E2. reflexivity.
Qed.

(* max(|x|, |y|) = max(|y|, |x|) as floats *)
Lemma fmax_fabs_sym x y : f_is_finite x = true -> f_is_finite y = true ->
  fmax (fabs x) (fabs y) = fmax (fabs y) (fabs x).
Proof.
  intros Hx Hy.
  assert (Fa : f_is_finite (fabs x) = true) by (rewrite fabs_fin; exact Hx).
  assert (Fb : f_is_finite (fabs y) = true) by (rewrite fabs_fin; exact Hy).
  unfold fmax. rewrite (flt_fin _ _ Fa Fb), (flt_fin _ _ Fb Fa).
  destruct (Rlt_bool_spec (BR (fabs x)) (BR (fabs y))) as [H1|H1];
  destruct (Rlt_bool_spec (BR (fabs y)) (BR (fabs x))) as [H2|H2]; try reflexivity.
  - lra.
  - apply Binary.B2R_Bsign_inj; try assumption.
    + lra.
    + rewrite !fabs_sign by (apply fin_not_nan; assumption). reflexivity.
Qed.

Lemma fmax_fabs_R x y : f_is_finite x = true -> f_is_finite y = true ->
  f_is_finite (fmax (fabs x) (fabs y)) = true /\
  BR (fmax (fabs x) (fabs y)) = Rmax (Rabs (BR x)) (Rabs (BR y)) /\
  Binary.Bsign 53 1024 (fmax (fabs x) (fabs y)) = false.
Proof.
  intros Hx Hy.
  assert (Fa : f_is_finite (fabs x) = true) by (rewrite fabs_fin; exact Hx).
  assert (Fb : f_is_finite (fabs y) = true) by (rewrite fabs_fin; exact Hy).
  unfold fmax. rewrite (flt_fin _ _ Fa Fb), !fabs_R.
  destruct (Rlt_bool_spec (Rabs (BR x)) (Rabs (BR y))) as [H1|H1].
  - split; [exact Fb|]. split; [|apply fabs_sign, fin_not_nan; exact Hy].
    rewrite fabs_R, Rmax_right by lra. reflexivity.
  - split; [exact Fa|]. split; [|apply fabs_sign, fin_not_nan; exact Hx].
    rewrite fabs_R, Rmax_left by lra. reflexivity.
Qed.

(* ================================================================== *)
(* 4. symmetry                                                         *)
(* ================================================================== *)
Theorem within_tolerance_sym x y tol : f_is_finite x = true -> f_is_finite y = true ->
  within_tolerance x y tol = within_tolerance y x tol.
Proof.
  intros Hx Hy. unfold within_tolerance.
  rewrite (orb_comm (feq x f64_zero) (feq y f64_zero)).
  rewrite (andb_comm (fle (fabs x) tol) (fle (fabs y) tol)).
  rewrite (fabs_fsub_sym x y Hx Hy), (fmax_fabs_sym x y Hx Hy). reflexivity.
Qed.

Definition map_finite (m : mapid) : Prop := f_is_finite (mk_gamma m) = true /\ f_is_finite (mk_off m) = true.

Theorem equals_sym a b : map_finite a -> map_finite b -> map_equals a b = map_equals b a.
Proof.
  intros [Ha1 Ha2] [Hb1 Hb2]. unfold map_equals.
  rewrite (N.eqb_sym (mk_kind a) (mk_kind b)).
  rewrite (within_tolerance_sym _ _ tol12 Ha1 Hb1), (within_tolerance_sym _ _ tol12 Ha2 Hb2).
  reflexivity.
Qed.

(* ================================================================== *)
(* 3. reflexivity                                                      *)
(* ================================================================== *)
Local Instance prec53_gt_0 : Prec_gt_0 53 := eq_refl.

Lemma BR_format x : generic_format radix2 fexp64 (BR x).
Proof. exact (Binary.generic_format_B2R 53 1024 x). Qed.

Lemma BR_lt_emax x : (Rabs (BR x) < bpow radix2 1024)%R.
Proof. exact (Binary.abs_B2R_lt_emax 53 1024 x). Qed.

(* a product by a factor of magnitude at most 1 cannot overflow *)
Lemma fmul_small a b : f_is_finite a = true -> f_is_finite b = true -> (Rabs (BR a) <= 1)%R ->
  f_is_finite (fmul a b) = true /\ BR (fmul a b) = rnd64R (BR a * BR b).
Proof.
  unfold f_is_finite. intros Ha Hb H1.
  pose proof (Binary.Bmult_correct 53 1024 eq_refl eq_refl binop_nan_pl64 mode_NE a b) as H.
  change (Binary.Bmult 53 1024 eq_refl eq_refl binop_nan_pl64 mode_NE a b) with (fmul a b) in H.
  change (SpecFloat.fexp 53 1024) with fexp64 in H.
  change (round_mode mode_NE) with ZnearestE in H.
  assert (Hlt : (Rabs (rnd64R (BR a * BR b)) < bpow radix2 1024)%R).
  { rewrite <- round_NE_abs by apply FLT_exp_valid, prec53_gt_0.
    apply Rle_lt_trans with (Rabs (BR b)); [|apply BR_lt_emax].
    apply round_le_generic.
    - apply FLT_exp_valid, prec53_gt_0.
    - apply valid_rnd_N.
    - apply generic_format_abs, BR_format.
    - rewrite Rabs_mult. pose proof (Rabs_pos (BR b)) as Hb0. pose proof (Rabs_pos (BR a)) as Ha0.
      replace (Rabs (BR b)) with (1 * Rabs (BR b))%R at 2 by lra.
      apply Rmult_le_compat_r; assumption. }
  rewrite Rlt_bool_true in H by exact Hlt. destruct H as (HR & HF & _).
  split; [|exact HR]. rewrite HF, Ha, Hb. reflexivity.
Qed.

Lemma fmax_same a : fmax a a = a.
Proof. unfold fmax. destruct (flt a a); reflexivity. Qed.

Theorem within_tolerance_refl x tol :
  f_is_finite x = true -> f_is_finite tol = true -> (0 <= BR tol <= 1)%R ->
  within_tolerance x x tol = true.
Proof.
  intros Hx Ht [Ht0 Ht1]. unfold within_tolerance. rewrite orb_diag, fmax_same.
  assert (Fa : f_is_finite (fabs x) = true) by (rewrite fabs_fin; exact Hx).
  rewrite (feq_zero_fin x Hx).
  destruct (Req_bool_spec (BR x) 0) as [Hz|Hnz].
  - rewrite andb_diag. apply fle_fin_true; try assumption.
    rewrite fabs_R, Hz, Rabs_R0. exact Ht0.
  - destruct (fsub_fin_cases x x Hx Hx) as [(F1 & R1 & _)|[_ G1]].
    + destruct (fmul_small tol (fabs x) Ht Fa) as [F2 R2].
      { rewrite Rabs_pos_eq; lra. }
      apply fle_fin_true.
      * rewrite fabs_fin. exact F1.
      * exact F2.
      * rewrite fabs_R, R1, R2. replace (BR x - BR x)%R with 0%R by lra.
        rewrite round_0 by apply valid_rnd_N. rewrite Rabs_R0.
        apply round_ge_generic.
        -- apply FLT_exp_valid, prec53_gt_0.
        -- apply valid_rnd_N.
        -- apply generic_format_0.
        -- rewrite fabs_R. apply Rmult_le_pos; [exact Ht0|apply Rabs_pos].
    + replace (BR x - BR x)%R with 0%R in G1 by lra.
      rewrite round_0 in G1 by apply valid_rnd_N. rewrite Rabs_R0 in G1.
      pose proof (bpow_gt_0 radix2 1024). lra.
Qed.

Theorem equals_refl m : map_finite m -> map_equals m m = true.
Proof.
  intros [Hg Ho]. unfold map_equals. rewrite N.eqb_refl.
  pose proof tol12_bounds as Hb.
  rewrite (within_tolerance_refl (mk_gamma m) tol12 Hg tol12_fin) by lra.
  rewrite (within_tolerance_refl (mk_off m) tol12 Ho tol12_fin) by lra.
  reflexivity.
Qed.

(* Go: NaN != NaN; a NaN field makes Equals false even against itself *)
Lemma fle_nan_l a b : f_is_nan a = true -> fle a b = false.
Proof. destruct a; try discriminate. intros _. destruct b; reflexivity. Qed.

Lemma feq_nan_l a b : f_is_nan a = true -> feq a b = false.
Proof. destruct a; try discriminate. intros _. destruct b; reflexivity. Qed.

Lemma fabs_nan a : f_is_nan (fabs a) = f_is_nan a.
Proof. destruct a; reflexivity. Qed.

Lemma fsub_nan_l a b : f_is_nan a = true -> f_is_nan (fsub a b) = true.
Proof.
  destruct a; try discriminate. intros _.
  unfold fsub, b64_minus, Binary.Bminus, f_is_nan. rewrite Binary.is_nan_BSN2B.
  destruct b; reflexivity.
Qed.

Theorem within_tolerance_nan x y tol : f_is_nan x = true -> within_tolerance x y tol = false.
Proof.
  intros Hx. unfold within_tolerance.
  rewrite (fle_nan_l (fabs x) tol) by (rewrite fabs_nan; exact Hx).
  rewrite (fle_nan_l (fabs (fsub x y))) by (rewrite fabs_nan; apply fsub_nan_l; exact Hx).
  cbn [andb]. destruct (feq x f64_zero || feq y f64_zero); reflexivity.
Qed.

Theorem equals_nan_gamma a b : f_is_nan (mk_gamma a) = true -> map_equals a b = false.
Proof.
  intros H. unfold map_equals. rewrite (within_tolerance_nan _ (mk_gamma b) tol12 H).
  rewrite andb_false_r. reflexivity.
Qed.

(* ================================================================== *)
(* 5. what the gate means over the reals                               *)
(* ================================================================== *)
Lemma u64_val : (/ 2 * bpow radix2 (- (53) + 1) = / 9007199254740992)%R.
Proof. change (- (53) + 1)%Z with (-52)%Z. unfold bpow. simpl Z.pow_pos. lra. Qed.

Lemma rel_err r : (bpow radix2 (-1022) <= Rabs r)%R ->
  (Rabs (rnd64R r - r) <= / 9007199254740992 * Rabs r)%R.
Proof.
  intros H. rewrite <- u64_val.
  exact (relative_error_N_FLT radix2 (-1074) 53 prec53_gt_0 (fun x => negb (Z.even x)) r H).
Qed.

(* a difference of two floats has relative rounding error 2^-53, also in the subnormal range (where it is exact) *)
Lemma fsub_rel_err x y :
  (Rabs (rnd64R (BR x - BR y) - (BR x - BR y)) <= / 9007199254740992 * Rabs (BR x - BR y))%R.
Proof.
  destruct (Rle_or_lt (bpow radix2 (-1022)) (Rabs (BR x - BR y))) as [H|H].
  - apply rel_err. exact H.
  - rewrite round_generic.
    + replace (BR x - BR y - (BR x - BR y))%R with 0%R by lra. rewrite Rabs_R0.
      apply Rmult_le_pos; [lra|apply Rabs_pos].
    + apply valid_rnd_N.
    + unfold Rminus. apply FLT_format_plus_small.
      * exact prec53_gt_0.
      * apply BR_format.
      * apply generic_format_opp, BR_format.
      * change (53 + -1074)%Z with (-1021)%Z. fold (Rminus (BR x) (BR y)).
        apply Rlt_le, Rlt_trans with (1 := H). apply bpow_lt. lia.
Qed.

Lemma fle_inf_fin s b : f_is_finite b = true -> fle (fabs (B754_infinity 53 1024 s)) b = false.
Proof. destruct b as [sb|sb|sb pl e|sb m e e0]; try discriminate; intros _; destruct sb; reflexivity. Qed.

Lemma bpow_m40 : (bpow radix2 (-40) = / 1099511627776)%R.
Proof. unfold bpow. simpl Z.pow_pos. lra. Qed.

Theorem within_tolerance_sound x y :
  f_is_finite x = true -> f_is_finite y = true -> BR x <> 0%R -> BR y <> 0%R ->
  (bpow radix2 (-900) <= Rmax (Rabs (BR x)) (Rabs (BR y)))%R ->
  within_tolerance x y tol12 = true ->
  (Rabs (BR x - BR y) <= (1 + 1 / 10 ^ 15) / 10 ^ 12 * Rmax (Rabs (BR x)) (Rabs (BR y)))%R.
Proof.
  intros Hx Hy Hx0 Hy0 HM H. unfold within_tolerance in H.
  rewrite (feq_zero_fin x Hx), (feq_zero_fin y Hy) in H.
  rewrite (Req_bool_false _ _ Hx0), (Req_bool_false _ _ Hy0) in H. cbn [orb] in H.
  destruct (fmax_fabs_R x y Hx Hy) as (FM & RM & _).
  set (M := Rmax (Rabs (BR x)) (Rabs (BR y))) in *.
  pose proof tol12_bounds as Htb.
  destruct (fmul_small tol12 _ tol12_fin FM) as [F2 R2].
  { rewrite Rabs_pos_eq; lra. }
  rewrite RM in R2.
  destruct (fsub_fin_cases x y Hx Hy) as [(F1 & R1 & _)|[(s & E1) _]].
  - apply fle_fin_inv in H; [|rewrite fabs_fin; exact F1|exact F2].
    rewrite fabs_R, R1, R2 in H.
    pose proof (fsub_rel_err x y) as He1.
    assert (HM0 : (0 <= M)%R).
    { apply Rle_trans with (2 := HM). apply bpow_ge_0. }
    assert (HtM : (bpow radix2 (-1022) <= Rabs (BR tol12 * M))%R).
    { rewrite Rabs_pos_eq by (apply Rmult_le_pos; lra).
      apply Rle_trans with (bpow radix2 (-40) * bpow radix2 (-900))%R.
      - rewrite <- bpow_plus. apply bpow_le. lia.
      - apply Rmult_le_compat.
        + apply bpow_ge_0.
        + apply bpow_ge_0.
        + rewrite bpow_m40, tol12_R. lra.
        + exact HM. }
    pose proof (rel_err _ HtM) as He2.
    rewrite (Rabs_pos_eq (BR tol12 * M)) in He2 by (apply Rmult_le_pos; lra).
    rewrite tol12_R in *.
    set (d := (BR x - BR y)%R) in *.
    set (rd := rnd64R d) in *.
    set (rt := rnd64R (4951760157141521 / 4951760157141521099596496896 * M)) in *.
    assert (Hd : (Rabs d <= Rabs rd + Rabs (rd - d))%R).
    { replace d with (rd + - (rd - d))%R at 1 by lra.
      eapply Rle_trans; [apply Rabs_triang|]. rewrite Rabs_Ropp. lra. }
    assert (Hrt : (rt <= 4951760157141521 / 4951760157141521099596496896 * M
                         + / 9007199254740992 * (4951760157141521 / 4951760157141521099596496896 * M))%R).
    { pose proof (Rle_abs (rt - 4951760157141521 / 4951760157141521099596496896 * M)) as Hab. lra. }
    lra.
  - rewrite E1 in H. rewrite (fle_inf_fin s _ F2) in H. discriminate.
Qed.

Lemma f64_one_R : BR f64_one = 1%R.
Proof. exact f64_one_B2R. Qed.
Lemma f64_one_fin : f_is_finite f64_one = true.
Proof. exact f64_one_finite. Qed.

Lemma gamma_gt_1 g : f_is_finite g = true -> flt f64_one g = true -> (1 < BR g)%R.
Proof.
  intros Hg H. rewrite (flt_fin _ _ f64_one_fin Hg), f64_one_R in H.
  destruct (Rlt_bool_spec 1 (BR g)) as [H1|H1]; [exact H1|discriminate].
Qed.

Lemma bpow_m900_le_1 : (bpow radix2 (-900) <= 1)%R.
Proof. change 1%R with (bpow radix2 0). apply bpow_le. lia. Qed.

(* two mappings that pass the gate have gammas within 2e-12 (relative) *)
Theorem equals_tolerance_sound a b :
  f_is_finite (mk_gamma a) = true -> f_is_finite (mk_gamma b) = true ->
  flt f64_one (mk_gamma a) = true -> flt f64_one (mk_gamma b) = true ->
  map_equals a b = true ->
  (Rabs (BR (mk_gamma a) - BR (mk_gamma b)) <= 2 / 10 ^ 12 * Rmax (BR (mk_gamma a)) (BR (mk_gamma b)))%R.
Proof.
  intros Fa Fb Ga Gb H. unfold map_equals in H. rewrite !andb_true_iff in H. destruct H as [[_ H] _].
  pose proof (gamma_gt_1 _ Fa Ga) as Ha1. pose proof (gamma_gt_1 _ Fb Gb) as Hb1.
  pose proof (within_tolerance_sound _ _ Fa Fb) as S.
  rewrite !Rabs_pos_eq in S by lra.
  assert (HM : (1 <= Rmax (BR (mk_gamma a)) (BR (mk_gamma b)))%R).
  { apply Rle_trans with (2 := Rmax_l _ _). lra. }
  pose proof bpow_m900_le_1 as Hp.
  assert (S' := S ltac:(lra) ltac:(lra) ltac:(lra) H). lra.
Qed.

(* gammas more than 1e-9 apart (relative): the gate is closed, whatever the offsets and kinds *)
Theorem within_tolerance_separates x y :
  f_is_finite x = true -> f_is_finite y = true -> BR x <> 0%R -> BR y <> 0%R ->
  (bpow radix2 (-900) <= Rmax (Rabs (BR x)) (Rabs (BR y)))%R ->
  (1 / 10 ^ 9 * Rmax (Rabs (BR x)) (Rabs (BR y)) < Rabs (BR x - BR y))%R ->
  within_tolerance x y tol12 = false.
Proof.
  intros Hx Hy Hx0 Hy0 HM Hsep.
  destruct (within_tolerance x y tol12) eqn:E; [|reflexivity].
  pose proof (within_tolerance_sound x y Hx Hy Hx0 Hy0 HM E) as S.
  assert (HM0 : (0 < Rmax (Rabs (BR x)) (Rabs (BR y)))%R).
  { apply Rlt_le_trans with (2 := HM). apply bpow_gt_0. }
  lra.
Qed.

Theorem equals_separates_float a b :
  f_is_finite (mk_gamma a) = true -> f_is_finite (mk_gamma b) = true ->
  flt f64_one (mk_gamma a) = true -> flt f64_one (mk_gamma b) = true ->
  (1 / 10 ^ 9 * Rmax (BR (mk_gamma a)) (BR (mk_gamma b)) < Rabs (BR (mk_gamma a) - BR (mk_gamma b)))%R ->
  map_equals a b = false.
Proof.
  intros Fa Fb Ga Gb Hsep.
  pose proof (gamma_gt_1 _ Fa Ga) as Ha1. pose proof (gamma_gt_1 _ Fb Gb) as Hb1.
  unfold map_equals. rewrite (within_tolerance_separates _ _ Fa Fb).
  - rewrite andb_false_r. reflexivity.
  - lra.
  - lra.
  - rewrite !Rabs_pos_eq by lra. apply Rle_trans with (1 := bpow_m900_le_1).
    apply Rle_trans with (2 := Rmax_l _ _). lra.
  - rewrite !Rabs_pos_eq by lra. exact Hsep.
Qed.

(* ================================================================== *)
(* 4'. symmetry without the finiteness premises (infinities, NaN)      *)
(* ================================================================== *)
Lemma fsub_nan_r a b : f_is_nan b = true -> f_is_nan (fsub a b) = true.
Proof.
  destruct b; try discriminate. intros _.
  unfold fsub, b64_minus, Binary.Bminus, f_is_nan. rewrite Binary.is_nan_BSN2B.
  destruct a; reflexivity.
Qed.

Theorem within_tolerance_nan_r x y tol : f_is_nan y = true -> within_tolerance x y tol = false.
Proof.
  intros Hy. unfold within_tolerance.
  rewrite (fle_nan_l (fabs y) tol) by (rewrite fabs_nan; exact Hy).
  rewrite (fle_nan_l (fabs (fsub x y))) by (rewrite fabs_nan; apply fsub_nan_r; exact Hy).
  rewrite andb_false_r. destruct (feq x f64_zero || feq y f64_zero); reflexivity.
Qed.

Lemma wt_inf_inf s1 s2 tol :
  within_tolerance (B754_infinity 53 1024 s1) (B754_infinity 53 1024 s2) tol =
  within_tolerance (B754_infinity 53 1024 s2) (B754_infinity 53 1024 s1) tol.
Proof. destruct s1, s2; reflexivity. Qed.

Lemma wt_inf_fin s y tol : f_is_finite y = true ->
  within_tolerance (B754_infinity 53 1024 s) y tol = within_tolerance y (B754_infinity 53 1024 s) tol.
Proof.
  destruct y as [sy|sy|sy pl e|sy m e e0]; try discriminate; intros _.
  - unfold within_tolerance. destruct s, sy; cbn [orb];
    match goal with |- (if ?a || ?b then _ else _) = (if ?c || ?d then _ else _) =>
      change a with false; change b with true; change c with true; change d with false end;
    cbv iota; cbn [orb]; apply andb_comm.
  - destruct s, sy; reflexivity.
Qed.

Lemma f64_classify x :
  f_is_nan x = true \/ f_is_finite x = true \/ exists s, x = B754_infinity 53 1024 s.
Proof.
  destruct x as [s|s|s pl e|s m e e0].
  - right. left. reflexivity.
  - right. right. exists s. reflexivity.
  - left. reflexivity.
  - right. left. reflexivity.
Qed.

Theorem within_tolerance_sym_all x y tol : within_tolerance x y tol = within_tolerance y x tol.
Proof.
  destruct (f64_classify x) as [Nx|[Fx|[sx Ex]]].
  { rewrite (within_tolerance_nan x y tol Nx), (within_tolerance_nan_r y x tol Nx). reflexivity. }
  - destruct (f64_classify y) as [Ny|[Fy|[sy Ey]]].
    + rewrite (within_tolerance_nan y x tol Ny), (within_tolerance_nan_r x y tol Ny). reflexivity.
    + apply within_tolerance_sym; assumption.
    + subst y. symmetry. apply wt_inf_fin. exact Fx.
  - subst x. destruct (f64_classify y) as [Ny|[Fy|[sy Ey]]].
    + rewrite (within_tolerance_nan y _ tol Ny), (within_tolerance_nan_r _ y tol Ny). reflexivity.
    + apply wt_inf_fin. exact Fy.
    + subst y. apply wt_inf_inf.
Qed.

Theorem equals_sym_all a b : map_equals a b = map_equals b a.
Proof.
  unfold map_equals. rewrite (N.eqb_sym (mk_kind a) (mk_kind b)).
  rewrite (within_tolerance_sym_all (mk_gamma a) (mk_gamma b) tol12).
  rewrite (within_tolerance_sym_all (mk_off a) (mk_off b) tol12). reflexivity.
Qed.

(* 3'. reflexivity holds exactly on finite values: inf - inf is NaN *)
Theorem within_tolerance_refl_iff x : within_tolerance x x tol12 = true <-> f_is_finite x = true.
Proof.
  split.
  - intros H. destruct (f64_classify x) as [Nx|[Fx|[sx Ex]]].
    + rewrite (within_tolerance_nan x x tol12 Nx) in H. discriminate.
    + exact Fx.
    + subst x. exfalso. revert H. unfold within_tolerance.
      rewrite (fle_nan_l (fabs (fsub (B754_infinity 53 1024 sx) (B754_infinity 53 1024 sx)))).
      * destruct sx; discriminate.
      * destruct sx; reflexivity.
  - intros Fx. pose proof tol12_bounds. apply within_tolerance_refl; [exact Fx|exact tol12_fin|lra].
Qed.

Theorem equals_refl_iff m : map_equals m m = true <-> map_finite m.
Proof.
  unfold map_equals, map_finite. rewrite N.eqb_refl. cbn [andb].
  rewrite andb_true_iff, !within_tolerance_refl_iff. reflexivity.
Qed.

(* 1 + 3: a finite mapping that went through the wire passes the gate against the original *)
Theorem roundtrip_equals (m : mapid) (rest : list byte) :
  kind_ok (mk_kind m) -> flt f64_one (mk_gamma m) = true -> map_finite m ->
  exists f body m', enc_mapping m = f :: body /\ dec_mapping f (body ++ rest) = DOk m' rest /\
                    m' = m /\ map_equals m m' = true /\ map_equals m' m = true.
Proof.
  intros Hk Hg Hf. destruct (mapping_encode_decode m rest Hk Hg) as (f & body & He & _ & _ & Hd).
  exists f, body, m. split; [exact He|]. split; [exact Hd|]. split; [reflexivity|].
  split; apply equals_refl; exact Hf.
Qed.
