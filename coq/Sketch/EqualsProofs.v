(* C19: identity of an index mapping through its binary form (mapping block of the wire format) and
   the Equals gate (withinTolerance with tolerance 1e-12) on Flocq binary64.
   Go: ddsketch/mapping/{logarithmic,linearly_interpolated,cubically_interpolated}_mapping.go
   (Equals, Encode, withinTolerance), index_mapping.go (Decode), encoding/flag.go.
   Only the four stdlib axioms of the real numbers that Flocq brings. *)
From Coq Require Import Bool NArith ZArith List Lia Reals Lra.
From Flocq Require Import Core.Core Relative IEEE754.BinarySingleNaN IEEE754.Binary IEEE754.Bits.
From SK Require Import Codec.Codec Codec.CodecProofs Codec.VarfloatProofs.
From SK Require Import Base.Prelude Base.F64 Sketch.Sketch Wire.Wire.
Import ListNotations.

Local Notation BR := (Binary.B2R 53 1024).
Local Notation fexp64 := (FLT_exp (-1074) 53).
Local Notation rnd64R := (round radix2 fexp64 ZnearestE).

(* ================================================================== *)
(* 1. the mapping block                                                *)
(* ================================================================== *)
Definition kind_ok (k : N) : Prop := k = 0%N \/ k = 1%N \/ k = 3%N.

Lemma kind_ok_dec k : {kind_ok k} + {~ kind_ok k}.
Proof.
  unfold kind_ok.
  destruct (N.eq_dec k 0) as [H0|H0]; [left; tauto|].
  destruct (N.eq_dec k 1) as [H1|H1]; [left; tauto|].
  destruct (N.eq_dec k 3) as [H3|H3]; [left; tauto|].
  right. tauto.
Qed.

Lemma kind_ok_test k : (((k =? 0) || (k =? 1) || (k =? 3))%N = true) <-> kind_ok k.
Proof.
  unfold kind_ok. rewrite !orb_true_iff, !N.eqb_eq. tauto.
Qed.

Lemma shiftr_mapping_flag k : kind_ok k -> N.shiftr (mk_flag ft_mapping k) 2 = k.
Proof. intros [Hk|[Hk|Hk]]; subst k; reflexivity. Qed.

(* the three accepted flag bytes are the documented ones: 0b0000_0010, 0b0000_0110, 0b0000_1110 *)
Lemma mapping_flag_values :
  mk_flag ft_mapping 0 = 2%N /\ mk_flag ft_mapping 1 = 6%N /\ mk_flag ft_mapping 3 = 14%N /\
  flag_map_log = 2%N /\ flag_map_lin = 6%N /\ flag_map_cub = 14%N.
Proof. repeat split; reflexivity. Qed.

Lemma dec_mapping_kind_ok f b : kind_ok (N.shiftr f 2) ->
  dec_mapping f b =
  match Varfloat.dec_f64le b with
  | Ok g b1 => match Varfloat.dec_f64le b1 with
               | Ok o b2 => if fle g f64_one then DErr EBadGamma
                            else DOk {| mk_kind := N.shiftr f 2; mk_gamma := g; mk_off := o |} b2
               | _ => DErr EEof end
  | _ => DErr EEof
  end.
Proof.
  intros Hk. apply kind_ok_test in Hk. unfold dec_mapping. cbv zeta. rewrite Hk. reflexivity.
Qed.

Theorem unknown_mapping_flag f b : ~ kind_ok (N.shiftr f 2) -> dec_mapping f b = DErr EUnknownMapping.
Proof.
  intros Hk. unfold dec_mapping. cbv zeta.
  destruct (((N.shiftr f 2 =? 0) || (N.shiftr f 2 =? 1) || (N.shiftr f 2 =? 3))%N) eqn:E.
  - apply kind_ok_test in E. contradiction.
  - reflexivity.
Qed.

(* strict "greater than" excludes "less or equal", NaN included *)
Lemma flt_fle_swap a b : flt a b = true -> fle b a = false.
Proof.
  unfold flt, fle, fcmp, b64_compare. rewrite (Binary.Bcompare_swap 53 1024 a b).
  destruct (Binary.Bcompare 53 1024 a b) as [[ | | ]|]; cbn [CompOpp]; congruence.
Qed.

Theorem mapping_encode_decode (m : mapid) (rest : list byte) :
  kind_ok (mk_kind m) -> flt f64_one (mk_gamma m) = true ->
  exists f body,
    enc_mapping m = f :: body /\ f = mk_flag ft_mapping (mk_kind m) /\ length body = 16%nat /\
    dec_mapping f (body ++ rest) = DOk m rest.
Proof.
  intros Hk Hg. destruct m as [k g o]. cbn [mk_kind mk_gamma mk_off] in *.
  exists (mk_flag ft_mapping k), (Varfloat.enc_f64le g ++ Varfloat.enc_f64le o).
  split; [reflexivity|]. split; [reflexivity|]. split.
  - rewrite app_length, !f64le_float_length. reflexivity.
  - rewrite dec_mapping_kind_ok by (rewrite shiftr_mapping_flag by exact Hk; exact Hk).
    rewrite <- app_assoc, !f64le_float_roundtrip.
    rewrite (flt_fle_swap _ _ Hg), shiftr_mapping_flag by exact Hk. reflexivity.
Qed.

(* gamma <= 1 (or NaN gamma: then [fle] is false! see below) *)
Theorem mapping_bad_gamma (m : mapid) (rest : list byte) :
  kind_ok (mk_kind m) -> fle (mk_gamma m) f64_one = true ->
  exists f body, enc_mapping m = f :: body /\ dec_mapping f (body ++ rest) = DErr EBadGamma.
Proof.
  intros Hk Hg. destruct m as [k g o]. cbn [mk_kind mk_gamma mk_off] in *.
  exists (mk_flag ft_mapping k), (Varfloat.enc_f64le g ++ Varfloat.enc_f64le o).
  split; [reflexivity|].
  rewrite dec_mapping_kind_ok by (rewrite shiftr_mapping_flag by exact Hk; exact Hk).
  rewrite <- app_assoc, !f64le_float_roundtrip, Hg. reflexivity.
Qed.

(* fewer than 16 payload bytes: io.EOF, whatever the bytes are *)
Theorem mapping_short_input f (p : list byte) :
  kind_ok (N.shiftr f 2) -> (length p < 16)%nat -> dec_mapping f p = DErr EEof.
Proof.
  intros Hk Hp. rewrite dec_mapping_kind_ok by exact Hk.
  unfold Varfloat.dec_f64le at 1. unfold dec_f64le_bits.
  destruct (length p <? 8)%nat eqn:E1; [reflexivity|].
  apply Nat.ltb_ge in E1.
  unfold Varfloat.dec_f64le. unfold dec_f64le_bits.
  assert (E2 : (length (skipn 8 p) <? 8)%nat = true).
  { apply Nat.ltb_lt. rewrite skipn_length. lia. }
  rewrite E2. reflexivity.
Qed.

Theorem mapping_truncated (m : mapid) f body (p s : list byte) :
  kind_ok (mk_kind m) -> enc_mapping m = f :: body -> body = p ++ s -> s <> [] ->
  dec_mapping f p = DErr EEof.
Proof.
  intros Hk He Hb Hs. destruct m as [k g o]. cbn [mk_kind] in Hk.
  unfold enc_mapping in He. cbn [mk_kind mk_gamma mk_off app] in He.
  injection He as Hf Hbody. subst f.
  apply mapping_short_input.
  - rewrite shiftr_mapping_flag by exact Hk. exact Hk.
  - assert (HL : length body = 16%nat).
    { rewrite <- Hbody, app_length, !f64le_float_length. reflexivity. }
    rewrite Hb, app_length in HL. destruct s as [|x s]; [congruence|]. cbn [length] in HL. lia.
Qed.

(* ================================================================== *)
(* 2. Equals: kinds                                                    *)
(* ================================================================== *)
Theorem equals_kind a b : map_equals a b = true -> mk_kind a = mk_kind b.
Proof.
  unfold map_equals. rewrite !andb_true_iff. intros [[H _] _]. apply N.eqb_eq. exact H.
Qed.

Theorem equals_kind_neq a b : mk_kind a <> mk_kind b -> map_equals a b = false.
Proof.
  intros H. destruct (map_equals a b) eqn:E; [|reflexivity].
  apply equals_kind in E. contradiction.
Qed.

(* ================================================================== *)
(* float helpers: comparisons of finite floats depend on the real values only *)
(* ================================================================== *)
Lemma fcmp_fin a b : f_is_finite a = true -> f_is_finite b = true ->
  fcmp a b = Some (Rcompare (BR a) (BR b)).
Proof. intros Ha Hb. exact (Binary.Bcompare_correct 53 1024 a b Ha Hb). Qed.

Lemma fle_fin a b : f_is_finite a = true -> f_is_finite b = true -> fle a b = Rle_bool (BR a) (BR b).
Proof.
  intros Ha Hb. unfold fle. rewrite (fcmp_fin a b Ha Hb). unfold Rle_bool.
  destruct (Rcompare (BR a) (BR b)); reflexivity.
Qed.

Lemma flt_fin a b : f_is_finite a = true -> f_is_finite b = true -> flt a b = Rlt_bool (BR a) (BR b).
Proof.
  intros Ha Hb. unfold flt. rewrite (fcmp_fin a b Ha Hb). unfold Rlt_bool.
  destruct (Rcompare (BR a) (BR b)); reflexivity.
Qed.

Lemma feq_fin a b : f_is_finite a = true -> f_is_finite b = true -> feq a b = Req_bool (BR a) (BR b).
Proof.
  intros Ha Hb. unfold feq. rewrite (fcmp_fin a b Ha Hb). unfold Req_bool.
  destruct (Rcompare (BR a) (BR b)); reflexivity.
Qed.

Lemma fle_fin_true a b : f_is_finite a = true -> f_is_finite b = true -> (BR a <= BR b)%R -> fle a b = true.
Proof. intros Ha Hb H. rewrite fle_fin by assumption. apply Rle_bool_true. exact H. Qed.

Lemma fle_fin_inv a b : f_is_finite a = true -> f_is_finite b = true -> fle a b = true -> (BR a <= BR b)%R.
Proof.
  intros Ha Hb H. rewrite fle_fin in H by assumption.
  destruct (Rle_bool_spec (BR a) (BR b)) as [H1|H1]; [exact H1|discriminate].
Qed.

Lemma fin_not_nan x : f_is_finite x = true -> f_is_nan x = false.
Proof. destruct x; cbn; congruence. Qed.

Lemma fabs_R x : BR (fabs x) = Rabs (BR x).
Proof. exact (Binary.B2R_Babs 53 1024 unop_nan_pl64 x). Qed.
Lemma fabs_fin x : f_is_finite (fabs x) = f_is_finite x.
Proof. exact (Binary.is_finite_Babs 53 1024 unop_nan_pl64 x). Qed.
Lemma fabs_sign x : f_is_nan x = false -> Binary.Bsign 53 1024 (fabs x) = false.
Proof. exact (Binary.Bsign_Babs 53 1024 unop_nan_pl64 x). Qed.

Lemma f64_zero_eq : f64_zero = B754_zero 53 1024 false.
Proof. reflexivity. Qed.
Lemma f64_zero_R : BR f64_zero = 0%R.
Proof. rewrite f64_zero_eq. reflexivity. Qed.
Lemma f64_zero_fin : f_is_finite f64_zero = true.
Proof. reflexivity. Qed.

Lemma feq_zero_fin x : f_is_finite x = true -> feq x f64_zero = Req_bool (BR x) 0.
Proof. intros Hx. rewrite (feq_fin x f64_zero Hx f64_zero_fin), f64_zero_R. reflexivity. Qed.

(* 1e-12 as a binary64: 4951760157141521 * 2^-92 *)
Lemma tol12_aux :
  binary_float_of_bits_aux 52 11 (Z.of_N 4427486594234968593) = F754_finite false 4951760157141521 (-92).
Proof. vm_compute. reflexivity. Qed.

Lemma tol12_R : BR tol12 = (4951760157141521 / 4951760157141521081489358848)%R.
Proof.
  unfold tol12, f64_of_bits, b64_of_bits, binary_float_of_bits.
  rewrite Binary.B2R_FF2B, tol12_aux.
  unfold FF2R, F2R, cond_Zopp, Fnum, Fexp, bpow. simpl Z.pow_pos. lra.
Qed.

Lemma tol12_fin : f_is_finite tol12 = true.
Proof.
  unfold tol12, f64_of_bits, b64_of_bits, binary_float_of_bits, f_is_finite.
  rewrite Binary.is_finite_FF2B, tol12_aux. reflexivity.
Qed.

Lemma tol12_bounds : (0 < BR tol12 <= 1)%R.
Proof. rewrite tol12_R. lra. Qed.

(* x - y on finite floats: no NaN; either the rounded difference (finite) or an infinity *)
Lemma fsub_fin_cases x y : f_is_finite x = true -> f_is_finite y = true ->
  (f_is_finite (fsub x y) = true /\ BR (fsub x y) = rnd64R (BR x - BR y) /\
   (Rabs (rnd64R (BR x - BR y)) < bpow radix2 1024)%R)
  \/ (exists s, fsub x y = B754_infinity 53 1024 s) /\ (bpow radix2 1024 <= Rabs (rnd64R (BR x - BR y)))%R.
Proof.
  intros Hx Hy.
  pose proof (Binary.Bminus_correct 53 1024 eq_refl eq_refl binop_nan_pl64 mode_NE x y Hx Hy) as H.
  change (Binary.Bminus 53 1024 eq_refl eq_refl binop_nan_pl64 mode_NE x y) with (fsub x y) in H.
  change (SpecFloat.fexp 53 1024) with fexp64 in H.
  change (round_mode mode_NE) with ZnearestE in H.
  destruct (Rlt_bool_spec (Rabs (rnd64R (BR x - BR y))) (bpow radix2 1024)) as [Hlt|Hge].
  - destruct H as (HR & HF & _). left. split; [exact HF|]. split; [exact HR|exact Hlt].
  - right. split; [|exact Hge]. destruct H as [H _].
    unfold binary_overflow in H. cbn [overflow_to_inf] in H.
    destruct (fsub x y) as [s|s|s pl e|s m e e0]; cbn [Binary.B2FF] in H; try discriminate.
    exists s. reflexivity.
Qed.

Lemma rnd64R_opp r : rnd64R (- r) = (- rnd64R r)%R.
Proof. apply round_NE_opp. Qed.

(* |x - y| = |y - x| as floats (Leibniz equality: abs clears the sign of a zero) *)
Lemma fabs_fsub_sym x y : f_is_finite x = true -> f_is_finite y = true ->
  fabs (fsub x y) = fabs (fsub y x).
Proof.
  intros Hx Hy.
  assert (Hopp : rnd64R (BR y - BR x) = (- rnd64R (BR x - BR y))%R).
  { rewrite <- rnd64R_opp. f_equal. lra. }
  destruct (fsub_fin_cases x y Hx Hy) as [(F1 & R1 & L1)|[(s1 & E1) G1]];
  destruct (fsub_fin_cases y x Hy Hx) as [(F2 & R2 & L2)|[(s2 & E2) G2]].
  - apply Binary.B2R_Bsign_inj.
    + fold (f_is_finite (fabs (fsub x y))). rewrite fabs_fin. exact F1.
    + fold (f_is_finite (fabs (fsub y x))). rewrite fabs_fin. exact F2.
    + rewrite !fabs_R, R1, R2, Hopp, Rabs_Ropp. reflexivity.
    + rewrite !fabs_sign by (apply fin_not_nan; assumption). reflexivity.
  - rewrite Hopp, Rabs_Ropp in G2. lra.
  - rewrite Hopp, Rabs_Ropp in L2. lra.
  - rewrite E1, E2. reflexivity.
Qed.

(* max(|x|, |y|) = max(|y|, |x|) as floats *)
Lemma fmax_fabs_sym x y : f_is_finite x = true -> f_is_finite y = true ->
  fmax (fabs x) (fabs y) = fmax (fabs y) (fabs x).
Proof.
  intros Hx Hy.
  assert (Fa : f_is_finite (fabs x) = true) by (rewrite fabs_fin; exact Hx).
  assert (Fb : f_is_finite (fabs y) = true) by (rewrite fabs_fin; exact Hy).
  unfold fmax. rewrite (flt_fin _ _ Fa Fb), (flt_fin _ _ Fb Fa).
  destruct (Rlt_bool_spec (BR (fabs x)) (BR (fabs y))) as [H1|H1];
  destruct (Rlt_bool_spec (BR (fabs y)) (BR (fabs x))) as [H2|H2]; try reflexivity.
  - lra.
  - apply Binary.B2R_Bsign_inj; try assumption.
    + lra.
    + rewrite !fabs_sign by (apply fin_not_nan; assumption). reflexivity.
Qed.

Lemma fmax_fabs_R x y : f_is_finite x = true -> f_is_finite y = true ->
  f_is_finite (fmax (fabs x) (fabs y)) = true /\
  BR (fmax (fabs x) (fabs y)) = Rmax (Rabs (BR x)) (Rabs (BR y)) /\
  Binary.Bsign 53 1024 (fmax (fabs x) (fabs y)) = false.
Proof.
  intros Hx Hy.
  assert (Fa : f_is_finite (fabs x) = true) by (rewrite fabs_fin; exact Hx).
  assert (Fb : f_is_finite (fabs y) = true) by (rewrite fabs_fin; exact Hy).
  unfold fmax. rewrite (flt_fin _ _ Fa Fb), !fabs_R.
  destruct (Rlt_bool_spec (Rabs (BR x)) (Rabs (BR y))) as [H1|H1].
  - split; [exact Fb|]. split; [|apply fabs_sign, fin_not_nan; exact Hy].
    rewrite fabs_R, Rmax_right by lra. reflexivity.
  - split; [exact Fa|]. split; [|apply fabs_sign, fin_not_nan; exact Hx].
    rewrite fabs_R, Rmax_left by lra. reflexivity.
Qed.

(* ================================================================== *)
(* 4. symmetry                                                         *)
(* ================================================================== *)
Theorem within_tolerance_sym x y tol : f_is_finite x = true -> f_is_finite y = true ->
  within_tolerance x y tol = within_tolerance y x tol.
Proof.
  intros Hx Hy. unfold within_tolerance.
  rewrite (orb_comm (feq x f64_zero) (feq y f64_zero)).
  rewrite (andb_comm (fle (fabs x) tol) (fle (fabs y) tol)).
  rewrite (fabs_fsub_sym x y Hx Hy), (fmax_fabs_sym x y Hx Hy). reflexivity.
Qed.

Definition map_finite (m : mapid) : Prop := f_is_finite (mk_gamma m) = true /\ f_is_finite (mk_off m) = true.

Theorem equals_sym a b : map_finite a -> map_finite b -> map_equals a b = map_equals b a.
Proof.
  intros [Ha1 Ha2] [Hb1 Hb2]. unfold map_equals.
  rewrite (N.eqb_sym (mk_kind a) (mk_kind b)).
  rewrite (within_tolerance_sym _ _ tol12 Ha1 Hb1), (within_tolerance_sym _ _ tol12 Ha2 Hb2).
  reflexivity.
Qed.
