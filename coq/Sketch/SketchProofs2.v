(* Sketch-level proofs, second series (Layer A unless said otherwise).
     1. C05  quantiles of a collapsing sketch: the answer of the collapsed sketch is the answer of
             the exact sketch with the selected key clamped to the retained window; it is the same
             answer whenever the selected key is retained, the representative of the edge bin otherwise.
     2. C12  a_min / a_max of a sketch built from a list of values are the representatives of the
             least / greatest value (hence within alpha); collapsing stores: the clamped extreme keys.
     3. W2   the theorems of Sketch/SketchProofs.v, Sketch/RankProofs.v and Sketch/RoundingInstance.v
             that assume [0 < am_value m i] and monotonicity of [am_value m] on ALL of Z, restated
             with the premises restricted to the keys the sketch holds ([_on_keys]) or to an index
             interval containing them ([_on_range]).
     4. C12  a_sum of a built sketch = sum of representative * weight; within alpha of the true sum
             for same-signed data.
     5. C05  any history (adds, merges from stores of any kind / limit, reweights, clears, reads) on a
             store of limit l leaves the clamp of the content the same history leaves on an exact store.
     6. C11  the witness of defect D4 on the Layer B model (Flocq axioms only there). *)
From SK Require Import Spec.Bins Spec.BinsProofs Spec.ASketch Sketch.SketchProofs Sketch.RankProofs.
From Coq Require Import Lqa Permutation Sorted Qcabs.
Local Open Scope Z_scope.

(* ================================================================== *)
(** * 1. key_at_rank, min_key, max_key of a clamped store              *)
(* ================================================================== *)

(* the key a store of limit l reports for the key k of the exact content b *)
Definition clampk (l : limit) (b : bins) (k : Z) : Z :=
  match l with
  | Exact => k
  | Lowest n => match max_key b with Some mx => Z.max k (mx - n + 1) | None => k end
  | Highest n => match min_key b with Some mn => Z.min k (mn + n - 1) | None => k end
  end.
(* k lies in the window [max - n + 1, max] (resp. [min, min + n - 1]) the store retains *)
Definition retained (l : limit) (b : bins) (k : Z) : Prop :=
  match l with
  | Exact => True
  | Lowest n => forall mx, max_key b = Some mx -> mx - n + 1 <= k
  | Highest n => forall mn, min_key b = Some mn -> k <= mn + n - 1
  end.
Lemma clampk_retained l b k : retained l b k -> clampk l b k = k.
Proof.
  destruct l as [|n|n]; cbn [retained clampk]; intros H; [reflexivity| |].
  - destruct (max_key b) as [mx|]; [|reflexivity]. specialize (H mx eq_refl). lia.
  - destruct (min_key b) as [mn|]; [|reflexivity]. specialize (H mn eq_refl). lia.
Qed.
Lemma clampk_not_retained_low n b mx k :
  max_key b = Some mx -> k < mx - n + 1 -> clampk (Lowest n) b k = mx - n + 1.
Proof. intros H Hk. cbn [clampk]. rewrite H. lia. Qed.
Lemma clampk_not_retained_high n b mn k :
  min_key b = Some mn -> mn + n - 1 < k -> clampk (Highest n) b k = mn + n - 1.
Proof. intros H Hk. cbn [clampk]. rewrite H. lia. Qed.

Lemma kar_zero b : pos b -> key_at_rank b w0 = min_key b.
Proof.
  intros Hp. destruct b as [|[k w] tl]; [reflexivity|].
  apply pos_cons in Hp. destruct Hp as [Hw _].
  destruct tl as [|[k2 w2] tl]; [reflexivity|].
  unfold key_at_rank. rewrite karf_cons2.
  destruct (wltb_spec w0 (wadd w0 w)) as [H|H]; [reflexivity|]. exfalso. apply H. wlra.
Qed.
Lemma kar_neg_zero b r : pos b -> (r < w0)%Qc -> key_at_rank b r = key_at_rank b w0.
Proof. intros Hp Hr. rewrite kar_zero by exact Hp. apply key_at_rank_neg; assumption. Qed.

(* the characterisation of key_at_rank_spec determines the answer *)
Lemma kar_unique b r k :
  wf b = true -> pos b -> (w0 <= r)%Qc -> get b k <> w0 ->
  (((r < cum b k)%Qc /\ forall j, j < k -> (cum b j <= r)%Qc) \/
   (max_key b = Some k /\ forall j, (cum b j <= r)%Qc)) ->
  key_at_rank b r = Some k.
Proof.
  intros Hwf Hp Hr Hk Hs.
  assert (Hne : b <> []). { intros E. subst b. apply Hk. reflexivity. }
  destruct (key_at_rank_spec b r Hwf Hp Hne Hr) as [k' [H1 [H2 H3]]]. rewrite H1. f_equal.
  destruct H3 as [[A1 A2]|[A1 A2]]; destruct Hs as [[B1 B2]|[B1 B2]].
  - destruct (Z.lt_trichotomy k' k) as [Hlt|[Heq|Hgt]]; [|exact Heq|]; exfalso.
    + specialize (B2 k' Hlt). wlra.
    + specialize (A2 k Hgt). wlra.
  - exfalso. specialize (B2 k'). wlra.
  - exfalso. specialize (A2 k). wlra.
  - congruence.
Qed.

(* cumulative weights of the two clamps *)
Lemma cum_clamp_low n b mx j :
  max_key b = Some mx ->
  cum (clamp_low n b) j = if j <? mx - n + 1 then w0 else cum b j.
Proof.
  intros Hmx. rewrite (clamp_low_remap n b mx Hmx). unfold cum at 1. rewrite gsum_remap.
  destruct (Z.ltb_spec j (mx - n + 1)) as [H|H].
  - apply gsum_false. intros k _. apply Z.leb_gt. lia.
  - unfold cum. apply gsum_ext. intros k _.
    destruct (Z.leb_spec k j) as [H1|H1]; [apply Z.leb_le|apply Z.leb_gt]; lia.
Qed.
Lemma cum_clamp_high n b mn j :
  min_key b = Some mn ->
  cum (clamp_high n b) j = if mn + n - 1 <=? j then total b else cum b j.
Proof.
  intros Hmn. rewrite (clamp_high_remap n b mn Hmn). unfold cum at 1. rewrite gsum_remap.
  destruct (Z.leb_spec (mn + n - 1) j) as [H|H].
  - rewrite total_gsum. apply gsum_ext. intros k _. apply Z.leb_le. lia.
  - unfold cum. apply gsum_ext. intros k _.
    destruct (Z.leb_spec k j) as [H1|H1]; [apply Z.leb_le|apply Z.leb_gt]; lia.
Qed.

Lemma get_le_cum b k j : nonneg b -> k <= j -> (get b k <= cum b j)%Qc.
Proof. intros Hn Hkj. unfold cum. apply get_le_gsum; [exact Hn|apply Z.leb_le; exact Hkj]. Qed.
Lemma get_le_cum_up b k j : nonneg b -> j <= k -> (get b k <= cum_up b j)%Qc.
Proof. intros Hn Hkj. unfold cum_up. apply get_le_gsum; [exact Hn|apply Z.leb_le; exact Hkj]. Qed.

Theorem max_key_clamp_high n b mn mx :
  1 <= n -> wf b = true -> pos b -> min_key b = Some mn -> max_key b = Some mx ->
  max_key (clamp_high n b) = Some (Z.min mx (mn + n - 1)).
Proof.
  intros Hn Hwf Hp Hmn Hmx. pose proof (pos_nonneg b Hp) as Hnn.
  destruct (max_key_spec b mx Hwf Hmx) as [M1 M2].
  pose proof (min_le_max b mn mx Hwf Hmn Hmx) as Hle.
  apply max_key_iff; [apply wf_clamp_high; exact Hp|]. split.
  - rewrite (get_clamp_high n b mn _ Hwf Hp Hmn). cbv zeta.
    destruct (Z.ltb_spec (mn + n - 1) (Z.min mx (mn + n - 1))) as [H1|H1]; [lia|].
    destruct (Z.eqb_spec (Z.min mx (mn + n - 1)) (mn + n - 1)) as [H2|H2].
    + pose proof (get_le_cum_up b mx (mn + n - 1) Hnn ltac:(lia)) as Hc.
      pose proof (get_neq0_pos b mx Hp M1) as Hpos. wlra.
    + replace (Z.min mx (mn + n - 1)) with mx by lia. exact M1.
  - intros j Hj. rewrite (get_clamp_high n b mn j Hwf Hp Hmn). cbv zeta.
    destruct (Z.ltb_spec (mn + n - 1) j) as [H1|H1]; [reflexivity|].
    destruct (Z.eqb_spec j (mn + n - 1)) as [H2|H2].
    + unfold cum_up. apply gsum_false. intros k Hk. apply Z.leb_gt.
      pose proof (max_key_ge b mx k Hwf Hmx (In_get_neq0 b k Hwf Hk)). lia.
    + apply M2. lia.
Qed.

(* KeyAtRank of a collapsed store = KeyAtRank of the exact store, clamped; for EVERY rank *)
Theorem kar_clamp_low n b mx r :
  1 <= n -> wf b = true -> pos b -> max_key b = Some mx ->
  key_at_rank (clamp_low n b) r = option_map (fun k => Z.max k (mx - n + 1)) (key_at_rank b r).
Proof.
  intros Hn Hwf Hp Hmx. pose proof (pos_nonneg b Hp) as Hnn.
  pose proof (wf_clamp_low n b Hp) as Hwc. pose proof (pos_clamp_low n b Hp) as Hpc.
  assert (Hne : b <> []). { intros E. subst b. discriminate. }
  assert (Main : forall r0, (w0 <= r0)%Qc ->
    key_at_rank (clamp_low n b) r0 = option_map (fun k => Z.max k (mx - n + 1)) (key_at_rank b r0)).
  { intros r0 Hr. destruct (key_at_rank_spec b r0 Hwf Hp Hne Hr) as [k [H1 [H2 H3]]].
    rewrite H1. cbn [option_map]. set (e := mx - n + 1) in *.
    pose proof (get_neq0_pos b k Hp H2) as Hgk.
    apply kar_unique; try assumption.
    - rewrite (get_clamp_low n b mx _ Hwf Hp Hmx). cbv zeta. fold e.
      destruct (Z.ltb_spec (Z.max k e) e) as [A|A]; [lia|].
      destruct (Z.eqb_spec (Z.max k e) e) as [A2|A2].
      + pose proof (get_le_cum b k e Hnn ltac:(lia)) as Hc. wlra.
      + replace (Z.max k e) with k by lia. exact H2.
    - destruct H3 as [[A1 A2]|[A1 A2]].
      + left. split.
        * rewrite (cum_clamp_low n b mx _ Hmx). fold e.
          destruct (Z.ltb_spec (Z.max k e) e) as [A|A]; [lia|].
          pose proof (cum_mono b k (Z.max k e) Hnn ltac:(lia)) as Hc. wlra.
        * intros j Hj. rewrite (cum_clamp_low n b mx _ Hmx). fold e.
          destruct (Z.ltb_spec j e) as [A|A]; [exact Hr|]. apply A2. lia.
      + right. rewrite A1 in Hmx. injection Hmx as Hmx. subst k. split.
        * rewrite max_key_clamp_low by assumption. rewrite A1. f_equal. lia.
        * intros j. rewrite (cum_clamp_low n b mx _ A1). fold e.
          destruct (Z.ltb_spec j e) as [A|A]; [exact Hr|apply A2]. }
  destruct (Qclt_le_dec r w0) as [Hr|Hr].
  - rewrite (kar_neg_zero _ r Hpc Hr), (kar_neg_zero b r Hp Hr). apply Main. apply Qcle_refl.
  - apply Main. exact Hr.
Qed.

Theorem kar_clamp_high n b mn r :
  1 <= n -> wf b = true -> pos b -> min_key b = Some mn ->
  key_at_rank (clamp_high n b) r = option_map (fun k => Z.min k (mn + n - 1)) (key_at_rank b r).
Proof.
  intros Hn Hwf Hp Hmn. pose proof (pos_nonneg b Hp) as Hnn.
  pose proof (wf_clamp_high n b Hp) as Hwc. pose proof (pos_clamp_high n b Hp) as Hpc.
  assert (Hne : b <> []). { intros E. subst b. discriminate. }
  destruct (max_key_some b Hne) as [mx Hmx].
  assert (Main : forall r0, (w0 <= r0)%Qc ->
    key_at_rank (clamp_high n b) r0 = option_map (fun k => Z.min k (mn + n - 1)) (key_at_rank b r0)).
  { intros r0 Hr. destruct (key_at_rank_spec b r0 Hwf Hp Hne Hr) as [k [H1 [H2 H3]]].
    rewrite H1. cbn [option_map]. set (e := mn + n - 1) in *.
    pose proof (get_neq0_pos b k Hp H2) as Hgk.
    apply kar_unique; try assumption.
    - rewrite (get_clamp_high n b mn _ Hwf Hp Hmn). cbv zeta. fold e.
      destruct (Z.ltb_spec e (Z.min k e)) as [A|A]; [lia|].
      destruct (Z.eqb_spec (Z.min k e) e) as [A2|A2].
      + pose proof (get_le_cum_up b k e Hnn ltac:(lia)) as Hc. wlra.
      + replace (Z.min k e) with k by lia. exact H2.
    - destruct H3 as [[A1 A2]|[A1 A2]].
      + left. split.
        * rewrite (cum_clamp_high n b mn _ Hmn). fold e.
          destruct (Z.leb_spec e (Z.min k e)) as [A|A].
          -- pose proof (cum_le_total b k Hnn) as Hc. wlra.
          -- replace (Z.min k e) with k by lia. exact A1.
        * intros j Hj. rewrite (cum_clamp_high n b mn _ Hmn). fold e.
          destruct (Z.leb_spec e j) as [A|A]; [lia|]. apply A2. lia.
      + right. rewrite A1 in Hmx. injection Hmx as Hmx. subst k. split.
        * apply max_key_clamp_high; assumption.
        * intros j. rewrite (cum_clamp_high n b mn _ Hmn). fold e.
          destruct (Z.leb_spec e j) as [A|A]; [|apply A2].
          rewrite <- (cum_at_max b mx mx Hwf A1 ltac:(lia)). apply A2. }
  destruct (Qclt_le_dec r w0) as [Hr|Hr].
  - rewrite (kar_neg_zero _ r Hpc Hr), (kar_neg_zero b r Hp Hr). apply Main. apply Qcle_refl.
  - apply Main. exact Hr.
Qed.

Theorem kar_norm l b r :
  limit_ok l -> wf b = true -> pos b ->
  key_at_rank (norm l b) r = option_map (clampk l b) (key_at_rank b r).
Proof.
  intros Hl Hwf Hp. destruct l as [|n|n]; cbn [norm limit_ok] in *.
  - destruct (key_at_rank b r); reflexivity.
  - destruct (max_key b) as [mx|] eqn:E.
    + rewrite (kar_clamp_low n b mx r Hl Hwf Hp E). unfold clampk. rewrite E. reflexivity.
    + apply max_key_none in E. subst b. reflexivity.
  - destruct (min_key b) as [mn|] eqn:E.
    + rewrite (kar_clamp_high n b mn r Hl Hwf Hp E). unfold clampk. rewrite E. reflexivity.
    + apply min_key_none in E. subst b. reflexivity.
Qed.

(* the extreme keys of a collapsed store are the clamped extreme keys *)
Theorem min_key_norm l b :
  limit_ok l -> wf b = true -> pos b -> min_key (norm l b) = option_map (clampk l b) (min_key b).
Proof.
  intros Hl Hwf Hp. rewrite <- (kar_zero (norm l b)) by (apply pos_norm; exact Hp).
  rewrite <- (kar_zero b Hp). apply kar_norm; assumption.
Qed.
Theorem max_key_norm l b :
  limit_ok l -> wf b = true -> pos b -> max_key (norm l b) = option_map (clampk l b) (max_key b).
Proof.
  intros Hl Hwf Hp.
  rewrite <- (key_at_rank_ge_total (norm l b) (total b)).
  - rewrite <- (key_at_rank_ge_total b (total b) Hwf Hp (Qcle_refl _)). apply kar_norm; assumption.
  - apply wf_norm; assumption.
  - apply pos_norm; exact Hp.
  - rewrite total_norm. apply Qcle_refl.
Qed.

(* ================================================================== *)
(** * 2. C05: quantiles of a collapsing sketch                         *)
(* ================================================================== *)

(* what GetValueAtQuantile selects before the mapping turns it into a value: a key of the negative
   store, the zero bucket, or a key of the positive store *)
Inductive qsel := SelNeg (k : Z) | SelZero | SelPos (k : Z).
Definition sel_value (m : amapping) (x : qsel) : Qc :=
  match x with SelNeg k => Qcopp (am_value m k) | SelZero => w0 | SelPos k => am_value m k end.
Definition a_quantile_sel (rnd : Qc -> Qc) (s : asketch) (q : Qc) : option qsel :=
  if weqb (a_count s) w0 then None else
  let rank := a_rank rnd s q in
  let negc := total (a_neg s) in
  if wltb rank negc then
    option_map SelNeg (key_at_rank (a_neg s) (rnd (wsub (rnd (wsub negc w1)) rank)))
  else if wltb rank (rnd (wadd (a_zero s) negc)) then Some SelZero
  else option_map SelPos (key_at_rank (a_pos s) (rnd (wsub (rnd (wsub rank (a_zero s))) negc))).
(* a_quantile is the value of the selection *)
Lemma a_quantile_sel_value rnd m s q :
  a_quantile rnd m s q = option_map (sel_value m) (a_quantile_sel rnd s q).
Proof.
  unfold a_quantile, a_quantile_sel. destruct (weqb (a_count s) w0); [reflexivity|]. cbv zeta.
  destruct (wltb (a_rank rnd s q) (total (a_neg s))).
  - destruct (key_at_rank (a_neg s) _); reflexivity.
  - destruct (wltb (a_rank rnd s q) (rnd (wadd (a_zero s) (total (a_neg s))))); [reflexivity|].
    destruct (key_at_rank (a_pos s) _); reflexivity.
Qed.
(* the selection is a key the sketch holds *)
Lemma a_quantile_sel_key rnd s q x :
  a_quantile_sel rnd s q = Some x ->
  match x with
  | SelNeg k => In k (map fst (a_neg s))
  | SelZero => True
  | SelPos k => In k (map fst (a_pos s))
  end.
Proof.
  unfold a_quantile_sel. destruct (weqb (a_count s) w0); [discriminate|]. cbv zeta.
  destruct (wltb (a_rank rnd s q) (total (a_neg s))).
  - destruct (key_at_rank (a_neg s) _) as [k|] eqn:E; [|discriminate]. cbn [option_map].
    intros H. injection H as <-. eapply karf_In. exact E.
  - destruct (wltb (a_rank rnd s q) (rnd (wadd (a_zero s) (total (a_neg s))))).
    + intros H. injection H as <-. exact I.
    + destruct (key_at_rank (a_pos s) _) as [k|] eqn:E; [|discriminate]. cbn [option_map].
      intros H. injection H as <-. eapply karf_In. exact E.
Qed.

Definition clamp_sel (lp ln : limit) (s : asketch) (x : qsel) : qsel :=
  match x with
  | SelNeg k => SelNeg (clampk ln (a_neg s) k)
  | SelZero => SelZero
  | SelPos k => SelPos (clampk lp (a_pos s) k)
  end.
Definition sel_retained (lp ln : limit) (s : asketch) (x : qsel) : Prop :=
  match x with
  | SelNeg k => retained ln (a_neg s) k
  | SelZero => True
  | SelPos k => retained lp (a_pos s) k
  end.
Lemma clamp_sel_retained lp ln s x : sel_retained lp ln s x -> clamp_sel lp ln s x = x.
Proof.
  destruct x as [k| |k]; cbn [sel_retained clamp_sel]; intros H; [|reflexivity|];
    rewrite clampk_retained by exact H; reflexivity.
Qed.

Lemma a_count_norm lp ln s : a_count (a_norm lp ln s) = a_count s.
Proof. unfold a_count, a_norm; cbn [a_pos a_neg a_zero]. rewrite !total_norm. reflexivity. Qed.
Lemma a_rank_norm rnd lp ln s q : a_rank rnd (a_norm lp ln s) q = a_rank rnd s q.
Proof. unfold a_rank. rewrite a_count_norm. reflexivity. Qed.

(* the collapsed sketch selects the clamped key of what the exact sketch selects: any rounding
   operator, any q, any pair of limits *)
Theorem a_quantile_sel_norm rnd lp ln s q :
  limit_ok lp -> limit_ok ln -> awf s ->
  a_quantile_sel rnd (a_norm lp ln s) q = option_map (clamp_sel lp ln s) (a_quantile_sel rnd s q).
Proof.
  intros Lp Ln (Hp & Hn & Pp & Pn & Hz). unfold a_quantile_sel.
  rewrite a_count_norm, a_rank_norm. destruct (weqb (a_count s) w0); [reflexivity|]. cbv zeta.
  unfold a_norm; cbn [a_pos a_neg a_zero]. rewrite !total_norm.
  destruct (wltb (a_rank rnd s q) (total (a_neg s))).
  - rewrite kar_norm by assumption. destruct (key_at_rank (a_neg s) _); reflexivity.
  - destruct (wltb (a_rank rnd s q) (rnd (wadd (a_zero s) (total (a_neg s))))); [reflexivity|].
    rewrite kar_norm by assumption. destruct (key_at_rank (a_pos s) _); reflexivity.
Qed.

Theorem collapsing_quantile_clamped rnd m lp ln s q :
  limit_ok lp -> limit_ok ln -> awf s ->
  a_quantile rnd m (a_norm lp ln s) q =
  option_map (fun x => sel_value m (clamp_sel lp ln s x)) (a_quantile_sel rnd s q).
Proof.
  intros Lp Ln Hs. rewrite a_quantile_sel_value, a_quantile_sel_norm by assumption.
  destruct (a_quantile_sel rnd s q); reflexivity.
Qed.
(* retained-bin clause of C05: same answer as the exact sketch *)
Theorem collapsing_quantile_agrees rnd m lp ln s q :
  limit_ok lp -> limit_ok ln -> awf s ->
  (forall x, a_quantile_sel rnd s q = Some x -> sel_retained lp ln s x) ->
  a_quantile rnd m (a_norm lp ln s) q = a_quantile rnd m s q.
Proof.
  intros Lp Ln Hs Hr. rewrite collapsing_quantile_clamped by assumption.
  rewrite a_quantile_sel_value. destruct (a_quantile_sel rnd s q) as [x|]; [|reflexivity].
  cbn [option_map]. rewrite clamp_sel_retained by (apply Hr; reflexivity). reflexivity.
Qed.
(* complement: a selection beyond the edge answers the representative of the edge bin *)
Theorem collapsing_quantile_edge_pos_low rnd m n ln s q k mx :
  1 <= n -> limit_ok ln -> awf s ->
  a_quantile_sel rnd s q = Some (SelPos k) -> max_key (a_pos s) = Some mx -> k < mx - n + 1 ->
  a_quantile rnd m (a_norm (Lowest n) ln s) q = Some (am_value m (mx - n + 1)).
Proof.
  intros Hn Ln Hs Hsel Hmx Hk. rewrite collapsing_quantile_clamped by assumption.
  rewrite Hsel. cbn [option_map clamp_sel sel_value].
  rewrite (clampk_not_retained_low n _ mx k Hmx Hk). reflexivity.
Qed.
Theorem collapsing_quantile_edge_pos_high rnd m n ln s q k mn :
  1 <= n -> limit_ok ln -> awf s ->
  a_quantile_sel rnd s q = Some (SelPos k) -> min_key (a_pos s) = Some mn -> mn + n - 1 < k ->
  a_quantile rnd m (a_norm (Highest n) ln s) q = Some (am_value m (mn + n - 1)).
Proof.
  intros Hn Ln Hs Hsel Hmn Hk. rewrite collapsing_quantile_clamped by assumption.
  rewrite Hsel. cbn [option_map clamp_sel sel_value].
  rewrite (clampk_not_retained_high n _ mn k Hmn Hk). reflexivity.
Qed.
Theorem collapsing_quantile_edge_neg_low rnd m lp n s q k mx :
  limit_ok lp -> 1 <= n -> awf s ->
  a_quantile_sel rnd s q = Some (SelNeg k) -> max_key (a_neg s) = Some mx -> k < mx - n + 1 ->
  a_quantile rnd m (a_norm lp (Lowest n) s) q = Some (Qcopp (am_value m (mx - n + 1))).
Proof.
  intros Lp Hn Hs Hsel Hmx Hk. rewrite collapsing_quantile_clamped by assumption.
  rewrite Hsel. cbn [option_map clamp_sel sel_value].
  rewrite (clampk_not_retained_low n _ mx k Hmx Hk). reflexivity.
Qed.
Theorem collapsing_quantile_edge_neg_high rnd m lp n s q k mn :
  limit_ok lp -> 1 <= n -> awf s ->
  a_quantile_sel rnd s q = Some (SelNeg k) -> min_key (a_neg s) = Some mn -> mn + n - 1 < k ->
  a_quantile rnd m (a_norm lp (Highest n) s) q = Some (Qcopp (am_value m (mn + n - 1))).
Proof.
  intros Lp Hn Hs Hsel Hmn Hk. rewrite collapsing_quantile_clamped by assumption.
  rewrite Hsel. cbn [option_map clamp_sel sel_value].
  rewrite (clampk_not_retained_high n _ mn k Hmn Hk). reflexivity.
Qed.

(* ---- sketches built by adds ---- *)
Lemma a_add_list_build m xs : forall s s',
  a_add_list m s xs = Some s' -> a_build m Exact Exact s xs = s'.
Proof.
  induction xs as [|[v c] xs IH]; intros s s' H.
  - cbn [a_add_list] in H. injection H as <-. reflexivity.
  - cbn [a_add_list fst snd] in H. rewrite a_build_cons. unfold a_addx.
    destruct (a_add m Exact Exact s v c) as [s1| |]; try discriminate. apply IH. exact H.
Qed.
Lemma a_add_list_awf m xs : forall s s',
  awf s -> wnonneg xs -> a_add_list m s xs = Some s' -> awf s'.
Proof.
  intros s s' Hs Hw H. rewrite <- (a_add_list_build m xs s s' H). apply a_build_awf; assumption.
Qed.
Lemma a_norm_new lp ln : a_norm lp ln a_new = a_new.
Proof. unfold a_norm, a_new; cbn [a_pos a_neg a_zero]. destruct lp, ln; reflexivity. Qed.
(* the collapsing sketch built from xs is the normal form of the exact sketch built from xs *)
Theorem collapsing_built m lp ln xs s :
  limit_ok lp -> limit_ok ln -> wnonneg xs -> a_add_list m a_new xs = Some s ->
  a_build m lp ln a_new xs = a_norm lp ln s /\ awf s.
Proof.
  intros Lp Ln Hw H. split.
  - rewrite <- (a_add_list_build m xs a_new s H). rewrite <- (a_norm_new lp ln) at 1.
    apply a_build_norm; try assumption. exact awf_new.
  - exact (a_add_list_awf m xs a_new s awf_new Hw H).
Qed.
Lemma wnonneg_units (xs : list Qc) : wnonneg (map unit_item xs).
Proof.
  unfold wnonneg. apply Forall_forall. intros a Ha. apply in_map_iff in Ha.
  destruct Ha as [x [<- _]]. cbn [unit_item snd]. wlra.
Qed.
Lemma wpos_wnonneg (xs : list item) : wpos xs -> wnonneg xs.
Proof.
  unfold wpos, wnonneg. intros H. eapply Forall_impl; [|exact H]. intros a Ha. cbv beta in *. wlra.
Qed.

(* C01 carried to the collapsing sketch, for every q whose selection is retained *)
Theorem collapsing_quantile_accuracy
  (rnd : Qc -> Qc) (m : amapping) (B : Z) lp ln (xs ys : list Qc) (s : asketch) (q alpha : Qc) :
  (forall x y, (x <= y)%Qc -> (rnd x <= rnd y)%Qc) ->
  (forall z : Z, Z.abs z <= B -> rnd (inj z) = inj z) ->
  (w0 <= am_min m)%Qc ->
  (forall x y, (am_min m < x)%Qc -> (x <= y)%Qc -> (y <= am_max m)%Qc -> am_index m x <= am_index m y) ->
  limit_ok lp -> limit_ok ln ->
  a_add_list m a_new (map unit_item xs) = Some s ->
  Permutation xs ys -> Sorted Qcle ys -> xs <> [] ->
  Z.of_nat (length xs) <= B -> (w0 <= q)%Qc -> (q <= w1)%Qc ->
  (forall x, (am_min m < x)%Qc -> (x <= am_max m)%Qc ->
             (Qcabs (am_value m (am_index m x) - x) <= alpha * x)%Qc) ->
  (forall x, a_quantile_sel rnd s q = Some x -> sel_retained lp ln s x) ->
  exists (k : nat) (y : Qc),
    (cfloor (q * inj (Z.of_nat (length xs) - 1)) <= Z.of_nat k
     <= cceil (q * inj (Z.of_nat (length xs) - 1))) /\
    (k < length xs)%nat /\
    a_quantile rnd m (a_build m lp ln a_new (map unit_item xs)) q = Some y /\
    (((Qcabs (nth k ys w0) <= am_min m)%Qc /\ y = w0) \/
     (Qcabs (y - nth k ys w0) <= alpha * Qcabs (nth k ys w0))%Qc).
Proof.
  intros Rm Ri M0 Im Lp Ln Hadd Hperm Hsort Hne HB Hq0 Hq1 Hacc Hret.
  destruct (collapsing_built m lp ln _ s Lp Ln (wnonneg_units xs) Hadd) as [E Hs].
  rewrite E, (collapsing_quantile_agrees rnd m lp ln s q Lp Ln Hs Hret).
  exact (quantile_accuracy m M0 Im rnd B Rm Ri xs ys s q alpha Hadd Hperm Hsort Hne HB Hq0 Hq1 Hacc).
Qed.

(* ================================================================== *)
(** * 3. C12: a_min / a_max of a built sketch                          *)
(* ================================================================== *)

(* a_min / a_max of a collapsed sketch read the clamped extreme keys *)
Theorem a_min_norm m lp ln s :
  limit_ok lp -> limit_ok ln -> awf s ->
  a_min m (a_norm lp ln s) =
  match max_key (a_neg s) with
  | Some k => Some (Qcopp (am_value m (clampk ln (a_neg s) k)))
  | None => if wltb w0 (a_zero s) then Some w0
            else match min_key (a_pos s) with
                 | Some k => Some (am_value m (clampk lp (a_pos s) k)) | None => None end
  end.
Proof.
  intros Lp Ln (Hp & Hn & Pp & Pn & Hz). unfold a_min, a_norm; cbn [a_pos a_neg a_zero].
  rewrite max_key_norm, min_key_norm by assumption.
  destruct (max_key (a_neg s)); [reflexivity|]. cbn [option_map].
  destruct (wltb w0 (a_zero s)); [reflexivity|]. destruct (min_key (a_pos s)); reflexivity.
Qed.
Theorem a_max_norm m lp ln s :
  limit_ok lp -> limit_ok ln -> awf s ->
  a_max m (a_norm lp ln s) =
  match max_key (a_pos s) with
  | Some k => Some (am_value m (clampk lp (a_pos s) k))
  | None => if wltb w0 (a_zero s) then Some w0
            else match min_key (a_neg s) with
                 | Some k => Some (Qcopp (am_value m (clampk ln (a_neg s) k))) | None => None end
  end.
Proof.
  intros Lp Ln (Hp & Hn & Pp & Pn & Hz). unfold a_max, a_norm; cbn [a_pos a_neg a_zero].
  rewrite max_key_norm, min_key_norm by assumption.
  destruct (max_key (a_pos s)); [reflexivity|]. cbn [option_map].
  destruct (wltb w0 (a_zero s)); [reflexivity|]. destruct (min_key (a_neg s)); reflexivity.
Qed.
(* the greatest key of a lowest-collapsing store and the least key of a highest-collapsing store
   are always retained *)
Lemma retained_max_low n b mx : 1 <= n -> max_key b = Some mx -> retained (Lowest n) b mx.
Proof. intros Hn H. cbn [retained]. intros mx' H'. rewrite H in H'. injection H' as <-. lia. Qed.
Lemma retained_min_high n b mn : 1 <= n -> min_key b = Some mn -> retained (Highest n) b mn.
Proof. intros Hn H. cbn [retained]. intros mn' H'. rewrite H in H'. injection H' as <-. lia. Qed.

(* the representative a collapsing sketch (limits lp, ln; exact content s) answers for the value x:
   the one of the bin of x if that bin is retained, the one of the edge bin otherwise *)
Definition repr_c (m : amapping) (lp ln : limit) (s : asketch) (x : Qc) : Qc :=
  if wleb (Qcabs x) (am_min m) then w0
  else if wltb w0 x then am_value m (clampk lp (a_pos s) (am_index m x))
  else Qcopp (am_value m (clampk ln (a_neg s) (am_index m (Qcopp x)))).
Lemma repr_c_exact m s x : repr_c m Exact Exact s x = repr m x.
Proof. reflexivity. Qed.
Lemma repr_c_retained m lp ln s x :
  ((am_min m < x)%Qc -> retained lp (a_pos s) (am_index m x)) ->
  ((x < Qcopp (am_min m))%Qc -> retained ln (a_neg s) (am_index m (Qcopp x))) ->
  (w0 <= am_min m)%Qc ->
  repr_c m lp ln s x = repr m x.
Proof.
  intros HP HN M0. unfold repr_c, repr.
  destruct (wleb_spec (Qcabs x) (am_min m)) as [E|E]; [reflexivity|].
  rewrite Qcabs_Qcle_condition in E.
  destruct (wltb_spec (Q2Qc 0) x) as [E'|E'].
  - change w0 with (Q2Qc 0). destruct (wltb_spec (Q2Qc 0) x) as [_|C]; [|contradiction].
    rewrite clampk_retained; [reflexivity|]. apply HP.
    apply Qcnot_le_lt. intros Hle. apply E. split; qlra.
  - change w0 with (Q2Qc 0). destruct (wltb_spec (Q2Qc 0) x) as [C|_]; [contradiction|].
    rewrite clampk_retained; [reflexivity|]. apply HN.
    apply Qcnot_lt_le in E'. apply Qcnot_le_lt. intros Hle. apply E. split; qlra.
Qed.

Section Extremes.
Variable m : amapping.
Hypothesis mn0 : (w0 <= am_min m)%Qc.
Hypothesis idx_mono :
  forall x y, (am_min m < x)%Qc -> (x <= y)%Qc -> (y <= am_max m)%Qc -> am_index m x <= am_index m y.

Lemma repr_c_P lp ln s a :
  isP m a = true -> repr_c m lp ln s (fst a) = am_value m (clampk lp (a_pos s) (am_index m (fst a))).
Proof.
  intros H. apply isP_true in H. unfold repr_c.
  destruct (wleb_spec (Qcabs (fst a)) (am_min m)) as [E|E].
  - apply Qcabs_Qcle_condition in E. exfalso. qlra.
  - destruct (wltb_spec w0 (fst a)) as [E'|E']; [reflexivity|]. exfalso. apply E'. qlra.
Qed.
Lemma repr_c_N lp ln s a :
  isN m a = true ->
  repr_c m lp ln s (fst a) = Qcopp (am_value m (clampk ln (a_neg s) (am_index m (Qcopp (fst a))))).
Proof.
  intros H. apply isN_true in H. unfold repr_c.
  destruct (wleb_spec (Qcabs (fst a)) (am_min m)) as [E|E].
  - apply Qcabs_Qcle_condition in E. exfalso. qlra.
  - destruct (wltb_spec w0 (fst a)) as [E'|E']; [|reflexivity]. exfalso. qlra.
Qed.
Lemma repr_c_Z lp ln s a : isZ m a = true -> repr_c m lp ln s (fst a) = w0.
Proof.
  intros H. apply isZ_true in H. unfold repr_c.
  destruct (wleb_spec (Qcabs (fst a)) (am_min m)) as [E|E]; [reflexivity|].
  exfalso. apply E. apply Qcabs_Qcle_condition. exact H.
Qed.

(* a key of a store built from a list comes from an element of the list *)
Lemma bol_key_in (f : item -> Z) l j :
  wpos l -> get (bins_of_list (map (fun a => (f a, snd a)) l)) j <> w0 -> exists b, In b l /\ f b = j.
Proof.
  intros Hw Hj. rewrite get_bins_of_list in Hj by (apply wpos_nonneg_map; exact Hw).
  apply lsum_neq0_In in Hj. rewrite map_map in Hj. cbn [fst] in Hj.
  apply in_map_iff in Hj. destruct Hj as [b [E Hb]]. exists b. split; [exact Hb|exact E].
Qed.
Lemma filter_none_in {A} (f : A -> bool) l : (forall a, In a l -> f a = false) -> filter f l = [].
Proof. intros H. apply filter_none. apply Forall_forall. exact H. Qed.
Lemma isZ_of a : isN m a = false -> isP m a = false -> isZ m a = true.
Proof. intros H1 H2. unfold isZ. rewrite H1, H2. reflexivity. Qed.

(* where the least value sits *)
Lemma min_built_keys xs s a :
  a_add_list m a_new xs = Some s -> wpos xs -> In a xs -> (forall b, In b xs -> (fst a <= fst b)%Qc) ->
  (isN m a = true /\ max_key (a_neg s) = Some (am_index m (Qcopp (fst a)))) \/
  (isZ m a = true /\ a_neg s = [] /\ (w0 < a_zero s)%Qc) \/
  (isP m a = true /\ a_neg s = [] /\ a_zero s = w0 /\ min_key (a_pos s) = Some (am_index m (fst a))).
Proof.
  intros Hadd Hw Ha Hmin.
  destruct (sketch_content m mn0 xs xs s Hadd (Permutation_refl xs) Hw) as [CP [CN [CZ Hok]]].
  rewrite Forall_forall in Hok.
  pose proof (wpos_filter (isP m) xs Hw) as HwP. pose proof (wpos_filter (isN m) xs Hw) as HwN.
  pose proof (wpos_filter (isZ m) xs Hw) as HwZ.
  destruct (isN m a) eqn:EN.
  - left. split; [reflexivity|].
    assert (WFN : wf (a_neg s) = true).
    { rewrite CN. apply wf_bins_of_list. apply (wpos_nonneg_map (fun a => am_index m (Qcopp (fst a)))). exact HwN. }
    apply max_key_iff; [exact WFN|]. split.
    + rewrite CN. apply (key_present (fun a => am_index m (Qcopp (fst a))) _ a HwN).
      apply filter_In. split; assumption.
    + intros j Hj. destruct (weqb_spec (get (a_neg s) j) w0) as [E|E]; [exact E|]. exfalso.
      rewrite CN in E. destruct (bol_key_in (fun a => am_index m (Qcopp (fst a))) _ j HwN E) as [b [Hb Ej]].
      apply filter_In in Hb. destruct Hb as [Hb Nb]. apply isN_true in Nb. apply isN_true in EN.
      pose proof (Hmin b Hb) as Hle. destruct (Hok a Ha) as [_ Oa]. specialize (Oa EN).
      assert (Hi : am_index m (Qcopp (fst b)) <= am_index m (Qcopp (fst a))) by (apply idx_mono; qlra).
      lia.
  - assert (AllN : forall b, In b xs -> isN m b = false).
    { intros b Hb. apply wltb_ge. apply wltb_ge in EN. pose proof (Hmin b Hb). qlra. }
    assert (EnN : a_neg s = []).
    { rewrite CN. rewrite (filter_none_in (isN m) xs AllN). reflexivity. }
    right. destruct (isP m a) eqn:EP.
    + right. split; [reflexivity|]. split; [exact EnN|].
      assert (AllP : forall b, In b xs -> isP m b = true).
      { intros b Hb. apply isP_true. apply isP_true in EP. pose proof (Hmin b Hb). qlra. }
      assert (EZ : filter (isZ m) xs = []).
      { apply filter_none_in. intros b Hb. unfold isZ. rewrite (AllP b Hb). reflexivity. }
      split; [rewrite CZ, EZ; reflexivity|].
      assert (WFP : wf (a_pos s) = true).
      { rewrite CP. apply wf_bins_of_list. apply (wpos_nonneg_map (fun a => am_index m (fst a))). exact HwP. }
      apply min_key_iff; [exact WFP|]. split.
      * rewrite CP. apply (key_present (fun a => am_index m (fst a)) _ a HwP).
        apply filter_In. split; assumption.
      * intros j Hj. destruct (weqb_spec (get (a_pos s) j) w0) as [E|E]; [exact E|]. exfalso.
        rewrite CP in E. destruct (bol_key_in (fun a => am_index m (fst a)) _ j HwP E) as [b [Hb Ej]].
        apply filter_In in Hb. destruct Hb as [Hb Pb]. apply isP_true in Pb. apply isP_true in EP.
        pose proof (Hmin b Hb) as Hle. destruct (Hok b Hb) as [Ob _]. specialize (Ob Pb).
        assert (Hi : am_index m (fst a) <= am_index m (fst b)) by (apply idx_mono; assumption).
        lia.
    + left. split; [apply isZ_of; assumption|]. split; [exact EnN|].
      rewrite CZ. apply wsum_pos; [exact HwZ|]. intros E.
      assert (Hin : In a (filter (isZ m) xs)) by (apply filter_In; split; [exact Ha|apply isZ_of; assumption]).
      rewrite E in Hin. contradiction.
Qed.
(* where the greatest value sits *)
Lemma max_built_keys xs s a :
  a_add_list m a_new xs = Some s -> wpos xs -> In a xs -> (forall b, In b xs -> (fst b <= fst a)%Qc) ->
  (isP m a = true /\ max_key (a_pos s) = Some (am_index m (fst a))) \/
  (isZ m a = true /\ a_pos s = [] /\ (w0 < a_zero s)%Qc) \/
  (isN m a = true /\ a_pos s = [] /\ a_zero s = w0 /\ min_key (a_neg s) = Some (am_index m (Qcopp (fst a)))).
Proof.
  intros Hadd Hw Ha Hmax.
  destruct (sketch_content m mn0 xs xs s Hadd (Permutation_refl xs) Hw) as [CP [CN [CZ Hok]]].
  rewrite Forall_forall in Hok.
  pose proof (wpos_filter (isP m) xs Hw) as HwP. pose proof (wpos_filter (isN m) xs Hw) as HwN.
  pose proof (wpos_filter (isZ m) xs Hw) as HwZ.
  destruct (isP m a) eqn:EP.
  - left. split; [reflexivity|].
    assert (WFP : wf (a_pos s) = true).
    { rewrite CP. apply wf_bins_of_list. apply (wpos_nonneg_map (fun a => am_index m (fst a))). exact HwP. }
    apply max_key_iff; [exact WFP|]. split.
    + rewrite CP. apply (key_present (fun a => am_index m (fst a)) _ a HwP).
      apply filter_In. split; assumption.
    + intros j Hj. destruct (weqb_spec (get (a_pos s) j) w0) as [E|E]; [exact E|]. exfalso.
      rewrite CP in E. destruct (bol_key_in (fun a => am_index m (fst a)) _ j HwP E) as [b [Hb Ej]].
      apply filter_In in Hb. destruct Hb as [Hb Pb]. apply isP_true in Pb. apply isP_true in EP.
      pose proof (Hmax b Hb) as Hle. destruct (Hok a Ha) as [Oa _]. specialize (Oa EP).
      assert (Hi : am_index m (fst b) <= am_index m (fst a)) by (apply idx_mono; assumption).
      lia.
  - assert (AllP : forall b, In b xs -> isP m b = false).
    { intros b Hb. apply wltb_ge. apply wltb_ge in EP. pose proof (Hmax b Hb). qlra. }
    assert (EnP : a_pos s = []).
    { rewrite CP. rewrite (filter_none_in (isP m) xs AllP). reflexivity. }
    right. destruct (isN m a) eqn:EN.
    + right. split; [reflexivity|]. split; [exact EnP|].
      assert (AllN : forall b, In b xs -> isN m b = true).
      { intros b Hb. apply isN_true. apply isN_true in EN. pose proof (Hmax b Hb). qlra. }
      assert (EZ : filter (isZ m) xs = []).
      { apply filter_none_in. intros b Hb. unfold isZ. rewrite (AllN b Hb), andb_false_r. reflexivity. }
      split; [rewrite CZ, EZ; reflexivity|].
      assert (WFN : wf (a_neg s) = true).
      { rewrite CN. apply wf_bins_of_list. apply (wpos_nonneg_map (fun a => am_index m (Qcopp (fst a)))). exact HwN. }
      apply min_key_iff; [exact WFN|]. split.
      * rewrite CN. apply (key_present (fun a => am_index m (Qcopp (fst a))) _ a HwN).
        apply filter_In. split; assumption.
      * intros j Hj. destruct (weqb_spec (get (a_neg s) j) w0) as [E|E]; [exact E|]. exfalso.
        rewrite CN in E. destruct (bol_key_in (fun a => am_index m (Qcopp (fst a))) _ j HwN E) as [b [Hb Ej]].
        apply filter_In in Hb. destruct Hb as [Hb Nb]. apply isN_true in Nb. apply isN_true in EN.
        pose proof (Hmax b Hb) as Hle. destruct (Hok b Hb) as [_ Ob]. specialize (Ob Nb).
        assert (Hi : am_index m (Qcopp (fst a)) <= am_index m (Qcopp (fst b))) by (apply idx_mono; qlra).
        lia.
    + left. split; [apply isZ_of; assumption|]. split; [exact EnP|].
      rewrite CZ. apply wsum_pos; [exact HwZ|]. intros E.
      assert (Hin : In a (filter (isZ m) xs)) by (apply filter_In; split; [exact Ha|apply isZ_of; assumption]).
      rewrite E in Hin. contradiction.
Qed.

(* GetMinValue / GetMaxValue of a sketch with limits lp, ln built from xs, in terms of the exact
   sketch s of the same values (lp = ln = Exact: the sketch itself) *)
Theorem min_built_gen lp ln xs s a :
  limit_ok lp -> limit_ok ln ->
  a_add_list m a_new xs = Some s -> wpos xs -> In a xs -> (forall b, In b xs -> (fst a <= fst b)%Qc) ->
  a_min m (a_build m lp ln a_new xs) = Some (repr_c m lp ln s (fst a)).
Proof.
  intros Lp Ln Hadd Hw Ha Hmin.
  destruct (collapsing_built m lp ln xs s Lp Ln (wpos_wnonneg xs Hw) Hadd) as [E Hs].
  rewrite E, a_min_norm by assumption.
  destruct (min_built_keys xs s a Hadd Hw Ha Hmin) as [[C K]|[[C [K1 K2]]|[C [K1 [K2 K3]]]]].
  - rewrite K, (repr_c_N lp ln s a C). reflexivity.
  - rewrite K1. cbn [max_key]. apply wltb_lt in K2. rewrite K2, (repr_c_Z lp ln s a C). reflexivity.
  - rewrite K1, K2, K3. cbn [max_key]. rewrite (repr_c_P lp ln s a C).
    assert (E0 : wltb w0 w0 = false) by (vm_compute; reflexivity). rewrite E0. reflexivity.
Qed.
Theorem max_built_gen lp ln xs s a :
  limit_ok lp -> limit_ok ln ->
  a_add_list m a_new xs = Some s -> wpos xs -> In a xs -> (forall b, In b xs -> (fst b <= fst a)%Qc) ->
  a_max m (a_build m lp ln a_new xs) = Some (repr_c m lp ln s (fst a)).
Proof.
  intros Lp Ln Hadd Hw Ha Hmax.
  destruct (collapsing_built m lp ln xs s Lp Ln (wpos_wnonneg xs Hw) Hadd) as [E Hs].
  rewrite E, a_max_norm by assumption.
  destruct (max_built_keys xs s a Hadd Hw Ha Hmax) as [[C K]|[[C [K1 K2]]|[C [K1 [K2 K3]]]]].
  - rewrite K, (repr_c_P lp ln s a C). reflexivity.
  - rewrite K1. cbn [max_key]. apply wltb_lt in K2. rewrite K2, (repr_c_Z lp ln s a C). reflexivity.
  - rewrite K1, K2, K3. cbn [max_key]. rewrite (repr_c_N lp ln s a C).
    assert (E0 : wltb w0 w0 = false) by (vm_compute; reflexivity). rewrite E0. reflexivity.
Qed.

(* non-collapsing stores: the representatives of the true extremes *)
Theorem min_built xs s a :
  a_add_list m a_new xs = Some s -> wpos xs -> In a xs -> (forall b, In b xs -> (fst a <= fst b)%Qc) ->
  a_min m s = Some (repr m (fst a)).
Proof.
  intros Hadd Hw Ha Hmin.
  pose proof (min_built_gen Exact Exact xs s a I I Hadd Hw Ha Hmin) as H.
  rewrite (a_add_list_build m xs a_new s Hadd) in H. exact H.
Qed.
Theorem max_built xs s a :
  a_add_list m a_new xs = Some s -> wpos xs -> In a xs -> (forall b, In b xs -> (fst b <= fst a)%Qc) ->
  a_max m s = Some (repr m (fst a)).
Proof.
  intros Hadd Hw Ha Hmax.
  pose proof (max_built_gen Exact Exact xs s a I I Hadd Hw Ha Hmax) as H.
  rewrite (a_add_list_build m xs a_new s Hadd) in H. exact H.
Qed.

Lemma okv_of_built xs s a : a_add_list m a_new xs = Some s -> In a xs -> okv m a.
Proof.
  intros Hadd Ha. destruct (a_add_list_content m mn0 xs a_new s Hadd) as [_ [_ [_ Hok]]].
  rewrite Forall_forall in Hok. exact (Hok a Ha).
Qed.
(* ... hence within alpha of them *)
Corollary min_built_accuracy xs s a alpha :
  a_add_list m a_new xs = Some s -> wpos xs -> In a xs -> (forall b, In b xs -> (fst a <= fst b)%Qc) ->
  (forall x, (am_min m < x)%Qc -> (x <= am_max m)%Qc ->
             (Qcabs (am_value m (am_index m x) - x) <= alpha * x)%Qc) ->
  exists lo, a_min m s = Some lo /\
    (((Qcabs (fst a) <= am_min m)%Qc /\ lo = w0) \/ (Qcabs (lo - fst a) <= alpha * Qcabs (fst a))%Qc).
Proof.
  intros Hadd Hw Ha Hmin Hacc. exists (repr m (fst a)). split; [apply (min_built xs); assumption|].
  exact (repr_accuracy m mn0 alpha a (okv_of_built xs s a Hadd Ha) Hacc).
Qed.
Corollary max_built_accuracy xs s a alpha :
  a_add_list m a_new xs = Some s -> wpos xs -> In a xs -> (forall b, In b xs -> (fst b <= fst a)%Qc) ->
  (forall x, (am_min m < x)%Qc -> (x <= am_max m)%Qc ->
             (Qcabs (am_value m (am_index m x) - x) <= alpha * x)%Qc) ->
  exists hi, a_max m s = Some hi /\
    (((Qcabs (fst a) <= am_min m)%Qc /\ hi = w0) \/ (Qcabs (hi - fst a) <= alpha * Qcabs (fst a))%Qc).
Proof.
  intros Hadd Hw Ha Hmax Hacc. exists (repr m (fst a)). split; [apply (max_built xs); assumption|].
  exact (repr_accuracy m mn0 alpha a (okv_of_built xs s a Hadd Ha) Hacc).
Qed.

(* collapsing stores: the extreme on the side that does not collapse is still exact.  With
   lowest-collapsing stores (Go: LogCollapsingLowestDenseDDSketch) a positive maximum and a negative
   minimum; with highest-collapsing stores a positive minimum and a negative maximum *)
Theorem max_built_lowest np ln xs s a :
  1 <= np -> limit_ok ln ->
  a_add_list m a_new xs = Some s -> wpos xs -> In a xs -> (forall b, In b xs -> (fst b <= fst a)%Qc) ->
  (am_min m < fst a)%Qc ->
  a_max m (a_build m (Lowest np) ln a_new xs) = Some (repr m (fst a)).
Proof.
  intros Hn Ln Hadd Hw Ha Hmax HP. rewrite (max_built_gen (Lowest np) ln xs s a Hn Ln Hadd Hw Ha Hmax).
  assert (C : isP m a = true) by (apply isP_true; exact HP).
  rewrite (repr_c_P _ _ s a C), (repr_P m mn0 a C).
  destruct (max_built_keys xs s a Hadd Hw Ha Hmax) as [[_ K]|[[C' _]|[C' _]]].
  - rewrite clampk_retained; [reflexivity|]. apply retained_max_low; assumption.
  - unfold isZ in C'. rewrite C in C'. discriminate.
  - rewrite (isP_isN m mn0 a C) in C'. discriminate.
Qed.
Theorem min_built_lowest lp nn xs s a :
  limit_ok lp -> 1 <= nn ->
  a_add_list m a_new xs = Some s -> wpos xs -> In a xs -> (forall b, In b xs -> (fst a <= fst b)%Qc) ->
  (fst a < Qcopp (am_min m))%Qc ->
  a_min m (a_build m lp (Lowest nn) a_new xs) = Some (repr m (fst a)).
Proof.
  intros Lp Hn Hadd Hw Ha Hmin HN. rewrite (min_built_gen lp (Lowest nn) xs s a Lp Hn Hadd Hw Ha Hmin).
  assert (C : isN m a = true) by (apply isN_true; exact HN).
  rewrite (repr_c_N _ _ s a C), (repr_N m mn0 a C).
  destruct (min_built_keys xs s a Hadd Hw Ha Hmin) as [[_ K]|[[C' _]|[C' _]]].
  - rewrite clampk_retained; [reflexivity|]. apply retained_max_low; assumption.
  - unfold isZ in C'. rewrite C, andb_false_r in C'. discriminate.
  - rewrite (isP_isN m mn0 a C') in C. discriminate.
Qed.
Theorem min_built_highest np ln xs s a :
  1 <= np -> limit_ok ln ->
  a_add_list m a_new xs = Some s -> wpos xs -> In a xs -> (forall b, In b xs -> (fst a <= fst b)%Qc) ->
  (am_min m < fst a)%Qc ->
  a_min m (a_build m (Highest np) ln a_new xs) = Some (repr m (fst a)).
Proof.
  intros Hn Ln Hadd Hw Ha Hmin HP. rewrite (min_built_gen (Highest np) ln xs s a Hn Ln Hadd Hw Ha Hmin).
  assert (C : isP m a = true) by (apply isP_true; exact HP).
  rewrite (repr_c_P _ _ s a C), (repr_P m mn0 a C).
  destruct (min_built_keys xs s a Hadd Hw Ha Hmin) as [[C' _]|[[C' _]|[_ [_ [_ K]]]]].
  - rewrite (isP_isN m mn0 a C) in C'. discriminate.
  - unfold isZ in C'. rewrite C in C'. discriminate.
  - rewrite clampk_retained; [reflexivity|]. apply retained_min_high; assumption.
Qed.
Theorem max_built_highest lp nn xs s a :
  limit_ok lp -> 1 <= nn ->
  a_add_list m a_new xs = Some s -> wpos xs -> In a xs -> (forall b, In b xs -> (fst b <= fst a)%Qc) ->
  (fst a < Qcopp (am_min m))%Qc ->
  a_max m (a_build m lp (Highest nn) a_new xs) = Some (repr m (fst a)).
Proof.
  intros Lp Hn Hadd Hw Ha Hmax HN. rewrite (max_built_gen lp (Highest nn) xs s a Lp Hn Hadd Hw Ha Hmax).
  assert (C : isN m a = true) by (apply isN_true; exact HN).
  rewrite (repr_c_N _ _ s a C), (repr_N m mn0 a C).
  destruct (max_built_keys xs s a Hadd Hw Ha Hmax) as [[C' _]|[[C' _]|[_ [_ [_ K]]]]].
  - rewrite (isP_isN m mn0 a C') in C. discriminate.
  - unfold isZ in C'. rewrite C, andb_false_r in C'. discriminate.
  - rewrite clampk_retained; [reflexivity|]. apply retained_min_high; assumption.
Qed.
End Extremes.

(* ================================================================== *)
(** * 4. W2: the value premises restricted to the keys of the sketch   *)
(* ================================================================== *)
(* [forall i : Z, 0 < am_value m i] and monotonicity of [am_value m] on all of Z do not hold for the
   executed mappings (Value(i) is 0 / +Inf outside the indexable index range).  The proofs only ever
   look at keys the sketch holds. *)
Definition akey (s : asketch) (k : Z) : Prop :=
  In k (map fst (a_pos s)) \/ In k (map fst (a_neg s)).
Definition vals_pos_on (m : amapping) (s : asketch) : Prop :=
  forall k, akey s k -> (w0 < am_value m k)%Qc.
Definition vals_nonneg_on (m : amapping) (s : asketch) : Prop :=
  forall k, akey s k -> (w0 <= am_value m k)%Qc.
Definition vals_mono_on (m : amapping) (s : asketch) : Prop :=
  forall i j, akey s i -> akey s j -> i <= j -> (am_value m i <= am_value m j)%Qc.
(* the same over an index interval containing the keys *)
Definition keys_within (s : asketch) (lo hi : Z) : Prop := forall k, akey s k -> lo <= k <= hi.
Lemma vals_pos_on_range m s lo hi :
  keys_within s lo hi -> (forall i, lo <= i <= hi -> (w0 < am_value m i)%Qc) -> vals_pos_on m s.
Proof. intros Hk H k Ak. apply H. apply Hk. exact Ak. Qed.
Lemma vals_mono_on_range m s lo hi :
  keys_within s lo hi ->
  (forall i j, lo <= i -> i <= j -> j <= hi -> (am_value m i <= am_value m j)%Qc) -> vals_mono_on m s.
Proof. intros Hk H i j Ai Aj Hij. apply H; [apply (Hk i Ai)|exact Hij|apply (Hk j Aj)]. Qed.
Lemma vals_pos_nonneg_on m s : vals_pos_on m s -> vals_nonneg_on m s.
Proof. intros H k Ak. specialize (H k Ak). wlra. Qed.

Lemma min_key_In b k : min_key b = Some k -> In k (map fst b).
Proof. destruct b as [|[k' w] tl]; [discriminate|]. cbn [min_key]. intros H. injection H as <-. left. reflexivity. Qed.
Lemma max_key_In b k : max_key b = Some k -> In k (map fst b).
Proof.
  induction b as [|[k1 w1] tl IH]; [discriminate|]. destruct tl as [|[k2 w2] tl].
  - rewrite max_key_single. intros H. injection H as <-. left. reflexivity.
  - rewrite max_key_cons2. intros H. right. apply IH. exact H.
Qed.
Lemma kar_In b r k : key_at_rank b r = Some k -> In k (map fst b).
Proof. apply karf_In. Qed.

Section OnKeys.
Variable rnd : Qc -> Qc.
Variable m : amapping.
Hypothesis rnd_mono : forall x y : Qc, (x <= y)%Qc -> (rnd x <= rnd y)%Qc.
Hypothesis rnd_0 : rnd w0 = w0.
Hypothesis rnd_idem : forall x : Qc, rnd (rnd x) = rnd x.

Theorem a_quantile_ge_min_on_keys s q y lo :
  vals_pos_on m s -> vals_mono_on m s ->
  awf s -> a_quantile rnd m s q = Some y -> a_min m s = Some lo -> (lo <= y)%Qc.
Proof using rnd_0.
  intros val_pos val_mono (Hp & Hn & Pp & Pn & Hz) Hy Hlo.
  apply a_quantile_cases in Hy. destruct Hy as [Hc Hb].
  unfold a_min in Hlo. pose proof (a_rank_nonneg rnd s q) as R0.
  destruct Hb as [k H1 Hk Ey|H1 H2 Ey|k H1 H2 Hk Ey]; subst y.
  - destruct (kar_between _ _ _ Hn Hk) as (mn & mx & Emn & Emx & Hle).
    rewrite Emx in Hlo. injection Hlo as Hlo. subst lo.
    assert (Ak : akey s k) by (right; eapply kar_In; exact Hk).
    assert (Ax : akey s mx) by (right; apply max_key_In; exact Emx).
    pose proof (val_mono k mx Ak Ax (proj2 Hle)) as Hv. qlra.
  - destruct (max_key (a_neg s)) as [mx|] eqn:Emx.
    + injection Hlo as Hlo. subst lo.
      assert (Ax : akey s mx) by (right; apply max_key_In; exact Emx).
      pose proof (val_pos mx Ax) as Hv. qlra.
    + destruct (wltb_spec w0 (a_zero s)) as [Hz'|Hz'].
      * injection Hlo as Hlo. subst lo. wlra.
      * exfalso. apply max_key_none in Emx. rewrite Emx, total_nil in H2.
        assert (E0 : a_zero s = w0) by (apply Qcnot_lt_le in Hz'; wlra).
        rewrite E0, wadd_0_l, rnd_0 in H2. wlra.
  - destruct (kar_between _ _ _ Hp Hk) as (mn & mx & Emn & Emx & Hle).
    assert (Ak : akey s k) by (left; eapply kar_In; exact Hk).
    pose proof (val_pos k Ak) as Hvk.
    destruct (max_key (a_neg s)) as [nx|] eqn:Enx.
    + injection Hlo as Hlo. subst lo.
      assert (Ax : akey s nx) by (right; apply max_key_In; exact Enx).
      pose proof (val_pos nx Ax) as Hv. qlra.
    + destruct (wltb_spec w0 (a_zero s)) as [Hz'|Hz'].
      * injection Hlo as Hlo. subst lo. wlra.
      * rewrite Emn in Hlo. injection Hlo as Hlo. subst lo.
        assert (An : akey s mn) by (left; apply min_key_In; exact Emn).
        apply val_mono; [exact An|exact Ak|exact (proj1 Hle)].
Qed.
Theorem a_quantile_le_max_on_keys s q y hi :
  vals_pos_on m s -> vals_mono_on m s ->
  awf s -> a_quantile rnd m s q = Some y -> a_max m s = Some hi -> (y <= hi)%Qc.
Proof.
  intros val_pos val_mono (Hp & Hn & Pp & Pn & Hz) Hy Hhi.
  apply a_quantile_cases in Hy. destruct Hy as [Hc Hb].
  unfold a_max in Hhi. pose proof (a_rank_nonneg rnd s q) as R0.
  destruct Hb as [k H1 Hk Ey|H1 H2 Ey|k H1 H2 Hk Ey]; subst y.
  - destruct (kar_between _ _ _ Hn Hk) as (mn & mx & Emn & Emx & Hle).
    assert (Ak : akey s k) by (right; eapply kar_In; exact Hk).
    pose proof (val_pos k Ak) as Hvk.
    destruct (max_key (a_pos s)) as [px|] eqn:Epx.
    + injection Hhi as Hhi. subst hi.
      assert (Ax : akey s px) by (left; apply max_key_In; exact Epx).
      pose proof (val_pos px Ax) as Hv. qlra.
    + destruct (wltb_spec w0 (a_zero s)) as [Hz'|Hz'].
      * injection Hhi as Hhi. subst hi. qlra.
      * rewrite Emn in Hhi. injection Hhi as Hhi. subst hi.
        assert (An : akey s mn) by (right; apply min_key_In; exact Emn).
        pose proof (val_mono mn k An Ak (proj1 Hle)) as Hv. qlra.
  - destruct (max_key (a_pos s)) as [px|] eqn:Epx.
    + injection Hhi as Hhi. subst hi.
      assert (Ax : akey s px) by (left; apply max_key_In; exact Epx).
      pose proof (val_pos px Ax) as Hv. wlra.
    + destruct (wltb_spec w0 (a_zero s)) as [Hz'|Hz'].
      * injection Hhi as Hhi. subst hi. wlra.
      * exfalso. assert (E0 : a_zero s = w0) by (apply Qcnot_lt_le in Hz'; wlra).
        rewrite E0, wadd_0_l in H2. apply rnd_mono in H1. rewrite (a_rank_fix rnd rnd_0 rnd_idem) in H1.
        exact (Qclt_not_le _ _ H2 H1).
  - destruct (kar_between _ _ _ Hp Hk) as (mn & mx & Emn & Emx & Hle).
    rewrite Emx in Hhi. injection Hhi as Hhi. subst hi.
    assert (Ak : akey s k) by (left; eapply kar_In; exact Hk).
    assert (Ax : akey s mx) by (left; apply max_key_In; exact Emx).
    apply val_mono; [exact Ak|exact Ax|exact (proj2 Hle)].
Qed.
Theorem a_quantile_bounds_on_keys s q y lo hi :
  vals_pos_on m s -> vals_mono_on m s ->
  awf s -> a_quantile rnd m s q = Some y -> a_min m s = Some lo -> a_max m s = Some hi ->
  (lo <= y <= hi)%Qc.
Proof.
  intros Hv Hvm Hs Hy Hlo Hhi.
  split; [eapply a_quantile_ge_min_on_keys|eapply a_quantile_le_max_on_keys]; eassumption.
Qed.
Theorem a_quantile_mono_on_keys s q1 q2 y1 y2 :
  vals_pos_on m s -> vals_mono_on m s ->
  awf s -> (w0 <= q1)%Qc -> (q1 <= q2)%Qc ->
  a_quantile rnd m s q1 = Some y1 -> a_quantile rnd m s q2 = Some y2 -> (y1 <= y2)%Qc.
Proof using rnd_mono rnd_0.
  intros val_pos val_mono (Hp & Hn & Pp & Pn & Hz) H0 Hq Hy1 Hy2.
  apply a_quantile_cases in Hy1. destruct Hy1 as [_ Hb1].
  apply a_quantile_cases in Hy2. destruct Hy2 as [_ Hb2].
  pose proof (a_rank_mono rnd rnd_mono rnd_0 s q1 q2 H0 Hq) as Hr.
  destruct Hb1 as [k1 A1 K1 E1|A1 A2 E1|k1 A1 A2 K1 E1];
    destruct Hb2 as [k2 B1 K2 E2|B1 B2 E2|k2 B1 B2 K2 E2]; subst y1 y2.
  - assert (Hn12 : (nrank rnd s q2 <= nrank rnd s q1)%Qc).
    { unfold nrank. apply rnd_mono. wlra. }
    pose proof (key_at_rank_mono _ _ _ _ _ Hn Hn12 K2 K1) as Hk.
    assert (Ak1 : akey s k1) by (right; eapply kar_In; exact K1).
    assert (Ak2 : akey s k2) by (right; eapply kar_In; exact K2).
    pose proof (val_mono k2 k1 Ak2 Ak1 Hk) as Hv. qlra.
  - assert (Ak1 : akey s k1) by (right; eapply kar_In; exact K1).
    pose proof (val_pos k1 Ak1) as Hv. qlra.
  - assert (Ak1 : akey s k1) by (right; eapply kar_In; exact K1).
    assert (Ak2 : akey s k2) by (left; eapply kar_In; exact K2).
    pose proof (val_pos k1 Ak1) as Hv1. pose proof (val_pos k2 Ak2) as Hv2. qlra.
  - exfalso. wlra.
  - wlra.
  - assert (Ak2 : akey s k2) by (left; eapply kar_In; exact K2).
    pose proof (val_pos k2 Ak2) as Hv2. wlra.
  - exfalso. wlra.
  - exfalso. wlra.
  - assert (Hp12 : (prank rnd s q1 <= prank rnd s q2)%Qc).
    { unfold prank. apply rnd_mono.
      assert (Hi : (rnd (wsub (a_rank rnd s q1) (a_zero s)) <= rnd (wsub (a_rank rnd s q2) (a_zero s)))%Qc)
        by (apply rnd_mono; wlra).
      wlra. }
    pose proof (key_at_rank_mono _ _ _ _ _ Hp Hp12 K1 K2) as Hk.
    assert (Ak1 : akey s k1) by (left; eapply kar_In; exact K1).
    assert (Ak2 : akey s k2) by (left; eapply kar_In; exact K2).
    apply val_mono; assumption.
Qed.
End OnKeys.

(* ForEach / GetSum *)
Theorem a_items_zero_on_keys m s :
  vals_pos_on m s -> ((exists w, In (w0, w) (a_items m s)) <-> a_zero s <> w0).
Proof.
  intros Hv. unfold a_items. split.
  - intros [w Hin]. apply in_app_or in Hin. destruct Hin as [Hin|Hin].
    + destruct (weqb_spec (a_zero s) w0) as [E|E]; [contradiction|exact E].
    + exfalso. apply in_app_or in Hin. destruct Hin as [Hin|Hin];
        apply in_map_iff in Hin; destruct Hin as [[k c] [E Hk]]; apply (f_equal fst) in E; cbn [fst snd] in E.
      * assert (Ak : akey s k) by (left; apply in_map_iff; exists (k, c); split; [reflexivity|exact Hk]).
        pose proof (Hv k Ak) as Hk'. qlra.
      * assert (Ak : akey s k) by (right; apply in_map_iff; exists (k, c); split; [reflexivity|exact Hk]).
        pose proof (Hv k Ak) as Hk'. qlra.
  - intros Hz. exists (a_zero s). apply in_or_app. left.
    destruct (weqb_spec (a_zero s) w0) as [E|E]; [contradiction|left; reflexivity].
Qed.
Theorem a_items_zero_weight_on_keys m s w :
  vals_pos_on m s -> In (w0, w) (a_items m s) -> w = a_zero s.
Proof.
  intros Hv Hin. unfold a_items in Hin. apply in_app_or in Hin. destruct Hin as [Hin|Hin].
  - destruct (weqb_spec (a_zero s) w0) as [E|E]; [contradiction|].
    destruct Hin as [Hin|[]]. injection Hin as Hin. symmetry. exact Hin.
  - exfalso. apply in_app_or in Hin. destruct Hin as [Hin|Hin];
      apply in_map_iff in Hin; destruct Hin as [[k c] [E Hk]]; apply (f_equal fst) in E; cbn [fst snd] in E.
    + assert (Ak : akey s k) by (left; apply in_map_iff; exists (k, c); split; [reflexivity|exact Hk]).
      pose proof (Hv k Ak) as Hk'. qlra.
    + assert (Ak : akey s k) by (right; apply in_map_iff; exists (k, c); split; [reflexivity|exact Hk]).
      pose proof (Hv k Ak) as Hk'. qlra.
Qed.

(* C11: every absorbed value is represented between a_min and a_max; premises on the keys only *)
Section BetweenOnKeys.
Variable m : amapping.
Hypothesis mn0 : (w0 <= am_min m)%Qc.

Lemma absorbed_between_min_max_on_keys xs s a :
  vals_mono_on m s -> vals_nonneg_on m s ->
  a_add_list m a_new xs = Some s -> wpos xs -> In a xs ->
  exists lo hi, a_min m s = Some lo /\ a_max m s = Some hi /\
    (lo <= repr m (fst a))%Qc /\ (repr m (fst a) <= hi)%Qc.
Proof.
  intros value_mono value_nonneg Hadd Hw Hin.
  destruct (sketch_content m mn0 xs xs s Hadd (Permutation_refl xs) Hw) as [CP [CN [CZ _]]].
  pose proof (wpos_filter (isP m) xs Hw) as HwP. pose proof (wpos_filter (isN m) xs Hw) as HwN.
  pose proof (wpos_filter (isZ m) xs Hw) as HwZ.
  assert (WFP : wf (a_pos s) = true).
  { rewrite CP. apply wf_bins_of_list. apply (wpos_nonneg_map (fun a => am_index m (fst a))). exact HwP. }
  assert (WFN : wf (a_neg s) = true).
  { rewrite CN. apply wf_bins_of_list. apply (wpos_nonneg_map (fun a => am_index m (Qcopp (fst a)))). exact HwN. }
  assert (KP : forall b, In b xs -> isP m b = true -> get (a_pos s) (am_index m (fst b)) <> w0).
  { intros b Hb Pb. rewrite CP. apply (key_present (fun a => am_index m (fst a)) _ b HwP).
    apply filter_In. split; assumption. }
  assert (KN : forall b, In b xs -> isN m b = true -> get (a_neg s) (am_index m (Qcopp (fst b))) <> w0).
  { intros b Hb Nb. rewrite CN. apply (key_present (fun a => am_index m (Qcopp (fst a))) _ b HwN).
    apply filter_In. split; assumption. }
  assert (AP : forall b, In b xs -> isP m b = true -> akey s (am_index m (fst b))).
  { intros b Hb Pb. left. apply get_neq0_In. apply KP; assumption. }
  assert (AN : forall b, In b xs -> isN m b = true -> akey s (am_index m (Qcopp (fst b)))).
  { intros b Hb Nb. right. apply get_neq0_In. apply KN; assumption. }
  assert (ZP : forall b, In b xs -> isZ m b = true -> (w0 < a_zero s)%Qc).
  { intros b Hb Zb. rewrite CZ. apply wsum_pos; [exact HwZ|]. intros E.
    assert (Hf : In b (filter (isZ m) xs)) by (apply filter_In; split; assumption).
    rewrite E in Hf. contradiction. }
  assert (Hcls : (isN m a = true /\ repr m (fst a) = Qcopp (am_value m (am_index m (Qcopp (fst a))))) \/
                 (isZ m a = true /\ repr m (fst a) = w0) \/
                 (isP m a = true /\ repr m (fst a) = am_value m (am_index m (fst a)))).
  { destruct (isN m a) eqn:EN; [left; split; [reflexivity|apply repr_N; assumption]|].
    destruct (isP m a) eqn:EP; [right; right; split; [reflexivity|apply repr_P; assumption]|].
    right; left. pose proof (isZ_of m a EN EP) as EZ. split; [exact EZ|apply repr_Z; exact EZ]. }
  assert (Hlo : exists lo, a_min m s = Some lo /\ (lo <= repr m (fst a))%Qc).
  { unfold a_min. destruct (max_key (a_neg s)) as [kmax|] eqn:EM.
    - exists (Qcopp (am_value m kmax)). split; [reflexivity|].
      assert (Ax : akey s kmax) by (right; apply max_key_In; exact EM).
      pose proof (value_nonneg kmax Ax) as V0.
      destruct Hcls as [[Ca ->]|[[Ca ->]|[Ca ->]]].
      + pose proof (max_key_ge _ kmax _ WFN EM (KN a Hin Ca)) as Hle.
        pose proof (value_mono _ _ (AN a Hin Ca) Ax Hle). qlra.
      + qlra.
      + pose proof (value_nonneg _ (AP a Hin Ca)). qlra.
    - apply max_key_none in EM.
      assert (HnoN : isN m a = true -> False).
      { intros Ca. apply (KN a Hin Ca). rewrite EM. reflexivity. }
      destruct (wltb_spec w0 (a_zero s)) as [E0|E0].
      + exists w0. split; [reflexivity|].
        destruct Hcls as [[Ca _]|[[Ca ->]|[Ca ->]]]; [exfalso; auto|qlra|].
        exact (value_nonneg _ (AP a Hin Ca)).
      + destruct Hcls as [[Ca _]|[[Ca _]|[Ca ->]]];
          [exfalso; auto|exfalso; apply E0; eapply ZP; eassumption|].
        destruct (min_key (a_pos s)) as [kmin|] eqn:Em.
        * exists (am_value m kmin). split; [reflexivity|].
          apply value_mono; [left; apply min_key_In; exact Em|exact (AP a Hin Ca)|].
          apply (min_key_le _ kmin _ WFP Em (KP a Hin Ca)).
        * exfalso. apply min_key_none in Em. apply (KP a Hin Ca). rewrite Em. reflexivity. }
  assert (Hhi : exists hi, a_max m s = Some hi /\ (repr m (fst a) <= hi)%Qc).
  { unfold a_max. destruct (max_key (a_pos s)) as [kmax|] eqn:EM.
    - exists (am_value m kmax). split; [reflexivity|].
      assert (Ax : akey s kmax) by (left; apply max_key_In; exact EM).
      pose proof (value_nonneg kmax Ax) as V0.
      destruct Hcls as [[Ca ->]|[[Ca ->]|[Ca ->]]].
      + pose proof (value_nonneg _ (AN a Hin Ca)). qlra.
      + qlra.
      + apply value_mono; [exact (AP a Hin Ca)|exact Ax|].
        apply (max_key_ge _ kmax _ WFP EM (KP a Hin Ca)).
    - apply max_key_none in EM.
      assert (HnoP : isP m a = true -> False).
      { intros Ca. apply (KP a Hin Ca). rewrite EM. reflexivity. }
      destruct (wltb_spec w0 (a_zero s)) as [E0|E0].
      + exists w0. split; [reflexivity|].
        destruct Hcls as [[Ca ->]|[[Ca ->]|[Ca _]]]; [|qlra|exfalso; auto].
        pose proof (value_nonneg _ (AN a Hin Ca)). qlra.
      + destruct Hcls as [[Ca ->]|[[Ca _]|[Ca _]]];
          [|exfalso; apply E0; eapply ZP; eassumption|exfalso; auto].
        destruct (min_key (a_neg s)) as [kmin|] eqn:Em.
        * exists (Qcopp (am_value m kmin)). split; [reflexivity|].
          pose proof (min_key_le _ kmin _ WFN Em (KN a Hin Ca)) as Hle.
          assert (An : akey s kmin) by (right; apply min_key_In; exact Em).
          pose proof (value_mono _ _ An (AN a Hin Ca) Hle). qlra.
        * exfalso. apply min_key_none in Em. apply (KN a Hin Ca). rewrite Em. reflexivity. }
  destruct Hlo as [lo [L1 L2]]. destruct Hhi as [hi [H1 H2]].
  exists lo, hi. repeat split; assumption.
Qed.

Hypothesis idx_mono :
  forall x y, (am_min m < x)%Qc -> (x <= y)%Qc -> (y <= am_max m)%Qc -> am_index m x <= am_index m y.

Corollary weighted_quantile_between_on_keys xs ys s q :
  vals_mono_on m s -> vals_nonneg_on m s ->
  a_add_list m a_new xs = Some s -> Permutation xs ys -> StronglySorted vle ys -> wpos ys ->
  ys <> [] -> (w0 <= q)%Qc -> (q <= w1)%Qc ->
  exists lo hi y, a_min m s = Some lo /\ a_max m s = Some hi /\
    a_quantile idr m s q = Some y /\ (lo <= y)%Qc /\ (y <= hi)%Qc.
Proof.
  intros Hvm Hvn Hadd Hperm Hs Hw Hne Hq0 Hq1.
  destruct (weighted_quantile_absorbed m mn0 idx_mono xs ys s q Hadd Hperm Hs Hw Hne Hq0 Hq1) as [a [Ha K]].
  assert (Hwx : wpos xs) by (apply (wpos_perm ys); [apply Permutation_sym; exact Hperm|exact Hw]).
  destruct (absorbed_between_min_max_on_keys xs s a Hvm Hvn Hadd Hwx Ha) as [lo [hi [M1 [M2 [M3 M4]]]]].
  exists lo, hi, (repr m (fst a)). repeat split; assumption.
Qed.
End BetweenOnKeys.

(* ================================================================== *)
(** * 5. C12: GetSum                                                   *)
(* ================================================================== *)
Local Open Scope Qc_scope.

(* sum of value * weight over a list of (value, weight); for a list of items: the true weighted sum *)
Definition isum (l : list (Qc * W)) : Qc := fold_right (fun vw acc => fst vw * snd vw + acc) 0 l.
(* sum of |value| * weight *)
Definition asum (l : list (Qc * W)) : Qc := fold_right (fun vw acc => Qcabs (fst vw) * snd vw + acc) 0 l.
(* sum of g key * weight over a store *)
Definition vsum (g : Z -> Qc) (b : list (Z * W)) : Qc := fold_right (fun kw acc => g (fst kw) * snd kw + acc) 0 b.

Lemma isum_cons v w l : isum ((v, w) :: l) = v * w + isum l.
Proof. reflexivity. Qed.
Lemma isum_app a b : isum (a ++ b) = isum a + isum b.
Proof.
  induction a as [|[v w] a IH]; [cbn [app]; change (isum []) with (Q2Qc 0); ring|].
  cbn [app]. rewrite !isum_cons, IH. ring.
Qed.
Lemma fold_sum_isum (l : list (Qc * W)) acc :
  fold_left (fun acc vw => Qcplus acc (Qcmult (fst vw) (snd vw))) l acc = acc + isum l.
Proof.
  revert acc. induction l as [|[v w] l IH]; intros acc.
  - cbn [fold_left isum fold_right]. ring.
  - cbn [fold_left fst snd]. rewrite IH, isum_cons. ring.
Qed.
Lemma a_sum_isum m s : a_sum m s = isum (a_items m s).
Proof. unfold a_sum. rewrite fold_sum_isum. unfold w0. ring. Qed.
Lemma isum_map_vsum (g : Z -> Qc) b : isum (map (fun kw => (g (fst kw), snd kw)) b) = vsum g b.
Proof.
  induction b as [|[k w] b IH]; [reflexivity|].
  cbn [map fst snd]. rewrite isum_cons, IH. reflexivity.
Qed.
(* GetSum in terms of the two stores: the zero bucket contributes 0 *)
Lemma a_sum_vsum m s :
  a_sum m s = vsum (am_value m) (a_pos s) + vsum (fun k => - am_value m k) (a_neg s).
Proof.
  rewrite a_sum_isum. unfold a_items. rewrite !isum_app.
  rewrite (isum_map_vsum (am_value m)), (isum_map_vsum (fun k => - am_value m k)).
  destruct (weqb (a_zero s) w0).
  - cbn [isum fold_right]. ring.
  - rewrite isum_cons. cbn [isum fold_right]. unfold w0. ring.
Qed.

Lemma vsum_cons g k w tl : vsum g ((k, w) :: tl) = g k * w + vsum g tl.
Proof. reflexivity. Qed.
Lemma vsum_badd g b i (c : Qc) : vsum g (badd b i c) = vsum g b + g i * c.
Proof.
  induction b as [|[k w] tl IH].
  - cbn [badd]. rewrite vsum_cons. cbn [vsum fold_right]. ring.
  - cbn [badd]. destruct (Z.ltb_spec i k) as [H|H].
    + rewrite !vsum_cons. ring.
    + destruct (Z.eqb_spec i k) as [E|E].
      * subst k. rewrite !vsum_cons. unfold wadd. ring.
      * rewrite !vsum_cons, IH. ring.
Qed.
Lemma vsum_badd0 g b i (c : Qc) : vsum g (badd0 b i c) = vsum g b + g i * c.
Proof.
  unfold badd0. destruct (weqb_spec c w0) as [E|E]; [|apply vsum_badd].
  rewrite E. unfold w0. ring.
Qed.

(* the sum of representative * weight *)
Definition rsum (m : amapping) (xs : list item) : Qc :=
  isum (map (fun a : item => (repr m (fst a), snd a)) xs).

Section Sum.
Variable m : amapping.
Hypothesis mn0 : w0 <= am_min m.

Lemma a_sum_add s v c s' :
  a_add m Exact Exact s v c = AAdded s' -> a_sum m s' = a_sum m s + repr m v * c.
Proof.
  rewrite !a_sum_vsum. unfold a_add, sadd. cbn [norm].
  destruct (wltb_spec (am_min m) v) as [E1|E1].
  - destruct (wltb (am_max m) v); [discriminate|]. intros H. injection H as <-. cbn [a_pos a_neg].
    assert (R : repr m v = am_value m (am_index m v)) by (apply (repr_P m mn0 (v, c)); apply isP_true; exact E1).
    rewrite vsum_badd0, R. ring.
  - destruct (wltb_spec v (- am_min m)) as [E3|E3].
    + destruct (wltb v (- am_max m)); [discriminate|]. intros H. injection H as <-. cbn [a_pos a_neg].
      assert (R : repr m v = - am_value m (am_index m (- v))) by (apply (repr_N m mn0 (v, c)); apply isN_true; exact E3).
      rewrite vsum_badd0, R. ring.
    + intros H. injection H as <-. cbn [a_pos a_neg].
      assert (R : repr m v = 0).
      { apply (repr_Z m (v, c)). apply isZ_true. cbn [fst]. split; apply Qcnot_lt_le; assumption. }
      rewrite R. ring.
Qed.
Lemma rsum_cons a xs : rsum m (a :: xs) = repr m (fst a) * snd a + rsum m xs.
Proof. reflexivity. Qed.
(* GetSum of a sketch built by adds = sum over the input of representative * weight *)
Theorem a_sum_add_list xs : forall s s',
  a_add_list m s xs = Some s' -> a_sum m s' = a_sum m s + rsum m xs.
Proof.
  induction xs as [|a xs IH]; intros s s' H.
  - cbn [a_add_list] in H. injection H as <-. unfold rsum. cbn [map isum fold_right]. ring.
  - cbn [a_add_list] in H. destruct (a_add m Exact Exact s (fst a) (snd a)) as [s1| |] eqn:E; try discriminate.
    rewrite (IH s1 s' H), (a_sum_add s (fst a) (snd a) s1 E), rsum_cons. ring.
Qed.
Lemma a_sum_new : a_sum m a_new = 0.
Proof. reflexivity. Qed.
Theorem a_sum_built xs s : a_add_list m a_new xs = Some s -> a_sum m s = rsum m xs.
Proof. intros H. rewrite (a_sum_add_list xs a_new s H), a_sum_new. ring. Qed.

(* a value the accuracy premise speaks about, or an exact zero *)
Definition sum_ok (a : item) : Prop := am_min m < Qcabs (fst a) \/ fst a = 0.

Lemma qmul_le_r' (x y z : Qc) : x <= y -> 0 <= z -> x * z <= y * z.
Proof. intros H Hz. apply Qcmult_le_compat_r; assumption. Qed.

Lemma rsum_bound alpha xs :
  Forall (okv m) xs -> wnonneg xs -> Forall sum_ok xs ->
  (forall x, am_min m < x -> x <= am_max m -> Qcabs (am_value m (am_index m x) - x) <= alpha * x) ->
  Qcabs (rsum m xs - isum xs) <= alpha * asum xs.
Proof.
  intros Hok Hw Hs Hacc. induction xs as [|[x w] xs IH].
  - unfold rsum. cbn [map isum asum fold_right].
    replace (0 - 0) with 0 by ring. replace (alpha * 0) with 0 by ring.
    rewrite (Qcabs_pos 0) by apply Qcle_refl. apply Qcle_refl.
  - inversion Hok as [|? ? Ok1 Ok2]; subst. inversion Hw as [|? ? Hw1 Hw2]; subst.
    inversion Hs as [|? ? Hs1 Hs2]; subst. specialize (IH Ok2 Hw2 Hs2). cbn [snd] in Hw1.
    rewrite rsum_cons, isum_cons. cbn [fst snd].
    change (asum ((x, w) :: xs)) with (Qcabs x * w + asum xs).
    assert (Hitem : Qcabs ((repr m x - x) * w) <= alpha * Qcabs x * w).
    { rewrite Qcabs_Qcmult. rewrite (Qcabs_pos w) by exact Hw1.
      apply qmul_le_r'; [|exact Hw1].
      destruct Hs1 as [Hs1|Hs1]; cbn [fst] in Hs1.
      - destruct (repr_accuracy m mn0 alpha (x, w) Ok1 Hacc) as [[C _]|C]; cbn [fst] in C.
        + exfalso. exact (Qclt_not_le _ _ Hs1 C).
        + exact C.
      - subst x. assert (E : repr m 0 = 0).
        { apply (repr_Z m (0, w)). apply isZ_true. cbn [fst]. split; qlra. }
        rewrite E. replace (0 - 0) with 0 by ring. rewrite (Qcabs_pos 0) by apply Qcle_refl.
        replace (alpha * 0) with 0 by ring. apply Qcle_refl. }
    replace (repr m x * w + rsum m xs - (x * w + isum xs))
      with ((repr m x - x) * w + (rsum m xs - isum xs)) by ring.
    eapply Qcle_trans; [apply Qcabs_triangle|].
    replace (alpha * (Qcabs x * w + asum xs)) with (alpha * Qcabs x * w + alpha * asum xs) by ring.
    apply Qcplus_le_compat; assumption.
Qed.

Theorem sum_accuracy_abs alpha xs s :
  a_add_list m a_new xs = Some s -> wnonneg xs -> (forall a, In a xs -> sum_ok a) ->
  (forall x, am_min m < x -> x <= am_max m -> Qcabs (am_value m (am_index m x) - x) <= alpha * x) ->
  Qcabs (a_sum m s - isum xs) <= alpha * asum xs.
Proof.
  intros Hadd Hw Hs Hacc. rewrite (a_sum_built xs s Hadd).
  destruct (a_add_list_content m mn0 xs a_new s Hadd) as [_ [_ [_ Hok]]].
  apply rsum_bound; try assumption. apply Forall_forall. exact Hs.
Qed.

Lemma asum_nonneg_data xs :
  wnonneg xs -> (forall a, In a xs -> 0 <= fst a) -> asum xs = isum xs /\ 0 <= isum xs.
Proof.
  intros Hw H. induction xs as [|[x w] xs IH].
  - split; [reflexivity|apply Qcle_refl].
  - inversion Hw as [|? ? Hw1 Hw2]; subst. cbn [snd] in Hw1.
    destruct IH as [I1 I2]; [exact Hw2|intros a Ha; apply H; right; exact Ha|].
    assert (Hx : 0 <= x) by (apply (H (x, w)); left; reflexivity).
    rewrite isum_cons. change (asum ((x, w) :: xs)) with (Qcabs x * w + asum xs).
    rewrite (Qcabs_pos x Hx), I1. split; [reflexivity|].
    pose proof (Qcmult_le_compat_r 0 x w Hx Hw1) as Hm. replace (0 * w) with 0 in Hm by ring. qlra.
Qed.
Lemma asum_nonpos_data xs :
  wnonneg xs -> (forall a, In a xs -> fst a <= 0) -> asum xs = - isum xs /\ isum xs <= 0.
Proof.
  intros Hw H. induction xs as [|[x w] xs IH].
  - split; [cbn [asum isum fold_right]; ring|apply Qcle_refl].
  - inversion Hw as [|? ? Hw1 Hw2]; subst. cbn [snd] in Hw1.
    destruct IH as [I1 I2]; [exact Hw2|intros a Ha; apply H; right; exact Ha|].
    assert (Hx : x <= 0) by (apply (H (x, w)); left; reflexivity).
    rewrite isum_cons. change (asum ((x, w) :: xs)) with (Qcabs x * w + asum xs).
    rewrite (Qcabs_neg x Hx), I1. split; [ring|].
    pose proof (Qcmult_le_compat_r x 0 w Hx Hw1) as Hm. replace (0 * w) with 0 in Hm by ring. qlra.
Qed.

(* same-signed data: within alpha of the true sum *)
Theorem sum_accuracy alpha xs s :
  a_add_list m a_new xs = Some s -> wnonneg xs -> (forall a, In a xs -> sum_ok a) ->
  (forall x, am_min m < x -> x <= am_max m -> Qcabs (am_value m (am_index m x) - x) <= alpha * x) ->
  (forall a, In a xs -> 0 <= fst a) \/ (forall a, In a xs -> fst a <= 0) ->
  Qcabs (a_sum m s - isum xs) <= alpha * Qcabs (isum xs).
Proof.
  intros Hadd Hw Hs Hacc Hsign. pose proof (sum_accuracy_abs alpha xs s Hadd Hw Hs Hacc) as H.
  destruct Hsign as [Hp|Hn].
  - destruct (asum_nonneg_data xs Hw Hp) as [E1 E2]. rewrite (Qcabs_pos _ E2). rewrite E1 in H. exact H.
  - destruct (asum_nonpos_data xs Hw Hn) as [E1 E2]. rewrite (Qcabs_neg _ E2). rewrite E1 in H. exact H.
Qed.
End Sum.

(* sign of the sum, value premise on the keys only *)
Lemma vsum_nonneg g b : pos b -> (forall k, In k (map fst b) -> 0 <= g k) -> 0 <= vsum g b.
Proof.
  intros Hp Hg. induction b as [|[k w] b IH]; [apply Qcle_refl|].
  apply pos_cons in Hp. destruct Hp as [Hw Hp]. rewrite vsum_cons.
  assert (Hk : 0 <= g k) by (apply Hg; left; reflexivity).
  assert (IH' : 0 <= vsum g b) by (apply IH; [exact Hp|intros j Hj; apply Hg; right; exact Hj]).
  assert (Hw' : 0 <= w) by (apply Qclt_le_weak; exact Hw).
  pose proof (Qcmult_le_compat_r 0 (g k) w Hk Hw') as Hm. replace (0 * w) with 0 in Hm by ring. qlra.
Qed.
Theorem a_sum_nonneg_on_keys m s :
  vals_nonneg_on m s -> awf s -> a_neg s = [] -> 0 <= a_sum m s.
Proof.
  intros Hv (Hp & Hn & Pp & Pn & Hz) E. rewrite a_sum_vsum, E.
  change (vsum (fun k => - am_value m k) []) with (Q2Qc 0).
  pose proof (vsum_nonneg (am_value m) (a_pos s) Pp) as H.
  assert (H' : 0 <= vsum (am_value m) (a_pos s)) by (apply H; intros k Hk; apply Hv; left; exact Hk).
  qlra.
Qed.
Theorem a_sum_nonpos_on_keys m s :
  vals_nonneg_on m s -> awf s -> a_pos s = [] -> a_sum m s <= 0.
Proof.
  intros Hv (Hp & Hn & Pp & Pn & Hz) E. rewrite a_sum_vsum, E.
  change (vsum (am_value m) []) with (Q2Qc 0).
  assert (Hneg : forall b, vsum (fun k => - am_value m k) b = - vsum (am_value m) b).
  { induction b as [|[k w] b IH]; [cbn [vsum fold_right]; ring|]. rewrite !vsum_cons, IH. ring. }
  rewrite Hneg.
  pose proof (vsum_nonneg (am_value m) (a_neg s) Pn) as H.
  assert (H' : 0 <= vsum (am_value m) (a_neg s)) by (apply H; intros k Hk; apply Hv; right; exact Hk).
  qlra.
Qed.
Local Close Scope Qc_scope.

(* ================================================================== *)
(** * 6. C05: histories on a store of limit l = clamp of the exact history *)
(* ================================================================== *)

(* Layer A histories: weighted adds, merges of arbitrary lists of bins (the content of a store of
   any kind and any limit), reweights, clears *)
Inductive aop := AAddW (i : Z) (c : W) | AMergeL (xs : list (Z * W)) | AReweight (f : W) | AClear.
Definition aop_ok (x : aop) : Prop :=
  match x with
  | AAddW _ c => (w0 <= c)%Qc
  | AMergeL xs => nonneg xs
  | AReweight f => (w0 < f)%Qc
  | AClear => True
  end.
Definition astep (l : limit) (b : bins) (x : aop) : bins :=
  match x with
  | AAddW i c => sadd l b i c
  | AMergeL xs => smerge_list l b xs
  | AReweight f => bscale f b
  | AClear => []
  end.
Definition arun (l : limit) (b : bins) (ops : list aop) : bins := fold_left (astep l) ops b.

Lemma norm_nil l : norm l [] = [].
Proof. destruct l; reflexivity. Qed.
Lemma astep_exact_canon b x :
  wf b = true -> pos b -> aop_ok x -> wf (astep Exact b x) = true /\ pos (astep Exact b x).
Proof.
  intros Hwf Hp Hx. destruct x as [i c|xs|f|]; cbn [astep aop_ok] in *.
  - split; [apply wf_sadd|apply pos_sadd]; assumption.
  - apply wf_pos_smerge_list; assumption.
  - split; [apply wf_bscale|apply pos_bscale]; assumption.
  - split; [reflexivity|constructor].
Qed.
Lemma astep_norm l b x :
  limit_ok l -> wf b = true -> pos b -> aop_ok x ->
  astep l (norm l b) x = norm l (astep Exact b x).
Proof.
  intros Hl Hwf Hp Hx. destruct x as [i c|xs|f|]; cbn [astep aop_ok] in *.
  - rewrite sadd_norm by assumption. reflexivity.
  - rewrite smerge_list_norm by assumption. rewrite smerge_list_exact. reflexivity.
  - symmetry. apply norm_bscale. exact Hx.
  - symmetry. apply norm_nil.
Qed.
Theorem arun_norm l ops : forall b,
  limit_ok l -> wf b = true -> pos b -> Forall aop_ok ops ->
  arun l (norm l b) ops = norm l (arun Exact b ops).
Proof.
  induction ops as [|x ops IH]; intros b Hl Hwf Hp Hops; [reflexivity|].
  inversion Hops as [|? ? Hx Hops']; subst. unfold arun in *. cbn [fold_left].
  rewrite (astep_norm l b x Hl Hwf Hp Hx).
  destruct (astep_exact_canon b x Hwf Hp Hx) as [W1 P1]. apply IH; assumption.
Qed.
Corollary arun_is_norm l ops :
  limit_ok l -> Forall aop_ok ops -> arun l [] ops = norm l (arun Exact [] ops).
Proof.
  intros Hl Hops. rewrite <- (norm_nil l) at 1. apply arun_norm; [exact Hl|reflexivity|constructor|exact Hops].
Qed.
Lemma arun_exact_canon ops : forall b,
  wf b = true -> pos b -> Forall aop_ok ops -> wf (arun Exact b ops) = true /\ pos (arun Exact b ops).
Proof.
  induction ops as [|x ops IH]; intros b Hwf Hp Hops; [split; assumption|].
  inversion Hops as [|? ? Hx Hops']; subst. unfold arun in *. cbn [fold_left].
  destruct (astep_exact_canon b x Hwf Hp Hx) as [W1 P1]. apply IH; assumption.
Qed.

(* the same for the store histories of Store/AnyProofs.v ([sop]: adds, merges whose argument is a
   Layer B store of any of the five kinds, reweights, clears, and the reads) *)
From SK Require Import Store.Any Store.AnyProofs.

Definition aop_of (x : sop) : option aop :=
  match x with
  | OpAddW i c => Some (AAddW i c)
  | OpAdd i => Some (AAddW i w1)
  | OpMerge o => Some (AMergeL (st_abs o))
  | OpReweight w => Some (AReweight w)
  | OpClear => Some AClear
  | _ => None
  end.
Lemma abs_step_astep l b x :
  abs_step l b x = match aop_of x with Some y => astep l b y | None => b end.
Proof. destruct x; reflexivity. Qed.
Lemma aop_of_ok x y : sop_ok x -> aop_of x = Some y -> aop_ok y.
Proof.
  destruct x as [i c|i|o|w| | |r| ]; cbn [sop_ok aop_of]; intros Hx E; try discriminate;
    injection E as <-; cbn [aop_ok].
  - exact (proj2 Hx).
  - apply wleb_le. vm_compute. reflexivity.
  - apply pos_nonneg. apply st_abs_pos. exact Hx.
  - exact Hx.
  - exact I.
Qed.
Theorem abs_run_norm l ops : forall b,
  limit_ok l -> wf b = true -> pos b -> Forall sop_ok ops ->
  abs_run l (norm l b) ops = norm l (abs_run Exact b ops).
Proof.
  induction ops as [|x ops IH]; intros b Hl Hwf Hp Hops; [reflexivity|].
  inversion Hops as [|? ? Hx Hops']; subst. unfold abs_run in *. cbn [fold_left].
  rewrite !abs_step_astep. destruct (aop_of x) as [y|] eqn:E.
  - pose proof (aop_of_ok x y Hx E) as Hy. rewrite (astep_norm l b y Hl Hwf Hp Hy).
    destruct (astep_exact_canon b y Hwf Hp Hy) as [W1 P1]. apply IH; assumption.
  - apply IH; assumption.
Qed.
Corollary abs_run_is_norm l ops :
  limit_ok l -> Forall sop_ok ops -> abs_run l [] ops = norm l (abs_run Exact [] ops).
Proof.
  intros Hl Hops. rewrite <- (norm_nil l) at 1.
  apply abs_run_norm; [exact Hl|reflexivity|constructor|exact Hops].
Qed.
(* with Rf_st_reachable: the content of ANY reachable store is the clamp of the exact content of its
   history, whatever the kinds of the merge arguments *)
Theorem st_reachable_is_norm k ops :
  kind_ok k -> Forall sop_ok ops ->
  exists s, st_run (st_new k) ops = Some s /\ StInv s /\ st_kind s = k /\
            st_abs s = norm (kind_limit k) (abs_run Exact [] ops).
Proof.
  intros Hk Hops. destruct (st_reachable k ops Hk Hops) as (s & E & I' & K & A).
  exists s. split; [exact E|]. split; [exact I'|]. split; [exact K|].
  rewrite A. apply abs_run_is_norm; [apply kind_limit_ok; exact Hk|exact Hops].
Qed.

(* ================================================================== *)
(** * 7. The executed rounding operator; the witness of defect D4      *)
(* ================================================================== *)
(* From here on the float facts of Base/F64Proofs are used: the four stdlib real-number axioms. *)
From SK Require Import Base.F64 Base.F64Proofs Stat.Summary Sketch.Sketch Sketch.RoundingInstance.

(* C12 with rnd := rndQ: no premise on the rounding operator, value premises on the keys *)
Theorem quantile_mono_rndQ_on_keys m s q1 q2 y1 y2 :
  vals_pos_on m s -> vals_mono_on m s ->
  awf s -> (w0 <= q1)%Qc -> (q1 <= q2)%Qc ->
  a_quantile rndQ m s q1 = Some y1 -> a_quantile rndQ m s q2 = Some y2 -> (y1 <= y2)%Qc.
Proof. exact (a_quantile_mono_on_keys rndQ m rndQ_mono rndQ_w0 s q1 q2 y1 y2). Qed.
Theorem quantile_bounds_rndQ_on_keys m s q y lo hi :
  vals_pos_on m s -> vals_mono_on m s ->
  awf s -> a_quantile rndQ m s q = Some y -> a_min m s = Some lo -> a_max m s = Some hi ->
  (lo <= y <= hi)%Qc.
Proof. exact (a_quantile_bounds_on_keys rndQ m rndQ_mono rndQ_w0 rndQ_idem s q y lo hi). Qed.

(* ... and for the executed operator rnd64 on any canonical sketch with dyadic weights *)
Theorem quantile_mono_rnd64_on_keys m s q1 q2 y1 y2 :
  vals_pos_on m s -> vals_mono_on m s ->
  awf s -> dy_sketch s -> small s -> dyadic q1 -> dyadic q2 ->
  (w0 <= q1)%Qc -> (q1 <= q2)%Qc -> (q2 <= w1)%Qc ->
  a_quantile rnd64 m s q1 = Some y1 -> a_quantile rnd64 m s q2 = Some y2 -> (y1 <= y2)%Qc.
Proof.
  intros Hv Hvm Ha Hd Hs D1 D2 H0 H12 H1.
  assert (H1' : (q1 <= w1)%Qc) by (eapply Qcle_trans; eassumption).
  assert (H0' : (w0 <= q2)%Qc) by (eapply Qcle_trans; eassumption).
  rewrite (a_quantile_rnd64_eq_rndQ_awf m s q1 Ha Hd Hs D1 H0 H1').
  rewrite (a_quantile_rnd64_eq_rndQ_awf m s q2 Ha Hd Hs D2 H0' H1).
  exact (quantile_mono_rndQ_on_keys m s q1 q2 y1 y2 Hv Hvm Ha H0 H12).
Qed.
Theorem quantile_bounds_rnd64_on_keys m s q y lo hi :
  vals_pos_on m s -> vals_mono_on m s ->
  awf s -> dy_sketch s -> small s -> dyadic q -> (w0 <= q)%Qc -> (q <= w1)%Qc ->
  a_quantile rnd64 m s q = Some y -> a_min m s = Some lo -> a_max m s = Some hi ->
  (lo <= y <= hi)%Qc.
Proof.
  intros Hv Hvm Ha Hd Hs Dq H0 H1.
  rewrite (a_quantile_rnd64_eq_rndQ_awf m s q Ha Hd Hs Dq H0 H1).
  exact (quantile_bounds_rndQ_on_keys m s q y lo hi Hv Hvm Ha).
Qed.

(* D4.  Before the repair the rank q*(count-1) was used as computed; with a total weight below 1 it is
   negative, hence below the (zero) weight of the empty negative store, and the answer was taken from
   that empty side: the sketch holding the single value 5 with weight 1/2 answered -Value(0) = -1 at
   q = 1/2 (binary64 rounding as executed), outside [min, max] = [5, 5].  The repaired code clamps
   the rank at 0 and answers 5. *)
Definition fx_noD4 : fixes := {| fD4 := false; fD5 := true; fD7 := true |}.
Definition d4_half : f64 := f64_of_bits 4602678819172646912.    (* 0.5 *)
Definition d4_mt : mtable :=
  {| mt_index := fun q => Qnum (this q) / Zpos (Qden (this q)); mt_value := fun i => w_of_Z (Z.max 1 i);
     mt_min := f64_zero; mt_max := f64_pinf |}.
Definition d4_sk : sketch :=
  {| sk_map := ex_mapid; sk_pos := SS [(5, Q2Qc (1 # 2))]; sk_neg := SS []; sk_zero := w0; sk_stats := None |}.
Theorem weighted_quantile_refuted_legacy :
  exists (mt : mtable) (s : sketch) (q : f64),
    q_in_range q = true /\
    plain_count s = Q2Qc (1 # 2) /\
    st_abs (sk_pos s) = [(5, Q2Qc (1 # 2))] /\ st_abs (sk_neg s) = [] /\ sk_zero s = w0 /\
    plain_min mt s = ROk (w_of_Z 5) /\ plain_max mt s = ROk (w_of_Z 5) /\
    snd (plain_quantile rnd64 fx_noD4 mt s q) = ROk (Qcopp (w_of_Z 1)) /\
    snd (plain_quantile rnd64 fx_all mt s q) = ROk (w_of_Z 5) /\
    snd (plain_quantile (fun x => x) fx_noD4 mt s q) = ROk (Qcopp (w_of_Z 1)) /\
    snd (plain_quantile (fun x => x) fx_all mt s q) = ROk (w_of_Z 5).
Proof.
  exists d4_mt, d4_sk, d4_half. vm_compute. repeat split; reflexivity.
Qed.

(* ================================================================== *)
(** * 8. W2 again: the premises over an index interval [lo, hi] holding the keys *)
(* ================================================================== *)
(* the form the executed mappings satisfy: Value is positive and non-decreasing on the index range
   of the indexable values, and every key a sketch holds is the index of an indexable value *)
Theorem a_quantile_bounds_on_range (rnd : Qc -> Qc) m lo hi s q y mn mx :
  (forall x y : Qc, (x <= y)%Qc -> (rnd x <= rnd y)%Qc) -> rnd w0 = w0 ->
  (forall x : Qc, rnd (rnd x) = rnd x) ->
  keys_within s lo hi ->
  (forall i, lo <= i <= hi -> (w0 < am_value m i)%Qc) ->
  (forall i j, lo <= i -> i <= j -> j <= hi -> (am_value m i <= am_value m j)%Qc) ->
  awf s -> a_quantile rnd m s q = Some y -> a_min m s = Some mn -> a_max m s = Some mx ->
  (mn <= y <= mx)%Qc.
Proof.
  intros Rm R0 Ri Hk Hv Hvm.
  exact (a_quantile_bounds_on_keys rnd m Rm R0 Ri s q y mn mx
           (vals_pos_on_range m s lo hi Hk Hv) (vals_mono_on_range m s lo hi Hk Hvm)).
Qed.
Theorem a_quantile_mono_on_range (rnd : Qc -> Qc) m lo hi s q1 q2 y1 y2 :
  (forall x y : Qc, (x <= y)%Qc -> (rnd x <= rnd y)%Qc) -> rnd w0 = w0 ->
  keys_within s lo hi ->
  (forall i, lo <= i <= hi -> (w0 < am_value m i)%Qc) ->
  (forall i j, lo <= i -> i <= j -> j <= hi -> (am_value m i <= am_value m j)%Qc) ->
  awf s -> (w0 <= q1)%Qc -> (q1 <= q2)%Qc ->
  a_quantile rnd m s q1 = Some y1 -> a_quantile rnd m s q2 = Some y2 -> (y1 <= y2)%Qc.
Proof.
  intros Rm R0 Hk Hv Hvm.
  exact (a_quantile_mono_on_keys rnd m Rm R0 s q1 q2 y1 y2
           (vals_pos_on_range m s lo hi Hk Hv) (vals_mono_on_range m s lo hi Hk Hvm)).
Qed.
(* the keys of a sketch built by adds are indexes of accepted values: if the mapping sends the
   indexable values into [lo, hi], the keys lie in [lo, hi] *)
Theorem built_keys_within m xs s lo hi :
  (w0 <= am_min m)%Qc ->
  (forall x, (am_min m < x)%Qc -> (x <= am_max m)%Qc -> lo <= am_index m x <= hi) ->
  a_add_list m a_new xs = Some s -> wpos xs -> keys_within s lo hi.
Proof.
  intros M0 Hidx Hadd Hw k Ak.
  destruct (sketch_content m M0 xs xs s Hadd (Permutation_refl xs) Hw) as [CP [CN [_ Hok]]].
  rewrite Forall_forall in Hok.
  destruct Ak as [Ak|Ak].
  - rewrite CP in Ak.
    assert (Hg : get (bins_of_list (map (kpos m) (filter (isP m) xs))) k <> w0).
    { apply In_get_neq0; [|exact Ak]. apply wf_bins_of_list.
      apply (wpos_nonneg_map (fun a => am_index m (fst a))). apply wpos_filter. exact Hw. }
    destruct (bol_key_in (fun a => am_index m (fst a)) _ k (wpos_filter (isP m) xs Hw) Hg) as [b [Hb <-]].
    apply filter_In in Hb. destruct Hb as [Hb Pb]. apply isP_true in Pb.
    apply Hidx; [exact Pb|]. apply (proj1 (Hok b Hb)). exact Pb.
  - rewrite CN in Ak.
    assert (Hg : get (bins_of_list (map (kneg m) (filter (isN m) xs))) k <> w0).
    { apply In_get_neq0; [|exact Ak]. apply wf_bins_of_list.
      apply (wpos_nonneg_map (fun a => am_index m (Qcopp (fst a)))). apply wpos_filter. exact Hw. }
    destruct (bol_key_in (fun a => am_index m (Qcopp (fst a))) _ k (wpos_filter (isN m) xs Hw) Hg) as [b [Hb <-]].
    apply filter_In in Hb. destruct Hb as [Hb Nb]. apply isN_true in Nb.
    pose proof (proj2 (Hok b Hb) Nb) as Ob. apply Hidx; qlra.
Qed.
