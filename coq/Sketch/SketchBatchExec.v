(* GetValuesAtQuantiles on the EXECUTED sketch: the instantiation of the generic batch theorems
   (Sketch/SketchBatchProofs.v) at [quant := plain_quantile rnd fx mt] and [quant := sk_quantile rnd fx mt].

   The relation up to which the single query is pure:
     Rq s s' := SkInv s /\ SkInv s' /\ sk_same s s' /\ sk_abs s' = sk_abs s /\ sk_stats s' = sk_stats s /\
                answerable (sk_abs s)
   [SkInv] sits inside the relation, so it is reflexive only on sketches with the invariant, and the premise
   [forall s q, R s (fst (quant s q))] of the generic theorems (asked at EVERY s) cannot hold of it on arbitrary
   records: the single query is restricted to the subset type { s | SkInv s /\ answerable (sk_abs s) }, where Rq is
   reflexive and both purity premises hold unconditionally, the generic theorems (batch_ok, batch_err,
   batch_total, batch_keeps) are applied there, and [lift_run] carries the run back to plain sketches.

   [answerable a] : on a non-empty abstraction every q in [0, 1] gets a Layer A answer
   ([a_quantile rnd (am_of mt) a (f2q q) <> None]).  This is the side condition of
   BridgeProofs.observers_eq (the only existing "equal abstractions, equal quantile answers" lemma): when the
   rank arithmetic sends a query to an EMPTY positive store (saturating rounding, Props/Sketch.v
   C12_example_quantile_saturating) the executed answer is the key an empty concrete store hands back, which
   st_key_at_rank_spec does not tie to the abstraction.  It depends on the abstraction only, so it is carried
   by the relation; [answerable_of_rnd] discharges it under the premises of plain_quantile_refines_some
   (rnd monotone, fixing 0, idempotent, separating the count from 0 and from count - 1), [answerable_id] for
   exact rank arithmetic, [answerable_empty] for an empty sketch. *)
From Coq Require Import Bool ZArith QArith Qcanon List.
From SK Require Import Base.Prelude Base.F64 Base.F64Proofs Spec.Bins Spec.BinsProofs Spec.ASketch Store.Any Store.AnyProofs
                       Stat.Summary Sketch.Sketch Sketch.SketchProofs Sketch.RefineProofs Sketch.BridgeProofs
                       Sketch.SketchBatch Sketch.SketchBatchProofs.
Import ListNotations.

Section Exec.
Variable rnd : Qc -> Qc.
Variable fx : fixes.
Variable mt : mtable.

Definition answerable (a : asketch) : Prop :=
  forall q : f64, fle f64_zero q = true -> fle q f64_one = true -> a_count a <> w0 ->
    a_quantile rnd (am_of mt) a (f2q q) <> None.

Definition Rq (s s' : sketch) : Prop :=
  SkInv s /\ SkInv s' /\ sk_same s s' /\ sk_abs s' = sk_abs s /\ sk_stats s' = sk_stats s /\
  answerable (sk_abs s).

Lemma Rq_refl s : SkInv s -> answerable (sk_abs s) -> Rq s s.
Proof. intros I H. unfold Rq. split; [exact I|]. split; [exact I|]. split; [apply sk_same_refl|]. auto. Qed.

Lemma Rq_trans a b c : Rq a b -> Rq b c -> Rq a c.
Proof.
  intros (Ia & Ib & K1 & A1 & S1 & H1) (_ & Ic & K2 & A2 & S2 & _). unfold Rq.
  split; [exact Ia|]. split; [exact Ic|]. split; [eapply sk_same_trans; eassumption|].
  split; [congruence|]. split; [congruence|exact H1].
Qed.

(* ---- the two purity premises, plain variant ---- *)
Lemma plain_quantile_keeps s q : SkInv s -> answerable (sk_abs s) -> Rq s (fst (plain_quantile rnd fx mt s q)).
Proof.
  intros I H. destruct (plain_quantile_pure rnd fx mt s q I) as (I' & K & A & St & _).
  unfold Rq. auto 10.
Qed.

Lemma plain_quantile_keeps_R s s0 q : Rq s0 s -> Rq s (fst (plain_quantile rnd fx mt s q)).
Proof.
  intros (_ & I & _ & A & _ & H). apply plain_quantile_keeps; [exact I|]. rewrite A. exact H.
Qed.

Lemma plain_quantile_respects s s' q :
  fD4 fx = true -> fD5 fx = true -> Rq s s' ->
  snd (plain_quantile rnd fx mt s q) = snd (plain_quantile rnd fx mt s' q).
Proof.
  intros F4 F5 (I & I' & _ & A & _ & H).
  destruct (observers_eq mt s s' I I' (eq_sym A)) as (_ & _ & _ & _ & _ & Hq).
  apply Hq; [exact F4|exact F5|].
  destruct (fle f64_zero q && fle q f64_one) eqn:Eq; [|right; right; reflexivity].
  apply andb_true_iff in Eq. destruct Eq as (Q0 & Q1).
  destruct (weqb_spec (plain_count s) w0) as [Ec|Ec]; [right; left; exact Ec|].
  left. apply H; [exact Q0|exact Q1|]. rewrite <- (plain_count_refines s I). exact Ec.
Qed.

(* ---- the exact variant: same sketch handed back, answer = clamp of the plain answer by the statistics ---- *)
Lemma sk_quantile_fst s q : fst (sk_quantile rnd fx mt s q) = fst (plain_quantile rnd fx mt s q).
Proof. unfold sk_quantile. destruct (plain_quantile rnd fx mt s q) as [s' [v|e|]]; reflexivity. Qed.

Lemma sk_quantile_snd s q :
  snd (sk_quantile rnd fx mt s q) =
  match snd (plain_quantile rnd fx mt s q) with
  | ROk v => ROk (match sk_stats s with Some t => clamp_stats t v | None => FFin v end)
  | RErr e => RErr e
  | RPanic => RPanic
  end.
Proof. unfold sk_quantile. destruct (plain_quantile rnd fx mt s q) as [s' [v|e|]]; reflexivity. Qed.

Lemma sk_quantile_keeps_R s s0 q : Rq s0 s -> Rq s (fst (sk_quantile rnd fx mt s q)).
Proof. rewrite sk_quantile_fst. apply plain_quantile_keeps_R. Qed.

Lemma sk_quantile_respects s s' q :
  fD4 fx = true -> fD5 fx = true -> Rq s s' ->
  snd (sk_quantile rnd fx mt s q) = snd (sk_quantile rnd fx mt s' q).
Proof.
  intros F4 F5 H. rewrite !sk_quantile_snd, (plain_quantile_respects s s' q F4 F5 H).
  destruct H as (_ & _ & _ & _ & St & _). rewrite St. reflexivity.
Qed.

(* ---- lifting a single query to the sketches with the invariant, where the generic theorems apply ----
   The generic theorems ask [forall s q, R s (fst (quant s q))] at EVERY s, which no relation containing
   SkInv satisfies on arbitrary records; so the query is restricted to S' = { s | SkInv s /\ answerable (sk_abs s) },
   the generic theorems are applied there (Rq is reflexive on S'), and the run over S' is the run over
   sketches ([lift_run]). *)
Definition Pq (s : sketch) : Prop := SkInv s /\ answerable (sk_abs s).
Lemma Rq_Pq_r s s' : Rq s s' -> Pq s'.
Proof. intros (_ & I & _ & A & _ & H). split; [exact I|]. rewrite A. exact H. Qed.

Section Lift.
Context {A : Type}.
Variable quant : sketch -> f64 -> sketch * result A.
Hypothesis quant_keeps : forall s q, Pq s -> Rq s (fst (quant s q)).
Hypothesis quant_respects : forall s s' q, Rq s s' -> snd (quant s q) = snd (quant s' q).

Definition S' : Type := { s : sketch | Pq s }.
Definition quant' (x : S') (q : f64) : S' * result A :=
  (exist Pq (fst (quant (proj1_sig x) q)) (Rq_Pq_r _ _ (quant_keeps (proj1_sig x) q (proj2_sig x))),
   snd (quant (proj1_sig x) q)).
Definition R' (x y : S') : Prop := Rq (proj1_sig x) (proj1_sig y).

Lemma R'_refl x : R' x x.
Proof. destruct x as [s (I & H)]. unfold R'. cbn [proj1_sig]. now apply Rq_refl. Qed.
Lemma R'_trans a b c : R' a b -> R' b c -> R' a c.
Proof. unfold R'. apply Rq_trans. Qed.
Lemma quant'_keeps x q : R' x (fst (quant' x q)).
Proof. unfold R', quant'. cbn [fst proj1_sig]. apply quant_keeps. exact (proj2_sig x). Qed.
Lemma quant'_respects x y q : R' x y -> snd (quant' x q) = snd (quant' y q).
Proof. unfold R', quant'. cbn [snd]. apply quant_respects. Qed.

Lemma lift_run (qs : list f64) : forall x : S',
  fst (quantiles_with quant (proj1_sig x) qs) = proj1_sig (fst (quantiles_with quant' x qs)) /\
  snd (quantiles_with quant (proj1_sig x) qs) = snd (quantiles_with quant' x qs).
Proof.
  induction qs as [|q tl IH]; intros x; cbn [quantiles_with]; [split; reflexivity|].
  assert (E1 : proj1_sig (fst (quant' x q)) = fst (quant (proj1_sig x) q)) by reflexivity.
  assert (E2 : snd (quant' x q) = snd (quant (proj1_sig x) q)) by reflexivity.
  destruct (quant' x q) as [y r']. destruct (quant (proj1_sig x) q) as [s' r]. cbn [fst snd] in E1, E2. subst s' r'.
  destruct r as [v|e|]; [|split; reflexivity|split; reflexivity].
  destruct (IH y) as (I1 & I2).
  destruct (quantiles_with quant' y tl) as [y' r1]. destruct (quantiles_with quant (proj1_sig y) tl) as [s1 r2].
  cbn [fst snd] in *. subst s1 r2. split; reflexivity.
Qed.

Theorem lift_answers s qs vs : Pq s ->
  snd (quantiles_with quant s qs) = ROk vs -> Forall2 (fun q v => snd (quant s q) = ROk v) qs vs.
Proof.
  intros Hs E. destruct (lift_run qs (exist Pq s Hs)) as (_ & E2). cbn [proj1_sig] in E2.
  set (x := exist Pq s Hs : S') in *. rewrite E2 in E.
  exact (batch_ok quant' R' R'_trans quant'_keeps quant'_respects qs x x vs (R'_refl x) E).
Qed.

Theorem lift_refused s qs e : Pq s ->
  snd (quantiles_with quant s qs) = RErr e ->
  exists pre q post, qs = pre ++ q :: post /\ snd (quant s q) = RErr e /\
                     Forall (fun q' => exists v, snd (quant s q') = ROk v) pre.
Proof.
  intros Hs E. destruct (lift_run qs (exist Pq s Hs)) as (_ & E2). cbn [proj1_sig] in E2.
  set (x := exist Pq s Hs : S') in *. rewrite E2 in E.
  exact (batch_err quant' R' R'_trans quant'_keeps quant'_respects qs x x e (R'_refl x) E).
Qed.

Theorem lift_total s qs : Pq s ->
  Forall (fun q => exists v, snd (quant s q) = ROk v) qs -> exists vs, snd (quantiles_with quant s qs) = ROk vs.
Proof.
  intros Hs F. destruct (lift_run qs (exist Pq s Hs)) as (_ & E2). cbn [proj1_sig] in E2.
  set (x := exist Pq s Hs : S') in *. rewrite E2.
  exact (batch_total quant' R' R'_trans quant'_keeps quant'_respects qs x x (R'_refl x) F).
Qed.

Theorem lift_keeps s qs : Pq s -> Rq s (fst (quantiles_with quant s qs)).
Proof.
  intros Hs. destruct (lift_run qs (exist Pq s Hs)) as (E1 & _). cbn [proj1_sig] in E1.
  set (x := exist Pq s Hs : S') in *. rewrite E1.
  exact (batch_keeps quant' R' R'_refl R'_trans quant'_keeps qs x).
Qed.
End Lift.

(* ---- the batch theorems on the executed sketch ---- *)
Section Batch.
Hypothesis F4 : fD4 fx = true.
Hypothesis F5 : fD5 fx = true.

Let keepsP : forall s q, Pq s -> Rq s (fst (plain_quantile rnd fx mt s q)) :=
  fun s q H => plain_quantile_keeps s q (proj1 H) (proj2 H).
Let respectsP : forall s s' q, Rq s s' -> snd (plain_quantile rnd fx mt s q) = snd (plain_quantile rnd fx mt s' q) :=
  fun s s' q => plain_quantile_respects s s' q F4 F5.
Let keepsS : forall s q, Pq s -> Rq s (fst (sk_quantile rnd fx mt s q)).
Proof. intros s q H. rewrite sk_quantile_fst. exact (keepsP s q H). Defined.
Let respectsS : forall s s' q, Rq s s' -> snd (sk_quantile rnd fx mt s q) = snd (sk_quantile rnd fx mt s' q) :=
  fun s s' q => sk_quantile_respects s s' q F4 F5.

Theorem batch_exec_answers s qs vs :
  SkInv s -> answerable (sk_abs s) ->
  snd (quantiles_with (plain_quantile rnd fx mt) s qs) = ROk vs ->
  Forall2 (fun q v => snd (plain_quantile rnd fx mt s q) = ROk v) qs vs.
Proof. intros I H. exact (lift_answers _ keepsP respectsP s qs vs (conj I H)). Qed.

Theorem batch_exec_refused s qs e :
  SkInv s -> answerable (sk_abs s) ->
  snd (quantiles_with (plain_quantile rnd fx mt) s qs) = RErr e ->
  exists pre q post, qs = pre ++ q :: post /\ snd (plain_quantile rnd fx mt s q) = RErr e /\
                     Forall (fun q' => exists v, snd (plain_quantile rnd fx mt s q') = ROk v) pre.
Proof. intros I H. exact (lift_refused _ keepsP respectsP s qs e (conj I H)). Qed.

Theorem batch_exec_total s qs :
  SkInv s -> answerable (sk_abs s) ->
  Forall (fun q => exists v, snd (plain_quantile rnd fx mt s q) = ROk v) qs ->
  exists vs, snd (quantiles_with (plain_quantile rnd fx mt) s qs) = ROk vs.
Proof. intros I H. exact (lift_total _ keepsP respectsP s qs (conj I H)). Qed.

Theorem batch_exec_keeps s qs :
  SkInv s -> answerable (sk_abs s) ->
  let s' := fst (quantiles_with (plain_quantile rnd fx mt) s qs) in
  SkInv s' /\ sk_same s s' /\ sk_abs s' = sk_abs s /\ sk_stats s' = sk_stats s.
Proof.
  intros I H. destruct (lift_keeps _ keepsP s qs (conj I H)) as (_ & I' & K & A & St & _). auto.
Qed.

(* never a panic *)
Theorem batch_exec_no_panic (s : sketch) (qs : list f64) :
  snd (quantiles_with (plain_quantile rnd fx mt) s qs) <> RPanic.
Proof.
  revert s. induction qs as [|q tl IH]; intros s; cbn [quantiles_with]; [discriminate|].
  pose proof (plain_quantile_no_panic rnd fx mt s q) as N.
  destruct (plain_quantile rnd fx mt s q) as [s' [v|e|]]; cbn [snd] in *; [|discriminate|congruence].
  pose proof (IH s') as N'. destruct (quantiles_with (plain_quantile rnd fx mt) s' tl) as [s'' [vs|e|]];
    cbn [snd] in *; [discriminate|discriminate|congruence].
Qed.

(* the exact variant (answers clamped into [min, max] of the statistics) *)
Theorem batch_exec_answers_sk s qs vs :
  SkInv s -> answerable (sk_abs s) ->
  snd (quantiles_with (sk_quantile rnd fx mt) s qs) = ROk vs ->
  Forall2 (fun q v => snd (sk_quantile rnd fx mt s q) = ROk v) qs vs.
Proof. intros I H. exact (lift_answers _ keepsS respectsS s qs vs (conj I H)). Qed.

Theorem batch_exec_refused_sk s qs e :
  SkInv s -> answerable (sk_abs s) ->
  snd (quantiles_with (sk_quantile rnd fx mt) s qs) = RErr e ->
  exists pre q post, qs = pre ++ q :: post /\ snd (sk_quantile rnd fx mt s q) = RErr e /\
                     Forall (fun q' => exists v, snd (sk_quantile rnd fx mt s q') = ROk v) pre.
Proof. intros I H. exact (lift_refused _ keepsS respectsS s qs e (conj I H)). Qed.

Theorem batch_exec_total_sk s qs :
  SkInv s -> answerable (sk_abs s) ->
  Forall (fun q => exists v, snd (sk_quantile rnd fx mt s q) = ROk v) qs ->
  exists vs, snd (quantiles_with (sk_quantile rnd fx mt) s qs) = ROk vs.
Proof. intros I H. exact (lift_total _ keepsS respectsS s qs (conj I H)). Qed.

Theorem batch_exec_keeps_sk s qs :
  SkInv s -> answerable (sk_abs s) ->
  let s' := fst (quantiles_with (sk_quantile rnd fx mt) s qs) in
  SkInv s' /\ sk_same s s' /\ sk_abs s' = sk_abs s /\ sk_stats s' = sk_stats s.
Proof.
  intros I H. destruct (lift_keeps _ keepsS s qs (conj I H)) as (_ & I' & K & A & St & _). auto.
Qed.
End Batch.

(* ---- discharging [answerable] ---- *)
Theorem answerable_empty a : a_count a = w0 -> answerable a.
Proof. intros E q _ _ N. contradiction. Qed.

Theorem answerable_of_rnd s :
  (forall x y : Qc, (x <= y)%Qc -> (rnd x <= rnd y)%Qc) -> rnd w0 = w0 -> (forall x : Qc, rnd (rnd x) = rnd x) ->
  SkInv s ->
  (plain_count s <> w0 -> (w0 < rnd (plain_count s))%Qc /\ (rnd (wsub (plain_count s) w1) < rnd (plain_count s))%Qc) ->
  answerable (sk_abs s).
Proof.
  intros Rm R0 Ri I Hc q Q0 Q1 Nc. rewrite (plain_count_refines s I) in Hc. destruct (Hc Nc) as (C0 & C1).
  pose proof (unit_interval_finite q Q0 Q1) as Fq.
  destruct (a_quantile_some rnd (am_of mt) Rm R0 Ri (sk_abs s) (f2q q) (SkInv_awf s I) Nc) as (y & Ey); try assumption.
  - rewrite <- f2q_f64_zero. apply (fle_iff _ _ f64_zero_finite Fq). exact Q0.
  - rewrite <- f2q_f64_one. apply (fle_iff _ _ Fq f64_one_finite). exact Q1.
  - rewrite Ey. discriminate.
Qed.
End Exec.

(* exact rank arithmetic: every sketch with the invariant is answerable *)
Theorem answerable_id mt s : SkInv s -> answerable (fun x => x) mt (sk_abs s).
Proof.
  intros I. apply answerable_of_rnd; [auto|reflexivity|reflexivity|exact I|].
  intros Nc. pose proof (a_count_nonneg (sk_abs s) (SkInv_awf s I)) as C0.
  rewrite <- (plain_count_refines s I) in C0. split; qlra.
Qed.

(* the premises are satisfiable and the conclusions are not vacuous: a one-bin sparse sketch *)
Example batch_exec_example :
  let rnd := fun x : Qc => x in
  SkInv ex_sk1 /\ answerable rnd ex_mt (sk_abs ex_sk1) /\ fD4 fx_all = true /\ fD5 fx_all = true /\
  snd (quantiles_with (plain_quantile rnd fx_all ex_mt) ex_sk1 [f64_zero; f64_one]) = ROk [w_of_Z 3; w_of_Z 3] /\
  snd (quantiles_with (plain_quantile rnd fx_all ex_mt) ex_sk1 [f64_zero; f64_nan; f64_one]) = RErr EBadQuantile /\
  snd (quantiles_with (plain_quantile rnd fx_all ex_mt) (sk_new ex_mapid KSparse KSparse false) [f64_one]) = RErr EEmpty.
Proof.
  cbv zeta.
  assert (I : SkInv ex_sk1).
  { unfold SkInv, ex_sk1. cbn [sk_pos sk_neg sk_zero StInv].
    split; [|split].
    - split; [reflexivity|]. split.
      + constructor; [|constructor]. cbn [snd]. vm_compute. reflexivity.
      + intros k w [E|[]]. injection E as <- <-. vm_compute. intuition discriminate.
    - split; [reflexivity|]. split; [constructor|intros k w []].
    - apply Qcle_refl. }
  split; [exact I|]. split; [now apply answerable_id|].
  split; [reflexivity|]. split; [reflexivity|].
  split; [vm_compute; reflexivity|]. split; vm_compute; reflexivity.
Qed.
